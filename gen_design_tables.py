#!/usr/bin/env python3
"""Regenerates the tables of DESIGN.md that are derived from files:
  seeded  <- /verif/seeded/*/meta.json (+ /verif/mutants/results.json)
  costs   <- /verif/evidence/*.json (quick) and /verif/thorough_results.json
"""
import glob, json, os, re

def block(s, name, body):
    a = s.index('<!-- BEGIN:%s -->' % name) + len('<!-- BEGIN:%s -->' % name)
    b = s.index('<!-- END:%s -->' % name)
    return s[:a] + '\n' + body + '\n' + s[b:]

def seeded():
    rows = []
    for d in sorted(glob.glob('/verif/seeded/*/meta.json')):
        m = json.load(open(d))
        name = os.path.basename(os.path.dirname(d))
        conf = m.get('confirmation', {})
        if m.get('revalidated', {}).get('checks'):
            # the latest run of the current checks against this change
            conf = dict(conf, checks=m['revalidated']['checks'], caught_by=m['revalidated'].get('caught_by', []))
        caught = conf.get('caught_by', [])
        later = m.get('caught_after_strengthening')
        kinds = []
        for p, c in conf.get('checks', {}).items():
            if c.get('exit') == 1:
                kinds += c.get('violation_kinds', [])[:3]
        summ = re.sub(r'\s+', ' ', m.get('summary', '')).replace('|', '/')
        if len(summ) > 170:
            summ = summ[:167] + '...'
        needs = re.sub(r'\s+', ' ', m.get('needs_to_manifest', m.get('needs', ''))).replace('|', '/')
        if len(needs) > 120:
            needs = needs[:117] + '...'
        res = ', '.join(caught) if caught else 'missed'
        if later:
            res = 'missed at first; ' + later
        elif m.get('not_caught_reason'):
            res = m['not_caught_reason']
        rows.append('| %s | %s | %s | %s | %s |' % (name, summ, needs, res, ', '.join(kinds[:3])))
    out = ['**Seeded defects (all pass the existing suite; %d confirmed).**' % len(rows), '',
           '| seeded | change | needs, to manifest | caught by (quick tier, current checks) | violation kinds |', '|---|---|---|---|---|'] + rows
    mr = '/verif/mutants/results.json'
    if os.path.exists(mr):
        res = json.load(open(mr))
        out += ['', '**Hand-written mutants (`mutants/*.diff`), quick tier.**', '', '| mutant | check | result |', '|---|---|---|']
        for k in sorted(res):
            out.append('| %s | %s | %s |' % (k, res[k]['check'], res[k]['result']))
    return '\n'.join(out)

def equivalents():
    rows = []
    alarms = 0
    for d in sorted(glob.glob('/verif/equivalents/*/meta.json')):
        m = json.load(open(d))
        name = os.path.basename(os.path.dirname(d))
        ev = m.get('evaluation', {})
        if m.get('revalidated', {}).get('checks'):
            ev = dict(ev, checks=m['revalidated']['checks'], alarms=m['revalidated'].get('alarms', []))
        al = ev.get('alarms', [])
        alarms += len(al)
        summ = re.sub(r'\s+', ' ', m.get('summary', '')).replace('|', '/')
        if len(summ) > 200:
            summ = summ[:197] + '...'
        obs = re.sub(r'\s+', ' ', m.get('observable_difference', '')).replace('|', '/')
        if len(obs) > 140:
            obs = obs[:137] + '...'
        rows.append('| %s | %s | %s | %s | %s |' % (name, summ, obs, ', '.join(sorted(ev.get('checks', {}))), 'silent' if not al else 'ALARM: ' + ', '.join(al)))
    return '\n'.join(['**Behaviour-preserving rewrites written by independent sub-agents (%d; %d alarms).** Each passes the existing suite; every listed check was run against it in the quick tier and must exit 0.' % (len(rows), alarms), '',
                      '| rewrite | change | observable difference | checks run | result |', '|---|---|---|---|---|'] + rows)

def costs():
    th = {}
    if os.path.exists('/verif/thorough_results.json'):
        th = json.load(open('/verif/thorough_results.json'))
    out = ['| property | quick: events | quick: wall s | thorough: events | thorough: wall s |', '|---|---|---|---|---|']
    for f in sorted(glob.glob('/verif/evidence/C*.json')):
        d = json.load(open(f))
        p = d['property_id']
        if d['tier'] != 'quick':
            continue
        t = th.get(p, {})
        out.append('| %s | %s | %.0f | %s | %s |' % (p, '{:,}'.format(d['coverage']['evaluations']), d['wall_s'],
                                                 '{:,}'.format(t['events']) if t else '', ('%.0f' % t['wall_s']) if t else ''))
    return '\n'.join(out)

s = open('/verif/DESIGN.md').read()
s = block(s, 'seeded', seeded())
s = block(s, 'costs', costs())
s = block(s, 'equivalents', equivalents())
open('/verif/DESIGN.md', 'w').write(s)
print('tables regenerated')
