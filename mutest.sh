#!/bin/bash
# mutest.sh <patch|-R:commit> <prop> [tier] : apply a change to /repo, run one check, undo.
# Used only for self-validation; never leaves /repo modified.
set -u
cd /verif
what="$1"; prop="$2"; tier="${3:-quick}"
if [ -n "$(git -C /repo status --porcelain)" ]; then echo "/repo not clean"; exit 9; fi
case "$what" in
  -R:*) git -C /repo show "${what#-R:}" | git -C /repo apply -R || exit 9 ;;
  *) git -C /repo apply "$what" || exit 9 ;;
esac
(cd /repo && GOFLAGS=-mod=readonly go build ./... ) || { git -C /repo checkout -- .; echo "mutant does not build"; exit 8; }
./check "$prop" "$tier" > /tmp/mutest.$$.out 2>&1; rc=$?
git -C /repo checkout -- .
grep -c '^VIOLATION' /tmp/mutest.$$.out | sed 's/^/violation lines: /'
grep -m3 -A1 '^VIOLATION' /tmp/mutest.$$.out
grep -e '^RESULT' -e '^INCONCLUSIVE' -e 'total violations' /tmp/mutest.$$.out
rm -f /tmp/mutest.$$.out
echo "rc=$rc"
exit $rc
