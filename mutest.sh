#!/bin/bash
# mutest.sh <patch|-R:commit> <prop> [tier] : self-validation. Applies a change to a
# scratch worktree of /repo (never to /repo itself), runs one check against it
# via VERIF_REPO, removes the worktree.
set -u
cd /verif
what="$1"; prop="$2"; tier="${3:-quick}"
wt=/tmp/mut/wt.$$
mkdir -p /tmp/mut
git -C /repo worktree add -q --detach "$wt" HEAD || exit 9
cleanup() { git -C /repo worktree remove --force "$wt" 2>/dev/null; }
trap cleanup EXIT
case "$what" in
  -R:*) git -C /repo show "${what#-R:}" | git -C "$wt" apply -R || exit 9 ;;
  *) git -C "$wt" apply "$(realpath "$what")" || exit 9 ;;
esac
(cd "$wt" && GOFLAGS=-mod=readonly go build ./... ) || { echo "mutant does not build"; exit 8; }
out=/tmp/mut/out.$$
VERIF_REPO="$wt" VERIF_DIR_OVERRIDE= ./check "$prop" "$tier" > "$out" 2>&1; rc=$?
grep -c '^VIOLATION' "$out" | sed 's/^/violation lines: /'
grep -m2 -A1 '^VIOLATION' "$out"
grep -e '^RESULT' -e '^INCONCLUSIVE' -e 'total violations' "$out"
rm -f "$out"
echo "rc=$rc"
exit $rc
