#!/usr/bin/env python3
"""covmerge.py <prop> <func-coverage-text> <verif-dir>: fold compiler coverage of
the property's anchored files (what the workload executed; evidence only,
never a verdict) into the evidence file."""
import json, sys, re
prop, covtxt, vdir = sys.argv[1:4]
anch = None
for l in open(vdir + '/properties.jsonl'):
    p = json.loads(l)
    if p['id'] == prop:
        anch = set(p['anchors']['files'])
if anch is None:
    sys.exit(0)
per = {}
for l in open(covtxt):
    m = re.match(r'github.com/aclements/go-moremath/(\S+?):(\d+):\s+(\S+)\s+([\d.]+)%', l)
    if not m:
        continue
    f, _, fn, pct = m.groups()
    if f in anch:
        per.setdefault(f, {})[fn] = float(pct)
ev = vdir + '/evidence/%s.json' % prop
d = json.load(open(ev))
d['coverage']['anchors_statement_coverage_percent'] = per
zero = sorted('%s:%s' % (f, fn) for f, fs in per.items() for fn, p in fs.items() if p == 0)
d['coverage']['anchored_functions_never_executed'] = zero
json.dump(d, open(ev, 'w'), indent=1)
