#!/usr/bin/env python3
"""eqeval.py <prop> [--props C01,C03] : run our checks against behaviour-preserving
rewrites a sub-agent produced for <prop> (/tmp/seed/<prop>eq/<k>/patch.diff, meta.json).
Every check is expected to stay silent (exit 0). Kept under /verif/equivalents/."""
import json, os, shutil, subprocess, sys, tempfile
ENV = dict(os.environ, GOFLAGS='-mod=readonly', GOPROXY='off', GOSUMDB='off', GOTOOLCHAIN='local')
def sh(cmd, cwd=None, env=ENV, timeout=7200):
    r = subprocess.run(cmd, shell=True, cwd=cwd, env=env, capture_output=True, text=True, timeout=timeout)
    return r.returncode, r.stdout + r.stderr
prop = sys.argv[1]
extra = []
args = sys.argv[2:]
src = '/tmp/seed/%seq' % prop
tag = 'eq'
vdir = '/verif'
while args:
    a = args.pop(0)
    if a == '--props':
        extra = args.pop(0).split(',')
    elif a == '--src':
        src = args.pop(0)
    elif a == '--tag':
        tag = args.pop(0)
    elif a == '--dir':
        vdir = args.pop(0)
os.makedirs('/tmp/mut', exist_ok=True)
for k in sorted(os.listdir(src)):
    d = os.path.join(src, k)
    if not os.path.isfile(os.path.join(d, 'patch.diff')):
        continue
    name = '%s-%s%s' % (prop, tag, k)
    try:
        meta = json.load(open(os.path.join(d, 'meta.json')))
    except Exception as e:
        meta = {'summary': 'meta.json unreadable'}
    wt = tempfile.mkdtemp(prefix='eq', dir='/tmp/mut'); os.rmdir(wt)
    subprocess.run(['git', '-C', '/repo', 'worktree', 'add', '-q', '--detach', wt, 'HEAD'], check=True)
    rec = {}
    try:
        rc, out = sh('git apply %s' % os.path.join(d, 'patch.diff'), cwd=wt)
        if rc != 0:
            rc, out = sh('git apply --3way %s && git reset -q' % os.path.join(d, 'patch.diff'), cwd=wt)
        if rc != 0:
            print(name, 'patch does not apply'); continue
        rc, out = sh('go build ./... && go test -vet=off -count=1 ./...', cwd=wt)
        rec['suite_passes'] = rc == 0
        res = {}
        for p in [prop] + extra:
            rc, out = sh('./check %s quick' % p, cwd=vdir, env=dict(os.environ, VERIF_REPO=wt))
            lines = [l for l in out.splitlines() if l.startswith('  kind=')][:3]
            res[p] = {'exit': rc, 'first_violations': lines}
        rec['checks'] = res
        rec['alarms'] = [p for p, c in res.items() if c['exit'] != 0]
        dst = os.path.join(vdir, 'equivalents', name)
        os.makedirs(dst, exist_ok=True)
        shutil.copy(os.path.join(d, 'patch.diff'), dst)
        m = dict(meta); m['evaluation'] = rec
        json.dump(m, open(os.path.join(dst, 'meta.json'), 'w'), indent=1)
    finally:
        subprocess.run(['git', '-C', '/repo', 'worktree', 'remove', '--force', wt])
    print('%s suite=%s alarms=%s | %s' % (name, rec.get('suite_passes'), rec.get('alarms'), meta.get('summary', '')[:140]))
    for p in rec.get('alarms', []):
        for l in rec['checks'][p]['first_violations']:
            print('     ', p, l[:300])
