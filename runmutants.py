#!/usr/bin/env python3
"""Runs every mutants/<cNN>-*.diff against ./check CNN quick (scratch worktree via
mutest.sh) and records the outcome in mutants/results.json."""
import glob, json, os, re, subprocess
res = {}
for f in sorted(glob.glob('/verif/mutants/*.diff')):
    name = os.path.basename(f)[:-5]
    prop = name.split('-')[0].upper()
    r = subprocess.run(['./mutest.sh', f, prop], cwd='/verif', capture_output=True, text=True)
    out = r.stdout
    kinds = sorted(set(re.findall(r'total violations of kind (\S+):', out)))
    if r.returncode == 1:
        result = 'caught (' + ', '.join(kinds[:4]) + ')' if kinds else 'caught'
        if 'fatal error' in out:
            result = 'caught (process-fatal: ' + re.findall(r'fatal error: (.*)', out)[0] + ')'
    elif r.returncode == 0:
        result = 'silent (equivalent under the statement, see section 8)'
    elif r.returncode == 8:
        result = 'mutant does not build'
    else:
        result = 'rc=%d' % r.returncode
    res[name] = {'check': prop, 'result': result}
    print(name, result, flush=True)
json.dump(res, open('/verif/mutants/results.json', 'w'), indent=1)
