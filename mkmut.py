#!/usr/bin/env python3
"""mkmut.py <name> <file> <old> <new>: write /verif/mutants/<name>.diff replacing
the unique occurrence of <old> by <new> in <file> of /repo (done in a scratch
worktree; /repo is never touched)."""
import subprocess, sys, os, tempfile
name, path, old, new = sys.argv[1:5]
wt = tempfile.mkdtemp(prefix='mk', dir='/tmp/mut') if os.path.isdir('/tmp/mut') else None
if wt is None:
    os.makedirs('/tmp/mut'); wt = tempfile.mkdtemp(prefix='mk', dir='/tmp/mut')
os.rmdir(wt)
subprocess.run(['git','-C','/repo','worktree','add','-q','--detach',wt,'HEAD'],check=True)
try:
    p=os.path.join(wt,path)
    s=open(p).read()
    old=old.encode().decode('unicode_escape'); new=new.encode().decode('unicode_escape')
    if s.count(old)!=1:
        print('occurrences of old:', s.count(old)); sys.exit(1)
    open(p,'w').write(s.replace(old,new))
    r=subprocess.run('gofmt -l . >&2; GOFLAGS=-mod=readonly go build ./... && GOFLAGS=-mod=readonly go test -vet=off -count=1 ./... 2>&1 | grep -v -e "^ok" -e "no test files"',shell=True,cwd=wt,capture_output=True,text=True)
    if r.stdout.strip() or r.returncode not in (0,1):
        print('NOTE: repo tests/build complain:\n'+r.stdout+r.stderr)
    d=subprocess.check_output(['git','-C',wt,'diff']).decode()
    os.makedirs('/verif/mutants',exist_ok=True)
    open('/verif/mutants/%s.diff'%name,'w').write(d)
    print('wrote mutants/%s.diff'%name)
finally:
    subprocess.run(['git','-C','/repo','worktree','remove','--force',wt])
