#!/bin/bash
# Concurrency stage of C20: the monitor built with the Go race detector, run
# three times (reports vary from run to run); every "WARNING: DATA RACE" block
# is a violation. Called by ./check after the guard/determinism stages held.
set -u
VERIF_DIR="$(cd "$(dirname "${BASH_SOURCE[0]}")" && pwd)"
tier="${1:-quick}"
BIN="${BIN:-$VERIF_DIR/bin}"
EVDIR="${VERIF_EVIDENCE_DIR:-$VERIF_DIR/evidence}"
export GOFLAGS=-mod=mod GOPROXY=off GOSUMDB=off GOTOOLCHAIN=local
MODFLAG=()
if [ -n "${VERIF_REPO:-}" ]; then MODFLAG=(-modfile="$BIN/go.alt.mod"); fi
if ! (cd "$VERIF_DIR/harness" && go test -c -race "${MODFLAG[@]}" -o "$BIN/monitor.race.$$.test" ./run) >"$BIN/build.race.log" 2>&1; then
  cat "$BIN/build.race.log"
  echo "INCONCLUSIVE property=C20 race harness does not build against /repo"
  exit 2
fi
R="$BIN/race"
rm -rf "$R"; mkdir -p "$R/evidence"
cp "$VERIF_DIR/known_findings.json" "$R/" 2>/dev/null
runs=3
[ "$tier" = thorough ] && runs=6
total=0; rcall=0
for i in $(seq 1 $runs); do
  GORACE="halt_on_error=0 log_path=$R/race.$i" VERIF_DIR="$R" VERIF_EVIDENCE_DIR="$R/evidence" VERIF_STAGE=race VERIF_PROP=C20 VERIF_TIER="$tier" VERIF_SEED=$(( ${VERIF_SEED:-1} * 100 + i )) \
    timeout -s QUIT 3600 "$BIN/monitor.race.$$.test" -test.run '^TestMonitor$' -test.timeout 0 >"$R/out.$i.log" 2>&1
  rc=$?
  n=$(cat "$R"/race.$i.* 2>/dev/null | grep -a -c 'WARNING: DATA RACE')
  total=$((total + n))
  if ! grep -a -q '^RESULT property=C20' "$R/out.$i.log"; then
    if [ "$n" -gt 0 ] || grep -a -q -e '^fatal error:' -e '^panic:' "$R/out.$i.log"; then
      : # a crash with race reports or a runtime-fatal error (e.g. concurrent map writes) is judged below
      rcall=1
      grep -a -m2 -e '^fatal error:' -e '^panic:' "$R/out.$i.log"
    else
      echo "INCONCLUSIVE property=C20 race-stage process ended abnormally (status $rc), see $R/out.$i.log"
      exit 2
    fi
  else
    grep -a -e '^VIOLATION' -e '^  kind=' -e '^INCONCLUSIVE' "$R/out.$i.log"
    [ $rc -eq 1 ] && rcall=1
    # the test binary turns "held, but the race detector reported" into status 3:
    # with reports in hand that is a violation (judged below), not inconclusive
    [ $rc -eq 3 ] && [ "$n" -eq 0 ] && { echo "INCONCLUSIVE property=C20 race stage inconclusive"; exit 2; }
  fi
done
# Race sweep: every other property's monitor is itself a 16-worker concurrent
# workload over the library (each worker on its own inputs), so running it
# under the race detector exposes package-level mutable state in code paths the
# C20 inventory calls only with a few argument values. Reduced case counts
# (VERIF_SCALE); only race reports and runtime-fatal errors count here, the
# value verdicts of those monitors belong to their own checks.
sweep="C04 C05 C07 C08 C09 C12 C14 C15 C16"; scale=0.1
[ "$tier" = thorough ] && { sweep="C01 C02 C03 C04 C05 C06 C07 C08 C09 C10 C11 C12 C13 C14 C15 C16 C17 C18 C19"; scale=0.3; }
sweep_reports=0; sweep_props=0
for p in $sweep; do
  GORACE="halt_on_error=0 log_path=$R/sweep.$p" VERIF_DIR="$R" VERIF_EVIDENCE_DIR="$R/evidence" VERIF_STAGE= VERIF_PROP=$p VERIF_TIER=quick VERIF_SCALE=$scale VERIF_SEED=${VERIF_SEED:-1} \
    timeout -s QUIT 3600 "$BIN/monitor.race.$$.test" -test.run '^TestMonitor$' -test.timeout 0 >"$R/sweep.$p.out" 2>&1
  n=$(cat "$R"/sweep.$p.[0-9]* 2>/dev/null | grep -a -c 'WARNING: DATA RACE')
  if grep -a -q -e '^fatal error:' "$R/sweep.$p.out"; then n=$((n + 1)); grep -a -m1 '^fatal error:' "$R/sweep.$p.out"; fi
  sweep_reports=$((sweep_reports + n)); sweep_props=$((sweep_props + 1))
  [ "$n" -gt 0 ] && echo "  race sweep: $n report(s) while running the $p workload under the race detector"
done
total=$((total + sweep_reports))
keep="$VERIF_DIR/replays/C20"
if [ "$total" -gt 0 ]; then
  mkdir -p "$keep"
  cat "$R"/race.*.* "$R"/sweep.*.[0-9]* > "$keep/race-reports-$tier-s${VERIF_SEED:-1}.log" 2>/dev/null
  echo "VIOLATION property=C20 replay=$keep/race-reports-$tier-s${VERIF_SEED:-1}.log"
  echo "  $total data race report(s) from the race detector over $runs runs of the shared-input stage and the race sweep; library functions in the racing stacks:"
  grep -a -h -A12 'WARNING: DATA RACE' "$keep/race-reports-$tier-s${VERIF_SEED:-1}.log" | grep -o 'go-moremath/[^ ]*()' | sort | uniq -c | sort -rn | head -8
  rcall=1
elif [ $rcall -eq 1 ]; then
  mkdir -p "$keep"
  cat "$R"/out.*.log > "$keep/race-stage-$tier-s${VERIF_SEED:-1}.log"
  echo "VIOLATION property=C20 replay=$keep/race-stage-$tier-s${VERIF_SEED:-1}.log"
fi
# fold the race-stage observations into the evidence file
rm -f "$BIN/monitor.race.$$.test"
python3 - "$EVDIR/C20.json" "$R" "$total" "$runs" "$rcall" "$sweep_props" "$sweep_reports" "$scale" <<'PY'
import json, sys, glob
ev, R, total, runs, rcall = sys.argv[1], sys.argv[2], int(sys.argv[3]), int(sys.argv[4]), int(sys.argv[5])
sweep_props, sweep_reports, scale = int(sys.argv[6]), int(sys.argv[7]), float(sys.argv[8])
d = json.load(open(ev))
calls = 0; evals = 0
for f in glob.glob(R + '/evidence/C20.json'):
    r = json.load(open(f))
    calls = r['coverage'].get('race_stage_concurrent_calls', 0)
    evals = r['coverage'].get('evaluations', 0)
c = d['coverage']
c['race_detector_runs'] = runs
c['race_reports'] = total
c['race_sweep'] = {'monitors_run_under_race_detector': sweep_props, 'case_count_scale': scale, 'race_reports': sweep_reports}
sw = 0
for f in glob.glob(R + '/evidence/C*.json'):
    if not f.endswith('/C20.json'):
        sw += json.load(open(f))['coverage'].get('evaluations', 0)
c['race_sweep']['library_call_events_under_race_detector'] = sw
c['race_stage_concurrent_calls_per_run'] = calls
c['race_stage_results_compared_per_run'] = evals
c['evaluations'] = c.get('evaluations', 0) + runs * evals
if rcall:
    d['violations'] = d.get('violations', 0) + max(total, 1)
    d['verdict'] = 'violated'
json.dump(d, open(ev, 'w'), indent=1)
PY
echo "RACE-STAGE property=C20 runs=$runs race_reports=$total verdict=$([ $rcall -eq 0 ] && echo held || echo violated)"
exit $rcall
