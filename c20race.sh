#!/bin/bash
# Concurrency stage of C20: the monitor built with the Go race detector, run
# three times (reports vary from run to run); every "WARNING: DATA RACE" block
# is a violation. Called by ./check after the guard/determinism stages held.
set -u
VERIF_DIR="$(cd "$(dirname "${BASH_SOURCE[0]}")" && pwd)"
tier="${1:-quick}"
BIN="${BIN:-$VERIF_DIR/bin}"
EVDIR="${VERIF_EVIDENCE_DIR:-$VERIF_DIR/evidence}"
export GOFLAGS=-mod=mod GOPROXY=off GOSUMDB=off GOTOOLCHAIN=local
MODFLAG=()
if [ -n "${VERIF_REPO:-}" ]; then MODFLAG=(-modfile="$BIN/go.alt.mod"); fi
if ! (cd "$VERIF_DIR/harness" && go test -c -race "${MODFLAG[@]}" -o "$BIN/monitor.race.$$.test" ./run) >"$BIN/build.race.log" 2>&1; then
  cat "$BIN/build.race.log"
  echo "INCONCLUSIVE property=C20 race harness does not build against /repo"
  exit 2
fi
R="$BIN/race"
rm -rf "$R"; mkdir -p "$R/evidence"
cp "$VERIF_DIR/known_findings.json" "$R/" 2>/dev/null
runs=3
[ "$tier" = thorough ] && runs=6
total=0; rcall=0
for i in $(seq 1 $runs); do
  GORACE="halt_on_error=0 log_path=$R/race.$i" VERIF_DIR="$R" VERIF_EVIDENCE_DIR="$R/evidence" VERIF_STAGE=race VERIF_PROP=C20 VERIF_TIER="$tier" VERIF_SEED=$(( ${VERIF_SEED:-1} * 100 + i )) \
    timeout -s QUIT 3600 "$BIN/monitor.race.$$.test" -test.run '^TestMonitor$' -test.timeout 0 >"$R/out.$i.log" 2>&1
  rc=$?
  n=$(cat "$R"/race.$i.* 2>/dev/null | grep -c 'WARNING: DATA RACE')
  total=$((total + n))
  if ! grep -q '^RESULT property=C20' "$R/out.$i.log"; then
    if [ "$n" -gt 0 ] || grep -q -e '^fatal error:' -e '^panic:' "$R/out.$i.log"; then
      : # a crash with race reports or a runtime-fatal error (e.g. concurrent map writes) is judged below
      rcall=1
      grep -m2 -e '^fatal error:' -e '^panic:' "$R/out.$i.log"
    else
      echo "INCONCLUSIVE property=C20 race-stage process ended abnormally (status $rc), see $R/out.$i.log"
      exit 2
    fi
  else
    grep -e '^VIOLATION' -e '^  kind=' -e '^INCONCLUSIVE' "$R/out.$i.log"
    [ $rc -eq 1 ] && rcall=1
    [ $rc -eq 3 ] && { echo "INCONCLUSIVE property=C20 race stage inconclusive"; exit 2; }
  fi
done
keep="$VERIF_DIR/replays/C20"
if [ "$total" -gt 0 ]; then
  mkdir -p "$keep"
  cat "$R"/race.*.* > "$keep/race-reports-$tier-s${VERIF_SEED:-1}.log"
  echo "VIOLATION property=C20 replay=$keep/race-reports-$tier-s${VERIF_SEED:-1}.log"
  echo "  $total data race report(s) from the race detector over $runs runs; outermost entry points:"
  grep -h -A12 'WARNING: DATA RACE' "$keep/race-reports-$tier-s${VERIF_SEED:-1}.log" | grep -o 'verifmon/props\.[A-Za-z0-9_.()*]*\|go-moremath/[a-z/]*\.[A-Za-z0-9_.()*]*' | sort | uniq -c | sort -rn | head -8
  rcall=1
elif [ $rcall -eq 1 ]; then
  mkdir -p "$keep"
  cat "$R"/out.*.log > "$keep/race-stage-$tier-s${VERIF_SEED:-1}.log"
  echo "VIOLATION property=C20 replay=$keep/race-stage-$tier-s${VERIF_SEED:-1}.log"
fi
# fold the race-stage observations into the evidence file
rm -f "$BIN/monitor.race.$$.test"
python3 - "$EVDIR/C20.json" "$R" "$total" "$runs" "$rcall" <<'PY'
import json, sys, glob
ev, R, total, runs, rcall = sys.argv[1], sys.argv[2], int(sys.argv[3]), int(sys.argv[4]), int(sys.argv[5])
d = json.load(open(ev))
calls = 0; evals = 0
for f in glob.glob(R + '/evidence/C20.json'):
    r = json.load(open(f))
    calls = r['coverage'].get('race_stage_concurrent_calls', 0)
    evals = r['coverage'].get('evaluations', 0)
c = d['coverage']
c['race_detector_runs'] = runs
c['race_reports'] = total
c['race_stage_concurrent_calls_per_run'] = calls
c['race_stage_results_compared_per_run'] = evals
c['evaluations'] = c.get('evaluations', 0) + runs * evals
if rcall:
    d['violations'] = d.get('violations', 0) + max(total, 1)
    d['verdict'] = 'violated'
json.dump(d, open(ev, 'w'), indent=1)
PY
echo "RACE-STAGE property=C20 runs=$runs race_reports=$total verdict=$([ $rcall -eq 0 ] && echo held || echo violated)"
exit $rcall
