#!/usr/bin/env python3
"""seedeval.py <prop> [--props C01,C03] [--src /tmp/seed/<prop>] : confirm the seeded
changes a sub-agent produced for <prop> and run our checks against them.

For every <src>/<k>/ (patch.diff, demo_test.go, meta.json):
  1. in a scratch worktree of /repo: apply the patch, build, run the whole existing
     suite (must pass), run the demo (must fail); revert, run the demo (must pass);
  2. run ./check <prop> quick against the patched worktree (VERIF_REPO), plus any
     extra properties given with --props;
  3. if confirmed, keep it as /verif/seeded/<prop>-<k>/ with what was run and
     which checks caught it.
/repo itself is never modified."""
import json, os, shutil, subprocess, sys, tempfile

ENV = dict(os.environ, GOFLAGS='-mod=readonly', GOPROXY='off', GOSUMDB='off', GOTOOLCHAIN='local')

def sh(cmd, cwd=None, env=ENV, timeout=3600):
    r = subprocess.run(cmd, shell=True, cwd=cwd, env=env, capture_output=True, text=True, timeout=timeout)
    return r.returncode, r.stdout + r.stderr

def main():
    prop = sys.argv[1]
    src = '/tmp/seed/' + prop
    extra = []
    tier = 'quick'
    tag = ''
    args = sys.argv[2:]
    while args:
        a = args.pop(0)
        if a == '--props':
            extra = args.pop(0).split(',')
        elif a == '--src':
            src = args.pop(0)
        elif a == '--tier':
            tier = args.pop(0)
        elif a == '--tag':
            tag = args.pop(0)
    os.makedirs('/tmp/mut', exist_ok=True)
    for k in sorted(os.listdir(src)):
        d = os.path.join(src, k)
        if not os.path.isfile(os.path.join(d, 'patch.diff')):
            continue
        name = '%s-%s%s' % (prop, tag, k)
        meta = {}
        try:
            meta = json.load(open(os.path.join(d, 'meta.json')))
        except Exception as e:
            meta = {'property': prop, 'summary': 'meta.json unreadable: %s' % e}
        wt = tempfile.mkdtemp(prefix='seed', dir='/tmp/mut')
        os.rmdir(wt)
        subprocess.run(['git', '-C', '/repo', 'worktree', 'add', '-q', '--detach', wt, 'HEAD'], check=True)
        rec = {'name': name, 'ran': []}
        try:
            demo_dir = meta.get('demo_dir', 'stats').strip('/')
            demo_src = os.path.join(d, 'demo_test.go')
            demo_dst = os.path.join(wt, demo_dir, 'zz_seeded_demo_test.go')
            # pristine: demo passes
            shutil.copy(demo_src, demo_dst)
            rc0, out0 = sh('go test -vet=off -count=1 -run TestSeededDemo ./%s/' % demo_dir, cwd=wt)
            rec['demo_passes_on_pristine'] = rc0 == 0
            os.remove(demo_dst)
            rc, out = sh('git apply %s' % os.path.join(d, 'patch.diff'), cwd=wt)
            if rc != 0:
                rec['error'] = 'patch does not apply: ' + out[-300:]
                print(json.dumps(rec)); continue
            rc, out = sh('go build ./...', cwd=wt)
            rec['builds'] = rc == 0
            rc, out = sh('go test -vet=off -count=1 ./...', cwd=wt)
            rec['existing_suite_passes_with_change'] = rc == 0
            if rc != 0:
                rec['suite_output'] = out[-600:]
            shutil.copy(demo_src, demo_dst)
            rc1, out1 = sh('go test -vet=off -count=1 -run TestSeededDemo ./%s/' % demo_dir, cwd=wt)
            rec['demo_fails_with_change'] = rc1 != 0
            os.remove(demo_dst)
            rec['ran'] += ['go build ./...', 'go test -vet=off -count=1 ./... (existing suite, with the change)',
                           'go test -run TestSeededDemo ./%s/ (with and without the change)' % demo_dir]
            confirmed = rec['demo_passes_on_pristine'] and rec.get('builds') and rec['existing_suite_passes_with_change'] and rec['demo_fails_with_change']
            rec['confirmed'] = bool(confirmed)
            caught = {}
            for p in [prop] + extra:
                env = dict(os.environ, VERIF_REPO=wt)
                rc, out = sh('./check %s %s' % (p, tier), cwd='/verif', env=env, timeout=7200)
                kinds = sorted(set(l.split('kind=')[1].split()[0] for l in out.splitlines() if l.strip().startswith('kind=')))
                caught[p] = {'exit': rc, 'violation_kinds': kinds[:12]}
                rec['ran'].append('VERIF_REPO=<patched worktree> ./check %s %s -> exit %d' % (p, tier, rc))
            rec['checks'] = caught
            rec['caught_by'] = [p for p, c in caught.items() if c['exit'] == 1]
            if confirmed:
                dst = os.path.join('/verif/seeded', name)
                os.makedirs(dst, exist_ok=True)
                shutil.copy(os.path.join(d, 'patch.diff'), dst)
                shutil.copy(demo_src, dst)
                m = dict(meta)
                m.update({'breaks_property': prop, 'needs_to_manifest': meta.get('needs', ''), 'confirmation': rec})
                if tag.startswith('adv') or tag.startswith('r2'):
                    # white-box red-team change: written to pass the check as it stood
                    m['red_team'] = True
                    m['missed_by_check_as_it_stood'] = True
                    if rec['caught_by']:
                        kinds = []
                        for p in rec['caught_by']:
                            kinds += caught[p]['violation_kinds'][:3]
                        m['caught_after_strengthening'] = 'caught by %s after the red-team strengthening (%s)' % (', '.join(rec['caught_by']), ', '.join(kinds[:4]))
                json.dump(m, open(os.path.join(dst, 'meta.json'), 'w'), indent=1)
        finally:
            subprocess.run(['git', '-C', '/repo', 'worktree', 'remove', '--force', wt])
        print('%s confirmed=%s caught_by=%s summary=%s' % (name, rec.get('confirmed'), rec.get('caught_by'), meta.get('summary', '')[:150]))
        if not rec.get('confirmed'):
            print('   not confirmed:', {k: v for k, v in rec.items() if k not in ('ran', 'checks')})

main()
