#!/bin/bash
# run_all.sh [quick|thorough] [props...]: run every registered check once against /repo
# and summarise; regenerates every evidence file. Exit 0 iff all exit 0.
cd "$(dirname "$0")"
tier="${1:-quick}"; shift
props=("$@")
if [ ${#props[@]} -eq 0 ]; then
  props=($(python3 -c "import json; print(' '.join(c['property_id'] for c in json.load(open('MANIFEST.json'))['checks']))"))
fi
bad=0
for p in "${props[@]}"; do
  out=$(./check "$p" "$tier" 2>&1); rc=$?
  echo "$p rc=$rc $(echo "$out" | grep -c '^VIOLATION') violations, $(echo "$out" | grep -c '^KNOWN-FINDING') known-finding lines | $(echo "$out" | grep '^RESULT' | sed 's/RESULT property=[A-Z0-9]* //')"
  [ $rc -ne 0 ] && { bad=1; echo "$out" | grep -e '^VIOLATION' -e '^INCONCLUSIVE' -A1 | head -6; }
done
exit $bad
