package ref

import (
	"fmt"
	"math"
	"math/big"
)

// Reference models for C11 (QuantileCI). Nothing here calls the library.
//
//   C11Binom  the exact law of Binomial(n,q), q being the exact value of the
//             float64, as big.Int numerators over the common denominator;
//             range masses, exact comparisons of masses, the exact modes and
//             the left-biased greedy accumulation path (used to define
//             workload classes and hostile confidence levels, not as an
//             equality oracle: the statement does not prescribe the path).
//   C11Norm   the continuity-corrected normal approximation N(nq, nq(1-q)):
//             mu and sigma correctly rounded from exact arithmetic, the
//             central interval of content c through a bisection inverse of
//             Phi on math.Erfc (checked at start-up against the 384-bit
//             Newton inversion), band masses from math.Erfc evaluated on the
//             tail that does not cancel (checked against the 384-bit Phi).

// ---------------------------------------------------------------- binomial

// C11Step is one interval of the greedy path: buckets Lo..Hi-1.
type C11Step struct {
	Lo, Hi     int
	Sum        float64 // float64 nearest to the exact mass
	ShiftEqual bool    // buckets Lo+1..Hi carry exactly the same mass
	sum        *big.Int
}

type C11Binom struct {
	N              int
	Q              float64
	PMF            []float64 // nearest float64 to the exact masses
	ModeLo, ModeHi int       // smallest and largest arg max of the exact masses
	Path           []C11Step

	den *big.Int
	num []*big.Int
	cum []*big.Int
}

func NewC11Binom(n int, q float64) (*C11Binom, error) {
	if n < 1 || math.IsNaN(q) || q < 0 || q > 1 {
		return nil, fmt.Errorf("C11Binom: bad parameters n=%d q=%v", n, q)
	}
	r := new(big.Rat).SetFloat64(q)
	m, d := new(big.Int).Set(r.Num()), new(big.Int).Set(r.Denom())
	qq := new(big.Int).Sub(d, m)
	mp := make([]*big.Int, n+1)
	qp := make([]*big.Int, n+1)
	mp[0], qp[0] = big.NewInt(1), big.NewInt(1)
	for i := 1; i <= n; i++ {
		mp[i] = new(big.Int).Mul(mp[i-1], m)
		qp[i] = new(big.Int).Mul(qp[i-1], qq)
	}
	b := &C11Binom{N: n, Q: q, den: new(big.Int).Exp(d, big.NewInt(int64(n)), nil)}
	run := new(big.Int)
	for k := 0; k <= n; k++ {
		c := new(big.Int).Binomial(int64(n), int64(k))
		c.Mul(c, mp[k])
		c.Mul(c, qp[n-k])
		b.num = append(b.num, c)
		run = new(big.Int).Add(run, c)
		b.cum = append(b.cum, run)
		b.PMF = append(b.PMF, ratF(c, b.den))
	}
	if run.Cmp(b.den) != 0 {
		return nil, fmt.Errorf("C11Binom(%d,%v): masses do not sum to one", n, q)
	}
	for k := 0; k <= n; k++ {
		switch b.num[k].Cmp(b.num[b.ModeLo]) {
		case 1:
			b.ModeLo, b.ModeHi = k, k
		case 0:
			b.ModeHi = k
		}
	}
	b.greedy()
	return b, nil
}

var c11Zero = new(big.Int)

func (b *C11Binom) numAt(k int) *big.Int {
	if k < 0 || k > b.N {
		return c11Zero
	}
	return b.num[k]
}

// P is the mass of bucket k (0 outside 0..n), rounded to float64.
func (b *C11Binom) P(k int) float64 {
	if k < 0 || k > b.N {
		return 0
	}
	return b.PMF[k]
}

// CmpP compares the exact masses of buckets i and j.
func (b *C11Binom) CmpP(i, j int) int { return b.numAt(i).Cmp(b.numAt(j)) }

func (b *C11Binom) massNum(lo, hi int) *big.Int {
	if lo < 0 {
		lo = 0
	}
	if hi > b.N+1 {
		hi = b.N + 1
	}
	if hi <= lo {
		return new(big.Int)
	}
	s := new(big.Int).Set(b.cum[hi-1])
	if lo > 0 {
		s.Sub(s, b.cum[lo-1])
	}
	return s
}

// Mass is the exact mass of buckets lo..hi-1 (buckets outside 0..n carry
// none), rounded to float64.
func (b *C11Binom) Mass(lo, hi int) float64 { return ratF(b.massNum(lo, hi), b.den) }

// greedy builds the left-biased accumulation path from the lower mode: the
// larger neighbouring bucket is added, the left one on a tie, until no mass
// is left outside.
func (b *C11Binom) greedy() {
	l, r := b.ModeLo, b.ModeLo+1
	sum := new(big.Int).Set(b.num[l])
	push := func() {
		b.Path = append(b.Path, C11Step{Lo: l, Hi: r, Sum: ratF(sum, b.den), sum: new(big.Int).Set(sum),
			ShiftEqual: b.numAt(l).Cmp(b.numAt(r)) == 0})
	}
	push()
	for {
		lp, rp := b.numAt(l-1), b.numAt(r)
		if lp.Sign() == 0 && rp.Sign() == 0 {
			return
		}
		if lp.Cmp(rp) >= 0 {
			l--
			sum.Add(sum, lp)
		} else {
			r++
			sum.Add(sum, rp)
		}
		push()
	}
}

// StepFor is the index of the first path interval whose exact mass is at
// least c (the last interval if none is).
func (b *C11Binom) StepFor(c float64) int {
	cr := new(big.Rat).SetFloat64(c)
	if cr == nil {
		return len(b.Path) - 1
	}
	// sum/den >= a/d  <=>  sum*d >= a*den
	rhs := new(big.Int).Mul(cr.Num(), b.den)
	for j := range b.Path {
		lhs := new(big.Int).Mul(b.Path[j].sum, cr.Denom())
		if lhs.Cmp(rhs) >= 0 {
			return j
		}
	}
	return len(b.Path) - 1
}

// AtCumulative reports whether c is the float64 nearest to a cumulative
// mass of the path (exact=true) or one of its two neighbours.
func (b *C11Binom) AtCumulative(c float64) (near, exact bool) {
	for _, s := range b.Path {
		if c == s.Sum {
			return true, true
		}
		if c == math.Nextafter(s.Sum, 2) || c == math.Nextafter(s.Sum, -1) {
			near = true
		}
	}
	return near, false
}

// ------------------------------------------------------------------ normal

type C11Norm struct {
	N         int
	Q         float64
	Mu, Sigma float64
	TwoMuInt  bool // 2nq is an integer (the outward-rounded band is symmetric about mu)
	HalfInt   bool // nq-1/2 is an integer (mu lies on a bucket boundary)
}

func NewC11Norm(n int, q float64) C11Norm {
	nq := Mul(NI(int64(n)), NF(q)) // exact at 384 bits
	v := Mul(nq, Sub(NF(1), NF(q)))
	m := C11Norm{N: n, Q: q, Mu: F64(nq), Sigma: F64(Sqrt(v))}
	two := Mul(NF(2), nq)
	if two.IsInt() {
		m.TwoMuInt = true
		i, _ := two.Int(nil)
		m.HalfInt = i.Bit(0) == 1
	}
	return m
}

// C11Phi is Phi(z) from math.Erfc.
func C11Phi(z float64) float64 { return 0.5 * math.Erfc(-z/math.Sqrt2) }

// C11NormInv returns z with Phi(z)=alpha for 0<alpha<=1/2 by bisection (Phi
// as computed is monotone to within its rounding; the bracket collapses to
// neighbouring floats).
func C11NormInv(alpha float64) float64 {
	if !(alpha > 0) {
		return math.Inf(-1)
	}
	if alpha >= 0.5 {
		return 0
	}
	lo, hi := -40.0, 0.0 // Phi(-40) ~ 1e-350 underflows to 0 < alpha
	for i := 0; i < 200; i++ {
		mid := lo + (hi-lo)/2
		if mid <= lo || mid >= hi {
			break
		}
		if C11Phi(mid) < alpha {
			lo = mid
		} else {
			hi = mid
		}
	}
	return lo + (hi-lo)/2
}

// Central returns the end points of the central interval of content c of
// N(mu, sigma^2), 0<c<1.
func (m C11Norm) Central(c float64) (l1, r1 float64) {
	if m.Sigma == 0 {
		return m.Mu, m.Mu
	}
	var z float64
	if c < 0.5 {
		// (1-c)/2 = 1/2 - c/2 loses c below 1e-16: use the series
		// z = -sqrt(pi/2) c (1 + pi c^2/12 + ...) there
		if c < 1e-5 {
			z = -math.Sqrt(math.Pi/2) * c * (1 + math.Pi*c*c/12)
		} else {
			z = C11NormInv(0.5 - c/2)
		}
	} else {
		z = C11NormInv((1 - c) / 2) // exact subtraction for c >= 1/2
	}
	d := m.Sigma * z
	return m.Mu + d, m.Mu - d
}

// Mass is the mass N(mu, sigma^2) gives to [l-1/2, r-1/2].
func (m C11Norm) Mass(l, r int) float64 {
	a, b := float64(l)-0.5, float64(r)-0.5
	if b <= a {
		return 0
	}
	if m.Sigma == 0 {
		if a < m.Mu && m.Mu <= b {
			return 1
		}
		return 0
	}
	s := m.Sigma * math.Sqrt2
	ta, tb := (a-m.Mu)/s, (b-m.Mu)/s
	if ta >= 0 {
		return 0.5 * (math.Erfc(ta) - math.Erfc(tb))
	}
	if tb <= 0 {
		return 0.5 * (math.Erfc(-tb) - math.Erfc(-ta))
	}
	return 1 - 0.5*(math.Erfc(-ta)+math.Erfc(tb))
}

// Tail is the mass N(mu, sigma^2) leaves outside [l-1/2, r-1/2], i.e.
// 1-Mass(l,r) without the cancellation: when the band straddles mu it is the
// sum of the two outer erfc values (relative accuracy a few ulp however small
// it is); otherwise the band holds at most half of the mass and 1-Mass is
// exact to an ulp of a number >= 1/2.
func (m C11Norm) Tail(l, r int) float64 {
	a, b := float64(l)-0.5, float64(r)-0.5
	if b <= a {
		return 1
	}
	if m.Sigma == 0 {
		return 1 - m.Mass(l, r)
	}
	s := m.Sigma * math.Sqrt2
	ta, tb := (a-m.Mu)/s, (b-m.Mu)/s
	if ta < 0 && tb > 0 {
		return 0.5 * (math.Erfc(-ta) + math.Erfc(tb))
	}
	return 1 - m.Mass(l, r)
}

// CForEnd is the content of the central interval whose lower end is x<mu.
func (m C11Norm) CForEnd(x float64) float64 {
	if m.Sigma == 0 || !(x < m.Mu) {
		return math.NaN()
	}
	return 1 - math.Erfc((m.Mu-x)/(m.Sigma*math.Sqrt2))
}

// C11SelfTest checks the C11 references against each other, against the C06
// table, against the 384-bit normal functions and against textbook values.
func C11SelfTest() error {
	// binomial: against the C06 exact table and closed textbook values
	for _, n := range []int{1, 2, 4, 5, 13, 30} {
		for _, q := range []float64{0, 1, 0.5, 0.25, 0.2, 1e-9, 1 - 1e-9, 0.975} {
			a, err := NewC11Binom(n, q)
			if err != nil {
				return err
			}
			t, err := BinomExact(n, q)
			if err != nil {
				return err
			}
			for k := 0; k <= n; k++ {
				if a.PMF[k] != t.PMF[k] {
					return fmt.Errorf("C11Binom(%d,%v) pmf(%d)=%v, C06 table %v", n, q, k, a.PMF[k], t.PMF[k])
				}
				if c := a.Mass(0, k+1); c != t.CDF[k] {
					return fmt.Errorf("C11Binom(%d,%v) mass(0..%d)=%v, C06 table %v", n, q, k, c, t.CDF[k])
				}
			}
			if a.ModeLo != t.Mode {
				return fmt.Errorf("C11Binom(%d,%v) mode %d, C06 table %d", n, q, a.ModeLo, t.Mode)
			}
			last := a.Path[len(a.Path)-1]
			if last.Sum != 1 {
				return fmt.Errorf("C11Binom(%d,%v): greedy path ends with mass %v", n, q, last.Sum)
			}
			for j := 1; j < len(a.Path); j++ {
				p, c := a.Path[j-1], a.Path[j]
				if !(c.Lo <= p.Lo && c.Hi >= p.Hi && c.Hi-c.Lo == p.Hi-p.Lo+1) {
					return fmt.Errorf("C11Binom(%d,%v): greedy path not nested at step %d", n, q, j)
				}
			}
		}
	}
	b, _ := NewC11Binom(4, 0.5)
	want := []C11Step{{Lo: 2, Hi: 3, Sum: 0.375}, {Lo: 1, Hi: 3, Sum: 0.625, ShiftEqual: true}, {Lo: 1, Hi: 4, Sum: 0.875}, {Lo: 0, Hi: 4, Sum: 0.9375, ShiftEqual: true}, {Lo: 0, Hi: 5, Sum: 1}}
	if len(b.Path) != len(want) {
		return fmt.Errorf("C11Binom(4,0.5): path of %d steps", len(b.Path))
	}
	for j, s := range want {
		g := b.Path[j]
		if g.Lo != s.Lo || g.Hi != s.Hi || g.Sum != s.Sum || g.ShiftEqual != s.ShiftEqual {
			return fmt.Errorf("C11Binom(4,0.5): step %d is %+v, want %+v", j, g, s)
		}
	}
	if b.StepFor(0.625) != 1 || b.StepFor(math.Nextafter(0.625, 1)) != 2 || b.StepFor(1e-300) != 0 || b.StepFor(math.Nextafter(1, 0)) != 4 {
		return fmt.Errorf("C11Binom(4,0.5): StepFor wrong")
	}
	if b5, _ := NewC11Binom(5, 0.5); b5.ModeLo != 2 || b5.ModeHi != 3 || !b5.Path[0].ShiftEqual {
		return fmt.Errorf("C11Binom(5,0.5): modes %d,%d", b5.ModeLo, b5.ModeHi)
	}
	// normal: inverse against the 384-bit Newton inversion
	for _, alpha := range []float64{0.5 - 1e-9, 0.49, 0.4, 0.25, 0.1, 0.02425, 0.01, 1e-3, 1e-6, 1e-9, 1e-12, 6e-17, 1e-30, 1e-100, 1e-300} {
		z := C11NormInv(alpha)
		zr := F64(NormInvz(NF(alpha), z))
		if math.Abs(z-zr) > 1e-13*(1+math.Abs(zr)) {
			return fmt.Errorf("C11NormInv(%v)=%.17g, 384-bit inversion %.17g", alpha, z, zr)
		}
	}
	// the small-c series against the inversion
	for _, c := range []float64{1e-5, 3e-6, 1e-7} {
		z1 := -math.Sqrt(math.Pi/2) * c * (1 + math.Pi*c*c/12)
		zr := F64(NormInvz(Quo(Sub(NF(1), NF(c)), NF(2)), z1))
		if math.Abs(z1-zr) > 1e-15*math.Abs(zr)+1e-25 {
			return fmt.Errorf("central z series at c=%v: %.17g, 384-bit inversion %.17g", c, z1, zr)
		}
	}
	// band masses against the 384-bit Phi
	for _, t := range []struct {
		n    int
		q    float64
		l, r int
	}{{31, 0.5, 0, 32}, {31, 0.5, 15, 16}, {100, 0.3, 25, 36}, {1000, 0.975, 970, 990}, {2000, 1e-9, 0, 1}, {50, 0.5, -3, 20}, {50, 0.5, 30, 60}, {35, 0.5, 0, 36}} {
		m := NewC11Norm(t.n, t.q)
		got := m.Mass(t.l, t.r)
		ref := F64(Sub(NormCDF(float64(t.r)-0.5, m.Mu, m.Sigma), NormCDF(float64(t.l)-0.5, m.Mu, m.Sigma)))
		if math.Abs(got-ref) > 1e-14 {
			return fmt.Errorf("C11Norm(%d,%v).Mass(%d,%d)=%.17g, 384-bit %.17g", t.n, t.q, t.l, t.r, got, ref)
		}
	}
	// the outside mass of wide bands against the 384-bit Phi, relatively
	for _, t := range []struct {
		n    int
		q    float64
		l, r int
	}{{2000, 0.25, 382, 619}, {1000, 0.5, 402, 600}, {100, 0.5, 18, 83}, {500, 0.9, 402, 498}, {50, 0.5, 3, 48}, {31, 0.5, 0, 32}, {100, 0.3, 25, 36}, {50, 0.5, 30, 60}} {
		m := NewC11Norm(t.n, t.q)
		got := m.Tail(t.l, t.r)
		ref := F64(Sub(NF(1), Sub(NormCDF(float64(t.r)-0.5, m.Mu, m.Sigma), NormCDF(float64(t.l)-0.5, m.Mu, m.Sigma))))
		if !(ref > 0) || math.Abs(got-ref) > 1e-11*ref {
			return fmt.Errorf("C11Norm(%d,%v).Tail(%d,%d)=%.17g, 384-bit %.17g", t.n, t.q, t.l, t.r, got, ref)
		}
	}
	m := NewC11Norm(31, 0.5)
	if m.Mu != 15.5 || !m.TwoMuInt || !m.HalfInt || math.Abs(m.Sigma-math.Sqrt(7.75)) > 1e-15 {
		return fmt.Errorf("C11Norm(31,0.5): %+v", m)
	}
	if m2 := NewC11Norm(100, 0.5); !m2.TwoMuInt || m2.HalfInt {
		return fmt.Errorf("C11Norm(100,0.5): %+v", m2)
	}
	if m3 := NewC11Norm(100, 0.3); m3.TwoMuInt {
		return fmt.Errorf("C11Norm(100,0.3) (q is not exactly 0.3): %+v", m3)
	}
	// textbook: 95%% central interval is +-1.959963984540054
	l1, r1 := C11Norm{N: 1, Mu: 0, Sigma: 1}.Central(0.95)
	if math.Abs(l1+1.959963984540054) > 1e-14 || math.Abs(r1-1.959963984540054) > 1e-14 {
		return fmt.Errorf("Central(0.95) = %v,%v", l1, r1)
	}
	return nil
}
