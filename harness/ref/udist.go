package ref

import (
	"fmt"
	"math/big"
	"math/bits"
	"sync"
)

// UTable is the exact null distribution of 2U for a ranked pool with tie
// vector T when N1 of the N items are drawn for the first sample.
type UTable struct {
	N1, N2 int
	Total  *big.Int
	Count  []*big.Int // Count[twoU], twoU = 0..2*N1*N2
	cdf    []float64  // Pr[2U' <= twoU]
	sf     []float64  // Pr[2U' >= twoU]
	pmf    []float64
}

func (t *UTable) finish() {
	n := len(t.Count)
	t.cdf = make([]float64, n)
	t.sf = make([]float64, n)
	t.pmf = make([]float64, n)
	tot := new(big.Float).SetPrec(256).SetInt(t.Total)
	acc := new(big.Int)
	ratio := func(x *big.Int) float64 {
		f, _ := new(big.Float).Quo(new(big.Float).SetPrec(256).SetInt(x), tot).Float64()
		return f
	}
	for i := 0; i < n; i++ {
		acc.Add(acc, t.Count[i])
		t.cdf[i] = ratio(acc)
		t.pmf[i] = ratio(t.Count[i])
	}
	acc.SetInt64(0)
	for i := n - 1; i >= 0; i-- {
		acc.Add(acc, t.Count[i])
		t.sf[i] = ratio(acc)
	}
}

// Max2U is 2*N1*N2.
func (t *UTable) Max2U() int { return len(t.Count) - 1 }

// CDF2 is Pr[2U' <= twoU] for any integer twoU.
func (t *UTable) CDF2(twoU int) float64 {
	if twoU < 0 {
		return 0
	}
	if twoU >= len(t.cdf) {
		return 1
	}
	return t.cdf[twoU]
}

// SF2 is Pr[2U' >= twoU].
func (t *UTable) SF2(twoU int) float64 {
	if twoU <= 0 {
		return 1
	}
	if twoU >= len(t.sf) {
		return 0
	}
	return t.sf[twoU]
}

func (t *UTable) PMF2(twoU int) float64 {
	if twoU < 0 || twoU >= len(t.pmf) {
		return 0
	}
	return t.pmf[twoU]
}

// twiceMidranks returns, per rank group, twice the mid-rank (an integer).
func twiceMidranks(T []int) []int {
	out := make([]int, len(T))
	pos := 0
	for k, t := range T {
		// ranks pos+1 .. pos+t, mid-rank = pos + (t+1)/2
		out[k] = 2*pos + t + 1
		pos += t
	}
	return out
}

// UEnum computes the table by definitional enumeration of all C(N,n1)
// subsets (N <= 24).
func UEnum(T []int, n1 int) *UTable {
	N := 0
	for _, t := range T {
		N += t
	}
	if N > 24 {
		panic("UEnum: N too large")
	}
	mid := twiceMidranks(T)
	item := make([]int, 0, N) // twice mid-rank of each item
	for k, t := range T {
		for j := 0; j < t; j++ {
			item = append(item, mid[k])
		}
	}
	n2 := N - n1
	counts := make([]int64, 2*n1*n2+1)
	if n1 == 0 {
		counts[0] = 1
	} else {
		// Gosper's hack
		limit := uint32(1) << uint(N)
		for s := uint32(1)<<uint(n1) - 1; s < limit; {
			twoR := 0
			for b := s; b != 0; b &= b - 1 {
				twoR += item[bits.TrailingZeros32(b)]
			}
			counts[twoR-n1*(n1+1)]++
			c := s & -s
			r := s + c
			s = (((r ^ s) >> 2) / c) | r
		}
	}
	t := &UTable{N1: n1, N2: n2, Total: new(big.Int)}
	t.Count = make([]*big.Int, len(counts))
	for i, c := range counts {
		t.Count[i] = big.NewInt(c)
		t.Total.Add(t.Total, t.Count[i])
	}
	t.finish()
	return t
}

type u128 struct{ hi, lo uint64 }

func (a *u128) addMul(b u128, m uint64) {
	// a += b*m (no overflow by construction: b*m is bounded by C(N,n1) < 2^126)
	h1, l1 := bits.Mul64(b.lo, m)
	h1 += b.hi * m
	var c uint64
	a.lo, c = bits.Add64(a.lo, l1, 0)
	a.hi, _ = bits.Add64(a.hi, h1, c)
}

func (a u128) big() *big.Int {
	x := new(big.Int).SetUint64(a.hi)
	x.Lsh(x, 64)
	return x.Add(x, new(big.Int).SetUint64(a.lo))
}

// UDP computes the table by a generating-function dynamic programme over rank
// groups: state (items taken, twice the rank sum) -> exact count in 128-bit
// integers. Requires C(N, n1) < 2^126 (N <= 128): every partial product is
// bounded by the total, so nothing overflows.
func UDP(T []int, n1 int) *UTable {
	N := 0
	for _, t := range T {
		N += t
	}
	if new(big.Int).Binomial(int64(N), int64(n1)).BitLen() > 126 {
		panic("UDP: C(N,n1) does not fit the 128-bit counters")
	}
	mid := twiceMidranks(T)
	n2 := N - n1
	// upper bound of 2R1
	max2R := n1 * (2*N + 1)
	w := max2R + 1
	cur := make([]u128, (n1+1)*w)
	nxt := make([]u128, (n1+1)*w)
	cur[0] = u128{0, 1}
	taken := 0 // max taken so far
	for k, t := range T {
		for i := range nxt {
			nxt[i] = u128{}
		}
		for a := 0; a <= taken && a <= n1; a++ {
			row := cur[a*w : (a+1)*w]
			for s, c := range row {
				if c.hi == 0 && c.lo == 0 {
					continue
				}
				for r := 0; r <= t && a+r <= n1; r++ {
					m := chooseU64(t, r)
					nxt[(a+r)*w+s+r*mid[k]].addMul(c, m)
				}
			}
		}
		taken += t
		cur, nxt = nxt, cur
	}
	tab := &UTable{N1: n1, N2: n2, Total: new(big.Int)}
	tab.Count = make([]*big.Int, 2*n1*n2+1)
	for i := range tab.Count {
		tab.Count[i] = new(big.Int)
	}
	row := cur[n1*w : (n1+1)*w]
	for s, c := range row {
		if c.hi == 0 && c.lo == 0 {
			continue
		}
		twoU := s - n1*(n1+1)
		if twoU < 0 || twoU >= len(tab.Count) {
			panic(fmt.Sprintf("UDP: 2U=%d out of range", twoU))
		}
		tab.Count[twoU] = c.big()
		tab.Total.Add(tab.Total, tab.Count[twoU])
	}
	want := new(big.Int).Binomial(int64(N), int64(n1))
	if want.Cmp(tab.Total) != 0 {
		panic("UDP: total is not C(N,n1)")
	}
	tab.finish()
	return tab
}

func chooseU64(n, k int) uint64 {
	return new(big.Int).Binomial(int64(n), int64(k)).Uint64()
}

// UCache caches tables per (T, n1).
type UCache struct {
	mu sync.Mutex
	m  map[string]*UTable
	// EnumMax: use enumeration up to this N, DP above.
	EnumMax int
}

func NewUCache(enumMax int) *UCache { return &UCache{m: map[string]*UTable{}, EnumMax: enumMax} }

func (c *UCache) Get(T []int, n1 int) *UTable {
	key := fmt.Sprint(n1, T)
	c.mu.Lock()
	t := c.m[key]
	c.mu.Unlock()
	if t != nil {
		return t
	}
	N := 0
	for _, x := range T {
		N += x
	}
	if N <= c.EnumMax {
		t = UEnum(T, n1)
	} else {
		t = UDP(T, n1)
	}
	c.mu.Lock()
	c.m[key] = t
	c.mu.Unlock()
	return t
}

// Compositions calls f with every composition of n into at least minParts
// positive parts (the slice is reused).
func Compositions(n, minParts int, f func(T []int)) {
	T := make([]int, 0, n)
	var rec func(rem int)
	rec = func(rem int) {
		if rem == 0 {
			if len(T) >= minParts {
				f(T)
			}
			return
		}
		for p := 1; p <= rem; p++ {
			T = append(T, p)
			rec(rem - p)
			T = T[:len(T)-1]
		}
	}
	rec(n)
}

// Allocations calls f with every vector r, 0<=r_k<=T_k.
func Allocations(T []int, f func(r []int)) {
	r := make([]int, len(T))
	var rec func(k int)
	rec = func(k int) {
		if k == len(T) {
			f(r)
			return
		}
		for v := 0; v <= T[k]; v++ {
			r[k] = v
			rec(k + 1)
		}
	}
	rec(0)
}

// USelfTest cross-checks the DP against enumeration for every (T,n1), N<=maxN.
func USelfTest(maxN int) error {
	var err error
	for N := 2; N <= maxN; N++ {
		Compositions(N, 1, func(T []int) {
			if err != nil {
				return
			}
			for n1 := 1; n1 < N; n1++ {
				a, b := UEnum(T, n1), UDP(T, n1)
				if len(a.Count) != len(b.Count) {
					err = fmt.Errorf("U self-test: size mismatch T=%v n1=%d", T, n1)
					return
				}
				for i := range a.Count {
					if a.Count[i].Cmp(b.Count[i]) != 0 {
						err = fmt.Errorf("U self-test: T=%v n1=%d 2U=%d enum=%v dp=%v", T, n1, i, a.Count[i], b.Count[i])
						return
					}
				}
			}
		})
	}
	return err
}
