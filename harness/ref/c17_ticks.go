package ref

import (
	"fmt"
	"math"
	"math/big"
)

// Reference model of the tick lattices of property C17. Nothing here calls
// the library under test; everything is exact rational arithmetic (Linear)
// or 384-bit logarithms (Log).

// LinSpacing is the exact tick spacing of a Linear scale at a level:
// b^floor(level/2), times 5 at odd levels in the default base (base 0, which
// counts in tens). For every other base odd levels repeat the even level
// below ("interval *= 1, for consistency").
func LinSpacing(base, level int) *big.Rat {
	b := int64(base)
	if base == 0 {
		b = 10
	}
	e := level >> 1 // arithmetic shift = floor division by two
	odd := level&1 == 1
	p := new(big.Int).Exp(big.NewInt(b), big.NewInt(int64(iabs(e))), nil)
	s := new(big.Rat).SetInt(p)
	if e < 0 {
		s.Inv(s)
	}
	if odd && base == 0 {
		s.Mul(s, big.NewRat(5, 1))
	}
	return s
}

func iabs(x int) int {
	if x < 0 {
		return -x
	}
	return x
}

func ratOf(x float64) *big.Rat { return new(big.Rat).SetFloat64(x) }

// RatFloor returns floor(x) and whether it fits an int64 comfortably.
func RatFloor(x *big.Rat) (int64, bool) {
	q := new(big.Int)
	m := new(big.Int)
	q.DivMod(x.Num(), x.Denom(), m) // Euclidean: m >= 0, so q = floor
	if !q.IsInt64() {
		return 0, false
	}
	v := q.Int64()
	if v > 1<<60 || v < -(1<<60) {
		return 0, false
	}
	return v, true
}

// RatCeil returns ceil(x).
func RatCeil(x *big.Rat) (int64, bool) {
	f, ok := RatFloor(x)
	if !ok {
		return 0, false
	}
	if x.IsInt() {
		return f, true
	}
	return f + 1, true
}

// LinInside returns the indices n (first..last, empty when first > last) of
// the multiples n*S lying in [lo-m, hi+m]; lo, hi and m are taken as the
// exact values of the float64s. m may be negative.
func LinInside(lo, hi float64, S *big.Rat, m float64) (first, last int64, ok bool) {
	mr := ratOf(m)
	a := new(big.Rat).Sub(ratOf(lo), mr)
	b := new(big.Rat).Add(ratOf(hi), mr)
	a.Quo(a, S)
	b.Quo(b, S)
	first, ok1 := RatCeil(a)
	last, ok2 := RatFloor(b)
	return first, last, ok1 && ok2
}

// LinOutside returns floor((lo+m)/S) and ceil((hi-m)/S): the rounded-out
// lattice cell ends of the domain shrunk by m at both ends.
func LinOutside(lo, hi float64, S *big.Rat, m float64) (first, last int64, ok bool) {
	mr := ratOf(m)
	a := new(big.Rat).Add(ratOf(lo), mr)
	b := new(big.Rat).Sub(ratOf(hi), mr)
	a.Quo(a, S)
	b.Quo(b, S)
	first, ok1 := RatFloor(a)
	last, ok2 := RatCeil(b)
	return first, last, ok1 && ok2
}

// LinTick is the float64 nearest to n*S.
func LinTick(n int64, S *big.Rat) float64 {
	v := new(big.Rat).Mul(new(big.Rat).SetInt64(n), S)
	f, _ := v.Float64()
	return f
}

// LogB returns log_base(x), x > 0, as a 384-bit float.
func LogB(x float64, base int) *big.Float {
	if x == 1 {
		return NI(0)
	}
	return Quo(Log(NF(x)), Log(NI(int64(base))))
}

func bfFloor(x *big.Float) (int64, bool) {
	if x.IsInf() {
		return 0, false
	}
	i, acc := x.Int(nil) // truncation toward zero
	if !i.IsInt64() {
		return 0, false
	}
	v := i.Int64()
	if v > 1<<60 || v < -(1<<60) {
		return 0, false
	}
	// acc reports the truncated value relative to x: Below means i < x.
	if acc == big.Above { // x negative non-integer, truncation went up
		v--
	}
	return v, true
}

func bfCeil(x *big.Float) (int64, bool) {
	f, ok := bfFloor(x)
	if !ok {
		return 0, false
	}
	if x.IsInt() {
		return f, true
	}
	return f + 1, true
}

// LogInside returns the integers n with E*n in [ulo-m, uhi+m], where ulo and
// uhi are positions in units of log_base and E = 2^level.
func LogInside(ulo, uhi *big.Float, E float64, m float64) (first, last int64, ok bool) {
	a := Quo(Sub(ulo, NF(m)), NF(E))
	b := Quo(Add(uhi, NF(m)), NF(E))
	first, ok1 := bfCeil(a)
	last, ok2 := bfFloor(b)
	return first, last, ok1 && ok2
}

// LogOutside returns floor((ulo+m)/E) and ceil((uhi-m)/E).
func LogOutside(ulo, uhi *big.Float, E float64, m float64) (first, last int64, ok bool) {
	a := Quo(Add(ulo, NF(m)), NF(E))
	b := Quo(Sub(uhi, NF(m)), NF(E))
	first, ok1 := bfFloor(a)
	last, ok2 := bfCeil(b)
	return first, last, ok1 && ok2
}

// C17SelfTest checks the lattice helpers against hand-computed values and a
// brute-force float scan on benign inputs.
func C17SelfTest() error {
	type sp struct {
		base, level int
		num, den    int64
	}
	for _, c := range []sp{{0, 0, 1, 1}, {0, 1, 5, 1}, {0, 2, 10, 1}, {0, 3, 50, 1}, {0, -1, 1, 2}, {0, -2, 1, 10}, {0, -3, 1, 20},
		{0, -4, 1, 100}, {2, 0, 1, 1}, {2, 1, 1, 1}, {2, 2, 2, 1}, {2, 3, 2, 1}, {2, -1, 1, 2}, {2, -2, 1, 2}, {2, -3, 1, 4},
		{10, 1, 1, 1}, {10, 3, 10, 1}, {10, -1, 1, 10}, {16, 4, 256, 1}, {3, -5, 1, 27}, {5, 7, 125, 1}} {
		if LinSpacing(c.base, c.level).Cmp(big.NewRat(c.num, c.den)) != 0 {
			return fmt.Errorf("LinSpacing(%d,%d)=%v want %d/%d", c.base, c.level, LinSpacing(c.base, c.level), c.num, c.den)
		}
	}
	// documented levels of the default base: level -1 has ticks at -1,-0.5,0,0.5,1
	f, l, _ := LinInside(-1, 1, LinSpacing(0, -1), 0)
	if f != -2 || l != 2 {
		return fmt.Errorf("LinInside(-1,1,level -1)=%d..%d", f, l)
	}
	f, l, _ = LinInside(0, 100, LinSpacing(0, 3), 0)
	if f != 0 || l != 2 {
		return fmt.Errorf("LinInside(0,100,level 3)=%d..%d", f, l)
	}
	f, l, _ = LinInside(15.4, 16.6, LinSpacing(0, -1), 0)
	if f != 31 || l != 33 {
		return fmt.Errorf("LinInside(15.4,16.6,level -1)=%d..%d", f, l)
	}
	f, l, _ = LinOutside(15.4, 16.6, LinSpacing(0, -1), 0)
	if f != 30 || l != 34 {
		return fmt.Errorf("LinOutside(15.4,16.6,level -1)=%d..%d", f, l)
	}
	f, l, _ = LinOutside(-7.5, -2, LinSpacing(0, 1), 0)
	if f != -2 || l != 0 {
		return fmt.Errorf("LinOutside(-7.5,-2,level 1)=%d..%d", f, l)
	}
	// brute force: multiples of 0.25 in [-3.1, 7.3]
	S := LinSpacing(2, -4)
	f, l, _ = LinInside(-3.1, 7.3, S, 0)
	cnt := 0
	for n := -100; n <= 100; n++ {
		if v := float64(n) * 0.25; v >= -3.1 && v <= 7.3 {
			cnt++
		}
	}
	if int(l-f+1) != cnt || LinTick(f, S) != -3 || LinTick(l, S) != 7.25 {
		return fmt.Errorf("LinInside brute force: %d..%d count %d", f, l, cnt)
	}
	// logs
	for _, c := range []struct {
		x    float64
		b    int
		want float64
	}{{1000, 10, 3}, {1024, 2, 10}, {1.0 / 81, 3, -4}, {65536, 16, 4}, {1, 5, 0}, {0.04, 5, -2}} {
		if g := F64(LogB(c.x, c.b)); math.Abs(g-c.want) > 1e-15*math.Max(1, math.Abs(c.want)) {
			return fmt.Errorf("LogB(%v,%d)=%v want %v", c.x, c.b, g, c.want)
		}
	}
	ulo, uhi := LogB(0.91, 10), LogB(200, 10)
	f, l, _ = LogInside(ulo, uhi, 1, 1e-30)
	if f != 0 || l != 2 {
		return fmt.Errorf("LogInside(0.91,200)=%d..%d", f, l)
	}
	f, l, _ = LogOutside(ulo, uhi, 1, 1e-30)
	if f != -1 || l != 3 {
		return fmt.Errorf("LogOutside(0.91,200)=%d..%d", f, l)
	}
	f, l, _ = LogInside(LogB(1, 10), LogB(1e8, 10), 4, 1e-30)
	if f != 0 || l != 2 {
		return fmt.Errorf("LogInside(1,1e8,E=4)=%d..%d", f, l)
	}
	f, l, _ = LogOutside(LogB(3e-7, 10), LogB(0.5, 10), 2, 1e-30)
	if f != -4 || l != 0 {
		return fmt.Errorf("LogOutside(3e-7,0.5,E=2)=%d..%d", f, l)
	}
	return nil
}
