package ref

import (
	"fmt"
	"math"
	"math/big"
	"sync"
)

// Reference model for the C14 histogram monitor: bin edges in 384-bit
// arithmetic with an ambiguity window around every edge, the reference slot
// of a value, and the set of answers a quantile query may give.
//
// Slots are numbered -1 (under), 0..N-1 (bins), N (over).

// HistWindow is the relative half-width of the ambiguity window around an
// edge of a linear histogram: relative to max(|min|,|max|) (the rounding of
// min+i*width and of delta*(x-min) is proportional to that scale, not to the
// edge, which can be 0). It is also the relative tolerance on a BinToValue
// result of either kind. The window of a logarithmic edge is LogWindow.
const HistWindow = 1e-12

// LogWindow is the relative half-width of the ambiguity window around the
// edge b^(i/m) of a logarithmic histogram ("within rounding distance").
//
// It is derived from the conditioning of the bin index t = m*log_b(x), not a
// flat number. Any float64 evaluation of t - m/ln(b)*ln(x), m*ln(x)/ln(b),
// the log2 / log10 variants (which split x into exponent and fraction and so
// carry an absolute error of a few 2^-53 on top of the relative one),
// ln(x)/ln(b^(1/m)) - is a handful of correctly rounded operations on
// quantities of size |t|, so its error is at most c*2^-53*max(1,|t|) with c
// around 6..10, i.e. c*2^-53*max(ln(b)/m, |ln x|) relative to x (dx/x =
// ln(b)/m*dt; ln(b)/m <= ln 10). A comparison of x with float64 edges
// (math.Pow, or the edge below times b^(1/m), i times over) is off by the
// error of the edge: a few 2^-53, resp. about 1.5*i*2^-52 <= 9*2^-52*|ln x|
// (ln(b)/m >= ln(2)/4). 32*2^-52*max(1,|ln edge|) covers every one of these
// with a factor of at least 3.5 to spare: 7.1e-15 up to the edge e, 8.2e-13
// at 1e50.
func LogWindow(b, m, i int) float64 {
	l := math.Abs(float64(i)) * math.Log(float64(b)) / float64(m)
	return 32 * 0x1p-52 * math.Max(1, l)
}

// HistRef describes the edges of one histogram shape.
type HistRef struct {
	Log  bool
	N    int
	Min  float64 // linear
	Max  float64
	B, M int // logarithmic: edges B^(i/M)
	// Dyadic: a linear shape whose bin count and bin width are powers of
	// two and whose min is a multiple of the width. Every float64 formula
	// for the bin index is then exact whenever x-min is exact, so there is
	// no rounding distance and the window is zero for such x.
	Dyadic bool
	Scale  float64
	Win    float64 // absolute window (linear)

	edge []*big.Float // N+1 edges
	lo   []*big.Float // edge - window
	hi   []*big.Float // edge + window
}

// NewLinRef builds the reference edges min + i*(max-min)/n.
func NewLinRef(min, max float64, n int) *HistRef {
	h := &HistRef{N: n, Min: min, Max: max}
	h.Scale = math.Max(math.Abs(min), math.Abs(max))
	h.Win = HistWindow * h.Scale
	bmin, bmax := NF(min), NF(max)
	r := Sub(bmax, bmin)
	win := NF(h.Win)
	for i := 0; i <= n; i++ {
		e := Add(bmin, Quo(Mul(NI(int64(i)), r), NI(int64(n))))
		h.edge = append(h.edge, e)
		h.lo = append(h.lo, Sub(e, win))
		h.hi = append(h.hi, Add(e, win))
	}
	h.Dyadic = linDyadic(min, max, n)
	return h
}

func isPow2(x float64) bool {
	if x <= 0 || math.IsInf(x, 0) {
		return false
	}
	f, _ := math.Frexp(x)
	return f == 0.5
}

func linDyadic(min, max float64, n int) bool {
	if n <= 0 || n&(n-1) != 0 {
		return false
	}
	r := max - min
	w := r / float64(n)
	if !isPow2(w) || w < 1e-200 || w > 1e200 {
		return false
	}
	if math.Mod(min, w) != 0 || math.Mod(max, w) != 0 {
		return false
	}
	if math.Abs(min)/w > 1<<40 || math.Abs(max)/w > 1<<40 {
		return false
	}
	return min+float64(n)*w == max
}

// exactDiff reports whether the float64 difference a-b is exact (TwoSum).
func exactDiff(a, b float64) bool {
	s := a - b
	if math.IsInf(s, 0) || math.IsNaN(s) {
		return false
	}
	bb := s - a
	err := (a - (s - bb)) + (-b - bb)
	return err == 0
}

var (
	logEdgeMu    sync.Mutex
	logEdgeCache = map[[3]int]*big.Float{}
)

// LogEdge is B^(i/M) at Prec bits (cached; i may be negative).
func LogEdge(b, m, i int) *big.Float {
	k := [3]int{b, m, i}
	logEdgeMu.Lock()
	e := logEdgeCache[k]
	logEdgeMu.Unlock()
	if e != nil {
		return e
	}
	if i%m == 0 && i >= 0 {
		e = PowInt(NI(int64(b)), i/m)
	} else if i > 400 {
		// wide histograms (thousands of edges): b^(i/m) = b^(i div m) *
		// b^((i mod m)/m), one cached root times an integer power, instead of
		// one Exp/Log per edge
		e = Mul(PowInt(NI(int64(b)), i/m), LogEdge(b, m, i%m))
	} else {
		e = Pow(NI(int64(b)), Quo(NI(int64(i)), NI(int64(m))))
	}
	logEdgeMu.Lock()
	logEdgeCache[k] = e
	logEdgeMu.Unlock()
	return e
}

// NewLogRef builds the reference edges b^(i/m), i = 0..n.
func NewLogRef(b, m, n int) *HistRef {
	h := &HistRef{Log: true, N: n, B: b, M: m}
	one := NF(1)
	for i := 0; i <= n; i++ {
		e := LogEdge(b, m, i)
		wr := NF(LogWindow(b, m, i))
		h.edge = append(h.edge, e)
		h.lo = append(h.lo, Mul(e, Sub(one, wr)))
		h.hi = append(h.hi, Mul(e, Add(one, wr)))
	}
	h.Min = 1
	h.Max = F64(h.edge[n])
	h.Scale = h.Max
	return h
}

// Edge is edge i rounded to float64.
func (h *HistRef) Edge(i int) float64 { return F64(h.edge[i]) }

// Slot returns the reference slot of x and, when x lies inside the ambiguity
// window of an edge, the slot on the other side of that edge (alt == slot
// otherwise). exact says that the zero-width window was used.
func (h *HistRef) Slot(x float64) (slot, alt int, exact bool) {
	bx := NF(x)
	exact = h.Dyadic && exactDiff(x, h.Min)
	if exact {
		// scaling x-min by a power of two is exact only without underflow or
		// overflow (e.g. delta*(-5e-324) is -0): stay well inside the normal range
		d := math.Abs(x - h.Min)
		t := d / ((h.Max - h.Min) / float64(h.N))
		if d != 0 && (d < 0x1p-900 || t < 0x1p-900 || t > 0x1p900 || d > 0x1p900) {
			exact = false
		}
	}
	// slot = number of edges <= x, minus 1
	cnt := func(es []*big.Float) int {
		lo, hi := 0, len(es) // first index with es[i] > x
		for lo < hi {
			mid := (lo + hi) / 2
			if es[mid].Cmp(bx) <= 0 {
				lo = mid + 1
			} else {
				hi = mid
			}
		}
		return lo
	}
	slot = cnt(h.edge) - 1
	if exact {
		return slot, slot, true
	}
	// edges whose window contains x: lo[i] <= x <= hi[i]
	a := cnt(h.lo) - 1 // last i with lo[i] <= x
	if a >= 0 && h.hi[a].Cmp(bx) >= 0 {
		// x within the window of edge a: slots a-1 and a
		if slot == a {
			return slot, a - 1, false
		}
		return slot, a, false
	}
	return slot, slot, false
}

// Value is the reference BinToValue(t) as a float64: linear interpolation
// min + t*(max-min)/n, or b^(t/m).
func (h *HistRef) Value(t float64) float64 {
	return F64(h.ValueBig(NF(t)))
}

var (
	lnIntMu    sync.Mutex
	lnIntCache = map[int]*big.Float{}
)

// lnInt is ln(b), cached.
func lnInt(b int) *big.Float {
	lnIntMu.Lock()
	defer lnIntMu.Unlock()
	l := lnIntCache[b]
	if l == nil {
		l = Log(NI(int64(b)))
		lnIntCache[b] = l
	}
	return l
}

func (h *HistRef) ValueBig(t *big.Float) *big.Float {
	if h.Log {
		if t.Sign() == 0 {
			return NF(1)
		}
		return Exp(Quo(Mul(t, lnInt(h.B)), NI(int64(h.M))))
	}
	bmin, bmax := NF(h.Min), NF(h.Max)
	return Add(bmin, Quo(Mul(t, Sub(bmax, bmin)), NI(int64(h.N))))
}

// ValueFrac is the reference value at bin + k/c (exact rational position).
func (h *HistRef) ValueFrac(bin int, k, c uint64) float64 {
	t := Add(NI(int64(bin)), Quo(nf().SetUint64(k), nf().SetUint64(c)))
	return F64(h.ValueBig(t))
}

// Tol is the tolerance on a BinToValue result near v.
func (h *HistRef) Tol(v float64) float64 {
	if h.Log {
		return HistWindow * math.Abs(v)
	}
	return h.Win
}

// QInterval says: under one accepted reading the ranked sample is the K-th
// (0-based) of the C samples of bin Bin, so the rank-interpolated position
// lies in [Bin+K/C, Bin+(K+1)/C].
type QInterval struct {
	Bin  int
	K, C uint64
	// OneBased: the interval comes from the 1-based reading (index g-1).
	OneBased bool
}

// QReadings says, per reading, whether NaN is an accepted answer
// (informational: lets the monitor report whether an implementation sticks
// to one reading).
//
// Extra0/Extra1 widen what a reading explains, for the consistency judgement
// only: when the reading's sample does not exist at all (0-based index >=
// total, i.e. q = 1; 1-based index -1, i.e. q*total < 1) the statement says
// nothing under that reading, and an implementation of that reading may
// answer NaN or clamp to the last / first sample. The clamped sample's
// interval is listed here when it is binned.
type QReadings struct {
	NaN0, NaN1     bool
	Extra0, Extra1 []QInterval
}

// QuantileRef computes what HistogramQuantile may return for a count vector.
// With g = floor(q*total) in exact arithmetic (plus the floor of the float64
// product and k when q == float64(k)/float64(total), see below) the ranked sample is the
// one of 0-based index g, or g-1 (1-based reading). nanOK: at least one
// reading puts it in the under/over count or beyond the ends. ivs: one entry
// per reading that puts it in a bin.
func QuantileRef(under uint64, counts []uint64, over uint64, q float64) (nanOK bool, ivs []QInterval, rankAmbiguous bool) {
	nanOK, ivs, rankAmbiguous, _ = QuantileRefR(under, counts, over, q)
	return
}

// QuantileRefR is QuantileRef with the per-reading detail.
func QuantileRefR(under uint64, counts []uint64, over uint64, q float64) (nanOK bool, ivs []QInterval, rankAmbiguous bool, rd QReadings) {
	total := under + over
	for _, c := range counts {
		total += c
	}
	p := new(big.Float).SetPrec(256).SetFloat64(q)
	p.Mul(p, new(big.Float).SetPrec(256).SetUint64(total))
	fl, _ := p.Int(nil) // truncation = floor for p >= 0
	var gs []int64
	g := fl.Int64()
	gs = append(gs, g)
	if !p.IsInt() {
		// The exact floor is the answer. Two other answers are within
		// rounding distance and accepted as well: the floor of the correctly
		// rounded float64 product (it can round up to the next integer), and
		// k when q is the float64 nearest to k/total (an implementation that
		// compares j/total with q sees equality there).
		add := func(k int64) {
			for _, o := range gs {
				if o == k {
					return
				}
			}
			if k >= 0 {
				gs = append(gs, k)
				rankAmbiguous = true
			}
		}
		fp := float64(total) * q
		if fp >= 0 && fp < 9e15 {
			add(int64(math.Floor(fp)))
		}
		pf, _ := p.Float64()
		if k := math.Round(pf); k >= 1 && total > 0 && float64(k)/float64(total) == q {
			add(int64(k))
		}
	}
	for _, g := range gs {
		for rdg, j := range []int64{g, g - 1} {
			if j < 0 || uint64(j) >= total || uint64(j) < under || uint64(j) >= total-over {
				nanOK = true
				if rdg == 0 {
					rd.NaN0 = true
				} else {
					rd.NaN1 = true
				}
				if total > 0 && rdg == 0 && uint64(j) >= total && j >= 0 && over == 0 {
					// no such sample under the 0-based reading: clamp to the last
					for b := len(counts) - 1; b >= 0; b-- {
						if counts[b] > 0 {
							rd.Extra0 = append(rd.Extra0, QInterval{Bin: b, K: counts[b] - 1, C: counts[b]})
							break
						}
					}
				}
				if total > 0 && rdg == 1 && j < 0 && under == 0 {
					// no such sample under the 1-based reading: clamp to the first
					for b := range counts {
						if counts[b] > 0 {
							rd.Extra1 = append(rd.Extra1, QInterval{Bin: b, K: 0, C: counts[b], OneBased: true})
							break
						}
					}
				}
				continue
			}
			r := uint64(j) - under
			for b, c := range counts {
				if r < c {
					iv := QInterval{Bin: b, K: r, C: c, OneBased: rdg == 1}
					dup := false
					for _, o := range ivs {
						dup = dup || o == iv
					}
					if !dup {
						ivs = append(ivs, iv)
					}
					break
				}
				r -= c
			}
		}
	}
	return
}

// HistSelfTest cross-checks the big-float edges against textbook values and
// the float64 library functions.
func HistSelfTest() error {
	// exact integer powers
	for b := 2; b <= 10; b++ {
		for m := 1; m <= 4; m++ {
			for i := 0; i <= 12; i++ {
				e := LogEdge(b, m, i*m)
				want := math.Pow(float64(b), float64(i))
				if F64(e) != want {
					return fmt.Errorf("LogEdge(%d,%d,%d)=%v want %v", b, m, i*m, F64(e), want)
				}
			}
			for i := -3; i <= 50; i++ {
				e := F64(LogEdge(b, m, i))
				want := math.Pow(float64(b), float64(i)/float64(m))
				if math.Abs(e-want) > 1e-14*want {
					return fmt.Errorf("LogEdge(%d,%d,%d)=%v, math.Pow %v", b, m, i, e, want)
				}
			}
		}
	}
	// edges of wide histograms (split into integer power and root): against
	// the direct Exp/Log evaluation and math.Pow
	for _, t := range [][3]int{{2, 4, 401}, {2, 4, 4095}, {10, 3, 922}, {7, 2, 725}, {3, 4, 2581}} {
		e := LogEdge(t[0], t[1], t[2])
		d := Pow(NI(int64(t[0])), Quo(NI(int64(t[2])), NI(int64(t[1]))))
		want := math.Pow(float64(t[0]), float64(t[2])/float64(t[1]))
		if rel := F64(Quo(Sub(e, d), d)); math.Abs(rel) > 1e-90 || math.Abs(F64(e)-want) > 1e-12*want {
			return fmt.Errorf("LogEdge(%d,%d,%d)=%v: direct evaluation differs by %v relative, math.Pow %v", t[0], t[1], t[2], F64(e), rel, want)
		}
	}
	// sqrt(2) as 2^(1/2)
	if d := Sub(LogEdge(2, 2, 1), Sqrt(NF(2))); math.Abs(F64(d)) > 1e-100 {
		return fmt.Errorf("2^(1/2) differs from sqrt(2) by %v", F64(d))
	}
	// slots
	h := NewLinRef(0, 10, 10)
	for _, t := range []struct {
		x         float64
		slot, alt int
	}{{-0.5, -1, -1}, {0.5, 0, 0}, {9.5, 9, 9}, {10.5, 10, 10}, {3, 3, 2}, {0, 0, -1}, {10, 10, 9}, {math.Nextafter(3, 0), 2, 3}} {
		s, a, _ := h.Slot(t.x)
		if s != t.slot || a != t.alt {
			return fmt.Errorf("lin slot(%v)=(%d,%d) want (%d,%d)", t.x, s, a, t.slot, t.alt)
		}
	}
	if !NewLinRef(-4, 4, 8).Dyadic || NewLinRef(0, 10, 8).Dyadic || NewLinRef(0, 12, 12).Dyadic {
		return fmt.Errorf("dyadic shape recognition")
	}
	if _, _, ex := NewLinRef(-4, 4, 8).Slot(math.Nextafter(4, 0)); ex {
		return fmt.Errorf("inexact x-min treated as exact")
	}
	if _, a, ex := NewLinRef(0, 8, 8).Slot(math.Nextafter(0, -1)); ex || a != 0 {
		return fmt.Errorf("underflowing x-min treated as exact")
	}
	d := NewLinRef(0, 8, 8)
	for _, t := range []struct {
		x    float64
		slot int
	}{{0, 0}, {-0x1p-800, -1}, {8, 8}, {math.Nextafter(8, 0), 7}, {4, 4}, {math.Nextafter(4, 0), 3}, {-8, -1}, {16, 8}} {
		s, a, ex := d.Slot(t.x)
		if s != t.slot || a != t.slot || !ex {
			return fmt.Errorf("dyadic slot(%v)=(%d,%d,%v) want %d", t.x, s, a, ex, t.slot)
		}
	}
	l := NewLogRef(10, 2, 6)
	for _, t := range []struct {
		x         float64
		slot, alt int
	}{{0.5, -1, -1}, {1, 0, -1}, {2, 0, 0}, {4, 1, 1}, {10, 2, 1}, {999, 5, 5}, {1000, 6, 5}, {2000, 6, 6}} {
		s, a, _ := l.Slot(t.x)
		if s != t.slot || a != t.alt {
			return fmt.Errorf("log slot(%v)=(%d,%d) want (%d,%d)", t.x, s, a, t.slot, t.alt)
		}
	}
	// quantile readings: under=1, counts=[2,0,3], over=1, total 7
	nan, ivs, amb := QuantileRef(1, []uint64{2, 0, 3}, 1, 0.5) // g=3: idx 3 -> bin 2 k=0 ; idx 2 -> bin 0 k=1
	if nan || amb || len(ivs) != 2 || ivs[0] != (QInterval{2, 0, 3, false}) || ivs[1] != (QInterval{0, 1, 2, true}) {
		return fmt.Errorf("QuantileRef(0.5) = %v %v %v", nan, ivs, amb)
	}
	nan, ivs, _ = QuantileRef(1, []uint64{2, 0, 3}, 1, 1) // g=7: idx 7 beyond, idx 6 over
	if !nan || len(ivs) != 0 {
		return fmt.Errorf("QuantileRef(1) = %v %v", nan, ivs)
	}
	nan, ivs, _ = QuantileRef(0, []uint64{2}, 0, 1) // g=2: beyond; idx 1 -> bin 0 k=1
	if !nan || len(ivs) != 1 || ivs[0] != (QInterval{0, 1, 2, true}) {
		return fmt.Errorf("QuantileRef(1) no overflow = %v %v", nan, ivs)
	}
	_, _, _, rd := QuantileRefR(0, []uint64{2, 0}, 0, 1)
	if !rd.NaN0 || rd.NaN1 || len(rd.Extra0) != 1 || rd.Extra0[0] != (QInterval{0, 1, 2, false}) || len(rd.Extra1) != 0 {
		return fmt.Errorf("QuantileRefR(q=1) readings = %+v", rd)
	}
	_, _, _, rd = QuantileRefR(0, []uint64{0, 3}, 1, 0)
	if rd.NaN0 || !rd.NaN1 || len(rd.Extra1) != 1 || rd.Extra1[0] != (QInterval{1, 0, 3, true}) || len(rd.Extra0) != 0 {
		return fmt.Errorf("QuantileRefR(q=0) readings = %+v", rd)
	}
	_, _, _, rd = QuantileRefR(1, []uint64{2}, 1, 1)
	if len(rd.Extra0) != 0 || len(rd.Extra1) != 0 {
		return fmt.Errorf("QuantileRefR(q=1, over>0) readings = %+v", rd)
	}
	// edges beyond 2^63 and non-positive values of a logarithmic shape
	big50 := NewLogRef(10, 1, 50)
	if e := big50.Edge(50); e != 1e50 {
		return fmt.Errorf("10^50 edge = %v", e)
	}
	for _, t := range []struct {
		x         float64
		slot, alt int
	}{{0, -1, -1}, {math.Copysign(0, -1), -1, -1}, {-3, -1, -1}, {-1e300, -1, -1}, {5e-324, -1, -1}, {3e49, 49, 49}, {1e50, 50, 49}, {2e50, 50, 50}, {1e19, 19, 18}, {9.3e18, 18, 18}} {
		s, a, _ := big50.Slot(t.x)
		if s != t.slot || a != t.alt {
			return fmt.Errorf("log50 slot(%v)=(%d,%d) want (%d,%d)", t.x, s, a, t.slot, t.alt)
		}
	}
	// conditioning-derived window of a logarithmic edge: one float64 step is
	// inside, 1e-13 relative is outside at the low edges, inside at 1e50
	for _, t := range []struct {
		x         float64
		slot, alt int
	}{{math.Nextafter(1000, 0), 2, 3}, {math.Nextafter(1, 0), -1, 0}, {math.Nextafter(1, 2), 0, -1}, {1000 * (1 - 1e-13), 2, 2}, {1 - 1e-13, -1, -1}, {1000 * (1 + 1e-13), 3, 3},
		{1e50 * (1 - 1e-13), 49, 50}, {1e50 * (1 - 2e-12), 49, 49}, {math.MaxFloat64, 50, 50}, {-math.MaxFloat64, -1, -1}} {
		s, a, _ := big50.Slot(t.x)
		if s != t.slot || a != t.alt {
			return fmt.Errorf("log50 window slot(%v)=(%d,%d) want (%d,%d)", t.x, s, a, t.slot, t.alt)
		}
	}
	if w := LogWindow(10, 1, 0); w != 32*0x1p-52 {
		return fmt.Errorf("LogWindow(10,1,0)=%v", w)
	}
	// values and shapes at the top of the float64 range
	hl := NewLinRef(-8e307, 8e307, 50)
	for _, t := range []struct {
		x    float64
		slot int
	}{{math.MaxFloat64, 50}, {-math.MaxFloat64, -1}, {0, 25}, {-1e300, 24}, {7.9e307, 49}, {-7.9e307, 0}, {1e308, 50}} {
		s, a, _ := hl.Slot(t.x)
		if s != t.slot || (a != t.slot && t.x != 0) {
			return fmt.Errorf("huge lin slot(%v)=(%d,%d) want %d", t.x, s, a, t.slot)
		}
	}
	if s, a, _ := NewLinRef(0, 1e-3, 10).Slot(1e305); s != 10 || a != 10 {
		return fmt.Errorf("lin slot(1e305) = %d,%d", s, a)
	}
	nan, ivs, _ = QuantileRef(0, nil, 0, 0.3)
	if !nan || len(ivs) != 0 {
		return fmt.Errorf("QuantileRef(empty) = %v %v", nan, ivs)
	}
	return nil
}
