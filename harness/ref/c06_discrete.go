package ref

import (
	"fmt"
	"math"
	"math/big"

	"gonum.org/v1/gonum/mathext"
)

// Reference models for C06: the exact laws of the binomial and the
// hypergeometric distribution. Nothing here calls the library under test.
//
//   HypergExact  big.Int binomial coefficients, exact rational probabilities
//   BinomExact   P taken as the exact dyadic rational m/2^s of the float64,
//                big.Int numerators over the common denominator 2^(sN)
//   BinomBig     the same law in 384-bit big.Float for N up to 1000
//                (relative error of every value < 2^-370)
//
// Every table carries the float64 nearest to each exact probability, to the
// exact cumulative sums, and to the first two moments *computed from the
// probabilities* (not from a closed form; the closed forms are compared with
// them in C06SelfTest).

// DiscTable is the law of an integer-valued random variable on Lo..Hi.
type DiscTable struct {
	Lo, Hi int
	PMF    []float64 // PMF[j-Lo]
	CDF    []float64 // CDF[j-Lo] = sum_{i<=j} pmf(i)
	Mean   float64
	Var    float64
	Mode   int // smallest argmax of the exact PMF
}

// P is the probability of j (0 outside Lo..Hi).
func (t *DiscTable) P(j int) float64 {
	if j < t.Lo || j > t.Hi {
		return 0
	}
	return t.PMF[j-t.Lo]
}

// C is Pr[X <= j].
func (t *DiscTable) C(j int) float64 {
	if j < t.Lo {
		return 0
	}
	if j >= t.Hi {
		return 1
	}
	return t.CDF[j-t.Lo]
}

// ratF is num/den rounded to float64 (through a 384-bit quotient: the
// double rounding can move the result by at most 2^-330 ulp, and big.Rat's
// GCD normalisation of multi-thousand-bit operands is avoided).
func ratF(num, den *big.Int) float64 {
	if num.Sign() == 0 {
		return 0
	}
	return F64(Quo(nf().SetInt(num), nf().SetInt(den)))
}

// tableFromCounts builds the table of the law Pr[X=lo+i] = num[i]/den. The
// numerators must sum to den exactly.
func tableFromCounts(lo int, num []*big.Int, den *big.Int) (*DiscTable, error) {
	t := &DiscTable{Lo: lo, Hi: lo + len(num) - 1}
	cum := new(big.Int)
	s1 := new(big.Int)
	s2 := new(big.Int)
	best := new(big.Int).SetInt64(-1)
	for i, n := range num {
		if n.Sign() < 0 {
			return nil, fmt.Errorf("negative numerator")
		}
		cum.Add(cum, n)
		t.PMF = append(t.PMF, ratF(n, den))
		t.CDF = append(t.CDF, ratF(cum, den))
		k := big.NewInt(int64(lo + i))
		kn := new(big.Int).Mul(k, n)
		s1.Add(s1, kn)
		s2.Add(s2, kn.Mul(kn, k))
		if n.Cmp(best) > 0 {
			best.Set(n)
			t.Mode = lo + i
		}
	}
	if cum.Cmp(den) != 0 {
		return nil, fmt.Errorf("numerators sum to %v, denominator is %v", cum, den)
	}
	// mean = s1/den ; var = s2/den - (s1/den)^2 = (s2*den - s1^2)/den^2
	t.Mean = ratF(s1, den)
	vn := new(big.Int).Mul(s2, den)
	vn.Sub(vn, new(big.Int).Mul(s1, s1))
	t.Var = ratF(vn, new(big.Int).Mul(den, den))
	return t, nil
}

// HypergExact is the law of the number of marked items among `draws` items
// drawn without replacement from n items of which k are marked.
func HypergExact(n, k, draws int) (*DiscTable, error) {
	if n < 0 || k < 0 || k > n || draws < 0 || draws > n {
		return nil, fmt.Errorf("HypergExact: parameters out of range")
	}
	lo := draws + k - n
	if lo < 0 {
		lo = 0
	}
	hi := draws
	if k < hi {
		hi = k
	}
	den := new(big.Int).Binomial(int64(n), int64(draws))
	var num []*big.Int
	if n > 200 {
		// large populations: one pair of binomials at the bottom of the
		// support, then the exact integer recurrence
		//   c(j+1) = c(j)*(k-j)*(draws-j) / ((j+1)*(n-k-draws+j+1))
		// (every quotient is exact; tableFromCounts re-checks that the counts
		// sum to C(n,draws), which no wrong step survives)
		a := new(big.Int).Binomial(int64(k), int64(lo))
		b := new(big.Int).Binomial(int64(n-k), int64(draws-lo))
		c := a.Mul(a, b)
		num = append(num, c)
		for j := lo; j < hi; j++ {
			nx := new(big.Int).Mul(c, big.NewInt(int64(k-j)*int64(draws-j)))
			q := big.NewInt(int64(j+1) * int64(n-k-draws+j+1))
			r := new(big.Int)
			nx.QuoRem(nx, q, r)
			if r.Sign() != 0 {
				return nil, fmt.Errorf("HypergExact: inexact recurrence step at j=%d", j)
			}
			num = append(num, nx)
			c = nx
		}
		return tableFromCounts(lo, num, den)
	}
	for j := lo; j <= hi; j++ {
		a := new(big.Int).Binomial(int64(k), int64(j))
		b := new(big.Int).Binomial(int64(n-k), int64(draws-j))
		num = append(num, a.Mul(a, b))
	}
	return tableFromCounts(lo, num, den)
}

// dyadic returns p = m/d exactly (d a power of two).
func dyadic(p float64) (m, d *big.Int, err error) {
	if math.IsNaN(p) || p < 0 || p > 1 {
		return nil, nil, fmt.Errorf("P=%v outside [0,1]", p)
	}
	r := new(big.Rat).SetFloat64(p)
	return new(big.Int).Set(r.Num()), new(big.Int).Set(r.Denom()), nil
}

// BinomExact is the law of the number of successes in n trials of
// probability p, p being the exact value of the float64.
func BinomExact(n int, p float64) (*DiscTable, error) {
	m, d, err := dyadic(p)
	if err != nil || n < 0 {
		return nil, fmt.Errorf("BinomExact: bad parameters (%v)", err)
	}
	q := new(big.Int).Sub(d, m)
	mp := make([]*big.Int, n+1)
	qp := make([]*big.Int, n+1)
	mp[0], qp[0] = big.NewInt(1), big.NewInt(1)
	for i := 1; i <= n; i++ {
		mp[i] = new(big.Int).Mul(mp[i-1], m)
		qp[i] = new(big.Int).Mul(qp[i-1], q)
	}
	den := new(big.Int).Exp(d, big.NewInt(int64(n)), nil)
	num := make([]*big.Int, n+1)
	for j := 0; j <= n; j++ {
		c := new(big.Int).Binomial(int64(n), int64(j))
		c.Mul(c, mp[j])
		num[j] = c.Mul(c, qp[n-j])
	}
	return tableFromCounts(0, num, den)
}

// BinomBig is BinomExact evaluated in 384-bit floating point (for large n,
// where the exact numerators would have ~10^5..10^6 bits each).
func BinomBig(n int, p float64) (*DiscTable, error) {
	if math.IsNaN(p) || p < 0 || p > 1 || n < 0 {
		return nil, fmt.Errorf("BinomBig: bad parameters")
	}
	P := NF(p)
	Q := Sub(NF(1), P) // exact whenever p >= 2^-330, else off by < 2^-384
	pp := make([]*big.Float, n+1)
	qq := make([]*big.Float, n+1)
	pp[0], qq[0] = NF(1), NF(1)
	for i := 1; i <= n; i++ {
		pp[i] = Mul(pp[i-1], P)
		qq[i] = Mul(qq[i-1], Q)
	}
	t := &DiscTable{Lo: 0, Hi: n}
	cum, s1, s2 := nf(), nf(), nf()
	best := nf()
	for j := 0; j <= n; j++ {
		c := nf().SetInt(new(big.Int).Binomial(int64(n), int64(j)))
		v := Mul(Mul(c, pp[j]), qq[n-j])
		cum.Add(cum, v)
		t.PMF = append(t.PMF, F64(v))
		t.CDF = append(t.CDF, F64(cum))
		kv := Mul(NI(int64(j)), v)
		s1.Add(s1, kv)
		s2.Add(s2, Mul(NI(int64(j)), kv))
		if v.Cmp(best) > 0 {
			best.Set(v)
			t.Mode = j
		}
	}
	if e := F64(Abs(Sub(cum, NF(1)))); e > 1e-100 {
		return nil, fmt.Errorf("BinomBig(%d,%v): masses sum to 1%+g", n, p, e)
	}
	t.Mean = F64(s1)
	t.Var = F64(Sub(s2, Mul(s1, s1)))
	return t, nil
}

// BinomMomentsClosed: n p and n p (1-p) in exact rational arithmetic (p the
// exact value of the float64), each rounded once to float64. A second opinion
// on the moments the tables derive from their probabilities.
func BinomMomentsClosed(n int, p float64) (mean, vr float64) {
	P := new(big.Rat).SetFloat64(p)
	m := new(big.Rat).Mul(new(big.Rat).SetInt64(int64(n)), P)
	v := new(big.Rat).Mul(m, new(big.Rat).Sub(big.NewRat(1, 1), P))
	mean, _ = m.Float64()
	vr, _ = v.Float64()
	return
}

// HypergMomentsClosed: draws k/n and draws k (n-k) (n-draws) / (n^2 (n-1)),
// exact rationals rounded once.
func HypergMomentsClosed(n, k, draws int) (mean, vr float64) {
	N, K, D := big.NewInt(int64(n)), big.NewInt(int64(k)), big.NewInt(int64(draws))
	mn := new(big.Int).Mul(D, K)
	mean, _ = new(big.Rat).SetFrac(mn, N).Float64()
	if n < 2 {
		return mean, 0
	}
	vn := new(big.Int).Mul(mn, new(big.Int).Sub(N, K))
	vn.Mul(vn, new(big.Int).Sub(N, D))
	vd := new(big.Int).Mul(N, N)
	vd.Mul(vd, new(big.Int).Sub(N, big.NewInt(1)))
	vr, _ = new(big.Rat).SetFrac(vn, vd).Float64()
	return
}

// hypergBrute counts, by enumerating every subset of size draws of n items
// (items 0..k-1 marked), how many subsets hold j marked items.
func hypergBrute(n, k, draws int) (lo int, counts []int64, total int64) {
	cnt := make([]int64, n+1)
	for s := 0; s < 1<<uint(n); s++ {
		size, marked := 0, 0
		for b := 0; b < n; b++ {
			if s>>uint(b)&1 == 1 {
				size++
				if b < k {
					marked++
				}
			}
		}
		if size == draws {
			cnt[marked]++
			total++
		}
	}
	lo = -1
	hi := -1
	for j, c := range cnt {
		if c > 0 {
			if lo < 0 {
				lo = j
			}
			hi = j
		}
	}
	return lo, cnt[lo : hi+1], total
}

// binomBrute sums the weight p^s q^(n-s) of every one of the 2^n outcomes.
func binomBrute(n int, p float64) []float64 {
	P := new(big.Rat).SetFloat64(p)
	Q := new(big.Rat).Sub(big.NewRat(1, 1), P)
	acc := make([]*big.Rat, n+1)
	for i := range acc {
		acc[i] = new(big.Rat)
	}
	for s := 0; s < 1<<uint(n); s++ {
		w := big.NewRat(1, 1)
		succ := 0
		for b := 0; b < n; b++ {
			if s>>uint(b)&1 == 1 {
				w.Mul(w, P)
				succ++
			} else {
				w.Mul(w, Q)
			}
		}
		acc[succ].Add(acc[succ], w)
	}
	out := make([]float64, n+1)
	for i, a := range acc {
		out[i], _ = a.Float64()
	}
	return out
}

func relClose(a, b, rel, abs float64) bool {
	d := math.Abs(a - b)
	return d <= abs || d <= rel*math.Max(math.Abs(a), math.Abs(b))
}

// C06SelfTest runs the references against definitional brute force, against
// each other, against closed-form moments, against gonum's incomplete beta
// and against textbook constants.
func C06SelfTest() error {
	// (i) hypergeometric against subset enumeration, every (n,k,draws), n<=9
	for n := 1; n <= 9; n++ {
		for k := 0; k <= n; k++ {
			for d := 0; d <= n; d++ {
				t, err := HypergExact(n, k, d)
				if err != nil {
					return err
				}
				lo, cnt, tot := hypergBrute(n, k, d)
				if lo != t.Lo || lo+len(cnt)-1 != t.Hi {
					return fmt.Errorf("hyperg(%d,%d,%d): support %d..%d, brute force %d..%d", n, k, d, t.Lo, t.Hi, lo, lo+len(cnt)-1)
				}
				for i, c := range cnt {
					if c == 0 {
						return fmt.Errorf("hyperg(%d,%d,%d): hole in the support", n, k, d)
					}
					if want := ratF(big.NewInt(c), big.NewInt(tot)); want != t.PMF[i] {
						return fmt.Errorf("hyperg(%d,%d,%d) pmf(%d)=%v, brute force %v", n, k, d, lo+i, t.PMF[i], want)
					}
				}
			}
		}
	}
	// (ii) binomial against outcome enumeration
	for n := 0; n <= 8; n++ {
		for _, p := range []float64{0, 1, 0.2, 1.0 / 3, 0.9, 1e-12, 1 - 1e-12} {
			t, err := BinomExact(n, p)
			if err != nil {
				return err
			}
			b := binomBrute(n, p)
			for j := range b {
				if b[j] != t.PMF[j] {
					return fmt.Errorf("binom(%d,%v) pmf(%d)=%v, brute force %v", n, p, j, t.PMF[j], b[j])
				}
			}
		}
	}
	// (iii) big.Float table against the exact one, and closed-form moments
	for _, n := range []int{0, 1, 20, 21, 60, 150} {
		for _, p := range []float64{0, 1, 0.2, 0.5, 0.37, 1e-12, 1 - 1e-12, 5e-324, math.Nextafter(1, 0), 1e-300} {
			if n > 21 && p > 0 && p < 1e-100 {
				continue // exact numerators of ~10^5 bits: too slow for a start-up test
			}
			a, err := BinomExact(n, p)
			if err != nil {
				return err
			}
			b, err := BinomBig(n, p)
			if err != nil {
				return err
			}
			for j := 0; j <= n; j++ {
				if !relClose(a.PMF[j], b.PMF[j], 1e-15, 0) || !relClose(a.CDF[j], b.CDF[j], 1e-15, 0) {
					return fmt.Errorf("binom(%d,%v) at %d: exact pmf %v cdf %v, big.Float pmf %v cdf %v", n, p, j, a.PMF[j], a.CDF[j], b.PMF[j], b.CDF[j])
				}
			}
			// mean n p and variance n p (1-p), in exact rationals
			P := new(big.Rat).SetFloat64(p)
			nn := new(big.Rat).SetInt64(int64(n))
			mean := new(big.Rat).Mul(nn, P)
			vr := new(big.Rat).Mul(mean, new(big.Rat).Sub(big.NewRat(1, 1), P))
			mf, _ := mean.Float64()
			vf, _ := vr.Float64()
			for _, t := range []*DiscTable{a, b} {
				if !relClose(t.Mean, mf, 1e-15, 0) || !relClose(t.Var, vf, 1e-15, 1e-300) {
					return fmt.Errorf("binom(%d,%v): moments of the pmf %v,%v; closed form %v,%v", n, p, t.Mean, t.Var, mf, vf)
				}
			}
		}
	}
	// (iv) hypergeometric closed-form moments
	for _, c := range [][3]int{{2, 1, 1}, {10, 3, 4}, {50, 5, 10}, {80, 79, 40}, {300, 150, 299}, {7, 0, 3}, {7, 7, 3}, {7, 3, 7}, {7, 3, 0}} {
		n, k, d := c[0], c[1], c[2]
		t, err := HypergExact(n, k, d)
		if err != nil {
			return err
		}
		mean := big.NewRat(int64(d*k), int64(n))
		vr := big.NewRat(int64(d)*int64(k)*int64(n-k)*int64(n-d), int64(n)*int64(n)*int64(n-1))
		mf, _ := mean.Float64()
		vf, _ := vr.Float64()
		if t.Mean != mf || t.Var != vf {
			return fmt.Errorf("hyperg(%d,%d,%d): moments of the pmf %v,%v; closed form %v,%v", n, k, d, t.Mean, t.Var, mf, vf)
		}
	}
	// (v) textbook constants
	b, _ := BinomExact(5, 0.2)
	if !relClose(b.PMF[2], 0.2048, 1e-14, 0) || !relClose(b.CDF[1], 0.73728, 1e-14, 0) || !relClose(b.Mean, 1, 1e-15, 0) || !relClose(b.Var, 0.8, 1e-15, 0) {
		return fmt.Errorf("binom(5,0.2): pmf(2)=%v cdf(1)=%v mean=%v var=%v", b.PMF[2], b.CDF[1], b.Mean, b.Var)
	}
	h, _ := HypergExact(50, 5, 10)
	if !relClose(h.P(4), 0.003964583058, 1e-9, 0) || !relClose(h.P(5), 0.0001189374917, 1e-9, 0) || h.Mode != 1 {
		return fmt.Errorf("hyperg(50,5,10): pmf(4)=%v pmf(5)=%v mode=%d", h.P(4), h.P(5), h.Mode)
	}
	// (vi) second opinion on the binomial CDF: Pr[X<=j] = I_{1-p}(n-j, j+1)
	for _, n := range []int{7, 60, 400, 1000} {
		for _, p := range []float64{0.03, 0.5, 0.81} {
			t, err := BinomBig(n, p)
			if err != nil {
				return err
			}
			for _, j := range []int{0, n / 4, n / 2, int(float64(n) * p), n - 1} {
				g := mathext.RegIncBeta(float64(n-j), float64(j+1), 1-p)
				if math.Abs(g-t.C(j)) > 1e-9 {
					return fmt.Errorf("binom(%d,%v) cdf(%d)=%v, gonum incomplete beta %v", n, p, j, t.C(j), g)
				}
			}
		}
	}
	return nil
}
