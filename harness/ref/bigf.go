// Package ref holds the reference models (the trusted base). Nothing in here
// calls into the library under test.
package ref

import (
	"math"
	"math/big"
	"sync"
)

// Prec is the working precision of the big.Float references.
const Prec = 384

func NF(x float64) *big.Float { return new(big.Float).SetPrec(Prec).SetFloat64(x) }
func NI(x int64) *big.Float   { return new(big.Float).SetPrec(Prec).SetInt64(x) }
func nf() *big.Float          { return new(big.Float).SetPrec(Prec) }

func Add(a, b *big.Float) *big.Float { return nf().Add(a, b) }
func Sub(a, b *big.Float) *big.Float { return nf().Sub(a, b) }
func Mul(a, b *big.Float) *big.Float { return nf().Mul(a, b) }
func Quo(a, b *big.Float) *big.Float { return nf().Quo(a, b) }
func Sqrt(a *big.Float) *big.Float   { return nf().Sqrt(a) }
func Neg(a *big.Float) *big.Float    { return nf().Neg(a) }
func Abs(a *big.Float) *big.Float    { return nf().Abs(a) }

// F64 rounds to nearest float64.
func F64(a *big.Float) float64 { f, _ := a.Float64(); return f }

var (
	constOnce sync.Once
	ln2       *big.Float
	pi        *big.Float
	sqrtPi    *big.Float
)

func initConst() {
	constOnce.Do(func() {
		// ln 2 = sum_{k>=1} 1/(k 2^k)
		s := nf()
		p := NF(1)
		two := NF(2)
		for k := int64(1); k < Prec+16; k++ {
			p = Quo(p, two)
			s.Add(s, Quo(p, NI(k)))
		}
		ln2 = s
		// pi by Machin: 16 atan(1/5) - 4 atan(1/239)
		atanInv := func(n int64) *big.Float {
			x := Quo(NF(1), NI(n))
			x2 := Mul(x, x)
			term := nf().Set(x)
			sum := nf().Set(x)
			for k := int64(1); k < 400; k++ {
				term = Mul(term, x2)
				t := Quo(term, NI(2*k+1))
				if k%2 == 1 {
					sum.Sub(sum, t)
				} else {
					sum.Add(sum, t)
				}
			}
			return sum
		}
		pi = Sub(Mul(NF(16), atanInv(5)), Mul(NF(4), atanInv(239)))
		sqrtPi = Sqrt(pi)
	})
}

func Ln2() *big.Float    { initConst(); return ln2 }
func Pi() *big.Float     { initConst(); return pi }
func SqrtPi() *big.Float { initConst(); return sqrtPi }

// Exp computes e^x.
func Exp(x *big.Float) *big.Float {
	initConst()
	if x.Sign() == 0 {
		return NF(1)
	}
	// x = k ln2 + r
	kf := F64(Quo(x, ln2))
	if kf > 1e9 {
		return nf().SetInf(false)
	}
	if kf < -1e9 {
		return nf()
	}
	k := int64(math.Round(kf))
	r := Sub(x, Mul(NI(k), ln2))
	const s = 24
	r.SetMantExp(r, -s)
	// Taylor
	sum := NF(1)
	term := NF(1)
	for n := int64(1); n < 40; n++ {
		term = Quo(Mul(term, r), NI(n))
		sum.Add(sum, term)
		if term.Sign() == 0 || term.MantExp(nil) < sum.MantExp(nil)-Prec-8 {
			break
		}
	}
	for i := 0; i < s; i++ {
		sum = Mul(sum, sum)
	}
	return sum.SetMantExp(sum, int(k))
}

// Log computes ln x for x>0.
func Log(x *big.Float) *big.Float {
	initConst()
	if x.Sign() <= 0 {
		panic("ref.Log: non-positive argument")
	}
	m := nf()
	e := x.MantExp(m)
	mf, _ := m.Float64()
	y := Add(NF(math.Log(mf)), Mul(NI(int64(e)), ln2))
	two := NF(2)
	for i := 0; i < 4; i++ {
		ey := Exp(y)
		y = Add(y, Mul(two, Quo(Sub(x, ey), Add(x, ey))))
	}
	return y
}

// Pow computes x^y for x>0.
func Pow(x, y *big.Float) *big.Float {
	if y.Sign() == 0 {
		return NF(1)
	}
	if x.Sign() == 0 {
		return nf()
	}
	return Exp(Mul(y, Log(x)))
}

// PowInt computes x^n for integer n>=0 by repeated squaring (exact up to rounding at Prec).
func PowInt(x *big.Float, n int) *big.Float {
	res := NF(1)
	b := nf().Set(x)
	for n > 0 {
		if n&1 == 1 {
			res = Mul(res, b)
		}
		b = Mul(b, b)
		n >>= 1
	}
	return res
}

// Erfc is the complementary error function.
func Erfc(x *big.Float) *big.Float {
	initConst()
	if x.Sign() < 0 {
		return Sub(NF(2), Erfc(Neg(x)))
	}
	xf := F64(x)
	x2 := Mul(x, x)
	if xf < 6 {
		// erf(x) = 2/sqrt(pi) e^{-x^2} sum_{n>=0} 2^n x^{2n+1} / (2n+1)!!
		term := nf().Set(x)
		sum := nf().Set(x)
		tx2 := Mul(NF(2), x2)
		for n := int64(1); n < 5000; n++ {
			term = Quo(Mul(term, tx2), NI(2*n+1))
			sum.Add(sum, term)
			if term.Sign() == 0 || term.MantExp(nil) < sum.MantExp(nil)-Prec-8 {
				break
			}
		}
		erf := Quo(Mul(Mul(NF(2), Exp(Neg(x2))), sum), sqrtPi)
		return Sub(NF(1), erf)
	}
	// continued fraction, evaluated bottom-up:
	// erfc(x) = e^{-x^2}/sqrt(pi) * 1/(x + (1/2)/(x + 1/(x + (3/2)/(x + ...))))
	n := int(2*math.Pow(0.35*Prec/xf, 2)) + 80
	f := nf().Set(x)
	half := NF(0.5)
	for k := n; k >= 1; k-- {
		f = Add(x, Quo(Mul(NI(int64(k)), half), f))
	}
	return Quo(Exp(Neg(x2)), Mul(sqrtPi, f))
}

// NormCDF is Phi((x-mu)/sigma) evaluated from exact float64 inputs.
func NormCDF(x, mu, sigma float64) *big.Float {
	z := Quo(Sub(NF(x), NF(mu)), NF(sigma))
	return NormCDFz(z)
}

// NormCDFz is Phi(z).
func NormCDFz(z *big.Float) *big.Float {
	a := Quo(Neg(z), Sqrt(NF(2)))
	return Quo(Erfc(a), NF(2))
}

// NormPDFz is phi(z).
func NormPDFz(z *big.Float) *big.Float {
	e := Exp(Quo(Neg(Mul(z, z)), NF(2)))
	return Quo(e, Sqrt(Mul(NF(2), Pi())))
}

// NormInvz inverts Phi by Newton iteration from a float64 start.
func NormInvz(p *big.Float, start float64) *big.Float {
	z := NF(start)
	for i := 0; i < 60; i++ {
		d := Quo(Sub(NormCDFz(z), p), NormPDFz(z))
		z = Sub(z, d)
		if d.Sign() == 0 || d.MantExp(nil) < z.MantExp(nil)-200 {
			break
		}
	}
	return z
}

// Sum of float64s, exactly accumulated at Prec bits.
func SumF(xs []float64) *big.Float {
	s := nf()
	for _, x := range xs {
		s.Add(s, NF(x))
	}
	return s
}
