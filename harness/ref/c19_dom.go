package ref

import (
	"fmt"
	"math/bits"
)

// Definitional dominance of a rooted digraph (reference for C19). Nothing
// here touches the library under test.
//
//   Dom*(v)  = {v} ∪ {d : v is not reachable from root once d is deleted}
//              for every v reachable from root,
//   idom*(v) = the strict dominator of v that all other strict dominators of
//              v dominate (unique; its uniqueness is re-checked on every
//              graph, a failure is a defect of this reference),
//   DF*(x)   = {y reachable : some reachable predecessor p of y has
//              x ∈ Dom*(p), and x is not a strict dominator of y},
//   the reachable part is irreducible iff the graph that remains after
//   deleting every edge whose head dominates its tail has a cycle
//   (Hecht-Ullman).
//
// Three implementations are kept apart on purpose: DomMask (n ≤ 64, one
// machine word per set, node deletion + reachability), DomLarge (any n,
// boolean matrices, node deletion + reachability) and DomDataflow (dominator
// sets as the greatest fixed point of Dom(v) = {v} ∪ ⋂ Dom(p)); DomSelfTest
// runs them against each other and against three graphs from the literature.

// DomInfo is the answer in list form.
type DomInfo struct {
	N, Root     int
	Reach       []bool
	IDom        []int   // -1 for the root and for unreachable nodes
	DF          [][]int // ascending; by the definition, root membership included
	Irreducible bool
}

// DomMask computes the reference for graphs of at most 64 nodes. The zero
// value is ready to use; buffers are reused between calls.
type DomMask struct {
	N, Root     int
	Succ, Pred  []uint64 // adjacency as sets (edge multiplicity is irrelevant to dominance)
	Reach       uint64
	Dom         []uint64 // Dom[v] ∋ d iff d dominates v (0 for unreachable v)
	IDom        []int
	DF          []uint64
	Irreducible bool
}

func (d *DomMask) reachWithout(del int) uint64 {
	if del == d.Root {
		return 0
	}
	var delm uint64
	if del >= 0 {
		delm = 1 << uint(del)
	}
	seen := uint64(1) << uint(d.Root)
	front := seen
	for front != 0 {
		v := bits.TrailingZeros64(front)
		front &= front - 1
		nw := d.Succ[v] &^ delm &^ seen
		seen |= nw
		front |= nw
	}
	return seen
}

// Compute fills d for the graph given by successor lists.
func (d *DomMask) Compute(out [][]int, root int) error {
	n := len(out)
	if n == 0 || n > 64 || root < 0 || root >= n {
		return fmt.Errorf("DomMask: bad size/root %d/%d", n, root)
	}
	d.N, d.Root = n, root
	if cap(d.Succ) < n {
		d.Succ, d.Pred = make([]uint64, n), make([]uint64, n)
		d.Dom, d.DF = make([]uint64, n), make([]uint64, n)
		d.IDom = make([]int, n)
	}
	d.Succ, d.Pred, d.Dom, d.DF, d.IDom = d.Succ[:n], d.Pred[:n], d.Dom[:n], d.DF[:n], d.IDom[:n]
	for v := 0; v < n; v++ {
		d.Succ[v], d.Pred[v], d.Dom[v], d.DF[v], d.IDom[v] = 0, 0, 0, 0, -1
	}
	for v, l := range out {
		for _, u := range l {
			if u < 0 || u >= n {
				return fmt.Errorf("DomMask: edge %d->%d out of range", v, u)
			}
			d.Succ[v] |= 1 << uint(u)
			d.Pred[u] |= 1 << uint(v)
		}
	}
	rootBit := uint64(1) << uint(root)
	d.Reach = d.reachWithout(-1)
	for m := d.Reach; m != 0; m &= m - 1 {
		v := bits.TrailingZeros64(m)
		d.Dom[v] = rootBit | 1<<uint(v)
	}
	for m := d.Reach &^ rootBit; m != 0; m &= m - 1 {
		del := bits.TrailingZeros64(m)
		lost := d.Reach &^ d.reachWithout(del)
		for l := lost; l != 0; l &= l - 1 {
			d.Dom[bits.TrailingZeros64(l)] |= 1 << uint(del)
		}
	}
	// immediate dominators
	for m := d.Reach &^ rootBit; m != 0; m &= m - 1 {
		v := bits.TrailingZeros64(m)
		S := d.Dom[v] &^ (1 << uint(v))
		cand, cnt := -1, 0
		for s := S; s != 0; s &= s - 1 {
			c := bits.TrailingZeros64(s)
			if (S&^(1<<uint(c)))&^d.Dom[c] == 0 {
				cand = c
				cnt++
			}
		}
		if cnt != 1 {
			return fmt.Errorf("DomMask: node %d has %d closest strict dominators (out=%v root=%d)", v, cnt, out, root)
		}
		d.IDom[v] = cand
	}
	// frontier by the definition
	for m := d.Reach; m != 0; m &= m - 1 {
		y := bits.TrailingZeros64(m)
		strictY := d.Dom[y] &^ (1 << uint(y))
		for ps := d.Pred[y] & d.Reach; ps != 0; ps &= ps - 1 {
			p := bits.TrailingZeros64(ps)
			for xs := d.Dom[p] &^ strictY; xs != 0; xs &= xs - 1 {
				d.DF[bits.TrailingZeros64(xs)] |= 1 << uint(y)
			}
		}
	}
	// reducibility: forward graph = edges whose head does not dominate the tail
	var predF [64]uint64
	for m := d.Reach; m != 0; m &= m - 1 {
		v := bits.TrailingZeros64(m)
		for s := d.Succ[v] & d.Reach &^ d.Dom[v]; s != 0; s &= s - 1 {
			predF[bits.TrailingZeros64(s)] |= 1 << uint(v)
		}
	}
	rem := d.Reach
	for changed := true; changed; {
		changed = false
		for m := rem; m != 0; m &= m - 1 {
			v := bits.TrailingZeros64(m)
			if predF[v]&rem == 0 {
				rem &^= 1 << uint(v)
				changed = true
			}
		}
	}
	d.Irreducible = rem != 0
	return nil
}

// Info converts to list form.
func (d *DomMask) Info() *DomInfo {
	o := &DomInfo{N: d.N, Root: d.Root, Reach: make([]bool, d.N), IDom: append([]int(nil), d.IDom...),
		DF: make([][]int, d.N), Irreducible: d.Irreducible}
	for v := 0; v < d.N; v++ {
		o.Reach[v] = d.Reach>>uint(v)&1 == 1
		o.DF[v] = []int{}
		for m := d.DF[v]; m != 0; m &= m - 1 {
			o.DF[v] = append(o.DF[v], bits.TrailingZeros64(m))
		}
	}
	return o
}

// DomLarge is the same definition with boolean matrices, for any size.
func DomLarge(out [][]int, root int) (*DomInfo, error) {
	n := len(out)
	if n == 0 || root < 0 || root >= n {
		return nil, fmt.Errorf("DomLarge: bad size/root %d/%d", n, root)
	}
	in := make([][]int, n)
	for v, l := range out {
		for _, u := range l {
			if u < 0 || u >= n {
				return nil, fmt.Errorf("DomLarge: edge %d->%d out of range", v, u)
			}
			in[u] = append(in[u], v)
		}
	}
	queue := make([]int, 0, n)
	bfs := func(del int, seen []bool) {
		for i := range seen {
			seen[i] = false
		}
		if del == root {
			return
		}
		queue = append(queue[:0], root)
		seen[root] = true
		for h := 0; h < len(queue); h++ {
			for _, u := range out[queue[h]] {
				if u != del && !seen[u] {
					seen[u] = true
					queue = append(queue, u)
				}
			}
		}
	}
	reach := make([]bool, n)
	bfs(-1, reach)
	dom := make([][]bool, n) // dom[v][d]
	for v := 0; v < n; v++ {
		if reach[v] {
			dom[v] = make([]bool, n)
			dom[v][v], dom[v][root] = true, true
		}
	}
	seen := make([]bool, n)
	for del := 0; del < n; del++ {
		if !reach[del] || del == root {
			continue
		}
		bfs(del, seen)
		for v := 0; v < n; v++ {
			if reach[v] && !seen[v] {
				dom[v][del] = true
			}
		}
	}
	o := &DomInfo{N: n, Root: root, Reach: reach, IDom: make([]int, n), DF: make([][]int, n)}
	var strict []int
	for v := 0; v < n; v++ {
		o.IDom[v] = -1
		o.DF[v] = []int{}
		if !reach[v] || v == root {
			continue
		}
		strict = strict[:0]
		for c := 0; c < n; c++ {
			if c != v && dom[v][c] {
				strict = append(strict, c)
			}
		}
		cand, cnt := -1, 0
		for _, c := range strict {
			ok := true
			for _, s := range strict {
				if s != c && !dom[c][s] {
					ok = false
					break
				}
			}
			if ok {
				cand = c
				cnt++
			}
		}
		if cnt != 1 {
			return nil, fmt.Errorf("DomLarge: node %d has %d closest strict dominators", v, cnt)
		}
		o.IDom[v] = cand
	}
	inDF := make([][]bool, n)
	for y := 0; y < n; y++ {
		if !reach[y] {
			continue
		}
		for _, p := range in[y] {
			if !reach[p] {
				continue
			}
			for x := 0; x < n; x++ {
				if dom[p][x] && !(x != y && dom[y][x]) {
					if inDF[x] == nil {
						inDF[x] = make([]bool, n)
					}
					inDF[x][y] = true
				}
			}
		}
	}
	for x := 0; x < n; x++ {
		if inDF[x] != nil {
			for y := 0; y < n; y++ {
				if inDF[x][y] {
					o.DF[x] = append(o.DF[x], y)
				}
			}
		}
	}
	// reducibility (Kahn on the forward graph)
	indeg := make([]int, n)
	nr := 0
	for v := 0; v < n; v++ {
		if !reach[v] {
			continue
		}
		nr++
		for _, u := range out[v] {
			if !dom[v][u] {
				indeg[u]++
			}
		}
	}
	queue = queue[:0]
	for v := 0; v < n; v++ {
		if reach[v] && indeg[v] == 0 {
			queue = append(queue, v)
		}
	}
	done := 0
	for h := 0; h < len(queue); h++ {
		v := queue[h]
		done++
		for _, u := range out[v] {
			if !dom[v][u] {
				indeg[u]--
				if indeg[u] == 0 {
					queue = append(queue, u)
				}
			}
		}
	}
	o.Irreducible = done != nr
	return o, nil
}

// DomDataflow computes dominator sets as the greatest fixed point of
// Dom(root) = {root}, Dom(v) = {v} ∪ ⋂_{p reachable pred of v} Dom(p), and
// derives idom by set size (the strict dominators of a node form a chain).
// Only used to cross-check the deletion-based references.
func DomDataflow(out [][]int, root int) (reach []bool, idom []int) {
	n := len(out)
	in := make([][]int, n)
	for v, l := range out {
		for _, u := range l {
			in[u] = append(in[u], v)
		}
	}
	reach = make([]bool, n)
	stack := []int{root}
	reach[root] = true
	for len(stack) > 0 {
		v := stack[len(stack)-1]
		stack = stack[:len(stack)-1]
		for _, u := range out[v] {
			if !reach[u] {
				reach[u] = true
				stack = append(stack, u)
			}
		}
	}
	dom := make([][]bool, n)
	for v := range dom {
		dom[v] = make([]bool, n)
		for d := range dom[v] {
			dom[v][d] = reach[v] && reach[d]
		}
	}
	for d := range dom[root] {
		dom[root][d] = d == root
	}
	for changed := true; changed; {
		changed = false
		for v := 0; v < n; v++ {
			if !reach[v] || v == root {
				continue
			}
			for d := 0; d < n; d++ {
				if !dom[v][d] || d == v {
					continue
				}
				for _, p := range in[v] {
					if reach[p] && !dom[p][d] {
						dom[v][d] = false
						changed = true
						break
					}
				}
			}
		}
	}
	size := func(v int) int {
		c := 0
		for _, b := range dom[v] {
			if b {
				c++
			}
		}
		return c
	}
	idom = make([]int, n)
	for v := range idom {
		idom[v] = -1
		if !reach[v] || v == root {
			continue
		}
		want := size(v) - 1
		for d := 0; d < n; d++ {
			if d != v && dom[v][d] && size(d) == want {
				idom[v] = d
			}
		}
	}
	return
}

func eqInts(a, b []int) bool {
	if len(a) != len(b) {
		return false
	}
	for i := range a {
		if a[i] != b[i] {
			return false
		}
	}
	return true
}

func eqDomInfo(a, b *DomInfo) string {
	if a.N != b.N || a.Root != b.Root || a.Irreducible != b.Irreducible {
		return fmt.Sprintf("header %v/%v/%v vs %v/%v/%v", a.N, a.Root, a.Irreducible, b.N, b.Root, b.Irreducible)
	}
	if !eqInts(a.IDom, b.IDom) {
		return fmt.Sprintf("idom %v vs %v", a.IDom, b.IDom)
	}
	for v := 0; v < a.N; v++ {
		if a.Reach[v] != b.Reach[v] {
			return fmt.Sprintf("reach[%d]", v)
		}
		if !eqInts(a.DF[v], b.DF[v]) {
			return fmt.Sprintf("DF[%d] %v vs %v", v, a.DF[v], b.DF[v])
		}
	}
	return ""
}

// DomSelfTest cross-checks the references. next() must be a deterministic
// source of pseudo-random 64-bit values.
func DomSelfTest(next func() uint64, rounds int) error {
	type lit struct {
		name  string
		out   [][]int
		idom  []int
		df    [][]int
		irred bool
	}
	lits := []lit{
		{"Muchnick fig. 8.21", [][]int{{1}, {2}, {3, 4}, {2}, {5, 6}, {7}, {7}, {}},
			[]int{-1, 0, 1, 2, 2, 4, 4, 4},
			[][]int{{}, {}, {2}, {2}, {}, {7}, {7}, {}}, false},
		{"CS252 SSA slide 24", [][]int{{1}, {2, 5}, {3, 4}, {6}, {6}, {1, 7}, {7}, {8}, {}},
			[]int{-1, 0, 1, 2, 2, 1, 2, 1, 7},
			[][]int{{}, {1}, {7}, {6}, {6}, {1, 7}, {7}, {}, {}}, false},
		// Cooper-Harvey-Kennedy 2001, figure 4 (node k of the paper is k-1 here,
		// root 6 -> 5): irreducible, every node is immediately dominated by the root.
		{"Cooper-Harvey-Kennedy fig. 4", [][]int{{1}, {0, 2}, {1}, {1, 2}, {0}, {4, 3}},
			[]int{5, 5, 5, 5, 5, -1},
			[][]int{{1}, {0, 2}, {1}, {1, 2}, {0}, {}}, true},
	}
	var dm DomMask
	var di DomIter
	for _, l := range lits {
		root := 0
		for v, d := range l.idom {
			if d == -1 {
				root = v
			}
		}
		if err := dm.Compute(l.out, root); err != nil {
			return err
		}
		a := dm.Info()
		want := &DomInfo{N: len(l.out), Root: root, Reach: a.Reach, IDom: l.idom, DF: l.df, Irreducible: l.irred}
		if s := eqDomInfo(a, want); s != "" {
			return fmt.Errorf("DomMask on %s: %s", l.name, s)
		}
		b, err := DomLarge(l.out, root)
		if err != nil {
			return err
		}
		if s := eqDomInfo(b, want); s != "" {
			return fmt.Errorf("DomLarge on %s: %s", l.name, s)
		}
	}
	for it := 0; it < rounds; it++ {
		n := 1 + int(next()%24)
		if it%16 == 0 {
			n = 40 + int(next()%25)
		}
		thr := next() % 1000 // edge probability in 1/1000
		if it%3 == 0 {
			thr = uint64(1500 / n)
		}
		out := make([][]int, n)
		for v := 0; v < n; v++ {
			out[v] = []int{}
			for u := 0; u < n; u++ {
				if next()%1000 < thr {
					out[v] = append(out[v], u)
				}
			}
		}
		root := int(next() % uint64(n))
		if err := dm.Compute(out, root); err != nil {
			return err
		}
		a := dm.Info()
		b, err := DomLarge(out, root)
		if err != nil {
			return err
		}
		if s := eqDomInfo(a, b); s != "" {
			return fmt.Errorf("DomMask vs DomLarge on out=%v root=%d: %s", out, root, s)
		}
		reach, idom := DomDataflow(out, root)
		if !eqInts(idom, a.IDom) {
			return fmt.Errorf("deletion vs dataflow idom on out=%v root=%d: %v vs %v", out, root, a.IDom, idom)
		}
		for v := range reach {
			if reach[v] != a.Reach[v] {
				return fmt.Errorf("reach mismatch on out=%v root=%d", out, root)
			}
		}
		in := make([][]int, n)
		for v, l := range out {
			for _, u := range l {
				in[u] = append(in[u], v)
			}
		}
		if err := di.Run(out, in, root); err != nil {
			return err
		}
		if !eqInts(di.IDom, a.IDom) {
			return fmt.Errorf("deletion vs iterative idom on out=%v root=%d: %v vs %v", out, root, a.IDom, di.IDom)
		}
	}
	return nil
}

// DomIter is the iterative dataflow solution of the dominance equations in
// its immediate-dominator form (Cooper, Harvey, Kennedy 2001): nodes are
// numbered in post-order of a depth-first search that follows the successor
// lists in the order given, and idom(b) := the intersection (nearest common
// ancestor in the current tree) of the already processed predecessors of b is
// re-evaluated for every node in reverse post-order until a whole sweep
// changes nothing. It is an implementation of its own (explicit stack, no
// library code) and serves two purposes: a fourth opinion on idom*, and the
// number of sweeps the fixed point needs on a graph (Sweeps, the final sweep
// that changes nothing included), which measures how hard a graph is for any
// sweep-based implementation. Buffers are reused between calls.
type DomIter struct {
	IDom   []int
	Sweeps int
	po     []int
	num    []int
	stV    []int
	stI    []int
}

// Run solves for the graph (out, in) and root. in must be the transpose of
// out; the order of the lists only influences the traversal order.
func (d *DomIter) Run(out, in [][]int, root int) error {
	n := len(out)
	if n == 0 || root < 0 || root >= n || len(in) != n {
		return fmt.Errorf("DomIter: bad size/root %d/%d", n, root)
	}
	if cap(d.IDom) < n {
		d.IDom, d.num = make([]int, n), make([]int, n)
	}
	d.IDom, d.num = d.IDom[:n], d.num[:n]
	idom, num := d.IDom, d.num
	for i := range idom {
		idom[i], num[i] = -1, -1
	}
	po := d.po[:0]
	stV, stI := append(d.stV[:0], root), append(d.stI[:0], 0)
	num[root] = -2 // on the stack or finished
	for len(stV) > 0 {
		top := len(stV) - 1
		v := stV[top]
		if k := stI[top]; k < len(out[v]) {
			stI[top]++
			if u := out[v][k]; num[u] == -1 {
				num[u] = -2
				stV, stI = append(stV, u), append(stI, 0)
			}
			continue
		}
		num[v] = len(po)
		po = append(po, v)
		stV, stI = stV[:top], stI[:top]
	}
	d.po, d.stV, d.stI = po, stV, stI
	idom[root] = root
	limit := n*n + n + 8 // estimates only ever move up the tree
	d.Sweeps = 0
	for changed := true; changed; {
		if d.Sweeps > limit {
			return fmt.Errorf("DomIter: no fixed point after %d sweeps", d.Sweeps)
		}
		changed = false
		d.Sweeps++
		for k := len(po) - 2; k >= 0; k-- { // po[len(po)-1] is the root
			b := po[k]
			ni := -1
			for _, p := range in[b] {
				if idom[p] < 0 {
					continue // not processed yet, or unreachable
				}
				if ni < 0 {
					ni = p
					continue
				}
				a, c := p, ni
				for a != c {
					for num[a] < num[c] {
						a = idom[a]
					}
					for num[c] < num[a] {
						c = idom[c]
					}
				}
				ni = a
			}
			if idom[b] != ni {
				idom[b] = ni
				changed = true
			}
		}
	}
	idom[root] = -1
	return nil
}

// DFSWalk computes the depth-first pre- and post-order of the nodes reachable
// from a root by the definition: a node is listed (pre-order) when it is first
// reached, its successors are then explored one after another in the order of
// its adjacency list, skipping those already reached, and it is listed
// (post-order) when all of them are done. Iterative (explicit stack), so the
// depth of the graph is not limited by the goroutine stack; reached-marks make
// it terminate on any graph. It never calls the library.
type DFSWalk struct {
	Pre, Post []int
	seen      []bool
	node, pos []int
}

// Run walks the graph with n nodes whose adjacency list of v is list(v).
// Successors outside 0..n-1 are reported by ok=false (the walk skips them).
func (d *DFSWalk) Run(n, root int, list func(v int) []int) (ok bool) {
	ok = true
	if cap(d.seen) < n {
		d.seen = make([]bool, n)
	}
	d.seen = d.seen[:n]
	for i := range d.seen {
		d.seen[i] = false
	}
	d.Pre, d.Post = d.Pre[:0], d.Post[:0]
	d.node, d.pos = d.node[:0], d.pos[:0]
	if root < 0 || root >= n {
		return false
	}
	d.seen[root] = true
	d.Pre = append(d.Pre, root)
	d.node, d.pos = append(d.node, root), append(d.pos, 0)
	for len(d.node) > 0 {
		top := len(d.node) - 1
		v, i := d.node[top], d.pos[top]
		l := list(v)
		if i >= len(l) {
			d.Post = append(d.Post, v)
			d.node, d.pos = d.node[:top], d.pos[:top]
			continue
		}
		d.pos[top] = i + 1
		s := l[i]
		if s < 0 || s >= n {
			ok = false
			continue
		}
		if d.seen[s] {
			continue
		}
		d.seen[s] = true
		d.Pre = append(d.Pre, s)
		d.node, d.pos = append(d.node, s), append(d.pos, 0)
	}
	return ok
}
