package ref

import "math/big"

// Moments holds exact-input, 384-bit statistics of a float64 sample.
type Moments struct {
	N    int
	Mean *big.Float
	// Var is the n-1 denominator variance (nil when N<2).
	Var *big.Float
	// M2 is the sum of squared deviations.
	M2 *big.Float
}

func MomentsOf(xs []float64) Moments {
	m := Moments{N: len(xs)}
	if len(xs) == 0 {
		return m
	}
	s := SumF(xs)
	m.Mean = Quo(s, NI(int64(len(xs))))
	m2 := nf()
	for _, x := range xs {
		d := Sub(NF(x), m.Mean)
		m2.Add(m2, Mul(d, d))
	}
	m.M2 = m2
	if len(xs) >= 2 {
		m.Var = Quo(m2, NI(int64(len(xs)-1)))
	}
	return m
}
