package ref

import "testing"

func TestKDESelfTest(t *testing.T) {
	if err := KDESelfTest(); err != nil {
		t.Fatal(err)
	}
}
