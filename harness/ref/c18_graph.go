package ref

import (
	"fmt"
	"math"
	"math/big"
	"sort"
)

// Graph references for C18. Graphs are plain adjacency lists; nothing here
// calls the library under test.

// GDFS returns the depth-first pre-order, post-order and the Euler event
// sequence (node<<1 for Enter, node<<1|1 for Exit) of the nodes reachable from
// root, following adjacency order. It is the recursive definition
//
//	visit(n): enter n; mark n; for s in adj[n] in order: if s unmarked: visit(s); exit n
//
// executed with an explicit stack.
func GDFS(adj [][]int, root int) (pre, post, ev []int) {
	n := len(adj)
	visited := make([]bool, n)
	type frame struct{ n, i int }
	stack := make([]frame, 0, 16)
	visited[root] = true
	pre = append(pre, root)
	ev = append(ev, root<<1)
	stack = append(stack, frame{root, 0})
	for len(stack) > 0 {
		f := &stack[len(stack)-1]
		if f.i < len(adj[f.n]) {
			s := adj[f.n][f.i]
			f.i++
			if !visited[s] {
				visited[s] = true
				pre = append(pre, s)
				ev = append(ev, s<<1)
				stack = append(stack, frame{s, 0})
			}
		} else {
			post = append(post, f.n)
			ev = append(ev, f.n<<1|1)
			stack = stack[:len(stack)-1]
		}
	}
	return
}

// gdfsRec is the same definition written recursively (self-test only).
func gdfsRec(adj [][]int, root int) (pre, post, ev []int) {
	visited := make(map[int]bool)
	var visit func(n int)
	visit = func(n int) {
		ev = append(ev, n<<1)
		pre = append(pre, n)
		visited[n] = true
		for _, s := range adj[n] {
			if !visited[s] {
				visit(s)
			}
		}
		post = append(post, n)
		ev = append(ev, n<<1|1)
	}
	visit(root)
	return
}

// GReach is breadth-first reachability from root (root included).
func GReach(adj [][]int, root int) []bool {
	seen := make([]bool, len(adj))
	seen[root] = true
	q := []int{root}
	for len(q) > 0 {
		u := q[0]
		q = q[1:]
		for _, v := range adj[u] {
			if !seen[v] {
				seen[v] = true
				q = append(q, v)
			}
		}
	}
	return seen
}

// GClosure returns, for a graph of at most 64 nodes, the reflexive
// reachability set of every node as a bit mask (BFS from every node).
func GClosure(adj [][]int) []uint64 {
	n := len(adj)
	if n > 64 {
		panic("GClosure: more than 64 nodes")
	}
	out := make([]uint64, n)
	q := make([]int, 0, n)
	for s := 0; s < n; s++ {
		mask := uint64(1) << uint(s)
		q = append(q[:0], s)
		for len(q) > 0 {
			u := q[len(q)-1]
			q = q[:len(q)-1]
			for _, v := range adj[u] {
				if mask&(1<<uint(v)) == 0 {
					mask |= 1 << uint(v)
					q = append(q, v)
				}
			}
		}
		out[s] = mask
	}
	return out
}

// GSCCMutual labels every node with the smallest node id that it reaches and
// that reaches it back (the definition of a strongly connected component).
func GSCCMutual(reach []uint64) []int {
	n := len(reach)
	comp := make([]int, n)
	for u := 0; u < n; u++ {
		comp[u] = u
		for v := 0; v < u; v++ {
			if reach[u]&(1<<uint(v)) != 0 && reach[v]&(1<<uint(u)) != 0 {
				comp[u] = v
				break
			}
		}
	}
	return comp
}

// GTranspose returns the transposed multigraph (sources in ascending order).
func GTranspose(adj [][]int) [][]int {
	in := make([][]int, len(adj))
	for u, l := range adj {
		for _, v := range l {
			in[v] = append(in[v], u)
		}
	}
	return in
}

// GKosaraju labels strongly connected components with an iterative
// two-pass Kosaraju (labels are arbitrary, 0..k-1).
func GKosaraju(adj [][]int) (comp []int, k int) {
	n := len(adj)
	order := make([]int, 0, n)
	visited := make([]bool, n)
	type frame struct{ n, i int }
	var stack []frame
	for s := 0; s < n; s++ {
		if visited[s] {
			continue
		}
		visited[s] = true
		stack = append(stack[:0], frame{s, 0})
		for len(stack) > 0 {
			f := &stack[len(stack)-1]
			if f.i < len(adj[f.n]) {
				v := adj[f.n][f.i]
				f.i++
				if !visited[v] {
					visited[v] = true
					stack = append(stack, frame{v, 0})
				}
			} else {
				order = append(order, f.n)
				stack = stack[:len(stack)-1]
			}
		}
	}
	tr := GTranspose(adj)
	comp = make([]int, n)
	for i := range comp {
		comp[i] = -1
	}
	var st []int
	for i := n - 1; i >= 0; i-- {
		s := order[i]
		if comp[s] >= 0 {
			continue
		}
		comp[s] = k
		st = append(st[:0], s)
		for len(st) > 0 {
			u := st[len(st)-1]
			st = st[:len(st)-1]
			for _, v := range tr[u] {
				if comp[v] < 0 {
					comp[v] = k
					st = append(st, v)
				}
			}
		}
		k++
	}
	return
}

// GSamePartition reports whether two labelings induce the same partition.
func GSamePartition(a, b []int) bool {
	if len(a) != len(b) {
		return false
	}
	ab := map[int]int{}
	ba := map[int]int{}
	for i := range a {
		if x, ok := ab[a[i]]; ok && x != b[i] {
			return false
		}
		if x, ok := ba[b[i]]; ok && x != a[i] {
			return false
		}
		ab[a[i]] = b[i]
		ba[b[i]] = a[i]
	}
	return true
}

// GSameMultiset compares two int lists as multisets.
func GSameMultiset(a, b []int) bool {
	if len(a) != len(b) {
		return false
	}
	if len(a) <= 8 {
		// tiny lists: counting without allocation
		for _, x := range a {
			ca, cb := 0, 0
			for _, y := range a {
				if y == x {
					ca++
				}
			}
			for _, y := range b {
				if y == x {
					cb++
				}
			}
			if ca != cb {
				return false
			}
		}
		return true
	}
	x := append([]int(nil), a...)
	y := append([]int(nil), b...)
	sort.Ints(x)
	sort.Ints(y)
	for i := range x {
		if x[i] != y[i] {
			return false
		}
	}
	return true
}

// GEqualDef is graph equality by definition: same node count and, node by
// node, the same multiset of successors.
func GEqualDef(a, b [][]int) bool {
	if len(a) != len(b) {
		return false
	}
	for i := range a {
		if !GSameMultiset(a[i], b[i]) {
			return false
		}
	}
	return true
}

type glcg uint64

func (g *glcg) next(n int) int {
	*g = *g*6364136223846793005 + 1442695040888963407
	return int((uint64(*g) >> 33) % uint64(n))
}

// GSelfTest cross-checks the graph references against each other and against
// hand-computed constants.
func GSelfTest() error {
	eq := func(a, b []int) bool {
		if len(a) != len(b) {
			return false
		}
		for i := range a {
			if a[i] != b[i] {
				return false
			}
		}
		return true
	}
	// hand-computed: diamond with a back edge and an unreachable node
	adj := [][]int{{1, 2}, {3}, {3, 0}, {}, {0}}
	pre, post, ev := GDFS(adj, 0)
	if !eq(pre, []int{0, 1, 3, 2}) || !eq(post, []int{3, 1, 2, 0}) ||
		!eq(ev, []int{0, 2, 6, 7, 3, 4, 5, 1}) {
		return fmt.Errorf("GDFS constants: %v %v %v", pre, post, ev)
	}
	cl := GClosure(adj)
	if cl[0] != 0b01111 || cl[3] != 0b01000 || cl[4] != 0b11111 || cl[1] != 0b01010 {
		return fmt.Errorf("GClosure constants: %b", cl)
	}
	if c := GSCCMutual(cl); !eq(c, []int{0, 1, 0, 3, 4}) {
		return fmt.Errorf("GSCCMutual constants: %v", c)
	}
	if !GSameMultiset([]int{1, 1, 2}, []int{1, 2, 1}) || GSameMultiset([]int{1, 1, 2}, []int{1, 2, 2}) {
		return fmt.Errorf("GSameMultiset constants")
	}
	big1 := []int{9, 8, 7, 6, 5, 4, 3, 2, 1, 1}
	big2 := []int{1, 2, 3, 4, 5, 6, 7, 8, 9, 1}
	big3 := []int{1, 2, 3, 4, 5, 6, 7, 8, 9, 9}
	if !GSameMultiset(big1, big2) || GSameMultiset(big1, big3) {
		return fmt.Errorf("GSameMultiset constants (sorted path)")
	}
	g := glcg(12345)
	for t := 0; t < 400; t++ {
		n := 1 + g.next(12)
		a := make([][]int, n)
		for i := range a {
			d := g.next(4)
			for k := 0; k < d; k++ {
				a[i] = append(a[i], g.next(n))
			}
		}
		for r := 0; r < n; r++ {
			p1, q1, e1 := GDFS(a, r)
			p2, q2, e2 := gdfsRec(a, r)
			if !eq(p1, p2) || !eq(q1, q2) || !eq(e1, e2) {
				return fmt.Errorf("GDFS iterative vs recursive differ on %v root %d", a, r)
			}
			reach := GReach(a, r)
			cnt := 0
			for _, b := range reach {
				if b {
					cnt++
				}
			}
			if cnt != len(p1) {
				return fmt.Errorf("GDFS visits %d nodes, BFS reaches %d on %v root %d", len(p1), cnt, a, r)
			}
			c := GClosure(a)
			for v := 0; v < n; v++ {
				if reach[v] != (c[r]&(1<<uint(v)) != 0) {
					return fmt.Errorf("GClosure vs GReach on %v", a)
				}
			}
		}
		k1, _ := GKosaraju(a)
		k2 := GSCCMutual(GClosure(a))
		if !GSamePartition(k1, k2) {
			return fmt.Errorf("Kosaraju vs mutual reachability differ on %v: %v %v", a, k1, k2)
		}
	}
	// exact summation: 1e50 + 0.1 - 1e50 + 0.2 is 0.1+0.2 exactly
	ex, spread := GExactSum([]float64{1e50, 0.1, -1e50, 0.2})
	want := new(big.Float).SetPrec(gSumPrec).SetFloat64(0.1)
	want.Add(want, new(big.Float).SetPrec(gSumPrec).SetFloat64(0.2))
	if ex.Cmp(want) != 0 || spread < 160 || spread > 175 || GAbsDiffExact(0.1+0.2, ex) > 1e-16 ||
		GAbsDiffExact(0.3, ex) == 0 || !math.IsInf(GAbsDiffExact(math.Inf(1), ex), 1) || !math.IsNaN(GAbsDiffExact(math.NaN(), ex)) {
		return fmt.Errorf("GExactSum constants: %v spread %d", ex, spread)
	}
	if ex, _ := GExactSum([]float64{5e-324, math.MaxFloat64, -math.MaxFloat64}); GFloat(ex) != 5e-324 {
		return fmt.Errorf("GExactSum range: %v", ex)
	}
	if in := GSumAnalyze([]float64{1e308, 1e308}); in.Overflows != 1 || !in.PosCan || in.NegCan {
		return fmt.Errorf("GSumAnalyze {1e308,1e308}: %+v", in)
	}
	if in := GSumAnalyze([]float64{1e308, -1e308, 1e308, math.Inf(-1)}); in.Overflows != 0 || !in.PosCan || in.NegCan || in.NegInf != 1 || GFloat(in.Exact) != 1e308 {
		return fmt.Errorf("GSumAnalyze {1e308,-1e308,1e308,-Inf}: %+v", in)
	}
	if in := GSumAnalyze([]float64{math.MaxFloat64 / 2, -3, math.MaxFloat64 / 4}); in.Overflows != 0 || in.PosCan || in.NegCan {
		return fmt.Errorf("GSumAnalyze below the overflow threshold: %+v", in)
	}
	if in := GSumAnalyze([]float64{-math.MaxFloat64, -0x1p970}); in.Overflows != -1 || !in.NegCan || in.PosCan {
		return fmt.Errorf("GSumAnalyze at the negative threshold: %+v", in)
	}
	return dotSelfTest()
}

// gSumPrec holds any sum of finite float64 values exactly (2^-1074..2^1024
// plus carries).
const gSumPrec = 2300

// GExactSum returns the exact sum of finite float64 values and the spread of
// their magnitudes: the difference between the largest and the smallest
// binary exponent among the non-zero values.
func GExactSum(xs []float64) (sum *big.Float, spread int) {
	sum = new(big.Float).SetPrec(gSumPrec)
	t := new(big.Float).SetPrec(gSumPrec)
	lo, hi := math.MaxInt32, math.MinInt32
	for _, x := range xs {
		sum.Add(sum, t.SetFloat64(x))
		if x != 0 {
			_, e := math.Frexp(x)
			if e < lo {
				lo = e
			}
			if e > hi {
				hi = e
			}
		}
	}
	if hi >= lo {
		spread = hi - lo
	}
	return sum, spread
}

// GAbsDiffExact is |got - exact| rounded to float64 (+Inf / NaN for a got
// that is infinite / NaN).
func GAbsDiffExact(got float64, exact *big.Float) float64 {
	if math.IsNaN(got) {
		return math.NaN()
	}
	if math.IsInf(got, 0) {
		return math.Inf(1)
	}
	d := new(big.Float).SetPrec(gSumPrec).SetFloat64(got)
	d.Sub(d, exact)
	f, _ := d.Abs(d).Float64()
	return f
}

// GFloat rounds an exact value to the nearest float64.
func GFloat(x *big.Float) float64 {
	f, _ := x.Float64()
	return f
}

// GSumInfo describes the sum of float64 values that may be infinite or close
// to the largest finite number.
type GSumInfo struct {
	PosInf, NegInf int        // how many values are +Inf / -Inf
	NaNs           int        // how many values are NaN
	Exact          *big.Float // exact sum of the finite values
	SumAbs         *big.Float // exact sum of their magnitudes
	Spread         int
	// PosCan / NegCan: some order of floating-point addition of the finite
	// values can overflow to +Inf / -Inf: the exact sum of the positive
	// (negative) finite values, plus a guard band for the rounding of the
	// partial sums, reaches the overflow threshold 2^1024 - 2^970. When both
	// are false every partial sum of every order is finite.
	PosCan, NegCan bool
	// Overflows: +1 / -1 when the exact sum of the finite values itself
	// rounds to +Inf / -Inf (whatever the order), 0 otherwise.
	Overflows int
}

// GSumAnalyze computes GSumInfo for xs.
func GSumAnalyze(xs []float64) GSumInfo {
	var in GSumInfo
	var fin, pos, neg []float64
	for _, x := range xs {
		switch {
		case math.IsNaN(x):
			in.NaNs++
		case math.IsInf(x, 1):
			in.PosInf++
		case math.IsInf(x, -1):
			in.NegInf++
		default:
			fin = append(fin, x)
			if x > 0 {
				pos = append(pos, x)
			} else if x < 0 {
				neg = append(neg, -x)
			}
		}
	}
	in.Exact, in.Spread = GExactSum(fin)
	p, _ := GExactSum(pos)
	n, _ := GExactSum(neg)
	in.SumAbs = new(big.Float).SetPrec(gSumPrec).Add(p, n)
	// threshold: the smallest magnitude that rounds to infinity
	one := new(big.Float).SetPrec(gSumPrec).SetInt64(1)
	thr := new(big.Float).SetMantExp(one, 1024) // takes the precision of one
	thr.Sub(thr, new(big.Float).SetMantExp(one, 970))
	guard := new(big.Float).SetPrec(gSumPrec).Mul(in.SumAbs, big.NewFloat(float64(len(fin)+1)*0x1p-50))
	in.PosCan = new(big.Float).SetPrec(gSumPrec).Add(p, guard).Cmp(thr) >= 0
	in.NegCan = new(big.Float).SetPrec(gSumPrec).Add(n, guard).Cmp(thr) >= 0
	if in.Exact.Cmp(thr) >= 0 {
		in.Overflows = 1
	} else if new(big.Float).Neg(in.Exact).Cmp(thr) >= 0 {
		in.Overflows = -1
	}
	return in
}

// GWithin reports whether the finite value got lies within tol of exact.
func GWithin(got float64, exact *big.Float, tol *big.Float) bool {
	if math.IsNaN(got) || math.IsInf(got, 0) {
		return false
	}
	d := new(big.Float).SetPrec(gSumPrec).SetFloat64(got)
	d.Sub(d, exact)
	return d.Abs(d).Cmp(tol) <= 0
}

// GScale returns x*f exactly enough (f a small float64 factor).
func GScale(x *big.Float, f float64) *big.Float {
	return new(big.Float).SetPrec(gSumPrec).Mul(x, new(big.Float).SetFloat64(f))
}
