package ref

import (
	"testing"
	"time"
)

func TestU(t *testing.T) {
	if err := USelfTest(9); err != nil {
		t.Fatal(err)
	}
	a := UEnum([]int{1, 1, 1, 1}, 2)
	want := []int64{1, 0, 1, 0, 2, 0, 1, 0, 1}
	for i, w := range want {
		if a.Count[i].Int64() != w {
			t.Errorf("untied 2+2: 2U=%d got %v want %d", i, a.Count[i], w)
		}
	}
	// UDist{2,3,[3,2]}: pool ranks 2,2,2,4.5,4.5 ; n1=2
	b := UEnum([]int{3, 2}, 2)
	t.Logf("T=[3,2] n1=2 counts=%v cdf=%v", b.Count, b.cdf)
	ones := make([]int, 100)
	for i := range ones {
		ones[i] = 1
	}
	t0 := time.Now()
	c := UDP(ones, 50)
	t.Logf("50+50 untied: total=%v in %v; cdf(2*1000)=%v", c.Total, time.Since(t0), c.CDF2(2000))
	tied := []int{}
	for i := 0; i < 10; i++ {
		tied = append(tied, 5)
	}
	t0 = time.Now()
	d := UDP(tied, 25)
	t.Logf("25+25 tied: total=%v in %v", d.Total, time.Since(t0))
}
