package ref

// Reference models for C15 (least squares, polynomial regression, LOESS).
// Everything is computed from the exact float64 inputs in Prec-bit
// arithmetic; gonum/mat is used only for singular values (condition numbers)
// and for the float64 QR second opinion of the start-up self-test. Nothing
// here calls the library under test.

import (
	"math"
	"math/big"
	"sort"

	"gonum.org/v1/gonum/mat"
)

// LSQ is one weighted linear least-squares problem
//
//	minimise S(b) = sum_i W[i] * (Y[i] - sum_j b[j]*Phi[j][i])^2
//
// together with its exact minimiser and the float64 summaries the tolerance
// policy needs.
type LSQ struct {
	P, N int
	Phi  [][]*big.Float // Phi[j][i]: basis function j at point i
	W    []*big.Float   // nil: unweighted
	Y    []*big.Float
	A    [][]*big.Float // Phi W Phi^T
	B    []*big.Float   // Phi W y
	Beta []*big.Float   // minimiser; nil when the normal matrix is singular

	Cond     float64 // 2-norm condition number of A (Inf when singular)
	SigmaMin float64 // smallest singular value of A
	FNorm    float64 // ||sqrt(W) X||_F
	YNorm    float64 // ||sqrt(W) y||_2
	FNormU   float64 // ||X||_F, unweighted
	YNormU   float64 // ||y||_2, unweighted
	BetaNorm float64 // ||Beta||_2
}

// BigRows converts float64 basis values.
func BigRows(phi [][]float64) [][]*big.Float {
	out := make([][]*big.Float, len(phi))
	for j, row := range phi {
		out[j] = make([]*big.Float, len(row))
		for i, v := range row {
			out[j][i] = NF(v)
		}
	}
	return out
}

// BigVec converts a float64 vector.
func BigVec(xs []float64) []*big.Float {
	out := make([]*big.Float, len(xs))
	for i, v := range xs {
		out[i] = NF(v)
	}
	return out
}

// MonomialsBig returns the exact powers x_i^j, j = 0..deg (53*6 bits fit
// into Prec, so these are exact for deg <= 7).
func MonomialsBig(xs []float64, deg int) [][]*big.Float {
	out := make([][]*big.Float, deg+1)
	for j := range out {
		out[j] = make([]*big.Float, len(xs))
	}
	for i, x := range xs {
		p := NF(1)
		bx := NF(x)
		for j := 0; j <= deg; j++ {
			out[j][i] = p
			p = Mul(p, bx)
		}
	}
	return out
}

// NewLSQ sets the problem up and solves it. ws == nil means unweighted.
func NewLSQ(phi [][]*big.Float, ys []float64, ws []float64) *LSQ {
	var bw []*big.Float
	if ws != nil {
		bw = BigVec(ws)
	}
	return NewLSQBig(phi, BigVec(ys), bw)
}

// NewLSQBig is NewLSQ for data already held in big arithmetic.
func NewLSQBig(phi [][]*big.Float, ys, ws []*big.Float) *LSQ {
	m := &LSQ{P: len(phi), N: len(ys), Phi: phi, Y: ys, W: ws}
	p, n := m.P, m.N
	wt := func(i int) *big.Float {
		if ws == nil {
			return NF(1)
		}
		return ws[i]
	}
	m.A = make([][]*big.Float, p)
	m.B = make([]*big.Float, p)
	var f2, f2u, y2, y2u big.Float
	f2.SetPrec(Prec)
	f2u.SetPrec(Prec)
	y2.SetPrec(Prec)
	y2u.SetPrec(Prec)
	for j := 0; j < p; j++ {
		m.A[j] = make([]*big.Float, p)
	}
	for j := 0; j < p; j++ {
		for k := j; k < p; k++ {
			s := nf()
			for i := 0; i < n; i++ {
				s.Add(s, Mul(wt(i), Mul(phi[j][i], phi[k][i])))
			}
			m.A[j][k] = s
			m.A[k][j] = s
		}
		s := nf()
		for i := 0; i < n; i++ {
			s.Add(s, Mul(wt(i), Mul(phi[j][i], ys[i])))
			f2u.Add(&f2u, Mul(phi[j][i], phi[j][i]))
		}
		m.B[j] = s
		f2.Add(&f2, m.A[j][j])
	}
	for i := 0; i < n; i++ {
		yy := Mul(ys[i], ys[i])
		y2u.Add(&y2u, yy)
		y2.Add(&y2, Mul(wt(i), yy))
	}
	m.FNorm = math.Sqrt(F64(&f2))
	m.FNormU = math.Sqrt(F64(&f2u))
	m.YNorm = math.Sqrt(F64(&y2))
	m.YNormU = math.Sqrt(F64(&y2u))

	// singular values of A (float64 copy; good to a few per cent for the
	// condition numbers that are judged at all, i.e. up to 1e10)
	m.Cond, m.SigmaMin = math.Inf(1), 0
	if p > 0 {
		af := mat.NewDense(p, p, nil)
		finite := true
		for j := 0; j < p; j++ {
			for k := 0; k < p; k++ {
				v := F64(m.A[j][k])
				if math.IsInf(v, 0) || math.IsNaN(v) {
					finite = false
				}
				af.Set(j, k, v)
			}
		}
		if finite {
			var svd mat.SVD
			if svd.Factorize(af, mat.SVDNone) {
				sv := svd.Values(nil)
				if len(sv) == p && sv[p-1] > 0 {
					m.SigmaMin = sv[p-1]
					m.Cond = sv[0] / sv[p-1]
				}
			}
		}
	}

	m.Beta = solveBig(m.A, m.B)
	if m.Beta != nil {
		s := 0.0
		for _, b := range m.Beta {
			v := F64(b)
			s += v * v
		}
		m.BetaNorm = math.Sqrt(s)
	}
	return m
}

// solveBig solves A x = b by Gaussian elimination with partial pivoting in
// Prec-bit arithmetic; nil when a pivot vanishes.
func solveBig(A [][]*big.Float, b []*big.Float) []*big.Float {
	p := len(b)
	M := make([][]*big.Float, p)
	for j := range M {
		M[j] = make([]*big.Float, p+1)
		for k := 0; k < p; k++ {
			M[j][k] = nf().Set(A[j][k])
		}
		M[j][p] = nf().Set(b[j])
	}
	for c := 0; c < p; c++ {
		piv := c
		for r := c + 1; r < p; r++ {
			if Abs(M[r][c]).Cmp(Abs(M[piv][c])) > 0 {
				piv = r
			}
		}
		if M[piv][c].Sign() == 0 {
			return nil
		}
		M[c], M[piv] = M[piv], M[c]
		for r := c + 1; r < p; r++ {
			if M[r][c].Sign() == 0 {
				continue
			}
			f := Quo(M[r][c], M[c][c])
			for k := c; k <= p; k++ {
				M[r][k] = Sub(M[r][k], Mul(f, M[c][k]))
			}
		}
	}
	x := make([]*big.Float, p)
	for r := p - 1; r >= 0; r-- {
		s := nf().Set(M[r][p])
		for k := r + 1; k < p; k++ {
			s.Sub(s, Mul(M[r][k], x[k]))
		}
		x[r] = Quo(s, M[r][r])
	}
	return x
}

// SumSq evaluates S(beta).
func (m *LSQ) SumSq(beta []*big.Float) *big.Float {
	s := nf()
	for i := 0; i < m.N; i++ {
		r := nf().Set(m.Y[i])
		for j := 0; j < m.P; j++ {
			r.Sub(r, Mul(beta[j], m.Phi[j][i]))
		}
		t := Mul(r, r)
		if m.W != nil {
			t = Mul(t, m.W[i])
		}
		s.Add(s, t)
	}
	return s
}

// Grad returns g_j = sum_i w_i r_i Phi[j][i] with r = y - X beta: the inner
// product of the weighted residual with basis function j.
func (m *LSQ) Grad(beta []*big.Float) []*big.Float {
	res := make([]*big.Float, m.N)
	for i := 0; i < m.N; i++ {
		r := nf().Set(m.Y[i])
		for j := 0; j < m.P; j++ {
			r.Sub(r, Mul(beta[j], m.Phi[j][i]))
		}
		if m.W != nil {
			r = Mul(r, m.W[i])
		}
		res[i] = r
	}
	g := make([]*big.Float, m.P)
	for j := 0; j < m.P; j++ {
		s := nf()
		for i := 0; i < m.N; i++ {
			s.Add(s, Mul(res[i], m.Phi[j][i]))
		}
		g[j] = s
	}
	return g
}

// TolGrad is the largest inner product of the weighted residual with a basis
// function that a backward-stable solver can leave behind: the computed
// beta is the exact solution for data perturbed by a relative c*(n+p)*eps in
// the norm, which moves X^T W (y - X beta) by at most
//
//	c (n+p) eps ||sqrt(W)X||_F ( ||sqrt(W)X||_F ||beta|| + ||sqrt(W)y|| ).
//
// With unweighted = true the unweighted norms are used (they dominate the
// weighted ones when all weights are <= 1); LOESS needs that because its
// float64 tricube weights carry an absolute, not a relative, rounding error.
func (m *LSQ) TolGrad(c float64, unweighted bool) float64 {
	f, y := m.FNorm, m.YNorm
	if unweighted {
		f, y = math.Max(f, m.FNormU), math.Max(y, m.YNormU)
	}
	const eps = 1.0 / (1 << 52)
	return c * float64(m.N+m.P) * eps * f * (f*m.BetaNorm + y)
}

// TolBeta is the 2-norm forward error that corresponds to TolGrad:
// beta - beta* = -A^{-1} g, so ||beta - beta*|| <= ||g|| / sigma_min(A). This
// is the usual cond(X^T W X) * eps bound of the normal equations.
func (m *LSQ) TolBeta(c float64, unweighted bool) float64 {
	if m.SigmaMin <= 0 {
		return math.Inf(1)
	}
	return math.Sqrt(float64(m.P)) * m.TolGrad(c, unweighted) / m.SigmaMin
}

// PolyEval returns sum c_i x^i and sum |c_i| |x|^i, both exact to Prec bits.
func PolyEval(coef []float64, x float64) (val, abs *big.Float) {
	val, abs = nf(), nf()
	p := NF(1)
	bx := NF(x)
	for _, c := range coef {
		t := Mul(NF(c), p)
		val.Add(val, t)
		abs.Add(abs, Abs(t))
		p = Mul(p, bx)
	}
	return
}

// PolyEvalBig is PolyEval for big coefficients.
func PolyEvalBig(coef []*big.Float, x float64) (val, abs *big.Float) {
	val, abs = nf(), nf()
	p := NF(1)
	bx := NF(x)
	for _, c := range coef {
		t := Mul(c, p)
		val.Add(val, t)
		abs.Add(abs, Abs(t))
		p = Mul(p, bx)
	}
	return
}

// QRSolve is the float64 second opinion used by the self-test: it solves the
// weighted problem by Householder QR of sqrt(W) X.
func QRSolve(phi [][]float64, ys, ws []float64) []float64 {
	p, n := len(phi), len(ys)
	X := mat.NewDense(n, p, nil)
	y := mat.NewVecDense(n, nil)
	for i := 0; i < n; i++ {
		s := 1.0
		if ws != nil {
			s = math.Sqrt(ws[i])
		}
		for j := 0; j < p; j++ {
			X.Set(i, j, s*phi[j][i])
		}
		y.SetVec(i, s*ys[i])
	}
	var qr mat.QR
	qr.Factorize(X)
	b := mat.NewVecDense(p, nil)
	if err := qr.SolveVecTo(b, false, y); err != nil {
		if _, ok := err.(mat.Condition); !ok {
			return nil
		}
	}
	out := make([]float64, p)
	for j := range out {
		out[j] = b.AtVec(j)
	}
	return out
}

// LoessWindow is one admissible choice of the q nearest points.
type LoessWindow struct {
	Idx []int // indices into the caller's xs, nearest first
}

// LoessNearest returns the q points nearest to x by sorting exact distances.
// When the q-th and (q+1)-th distances are within rel*scale of each other the
// alternative window (q-th exchanged for the (q+1)-th) is returned as well and
// tie is true.
func LoessNearest(xs []float64, q int, x float64, rel float64) (wins []LoessWindow, tie bool) {
	n := len(xs)
	type de struct {
		d *big.Float
		i int
	}
	ds := make([]de, n)
	scale := math.Abs(x)
	bx := NF(x)
	for i, v := range xs {
		ds[i] = de{Abs(Sub(NF(v), bx)), i}
		if a := math.Abs(v); a > scale {
			scale = a
		}
	}
	sort.SliceStable(ds, func(a, b int) bool { return ds[a].d.Cmp(ds[b].d) < 0 })
	idx := make([]int, q)
	for k := 0; k < q; k++ {
		idx[k] = ds[k].i
	}
	wins = append(wins, LoessWindow{idx})
	if q < n {
		gap := F64(Sub(ds[q].d, ds[q-1].d))
		if gap <= rel*scale {
			tie = true
			alt := append([]int(nil), idx...)
			alt[q-1] = ds[q].i
			wins = append(wins, LoessWindow{alt})
		}
	}
	return
}

// LoessFit is the reference value of the tricube-weighted local polynomial
// fit at x over the given window, with what the tolerance needs.
type LoessFit struct {
	Value    float64 // intercept of the fit on the basis centred at x
	ValueRaw float64 // the same fit evaluated from the uncentred basis
	Raw      *LSQ    // the uncentred problem (conditioning of the design)
	Weights  []float64
	D        float64 // distance to the farthest point of the window
	NonZero  int     // number of points with non-zero weight
	OK       bool
}

// LoessAt computes the local fit.
func LoessAt(xs, ys []float64, win LoessWindow, degree int, x float64) LoessFit {
	q := len(win.Idx)
	bx := NF(x)
	lx := make([]float64, q)
	ly := make([]float64, q)
	dist := make([]*big.Float, q)
	d := nf()
	for k, i := range win.Idx {
		lx[k], ly[k] = xs[i], ys[i]
		dist[k] = Abs(Sub(NF(xs[i]), bx))
		if dist[k].Cmp(d) > 0 {
			d = dist[k]
		}
	}
	out := LoessFit{D: F64(d)}
	if d.Sign() == 0 {
		return out
	}
	one := NF(1)
	bw := make([]*big.Float, q)
	out.Weights = make([]float64, q)
	for k := range dist {
		u := Quo(dist[k], d)
		t := Sub(one, Mul(u, Mul(u, u)))
		bw[k] = Mul(t, Mul(t, t))
		out.Weights[k] = F64(bw[k])
		if bw[k].Sign() > 0 {
			out.NonZero++
		}
	}
	// centred basis: t_i = x_i - x exactly
	cen := make([][]*big.Float, degree+1)
	for j := range cen {
		cen[j] = make([]*big.Float, q)
	}
	for k := range lx {
		t := Sub(NF(lx[k]), bx)
		p := NF(1)
		for j := 0; j <= degree; j++ {
			cen[j][k] = p
			p = Mul(p, t)
		}
	}
	by := BigVec(ly)
	c := NewLSQBig(cen, by, bw)
	raw := NewLSQBig(MonomialsBig(lx, degree), by, bw)
	out.Raw = raw
	if c.Beta == nil || raw.Beta == nil {
		return out
	}
	out.Value = F64(c.Beta[0])
	v, _ := PolyEvalBig(raw.Beta, x)
	out.ValueRaw = F64(v)
	out.OK = true
	return out
}

// CeilProduct returns ceil(span*n) evaluated exactly on the float64 span and,
// separately, on the rounded float64 product; they differ only when the
// product is within rounding distance of an integer.
func CeilProduct(span float64, n int) (exact, rounded int) {
	p := Mul(NF(span), NI(int64(n)))
	i, acc := p.Int64()
	exact = int(i)
	if acc == big.Below { // truncated towards zero from a positive non-integer
		exact++
	}
	rounded = int(math.Ceil(span * float64(n)))
	return
}
