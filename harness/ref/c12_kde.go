package ref

import (
	"fmt"
	"math"
	"math/big"
	"sort"
)

// Reference model for C12 (kernel density estimates). Nothing here calls the
// library under test.
//
// The model is the definition: the unbounded estimate is the weighted
// average of one kernel per sample value; with boundaries the real line is
// folded onto [Min,Max] by reflection at the boundaries, i.e. a point x of
// the support collects the unbounded density at all its mirror images
//
//	x + k*d   and   2*Min - x + k*d,   d = 2*(Max-Min), k in Z
//
// (one boundary: x and its single mirror image). The folded CDF at x is the
// unbounded mass of everything that folds into [Min,x], a union of windows.

// Kernel numbers as in the library's KDEKernel.
const (
	KEpanechnikov = 0
	KGaussian     = 1
	KDelta        = 2
)

// KDEModel is one kernel density estimate. Min = -Inf and/or Max = +Inf mean
// "no boundary on that side".
type KDEModel struct {
	Xs, Ws   []float64 // Ws == nil: unweighted
	Kernel   int
	H        float64
	Min, Max float64
	W        float64 // total weight
}

// NewKDEModel copies nothing; the caller must not change xs/ws.
func NewKDEModel(xs, ws []float64, kernel int, h, min, max float64) *KDEModel {
	m := &KDEModel{Xs: xs, Ws: ws, Kernel: kernel, H: h, Min: min, Max: max}
	var s ksum
	for i := range xs {
		s.add(m.w(i))
	}
	m.W = s.val()
	return m
}

func (m *KDEModel) w(i int) float64 {
	if m.Ws == nil {
		return 1
	}
	return m.Ws[i]
}

// ksum is a Neumaier compensated accumulator.
type ksum struct{ s, c float64 }

func (k *ksum) add(x float64) {
	t := k.s + x
	if math.Abs(k.s) >= math.Abs(x) {
		k.c += (k.s - t) + x
	} else {
		k.c += (x - t) + k.s
	}
	k.s = t
}
func (k *ksum) val() float64 { return k.s + k.c }

const invSqrt2Pi = 0.398942280401432677939946059934381868

// reach is the distance (in bandwidths) beyond which a kernel is treated as
// zero inside image sums: exact for Epanechnikov; for the Gaussian the
// neglected density is below exp(-72) = 5e-32 of the peak and the neglected
// mass below 4e-33 per kernel.
func (m *KDEModel) reach() float64 {
	if m.Kernel == KEpanechnikov {
		return m.H
	}
	return 12 * m.H
}

// kpdf is the kernel density at distance t from its centre.
func (m *KDEModel) kpdf(t float64) float64 {
	u := t / m.H
	switch m.Kernel {
	case KEpanechnikov:
		if u <= -1 || u >= 1 {
			return 0
		}
		return 0.75 * (1 - u) * (1 + u) / m.H
	case KGaussian:
		return math.Exp(-0.5*u*u) * invSqrt2Pi / m.H
	}
	return math.NaN()
}

// kcdf is the kernel's distribution function at distance t.
func (m *KDEModel) kcdf(t float64) float64 {
	u := t / m.H
	switch m.Kernel {
	case KEpanechnikov:
		if u <= -1 {
			return 0
		}
		if u >= 1 {
			return 1
		}
		return 0.5 + u*(0.75-0.25*u*u)
	case KGaussian:
		return 0.5 * math.Erfc(-u/math.Sqrt2)
	case KDelta:
		if t >= 0 {
			return 1
		}
		return 0
	}
	return math.NaN()
}

// kmass is the kernel mass of the window [a,b] (distances from the centre,
// a <= b), evaluated without cancellation in either tail.
func (m *KDEModel) kmass(a, b float64) float64 {
	if !(b > a) {
		return 0
	}
	ua, ub := a/m.H, b/m.H
	switch m.Kernel {
	case KEpanechnikov:
		if ua < -1 {
			ua = -1
		}
		if ub > 1 {
			ub = 1
		}
		if !(ub > ua) {
			return 0
		}
		// integral of 3/4 (1-u^2) = 3/4 (ub-ua) - 1/4 (ub^3-ua^3)
		return (ub - ua) * (0.75 - 0.25*(ub*ub+ub*ua+ua*ua))
	case KGaussian:
		switch {
		case ua >= 0:
			return 0.5 * (math.Erfc(ua/math.Sqrt2) - math.Erfc(ub/math.Sqrt2))
		case ub <= 0:
			return 0.5 * (math.Erfc(-ub/math.Sqrt2) - math.Erfc(-ua/math.Sqrt2))
		default:
			return 0.5 * (math.Erf(ub/math.Sqrt2) + math.Erf(-ua/math.Sqrt2))
		}
	}
	return math.NaN()
}

// Bounded reports which boundaries are present.
func (m *KDEModel) Bounded() (lower, upper bool) {
	return !math.IsInf(m.Min, -1), !math.IsInf(m.Max, 1)
}

// maxImages bounds the length of one image sum (a guard for replayed cases
// with absurd parameters; the workload stays far below it).
const maxImages = 4e6

// BasePDF is the unbounded estimate at t.
func (m *KDEModel) BasePDF(t float64) float64 {
	var s ksum
	for i, xi := range m.Xs {
		s.add(m.w(i) * m.kpdf(t-xi))
	}
	return s.val() / m.W
}

// BaseCDF is the unbounded distribution function at t.
func (m *KDEModel) BaseCDF(t float64) float64 {
	var s ksum
	for i, xi := range m.Xs {
		s.add(m.w(i) * m.kcdf(t-xi))
	}
	return s.val() / m.W
}

func (m *KDEModel) baseMass(a, b float64) float64 {
	var s ksum
	for i, xi := range m.Xs {
		s.add(m.w(i) * m.kmass(a-xi, b-xi))
	}
	return s.val() / m.W
}

// finite reports whether the model's parameters and the argument are usable:
// every loop below is entered only with finite limits, so a non-finite
// bandwidth, boundary width or argument yields NaN instead of a loop that
// cannot end.
func (m *KDEModel) finite(x float64) bool {
	if math.IsNaN(x) || math.IsInf(x, 0) || math.IsNaN(m.H) || math.IsInf(m.H, 0) || !(m.W > 0) || math.IsInf(m.W, 0) {
		return false
	}
	if m.Kernel != KDelta && !(m.H > 0) {
		return false
	}
	if math.IsNaN(m.Min) || math.IsNaN(m.Max) || math.IsInf(m.Min, 1) || math.IsInf(m.Max, -1) {
		return false
	}
	return true
}

// PDF is the (folded) density at x; 0 outside [Min,Max). Not defined for the
// delta kernel (NaN). For the Gaussian kernel the value is accurate to
// rounding relative to itself (not only relative to the peak) wherever it is
// above the underflow range: every term is positive, and the image sum is
// extended to 39 bandwidths (exp(-39^2/2) = 0 in float64) when the 12
// bandwidth sum is small enough for the dropped images to matter.
func (m *KDEModel) PDF(x float64) float64 {
	if m.Kernel == KDelta || !m.finite(x) {
		return math.NaN()
	}
	lo, up := m.Bounded()
	if (lo && x < m.Min) || (up && x >= m.Max) {
		return 0
	}
	switch {
	case !lo && !up:
		return m.BasePDF(x)
	case lo && !up:
		return m.BasePDF(x) + m.BasePDF(2*m.Min-x)
	case !lo && up:
		return m.BasePDF(x) + m.BasePDF(2*m.Max-x)
	}
	d := 2 * (m.Max - m.Min)
	if !(d > 0) || math.IsInf(d, 0) {
		return math.NaN()
	}
	v := m.pdfBoth(x, d, m.reach())
	if m.Kernel == KGaussian {
		// images dropped beyond 12 bandwidths: two families, both sides,
		// spacing d: below 4 phi(12)/h (1 + h/(12 d)) < 1e-30/h max(1,h/d)
		dropped := 1e-30 / m.H * math.Max(1, m.H/d)
		if v < 1e10*dropped {
			v = m.pdfBoth(x, d, 39*m.H)
		}
	}
	return v
}

// pdfBoth is the doubly-bounded image sum with kernels cut at distance R.
func (m *KDEModel) pdfBoth(x, d, R float64) float64 {
	var s ksum
	for i, xi := range m.Xs {
		var si ksum
		for _, img := range [2]float64{x, 2*m.Min - x} {
			// images img + k d with |img + k d - xi| <= R
			k0 := math.Ceil((xi - R - img) / d)
			k1 := math.Floor((xi + R - img) / d)
			if math.IsNaN(k0) || math.IsNaN(k1) || math.IsInf(k0, 0) || math.IsInf(k1, 0) || k1-k0 > maxImages {
				return math.NaN()
			}
			for k := k0; k <= k1; k++ {
				si.add(m.kpdf(img + k*d - xi))
			}
		}
		s.add(m.w(i) * si.val())
	}
	return s.val() / m.W
}

// CDF is the (folded) distribution function: 0 below and at Min, 1 from Max.
// For the delta kernel it is the weighted empirical distribution function
// (right-continuous) inside the support.
func (m *KDEModel) CDF(x float64) float64 {
	if !m.finite(x) {
		return math.NaN()
	}
	lo, up := m.Bounded()
	if lo && x <= m.Min {
		return 0
	}
	if up && x >= m.Max {
		return 1
	}
	if m.Kernel == KDelta {
		// samples lie inside [Min,Max]: no image of a point mass falls
		// anywhere but on itself
		return m.BaseCDF(x)
	}
	switch {
	case !lo && !up:
		return m.BaseCDF(x)
	case lo && !up:
		return m.baseMass(2*m.Min-x, x)
	case !lo && up:
		return 1 - m.baseMass(x, 2*m.Max-x)
	}
	d := 2 * (m.Max - m.Min)
	if !(d > 0) || math.IsInf(d, 0) {
		return math.NaN()
	}
	R := m.reach()
	a0 := 2*m.Min - x // windows [a0 + k d, x + k d]
	var s ksum
	for i, xi := range m.Xs {
		k0 := math.Ceil((xi - R - x) / d)
		k1 := math.Floor((xi + R - a0) / d)
		if math.IsNaN(k0) || math.IsNaN(k1) || math.IsInf(k0, 0) || math.IsInf(k1, 0) || k1-k0 > maxImages {
			return math.NaN()
		}
		var si ksum
		for k := k0; k <= k1; k++ {
			si.add(m.kmass(a0+k*d-xi, x+k*d-xi))
		}
		s.add(m.w(i) * si.val())
	}
	return s.val() / m.W
}

// PointMass is, for the delta kernel, the weight fraction of the samples in
// the closed interval [a,b].
func (m *KDEModel) PointMass(a, b float64) float64 {
	var s ksum
	for i, xi := range m.Xs {
		if xi >= a && xi <= b {
			s.add(m.w(i))
		}
	}
	return s.val() / m.W
}

// DeltaWindow serves the ambiguity window of the delta kernel with
// boundaries: the images of a point are formed in rounded arithmetic, so a
// point within a few ulps of a sample value (a jump of the distribution
// function) may legitimately be placed on either side of it. It returns the
// distribution function just below x-delta and at x+delta, and whether a
// sample value other than x itself lies in [x-delta,x+delta].
func (m *KDEModel) DeltaWindow(x, delta float64) (lo, hi float64, jump bool) {
	var sl, sh ksum
	for i, xi := range m.Xs {
		if xi < x-delta {
			sl.add(m.w(i))
		}
		if xi <= x+delta {
			sh.add(m.w(i))
		}
		if xi != x && xi >= x-delta && xi <= x+delta {
			jump = true
		}
	}
	lo, hi = sl.val()/m.W, sh.val()/m.W
	lower, upper := m.Bounded()
	if lower && x-delta <= m.Min {
		lo = 0
	}
	if upper && x+delta >= m.Max {
		hi = 1
	}
	if lower && x+delta <= m.Min {
		hi = 0
	}
	if upper && x-delta >= m.Max {
		lo = 1
	}
	return
}

// NearSample reports whether a sample value lies in [x-delta,x+delta].
func (m *KDEModel) NearSample(x, delta float64) bool {
	for _, xi := range m.Xs {
		if xi >= x-delta && xi <= x+delta {
			return true
		}
	}
	return false
}

// DataRange returns the smallest and largest sample value.
func (m *KDEModel) DataRange() (lo, hi float64) {
	lo, hi = math.Inf(1), math.Inf(-1)
	for _, x := range m.Xs {
		lo, hi = math.Min(lo, x), math.Max(hi, x)
	}
	return
}

// Support returns an interval inside the boundaries outside of which the
// estimate has mass below 1e-30 (exactly none for Epanechnikov).
func (m *KDEModel) Support() (lo, hi float64) {
	lo, hi = m.DataRange()
	if m.Kernel != KDelta {
		lo, hi = lo-m.reach(), hi+m.reach()
	}
	return math.Max(lo, m.Min), math.Min(hi, m.Max)
}

// fold maps a point of the real line to the point of [Min,Max] it is
// reflected onto.
func (m *KDEModel) fold(e float64) float64 {
	lo, up := m.Bounded()
	switch {
	case lo && up:
		L := m.Max - m.Min
		t := math.Mod(e-m.Min, 2*L)
		if t < 0 {
			t += 2 * L
		}
		if t > L {
			t = 2*L - t
		}
		return m.Min + t
	case lo && e < m.Min:
		return 2*m.Min - e
	case up && e > m.Max:
		return 2*m.Max - e
	}
	return e
}

// Kinks returns, sorted, the points of the support where the density is not
// smooth: the (folded) ends of the kernel supports for Epanechnikov, nothing
// for the Gaussian.
func (m *KDEModel) Kinks() []float64 {
	if m.Kernel != KEpanechnikov {
		return nil
	}
	out := make([]float64, 0, 2*len(m.Xs))
	for _, xi := range m.Xs {
		out = append(out, m.fold(xi-m.H), m.fold(xi+m.H))
	}
	sort.Float64s(out)
	return out
}

// Integrate integrates f (a density of this model's shape, e.g. the
// library's PDF) over [a,b], a and b inside the support: 10-point
// Gauss-Legendre on panels that end at every kink and are no wider than one
// bandwidth. For the piecewise quadratic Epanechnikov estimate this is exact
// up to rounding; for Gaussian mixtures of bandwidth h the error of a panel
// of width <= h is below 1e-20 of its mass.
func (m *KDEModel) Integrate(f func(float64) float64, a, b float64, kinks []float64) float64 {
	if !(b > a) {
		return 0
	}
	if math.IsInf(a, 0) || math.IsInf(b, 0) || !(m.H > 0) || math.IsInf(m.H, 0) {
		return math.NaN()
	}
	pts := []float64{a}
	for _, k := range kinks {
		if k > a && k < b {
			pts = append(pts, k)
		}
	}
	pts = append(pts, b)
	var s ksum
	for i := 0; i+1 < len(pts); i++ {
		lo, hi := pts[i], pts[i+1]
		if !(hi > lo) {
			continue
		}
		panels := 1
		if m.Kernel == KGaussian {
			p := math.Ceil((hi - lo) / m.H)
			if p > 1e5 {
				p = 1e5
			}
			if p > 1 {
				panels = int(p)
			}
		}
		s.add(GL(f, lo, hi, panels))
	}
	return s.val()
}

// ScottInfo is the reference value of Scott's rule for unweighted data, with
// the quantities the tolerance needs.
type ScottInfo struct {
	SD, IQR   float64
	Scott     float64 // 1.06 min(s, IQR/1.349) n^(-1/5)
	Silverman float64 // 1.06 s n^(-1/5)
	MaxAbs    float64
}

// BandwidthRules evaluates both rules for unweighted xs (n >= 1) from the
// exact standard deviation (0 for n = 1) and the exact R8 quartiles.
func BandwidthRules(xs []float64) ScottInfo {
	n := len(xs)
	var info ScottInfo
	sorted := append([]float64(nil), xs...)
	sort.Float64s(sorted)
	for _, x := range xs {
		info.MaxAbs = math.Max(info.MaxAbs, math.Abs(x))
	}
	sd := NF(0)
	if n >= 2 {
		mean := Quo(SumF(xs), NI(int64(n)))
		ss := NF(0)
		for _, x := range xs {
			d := Sub(NF(x), mean)
			ss = Add(ss, Mul(d, d))
		}
		sd = Sqrt(Quo(ss, NI(int64(n-1))))
	}
	iqr := Sub(R8(sorted, 0.75).Val, R8(sorted, 0.25).Val)
	info.SD, info.IQR = F64(sd), F64(iqr)
	scale := Mul(Quo(NI(106), NI(100)), PowNegFifth(NF(float64(n))))
	rob := Quo(Mul(iqr, NI(1000)), NI(1349))
	least := sd
	if rob.Cmp(sd) < 0 {
		least = rob
	}
	info.Scott = F64(Mul(scale, least))
	info.Silverman = F64(Mul(scale, sd))
	return info
}

// PowNegFifth is w^(-1/5) for w > 0 (exponent exactly -1/5).
func PowNegFifth(w *big.Float) *big.Float {
	return Exp(Quo(Log(w), NI(-5)))
}

// KDESelfTest checks the model against hand-computed values, against the
// 384-bit normal distribution and against itself (the folded density must
// integrate to the folded distribution function, total mass 1).
func KDESelfTest() error {
	near := func(a, b, tol float64) bool { return math.Abs(a-b) <= tol }
	inf := math.Inf(1)
	// Gaussian window masses against the big-float Phi
	g := NewKDEModel([]float64{0}, nil, KGaussian, 1, -inf, inf)
	for _, w := range [][2]float64{{-1, 1}, {0.5, 2}, {-3, -0.25}, {4, 9}, {-9, -5}, {-0.1, 7}, {-8, 0.3}} {
		want := F64(Sub(NormCDF(w[1], 0, 1), NormCDF(w[0], 0, 1)))
		if got := g.kmass(w[0], w[1]); !near(got, want, 1e-14*want+1e-300) {
			return fmt.Errorf("gaussian window %v: %v want %v", w, got, want)
		}
	}
	for _, c := range [][3]float64{{0.3, 1.7, 0.5}, {-2, 10, 4}, {5, 5.001, 0.001}} {
		gm := NewKDEModel([]float64{c[1]}, nil, KGaussian, c[2], -inf, inf)
		want := F64(NormCDF(c[0], c[1], c[2]))
		if got := gm.CDF(c[0]); !near(got, want, 1e-15) {
			return fmt.Errorf("gaussian CDF %v: %v want %v", c, got, want)
		}
		z := (c[0] - c[1]) / c[2]
		wantP := F64(Quo(NormPDFz(NF(z)), NF(c[2])))
		if got := gm.PDF(c[0]); !near(got, wantP, 1e-14*wantP) {
			return fmt.Errorf("gaussian PDF %v: %v want %v", c, got, wantP)
		}
	}
	// half-normal: one sample at 0, lower boundary 0: density 2 phi(x)
	hn := NewKDEModel([]float64{0}, nil, KGaussian, 1, 0, inf)
	if got := hn.PDF(1); !near(got, 0.48394144903828673, 1e-15) {
		return fmt.Errorf("half-normal PDF(1)=%v", got)
	}
	if got := hn.CDF(1); !near(got, 0.6826894921370859, 1e-15) {
		return fmt.Errorf("half-normal CDF(1)=%v", got)
	}
	// Gaussian tails with two boundaries: one sample at 0, h=1, support
	// [-1,40): at x the images that matter are x and -2-x
	tb := NewKDEModel([]float64{0}, nil, KGaussian, 1, -1, 40)
	for _, x := range []float64{9, 13.5, 30, 36} {
		want := F64(Add(NormPDFz(NF(x)), NormPDFz(NF(-2-x))))
		if got := tb.PDF(x); !near(got, want, 1e-12*want) || !(got > 0) {
			return fmt.Errorf("two-boundary gaussian tail PDF(%v)=%v want %v", x, got, want)
		}
	}
	// non-finite parameters or arguments end in NaN, never in a loop
	for _, bad := range []*KDEModel{
		NewKDEModel([]float64{0, 1}, nil, KGaussian, math.NaN(), 0, 1),
		NewKDEModel([]float64{0, 1}, nil, KGaussian, inf, 0, 1),
		NewKDEModel([]float64{0, 1}, nil, KGaussian, 0, 0, 1),
		NewKDEModel([]float64{0, 1}, nil, KEpanechnikov, 1, math.NaN(), 1),
	} {
		if v := bad.PDF(0.5); !math.IsNaN(v) {
			return fmt.Errorf("model PDF with non-finite parameters: %v", v)
		}
		if v := bad.CDF(0.25); !math.IsNaN(v) {
			return fmt.Errorf("model CDF with non-finite parameters: %v", v)
		}
	}
	if v := g.PDF(math.NaN()); !math.IsNaN(v) {
		return fmt.Errorf("model PDF(NaN)=%v", v)
	}
	// Epanechnikov, one sample at 0, h=1, support [-1/2,1/2]: at x in
	// [0,1/2] the density is 3/4(1-x^2) + 3/4(1-(1-x)^2)
	ep := NewKDEModel([]float64{0}, nil, KEpanechnikov, 1, -0.5, 0.5)
	if got := ep.PDF(0.25); !near(got, 1.03125, 1e-15) {
		return fmt.Errorf("folded Epanechnikov PDF(0.25)=%v", got)
	}
	if got := ep.PDF(-0.25); !near(got, 1.03125, 1e-15) {
		return fmt.Errorf("folded Epanechnikov PDF(-0.25)=%v", got)
	}
	// CDF(0.25) = int_{-1/2}^{1/4} : by symmetry 1/2 + int_0^{1/4}
	//   3/4(1-x^2) + 3/4(2x - x^2) dx = 1/2 + 3/4 (1/4 + 1/16 - 2/192)
	if got, want := ep.CDF(0.25), 0.5+0.75*(0.25+1.0/16-2.0/192); !near(got, want, 1e-15) {
		return fmt.Errorf("folded Epanechnikov CDF(0.25)=%v want %v", got, want)
	}
	// unbounded weighted Epanechnikov by hand: samples 0 (w 1) and 1 (w 3), h=2, x=0.5
	we := NewKDEModel([]float64{0, 1}, []float64{1, 3}, KEpanechnikov, 2, -inf, inf)
	if got, want := we.PDF(0.5), (0.375*(1-0.0625)+3*0.375*(1-0.0625))/4; !near(got, want, 1e-15) {
		return fmt.Errorf("weighted Epanechnikov PDF=%v want %v", got, want)
	}
	if got, want := we.CDF(0.5), (0.25*(2+0.75-0.015625)+3*0.25*(2-0.75+0.015625))/4; !near(got, want, 1e-15) {
		return fmt.Errorf("weighted Epanechnikov CDF=%v want %v", got, want)
	}
	// weighted empirical distribution function
	de := NewKDEModel([]float64{3, 1, 2}, []float64{1, 2, 5}, KDelta, 1, -inf, inf)
	if de.CDF(0.99) != 0 || de.CDF(1) != 0.25 || de.CDF(2.5) != 0.875 || de.CDF(3) != 1 || de.PointMass(2, 3) != 0.75 {
		return fmt.Errorf("weighted ECDF")
	}
	// self-consistency of the folds on fixed configurations
	xs := []float64{0.3, 1.1, 1.15, 2.9, 4}
	ws := []float64{2, 0.5, 1, 3, 0.25}
	for _, kern := range []int{KEpanechnikov, KGaussian} {
		for _, h := range []float64{0.07, 0.9, 6, 40} {
			for _, b := range [][2]float64{{-inf, inf}, {0.3, inf}, {-1, inf}, {-inf, 4}, {-inf, 4.5}, {0.3, 4}, {0, 5}, {-7, 4.25}} {
				m := NewKDEModel(xs, ws, kern, h, b[0], b[1])
				lo, hi := m.Support()
				kinks := m.Kinks()
				if tot := m.Integrate(m.PDF, lo, hi, kinks); !near(tot, 1, 1e-12) {
					return fmt.Errorf("model mass kernel %d h=%v bounds %v: %v", kern, h, b, tot)
				}
				if c0, c1 := m.CDF(lo), m.CDF(hi); !near(c0, 0, 1e-13) || !near(c1, 1, 1e-13) {
					return fmt.Errorf("model CDF ends kernel %d h=%v bounds %v: %v %v", kern, h, b, c0, c1)
				}
				for _, t := range []float64{0.11, 0.5, 0.83} {
					x := lo + t*(hi-lo)
					if in, c := m.Integrate(m.PDF, lo, x, kinks), m.CDF(x); !near(in, c, 1e-12) {
						return fmt.Errorf("model integral kernel %d h=%v bounds %v x=%v: %v vs CDF %v", kern, h, b, x, in, c)
					}
				}
			}
		}
	}
	// bandwidth rules on a text-book set: 1..5: s = sqrt(2.5), quartiles
	// 5/3 and 13/3 (R8), n^(-1/5) = 5^(-0.2)
	bi := BandwidthRules([]float64{4, 1, 5, 2, 3})
	s, iqr := math.Sqrt(2.5), 8.0/3
	p := math.Pow(5, -0.2)
	if !near(bi.SD, s, 1e-15) || !near(bi.IQR, iqr, 1e-15) || !near(bi.Silverman, 1.06*s*p, 1e-15) || !near(bi.Scott, 1.06*s*p, 1e-15) {
		return fmt.Errorf("bandwidth rules 1..5: %+v", bi)
	}
	bi = BandwidthRules([]float64{0, 1, 1, 1, 1, 1, 2, 50})
	if !(bi.IQR/1.349 < bi.SD) || !near(bi.Scott, 1.06*bi.IQR/1.349*math.Pow(8, -0.2), 1e-15) {
		return fmt.Errorf("bandwidth rules, robust branch: %+v", bi)
	}
	if one := BandwidthRules([]float64{7}); one.Scott != 0 || one.Silverman != 0 {
		return fmt.Errorf("bandwidth rules n=1: %+v", one)
	}
	return nil
}
