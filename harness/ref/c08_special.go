package ref

// Reference models for C08 (mathx special functions). Everything here is
// computed in 384-bit big.Float from definitions with all-positive series, so
// that the values are correct to far more than the 1e-9 the property asks
// for. Nothing in this file calls the library under test.

import (
	"fmt"
	"math"
	"math/big"
	"sync"
)

var (
	stirOnce sync.Once
	stirCoef []*big.Float // stirCoef[k-1] = B_{2k} / (2k (2k-1)), k = 1..stirK
)

const (
	stirK     = 40 // Bernoulli terms of the Stirling series
	stirShift = 80 // the argument is shifted up to at least this value
)

func initStirling() {
	stirOnce.Do(func() {
		// Bernoulli numbers by the defining recurrence, exactly.
		m := 2 * stirK
		B := make([]*big.Rat, m+1)
		B[0] = big.NewRat(1, 1)
		for n := 1; n <= m; n++ {
			s := new(big.Rat)
			for j := 0; j < n; j++ {
				c := new(big.Rat).SetInt(new(big.Int).Binomial(int64(n+1), int64(j)))
				s.Add(s, c.Mul(c, B[j]))
			}
			s.Quo(s, big.NewRat(int64(n+1), 1))
			B[n] = s.Neg(s)
		}
		for k := 1; k <= stirK; k++ {
			c := new(big.Rat).Quo(B[2*k], big.NewRat(int64(2*k*(2*k-1)), 1))
			stirCoef = append(stirCoef, nf().SetRat(c))
		}
	})
}

// LnGamma is ln Gamma(z) for z > 0: shift up to z+N >= 80, Stirling series
// with 40 Bernoulli terms there (truncation error < 1e-95), minus the log of
// the shifting product.
func LnGamma(z *big.Float) *big.Float {
	initStirling()
	initConst()
	if z.Sign() <= 0 {
		panic("ref.LnGamma: non-positive argument")
	}
	one := NF(1)
	lim := NF(stirShift)
	p := NF(1)
	w := nf().Set(z)
	shifted := false
	for w.Cmp(lim) < 0 {
		p = Mul(p, w)
		w = Add(w, one)
		shifted = true
	}
	lw := Log(w)
	s := Sub(Mul(Sub(w, NF(0.5)), lw), w)
	s = Add(s, Quo(Log(Mul(NF(2), pi)), NF(2)))
	winv := Quo(one, w)
	w2 := Mul(winv, winv)
	pw := nf().Set(winv)
	for k := 0; k < stirK; k++ {
		s = Add(s, Mul(stirCoef[k], pw))
		pw = Mul(pw, w2)
	}
	if shifted {
		s = Sub(s, Log(p))
	}
	return s
}

// LnBeta is ln B(a,b) with a+b formed exactly.
func LnBeta(a, b float64) *big.Float {
	ab := Add(NF(a), NF(b))
	return Sub(Add(LnGamma(NF(a)), LnGamma(NF(b))), LnGamma(ab))
}

// BetaBig is the complete beta function B(a,b).
func BetaBig(a, b float64) *big.Float { return Exp(LnBeta(a, b)) }

// negligible reports whether |t| < 2^-bits |s| (by binary exponents).
func negligible(t, s *big.Float, bits int) bool {
	if t.Sign() == 0 {
		return true
	}
	if s.Sign() == 0 {
		return false
	}
	return t.MantExp(nil) < s.MantExp(nil)-bits
}

// betaSeries evaluates
//
//	x^a y^b / (a B(a,b)) * 2F1(a+b, 1; a+1; x),  y = 1-x,
//
// which equals I_x(a,b) for every 0 < x < 1 (DLMF 8.17.8). All terms are
// positive. The term ratio is (a+b+n)/(a+1+n) * x, which is < 1 from the
// start when x <= (a+1)/(a+b+2) and tends to x. The tail after term t_n is
// bounded by t_n * r/(1-r) with r = max(ratio_n, x), so the loop stops when
// that bound is below 2^-160 of the sum. Returns the number of terms used.
func betaSeries(x, y *big.Float, a, b float64, lnB *big.Float) (*big.Float, int) {
	return betaSeriesL(x, y, a, b, lnB, nil, nil, nil)
}

// betaSeriesL is betaSeries with ln x, ln y and ln a supplied by the caller
// (nil: computed here). They are the expensive, argument-only parts of the
// prefactor; a caller that evaluates a fixed ladder of x on a fixed table of
// (a,b) computes each of them once.
func betaSeriesL(x, y *big.Float, a, b float64, lnB, lnx, lny, lna *big.Float) (*big.Float, int) {
	A, Bf := NF(a), NF(b)
	ab := Add(A, Bf)
	one := NF(1)
	xf := F64(x)
	sum := NF(1)
	term := NF(1)
	n := 0
	for {
		fn := NI(int64(n))
		num := Add(ab, fn)
		den := Add(Add(A, one), fn)
		ratio := Mul(Quo(num, den), x)
		term = Mul(term, ratio)
		sum.Add(sum, term)
		n++
		rf := F64(ratio)
		if rf < xf {
			rf = xf
		}
		if rf < 1 {
			// tail <= term * rf/(1-rf)
			slack := int(math.Ceil(math.Log2(1/(1-rf)))) + 2
			// (for b < 1 the ratio increases towards x: covered by rf >= x)
			if negligible(term, sum, 160+slack) {
				break
			}
		}
		if n > 5_000_000 {
			panic("ref.betaSeries: no convergence")
		}
	}
	// prefactor exp(a ln x + b ln y - ln a - lnB)
	if lnx == nil {
		lnx = Log(x)
	}
	if lny == nil {
		lny = Log(y)
	}
	if lna == nil {
		lna = Log(A)
	}
	e := Add(Mul(A, lnx), Mul(Bf, lny))
	e = Sub(Sub(e, lna), lnB)
	return Mul(Exp(e), sum), n
}

// BetaIncBig is the regularized incomplete beta function I_x(a,b) for
// 0 <= x <= 1 and a, b > 0, from exact float64 inputs.
func BetaIncBig(x, a, b float64) (*big.Float, int) {
	if x <= 0 {
		return nf(), 0
	}
	if x >= 1 {
		return NF(1), 0
	}
	X := NF(x)
	Y := Sub(NF(1), X) // exact at 384 bits unless x < 2^-330, where the error is < 2^-380
	lnB := LnBeta(a, b)
	if x <= (a+1)/(a+b+2) {
		return betaSeries(X, Y, a, b, lnB)
	}
	v, n := betaSeries(Y, X, b, a, lnB)
	return Sub(NF(1), v), n
}

// BetaXPre holds the parts of BetaIncBig that depend on x only.
type BetaXPre struct {
	x              float64
	X, Y, LnX, LnY *big.Float
}

// NewBetaXPre prepares a 0 < x < 1.
func NewBetaXPre(x float64) *BetaXPre {
	if !(x > 0 && x < 1) {
		panic("ref.NewBetaXPre: x not inside (0,1)")
	}
	X := NF(x)
	Y := Sub(NF(1), X) // as in BetaIncBig
	return &BetaXPre{x: x, X: X, Y: Y, LnX: Log(X), LnY: Log(Y)}
}

// BetaABPre holds the parts of BetaIncBig that depend on (a,b) only.
type BetaABPre struct {
	a, b           float64
	LnB, LnA, LnBp *big.Float // ln B(a,b), ln a, ln b
}

// NewBetaABPre prepares a pair; lga and lgb are LnGamma(a) and LnGamma(b) if
// the caller has them already (nil: computed here).
func NewBetaABPre(a, b float64, lga, lgb *big.Float) *BetaABPre {
	if lga == nil {
		lga = LnGamma(NF(a))
	}
	if lgb == nil {
		lgb = LnGamma(NF(b))
	}
	ab := Add(NF(a), NF(b))
	return &BetaABPre{a: a, b: b, LnB: Sub(Add(lga, lgb), LnGamma(ab)), LnA: Log(NF(a)), LnBp: Log(NF(b))}
}

// BetaIncBigPre is BetaIncBig(px.x, pab.a, pab.b): the same series, the same
// choice of route, with the logarithms taken from the two tables.
func BetaIncBigPre(px *BetaXPre, pab *BetaABPre) (*big.Float, int) {
	a, b := pab.a, pab.b
	if px.x <= (a+1)/(a+b+2) {
		return betaSeriesL(px.X, px.Y, a, b, pab.LnB, px.LnX, px.LnY, pab.LnA)
	}
	v, n := betaSeriesL(px.Y, px.X, b, a, pab.LnB, px.LnY, px.LnX, pab.LnBp)
	return Sub(NF(1), v), n
}

// BetaIncBigDirect forces the series in x (no symmetry transform); used by
// the self-test to check the two evaluation routes against each other.
func BetaIncBigDirect(x, a, b float64) *big.Float {
	X := NF(x)
	Y := Sub(NF(1), X)
	v, _ := betaSeries(X, Y, a, b, LnBeta(a, b))
	return v
}

// BetaIncInt is I_x(a,b) for positive integers a, b as the binomial tail
//
//	sum_{j=a}^{n} C(n,j) x^j (1-x)^(n-j),  n = a+b-1,
//
// all terms positive, evaluated with an exact big.Int binomial for the first
// term and exact rational ratios afterwards.
func BetaIncInt(x float64, a, b int) *big.Float {
	if x <= 0 {
		return nf()
	}
	if x >= 1 {
		return NF(1)
	}
	n := a + b - 1
	X := NF(x)
	Y := Sub(NF(1), X)
	c := nf().SetInt(new(big.Int).Binomial(int64(n), int64(a)))
	term := Mul(Mul(c, PowInt(X, a)), PowInt(Y, n-a))
	sum := nf().Set(term)
	xy := Quo(X, Y)
	for j := a; j < n; j++ {
		// t_{j+1} = t_j (n-j)/(j+1) x/y
		term = Mul(Mul(term, Quo(NI(int64(n-j)), NI(int64(j+1)))), xy)
		sum.Add(sum, term)
	}
	return sum
}

// GammaIncBig returns the regularized lower and upper incomplete gamma
// functions P(a,x), Q(a,x) for a > 0, x >= 0. P is the all-positive series
//
//	P = x^a e^-x / Gamma(a+1) * sum_n x^n / ((a+1)...(a+n)).
//
// Far in the upper tail the Chernoff bound Q <= exp(-(x-a)) (x/a)^a is used:
// when it is below e^-100 the function returns P=1, Q=0.
func GammaIncBig(a, x float64) (P, Q *big.Float) {
	return GammaIncBigLg(a, x, nil)
}

// GammaIncBigLg is GammaIncBig with LnGamma(a+1) supplied by the caller (nil:
// computed here), for callers that evaluate many x on one a.
func GammaIncBigLg(a, x float64, lg1 *big.Float) (P, Q *big.Float) {
	if x <= 0 {
		return nf(), NF(1)
	}
	if x > a+1 {
		lb := -(x - a) + a*(math.Log(x)-math.Log(a)) // x/a may overflow
		if lb < -100 {
			return NF(1), nf()
		}
	}
	A := NF(a)
	X := NF(x)
	one := NF(1)
	sum := NF(1)
	term := NF(1)
	ap := nf().Set(A)
	for n := 0; ; n++ {
		ap = Add(ap, one)
		ratio := Quo(X, ap)
		term = Mul(term, ratio)
		sum.Add(sum, term)
		if F64(ratio) < 0.5 && negligible(term, sum, 170) {
			break
		}
		if n > 5_000_000 {
			panic("ref.GammaIncBig: no convergence")
		}
	}
	if lg1 == nil {
		lg1 = LnGamma(Add(A, one))
	}
	e := Sub(Sub(Mul(A, Log(X)), X), lg1)
	P = Mul(Exp(e), sum)
	Q = Sub(one, P)
	return
}

// GammaQInt is Q(a,x) for a positive integer a: e^-x sum_{k<a} x^k/k!.
func GammaQInt(a int, x float64) *big.Float {
	if x <= 0 {
		return NF(1)
	}
	X := NF(x)
	term := NF(1)
	sum := NF(1)
	for k := 1; k < a; k++ {
		term = Quo(Mul(term, X), NI(int64(k)))
		sum.Add(sum, term)
	}
	return Mul(Exp(Neg(X)), sum)
}

// GammaQHalf is Q(m+1/2, x) for integer m >= 0:
// erfc(sqrt x) + e^-x sum_{j<m} x^(j+1/2) / Gamma(j+3/2).
func GammaQHalf(m int, x float64) *big.Float {
	if x <= 0 {
		return NF(1)
	}
	initConst()
	X := NF(x)
	sx := Sqrt(X)
	q := Erfc(sx)
	if m == 0 {
		return q
	}
	// term_j = x^(j+1/2)/Gamma(j+3/2); term_0 = sqrt(x)/(sqrt(pi)/2)
	term := Quo(sx, Quo(sqrtPi, NF(2)))
	sum := nf().Set(term)
	for j := 1; j < m; j++ {
		term = Quo(Mul(term, X), Add(NI(int64(j)), NF(0.5)))
		sum.Add(sum, term)
	}
	return Add(q, Mul(Exp(Neg(X)), sum))
}

// LnBigInt is ln of a positive big integer to about 1e-15 relative, from the
// float64 log of its 384-bit mantissa and its exponent.
func LnBigInt(v *big.Int) float64 {
	f := nf().SetInt(v)
	m := nf()
	e := f.MantExp(m)
	mf, _ := m.Float64()
	return math.Log(mf) + float64(e)*math.Ln2
}

// C08SelfTest checks the references against each other and against textbook
// values.
func C08SelfTest() error {
	rel := func(a, b *big.Float) float64 {
		if b.Sign() == 0 {
			return math.Abs(F64(a))
		}
		return math.Abs(F64(Quo(Sub(a, b), b)))
	}
	// LnGamma
	if d := math.Abs(F64(LnGamma(NF(1)))); d > 1e-60 {
		return fmt.Errorf("lnGamma(1)=%g", d)
	}
	if d := rel(Exp(LnGamma(NF(0.5))), SqrtPi()); d > 1e-60 {
		return fmt.Errorf("Gamma(1/2) off by %g", d)
	}
	for _, n := range []int64{5, 21, 170, 599} {
		f := new(big.Int).MulRange(1, n)
		if d := rel(Exp(LnGamma(NI(n+1))), nf().SetInt(f)); d > 1e-60 {
			return fmt.Errorf("Gamma(%d) off by %g", n+1, d)
		}
	}
	for _, z := range []float64{0.05, 0.3, 1.7, 33.25, 79.99, 80.01, 299.5, 600} {
		// Gamma(z+1) = z Gamma(z)
		l := Sub(LnGamma(Add(NF(z), NF(1))), LnGamma(NF(z)))
		if d := math.Abs(F64(Sub(l, Log(NF(z))))); d > 1e-60 {
			return fmt.Errorf("recurrence of lnGamma at %v off by %g", z, d)
		}
		lg, _ := math.Lgamma(z)
		if d := math.Abs(F64(LnGamma(NF(z))) - lg); d > 1e-13*math.Max(1, math.Abs(lg)) {
			return fmt.Errorf("lnGamma(%v) differs from math.Lgamma by %g", z, d)
		}
	}
	// incomplete beta: textbook value, closed forms, both routes
	if d := math.Abs(F64(BetaIncInt(0.5, 2, 3)) - 0.6875); d > 1e-16 {
		return fmt.Errorf("I_0.5(2,3) closed form off by %g", d)
	}
	for _, c := range [][3]float64{{0.5, 2, 3}, {0.1, 7, 300}, {0.97, 300, 5}, {0.5, 300, 300}, {1e-5, 1, 1}, {0.3, 20, 40}} {
		v, _ := BetaIncBig(c[0], c[1], c[2])
		if d := math.Abs(F64(Sub(v, BetaIncInt(c[0], int(c[1]), int(c[2]))))); d > 1e-40 {
			return fmt.Errorf("I_%v(%v,%v): series and binomial sum differ by %g", c[0], c[1], c[2], d)
		}
	}
	for _, c := range [][3]float64{{0.3, 0.05, 0.07}, {0.6, 2.5, 0.05}, {0.01, 0.5, 250.3}, {0.5, 123.4, 130.1}, {0.9, 17.3, 2.2}} {
		x, a, b := c[0], c[1], c[2]
		v1 := BetaIncBigDirect(x, a, b)
		w, _ := BetaIncBig(x, a, b)
		if d := math.Abs(F64(Sub(v1, w))); d > 1e-40 {
			return fmt.Errorf("I_%v(%v,%v): direct and transformed series differ by %g", x, a, b, d)
		}
		// I_x(a,1) = x^a ; I_x(1,b) = 1-(1-x)^b
		p, _ := BetaIncBig(x, a, 1)
		if d := math.Abs(F64(Sub(p, Pow(NF(x), NF(a))))); d > 1e-40 {
			return fmt.Errorf("I_%v(%v,1) != x^a by %g", x, a, d)
		}
		q, _ := BetaIncBig(x, 1, b)
		want := Sub(NF(1), Pow(Sub(NF(1), NF(x)), NF(b)))
		if d := math.Abs(F64(Sub(q, want))); d > 1e-40 {
			return fmt.Errorf("I_%v(1,%v) != 1-(1-x)^b by %g", x, b, d)
		}
	}
	// the table-driven variants are the same computation
	for _, c := range [][3]float64{{0x1p-55, 0.5, 0.5}, {1e-17, 0.05, 300}, {1 - 0x1p-20, 2.5, 0.05}, {0.1, 300, 1 + 0x1p-52}, {1e-300, 0.05, 0.05}, {0.01, 20, 171}} {
		x, a, b := c[0], c[1], c[2]
		w, _ := BetaIncBig(x, a, b)
		v, _ := BetaIncBigPre(NewBetaXPre(x), NewBetaABPre(a, b, nil, nil))
		if d := math.Abs(F64(Sub(v, w))); d > 1e-60 {
			return fmt.Errorf("I_%v(%v,%v): table-driven series differs by %g", x, a, b, d)
		}
	}
	for _, c := range [][2]float64{{0.5, 0x1p-55}, {300, 512}, {0.05, 1e-300}, {2, 3}} {
		p, q := GammaIncBig(c[0], c[1])
		p2, q2 := GammaIncBigLg(c[0], c[1], LnGamma(Add(NF(c[0]), NF(1))))
		if d := math.Abs(F64(Sub(p, p2))) + math.Abs(F64(Sub(q, q2))); d > 1e-60 {
			return fmt.Errorf("P,Q(%v,%v): variant with supplied lnGamma differs by %g", c[0], c[1], d)
		}
	}
	// I_x(1/2,1/2) = (2/pi) asin(sqrt x): at x = 1/2 it is 1/2, at x=1/4 it is 1/3
	if v, _ := BetaIncBig(0.25, 0.5, 0.5); math.Abs(F64(Sub(v, Quo(NF(1), NF(3))))) > 1e-40 {
		return fmt.Errorf("I_1/4(1/2,1/2) != 1/3: %v", F64(v))
	}
	// ... and for tiny x it is (2/pi) sqrt(x) (1 + x/6 + O(x^2))
	for _, x := range []float64{0x1p-55, 1e-17, 1e-300} {
		v, _ := BetaIncBig(x, 0.5, 0.5)
		want := Mul(Quo(NF(2), Pi()), Mul(Sqrt(NF(x)), Add(NF(1), Quo(NF(x), NF(6)))))
		if d := rel(v, want); d > 1e-30 {
			return fmt.Errorf("I_%v(1/2,1/2) != (2/pi) sqrt(x)(1+x/6): rel %g", x, d)
		}
	}
	// incomplete gamma
	if _, q := GammaIncBig(1, 1); math.Abs(F64(q)-0.36787944117144233) > 1e-16 {
		return fmt.Errorf("Q(1,1) != 1/e")
	}
	if q := GammaQHalf(0, 2); math.Abs(F64(q)-0.04550026389635842) > 1e-16 {
		return fmt.Errorf("Q(1/2,2) != erfc(sqrt 2): %v", F64(q))
	}
	for _, c := range [][2]float64{{1, 0.3}, {3, 0.01}, {7, 7}, {300, 280}, {300, 301}, {300, 420}, {40, 200}} {
		_, q := GammaIncBig(c[0], c[1])
		if d := math.Abs(F64(Sub(q, GammaQInt(int(c[0]), c[1])))); d > 1e-40 {
			return fmt.Errorf("Q(%v,%v): series and Poisson sum differ by %g", c[0], c[1], d)
		}
	}
	for _, c := range [][2]float64{{0.5, 0.3}, {2.5, 0.01}, {7.5, 7}, {299.5, 280}, {299.5, 301}, {40.5, 200}, {0.5, 50}} {
		_, q := GammaIncBig(c[0], c[1])
		if d := math.Abs(F64(Sub(q, GammaQHalf(int(c[0]), c[1])))); d > 1e-40 {
			return fmt.Errorf("Q(%v,%v): series and erfc form differ by %g", c[0], c[1], d)
		}
	}
	if math.Abs(LnBigInt(new(big.Int).MulRange(1, 100))-363.73937555556347) > 1e-12 {
		return fmt.Errorf("ln 100! wrong")
	}
	return nil
}
