package ref

import (
	"testing"
	"time"
)

func TestC08Ref(t *testing.T) {
	t0 := time.Now()
	if err := C08SelfTest(); err != nil {
		t.Fatal(err)
	}
	t.Logf("self-test %v", time.Since(t0))
	t0 = time.Now()
	v, n := BetaIncBig(0.9960, 300, 0.05)
	t.Logf("worst-case series: %v terms=%d in %v", F64(v), n, time.Since(t0))
	t0 = time.Now()
	v, n = BetaIncBig(0.3, 12.5, 40.25)
	t.Logf("typical series: %v terms=%d in %v", F64(v), n, time.Since(t0))
	t0 = time.Now()
	p, q := GammaIncBig(300, 900)
	t.Logf("gamma: %v %v in %v", F64(p), F64(q), time.Since(t0))
}
