package ref

import (
	"math"
	"math/rand"
	"testing"
)

func TestTRefs(t *testing.T) {
	r := rand.New(rand.NewSource(1))
	worstIB, worstIQ, worstBQ := 0.0, 0.0, 0.0
	var at [3][2]float64
	for i := 0; i < 20000; i++ {
		nu := float64(1 + r.Intn(200))
		if i%3 == 0 {
			nu = float64(1 + r.Intn(10000))
		}
		x := r.NormFloat64() * 3
		if i%5 == 0 {
			x = math.Exp(r.Float64()*30-27) * float64(2*r.Intn(2)-1)
		}
		if i%7 == 0 {
			x = r.NormFloat64() * 40
		}
		a, b, q := TCDFInt(int(nu), x), TCDFBeta(nu, x), TCDFQuad(nu, x)
		if d := math.Abs(a - b); d > worstIB {
			worstIB, at[0] = d, [2]float64{nu, x}
		}
		if d := math.Abs(a - q); d > worstIQ {
			worstIQ, at[1] = d, [2]float64{nu, x}
		}
	}
	for i := 0; i < 20000; i++ {
		nu := math.Exp(r.Float64()*math.Log(1e5) + math.Log(0.1))
		x := r.NormFloat64() * 3
		if i%5 == 0 {
			x = math.Exp(r.Float64()*30-27) * float64(2*r.Intn(2)-1)
		}
		if i%7 == 0 {
			x = r.NormFloat64() * 40
		}
		b, q := TCDFBeta(nu, x), TCDFQuad(nu, x)
		if d := math.Abs(b - q); d > worstBQ {
			worstBQ, at[2] = d, [2]float64{nu, x}
		}
	}
	t.Logf("int vs beta %g at %v; int vs quad %g at %v; beta vs quad (non-integer) %g at %v", worstIB, at[0], worstIQ, at[1], worstBQ, at[2])
	if worstIB > 1e-11 || worstIQ > 1e-11 || worstBQ > 1e-10 {
		t.Fail()
	}
}
