package ref

import (
	"math"
	"math/rand"
	"testing"
)

func TestTRefs(t *testing.T) {
	r := rand.New(rand.NewSource(1))
	worstIB, worstIQ, worstBQ := 0.0, 0.0, 0.0
	var at [3][2]float64
	for i := 0; i < 20000; i++ {
		nu := float64(1 + r.Intn(200))
		if i%3 == 0 {
			nu = float64(1 + r.Intn(10000))
		}
		x := r.NormFloat64() * 3
		if i%5 == 0 {
			x = math.Exp(r.Float64()*30-27) * float64(2*r.Intn(2)-1)
		}
		if i%7 == 0 {
			x = r.NormFloat64() * 40
		}
		a, b, q := TCDFInt(int(nu), x), TCDFBeta(nu, x), TCDFQuad(nu, x)
		if d := math.Abs(a - b); d > worstIB {
			worstIB, at[0] = d, [2]float64{nu, x}
		}
		if d := math.Abs(a - q); d > worstIQ {
			worstIQ, at[1] = d, [2]float64{nu, x}
		}
	}
	for i := 0; i < 20000; i++ {
		nu := math.Exp(r.Float64()*math.Log(1e5) + math.Log(0.1))
		x := r.NormFloat64() * 3
		if i%5 == 0 {
			x = math.Exp(r.Float64()*30-27) * float64(2*r.Intn(2)-1)
		}
		if i%7 == 0 {
			x = r.NormFloat64() * 40
		}
		b, q := TCDFBeta(nu, x), TCDFQuad(nu, x)
		if d := math.Abs(b - q); d > worstBQ {
			worstBQ, at[2] = d, [2]float64{nu, x}
		}
	}
	t.Logf("int vs beta %g at %v; int vs quad %g at %v; beta vs quad (non-integer) %g at %v", worstIB, at[0], worstIQ, at[1], worstBQ, at[2])
	if worstIB > 1e-11 || worstIQ > 1e-11 || worstBQ > 1e-10 {
		t.Fail()
	}
}

func TestTTail(t *testing.T) {
	worstE, worstQ := 0.0, 0.0
	var atE, atQ [2]float64
	for _, nu := range []float64{2, 7, 40, 41, 42, 100, 333.3, 1000, 1001, 2998.6, 3000, 6000, 11998, 19999} {
		for _, x := range []float64{1, 1.5, 2.5, 4, 5.5, 7, 9, 12, 20, 38} {
			a, q := TTail(nu, x), TTailQuad(nu, x)
			if a < 1e-300 {
				continue
			}
			if d := math.Abs(a/q - 1); d > worstQ {
				worstQ, atQ = d, [2]float64{nu, x}
			}
			if nu == math.Floor(nu) && int(nu)%2 == 0 && a > 1e-90 {
				e := TTailEven(int(nu), x)
				if d := math.Abs(a/e - 1); d > worstE {
					worstE, atE = d, [2]float64{nu, x}
				}
			}
		}
	}
	t.Logf("tail: beta vs exact even closed form %.3g (relative) at %v; beta vs quadrature %.3g at %v", worstE, atE, worstQ, atQ)
	if worstE > 1e-10 || worstQ > 1e-10 {
		t.Fail()
	}
}
