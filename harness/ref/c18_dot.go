package ref

import (
	"fmt"
	"strings"
)

// A small reader for the subset of the Graphviz language that a graph
// printer needs: "digraph" [ID] "{" { ID ["->" ID] ["[" attr {"," attr} "]"] ";" } "}".
// An ID or attribute value is a bare word or a double-quoted string. Inside
// a quoted string a backslash protects the following byte; the string ends at
// the first unprotected quote.

// DotVal is a bare word (Quoted=false, Text is the word) or a quoted string
// (Quoted=true, Text is the unescaped content).
type DotVal struct {
	Quoted bool
	Text   string
}

type DotAttrP struct {
	Name string
	Val  DotVal
}

type DotStmt struct {
	From   DotVal
	IsEdge bool
	To     DotVal
	Attrs  []DotAttrP
}

type DotFile struct {
	HasName bool
	Name    DotVal
	Stmts   []DotStmt
}

// DotUnescape undoes backslash escaping: `\n` is a newline, a backslash
// followed by any other byte stands for that byte.
func DotUnescape(raw string) string {
	if strings.IndexByte(raw, '\\') < 0 {
		return raw
	}
	b := make([]byte, 0, len(raw))
	for i := 0; i < len(raw); i++ {
		c := raw[i]
		if c == '\\' && i+1 < len(raw) {
			i++
			if raw[i] == 'n' {
				b = append(b, '\n')
			} else {
				b = append(b, raw[i])
			}
			continue
		}
		b = append(b, c)
	}
	return string(b)
}

type dotTok struct {
	kind byte // 'w' word, 'q' quoted, 'a' arrow, or the punctuation byte itself
	text string
}

func dotPunct(c byte) bool {
	switch c {
	case '{', '}', '[', ']', ',', ';', '=':
		return true
	}
	return false
}

func dotSpace(c byte) bool { return c == ' ' || c == '\t' || c == '\n' || c == '\r' }

func dotLex(s string) ([]dotTok, error) {
	var toks []dotTok
	for i := 0; i < len(s); {
		c := s[i]
		switch {
		case dotSpace(c):
			i++
		case c == '"':
			j := i + 1
			for {
				if j >= len(s) {
					return nil, fmt.Errorf("unterminated quoted string starting at byte %d", i)
				}
				if s[j] == '\\' {
					if j+1 >= len(s) {
						return nil, fmt.Errorf("unterminated quoted string starting at byte %d", i)
					}
					j += 2
					continue
				}
				if s[j] == '"' {
					break
				}
				j++
			}
			toks = append(toks, dotTok{'q', DotUnescape(s[i+1 : j])})
			i = j + 1
		case c == '-' && i+1 < len(s) && s[i+1] == '>':
			toks = append(toks, dotTok{'a', "->"})
			i += 2
		case dotPunct(c):
			toks = append(toks, dotTok{c, string(c)})
			i++
		default:
			j := i
			for j < len(s) && !dotSpace(s[j]) && !dotPunct(s[j]) && s[j] != '"' &&
				!(j > i && s[j] == '-' && j+1 < len(s) && s[j+1] == '>') {
				j++
			}
			toks = append(toks, dotTok{'w', s[i:j]})
			i = j
		}
	}
	return toks, nil
}

// DotParse reads a whole digraph.
func DotParse(s string) (*DotFile, error) {
	toks, err := dotLex(s)
	if err != nil {
		return nil, err
	}
	p := 0
	peek := func() byte {
		if p < len(toks) {
			return toks[p].kind
		}
		return 0
	}
	id := func(what string) (DotVal, error) {
		if k := peek(); k == 'w' || k == 'q' {
			t := toks[p]
			p++
			return DotVal{Quoted: t.kind == 'q', Text: t.text}, nil
		}
		if p < len(toks) {
			return DotVal{}, fmt.Errorf("token %d: expected %s, found %q", p, what, toks[p].text)
		}
		return DotVal{}, fmt.Errorf("expected %s, found end of text", what)
	}
	expect := func(k byte) error {
		if peek() != k {
			if p < len(toks) {
				return fmt.Errorf("token %d: expected %q, found %q", p, string(k), toks[p].text)
			}
			return fmt.Errorf("expected %q, found end of text", string(k))
		}
		p++
		return nil
	}
	f := &DotFile{}
	if peek() != 'w' || toks[p].text != "digraph" {
		return nil, fmt.Errorf("text does not start with the word digraph")
	}
	p++
	if k := peek(); k == 'w' || k == 'q' {
		f.HasName = true
		f.Name, _ = id("graph name")
	}
	if err := expect('{'); err != nil {
		return nil, err
	}
	for peek() != '}' {
		var st DotStmt
		if st.From, err = id("a node id"); err != nil {
			return nil, err
		}
		if peek() == 'a' {
			p++
			st.IsEdge = true
			if st.To, err = id("a node id after ->"); err != nil {
				return nil, err
			}
		}
		if peek() == '[' {
			p++
			for peek() != ']' {
				if len(st.Attrs) > 0 {
					if err := expect(','); err != nil {
						return nil, err
					}
				}
				name, err := id("an attribute name")
				if err != nil {
					return nil, err
				}
				if name.Quoted {
					return nil, fmt.Errorf("quoted attribute name %q", name.Text)
				}
				if err := expect('='); err != nil {
					return nil, err
				}
				val, err := id("an attribute value")
				if err != nil {
					return nil, err
				}
				st.Attrs = append(st.Attrs, DotAttrP{name.Text, val})
			}
			p++
		}
		if err := expect(';'); err != nil {
			return nil, err
		}
		f.Stmts = append(f.Stmts, st)
	}
	p++
	if p != len(toks) {
		return nil, fmt.Errorf("text continues after the closing brace: %q", toks[p].text)
	}
	return f, nil
}

func dotSelfTest() error {
	text := "digraph \"g\\\"1\" {\n" +
		"n0 [color=red,label=\"a\\nb\\\\n\\{x\\}\"];\n" +
		"n0 -> n1 [weight=-2.5e+06,label=\"];\"];\n" +
		"n0 -> n0;\n" +
		"n1 [label=\"1\"];\n}\n"
	f, err := DotParse(text)
	if err != nil {
		return fmt.Errorf("DotParse self-test: %v", err)
	}
	ok := f.HasName && f.Name == (DotVal{true, `g"1`}) && len(f.Stmts) == 4 &&
		!f.Stmts[0].IsEdge && f.Stmts[0].From == (DotVal{false, "n0"}) && len(f.Stmts[0].Attrs) == 2 &&
		f.Stmts[0].Attrs[0] == (DotAttrP{"color", DotVal{false, "red"}}) &&
		f.Stmts[0].Attrs[1] == (DotAttrP{"label", DotVal{true, "a\nb\\n{x}"}}) &&
		f.Stmts[1].IsEdge && f.Stmts[1].To == (DotVal{false, "n1"}) &&
		f.Stmts[1].Attrs[0] == (DotAttrP{"weight", DotVal{false, "-2.5e+06"}}) &&
		f.Stmts[1].Attrs[1] == (DotAttrP{"label", DotVal{true, "];"}}) &&
		f.Stmts[2].IsEdge && f.Stmts[2].To.Text == "n0" && len(f.Stmts[2].Attrs) == 0 &&
		f.Stmts[3].Attrs[0].Val == (DotVal{true, "1"})
	if !ok {
		return fmt.Errorf("DotParse self-test: unexpected parse %+v", f)
	}
	for _, bad := range []string{"digraph \"x {\n}\n", "digraph \"\" {\nn0 [label=\"a\"b\"];\n}\n", "digraph \"\" {\nn0 [label=\"a\\\"];\n}\n", "digraph \"\" {\nn0\n}\n"} {
		if _, err := DotParse(bad); err == nil {
			return fmt.Errorf("DotParse self-test: accepted malformed text %q", bad)
		}
	}
	if DotUnescape(`a\\nb\n\"\|`) != "a\\nb\n\"|" {
		return fmt.Errorf("DotUnescape self-test")
	}
	return nil
}

// DotReadQuoted reads text that must consist of exactly one quoted string
// and returns its unescaped content.
func DotReadQuoted(s string) (string, error) {
	if len(s) < 2 || s[0] != '"' || s[len(s)-1] != '"' {
		return "", fmt.Errorf("not enclosed in double quotes")
	}
	toks, err := dotLex(s)
	if err != nil {
		return "", err
	}
	if len(toks) != 1 || toks[0].kind != 'q' {
		return "", fmt.Errorf("the quoted string ends early: an inner quote is not protected (%d tokens)", len(toks))
	}
	return toks[0].text, nil
}
