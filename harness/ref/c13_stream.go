package ref

import (
	"fmt"
	"math"
	"math/big"
)

// Reference model for C13 (StreamStats): an accumulator is the list of the
// values it logically contains; its statistics are the batch statistics of
// that list in 400-bit arithmetic. Nothing here calls the library.

// StreamPrec is the precision of the batch statistics (the property's
// quantifier names 400-bit arithmetic).
const StreamPrec = 400

func sfl() *big.Float              { return new(big.Float).SetPrec(StreamPrec) }
func sfx(x float64) *big.Float     { return sfl().SetFloat64(x) }
func sfi(n int) *big.Float         { return sfl().SetInt64(int64(n)) }
func sabs(a *big.Float) *big.Float { return sfl().Abs(a) }

// StreamModel is the shadow of one accumulator.
type StreamModel struct {
	Vals   []float64  // the values it logically contains, in arrival order
	S, Q   *big.Float // running sum and sum of squares (400 bits)
	A      *big.Float // running sum of |x|
	Min    float64
	Max    float64
	MaxAbs float64
	Depth  int // nesting depth of merges of two non-empty parts
}

func NewStreamModel() *StreamModel {
	return &StreamModel{S: sfl(), Q: sfl(), A: sfl()}
}

func (m *StreamModel) N() int { return len(m.Vals) }

func (m *StreamModel) Add(x float64) {
	if len(m.Vals) == 0 {
		m.Min, m.Max = x, x
	} else {
		m.Min, m.Max = math.Min(m.Min, x), math.Max(m.Max, x)
	}
	m.MaxAbs = math.Max(m.MaxAbs, math.Abs(x))
	m.Vals = append(m.Vals, x)
	bx := sfx(x)
	m.S.Add(m.S, bx)
	m.Q.Add(m.Q, sfl().Mul(bx, bx))
	m.A.Add(m.A, sabs(bx))
}

// Combine makes m contain its own values followed by those of o; o is not
// changed.
func (m *StreamModel) Combine(o *StreamModel) {
	if len(o.Vals) == 0 {
		return
	}
	if len(m.Vals) == 0 {
		m.Min, m.Max = o.Min, o.Max
		m.Depth = o.Depth
	} else {
		m.Min, m.Max = math.Min(m.Min, o.Min), math.Max(m.Max, o.Max)
		if o.Depth > m.Depth {
			m.Depth = o.Depth
		}
		m.Depth++
	}
	m.MaxAbs = math.Max(m.MaxAbs, o.MaxAbs)
	m.Vals = append(m.Vals, o.Vals...)
	m.S.Add(m.S, o.S)
	m.Q.Add(m.Q, o.Q)
	m.A.Add(m.A, o.A)
}

// MeanSD gives the mean and the sample standard deviation of the values as
// float64 (0, 0 below two values), from the 400-bit running sums. It is for
// classifying a case (how far apart are the two sides of a merge), not for
// judging.
func (m *StreamModel) MeanSD() (mean, sd float64) {
	n := len(m.Vals)
	if n == 0 {
		return 0, 0
	}
	bn := sfi(n)
	mean, _ = sfl().Quo(m.S, bn).Float64()
	if n < 2 {
		return mean, 0
	}
	m2 := sfl().Sub(m.Q, sfl().Quo(sfl().Mul(m.S, m.S), bn))
	// constant data: what is left is the rounding of the quotient
	if m2.Sign() <= 0 || m2.Cmp(sfl().SetMantExp(m.Q, -300)) < 0 {
		return mean, 0
	}
	v, _ := m2.Quo(m2, sfi(n-1)).Float64()
	return mean, math.Sqrt(v)
}

// StreamTailRun is the length of the run of equal values that ends the list.
func StreamTailRun(vals []float64) int {
	n := len(vals)
	if n == 0 {
		return 0
	}
	r := 1
	for r < n && vals[n-1-r] == vals[n-1] {
		r++
	}
	return r
}

// StreamRef holds the batch statistics of a list of values.
type StreamRef struct {
	N        int
	Min, Max float64
	Total    *big.Float
	Mean     *big.Float // nil when N == 0
	MSq      *big.Float // mean of squares
	RMS      *big.Float
	M2       *big.Float // sum of squared deviations from the mean
	Var      *big.Float // M2/(N-1); nil when N < 2
	Std      *big.Float
	SumAbs   float64
	MaxAbs   float64
}

func finishRef(r *StreamRef) {
	if r.N == 0 {
		return
	}
	n := sfi(r.N)
	r.Mean = sfl().Quo(r.Total, n)
	r.RMS = sfl().Sqrt(r.MSq)
	if r.M2.Sign() < 0 {
		r.M2 = sfl()
	}
	if r.N >= 2 {
		r.Var = sfl().Quo(r.M2, sfi(r.N-1))
		r.Std = sfl().Sqrt(r.Var)
	}
}

// Ref gives the statistics from the running sums: M2 = Q - S*S/n at 400
// bits (the cancellation costs 2*log2(kappa) bits, 60 of 400 at the most
// hostile offset used).
func (m *StreamModel) Ref() StreamRef {
	r := StreamRef{N: len(m.Vals), Min: m.Min, Max: m.Max, MaxAbs: m.MaxAbs}
	r.Total = sfl().Set(m.S)
	r.SumAbs, _ = m.A.Float64()
	if r.N == 0 {
		return r
	}
	n := sfi(r.N)
	r.MSq = sfl().Quo(m.Q, n)
	r.M2 = sfl().Sub(m.Q, sfl().Quo(sfl().Mul(m.S, m.S), n))
	finishRef(&r)
	return r
}

// StreamSums is the shadow of an accumulator whose list is too long to keep
// (streams of 10^4..10^6 values): only the 400-bit running sums, the count
// and the extremes. The sums of float64 values within 2^-150..2^150 of one
// another are exact at 400 bits; elsewhere each addition rounds at 2^-400
// relative. Ref gives the same batch statistics as StreamModel.Ref.
type StreamSums struct {
	N       int
	S, Q, A *big.Float
	Min     float64
	Max     float64
	MaxAbs  float64
	t, u    *big.Float // temporaries (no allocation per value)
}

func NewStreamSums() *StreamSums {
	return &StreamSums{S: sfl(), Q: sfl(), A: sfl(), t: sfl(), u: sfl()}
}

func (m *StreamSums) Add(x float64) {
	if m.N == 0 {
		m.Min, m.Max = x, x
	} else {
		m.Min, m.Max = math.Min(m.Min, x), math.Max(m.Max, x)
	}
	m.MaxAbs = math.Max(m.MaxAbs, math.Abs(x))
	m.N++
	m.t.SetFloat64(x)
	m.S.Add(m.S, m.t)
	m.u.Mul(m.t, m.t)
	m.Q.Add(m.Q, m.u)
	m.A.Add(m.A, m.t.Abs(m.t))
}

// Combine makes m contain its own values and those of o; o is not changed.
func (m *StreamSums) Combine(o *StreamSums) {
	if o.N == 0 {
		return
	}
	if m.N == 0 {
		m.Min, m.Max = o.Min, o.Max
	} else {
		m.Min, m.Max = math.Min(m.Min, o.Min), math.Max(m.Max, o.Max)
	}
	m.MaxAbs = math.Max(m.MaxAbs, o.MaxAbs)
	m.N += o.N
	m.S.Add(m.S, o.S)
	m.Q.Add(m.Q, o.Q)
	m.A.Add(m.A, o.A)
}

// Ref gives the batch statistics from the running sums (as StreamModel.Ref).
func (m *StreamSums) Ref() StreamRef {
	r := StreamRef{N: m.N, Min: m.Min, Max: m.Max, MaxAbs: m.MaxAbs}
	r.Total = sfl().Set(m.S)
	r.SumAbs, _ = m.A.Float64()
	if r.N == 0 {
		return r
	}
	n := sfi(r.N)
	r.MSq = sfl().Quo(m.Q, n)
	r.M2 = sfl().Sub(m.Q, sfl().Quo(sfl().Mul(m.S, m.S), n))
	finishRef(&r)
	return r
}

// StreamBatch is the definitional two-pass computation.
func StreamBatch(vals []float64) StreamRef {
	r := StreamRef{N: len(vals), Total: sfl()}
	if r.N == 0 {
		return r
	}
	r.Min, r.Max = vals[0], vals[0]
	q, a := sfl(), sfl()
	for _, x := range vals {
		bx := sfx(x)
		r.Total.Add(r.Total, bx)
		q.Add(q, sfl().Mul(bx, bx))
		a.Add(a, sabs(bx))
		r.Min, r.Max = math.Min(r.Min, x), math.Max(r.Max, x)
		r.MaxAbs = math.Max(r.MaxAbs, math.Abs(x))
	}
	r.SumAbs, _ = a.Float64()
	n := sfi(r.N)
	mean := sfl().Quo(r.Total, n)
	r.MSq = sfl().Quo(q, n)
	r.M2 = sfl()
	for _, x := range vals {
		d := sfl().Sub(sfx(x), mean)
		r.M2.Add(r.M2, d.Mul(d, d))
	}
	finishRef(&r)
	return r
}

// Kappa is the condition number of the variance, sqrt(1+mean^2/var).
func (r *StreamRef) Kappa() float64 {
	if r.N < 2 {
		return 1
	}
	v, _ := r.Var.Float64()
	m, _ := r.Mean.Float64()
	if v == 0 {
		if m == 0 {
			return 1
		}
		return math.Inf(1)
	}
	return math.Sqrt(1 + m*m/v)
}

// StreamAbsDiff is |got - want| evaluated at 400 bits (NaN for a NaN, +Inf
// for an infinite got).
func StreamAbsDiff(got float64, want *big.Float) float64 {
	if math.IsNaN(got) {
		return math.NaN()
	}
	if math.IsInf(got, 0) {
		return math.Inf(1)
	}
	d := sfl().Sub(sfx(got), want)
	f, _ := d.Abs(d).Float64()
	return f
}

// StreamRefsAgree compares two references of the same list; the scale of
// comparison is the mean of squares (1e-100 relative).
func StreamRefsAgree(a, b StreamRef) error {
	if a.N != b.N || a.Min != b.Min || a.Max != b.Max {
		return fmt.Errorf("N/min/max differ: %d %v %v vs %d %v %v", a.N, a.Min, a.Max, b.N, b.Min, b.Max)
	}
	if a.N == 0 {
		return nil
	}
	scale := sfl().Set(a.MSq)
	tol := sfl().Mul(scale, sfl().SetMantExp(sfx(1), -330)) // 2^-330 ~ 4.6e-100
	close := func(name string, x, y, tol *big.Float) error {
		d := sfl().Sub(x, y)
		if d.Abs(d).Cmp(tol) > 0 {
			return fmt.Errorf("%s differs: %s vs %s", name, x.Text('g', 40), y.Text('g', 40))
		}
		return nil
	}
	rt := sfl().Sqrt(tol) // for first-order quantities the scale is sqrt(msq)
	if err := close("total/n", sfl().Quo(a.Total, sfi(a.N)), sfl().Quo(b.Total, sfi(b.N)), rt); err != nil {
		return err
	}
	if err := close("mean", a.Mean, b.Mean, rt); err != nil {
		return err
	}
	if err := close("msq", a.MSq, b.MSq, tol); err != nil {
		return err
	}
	if err := close("M2/n", sfl().Quo(a.M2, sfi(a.N)), sfl().Quo(b.M2, sfi(b.N)), tol); err != nil {
		return err
	}
	return nil
}

// StreamSelfTest checks the two references against each other, against exact
// rational arithmetic and against a textbook example.
func StreamSelfTest() error {
	// textbook: 2,4,4,4,5,5,7,9 has mean 5, population variance 4
	tb := []float64{2, 4, 4, 4, 5, 5, 7, 9}
	b := StreamBatch(tb)
	if f, _ := b.Mean.Float64(); f != 5 {
		return fmt.Errorf("textbook mean %v", f)
	}
	if f, _ := b.Var.Float64(); math.Abs(f-32.0/7) > 1e-15 {
		return fmt.Errorf("textbook variance %v", f)
	}
	if f, _ := b.RMS.Float64(); math.Abs(f-math.Sqrt(29)) > 1e-15 {
		return fmt.Errorf("textbook rms %v", f)
	}
	if f, _ := b.Std.Float64(); math.Abs(f-math.Sqrt(32.0/7)) > 1e-15 {
		return fmt.Errorf("textbook stddev %v", f)
	}
	if b.Min != 2 || b.Max != 9 || b.N != 8 {
		return fmt.Errorf("textbook min/max/n")
	}
	// pseudo-random lists with offsets: running sums vs two-pass vs big.Rat
	x := uint64(12345)
	next := func() float64 {
		x = x*6364136223846793005 + 1442695040888963407
		return float64(x>>11)/(1<<53) - 0.5
	}
	for trial := 0; trial < 60; trial++ {
		n := 1 + trial%30
		off := math.Pow(10, float64(trial%11)) * float64(1-2*(trial%2))
		if trial%11 == 0 {
			off = 0
		}
		m := NewStreamModel()
		parts := []*StreamModel{NewStreamModel(), NewStreamModel(), NewStreamModel()}
		var vals []float64
		for i := 0; i < n; i++ {
			v := off + next()
			if trial%7 == 3 {
				v = off // constant data
			}
			vals = append(vals, v)
			parts[i%3].Add(v)
		}
		m.Combine(parts[0])
		m.Combine(parts[1])
		m.Combine(parts[2])
		a := m.Ref()
		// m's order differs from vals: the batch of the same multiset
		bb := StreamBatch(m.Vals)
		if err := StreamRefsAgree(a, bb); err != nil {
			return fmt.Errorf("self-test trial %d: running sums vs two-pass: %v", trial, err)
		}
		if err := StreamRefsAgree(bb, StreamBatch(vals)); err != nil {
			return fmt.Errorf("self-test trial %d: order dependence: %v", trial, err)
		}
		// the list-free shadow, split in two and merged
		sa, sb := NewStreamSums(), NewStreamSums()
		for i, v := range vals {
			if i < n/3 {
				sa.Add(v)
			} else {
				sb.Add(v)
			}
		}
		sa.Combine(sb)
		if err := StreamRefsAgree(sa.Ref(), bb); err != nil {
			return fmt.Errorf("self-test trial %d: list-free sums vs two-pass: %v", trial, err)
		}
		// exact rationals
		S, Q := new(big.Rat), new(big.Rat)
		for _, v := range vals {
			rv := new(big.Rat).SetFloat64(v)
			S.Add(S, rv)
			Q.Add(Q, new(big.Rat).Mul(rv, rv))
		}
		rn := new(big.Rat).SetInt64(int64(n))
		mean := new(big.Rat).Quo(S, rn)
		m2 := new(big.Rat).Sub(Q, new(big.Rat).Mul(S, mean))
		ex := StreamRef{N: n, Min: bb.Min, Max: bb.Max}
		ex.Total = sfl().SetRat(S)
		ex.Mean = sfl().SetRat(mean)
		ex.MSq = sfl().SetRat(new(big.Rat).Quo(Q, rn))
		ex.M2 = sfl().SetRat(m2)
		if err := StreamRefsAgree(bb, ex); err != nil {
			return fmt.Errorf("self-test trial %d: two-pass vs exact rational: %v", trial, err)
		}
		if trial%7 == 3 && bb.M2.Sign() != 0 {
			return fmt.Errorf("self-test trial %d: constant data has M2 %v", trial, bb.M2)
		}
	}
	return nil
}
