package ref

import (
	"fmt"
	"math"
	"math/big"
	"math/bits"
	"sort"
)

// Reference models for C10 (Sample.Quantile). Nothing here calls the
// library under test.

// R8Info is the exact Hyndman-Fan type 8 estimate of one (sorted data, q)
// pair together with the reference-side quantities the monitor uses for
// classes and for the conditioning-derived tolerance.
type R8Info struct {
	Val     *big.Float // x_(j) + (h-j)(x_(j+1)-x_(j)), clamped to x_(1), x_(n); Prec bits
	H       float64    // h = (n+1/3) q + 1/3 with q clamped to [0,1], rounded
	J       int        // floor(h), 0..n
	Integer bool       // h is exactly an integer (q sits exactly on a break point)
	Lo, Hi  bool       // floor(h) <= 0 / floor(h) >= n: the estimate is clamped
	Gap     float64    // largest |x_(s+1)-x_(s)| over the segments s = j-1, j, j+1
	Mag     float64    // largest |x_(i)| over i = j-1 .. j+2
	// [BLo,BHi] is the closed interval the estimate cannot leave: the two
	// order statistics bracketing h, for every h' within 16 eps (h+1) of h
	// (an implementation that rounds h a few times may sit on the other
	// side of an integer than the exact h does). BLo == BHi when all order
	// statistics that can be involved are equal.
	BLo, BHi float64
}

func clamp01(q float64) float64 {
	if q < 0 {
		return 0
	}
	if q > 1 {
		return 1
	}
	return q
}

// r8Position returns h = ((3n+1) q + 1) / 3 exactly, q clamped to [0,1].
func r8Position(n int, q float64) *big.Rat {
	qr := new(big.Rat).SetFloat64(clamp01(q))
	h := new(big.Rat).Mul(big.NewRat(int64(3*n+1), 1), qr)
	h.Add(h, big.NewRat(1, 1))
	return h.Quo(h, big.NewRat(3, 1))
}

// R8 evaluates the type 8 quantile of sorted (ascending, non-empty, finite)
// at q, with q taken as the exact rational it is.
func R8(sorted []float64, q float64) R8Info {
	n := len(sorted)
	h := r8Position(n, q)
	jInt := new(big.Int).Quo(h.Num(), h.Denom()) // h >= 1/3 > 0: truncation is floor
	j := int(jInt.Int64())
	frac := new(big.Rat).Sub(h, new(big.Rat).SetInt(jInt))
	info := R8Info{J: j, Integer: frac.Sign() == 0, Lo: j <= 0, Hi: j >= n}
	info.H, _ = h.Float64()
	switch {
	case j <= 0:
		info.Val = NF(sorted[0])
	case j >= n:
		info.Val = NF(sorted[n-1])
	default:
		a, b := NF(sorted[j-1]), NF(sorted[j])
		fr := nf().SetRat(frac)
		info.Val = Add(a, Mul(fr, Sub(b, a)))
	}
	// order statistics are 1-based: x_(i) = sorted[i-1]; segment s joins
	// x_(s) and x_(s+1)
	for s := j - 1; s <= j+1; s++ {
		if s >= 1 && s+1 <= n {
			if g := math.Abs(sorted[s] - sorted[s-1]); g > info.Gap {
				info.Gap = g
			}
		}
	}
	for i := j - 1; i <= j+2; i++ {
		if i >= 1 && i <= n {
			if m := math.Abs(sorted[i-1]); m > info.Mag {
				info.Mag = m
			}
		}
	}
	// bracket over h' in [h-dh, h+dh], dh = 2^-48 (h+1); floor(h') <= 0
	// and >= n are the clamped ends
	dh := new(big.Rat).Add(h, big.NewRat(1, 1))
	dh.Mul(dh, new(big.Rat).SetFrac(big.NewInt(1), new(big.Int).Lsh(big.NewInt(1), 48)))
	ratFloor := func(r *big.Rat) int {
		q, m := new(big.Int).DivMod(r.Num(), r.Denom(), new(big.Int)) // Euclidean: floor for a positive denominator
		_ = m
		if !q.IsInt64() || q.Int64() > int64(n)+1 {
			return n + 1
		}
		if q.Int64() < -1 {
			return -1
		}
		return int(q.Int64())
	}
	clampIdx := func(i int) int {
		if i < 1 {
			return 1
		}
		if i > n {
			return n
		}
		return i
	}
	jl := ratFloor(new(big.Rat).Sub(h, dh))
	jh := ratFloor(new(big.Rat).Add(h, dh))
	info.BLo = sorted[clampIdx(jl)-1]
	info.BHi = sorted[clampIdx(jh+1)-1]
	return info
}

// R8Plot is an independent formulation used by the self-test: the type 8
// quantile is the piecewise-linear interpolant through the plotting
// positions p_k = (k-1/3)/(n+1/3), k = 1..n, constant outside [p_1,p_n].
// Exact rational arithmetic throughout.
func R8Plot(sorted []float64, q float64) *big.Rat {
	n := len(sorted)
	qr := new(big.Rat).SetFloat64(clamp01(q))
	p := func(k int) *big.Rat { return big.NewRat(int64(3*k-1), int64(3*n+1)) }
	x := func(k int) *big.Rat { return new(big.Rat).SetFloat64(sorted[k-1]) }
	if qr.Cmp(p(1)) <= 0 {
		return x(1)
	}
	if qr.Cmp(p(n)) >= 0 {
		return x(n)
	}
	k := 1
	for k+1 <= n && p(k+1).Cmp(qr) <= 0 {
		k++
	}
	// p_k <= q < p_(k+1)
	t := new(big.Rat).Sub(qr, p(k))
	t.Quo(t, new(big.Rat).Sub(p(k+1), p(k)))
	d := new(big.Rat).Sub(x(k+1), x(k))
	return d.Mul(d, t).Add(d, x(k))
}

// BreakQ returns the float64 nearest to the break point
// q = (j-1/3)/(n+1/3) = (3j-1)/(3n+1) at which h = j, and whether that
// rational is exactly representable.
func BreakQ(n, j int) (q float64, exact bool) {
	return big.NewRat(int64(3*j-1), int64(3*n+1)).Float64()
}

// WQ is the reference for the weighted quantile: distinct values ascending
// with exact cumulative weights.
type WQ struct {
	Vals []float64
	Cum  []*big.Rat // Cum[k] = total weight of all points <= Vals[k]
	W    *big.Rat
	Ties bool // some value occurs more than once
	// Grid: every weight is an integer multiple of one power of two 2^G and
	// W <= 2^53 * 2^G. Then the sum of ANY subset of the weights, in any
	// order and any bracketing (forward, backward, pairwise, compensated), is
	// an integer multiple of 2^G below 2^53 * 2^G, hence exactly
	// representable: no addition of weights ever rounds.
	Grid bool
	G    int
}

// lsbExp is the exponent of the lowest set bit of the finite non-zero x.
func lsbExp(x float64) int {
	fr, e := math.Frexp(math.Abs(x))
	m := uint64(fr * (1 << 53)) // exact: fr has 53 significant bits
	return e - 53 + bits.TrailingZeros64(m)
}

func pow2Rat(e int) *big.Rat {
	if e >= 0 {
		return new(big.Rat).SetInt(new(big.Int).Lsh(big.NewInt(1), uint(e)))
	}
	return new(big.Rat).SetFrac(big.NewInt(1), new(big.Int).Lsh(big.NewInt(1), uint(-e)))
}

// QExact classifies q (0 < q < 1) on Grid weights. prod: q*W is exactly
// representable; compl: 1-q and (1-q)*W are exactly representable as well.
// With prod, an evaluation that compares cumulative weights with fl(q W), or
// subtracts the weights from fl(q W) one after the other (a positive
// difference t-S of a float t and a grid sum S is below t on t's own bit grid,
// hence exact; the first negative one keeps its sign under rounding), or
// compares fl(cum/W) with q (cum > q W on the grid means cum - q W >=
// lsb(q W) > q W 2^-53, i.e. cum/W is more than half an ulp above q) decides
// every comparison as the real numbers do. compl extends that to evaluations
// from the top that use (1-q) W.
func (t *WQ) QExact(q float64) (prod, compl bool) {
	if !t.Grid || !(q > 0 && q < 1) {
		return false, false
	}
	qr := new(big.Rat).SetFloat64(q)
	_, prod = new(big.Rat).Mul(qr, t.W).Float64()
	if !prod {
		return false, false
	}
	c := new(big.Rat).Sub(big.NewRat(1, 1), qr)
	if _, ok := c.Float64(); !ok {
		return true, false
	}
	_, compl = c.Mul(c, t.W).Float64()
	return true, compl
}

// NewWQ builds the reference from (value, weight) pairs in any order.
func NewWQ(xs, ws []float64) *WQ {
	idx := make([]int, len(xs))
	for i := range idx {
		idx[i] = i
	}
	sort.SliceStable(idx, func(a, b int) bool { return xs[idx[a]] < xs[idx[b]] })
	t := &WQ{W: new(big.Rat)}
	grid := len(ws) > 0
	for k, wt := range ws {
		if !(wt > 0) || math.IsInf(wt, 0) {
			grid = false // outside the statement's domain
			continue
		}
		if g := lsbExp(wt); k == 0 || g < t.G {
			t.G = g
		}
	}
	for _, i := range idx {
		t.W = new(big.Rat).Add(t.W, new(big.Rat).SetFloat64(ws[i]))
		if k := len(t.Vals); k > 0 && t.Vals[k-1] == xs[i] {
			t.Cum[k-1] = t.W
			t.Ties = true
		} else {
			t.Vals = append(t.Vals, xs[i])
			t.Cum = append(t.Cum, t.W)
		}
	}
	t.Grid = grid && t.W.Cmp(pow2Rat(53+t.G)) <= 0
	return t
}

// firstAbove is the first k with Cum[k] > t, or len-1 if there is none.
func (t *WQ) firstAbove(target *big.Rat) int {
	k := sort.Search(len(t.Cum), func(k int) bool { return t.Cum[k].Cmp(target) > 0 })
	if k >= len(t.Cum) {
		k = len(t.Cum) - 1
	}
	return k
}

// Cands returns the index range [lo,hi] into Vals of the answers the
// statement allows for q: the first value whose cumulative weight exceeds
// q*W, evaluated for every target within rel*W of q*W (the ambiguity
// window). lo == hi unless q*W is within the window of a cumulative weight.
// q <= 0 and q >= 1 have the single answers minimum and maximum.
func (t *WQ) Cands(q, rel float64) (lo, hi int) {
	if q <= 0 {
		return 0, 0
	}
	if q >= 1 {
		return len(t.Vals) - 1, len(t.Vals) - 1
	}
	target := new(big.Rat).Mul(new(big.Rat).SetFloat64(q), t.W)
	win := new(big.Rat).Mul(new(big.Rat).SetFloat64(rel), t.W)
	lo = t.firstAbove(new(big.Rat).Sub(target, win))
	hi = t.firstAbove(new(big.Rat).Add(target, win))
	return
}

// CumQ returns the float64 nearest to Cum[k]/W.
func (t *WQ) CumQ(k int) float64 {
	f, _ := new(big.Rat).Quo(t.Cum[k], t.W).Float64()
	return f
}

// C10SelfTest checks the references against textbook values (R's
// quantile(type=8)), against each other, and the weighted rule against a
// hand-computed example.
func C10SelfTest() error {
	near := func(a *big.Float, want, tol float64) bool { return math.Abs(F64(a)-want) <= tol }
	one5 := []float64{1, 2, 3, 4, 5}
	one10 := []float64{1, 2, 3, 4, 5, 6, 7, 8, 9, 10}
	// R: quantile(1:5, c(.25,.5,.75), type=8) = 1.666667 3 4.333333;
	// quantile(1:10, c(.1,.5,.9), type=8) = 1.366667 5.5 9.633333
	type tc struct {
		xs   []float64
		q    float64
		want float64
	}
	for _, c := range []tc{
		{one5, 0.25, 5.0 / 3}, {one5, 0.5, 3}, {one5, 0.75, 13.0 / 3}, {one5, 0, 1}, {one5, 1, 5},
		{one5, -0.2, 1}, {one5, 1.2, 5}, {one5, 0.1, 1}, {one5, 0.95, 5},
		{one10, 0.1, 1 + 0.1*31.0/3 + 1.0/3 - 1}, {one10, 0.5, 5.5}, {one10, 0.9, 9.3 + 1.0/3},
		{[]float64{7}, 0.3, 7}, {[]float64{2, 4}, 0.5, 3},
	} {
		if got := R8(c.xs, c.q).Val; !near(got, c.want, 1e-12) {
			return fmt.Errorf("R8(%v,%v)=%v want %v", c.xs, c.q, F64(got), c.want)
		}
	}
	// q = 1/2 on odd n is an exact break point; 0.1 is not
	if i := R8(one5, 0.5); !i.Integer || i.J != 3 {
		return fmt.Errorf("R8 break-point detection: %+v", i)
	}
	if i := R8(one5, 0.1); i.Integer || i.J != 0 || !i.Lo {
		return fmt.Errorf("R8 clamp detection: %+v", i)
	}
	// brackets: interior, on a break point (both neighbours' segments), clamped
	if i := R8(one5, 0.4); i.J != 2 || i.BLo != 2 || i.BHi != 3 {
		return fmt.Errorf("R8 bracket (interior): %+v", i)
	}
	if i := R8(one5, 0.5); i.BLo != 2 || i.BHi != 4 {
		return fmt.Errorf("R8 bracket (break point): %+v", i)
	}
	if i := R8(one5, math.Nextafter(0.5, 0)); i.J != 2 || i.BLo != 2 || i.BHi != 4 {
		return fmt.Errorf("R8 bracket (1 ulp below a break point): %+v", i)
	}
	if i := R8(one5, 0.01); i.BLo != 1 || i.BHi != 1 {
		return fmt.Errorf("R8 bracket (low clamp): %+v", i)
	}
	if i := R8(one5, 0.99); i.BLo != 5 || i.BHi != 5 {
		return fmt.Errorf("R8 bracket (high clamp): %+v", i)
	}
	if i := R8([]float64{7}, 0.3); i.BLo != 7 || i.BHi != 7 {
		return fmt.Errorf("R8 bracket (n=1): %+v", i)
	}
	if q, exact := BreakQ(5, 1); q != 0.125 || !exact {
		return fmt.Errorf("BreakQ(5,1)=%v,%v", q, exact)
	}
	// the two formulations agree on a deterministic pseudo-random sweep
	s := uint64(12345)
	next := func() float64 {
		s = s*6364136223846793005 + 1442695040888963407
		return float64(s>>11) / (1 << 53)
	}
	for n := 1; n <= 40; n++ {
		xs := make([]float64, n)
		for i := range xs {
			xs[i] = math.Floor(next()*20) / 4
			if n%3 == 0 {
				xs[i] = next()*2e6 - 1e6
			}
		}
		sort.Float64s(xs)
		for k := 0; k < 30; k++ {
			q := next()*1.4 - 0.2
			if k < n {
				q, _ = BreakQ(n, k+1)
				if k%3 == 1 {
					q = math.Nextafter(q, 2)
				} else if k%3 == 2 {
					q = math.Nextafter(q, -1)
				}
			}
			a := R8(xs, q).Val
			b := nf().SetRat(R8Plot(xs, q))
			d := F64(Abs(Sub(a, b)))
			if d > 1e-90*(1+math.Abs(F64(b))) {
				return fmt.Errorf("R8 and plotting-position interpolant differ: n=%d q=%v: %v vs %v", n, q, F64(a), F64(b))
			}
		}
	}
	// weighted: values 1,2,2,5 weights 1,2,1,4 (W=8): cumulative 1,4,8
	wq := NewWQ([]float64{5, 2, 1, 2}, []float64{4, 2, 1, 1})
	if len(wq.Vals) != 3 || !wq.Ties || wq.W.Cmp(big.NewRat(8, 1)) != 0 || wq.Cum[1].Cmp(big.NewRat(4, 1)) != 0 {
		return fmt.Errorf("NewWQ grouping: %+v", wq)
	}
	type wc struct {
		q      float64
		lo, hi int
	}
	for _, c := range []wc{{0, 0, 0}, {-1, 0, 0}, {0.1, 0, 0}, {0.125, 0, 1}, {0.13, 1, 1}, {0.49, 1, 1},
		{0.5, 1, 2}, {0.51, 2, 2}, {0.999, 2, 2}, {1, 2, 2}, {2, 2, 2}} {
		lo, hi := wq.Cands(c.q, 1e-12)
		if lo != c.lo || hi != c.hi {
			return fmt.Errorf("weighted candidates q=%v: [%d,%d] want [%d,%d]", c.q, lo, hi, c.lo, c.hi)
		}
	}
	if wq.CumQ(1) != 0.5 {
		return fmt.Errorf("CumQ")
	}
	// exactness classes: W = 8 on the grid 2^0
	if !wq.Grid || wq.G != 0 {
		return fmt.Errorf("NewWQ grid: %v %d", wq.Grid, wq.G)
	}
	type ec struct {
		q           float64
		prod, compl bool
	}
	for _, c := range []ec{{0.5, true, true}, {0.5 - 0x1p-40, true, true}, {math.Nextafter(0.25, 0), true, false},
		{math.Nextafter(0.75, 0), true, true}, {0x1p-60 + 0x1p-112, true, false}, {0, false, false}, {1, false, false}} {
		if p, k := wq.QExact(c.q); p != c.prod || k != c.compl {
			return fmt.Errorf("QExact(%v) = %v,%v want %v,%v", c.q, p, k, c.prod, c.compl)
		}
	}
	if p, _ := NewWQ([]float64{1, 2, 3}, []float64{1, 1, 1}).QExact(math.Nextafter(0.5, 0)); p { // 3 q needs 54 bits
		return fmt.Errorf("QExact: 3*(0.5-2^-54) taken as representable")
	}
	if g := NewWQ([]float64{1, 2}, []float64{0.1, 0.2}); g.Grid { // 0.1+0.2 > 2^53 * 2^-55, the grid of 0.1
		return fmt.Errorf("NewWQ grid on {0.1,0.2}")
	}
	if g := NewWQ([]float64{1, 2}, []float64{0x1p-200, 3 * 0x1p-200}); !g.Grid || g.G != -200 {
		return fmt.Errorf("NewWQ grid on scaled weights")
	}
	if lsbExp(1) != 0 || lsbExp(0.75) != -2 || lsbExp(5e-324) != -1074 || lsbExp(6) != 1 {
		return fmt.Errorf("lsbExp")
	}
	return nil
}
