package ref

import (
	"math"
	"testing"
	"time"
)

func TestBigf(t *testing.T) {
	for _, x := range []float64{-700, -3.5, -1e-10, 0, 1e-10, 0.5, 1, 10, 100.25, 700} {
		got := F64(Exp(NF(x)))
		if d := math.Abs(got-math.Exp(x)) / math.Exp(x); d > 4e-16 {
			t.Errorf("exp(%v)=%v want %v", x, got, math.Exp(x))
		}
	}
	for _, x := range []float64{1e-300, 0.1, 0.999999, 1, 1.5, 2, 1e10, 1e300} {
		got := F64(Log(NF(x)))
		if d := math.Abs(got - math.Log(x)); d > 4e-16*math.Max(1, math.Abs(got)) {
			t.Errorf("log(%v)=%v want %v", x, got, math.Log(x))
		}
	}
	for _, x := range []float64{-6, -2, -0.3, 0, 0.1, 1, 2.9, 3, 3.1, 5, 10, 26, 38} {
		t0 := time.Now()
		got := F64(Erfc(NF(x)))
		el := time.Since(t0)
		want := math.Erfc(x)
		if d := math.Abs(got-want) / want; d > 1e-15 {
			t.Errorf("erfc(%v)=%v want %v (rel %v)", x, got, want, d)
		}
		t.Logf("erfc(%v) %v in %v", x, got, el)
	}
	// high-precision consistency: series and CF agree at the switch
	a := Erfc(NF(math.Nextafter(6, 0)))
	b := Erfc(NF(6))
	rel := F64(Quo(Sub(a, b), b))
	t.Logf("rel jump at 3: %v (expected ~ 2*3*exp(-9)/sqrt(pi)/erfc(3) * 4e-16)", rel)
	z := NormInvz(NF(0.975), 1.96)
	if math.Abs(F64(z)-1.959963984540054) > 1e-15 {
		t.Errorf("z975=%v", F64(z))
	}
	if math.Abs(F64(Pi())-math.Pi) > 0 || math.Abs(F64(Ln2())-math.Ln2) > 0 {
		t.Errorf("consts")
	}
}
