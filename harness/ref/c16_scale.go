package ref

import (
	"fmt"
	"math"
	"math/big"
)

// ScaleRef is the reference model of a quantitative scale for property C16:
// the unique map that is affine in x (Linear) or in ln|x| (Log) and sends
// Min to 0 and Max to 1, evaluated in 384-bit arithmetic. No sign folding,
// no "1-y": the definition is applied literally to |x|, |Min|, |Max|.
//
// It also carries the tolerance model (DESIGN section 4, policy (b)): the
// tolerances are functions of the inputs and of reference-side quantities
// only.
type ScaleRef struct {
	IsLog    bool
	Min, Max float64

	// Linear: a = Min, w = Max-Min (exact).
	// Log:    a = ln|Min|, w = ln|Max|-ln|Min|.
	a, w *big.Float

	// float64 roundings of reference quantities used by the tolerance model
	W          float64 // width (of the domain, resp. of the log-domain); signed
	LMin, LMax float64 // Log: ln|Min|, ln|Max|
}

// Eps is 2^-52.
const Eps = 1.0 / (1 << 52)

// NewScaleRef builds the model. For a Log scale Min and Max must be finite,
// non-zero and of the same sign; for Linear they must be finite.
func NewScaleRef(isLog bool, min, max float64) (*ScaleRef, error) {
	if math.IsNaN(min) || math.IsNaN(max) || math.IsInf(min, 0) || math.IsInf(max, 0) {
		return nil, fmt.Errorf("non-finite domain [%v,%v]", min, max)
	}
	s := &ScaleRef{IsLog: isLog, Min: min, Max: max}
	if !isLog {
		s.a = NF(min)
		s.w = Sub(NF(max), NF(min))
		s.W = F64(s.w)
		return s, nil
	}
	if min == 0 || max == 0 || (min < 0) != (max < 0) {
		return nil, fmt.Errorf("invalid log domain [%v,%v]", min, max)
	}
	lmin := Log(NF(math.Abs(min)))
	lmax := Log(NF(math.Abs(max)))
	s.a = lmin
	s.w = Sub(lmax, lmin)
	s.W = F64(s.w)
	s.LMin, s.LMax = F64(lmin), F64(lmax)
	return s, nil
}

// Degenerate says whether the domain is a single point.
func (s *ScaleRef) Degenerate() bool { return s.Min == s.Max }

// Valid says whether x is a valid input of Map: any finite x for Linear, a
// finite non-zero x of the domain's sign for Log.
func (s *ScaleRef) Valid(x float64) bool {
	if math.IsNaN(x) || math.IsInf(x, 0) {
		return false
	}
	if !s.IsLog {
		return true
	}
	return x != 0 && (x < 0) == (s.Min < 0)
}

// Inside says whether x lies in the closed domain.
func (s *ScaleRef) Inside(x float64) bool {
	lo, hi := s.Min, s.Max
	if lo > hi {
		lo, hi = hi, lo
	}
	return lo <= x && x <= hi
}

// Unresolvable says that a Log domain is narrower than the resolution of a
// double precision logarithm at its end points: ln|Max|-ln|Min| is not larger
// than 8 eps (1+|ln|Min||+|ln|Max||). There the conditioning-derived
// tolerance of Map exceeds the whole output range, so Map values (and
// anything computed from them) are not judged.
func (s *ScaleRef) Unresolvable() bool {
	if !s.IsLog || s.Degenerate() {
		return false
	}
	return math.Abs(s.W) <= 8*Eps*(1+math.Abs(s.LMin)+math.Abs(s.LMax))
}

// coord returns x (Linear) or ln|x| (Log).
func (s *ScaleRef) coord(x float64) *big.Float {
	if !s.IsLog {
		return NF(x)
	}
	return Log(NF(math.Abs(x)))
}

// MapBig is the exact unclamped image of a valid x of a non-degenerate scale.
func (s *ScaleRef) MapBig(x float64) *big.Float {
	return Quo(Sub(s.coord(x), s.a), s.w)
}

// UnmapBig is the exact pre-image of y.
func (s *ScaleRef) UnmapBig(y *big.Float) *big.Float {
	c := Add(Mul(y, s.w), s.a)
	if !s.IsLog {
		return c
	}
	x := Exp(c)
	if s.Min < 0 {
		x = Neg(x)
	}
	return x
}

// Clamp01 clamps to [0,1].
func Clamp01(y *big.Float) *big.Float {
	if y.Sign() < 0 {
		return NF(0)
	}
	if y.Cmp(NF(1)) > 0 {
		return NF(1)
	}
	return y
}

// lsum is 1+|ln|x||+|ln|Min||+|ln|Max||.
func (s *ScaleRef) lsum(x float64) float64 {
	return 1 + math.Abs(LnF(math.Abs(x))) + math.Abs(s.LMin) + math.Abs(s.LMax)
}

// LnF is ln x in double precision, also for subnormal x (the platform
// logarithm may be inaccurate there: amd64's math.Log returns about -709.09
// for every subnormal argument instead of down to -744.44).
func LnF(x float64) float64 {
	f, e := math.Frexp(x)
	return math.Log(f) + float64(e)*math.Ln2
}

// UnmapTol is the absolute tolerance on Unmap(y) whose true value is x.
//
// Linear: 8 eps (|x| + (1+|y|) max(|Min|,|Max|)). It covers y*(Max-Min)+Min
// (error <= 2u|y||Max-Min| + u|x|) and the lerp form (1-y)Min + y Max
// (error <= u(|1-y||Min| + |y||Max| + |x|)) with a margin of at least 3.
//
// Log: relative 8 eps (1+|y|) (1+|ln|x||+|ln|Min||+|ln|Max||). exp(y W + ln Min)
// with 1-ulp logarithms has an exponent error of at most
// eps(1+|y|)(|ln x|+|ln Min|+|ln Max|)*3/2.
func (s *ScaleRef) UnmapTol(y, x float64) float64 {
	if !s.IsLog {
		m := math.Max(math.Abs(s.Min), math.Abs(s.Max))
		return 8 * Eps * (math.Abs(x) + (1+math.Abs(y))*m)
	}
	// plus one unit of the subnormal grid: a relative bound means nothing for
	// a result below the smallest normal number
	return 8*Eps*(1+math.Abs(y))*s.lsum(x)*math.Abs(x) + 2*math.SmallestNonzeroFloat64
}

// MapTol is the absolute tolerance on Map(x) whose true value is y.
//
// Linear: 8 eps |y| + 4 eps |1-y| (+ a subnormal floor). Map is the quotient
// (x-Min)/(Max-Min) of two differences of the INPUTS: fl(x-Min) and
// fl(Max-Min) are single correctly rounded (often exact) subtractions, so the
// stated affine map is obtainable to a few units of roundoff RELATIVE to y on
// every domain, however far from zero it lies compared with its width:
// the direct quotient errs by <= 1.5 eps |y|, the reciprocal-multiply form
// (x-Min)*(1/(Max-Min)) by <= 2 eps |y|, the lerp form 1-(Max-x)/(Max-Min)
// (and its reciprocal variant) by <= 2 eps |1-y| + eps |y|/2. The margin is at
// least 2 for each. (The conditioning of Unmap - cancellation against
// max(|Min|,|Max|) - does not enter Map: a tolerance carried back from Unmap
// would hide a slope/intercept evaluation x*k - Min*k, whose error
// eps |x| / |Max-Min| destroys strict monotonicity on domains far from 0.)
//
// Log: the Unmap tolerance carried back through the slope of the map, plus
// 4 eps |y|: 8 eps (1+|y|)(1+|ln|x||+|ln|Min||+|ln|Max||)/|W| + 4 eps |y|, written
// without the factor |x|/|x| so that it stays finite and non-zero for x near
// the largest finite and down to the subnormal numbers.
func (s *ScaleRef) MapTol(x, y float64) float64 {
	if s.IsLog {
		return 8*Eps*(1+math.Abs(y))*s.lsum(x)/math.Abs(s.W) + 4*Eps*math.Abs(y)
	}
	return 8*Eps*math.Abs(y) + 4*Eps*math.Abs(1-y) + 4*math.SmallestNonzeroFloat64
}

// Separated says that the logarithms of |Min| and |Max| are at least 3 ulps
// apart, in whatever base they are taken: ln|Max|-ln|Min| >= 3 eps max(|ln|Min||,
// |ln|Max||) (a change of base divides both sides by the same constant). Any
// implementation whose logarithm errs by less than one ulp then sees two
// different values f(Min) != f(Max), and (f(x)-f(Min))/(f(Max)-f(Min)) is
// exactly 0 at Min and exactly 1 at Max, also inside the unresolvable
// window. Below that separation an implementation may be unable to tell the
// domain from a degenerate one (the logarithms can coincide: in base e for
// one, in base 5 for another).
func (s *ScaleRef) Separated() bool {
	if !s.IsLog {
		return s.Min != s.Max
	}
	return math.Abs(s.W) >= 3*Eps*math.Max(math.Abs(s.LMin), math.Abs(s.LMax))
}

// DMap is |dy/dx| at x.
func (s *ScaleRef) DMap(x float64) float64 {
	if !s.IsLog {
		return 1 / math.Abs(s.W)
	}
	return 1 / math.Abs(s.W*x)
}

// DUnmap is |dx/dy| at the point whose pre-image is x.
func (s *ScaleRef) DUnmap(x float64) float64 {
	if !s.IsLog {
		return math.Abs(s.W)
	}
	return math.Abs(s.W * x)
}

// Carry converts an error dy of the argument of Unmap into a bound on the
// error of its value x (exact for Linear, exp-aware for Log so that the
// bound stays sound when dy*W is not small).
func (s *ScaleRef) Carry(dy, x float64) float64 {
	if !s.IsLog {
		return dy * math.Abs(s.W)
	}
	return math.Abs(x) * math.Expm1(dy*math.Abs(s.W))
}

// CarryBack converts an error dx of the argument x of Map into a bound on the
// error of its value.
func (s *ScaleRef) CarryBack(dx, x float64) float64 {
	if !s.IsLog {
		return dx / math.Abs(s.W)
	}
	r := dx / math.Abs(x)
	if r >= 1 {
		return math.Inf(1)
	}
	return -math.Log1p(-r) / math.Abs(s.W)
}

// C16SelfTest checks the model on textbook values.
func C16SelfTest() error {
	near := func(b *big.Float, want, tol float64) bool { return math.Abs(F64(b)-want) <= tol }
	mk := func(isLog bool, a, b float64) *ScaleRef {
		s, err := NewScaleRef(isLog, a, b)
		if err != nil {
			panic(err)
		}
		return s
	}
	type tc struct {
		s    *ScaleRef
		x, y float64
	}
	for _, c := range []tc{
		{mk(false, 2, 4), 3, 0.5}, {mk(false, 2, 4), 2, 0}, {mk(false, 2, 4), 4, 1}, {mk(false, 2, 4), 8, 3},
		{mk(false, 4, 2), 4, 0}, {mk(false, 4, 2), 2.5, 0.75}, {mk(false, -1, 1), 0, 0.5}, {mk(false, -3, -7), -6, 0.75},
		{mk(true, 1, 100), 10, 0.5}, {mk(true, 1, 100), 1, 0}, {mk(true, 1, 100), 100, 1}, {mk(true, 1, 100), 1e4, 2},
		{mk(true, 100, 1), 100, 0}, {mk(true, 100, 1), 10, 0.5}, {mk(true, 100, 1), 0.01, 2},
		{mk(true, -100, -1), -100, 0}, {mk(true, -100, -1), -10, 0.5}, {mk(true, -100, -1), -1, 1},
		{mk(true, -1, -100), -1, 0}, {mk(true, -1, -100), -1000, 1.5},
		{mk(true, 0.25, 4), 1, 0.5}, {mk(true, 1e-12, 1e12), 1, 0.5},
	} {
		if !near(c.s.MapBig(c.x), c.y, 1e-30) {
			return fmt.Errorf("ScaleRef{log=%v,%v,%v}.Map(%v)=%v, want %v", c.s.IsLog, c.s.Min, c.s.Max, c.x, F64(c.s.MapBig(c.x)), c.y)
		}
		back := F64(c.s.UnmapBig(NF(c.y)))
		if math.Abs(back-c.x) > 1e-13*math.Abs(c.x) {
			return fmt.Errorf("ScaleRef{log=%v,%v,%v}.Unmap(%v)=%v, want %v", c.s.IsLog, c.s.Min, c.s.Max, c.y, back, c.x)
		}
	}
	for _, x := range []float64{math.SmallestNonzeroFloat64, 3e-320, 2.2250738585072014e-308, 1e-300, 1e-14, 0.3, 1, 2, 10, 12345.678, 1e14, 1e300, math.MaxFloat64} {
		l := Log(NF(x))
		if math.Abs(F64(l)-LnF(x)) > 4*Eps*(1+math.Abs(LnF(x))) {
			return fmt.Errorf("ref.Log(%v)=%v, double precision %v", x, F64(l), LnF(x))
		}
		d := Sub(Exp(l), NF(x))
		if math.Abs(F64(d)) > 1e-90*x {
			return fmt.Errorf("ref.Exp(ref.Log(%v)) off by %v", x, F64(d))
		}
	}
	// far from the domain: 1e300 is 25 widths above the top of [1e-12,1],
	// the subnormal 2^-1074 is (1074 ln2 + 6 ln10)/(6 ln10) widths below [1e6,1e12]
	if !near(mk(true, 1e-12, 1).MapBig(1e300), 26, 1e-12) ||
		!near(mk(true, 1e6, 1e12).MapBig(math.SmallestNonzeroFloat64), -(1074*math.Ln2+6*math.Ln10)/(6*math.Ln10), 1e-12) {
		return fmt.Errorf("ScaleRef.MapBig wrong far from the domain")
	}
	if t := mk(true, 1e-12, 1).MapTol(1e300, 26); !(t > 0 && t < 1e-10) {
		return fmt.Errorf("MapTol at 1e300 = %v", t)
	}
	if t := mk(true, 1e6, 1e12).MapTol(math.SmallestNonzeroFloat64, -52.9); !(t > 0 && t < 1e-10) {
		return fmt.Errorf("MapTol at the smallest subnormal = %v", t)
	}
	if !mk(true, 1e12, math.Nextafter(1e12, 2e12)).Unresolvable() || mk(true, 1, 1.0000001).Unresolvable() || mk(true, 1e-12, 1e12).Unresolvable() {
		return fmt.Errorf("Unresolvable() misclassifies")
	}
	return nil
}
