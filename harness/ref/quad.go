package ref

// 10-point Gauss-Legendre nodes and weights on [-1,1].
var glX = [5]float64{0.1488743389816312108848260, 0.4333953941292471907992659, 0.6794095682990244062343274, 0.8650633666889845107320967, 0.9739065285171717200779640}
var glW = [5]float64{0.2955242247147528701738930, 0.2692667193099963550912269, 0.2190863625159820439955349, 0.1494513491505805931457763, 0.0666713443086881375935688}

// GL integrates f over [a,b] with `panels` equal panels of 10-point
// Gauss-Legendre.
func GL(f func(float64) float64, a, b float64, panels int) float64 {
	if panels < 1 {
		panels = 1
	}
	h := (b - a) / float64(panels)
	sum := 0.0
	for p := 0; p < panels; p++ {
		lo := a + float64(p)*h
		mid := lo + h/2
		half := h / 2
		s := 0.0
		for i := 0; i < 5; i++ {
			d := half * glX[i]
			s += glW[i] * (f(mid-d) + f(mid+d))
		}
		sum += s * half
	}
	return sum
}

// GLSplit integrates over [a,b] splitting at the given interior break points
// (kinks), with `panels` panels per piece.
func GLSplit(f func(float64) float64, a, b float64, breaks []float64, panels int) float64 {
	pts := []float64{a}
	for _, x := range breaks {
		if x > a && x < b {
			pts = append(pts, x)
		}
	}
	pts = append(pts, b)
	// insertion sort
	for i := 1; i < len(pts); i++ {
		for j := i; j > 0 && pts[j] < pts[j-1]; j-- {
			pts[j], pts[j-1] = pts[j-1], pts[j]
		}
	}
	sum := 0.0
	for i := 0; i+1 < len(pts); i++ {
		if pts[i+1] > pts[i] {
			sum += GL(f, pts[i], pts[i+1], panels)
		}
	}
	return sum
}

// GLAdaptive integrates f over [a,b], bisecting until one panel and two
// half panels agree to tol (absolute) or depth is exhausted.
func GLAdaptive(f func(float64) float64, a, b, tol float64) float64 {
	// bounded work: at most maxPanels panel evaluations, whatever f does
	// (a NaN or infinite integrand can never "converge")
	const maxPanels = 1 << 16
	panels := 0
	var rec func(a, b, whole float64, depth int) float64
	rec = func(a, b, whole float64, depth int) float64 {
		m := (a + b) / 2
		l, r := GL(f, a, m, 1), GL(f, m, b, 1)
		panels += 2
		s := l + r
		if depth <= 0 || panels > maxPanels || s != s || s-s != 0 || abs(s-whole) <= tol {
			return s
		}
		return rec(a, m, l, depth-1) + rec(m, b, r, depth-1)
	}
	return rec(a, b, GL(f, a, b, 1), 40)
}

func abs(x float64) float64 {
	if x < 0 {
		return -x
	}
	return x
}
