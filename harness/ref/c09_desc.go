package ref

import (
	"fmt"
	"math"
	"math/big"
)

// Desc holds the exact descriptive statistics of a (possibly weighted) list
// of float64 values, computed at Prec bits from the exact binary values of
// the inputs and rounded once to float64 at the end. It also holds the
// reference-side quantities the tolerance policy needs (sums of absolute
// values, sum of squares ...). Nothing here calls the library under test.
type Desc struct {
	N        int  // number of values
	NPos     int  // number of values with non-zero weight
	Weighted bool // ws != nil
	IntW     bool // all weights are non-negative integers <= 64 (true when unweighted)
	IntWhole bool // all weights are non-negative whole numbers of any size (true when unweighted)

	W       float64 // total weight (n when unweighted)
	Sum     float64 // sum of w*x
	SumAbs  float64 // sum of |w*x|
	Mean    float64 // Sum/W; NaN when W == 0
	MeanAbs float64 // sum of w|x| / W; NaN when W == 0

	// Unweighted only (NaN otherwise or when n < 2).
	Var   float64 // sum (x-mean)^2/(n-1)
	SD    float64 // sqrt(Var)
	SS    float64 // sum (x-mean)^2
	SumSq float64 // sum x^2
	Norm  float64 // sqrt(sum x^2), rounded once (finite where SumSq overflows float64)

	NonPos     bool    // some value of non-zero weight is <= 0
	Geo        float64 // exp(sum w ln x / W); NaN when NonPos or W == 0
	MeanAbsLog float64 // sum w|ln x| / W, float64 arithmetic (tolerances only)

	Min, Max float64 // over the values with non-zero weight; NaN if none
}

// Describe computes the reference statistics. ws == nil means unweighted.
func Describe(xs, ws []float64) *Desc {
	return describe(xs, ws, false)
}

// describe: logPath forces the sum-of-logarithms route for the geometric
// mean (used by the self-test to compare the two routes).
func describe(xs, ws []float64, logPath bool) *Desc {
	nan := math.NaN()
	d := &Desc{N: len(xs), Weighted: ws != nil, IntW: true, IntWhole: true,
		Mean: nan, MeanAbs: nan, Var: nan, SD: nan, SS: nan, SumSq: nan, Norm: nan,
		Geo: nan, MeanAbsLog: nan, Min: nan, Max: nan}
	sum, sumAbs, W, sumSq := nf(), nf(), nf(), nf()
	for i, x := range xs {
		w := 1.0
		if ws != nil {
			w = ws[i]
		}
		if w != math.Trunc(w) || w < 0 || w > 64 {
			d.IntW = false
		}
		if w != math.Trunc(w) || w < 0 {
			d.IntWhole = false
		}
		bx, bw := NF(x), NF(w)
		p := Mul(bx, bw)
		sum.Add(sum, p)
		sumAbs.Add(sumAbs, Abs(p))
		W.Add(W, bw)
		sumSq.Add(sumSq, Mul(bx, bx))
		if x <= 0 && w != 0 {
			// a zero-weight value is not part of the (repeated) sample
			d.NonPos = true
		}
		if w != 0 {
			d.NPos++
			if d.NPos == 1 || x < d.Min {
				d.Min = x
			}
			if d.NPos == 1 || x > d.Max {
				d.Max = x
			}
		}
	}
	d.W, d.Sum, d.SumAbs = F64(W), F64(sum), F64(sumAbs)
	if W.Sign() <= 0 {
		return d
	}
	mean := Quo(sum, W)
	d.Mean = F64(mean)
	d.MeanAbs = F64(Quo(sumAbs, W))
	if ws == nil {
		d.SumSq = F64(sumSq)
		d.Norm = F64(Sqrt(sumSq))
		if len(xs) >= 2 {
			ss := nf()
			for _, x := range xs {
				dx := Sub(NF(x), mean)
				ss.Add(ss, Mul(dx, dx))
			}
			v := Quo(ss, NI(int64(len(xs)-1)))
			d.SS, d.Var, d.SD = F64(ss), F64(v), F64(Sqrt(v))
		}
	}
	if !d.NonPos {
		var L *big.Float
		mal := 0.0
		if d.IntW && !logPath {
			// ln of the exact product (rounded at Prec bits per factor)
			P := NF(1)
			for i, x := range xs {
				k := 1
				if ws != nil {
					k = int(ws[i])
				}
				if k > 0 {
					P = Mul(P, PowInt(NF(x), k))
					mal += float64(k) * math.Abs(math.Log(x))
				}
			}
			L = Quo(Log(P), W)
		} else {
			s := nf()
			for i, x := range xs {
				w := 1.0
				if ws != nil {
					w = ws[i]
				}
				if w != 0 {
					s.Add(s, Mul(NF(w), Log(NF(x))))
				}
				if w != 0 {
					mal += w * math.Abs(math.Log(x))
				}
			}
			L = Quo(s, W)
		}
		d.Geo = F64(Exp(L))
		d.MeanAbsLog = mal / d.W
	}
	return d
}

// Expand returns the unweighted list in which xs[i] is repeated ws[i] times
// (ws non-negative integers).
func Expand(xs, ws []float64) []float64 {
	var out []float64
	for i, x := range xs {
		for k := 0; k < int(ws[i]); k++ {
			out = append(out, x)
		}
	}
	if out == nil {
		out = []float64{}
	}
	return out
}

// ratDesc computes mean and variance exactly in rational arithmetic (small
// inputs only).
func ratDesc(xs, ws []float64) (mean, vr *big.Rat) {
	sum, W := new(big.Rat), new(big.Rat)
	for i, x := range xs {
		w := 1.0
		if ws != nil {
			w = ws[i]
		}
		rx, rw := new(big.Rat).SetFloat64(x), new(big.Rat).SetFloat64(w)
		sum.Add(sum, new(big.Rat).Mul(rx, rw))
		W.Add(W, rw)
	}
	mean = new(big.Rat).Quo(sum, W)
	if ws == nil && len(xs) >= 2 {
		ss := new(big.Rat)
		for _, x := range xs {
			dx := new(big.Rat).Sub(new(big.Rat).SetFloat64(x), mean)
			ss.Add(ss, new(big.Rat).Mul(dx, dx))
		}
		vr = ss.Quo(ss, big.NewRat(int64(len(xs)-1), 1))
	}
	return
}

// DescSelfTest cross-checks the big.Float statistics against exact rational
// arithmetic, against the two geometric-mean routes and against text-book
// values.
func DescSelfTest() error {
	r64 := func(r *big.Rat) float64 { f, _ := r.Float64(); return f }
	sets := []struct{ xs, ws []float64 }{
		{[]float64{2, 4, 4, 4, 5, 5, 7, 9}, nil},
		{[]float64{1e9 + 1, 1e9 + 2, 1e9 + 4, 1e9 + 8.5}, nil},
		{[]float64{0.1, 0.2, 0.3, -0.7, 1e-3, 12345.678}, nil},
		{[]float64{0.1, 0.1, 0.1}, nil},
		{[]float64{3, 1, 2.5, 1e6}, []float64{0, 2, 3, 1}},
		{[]float64{3, 1, 2.5, 7}, []float64{0.5, 2.25, 3, 1.125}},
		{[]float64{-1e30, 1, 1e30, 3}, nil},
	}
	for k, s := range sets {
		d := Describe(s.xs, s.ws)
		m, v := ratDesc(s.xs, s.ws)
		if d.Mean != r64(m) {
			return fmt.Errorf("set %d: big.Float mean %v, rational %v", k, d.Mean, r64(m))
		}
		if v != nil && d.Var != r64(v) {
			return fmt.Errorf("set %d: big.Float variance %v, rational %v", k, d.Var, r64(v))
		}
	}
	d := Describe(sets[0].xs, nil)
	if d.Mean != 5 || d.Var != 32.0/7 || d.Sum != 40 || d.W != 8 || d.Min != 2 || d.Max != 9 || d.SS != 32 || d.SumSq != 232 {
		return fmt.Errorf("text-book set: %+v", d)
	}
	if d := Describe(sets[3].xs, nil); d.Var != 0 || d.SD != 0 || d.Mean != 0.1 {
		return fmt.Errorf("constant set: %+v", d)
	}
	near := func(a, b float64) bool { return math.Abs(a-b) <= 4e-16*math.Abs(b) }
	if g := Describe([]float64{1, 2, 4}, nil).Geo; g != 2 {
		return fmt.Errorf("geo(1,2,4)=%v", g)
	}
	if g := Describe([]float64{4, 1, 1.0 / 32}, nil).Geo; g != 0.5 {
		return fmt.Errorf("geo(4,1,1/32)=%v", g)
	}
	if g := Describe([]float64{2, 8}, []float64{3, 1}).Geo; !near(g, math.Sqrt(8)) {
		return fmt.Errorf("weighted geo=%v", g)
	}
	if g := Describe([]float64{1e60, 1e-60, 10}, nil).Geo; !near(g, math.Pow(10, 1.0/3)) {
		return fmt.Errorf("geo(1e60,1e-60,10)=%v", g)
	}
	gx := []float64{3.7, 1e-40, 2.5e33, 0.11, 19}
	gw := []float64{2, 0, 5, 1, 3}
	a, b := describe(gx, gw, false), describe(gx, gw, true)
	if !a.IntW || a.Geo != b.Geo {
		return fmt.Errorf("geo product route %v, log route %v", a.Geo, b.Geo)
	}
	if d := Describe([]float64{1, -2}, nil); !math.IsNaN(d.Geo) || !d.NonPos {
		return fmt.Errorf("geo of non-positive data: %+v", d)
	}
	if d := Describe([]float64{5, 6}, []float64{0, 0}); !math.IsNaN(d.Mean) || !math.IsNaN(d.Min) || d.Sum != 0 || d.W != 0 || d.NPos != 0 {
		return fmt.Errorf("all-zero weights: %+v", d)
	}
	if d := Describe(nil, nil); !math.IsNaN(d.Mean) || d.Sum != 0 || d.W != 0 {
		return fmt.Errorf("empty: %+v", d)
	}
	if e := Expand([]float64{7, 8, 9}, []float64{2, 0, 1}); len(e) != 3 || e[0] != 7 || e[1] != 7 || e[2] != 9 {
		return fmt.Errorf("Expand: %v", e)
	}
	return nil
}
