package ref

import (
	"math"

	"gonum.org/v1/gonum/mathext"
)

// TCDFInt is the Student-t CDF for integer nu >= 1 by the finite
// trigonometric sums (all terms positive for t>0; Abramowitz & Stegun
// 26.7.3/26.7.4).
func TCDFInt(nu int, t float64) float64 {
	if t == 0 {
		return 0.5
	}
	if math.IsInf(t, 1) {
		return 1
	}
	if math.IsInf(t, -1) {
		return 0
	}
	neg := t < 0
	if neg {
		t = -t
	}
	fnu := float64(nu)
	// sin and cos of theta = atan(t/sqrt(nu)), computed without cancellation
	h := math.Hypot(t, math.Sqrt(fnu))
	s := t / h
	c := math.Sqrt(fnu) / h
	c2 := c * c
	var a float64 // A(t|nu) = P(|T|<=t)
	if nu%2 == 1 {
		theta := math.Atan2(t, math.Sqrt(fnu))
		sum := 0.0
		if nu > 1 {
			term := 1.0
			sum = 1
			for k := 1; 2*k+1 <= nu-2; k++ {
				term *= float64(2*k) / float64(2*k+1) * c2
				sum += term
			}
			sum *= s * c
		}
		a = 2 / math.Pi * (theta + sum)
	} else {
		term := 1.0
		sum := 1.0
		for k := 1; 2*k <= nu-2; k++ {
			term *= float64(2*k-1) / float64(2*k) * c2
			sum += term
		}
		a = s * sum
	}
	p := 0.5 + a/2
	if neg {
		return 0.5 - a/2
	}
	return p
}

// TCDFBeta is the Student-t CDF through gonum's cephes-derived regularized
// incomplete beta, in whichever complementary form is well conditioned.
func TCDFBeta(nu, t float64) float64 {
	if t == 0 {
		return 0.5
	}
	x2 := t * t
	var tail float64 // P(T > |t|)
	if x2 < nu {
		tail = 0.5 - 0.5*mathext.RegIncBeta(0.5, nu/2, x2/(nu+x2))
	} else {
		tail = 0.5 * mathext.RegIncBeta(nu/2, 0.5, nu/(nu+x2))
	}
	if t > 0 {
		return 1 - tail
	}
	return tail
}

// TPDF is the Student-t density (math.Lgamma for the normalisation).
func TPDF(nu, x float64) float64 {
	la, _ := math.Lgamma((nu + 1) / 2)
	lb, _ := math.Lgamma(nu / 2)
	return math.Exp(la - lb - 0.5*math.Log(nu*math.Pi) - (nu+1)/2*math.Log1p(x*x/nu))
}

// TCDFQuad integrates the density from 0 to |t| by panelled Gauss-Legendre
// (the adjudicator).
func TCDFQuad(nu, t float64) float64 {
	if t == 0 {
		return 0.5
	}
	a := math.Abs(t)
	const scale = 1.0
	w := 0.25 * scale
	sum := 0.0
	lo := 0.0
	for lo < a {
		hi := lo + w
		if hi > a {
			hi = a
		}
		sum += GL(func(x float64) float64 { return TPDF(nu, x) }, lo, hi, 1)
		lo = hi
		// widen panels in the tail where the density is smooth on a log scale
		if lo > 8*scale {
			w = 0.25 * lo
		}
	}
	if t > 0 {
		return 0.5 + sum
	}
	return 0.5 - sum
}

// TCDF picks the best available reference: closed form for integer nu,
// mathext otherwise.
func TCDF(nu, t float64) float64 {
	if nu == math.Floor(nu) && nu >= 1 && nu <= 20000 {
		return TCDFInt(int(nu), t)
	}
	return TCDFBeta(nu, t)
}

// TTail is the upper tail P(T > t) of Student's t for t >= 1 with a small
// RELATIVE error however small the tail is: half the regularized incomplete
// beta I_x(nu/2, 1/2) at x = nu/(nu+t^2), which mathext evaluates directly
// (no complement is taken for t^2 > 1). The closed form of TCDFInt loses the
// tail to cancellation once nu is in the hundreds.
func TTail(nu, t float64) float64 {
	return 0.5 * mathext.RegIncBeta(nu/2, 0.5, nu/(nu+t*t))
}

// TTailQuad integrates the density over [t, inf) by panelled Gauss-Legendre
// (relative accuracy; the adjudicator of TTail).
func TTailQuad(nu, t float64) float64 {
	sum := 0.0
	lo := t
	for k := 0; k < 20000; k++ {
		// panels of at most 1.5 e-foldings of the density, and never wider
		// than an eighth of the abscissa (the polynomial tail of a small nu)
		w := math.Min(0.125*math.Max(lo, 1), 1.5*(nu+lo*lo)/((nu+1)*lo))
		piece := GL(func(x float64) float64 { return TPDF(nu, x) }, lo, lo+w, 1)
		sum += piece
		lo += w
		if piece < 1e-19*sum {
			break
		}
	}
	return sum
}

// TTailEven is the upper tail for EVEN integer nu from the finite closed form
// (Abramowitz & Stegun 26.7.4) evaluated at 384 bits, where the cancellation
// in 1 - A(t|nu) costs nothing (tails down to about 1e-100).
func TTailEven(nu int, t float64) float64 {
	bt := NF(t)
	den := Add(NI(int64(nu)), Mul(bt, bt))
	s := Quo(bt, Sqrt(den))
	c2 := Quo(NI(int64(nu)), den)
	term, sum := NF(1), NF(1)
	for k := 1; 2*k <= nu-2; k++ {
		term = Quo(Mul(Mul(term, NI(int64(2*k-1))), c2), NI(int64(2*k)))
		sum = Add(sum, term)
	}
	return F64(Quo(Sub(NF(1), Mul(s, sum)), NF(2)))
}
