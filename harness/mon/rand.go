package mon

import (
	"math"
	"math/bits"
)

// Rand is a small xoshiro256** generator. Every case of every class gets its
// own generator derived from (seed, property, class, index), so a case is
// addressable and replayable independently of how work was sharded.
type Rand struct{ s [4]uint64 }

func splitmix(x *uint64) uint64 {
	*x += 0x9e3779b97f4a7c15
	z := *x
	z = (z ^ (z >> 30)) * 0xbf58476d1ce4e5b9
	z = (z ^ (z >> 27)) * 0x94d049bb133111eb
	return z ^ (z >> 31)
}

// HashStr is FNV-1a.
func HashStr(s string) uint64 {
	h := uint64(14695981039346656037)
	for i := 0; i < len(s); i++ {
		h ^= uint64(s[i])
		h *= 1099511628211
	}
	return h
}

func NewRand(parts ...uint64) *Rand {
	x := uint64(0x243f6a8885a308d3)
	for _, p := range parts {
		x ^= p
		x = splitmix(&x)
	}
	r := &Rand{}
	for i := range r.s {
		r.s[i] = splitmix(&x)
	}
	return r
}

func (r *Rand) Uint64() uint64 {
	s := &r.s
	res := bits.RotateLeft64(s[1]*5, 7) * 9
	t := s[1] << 17
	s[2] ^= s[0]
	s[3] ^= s[1]
	s[1] ^= s[2]
	s[0] ^= s[3]
	s[2] ^= t
	s[3] = bits.RotateLeft64(s[3], 45)
	return res
}

// Float64 is uniform in [0,1).
func (r *Rand) Float64() float64 { return float64(r.Uint64()>>11) / (1 << 53) }

func (r *Rand) Intn(n int) int {
	if n <= 0 {
		return 0
	}
	return int(r.Uint64() % uint64(n))
}

// Range returns an int in [lo,hi].
func (r *Rand) Range(lo, hi int) int { return lo + r.Intn(hi-lo+1) }

func (r *Rand) Bool() bool { return r.Uint64()&1 == 1 }

// Uniform in [lo,hi).
func (r *Rand) Uniform(lo, hi float64) float64 { return lo + (hi-lo)*r.Float64() }

// LogUniform in [lo,hi), lo>0.
func (r *Rand) LogUniform(lo, hi float64) float64 {
	return math.Exp(r.Uniform(math.Log(lo), math.Log(hi)))
}

func (r *Rand) Sign() float64 {
	if r.Bool() {
		return 1
	}
	return -1
}

// Norm is a standard normal deviate (Box-Muller).
func (r *Rand) Norm() float64 {
	for {
		u := r.Float64()
		if u == 0 {
			continue
		}
		v := r.Float64()
		return math.Sqrt(-2*math.Log(u)) * math.Cos(2*math.Pi*v)
	}
}

func (r *Rand) Perm(n int) []int {
	p := make([]int, n)
	for i := range p {
		p[i] = i
	}
	for i := n - 1; i > 0; i-- {
		j := r.Intn(i + 1)
		p[i], p[j] = p[j], p[i]
	}
	return p
}

func (r *Rand) ShuffleF(xs []float64) {
	for i := len(xs) - 1; i > 0; i-- {
		j := r.Intn(i + 1)
		xs[i], xs[j] = xs[j], xs[i]
	}
}

func (r *Rand) ShuffleI(xs []int) {
	for i := len(xs) - 1; i > 0; i-- {
		j := r.Intn(i + 1)
		xs[i], xs[j] = xs[j], xs[i]
	}
}

// Pick returns one of the arguments.
func (r *Rand) Pick(xs ...float64) float64 { return xs[r.Intn(len(xs))] }
func (r *Rand) PickI(xs ...int) int        { return xs[r.Intn(len(xs))] }
