// Package mon is the monitor runtime: case scheduling, per-worker recorders,
// three-valued verdicts, known-finding attribution, replay files, evidence.
//
// The library under test is pure, so cases are sharded over worker
// goroutines; every worker records into its own W and the Ws are merged
// after the join, so the monitor has no shared mutable state while the
// library runs (the only shared thing is the atomic work counter).
package mon

import (
	"encoding/json"
	"fmt"
	"math"
	"os"
	"path/filepath"
	"runtime"
	"sort"
	"strconv"
	"strings"
	"sync"
	"sync/atomic"
	"time"
)

// Verdict codes (process exit status).
const (
	Held         = 0
	Violated     = 1
	Inconclusive = 3 // mapped to exit status 2 by ./check (Go itself exits 2 on a crash)
)

// F is a float64 that survives JSON even when it is NaN or infinite.
type F float64

func (f F) MarshalJSON() ([]byte, error) {
	x := float64(f)
	if math.IsNaN(x) || math.IsInf(x, 0) {
		return json.Marshal(strconv.FormatFloat(x, 'g', -1, 64))
	}
	return []byte(strconv.FormatFloat(x, 'g', -1, 64)), nil
}

func (f *F) UnmarshalJSON(b []byte) error {
	s := strings.Trim(string(b), `"`)
	x, err := strconv.ParseFloat(s, 64)
	if err != nil {
		return err
	}
	*f = F(x)
	return nil
}

// Fs converts a slice for JSON output.
func Fs(xs []float64) []F {
	out := make([]F, len(xs))
	for i, x := range xs {
		out[i] = F(x)
	}
	return out
}

// Un converts back.
func Un(xs []F) []float64 {
	out := make([]float64, len(xs))
	for i, x := range xs {
		out[i] = float64(x)
	}
	return out
}

// Finding is one entry of /verif/known_findings.json.
type Finding struct {
	ID         string   `json:"id"`
	Properties []string `json:"properties"`
	Status     string   `json:"status"` // "finding" or "fixed"
	What       string   `json:"what"`
	Short      string   `json:"short,omitempty"`
	Commit     string   `json:"commit,omitempty"`
	Line       string   `json:"line,omitempty"`
}

type knownAgg struct {
	n       int64
	example string
}

type errRec struct {
	Ratio float64 `json:"max_err_over_tol"`
	Err   float64 `json:"err"`
	Tol   float64 `json:"tol"`
	At    string  `json:"at,omitempty"`
	N     int64   `json:"n"`
}

// ViolationRec is what a replay file holds.
type ViolationRec struct {
	Property string          `json:"property"`
	Class    string          `json:"class"`
	Index    int             `json:"index"`
	Kind     string          `json:"kind"`
	Msg      string          `json:"msg"`
	Seed     uint64          `json:"seed"`
	Tier     string          `json:"tier"`
	Case     json.RawMessage `json:"case"`
}

// Run is one execution of one property's monitor.
type Run struct {
	Prop  string
	Tier  string
	Quick bool
	Seed  uint64
	Dir   string // /verif
	NW    int

	start time.Time

	mu        sync.Mutex
	evals     map[string]int64
	classes   map[string]int64
	gates     map[string]bool
	distinct  map[uint64]struct{}
	nviol     int64
	violKinds map[string]int64
	viols     []ViolationRec
	known     map[string]*knownAgg
	errs      map[string]*errRec
	samples   []any
	ambiguous int64
	exhaust   []string
	extra     map[string]any
	incon     []string
	assume    []string
	rule      string
	findings  map[string]Finding
	replaying bool

	wdMu   sync.Mutex
	wdLive map[*W]bool
	scale  float64
}

// W is a worker-local recorder. Not safe for concurrent use.
type W struct {
	R     *Run
	Rng   *Rand
	Class string
	Index int

	// watchdog view of the case in flight (index, start time in unix nanos)
	wdIndex atomic.Int64
	wdSince atomic.Int64

	evals     map[string]int64
	classes   map[string]int64
	distinct  []uint64
	viols     []ViolationRec
	nviol     int64
	violKinds map[string]int64
	known     map[string]*knownAgg
	errs      map[string]*errRec
	samples   []any
	ambiguous int64
	nontriv   bool
}

func NewRun(prop, tier string, seed uint64, dir string) *Run {
	r := &Run{Prop: prop, Tier: tier, Quick: tier != "thorough", Seed: seed, Dir: dir,
		NW: runtime.GOMAXPROCS(0), start: time.Now(),
		evals: map[string]int64{}, classes: map[string]int64{}, gates: map[string]bool{},
		distinct: map[uint64]struct{}{}, violKinds: map[string]int64{},
		known: map[string]*knownAgg{}, errs: map[string]*errRec{}, extra: map[string]any{},
		findings: map[string]Finding{}, wdLive: map[*W]bool{}}
	r.scale, _ = strconv.ParseFloat(os.Getenv("VERIF_SCALE"), 64)
	go r.watchdog()
	if r.NW > 16 {
		r.NW = 16
	}
	r.loadFindings()
	return r
}

func (r *Run) loadFindings() {
	b, err := os.ReadFile(filepath.Join(r.Dir, "known_findings.json"))
	if err != nil {
		return
	}
	var doc struct {
		Findings []Finding `json:"findings"`
	}
	if err := json.Unmarshal(b, &doc); err != nil {
		r.Inconclusive("known_findings.json unreadable: " + err.Error())
		return
	}
	for _, f := range doc.Findings {
		r.findings[f.ID] = f
	}
}

// Pick returns q in the quick tier and t in the thorough tier.
func (r *Run) Pick(q, t int) int {
	n := t
	if r.Quick {
		n = q
	}
	// VERIF_SCALE shrinks the random classes (used by the race-detector sweep
	// of C20's thorough tier, which runs every monitor under -race)
	// (only values that are plainly case counts: small numbers are bounds of
	// enumerations such as a maximal N and must not shrink)
	if r.scale > 0 && r.scale < 1 && n >= 200 {
		n = int(float64(n) * r.scale)
		if n < 100 {
			n = 100
		}
	}
	return n
}

// Gate declares classes that must each be hit at least once.
func (r *Run) Gate(names ...string) {
	r.mu.Lock()
	for _, n := range names {
		r.gates[n] = true
	}
	r.mu.Unlock()
}

func (r *Run) Rule(s string)       { r.rule = s }
func (r *Run) Assume(s ...string)  { r.assume = append(r.assume, s...) }
func (r *Run) Exhaustive(s string) { r.mu.Lock(); r.exhaust = append(r.exhaust, s); r.mu.Unlock() }
func (r *Run) Extra(k string, v any) {
	r.mu.Lock()
	r.extra[k] = v
	r.mu.Unlock()
}
func (r *Run) Inconclusive(why string) {
	r.mu.Lock()
	r.incon = append(r.incon, why)
	r.mu.Unlock()
}

func (r *Run) newW(class string) *W {
	w := &W{R: r, Class: class, evals: map[string]int64{}, classes: map[string]int64{},
		violKinds: map[string]int64{}, known: map[string]*knownAgg{}, errs: map[string]*errRec{}}
	r.wdMu.Lock()
	r.wdLive[w] = true
	r.wdMu.Unlock()
	return w
}

// watchdog bounds the run when one case never returns (a loop in the library
// that does not call back into the harness cannot be bounded in logical
// steps). Its firing is INCONCLUSIVE, never a violation; the limit is far
// above any legitimate case duration (VERIF_HANG_S overrides, default 1800 s).
func (r *Run) watchdog() {
	limit := 1800.0
	if v, err := strconv.ParseFloat(os.Getenv("VERIF_HANG_S"), 64); err == nil && v > 0 {
		limit = v
	}
	for {
		time.Sleep(5 * time.Second)
		now := time.Now().UnixNano()
		r.wdMu.Lock()
		for w := range r.wdLive {
			since := w.wdSince.Load()
			if since != 0 && float64(now-since)/1e9 > limit {
				fmt.Printf("INCONCLUSIVE property=%s case %s[%d] (seed %d, tier %s) has been in flight for more than %.0f s: a call that neither returns nor calls back into the harness cannot be decided by a monitor\n",
					r.Prop, w.Class, w.wdIndex.Load(), r.Seed, r.Tier, limit)
				os.Exit(Inconclusive)
			}
		}
		r.wdMu.Unlock()
	}
}

func (w *W) begin(i int) {
	w.Index = i
	w.wdIndex.Store(int64(i))
	w.wdSince.Store(time.Now().UnixNano())
	w.nontriv = false
	w.Rng = NewRand(w.R.Seed, HashStr(w.R.Prop), HashStr(w.Class), uint64(i))
}

// EnumRng gives a generator that does not depend on the seed (for the
// value maps used inside enumerated classes a seeded one is used instead:
// the enumeration itself never depends on the seed).
func (w *W) EnumRng() *Rand { return NewRand(HashStr(w.R.Prop), HashStr(w.Class), uint64(w.Index)) }

// Parallel runs fn for every index in [0,n) on the worker pool. The per-case
// generator w.Rng is a function of (seed, property, class, i) only.
func (r *Run) Parallel(class string, n int, fn func(w *W, i int)) {
	r.ParallelN(class, n, r.NW, fn)
}

func (r *Run) ParallelN(class string, n, nw int, fn func(w *W, i int)) {
	if n <= 0 {
		return
	}
	if nw > n {
		nw = n
	}
	var next int64
	chunk := int64(1)
	if n > nw*64 {
		chunk = int64(n / (nw * 64))
		if chunk > 4096 {
			chunk = 4096
		}
	}
	var wg sync.WaitGroup
	ws := make([]*W, nw)
	for k := 0; k < nw; k++ {
		w := r.newW(class)
		ws[k] = w
		wg.Add(1)
		go func() {
			defer wg.Done()
			defer w.wdSince.Store(0) // idle: nothing in flight
			for {
				lo := atomic.AddInt64(&next, chunk) - chunk
				if lo >= int64(n) {
					return
				}
				hi := lo + chunk
				if hi > int64(n) {
					hi = int64(n)
				}
				for i := lo; i < hi; i++ {
					w.begin(int(i))
					w.guard(func() { fn(w, int(i)) })
				}
			}
		}()
	}
	wg.Wait()
	for _, w := range ws {
		r.merge(w)
	}
}

// Serial runs fn for every index on the calling goroutine (used when a case
// changes package-level configuration of the library).
func (r *Run) Serial(class string, n int, fn func(w *W, i int)) {
	w := r.newW(class)
	for i := 0; i < n; i++ {
		w.begin(i)
		w.guard(func() { fn(w, i) })
	}
	w.wdSince.Store(0)
	r.merge(w)
}

// guard turns a panic that escapes a case (i.e. one the property code did
// not capture with Call) into a violation of kind "panic-escaped".
func (w *W) guard(fn func()) {
	defer func() {
		if e := recover(); e != nil {
			buf := make([]byte, 4096)
			buf = buf[:runtime.Stack(buf, false)]
			w.Violate("panic-escaped", fmt.Sprintf("%v\n%s", e, buf), map[string]any{"class": w.Class, "index": w.Index})
		}
	}()
	fn()
}

func (r *Run) merge(w *W) {
	r.wdMu.Lock()
	delete(r.wdLive, w)
	r.wdMu.Unlock()
	r.mu.Lock()
	defer r.mu.Unlock()
	for k, v := range w.evals {
		r.evals[k] += v
	}
	for k, v := range w.classes {
		r.classes[k] += v
	}
	for _, h := range w.distinct {
		r.distinct[h] = struct{}{}
	}
	r.nviol += w.nviol
	for k, v := range w.violKinds {
		r.violKinds[k] += v
	}
	r.viols = append(r.viols, w.viols...)
	for k, v := range w.known {
		a := r.known[k]
		if a == nil {
			r.known[k] = v
		} else {
			a.n += v.n
		}
	}
	for k, v := range w.errs {
		a := r.errs[k]
		if a == nil {
			r.errs[k] = v
		} else {
			a.N += v.N
			if v.Ratio > a.Ratio {
				n := a.N
				*a = *v
				a.N = n
			}
		}
	}
	for _, s := range w.samples {
		if len(r.samples) < 12 {
			r.samples = append(r.samples, s)
		}
	}
	r.ambiguous += w.ambiguous
}

// Eval counts one judged API call event of operation op.
func (w *W) Eval(op string)           { w.evals[op]++ }
func (w *W) EvalN(op string, n int64) { w.evals[op] += n }

// Hit counts a class hit; classes are defined on inputs and reference-side
// quantities only. A hit of any class marks the current case non-trivial.
func (w *W) Hit(class string) { w.classes[class]++; w.nontriv = true }

// HitIf is Hit under a condition.
func (w *W) HitIf(c bool, class string) {
	if c {
		w.Hit(class)
	}
}

// Note counts an informational class without marking the case non-trivial.
func (w *W) Note(class string) { w.classes[class]++ }

// Distinct records the hash of the current case if it is non-trivial.
func (w *W) Distinct(h uint64) {
	if w.nontriv {
		w.distinct = append(w.distinct, h)
	}
}

func (w *W) Ambiguous() { w.ambiguous++ }

// Sample keeps a few concrete events for the evidence file.
func (w *W) Sample(s any) {
	if len(w.samples) < 3 {
		w.samples = append(w.samples, s)
	}
}

// WantSample says whether another sample would be kept.
func (w *W) WantSample() bool { return len(w.samples) < 3 }

// Err records an observed error against its tolerance and reports whether it
// is within it. NaN error is out of tolerance.
func (w *W) Err(oracle string, err, tol float64) bool {
	ratio := err / tol
	if math.IsNaN(err) {
		ratio = math.Inf(1)
	}
	if err == 0 {
		ratio = 0
	}
	a := w.errs[oracle]
	if a == nil {
		a = &errRec{}
		w.errs[oracle] = a
	}
	a.N++
	// the margin statistic is kept over cases that are within tolerance:
	// it shows how close passing cases come to the limit
	if ratio > a.Ratio && ratio <= 1 {
		a.Ratio, a.Err, a.Tol = ratio, err, tol
		a.At = fmt.Sprintf("%s[%d]", w.Class, w.Index)
	}
	return ratio <= 1
}

const maxStored = 8

// Violate records a refuted case. c must be JSON-serialisable and hold what
// the property's Replay needs to re-execute the case.
func (w *W) Violate(kind, msg string, c any) {
	w.nviol++
	w.violKinds[kind]++
	if w.violKinds[kind] > maxStored {
		return
	}
	raw, err := json.Marshal(c)
	if err != nil {
		raw, _ = json.Marshal(fmt.Sprintf("%+v", c))
	}
	w.viols = append(w.viols, ViolationRec{Property: w.R.Prop, Class: w.Class, Index: w.Index,
		Kind: kind, Msg: msg, Seed: w.R.Seed, Tier: w.R.Tier, Case: raw})
}

// Known attributes a refuted case to a recorded finding. It is the caller's
// job to have verified the finding's signature (the wrong value observed is
// the value the recorded defect produces). If the id is not listed as an
// open finding in known_findings.json the case is an ordinary violation.
func (w *W) Known(id, kind, msg string, c any) {
	f, ok := w.R.findings[id]
	listed := false
	if ok && f.Status == "finding" {
		for _, p := range f.Properties {
			if p == w.R.Prop {
				listed = true
			}
		}
	}
	if !listed {
		w.Violate(kind, msg+" [signature of "+id+", which is not an open known finding]", c)
		return
	}
	a := w.known[id]
	if a == nil {
		a = &knownAgg{example: msg}
		w.known[id] = a
	}
	a.n++
}

// Call runs fn and captures a panic (M-panic).
func Call(fn func()) (panicked bool, val any) {
	defer func() {
		if e := recover(); e != nil {
			panicked, val = true, e
		}
	}()
	fn()
	return
}

// Hash helpers -------------------------------------------------------------

type Hasher uint64

func NewHasher() Hasher { return Hasher(14695981039346656037) }
func (h Hasher) U(x uint64) Hasher {
	for i := 0; i < 8; i++ {
		h ^= Hasher(x & 0xff)
		h *= 1099511628211
		x >>= 8
	}
	return h
}
func (h Hasher) B(x bool) Hasher {
	if x {
		return h.U(1)
	}
	return h.U(0)
}
func (h Hasher) I(x int) Hasher     { return h.U(uint64(x)) }
func (h Hasher) F(x float64) Hasher { return h.U(math.Float64bits(x)) }
func (h Hasher) S(s string) Hasher  { return h.U(HashStr(s)) }
func (h Hasher) Fs(xs []float64) Hasher {
	h = h.I(len(xs))
	for _, x := range xs {
		h = h.F(x)
	}
	return h
}
func (h Hasher) Is(xs []int) Hasher {
	h = h.I(len(xs))
	for _, x := range xs {
		h = h.I(x)
	}
	return h
}
func (h Hasher) Sum() uint64 { return uint64(h) }

// Finish ---------------------------------------------------------------------

type evidence struct {
	PropertyID  string         `json:"property_id"`
	Tier        string         `json:"tier"`
	Seed        uint64         `json:"seed"`
	Level       string         `json:"level"`
	Coverage    map[string]any `json:"coverage"`
	Assumptions []string       `json:"assumptions"`
	WallS       float64        `json:"wall_s"`
	Violations  int64          `json:"violations"`
	Verdict     string         `json:"verdict"`
}

// Finish decides the verdict, prints the protocol lines, writes replay files
// and the evidence file, and returns the exit status.
func (r *Run) Finish() int {
	r.mu.Lock()
	defer r.mu.Unlock()

	var total int64
	for _, v := range r.evals {
		total += v
	}
	// gating
	var missing []string
	for g := range r.gates {
		if r.classes[g] == 0 {
			missing = append(missing, g)
		}
	}
	sort.Strings(missing)
	if !r.replaying {
		for _, g := range missing {
			r.incon = append(r.incon, "gating class never hit: "+g)
		}
		if total == 0 {
			r.incon = append(r.incon, "no events observed")
		}
	}

	// known findings
	var kids []string
	for k := range r.known {
		kids = append(kids, k)
	}
	sort.Strings(kids)
	knownOut := map[string]any{}
	for _, k := range kids {
		a := r.known[k]
		f := r.findings[k]
		what := f.Short
		if what == "" {
			what = f.What
		}
		fmt.Printf("KNOWN-FINDING: property=%s %s %s (%d cases, e.g. %s)\n", r.Prop, k, what, a.n, oneLine(a.example))
		knownOut[k] = map[string]any{"cases": a.n, "example": a.example}
	}

	// violations -> replay files
	sort.SliceStable(r.viols, func(i, j int) bool {
		a, b := r.viols[i], r.viols[j]
		if a.Kind != b.Kind {
			return a.Kind < b.Kind
		}
		if a.Class != b.Class {
			return a.Class < b.Class
		}
		return a.Index < b.Index
	})
	if r.nviol > 0 && !r.replaying {
		dir := filepath.Join(r.Dir, "replays", r.Prop)
		os.MkdirAll(dir, 0o755)
		perKind := map[string]int{}
		for _, v := range r.viols {
			perKind[v.Kind]++
			if perKind[v.Kind] > maxStored {
				continue
			}
			name := fmt.Sprintf("%s-%s-%d-s%d-%d.json", sanitize(v.Kind), sanitize(v.Class), v.Index, r.Seed, perKind[v.Kind])
			p := filepath.Join(dir, name)
			b, _ := json.MarshalIndent(v, "", " ")
			os.WriteFile(p, b, 0o644)
			fmt.Printf("VIOLATION property=%s replay=%s\n", r.Prop, p)
			fmt.Printf("  kind=%s class=%s index=%d: %s\n", v.Kind, v.Class, v.Index, oneLine(v.Msg))
		}
		for k, n := range r.violKinds {
			fmt.Printf("  total violations of kind %s: %d\n", k, n)
		}
	}

	verdict, code := "held", Held
	if len(r.incon) > 0 {
		verdict, code = "inconclusive", Inconclusive
	}
	if r.nviol > 0 {
		verdict, code = "violated", Violated
	}

	if r.replaying {
		return code
	}

	cov := map[string]any{
		"evaluations":         total,
		"distinct_nontrivial": len(r.distinct),
		"rule":                r.rule,
		"samples":             r.samples,
		"events_per_op":       r.evals,
		"class_hits":          r.classes,
		"gating_classes":      keys(r.gates),
		"ambiguous":           r.ambiguous,
		"oracle_error_margin": r.errs,
	}
	if len(r.samples) == 0 {
		cov["samples"] = []any{"no sample recorded"}
	}
	if len(r.exhaust) > 0 {
		cov["exhaustive"] = true
		cov["exhaustive_subspaces"] = r.exhaust
	}
	if len(knownOut) > 0 {
		cov["known_findings_matched"] = knownOut
	}
	if len(r.incon) > 0 {
		cov["inconclusive_reason"] = r.incon
	}
	if r.nviol > 0 {
		cov["violation_kinds"] = r.violKinds
	}
	for k, v := range r.extra {
		cov[k] = v
	}
	ev := evidence{PropertyID: r.Prop, Tier: r.Tier, Seed: r.Seed, Level: "exploration",
		Coverage: cov, Assumptions: r.assume, WallS: time.Since(r.start).Seconds(),
		Violations: r.nviol, Verdict: verdict}
	if ev.Assumptions == nil {
		ev.Assumptions = []string{}
	}
	b, err := json.MarshalIndent(ev, "", " ")
	if err != nil {
		fmt.Println("evidence marshal error:", err)
		return Inconclusive
	}
	evdir := os.Getenv("VERIF_EVIDENCE_DIR") // set only by self-validation runs against a scratch copy
	if evdir == "" {
		evdir = filepath.Join(r.Dir, "evidence")
	}
	os.MkdirAll(evdir, 0o755)
	os.WriteFile(filepath.Join(evdir, r.Prop+".json"), b, 0o644)

	for _, s := range r.incon {
		fmt.Printf("INCONCLUSIVE property=%s %s\n", r.Prop, s)
	}
	fmt.Printf("RESULT property=%s tier=%s seed=%d verdict=%s events=%d distinct_nontrivial=%d ambiguous=%d wall=%.1fs\n",
		r.Prop, r.Tier, r.Seed, verdict, total, len(r.distinct), r.ambiguous, time.Since(r.start).Seconds())
	return code
}

func keys(m map[string]bool) []string {
	var out []string
	for k := range m {
		out = append(out, k)
	}
	sort.Strings(out)
	return out
}

func oneLine(s string) string {
	s = strings.ReplaceAll(s, "\n", " | ")
	if len(s) > 400 {
		s = s[:400] + "…"
	}
	return s
}

func sanitize(s string) string {
	var b strings.Builder
	for _, c := range s {
		if c >= 'a' && c <= 'z' || c >= 'A' && c <= 'Z' || c >= '0' && c <= '9' || c == '-' || c == '_' {
			b.WriteRune(c)
		} else {
			b.WriteByte('_')
		}
	}
	return b.String()
}

// Replay --------------------------------------------------------------------

// LoadReplay reads a replay file.
func LoadReplay(path string) (*ViolationRec, error) {
	b, err := os.ReadFile(path)
	if err != nil {
		return nil, err
	}
	var v ViolationRec
	if err := json.Unmarshal(b, &v); err != nil {
		return nil, err
	}
	return &v, nil
}

// ReplayW prepares a recorder positioned on the recorded case.
func (r *Run) ReplayW(v *ViolationRec) *W {
	r.replaying = true
	w := r.newW(v.Class)
	w.begin(v.Index)
	return w
}

// MergeReplay folds the replay recorder back.
func (r *Run) MergeReplay(w *W) {
	r.merge(w)
	for _, v := range w.viols {
		fmt.Printf("VIOLATION property=%s replay=(replayed) kind=%s: %s\n", r.Prop, v.Kind, oneLine(v.Msg))
	}
	if w.nviol == 0 {
		fmt.Printf("REPLAY property=%s: case no longer violates\n", r.Prop)
	}
}

// Prop registry ---------------------------------------------------------------

type Prop struct {
	ID string
	// Run executes the whole workload.
	Run func(r *Run)
	// Replay re-judges one recorded case.
	Replay func(w *W, v *ViolationRec)
}

var Registry = map[string]*Prop{}

func Register(p *Prop) { Registry[p.ID] = p }
