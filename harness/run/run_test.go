package run

import (
	"fmt"
	"os"
	"strconv"
	"testing"

	"verifmon/mon"
	_ "verifmon/props"
)

var exitCode = mon.Inconclusive

func TestMain(m *testing.M) {
	c := m.Run()
	if c != 0 && exitCode == mon.Held {
		exitCode = mon.Inconclusive
	}
	os.Exit(exitCode)
}

// TestMonitor dispatches on VERIF_PROP / VERIF_TIER / VERIF_SEED /
// VERIF_REPLAY. It is a test only because test binaries are the route by
// which coverage counters of the library are emitted offline.
func TestMonitor(t *testing.T) {
	prop := os.Getenv("VERIF_PROP")
	if prop == "" {
		exitCode = mon.Held
		t.Skip("VERIF_PROP not set")
	}
	dir := os.Getenv("VERIF_DIR")
	if dir == "" {
		dir = "/verif"
	}
	tier := os.Getenv("VERIF_TIER")
	if tier != "thorough" {
		tier = "quick"
	}
	seed, _ := strconv.ParseUint(os.Getenv("VERIF_SEED"), 10, 64)
	p := mon.Registry[prop]
	if p == nil {
		fmt.Printf("INCONCLUSIVE property=%s unknown property\n", prop)
		exitCode = mon.Inconclusive
		return
	}
	if rp := os.Getenv("VERIF_REPLAY"); rp != "" {
		v, err := mon.LoadReplay(rp)
		if err != nil {
			fmt.Printf("INCONCLUSIVE property=%s cannot read replay: %v\n", prop, err)
			return
		}
		r := mon.NewRun(prop, v.Tier, v.Seed, dir)
		w := r.ReplayW(v)
		p.Replay(w, v)
		r.MergeReplay(w)
		exitCode = r.Finish()
		return
	}
	r := mon.NewRun(prop, tier, seed, dir)
	p.Run(r)
	exitCode = r.Finish()
}
