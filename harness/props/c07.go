package props

import (
	"encoding/json"
	"fmt"
	"math"
	"math/rand"
	"sort"

	"github.com/aclements/go-moremath/stats"

	"verifmon/mon"
)

// C07 — Generic InvCDF returns the smallest x with CDF(x)>=y; Rand samples the dist.

type c07Case struct {
	Kind string `json:"kind"` // user, t, binom, hyperg, udist, kde, dispatch, rand
	// user-defined piecewise CDF: break points Xs, left limits L and values V
	// at the break points (L[0] = 0 implied before Xs[0], V[last] = 1)
	Xs      []float64 `json:"xs,omitempty"`
	L       []float64 `json:"l,omitempty"`
	V       []float64 `json:"v,omitempty"`
	BoundIn bool      `json:"bounds_inside,omitempty"`
	Params  []float64 `json:"params,omitempty"`
	Ys      []mon.F   `json:"ys,omitempty"`
	Seed    uint64    `json:"seed,omitempty"`
	Draws   int       `json:"draws,omitempty"`
	// KDE only: sample weights and boundaries (0,0 = unbounded)
	Ws  []float64 `json:"ws,omitempty"`
	Bnd []mon.F   `json:"bnd,omitempty"`
	// user-defined DiscreteDist: lattice step (Xs are lattice points)
	Step float64 `json:"step,omitempty"`
	// Kind "large": a user-defined distribution with N break / lattice points
	// that is rebuilt from (N, Shape, Step, Params[0] = lower end, Seed) by
	// c07Expand, so that a record stays small. Shape 0: DiscreteDist on a
	// lattice, equal masses; 1: DiscreteDist, random masses (a quarter of the
	// points without mass); 2: the same step CDF as 1 but without PMF/Step
	// methods; 3: mixed ramps, jumps and flats.
	N     int `json:"n,omitempty"`
	Shape int `json:"shape,omitempty"`
	// Law: a built-in discrete distribution with a large support is judged by
	// the two-point law CDF(x) >= y > CDF(x-step) at the lattice point x
	// instead of a scan of the whole lattice
	Law bool `json:"law,omitempty"`
}

func init() {
	mon.Register(&mon.Prop{ID: "C07", Run: c07Run, Replay: func(w *mon.W, v *mon.ViolationRec) {
		var c c07Case
		if json.Unmarshal(v.Case, &c) == nil {
			c07Judge(w, c)
		}
	}})
}

const c07StepBudget = 5000

type stepSentinel struct{}

// pwDist is a user-defined piecewise-linear CDF with jumps and flats. It has
// no InvCDF or Rand method, so the generic algorithms are used.
type pwDist struct {
	xs, l, v []float64
	boundIn  bool
	calls    *int
}

func (d pwDist) CDF(x float64) float64 {
	if d.calls != nil {
		*d.calls++
		if *d.calls > c07StepBudget {
			panic(stepSentinel{})
		}
	}
	n := len(d.xs)
	if math.IsNaN(x) {
		return math.NaN()
	}
	if x < d.xs[0] {
		return 0
	}
	if x >= d.xs[n-1] {
		return 1
	}
	i := sort.SearchFloat64s(d.xs, x) // first xs[i] >= x
	if i < n && d.xs[i] == x {
		return d.v[i]
	}
	i-- // xs[i] < x < xs[i+1]
	w := d.xs[i+1] - d.xs[i]
	f := d.v[i] + (x-d.xs[i])/w*(d.l[i+1]-d.v[i])
	if f > d.l[i+1] {
		f = d.l[i+1]
	}
	if f < d.v[i] {
		f = d.v[i]
	}
	return f
}

func (d pwDist) Bounds() (float64, float64) {
	n := len(d.xs)
	if d.boundIn {
		return d.xs[0], d.xs[n-1] - (d.xs[n-1]-d.xs[0])/4
	}
	return d.xs[0] - 1, d.xs[n-1] + 1
}

// cdfLeft is the left limit F(x-).
func (d pwDist) cdfLeft(x float64) float64 {
	i := sort.SearchFloat64s(d.xs, x)
	if i < len(d.xs) && d.xs[i] == x {
		return d.l[i]
	}
	return pwDist{d.xs, d.l, d.v, d.boundIn, nil}.CDF(x)
}

// inverse is the analytic generalized inverse for 0<y<1.
func (d pwDist) inverse(y float64) float64 {
	n := len(d.xs)
	if y <= d.v[0] {
		return d.xs[0]
	}
	for i := 0; i+1 < n; i++ {
		if y <= d.l[i+1] {
			// on the ramp (y > v[i] here)
			return d.xs[i] + (y-d.v[i])/(d.l[i+1]-d.v[i])*(d.xs[i+1]-d.xs[i])
		}
		if y <= d.v[i+1] {
			return d.xs[i+1]
		}
	}
	return d.xs[n-1]
}

// pwLattice is a user-defined DiscreteDist: a pure step CDF on the lattice
// lo + i*step, with PMF and Step methods (so that any path the generic
// inverse selects for discrete distributions is executed on lattices other
// than the built-in ones: steps such as 0.1, 3 or 1e-3, offset lower ends).
type pwLattice struct {
	pwDist
	lo, step float64
	// inexact: Bounds are "reasonable" only (as the interface allows for a
	// distribution with a long tail): the top end is the first lattice point
	// holding 99.9% of the mass, the points above it lie outside
	inexact bool
}

func (d pwLattice) Step() float64 { return d.step }
func (d pwLattice) PMF(x float64) float64 {
	// the mass at the lattice point at or below x
	i := sort.SearchFloat64s(d.xs, x)
	if i < len(d.xs) && d.xs[i] == x {
		return d.v[i] - d.l[i]
	}
	if i == 0 {
		return 0
	}
	return d.v[i-1] - d.l[i-1]
}
func (d pwLattice) Bounds() (float64, float64) {
	if d.inexact {
		for i, v := range d.v {
			if v >= 0.999 && i < len(d.xs)-1 {
				return d.xs[0], d.xs[i]
			}
		}
	}
	return d.xs[0], d.xs[len(d.xs)-1]
}

// countingDist wraps a built-in distribution to count CDF calls (M-step)
// while hiding any InvCDF/Rand method of the wrapped value.
type countingDist struct {
	d     stats.DistCommon
	calls *int
}

func (c countingDist) CDF(x float64) float64 {
	*c.calls++
	if *c.calls > c07StepBudget {
		panic(stepSentinel{})
	}
	return c.d.CDF(x)
}
func (c countingDist) Bounds() (float64, float64) { return c.d.Bounds() }

// sentinelDist provides its own InvCDF and Rand; the generic functions must
// return exactly these methods.
type sentinelDist struct {
	inv, rnd *int
}

func (s sentinelDist) CDF(x float64) float64 {
	panic("CDF of a distribution with its own InvCDF must not be needed")
}
func (s sentinelDist) Bounds() (float64, float64) { return -1, 1 }
func (s sentinelDist) InvCDF(y float64) float64   { *s.inv++; return 1234.5 + y }
func (s sentinelDist) Rand(r *rand.Rand) float64  { *s.rnd++; return -4321.5 }

func c07Builtin(c c07Case) (stats.DistCommon, float64, string, bool) {
	p := c.Params
	switch c.Kind {
	case "t":
		return stats.TDist{V: p[0]}, 1, fmt.Sprintf("TDist{%g}", p[0]), false
	case "binom":
		return stats.BinomialDist{N: int(p[0]), P: p[1]}, 1, fmt.Sprintf("BinomialDist{%d,%g}", int(p[0]), p[1]), true
	case "hyperg":
		return stats.HypergeometicDist{N: int(p[0]), K: int(p[1]), Draws: int(p[2])}, 1, fmt.Sprintf("HypergeometicDist{%d,%d,%d}", int(p[0]), int(p[1]), int(p[2])), true
	case "udist":
		var T []int
		for _, t := range p[2:] {
			T = append(T, int(t))
		}
		return stats.UDist{N1: int(p[0]), N2: int(p[1]), T: T}, 1, fmt.Sprintf("UDist{%d,%d,%v}", int(p[0]), int(p[1]), T), true
	case "kde":
		k := &stats.KDE{Sample: stats.Sample{Xs: append([]float64(nil), c.Xs...)}, Kernel: stats.KDEKernel(int(p[0])), Bandwidth: p[1]}
		if len(c.Ws) == len(c.Xs) {
			k.Sample.Weights = append([]float64(nil), c.Ws...)
		}
		if len(c.Bnd) == 2 {
			k.BoundaryMin, k.BoundaryMax = float64(c.Bnd[0]), float64(c.Bnd[1])
		}
		lo, hi := stats.Bounds(c.Xs)
		return k, math.Max(hi-lo, p[1]), fmt.Sprintf("KDE{n=%d,kernel=%d,h=%g,weights=%v,bounds=%v}", len(c.Xs), int(p[0]), p[1], c.Ws, c.Bnd), false
	}
	return nil, 0, "", false
}

func c07Judge(w *mon.W, c c07Case) {
	switch c.Kind {
	case "user":
		c07User(w, c, c, "")
	case "large":
		c07Large(w, c)
	case "dispatch":
		c07Dispatch(w, c)
	case "rand":
		c07Rand(w, c)
	default:
		c07BuiltinInv(w, c)
	}
}

// c07User judges the case c; rec is the case written to a violation record
// (c itself, or the compact description c was expanded from) and short, if
// not empty, names the distribution instead of the full list of its points.
func c07User(w *mon.W, c, rec c07Case, short string) {
	calls := 0
	d := pwDist{c.Xs, c.L, c.V, c.BoundIn, &calls}
	var inv func(float64) float64
	var dist stats.DistCommon = d // the value the library is given
	name := short
	if name == "" {
		name = fmt.Sprintf("piecewise CDF xs=%v l=%v v=%v", c.Xs, c.L, c.V)
	}
	if c.Step > 0 {
		w.Hit("user-defined-DiscreteDist")
		if short == "" {
			name = fmt.Sprintf("user-defined discrete distribution on %g+i*%g: points %v, CDF values %v", c.Xs[0], c.Step, c.Xs, c.V)
		}
		dist = pwLattice{d, c.Xs[0], c.Step, c.BoundIn}
		if _, h := dist.Bounds(); c.BoundIn && h < c.Xs[len(c.Xs)-1] {
			w.Hit("lattice-Bounds-inside-the-support")
		}
		if p, e := mon.Call(func() { inv = stats.InvCDF(dist) }); p {
			w.Violate("panic", fmt.Sprintf("%s: InvCDF panicked: %v", name, e), rec)
			return
		}
	} else {
		inv = stats.InvCDF(d)
	}
	type pt struct{ y, x float64 }
	var pts []pt
	for _, yf := range c.Ys {
		y := float64(yf)
		one := rec
		one.Ys = []mon.F{yf}
		calls = 0
		var x float64
		w.Eval("InvCDF(user)")
		if p, e := mon.Call(func() { x = inv(y) }); p {
			if _, ok := e.(stepSentinel); ok {
				w.Violate("step-budget", fmt.Sprintf("%s: inversion at y=%g made more than %d CDF calls", name, y, c07StepBudget), one)
			} else {
				w.Violate("panic", fmt.Sprintf("%s: InvCDF(%g) panicked: %v", name, y, e), one)
			}
			continue
		}
		switch {
		case math.IsNaN(y) || y < 0 || y > 1:
			w.Hit("y-outside")
			if !math.IsNaN(x) {
				w.Violate("NaN-rule", fmt.Sprintf("%s: InvCDF(%g)=%g, want NaN", name, y, x), one)
			}
		case y == 0:
			lo, _ := dist.Bounds()
			want := math.Inf(-1)
			if d.CDF(lo) == 0 {
				want = lo
				w.Hit("y=0-bounds-endpoint")
			} else {
				w.Hit("y=0-minus-inf")
			}
			if x != want {
				w.Violate("y=0", fmt.Sprintf("%s: InvCDF(0)=%g, want %g", name, x, want), one)
			}
		case y == 1:
			_, hi := dist.Bounds()
			want := math.Inf(1)
			if d.CDF(hi) == 1 {
				want = hi
				w.Hit("y=1-bounds-endpoint")
			} else {
				w.Hit("y=1-plus-inf")
			}
			if x != want {
				w.Violate("y=1", fmt.Sprintf("%s: InvCDF(1)=%g, want %g", name, x, want), one)
			}
		default:
			want := d.inverse(y)
			tol := 1e-9 * math.Max(math.Abs(want), 1e-3)
			for i := range c.V {
				if y == c.V[i] || y == c.L[i] {
					w.Hit("y-at-jump-or-kink-level")
				}
			}
			w.HitIf(want > 1e5, "centre>1e5")
			w.HitIf(want < -1e5, "centre<-1e5")
			if !w.Err("user-inverse", math.Abs(x-want), tol) {
				w.Violate("inverse", fmt.Sprintf("%s: InvCDF(%.17g)=%.17g, smallest x with CDF(x)>=y is %.17g", name, y, x, want), one)
			}
			pts = append(pts, pt{y, x})
			if w.WantSample() && short != "" {
				w.Sample(map[string]any{"dist": short, "y": y, "x": x, "x_ref": want, "cdf_calls": calls})
			} else if w.WantSample() {
				w.Sample(map[string]any{"cdf_breaks": c.Xs, "left_limits": c.L, "values": c.V, "y": y, "x": x, "x_ref": want, "cdf_calls": calls})
			}
		}
	}
	sort.Slice(pts, func(i, j int) bool { return pts[i].y < pts[j].y })
	for i := 1; i < len(pts); i++ {
		if pts[i].x < pts[i-1].x-1e-9*math.Max(math.Abs(pts[i].x), 1e-3) {
			w.Violate("monotone", fmt.Sprintf("%s: InvCDF(%g)=%g > InvCDF(%g)=%g", name, pts[i-1].y, pts[i-1].x, pts[i].y, pts[i].x), rec)
		}
	}
}

func c07BuiltinInv(w *mon.W, c c07Case) {
	base, scale, name, discrete := c07Builtin(c)
	if base == nil {
		return
	}
	w.HitIf(discrete, "discrete-builtin")
	w.Hit("builtin-" + c.Kind)
	if c.Kind == "kde" {
		w.HitIf(len(c.Ws) > 0, "kde-weighted")
		w.HitIf(len(c.Bnd) == 2, "kde-bounded")
		w.HitIf(int(c.Params[0]) == 2, "kde-delta-kernel")
	}
	// Once through a wrapper that exposes only CDF and Bounds (and counts the
	// CDF calls), once on the value itself, so that any path the generic
	// function selects by the methods of the argument (PMF/Step, PDF) is
	// executed as well.
	calls := 0
	c07BuiltinInvVia(w, c, base, scale, name, discrete, stats.InvCDF(countingDist{base, &calls}), &calls, "")
	var direct func(float64) float64
	if p, e := mon.Call(func() { direct = stats.InvCDF(base) }); p {
		w.Violate("panic", fmt.Sprintf("%s: InvCDF panicked: %v", name, e), c)
		return
	}
	w.Hit("unwrapped-builtin")
	c07BuiltinInvVia(w, c, base, scale, name+" (passed directly)", discrete, direct, &calls, "-direct")
}

func c07BuiltinInvVia(w *mon.W, c c07Case, base stats.DistCommon, scale float64, name string, discrete bool, inv func(float64) float64, callsp *int, tag string) {
	type pt struct{ y, x float64 }
	var pts []pt
	for _, yf := range c.Ys {
		y := float64(yf)
		one := c
		one.Ys = []mon.F{yf}
		*callsp = 0
		var x float64
		w.Eval("InvCDF(" + c.Kind + tag + ")")
		if p, e := mon.Call(func() { x = inv(y) }); p {
			if _, ok := e.(stepSentinel); ok {
				w.Violate("step-budget", fmt.Sprintf("%s: inversion at y=%g made more than %d CDF calls", name, y, c07StepBudget), one)
			} else {
				w.Violate("panic", fmt.Sprintf("%s: InvCDF(%g) panicked: %v", name, y, e), one)
			}
			continue
		}
		switch {
		case y < 0 || y > 1:
			if !math.IsNaN(x) {
				w.Violate("NaN-rule", fmt.Sprintf("%s: InvCDF(%g)=%g, want NaN", name, y, x), one)
			}
		case y == 0 || y == 1:
			lo, hi := base.Bounds()
			want := math.Inf(-1)
			if y == 0 && base.CDF(lo) == 0 {
				want = lo
			}
			if y == 1 {
				want = math.Inf(1)
				if base.CDF(hi) == 1 {
					want = hi
				}
			}
			if x != want {
				w.Violate("endpoint", fmt.Sprintf("%s: InvCDF(%g)=%g, want %g", name, y, x, want), one)
			}
		default:
			if discrete && c.Law {
				// Large support: the answer must be (within the tolerance) a
				// lattice point k with CDF(k) >= y > CDF(k-step). Either
				// inequality failing refutes "the smallest x with CDF(x)>=y"
				// outright; both holding pin k down when the CDF is
				// non-decreasing, and any search that keeps the invariant
				// "CDF<y below, CDF>=y at" ends there even where the
				// library's own CDF carries rounding noise.
				lo, hi := base.Bounds()
				step := 1.0
				if c.Kind == "udist" {
					step = 0.5
				}
				k := lo + math.Round((x-lo)/step)*step
				if math.IsNaN(x) || k < lo || k > hi || !w.Err("discrete-lattice-point", math.Abs(x-k), 1e-9*math.Max(math.Abs(k), 1)) {
					w.Violate("inverse", fmt.Sprintf("%s: InvCDF(%.17g)=%.17g is not a point of the support %g..%g (step %g)", name, y, x, lo, hi, step), one)
					continue
				}
				w.Hit("large-support-two-point-law")
				at, below := base.CDF(k), base.CDF(k-step)
				if !(at >= y) {
					w.Violate("inverse-low", fmt.Sprintf("%s: InvCDF(%.17g)=%.17g but CDF(%g)=%.17g < y", name, y, x, k, at), one)
				}
				if below >= y {
					w.Violate("inverse-high", fmt.Sprintf("%s: InvCDF(%.17g)=%.17g but CDF(%g)=%.17g already reaches y: not the smallest x", name, y, x, k-step, below), one)
				}
				x = k
			} else if discrete {
				// the smallest lattice point with CDF >= y, by scanning the lattice
				lo, hi := base.Bounds()
				step := 1.0
				if c.Kind == "udist" {
					step = 0.5
				}
				want := math.NaN()
				for k := lo; k <= hi; k += step {
					if base.CDF(k) >= y {
						want = k
						break
					}
				}
				if math.IsNaN(want) {
					w.Ambiguous() // CDF never reaches y on the lattice (rounding at the top)
					continue
				}
				if !w.Err("discrete-inverse", math.Abs(x-want), 1e-9*math.Max(math.Abs(want), 1)) {
					w.Violate("inverse", fmt.Sprintf("%s: InvCDF(%.17g)=%.17g, smallest x with CDF(x)>=y is %g", name, y, x, want), one)
				}
			} else if math.IsInf(x, 0) {
				// an infinite answer for 0<y<1 is right only if the CDF
				// reaches (does not reach) y beyond the whole finite range
				w.Hit("infinite-answer-judged")
				edge := base.CDF(math.Copysign(math.MaxFloat64, x))
				if (x < 0 && !(edge >= y)) || (x > 0 && !(edge < y)) {
					w.Violate("inverse-infinite", fmt.Sprintf("%s: InvCDF(%.17g)=%v although CDF(%v)=%.17g", name, y, x, math.Copysign(math.MaxFloat64, x), edge), one)
				}
				continue
			} else {
				delta := 1e-9 * math.Max(math.Abs(x), scale)
				noise := 1e-10 * y
				if c.Kind == "kde" {
					// kernel CDF averages carry absolute rounding noise (and are
					// not monotone at that level); reflected ones are differences
					noise += 1e-14
					if len(c.Bnd) == 2 {
						noise += 1e-13
					}
					if int(c.Params[0]) == 2 {
						// the delta kernel's CDF is a sum of non-negative
						// weights over the samples <= x: an exactly monotone
						// step function, judged without any noise margin
						noise = 0
					}
				}
				up, down := base.CDF(x+delta), base.CDF(x-delta)
				if math.IsNaN(x) || up < y-noise {
					w.Violate("inverse-low", fmt.Sprintf("%s: InvCDF(%.17g)=%.17g but CDF just above it is %.17g < y", name, y, x, up), one)
				}
				if down >= y+noise {
					w.Violate("inverse-high", fmt.Sprintf("%s: InvCDF(%.17g)=%.17g but CDF(x-1e-9)=%.17g already reaches y: not the smallest x", name, y, x, down), one)
				}
			}
			pts = append(pts, pt{y, x})
			if w.WantSample() {
				w.Sample(map[string]any{"dist": name, "y": y, "x": x, "cdf_calls": *callsp})
			}
		}
	}
	sort.Slice(pts, func(i, j int) bool { return pts[i].y < pts[j].y })
	for i := 1; i < len(pts); i++ {
		if pts[i].x < pts[i-1].x-1e-9*math.Max(math.Abs(pts[i].x), scale) {
			w.Violate("monotone", fmt.Sprintf("%s: InvCDF(%g)=%g > InvCDF(%g)=%g", name, pts[i-1].y, pts[i-1].x, pts[i].y, pts[i].x), c)
		}
	}
}

func c07Dispatch(w *mon.W, c c07Case) {
	var ni, nr int
	s := sentinelDist{&ni, &nr}
	w.Hit("dispatch")
	w.Eval("InvCDF(own method)")
	var f func(float64) float64
	var g func(*rand.Rand) float64
	if p, e := mon.Call(func() { f = stats.InvCDF(s); g = stats.Rand(s) }); p {
		w.Violate("dispatch", fmt.Sprintf("InvCDF/Rand on a distribution with its own methods panicked: %v", e), c)
		return
	}
	for _, yf := range c.Ys {
		y := float64(yf)
		before := ni
		var x float64
		if p, e := mon.Call(func() { x = f(y) }); p {
			w.Violate("dispatch", fmt.Sprintf("InvCDF(own method)(%g) panicked: %v", y, e), c)
			return
		}
		if x != 1234.5+y || ni != before+1 {
			w.Violate("dispatch", fmt.Sprintf("InvCDF of a distribution with its own quantile method returned %g for y=%g (method calls %d), want the method's %g", x, y, ni-before, 1234.5+y), c)
		}
	}
	w.Eval("Rand(own method)")
	r := rand.New(rand.NewSource(int64(c.Seed)))
	if x := g(r); x != -4321.5 || nr != 1 {
		w.Violate("dispatch", fmt.Sprintf("Rand of a distribution with its own Rand method returned %g (method calls %d)", x, nr), c)
	}
	// NormalDist and DeltaDist: bit-identical to their own methods
	n := stats.NormalDist{Mu: c.Params[0], Sigma: c.Params[1]}
	dl := stats.DeltaDist{T: c.Params[0]}
	fn, fd := stats.InvCDF(n), stats.InvCDF(dl)
	for _, yf := range c.Ys {
		y := float64(yf)
		w.Eval("InvCDF(NormalDist)")
		if a, b := fn(y), n.InvCDF(y); math.Float64bits(a) != math.Float64bits(b) && !(math.IsNaN(a) && math.IsNaN(b)) {
			w.Violate("dispatch-normal", fmt.Sprintf("InvCDF(NormalDist{%g,%g})(%g)=%g but the method gives %g", n.Mu, n.Sigma, y, a, b), c)
		}
		if a, b := fd(y), dl.InvCDF(y); math.Float64bits(a) != math.Float64bits(b) && !(math.IsNaN(a) && math.IsNaN(b)) {
			w.Violate("dispatch-delta", fmt.Sprintf("InvCDF(DeltaDist{%g})(%g)=%g but the method gives %g", dl.T, y, a, b), c)
		}
	}
	r1, r2 := rand.New(rand.NewSource(int64(c.Seed))), rand.New(rand.NewSource(int64(c.Seed)))
	gn := stats.Rand(n)
	for i := 0; i < 5; i++ {
		if a, b := gn(r1), n.Rand(r2); a != b {
			w.Violate("dispatch-normal-rand", fmt.Sprintf("Rand(NormalDist) draw %g differs from the method's %g on identically seeded sources", a, b), c)
		}
	}
}

// zeroFirst is a rand.Source that emits 0 first (Float64() == 0), then defers
// to a seeded source.
type zeroFirst struct {
	n   int
	src rand.Source
}

func (z *zeroFirst) Int63() int64 {
	z.n++
	if z.n == 1 {
		return 0
	}
	return z.src.Int63()
}
func (z *zeroFirst) Seed(int64) {}

func c07Rand(w *mon.W, c c07Case) {
	var base stats.DistCommon
	var name string
	var left func(float64) float64 // the left limit F(v-)
	if len(c.V) > 0 {
		pw := pwDist{c.Xs, c.L, c.V, c.BoundIn, nil}
		base, left = pw, pw.cdfLeft
		name = fmt.Sprintf("piecewise CDF xs=%v l=%v v=%v", c.Xs, c.L, c.V)
		if c.Step > 0 {
			base = pwLattice{pwDist{c.Xs, c.L, c.V, false, nil}, c.Xs[0], c.Step, c.BoundIn}
			name = fmt.Sprintf("user-defined discrete distribution on %g+i*%g: points %v, CDF values %v", c.Xs[0], c.Step, c.Xs, c.V)
			w.Hit("rand-user-defined-DiscreteDist")
		}
		w.Hit("rand-user")
	} else {
		cc := c
		cc.Kind = []string{"t", "binom", "hyperg", "udist", "kde"}[int(c.Params[len(c.Params)-1])]
		cc.Params = c.Params[:len(c.Params)-1]
		var disc bool
		base, _, name, disc = c07Builtin(cc)
		left = base.CDF
		if disc { // lattice of step 1 (0.5 for UDist): the left limit is the value a quarter step below
			left = func(v float64) float64 { return base.CDF(v - 0.25) }
		}
		w.Hit("rand-builtin")
		w.HitIf(cc.Kind == "kde" && len(c.Ws) > 0, "rand-kde-weighted")
	}
	N := c.Draws
	gen := stats.Rand(base)
	draw := func(gen func(*rand.Rand) float64) []float64 {
		r := rand.New(rand.NewSource(int64(c.Seed)))
		out := make([]float64, N)
		for i := range out {
			out[i] = gen(r)
		}
		return out
	}
	var a, b []float64
	w.EvalN("Rand", int64(2*N))
	if p, e := mon.Call(func() { a = draw(gen) }); p {
		w.Violate("panic", fmt.Sprintf("%s: Rand panicked: %v", name, e), c)
		return
	}
	// the second run uses a generator obtained afresh from Rand(dist): the
	// draws are a function of the distribution and the source, not of
	// anything fixed when a particular generator was built
	if p, e := mon.Call(func() { b = draw(stats.Rand(base)) }); p {
		w.Violate("panic", fmt.Sprintf("%s: Rand panicked: %v", name, e), c)
		return
	}
	for i := range a {
		if math.Float64bits(a[i]) != math.Float64bits(b[i]) {
			w.Violate("rand-deterministic", fmt.Sprintf("%s: draw %d differs between identically seeded sources: %g vs %g", name, i, a[i], b[i]), c)
			return
		}
	}
	sort.Float64s(a)
	ks := 0.0
	for i := 0; i < N; {
		j := i
		for j < N && a[j] == a[i] {
			j++
		}
		v := a[i]
		// The draws are quantiles known only to within 1e-9 relative, so the
		// comparison allows that much horizontal slack (a Levy-type band):
		// F_n(v) <= F(v+d) + eps and F_n(v-) >= F((v-d)-) - eps.
		d := 1e-9 * math.Max(math.Abs(v), 1e-3)
		ks = math.Max(ks, float64(j)/float64(N)-base.CDF(v+d))
		ks = math.Max(ks, left(v-d)-float64(i)/float64(N))
		i = j
	}
	eps := math.Sqrt(math.Log(2/1e-9) / (2 * float64(N)))
	if !w.Err("rand-KS", ks, eps) {
		w.Violate("rand-KS", fmt.Sprintf("%s: KS distance %g over %d draws exceeds the DKW bound %g (alpha=1e-9)", name, ks, N, eps), c)
	}
	// a source whose first Float64 is exactly 0 must not yield a draw of probability zero
	w.Hit("scripted-zero-draw")
	w.Eval("Rand(zero-first source)")
	var x float64
	if p, e := mon.Call(func() { x = gen(rand.New(&zeroFirst{src: rand.NewSource(int64(c.Seed))})) }); p {
		w.Violate("panic", fmt.Sprintf("%s: Rand with a zero first variate panicked: %v", name, e), c)
	} else if math.IsInf(x, 0) || math.IsNaN(x) {
		w.Violate("rand-zero", fmt.Sprintf("%s: Rand returned %g when the source's first variate was 0", name, x), c)
	} else {
		// the draw is still a function of the supplied source alone
		for rep := 0; rep < 3; rep++ {
			x2 := gen(rand.New(&zeroFirst{src: rand.NewSource(int64(c.Seed))}))
			if math.Float64bits(x2) != math.Float64bits(x) {
				w.Violate("rand-zero-deterministic", fmt.Sprintf("%s: two identically scripted sources (first variate 0, then seed %d) gave %g and %g", name, c.Seed, x, x2), c)
				break
			}
		}
	}
	// the documented nil source: draws come from the process-wide source
	// (not reproducible, so only the distribution is judged, with the same
	// 1e-9 false-alarm bound)
	w.Hit("rand-nil-source")
	const nn = 2000
	nd := make([]float64, nn)
	w.EvalN("Rand(nil)", nn)
	if p, e := mon.Call(func() {
		for i := range nd {
			nd[i] = gen(nil)
		}
	}); p {
		w.Violate("rand-nil", fmt.Sprintf("%s: Rand(dist)(nil) panicked: %v (a nil source is documented to mean the default source)", name, e), c)
	} else {
		sort.Float64s(nd)
		ksn := 0.0
		for i := 0; i < nn; {
			j := i
			for j < nn && nd[j] == nd[i] {
				j++
			}
			v := nd[i]
			d := 1e-9 * math.Max(math.Abs(v), 1e-3)
			ksn = math.Max(ksn, float64(j)/nn-base.CDF(v+d))
			ksn = math.Max(ksn, left(v-d)-float64(i)/nn)
			i = j
		}
		epsn := math.Sqrt(math.Log(2/1e-9) / (2 * nn))
		if !w.Err("rand-nil-KS", ksn, epsn) || math.IsNaN(ksn) {
			w.Violate("rand-nil-KS", fmt.Sprintf("%s: KS distance %g over %d draws from the default source exceeds the DKW bound %g", name, ksn, nn, epsn), c)
		}
	}
	if w.WantSample() {
		w.Sample(map[string]any{"dist": name, "draws": N, "ks": ks, "dkw_bound": eps})
	}
}

// c07GenUser draws a piecewise CDF: ramps (slope >= 5e-4 in CDF units per unit
// x), jumps and flats, located anywhere within +-1e6.
func c07GenUser(rng *mon.Rand, pureStep bool) c07Case {
	return c07GenUserM(rng, pureStep, rng.Range(1, 6))
}

// c07GenUserM is c07GenUser with a given number m of segments.
func c07GenUserM(rng *mon.Rand, pureStep bool, m int) c07Case {
	c := c07Case{Kind: "user"}
	// masses: each segment ramp mass and each break point jump mass
	nb := m + 1
	ramp := make([]float64, m)
	jump := make([]float64, nb)
	tot := 0.0
	for i := range ramp {
		if !pureStep && rng.Intn(3) != 0 {
			ramp[i] = rng.Uniform(0.05, 1)
		}
		tot += ramp[i]
	}
	for i := range jump {
		if pureStep || rng.Intn(2) == 0 {
			jump[i] = rng.Uniform(0.05, 1)
		}
		tot += jump[i]
	}
	if tot == 0 {
		jump[0], tot = 1, 1
	}
	centre := 0.0
	switch rng.Intn(4) {
	case 0:
		centre = rng.Sign() * rng.LogUniform(1e5, 1e6)
	case 1:
		centre = rng.Sign() * rng.LogUniform(1e-3, 1e5)
	case 2:
		centre = rng.Uniform(-3, 3)
	}
	x := centre
	cum := 0.0
	for i := 0; i < nb; i++ {
		c.Xs = append(c.Xs, x)
		c.L = append(c.L, cum)
		cum += jump[i] / tot
		c.V = append(c.V, cum)
		if i < m {
			mass := ramp[i] / tot
			cum += mass
			width := rng.LogUniform(1e-3, 1e3)
			if mass > 0 && width > mass/5e-4 {
				width = mass / 5e-4
			}
			// keep break points distinct floats and the width meaningful at this magnitude
			if width < 1e-9*math.Abs(x) {
				width = 1e-9 * math.Abs(x)
			}
			x += width
		}
	}
	// exact end: last value is 1
	c.V[nb-1] = 1
	for i := range c.L {
		if c.L[i] > 1 {
			c.L[i] = 1
		}
		if c.V[i] > 1 {
			c.V[i] = 1
		}
		if i > 0 && c.L[i] < c.V[i-1] {
			c.L[i] = c.V[i-1]
		}
		if c.V[i] < c.L[i] {
			c.V[i] = c.L[i]
		}
	}
	c.BoundIn = rng.Intn(4) == 0
	return c
}

// c07Size draws a size between lo and hi: log-uniform, or at / just beyond a
// round number (powers of two, 200, 1000, 5000, 10000 ...).
func c07Size(rng *mon.Rand, lo, hi int) int {
	if rng.Intn(2) == 0 {
		return int(rng.LogUniform(float64(lo), float64(hi)+1))
	}
	round := []int{16, 32, 50, 64, 100, 128, 200, 250, 256, 300, 500, 512, 1000, 1024, 2000, 2048, 2500, 4096, 5000, 8192, 10000, 16384, 20000, 32768, 50000, 65536, 100000, 131072}
	for try := 0; try < 50; try++ {
		n := round[rng.Intn(len(round))] + rng.PickI(-1, 0, 0, 1, 2, 3)
		if n >= lo && n <= hi {
			return n
		}
	}
	return hi
}

// c07Expand rebuilds the break points of a "large" case from its compact
// description (N, Shape, Step, Params[0], Seed).
func c07Expand(c c07Case) c07Case {
	rng := mon.NewRand(c.Seed, uint64(c.N), uint64(c.Shape))
	if c.Shape == 3 {
		e := c07GenUserM(rng, false, c.N-1)
		e.Ys = c.Ys
		return e
	}
	e := c07Case{Kind: "user", Ys: c.Ys, BoundIn: c.BoundIn}
	if c.Shape != 2 {
		e.Step = c.Step
	}
	n, lo := c.N, c.Params[0]
	e.Xs, e.L, e.V = make([]float64, n), make([]float64, n), make([]float64, n)
	mass := make([]float64, n)
	tot := 0.0
	for k := range mass {
		mass[k] = 1
		if c.Shape != 0 {
			mass[k] = rng.Uniform(0.05, 1)
			if rng.Intn(4) == 0 {
				mass[k] = 0
			}
		}
		tot += mass[k]
	}
	if tot == 0 {
		mass[0], tot = 1, 1
	}
	cum := 0.0
	for k := 0; k < n; k++ {
		e.Xs[k] = lo + float64(k)*c.Step
		e.L[k] = cum
		if c.Shape == 0 {
			cum = float64(k+1) / float64(n)
		} else {
			cum += mass[k] / tot
		}
		if k == n-1 || cum > 1 {
			cum = 1
		}
		e.V[k] = cum
	}
	return e
}

func c07LargeName(c c07Case) string {
	return fmt.Sprintf("user-defined %s with %d points from %g (step %g, generator seed %d, Bounds inside the support: %v)",
		[]string{"DiscreteDist of equal masses", "DiscreteDist of random masses", "step CDF without PMF/Step methods", "piecewise CDF of ramps, jumps and flats"}[c.Shape&3], c.N, c.Params[0], c.Step, c.Seed, c.BoundIn)
}

func c07Large(w *mon.W, c c07Case) {
	if c.N < 2 || len(c.Params) < 1 || c.Shape < 0 || c.Shape > 3 {
		return
	}
	e := c07Expand(c)
	w.Hit("large-support")
	w.HitIf(c.N > 201, "support>201-points")
	w.HitIf(c.N > 1000, "support>1000-points")
	w.HitIf(c.N > 10000, "support>10000-points")
	w.HitIf(c.N > 40000, "support>40000-points")
	w.HitIf(c.Shape == 3, "large-piecewise-mixed")
	w.HitIf(c.Shape == 2, "large-step-CDF-generic-path")
	w.HitIf(c.Shape < 2, "large-DiscreteDist")
	c07User(w, e, c, c07LargeName(c))
}

func c07Ys(rng *mon.Rand, levels []float64) []mon.F {
	ys := []float64{0, 1, 1e-300, 1 - 1e-16, -rng.Float64(), 1 + rng.LogUniform(1e-15, 3), math.Nextafter(1, 2), -1e-300}
	for k := 0; k < 10; k++ {
		ys = append(ys, rng.Float64())
	}
	ys = append(ys, rng.LogUniform(1e-12, 1), 1-rng.LogUniform(1e-12, 1))
	for _, l := range levels {
		if l > 0 && l < 1 {
			ys = append(ys, l, math.Nextafter(l, 0), math.Nextafter(l, 1))
		}
	}
	return mon.Fs(ys)
}

// c07GenLattice draws a user-defined discrete distribution on a lattice
// lo + i*step; every third one has a long geometric tail and Bounds holding
// only 99.9% of it.
func c07GenLattice(rng *mon.Rand, i int) c07Case {
	step := rng.Pick(0.1, 0.2, 0.3, 3, 1e-3, 0.7, 2.5, 1e-6, 1, 0.5, 1e4)
	lo := rng.Pick(0, -step*float64(rng.Range(1, 9)), step*float64(rng.Range(1, 50)), rng.Uniform(-5, 5), -1e3*step)
	n := rng.Range(2, 12)
	c := c07Case{Kind: "user", Step: step}
	tot := 0.0
	mass := make([]float64, n)
	for k := range mass {
		mass[k] = rng.Uniform(0.05, 1)
		if rng.Intn(4) == 0 {
			mass[k] = 0 // a lattice point without mass
		}
		tot += mass[k]
	}
	if tot == 0 {
		mass[0], tot = 1, 1
	}
	cum := 0.0
	for k := 0; k < n; k++ {
		c.Xs = append(c.Xs, lo+float64(k)*step)
		c.L = append(c.L, cum)
		cum += mass[k] / tot
		if k == n-1 || cum > 1 {
			cum = 1
		}
		c.V = append(c.V, cum)
	}
	c.BoundIn = false
	if i%3 == 0 {
		// a long geometric tail, Bounds holding only 99.9% of it
		c.Xs, c.L, c.V = nil, nil, nil
		p := rng.Uniform(0.05, 0.4)
		cum, q := 0.0, 1.0
		for k := 0; k < 400 && cum < 1; k++ {
			c.Xs = append(c.Xs, lo+float64(k)*step)
			c.L = append(c.L, cum)
			cum = 1 - q*(1-p)
			q *= 1 - p
			if q < 1e-17 {
				cum = 1
			}
			c.V = append(c.V, cum)
		}
		c.V[len(c.V)-1] = 1
		c.BoundIn = true
	}
	return c
}

func c07Run(r *mon.Run) {
	r.Rule("user-defined piecewise CDFs (ramps of slope>=5e-4, jumps, flats, pure step functions; centre anywhere in +-1e6; widths 1e-3..1e3) judged against the analytic generalized inverse; built-ins TDist, BinomialDist, HypergeometicDist, UDist, KDE judged through their own CDF; y uniform, at exact jump/kink levels and their neighbours one ulp away, 1e-300, 1-1e-16, 0, 1 and outside [0,1]; dispatch to own InvCDF/Rand methods; Rand: determinism, DKW bound (alpha=1e-9) on seeded draws, a source whose first variate is 0. Scale: user-defined DiscreteDists (equal / random masses, exact or inside Bounds), step CDFs without PMF/Step and mixed piecewise CDFs with 8..131 072 support / break points (sizes log-uniform and at or just beyond round numbers: powers of two, 200, 1000, 5000, 10000 ...), y at exactly attained CDF values over the whole support, against the same analytic inverse; BinomialDist (N up to 30 000) and HypergeometicDist (N up to 6 000, only where the library CDF probes as non-decreasing from 0 to 1) at exactly attained CDF values, judged by the two-point law CDF(x) >= y > CDF(x-step) at a lattice point x. Non-trivial = hits a class; distinct by hash of the CDF description.")
	r.Assume("ramp slopes >= 5e-4 keep the float64 crossing within 2e-13 of the analytic one (tolerance 1e-9 relative, floor 1e-12)", "for built-ins the library's own CDF is the oracle (its accuracy is C05/C06/C02/C12's business)")
	r.Gate("y-at-jump-or-kink-level", "centre>1e5", "centre<-1e5", "discrete-builtin", "scripted-zero-draw", "y-outside", "y=0-bounds-endpoint", "y=0-minus-inf", "y=1-bounds-endpoint", "y=1-plus-inf", "dispatch", "builtin-t", "builtin-binom", "builtin-hyperg", "builtin-udist", "builtin-kde", "rand-user", "rand-builtin", "pure-step", "unwrapped-builtin", "kde-weighted", "kde-bounded", "kde-delta-kernel", "rand-kde-weighted", "user-defined-DiscreteDist", "rand-nil-source", "rand-user-defined-DiscreteDist", "lattice-Bounds-inside-the-support", "support>201-points", "support>1000-points", "support>10000-points", "large-DiscreteDist", "large-step-CDF-generic-path", "large-piecewise-mixed", "builtin-support>201-points", "builtin-support>1000-points", "large-support-two-point-law")

	r.Parallel("user", r.Pick(3000, 40000), func(w *mon.W, i int) {
		rng := w.Rng
		c := c07GenUser(rng, i%5 == 0)
		w.HitIf(i%5 == 0, "pure-step")
		lv := append(append([]float64(nil), c.L...), c.V...)
		c.Ys = c07Ys(rng, lv)
		c07Judge(w, c)
		w.Distinct(mon.NewHasher().Fs(c.Xs).Fs(c.L).Fs(c.V).Sum())
	})
	// user-defined discrete distributions on lattices lo + i*step
	r.Parallel("user-lattice", r.Pick(600, 6000), func(w *mon.W, i int) {
		rng := w.Rng
		c := c07GenLattice(rng, i)
		c.Ys = c07Ys(rng, c.V)
		if c.BoundIn {
			// levels between the mass inside Bounds and 1
			for k := 0; k < 6; k++ {
				c.Ys = append(c.Ys, mon.F(1-rng.LogUniform(1e-12, 1e-3)))
			}
		}
		c07Judge(w, c)
		w.Distinct(mon.NewHasher().S("lattice").F(c.Step).Fs(c.Xs).Fs(c.V).Sum())
	})
	// Scale: user-defined distributions with up to 131 072 support / break
	// points (sizes log-uniform and at / just beyond round numbers), y at
	// exactly attained CDF values spread over the whole support
	r.Parallel("user-large", r.Pick(360, 3600), func(w *mon.W, i int) {
		rng := w.Rng
		c := c07Case{Kind: "large", Shape: i % 4, Seed: rng.Uint64() >> 1}
		c.N = c07Size(rng, 13, int(r.Pick(70000, 132000)))
		if i%4 == 3 {
			c.N = c07Size(rng, 8, int(r.Pick(30000, 70000)))
		}
		c.Step = rng.Pick(0.1, 0.2, 0.3, 3, 1e-3, 0.7, 2.5, 1e-6, 1, 0.5, 1e4, 1, 0.25)
		for float64(c.N)*c.Step > 4e5 { // the whole support within +-1e6
			c.Step /= 10
		}
		lo := rng.Pick(0, -c.Step*float64(rng.Range(1, 9)), c.Step*float64(rng.Range(1, 50)), rng.Uniform(-5, 5), -1e3*c.Step, rng.Sign()*rng.LogUniform(1e3, 5e5), -c.Step*float64(c.N/2))
		c.Params = []float64{lo}
		c.BoundIn = c.Shape == 1 && rng.Intn(3) == 0
		e := c07Expand(c)
		// levels: the first and last few, and points spread over the support
		n := len(e.V)
		var lv []float64
		for _, k := range []int{0, 1, n - 3, n - 2, n / 2, rng.Intn(n), rng.Intn(n), rng.Intn(n), rng.Intn(n), rng.Intn(n), rng.Intn(n), rng.Intn(n), int(rng.LogUniform(1, float64(n))), int(rng.LogUniform(1, float64(n))), n - 1 - int(rng.LogUniform(1, float64(n)))} {
			if k >= 0 && k < n {
				lv = append(lv, e.V[k])
				if c.Shape == 3 {
					lv = append(lv, e.L[k])
				}
			}
		}
		c.Ys = c07Ys(rng, lv)
		c07Judge(w, c)
		w.Distinct(mon.NewHasher().S("large").I(c.N).I(c.Shape).F(c.Step).F(lo).I(int(c.Seed)).Sum())
	})
	builtin := func(rng *mon.Rand, k int) c07Case {
		c := c07Case{}
		switch k % 5 {
		case 0:
			c.Kind, c.Params = "t", []float64{rng.Pick(rng.LogUniform(0.5, 1e3), rng.LogUniform(0.1, 0.5), rng.LogUniform(0.5, 1e3))}
		case 1:
			c.Kind, c.Params = "binom", []float64{float64(rng.Range(1, 60)), rng.Pick(rng.Float64(), 0.5, 0.01, 0.99)}
		case 2:
			N := rng.Range(2, 60)
			c.Kind, c.Params = "hyperg", []float64{float64(N), float64(rng.Range(0, N)), float64(rng.Range(0, N))}
		case 3:
			T, a := randomTieAlloc(rng, rng.Intn(6))
			n1 := sumInts(a)
			n2 := sumInts(T) - n1
			if n1 > 12 || n2 > 12 || n1 < 1 || n2 < 1 {
				n1, n2, T = 3, 4, []int{2, 1, 3, 1}
			}
			c.Kind = "udist"
			c.Params = []float64{float64(n1), float64(n2)}
			for _, t := range T {
				c.Params = append(c.Params, float64(t))
			}
		default:
			n := rng.Range(1, 15)
			ctr := rng.Pick(0, rng.Uniform(-50, 50), rng.Sign()*rng.LogUniform(1e2, 1e4))
			for j := 0; j < n; j++ {
				c.Xs = append(c.Xs, ctr+rng.Norm()*3)
			}
			c.Kind, c.Params = "kde", []float64{float64(rng.Intn(2)), rng.LogUniform(0.1, 5)}
			if rng.Intn(4) == 0 {
				c.Params[0] = 2 // DeltaKernel: the weighted empirical CDF
			}
			if rng.Intn(2) == 0 {
				for j := 0; j < n; j++ {
					c.Ws = append(c.Ws, rng.Pick(rng.LogUniform(0.01, 100), float64(rng.Range(1, 4)), rng.LogUniform(0.5, 2)))
				}
			}
			if rng.Intn(3) == 0 {
				lo, hi := stats.Bounds(c.Xs)
				h := c.Params[1]
				bmin, bmax := lo-rng.Uniform(0, 2*h), hi+rng.Uniform(0, 2*h)+1e-3
				switch k := rng.Intn(3); {
				case k == 0 || c.Params[0] == 2 && rng.Intn(2) == 0:
					bmax = math.Inf(1)
				case k == 1 || c.Params[0] == 2:
					bmin = math.Inf(-1)
				}
				c.Bnd = []mon.F{mon.F(bmin), mon.F(bmax)}
			}
		}
		return c
	}
	r.Parallel("builtin", r.Pick(1500, 15000), func(w *mon.W, i int) {
		rng := w.Rng
		c := builtin(rng, i)
		var lv []float64
		if d, _, _, disc := c07Builtin(c); disc {
			lo, hi := d.Bounds()
			for k := 0; k < 4; k++ {
				lv = append(lv, d.CDF(lo+float64(rng.Intn(int(hi-lo)+1))))
			}
		} else if c.Kind == "kde" && int(c.Params[0]) == 2 {
			for k := 0; k < 4; k++ { // the jump levels of the weighted empirical CDF
				lv = append(lv, d.CDF(c.Xs[rng.Intn(len(c.Xs))]))
			}
		}
		c.Ys = c07Ys(rng, lv)
		h := mon.NewHasher().S(c.Kind).Fs(c.Params).Fs(c.Xs).Fs(c.Ws)
		c07Judge(w, c)
		w.Distinct(h.Sum())
	})
	// Scale: the built-in discrete distributions with supports of up to tens
	// of thousands of points, y at exactly attained CDF values (half of them
	// within a few standard deviations of the mean, where the CDF is neither
	// 0 nor 1), judged by the two-point law
	r.Parallel("builtin-large", r.Pick(240, 2400), func(w *mon.W, i int) {
		rng := w.Rng
		c := c07Case{Law: true}
		var mean, sd float64
		if i%3 != 0 {
			N := c07Size(rng, 61, 30000)
			p := rng.Pick(rng.Float64(), 0.5, 0.01, 0.99, rng.Uniform(0.05, 0.95), rng.LogUniform(1e-4, 0.5))
			c.Kind, c.Params = "binom", []float64{float64(N), p}
			mean, sd = float64(N)*p, math.Sqrt(float64(N)*p*(1-p))
		} else {
			N := c07Size(rng, 61, 6000)
			K, D := rng.Range(N/10, N), rng.Range(N/10, N)
			if rng.Intn(3) == 0 {
				K, D = rng.Range(0, N), rng.Range(0, N)
			}
			c.Kind, c.Params = "hyperg", []float64{float64(N), float64(K), float64(D)}
			f := float64(K) / float64(N)
			mean = float64(D) * f
			sd = math.Sqrt(float64(D) * f * (1 - f) * float64(N-D) / math.Max(float64(N-1), 1))
		}
		d, _, _, _ := c07Builtin(c)
		lo, hi := d.Bounds()
		pts := int(hi-lo) + 1
		w.HitIf(pts > 201, "builtin-support>201-points")
		w.HitIf(pts > 1000, "builtin-support>1000-points")
		w.HitIf(pts > 10000, "builtin-support>10000-points")
		// The statement is about distributions whose CDF is non-decreasing
		// from 0 to 1. The library's own CDF of a large distribution need not
		// be one (HypergeometicDist.CDF is NaN where a PMF term underflows,
		// which is C06's business): probe it at 64 points over the support
		// and leave the case out if it is not.
		probe := []float64{lo, hi, lo + 1, hi - 1}
		for k := 0; k < 60; k++ {
			x := lo + float64(rng.Intn(pts))
			if k%2 == 0 {
				x = math.Round(mean + rng.Norm()*3*sd)
			}
			if x >= lo && x <= hi {
				probe = append(probe, x)
			}
		}
		sort.Float64s(probe)
		prev, valid := 0.0, d.CDF(lo-1) == 0 && d.CDF(hi) == 1
		for _, x := range probe {
			f := d.CDF(x)
			if !(f >= prev && f <= 1) {
				valid = false
			}
			prev = f
		}
		if !valid {
			w.Note("builtin-large-CDF-not-non-decreasing-from-0-to-1(left-out)")
			return
		}
		var lv []float64
		for k := 0; k < 12; k++ {
			x := lo + float64(rng.Intn(pts))
			if k%2 == 0 {
				x = math.Round(mean + rng.Norm()*2*sd)
			}
			if x >= lo && x <= hi {
				lv = append(lv, d.CDF(x))
			}
		}
		c.Ys = c07Ys(rng, lv)
		c07Judge(w, c)
		w.Distinct(mon.NewHasher().S("large").S(c.Kind).Fs(c.Params).Sum())
	})
	r.Parallel("dispatch", r.Pick(200, 2000), func(w *mon.W, i int) {
		rng := w.Rng
		c := c07Case{Kind: "dispatch", Params: []float64{rng.Uniform(-100, 100), rng.LogUniform(1e-3, 1e3)}, Seed: rng.Uint64() >> 1}
		c.Ys = c07Ys(rng, nil)
		c07Judge(w, c)
		w.Distinct(mon.NewHasher().S("dispatch").Fs(c.Params).Sum())
	})
	nd := r.Pick(50000, 200000)
	r.Parallel("rand", r.Pick(48, 160), func(w *mon.W, i int) {
		rng := w.Rng
		var c c07Case
		if i%8 == 4 {
			c = c07GenLattice(rng, i/8)
		} else if i%2 == 0 {
			c = c07GenUser(rng, i%6 == 0)
		} else {
			c = builtin(rng, i/2)
			kinds := map[string]float64{"t": 0, "binom": 1, "hyperg": 2, "udist": 3, "kde": 4}
			c.Params = append(c.Params, kinds[c.Kind])
		}
		c.Kind = "rand"
		c.Seed = rng.Uint64() >> 1
		c.Draws = nd
		if i%2 == 1 && (int(c.Params[len(c.Params)-1]) == 3 || int(c.Params[len(c.Params)-1]) == 4) {
			c.Draws = nd / 5 // tied UDist and KDE CDFs are expensive
		}
		c07Judge(w, c)
		w.Distinct(mon.NewHasher().S("rand").Fs(c.Xs).Fs(c.V).Fs(c.Params).Fs(c.Ws).Sum())
	})
}
