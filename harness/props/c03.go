package props

import (
	"encoding/json"
	"fmt"
	"math"
	"sort"

	"github.com/aclements/go-moremath/stats"

	"verifmon/mon"
	"verifmon/ref"
)

// C03 — Mann-Whitney laws at every size: symmetry, invariance, errors, approximation.

type c03Case struct {
	X1   []float64 `json:"x1"`
	X2   []float64 `json:"x2"`
	LimU int       `json:"lim_untied"`
	LimT int       `json:"lim_tied"`
}

func init() {
	mon.Register(&mon.Prop{ID: "C03", Run: c03Run, Replay: func(w *mon.W, v *mon.ViolationRec) {
		var c c03Case
		if json.Unmarshal(v.Case, &c) == nil {
			du, dt := stats.MannWhitneyExactLimit, stats.MannWhitneyTiesExactLimit
			stats.MannWhitneyExactLimit, stats.MannWhitneyTiesExactLimit = c.LimU, c.LimT
			c03Judge(w, c)
			stats.MannWhitneyExactLimit, stats.MannWhitneyTiesExactLimit = du, dt
		}
	}})
}

// guarded places xs inside a larger array with canaries before, after and in
// the spare capacity, and returns the slice and a checker.
func guarded(rng *mon.Rand, xs []float64) ([]float64, func() string) {
	pre, spare, post := 3, rng.Intn(4), 3
	back := make([]float64, pre+len(xs)+spare+post)
	for i := range back {
		back[i] = math.Float64frombits(0x7ff8dead00000000 + uint64(i)) // NaN payload canaries
	}
	copy(back[pre:], xs)
	s := back[pre : pre+len(xs) : pre+len(xs)+spare]
	snap := make([]uint64, len(back))
	for i, x := range back {
		snap[i] = math.Float64bits(x)
	}
	return s, func() string {
		for i, x := range back {
			if math.Float64bits(x) != snap[i] {
				where := "element"
				if i < pre || i >= pre+len(xs)+spare {
					where = "neighbouring memory"
				} else if i >= pre+len(xs) {
					where = "spare capacity"
				}
				return fmt.Sprintf("%s at offset %d changed from %#x to %#x", where, i-pre, snap[i], math.Float64bits(x))
			}
		}
		return ""
	}
}

func phi(z float64) float64 { return 0.5 * math.Erfc(-z/math.Sqrt2) }

// approxP is the stated normal approximation.
func approxP(twoU, n1, n2 int, T []int, alt stats.LocationHypothesis, hi bool) (p float64, sigmaZero bool) {
	N := float64(n1 + n2)
	tc := 0.0
	for _, t := range T {
		ft := float64(t)
		tc += ft*ft*ft - ft
	}
	mean := float64(n1*n2) / 2
	variance := float64(n1*n2) / 12 * ((N + 1) - tc/(N*(N-1)))
	if ni := int64(n1 + n2); ni >= 2 && ni <= 2000000 {
		// the same quantity without the cancellation of (N+1) - sum/(N(N-1)):
		// n1*n2*((N+1)N(N-1) - sum(t^3-t)) / (12 N(N-1)), the integer numerator
		// formed exactly (N^3 < 2^63). Matters for large samples that are
		// nearly all equal, where the float64 difference loses log2(N) bits.
		var itc int64
		for _, t := range T {
			it := int64(t)
			itc += it*it*it - it
		}
		d := (ni+1)*ni*(ni-1) - itc
		variance = float64(n1) * float64(n2) * (float64(d) / (12 * float64(ni) * float64(ni-1)))
	}
	if !(variance > 0) {
		return math.NaN(), true
	}
	sigma := math.Sqrt(variance)
	U := float64(twoU) / 2
	var z float64
	switch alt {
	case stats.LocationLess:
		z = (U + 0.5 - mean) / sigma
	case stats.LocationGreater:
		z = -(U - 0.5 - mean) / sigma
	default:
		z = -(math.Abs(U-mean) - 0.5) / sigma
	}
	var ph float64
	if hi {
		ph = ref.F64(ref.NormCDFz(ref.NF(z)))
	} else {
		ph = phi(z)
	}
	if alt == stats.LocationDiffers {
		return math.Min(1, 2*ph), false
	}
	return ph, false
}

// c03TwoU is twice the pair-count statistic: by its definition (all n1*n2
// pairs) for small samples, and for large ones by counting, for every value of
// the first sample, the values of the sorted second sample below it and equal
// to it (binary search with the float64 comparison operators, so +0 == -0).
// c03TwoUSelfTest compares the two on random pairs at start-up.
func c03TwoU(x1, x2 []float64) int {
	if len(x1)*len(x2) <= 1<<16 {
		return twoUDef(x1, x2)
	}
	return twoUCount(x1, x2)
}

func twoUCount(x1, x2 []float64) int {
	s := append([]float64(nil), x2...)
	sort.Float64s(s)
	t := 0
	for _, a := range x1 {
		lo := sort.Search(len(s), func(i int) bool { return s[i] >= a })
		hi := sort.Search(len(s), func(i int) bool { return s[i] > a })
		t += 2*lo + (hi - lo)
	}
	return t
}

func c03TwoUSelfTest(rng *mon.Rand) error {
	for k := 0; k < 200; k++ {
		n1, n2 := rng.Range(1, 300), rng.Range(1, 300)
		x1, x2 := c03Pair(rng, n1, n2, rng.Intn(7))
		if a, b := twoUDef(x1, x2), twoUCount(x1, x2); a != b {
			return fmt.Errorf("pair count by sorting %d, by definition %d (n1=%d n2=%d)", b, a, n1, n2)
		}
	}
	return nil
}

type mwOut struct {
	res *stats.MannWhitneyUTestResult
	err error
}

func c03Call(w *mon.W, c c03Case, x1, x2 []float64, alt stats.LocationHypothesis, what string) (mwOut, bool) {
	var o mwOut
	w.Eval("MannWhitneyUTest(" + what + ")")
	if p, e := mon.Call(func() { o.res, o.err = stats.MannWhitneyUTest(x1, x2, alt) }); p {
		w.Violate("panic", fmt.Sprintf("MannWhitneyUTest panicked (%s call, n1=%d n2=%d): %v", what, len(x1), len(x2), e), c)
		return o, false
	}
	return o, true
}

func c03Judge(w *mon.W, c c03Case) {
	rng := w.Rng
	n1, n2 := len(c.X1), len(c.X2)
	T, ties := pooledTies(c.X1, c.X2)
	// the limits as the caller configured them (not as the variables read
	// now: a library that rewrites them must not take the oracle along)
	limU, limT := c.LimU, c.LimT
	exact := n1 <= limU && n2 <= limU
	if ties {
		exact = n1 <= limT && n2 <= limT
	}
	cfg := fmt.Sprintf("limits(%d,%d)", limU, limT)
	w.Distinct(mon.NewHasher().Fs(c.X1).Fs(c.X2).I(limU).I(limT).Sum())

	var outs [3]mwOut
	for ai, alt := range alts {
		g1, chk1 := guarded(rng, c.X1)
		g2, chk2 := guarded(rng, c.X2)
		o, ok := c03Call(w, c, g1, g2, alt, "base")
		if !ok {
			return
		}
		if m := chk1(); m != "" {
			w.Violate("argument-modified", "first sample: "+m, c)
		}
		if m := chk2(); m != "" {
			w.Violate("argument-modified", "second sample: "+m, c)
		}
		outs[ai] = o
		// error identities
		switch {
		case n1 == 0 || n2 == 0:
			w.Hit("err-sample-size")
			if o.err != stats.ErrSampleSize || o.res != nil {
				w.Violate("error", fmt.Sprintf("n1=%d n2=%d: got (%v,%v), want ErrSampleSize", n1, n2, o.res, o.err), c)
			}
			continue
		case len(T) == 1:
			if exact {
				w.Hit("err-samples-equal/exact-path")
			} else {
				w.Hit("err-samples-equal/approx-path")
			}
			if o.err != stats.ErrSamplesEqual || o.res != nil {
				w.Violate("error", fmt.Sprintf("all %d pooled values equal: got (%v,%v), want ErrSamplesEqual", n1+n2, o.res, o.err), c)
			}
			continue
		}
		if o.err != nil || o.res == nil {
			w.Violate("error", fmt.Sprintf("unexpected error %v (n1=%d n2=%d, %d distinct values)", o.err, n1, n2, len(T)), c)
			return
		}
		res := o.res
		twoU := c03TwoU(c.X1, c.X2)
		if res.N1 != n1 || res.N2 != n2 || res.U != float64(twoU)/2 {
			w.Violate("U", fmt.Sprintf("N1=%d N2=%d U=%v, want %d %d %v", res.N1, res.N2, res.U, n1, n2, float64(twoU)/2), c)
		}
		// expected method and P
		var want float64
		method := "approx"
		if exact {
			method = "exact"
			tab := uCache.Get(T, n1)
			pl, pd, pg := exactP(tab, twoU)
			want = map[stats.LocationHypothesis]float64{stats.LocationLess: pl, stats.LocationDiffers: pd, stats.LocationGreater: pg}[alt]
			if alt == stats.LocationDiffers && ties && math.Abs(res.P-want) > 1e-9*want+1e-12 && math.Abs(res.P-d3Signature(tab, twoU)) <= 1e-12 {
				w.Known("D3", "P-two-sided-ties", fmt.Sprintf("%s exact two-sided P=%.12g, true %.12g (n1=%d n2=%d U=%v)", cfg, res.P, want, n1, n2, res.U), c)
				outs[ai].res = nil // excluded from the law checks below
				continue
			}
		} else {
			want, _ = approxP(twoU, n1, n2, T, alt, rng.Intn(50) == 0)
		}
		w.Hit(cfg + "/" + method)
		w.HitIf(want > 1-1e-6, "P-near-1")
		if !(res.P >= 0 && res.P <= 1) {
			w.Violate("P-range", fmt.Sprintf("%s %s alt=%v: P=%v outside [0,1]", cfg, method, alt, res.P), c)
		}
		// 1e-9 relative plus the rounding noise of a probability formed as
		// 1-(other tail) (see C01): tiny p-values are judged, not waved through
		w.HitIf(want > 4e-12 && want < 1e-9, "P-in-(4e-12,1e-9)/"+method)
		if !w.Err("P-"+method, math.Abs(res.P-want), 1e-9*want+1e-12) {
			w.Violate("P-"+method, fmt.Sprintf("%s alt=%v n1=%d n2=%d ties=%v U=%v: P=%.12g, the %s method gives %.12g", cfg, alt, n1, n2, ties, res.U, res.P, method, want), c)
		}
		if w.WantSample() {
			w.Sample(map[string]any{"n1": n1, "n2": n2, "ties": ties, "limits": cfg, "method": method, "alt": alt.String(), "U": res.U, "P": res.P, "P_ref": want})
		}
	}
	if n1 == 0 || n2 == 0 || len(T) == 1 {
		return
	}
	// ---- laws over related calls ----
	same := func(kind string, a, b mwOut, tolP float64, what string) {
		if a.res != nil && b.res == nil {
			w.Violate(kind, fmt.Sprintf("%s: the call succeeded with (U,P)=(%v,%.15g) but failed with %v after %s", cfg, a.res.U, a.res.P, b.err, what), c)
			return
		}
		if a.res == nil || b.res == nil {
			return
		}
		if a.res.U != b.res.U || math.Abs(a.res.P-b.res.P) > tolP {
			w.Violate(kind, fmt.Sprintf("%s: (U,P)=(%v,%.15g) became (%v,%.15g) after %s", cfg, a.res.U, a.res.P, b.res.U, b.res.P, what), c)
		}
	}
	// permutation of either sample
	p1 := append([]float64(nil), c.X1...)
	p2 := append([]float64(nil), c.X2...)
	rng.ShuffleF(p1)
	rng.ShuffleF(p2)
	for ai, alt := range alts {
		if o, ok := c03Call(w, c, p1, p2, alt, "permuted"); ok {
			same("permutation", outs[ai], o, 1e-12, "reordering both samples")
		}
	}
	// one strictly increasing map applied to all values
	if m1, m2, name, ok := monotoneMap(rng, c.X1, c.X2); ok {
		w.Note("map-" + name)
		for ai, alt := range alts {
			if o, ok := c03Call(w, c, m1, m2, alt, "mapped"); ok {
				same("monotone-map", outs[ai], o, 1e-12, "the strictly increasing map "+name)
			}
		}
	}
	// swap: U -> N1N2-U, less <-> greater, differs preserved
	var sw [3]mwOut
	okAll := true
	for ai, alt := range alts {
		o, ok := c03Call(w, c, c.X2, c.X1, alt, "swapped")
		sw[ai] = o
		okAll = okAll && ok && o.res != nil
	}
	if !okAll {
		for ai := range alts {
			if outs[ai].res != nil && sw[ai].res == nil && (n1 != 0 && n2 != 0) {
				w.Violate("swap-error", fmt.Sprintf("%s: the call succeeded but the swapped call failed with %v", cfg, sw[ai].err), c)
				break
			}
		}
	}
	if okAll {
		l, d, g := outs[0].res, outs[1].res, outs[2].res
		sl, sd, sg := sw[0].res, sw[1].res, sw[2].res
		if l != nil && sl.U != float64(n1*n2)-l.U {
			w.Violate("swap-U", fmt.Sprintf("%s: U=%v, swapped U=%v, N1*N2=%d", cfg, l.U, sl.U, n1*n2), c)
		}
		if l != nil && g != nil && (math.Abs(l.P-sg.P) > 1e-9 || math.Abs(g.P-sl.P) > 1e-9) {
			w.Violate("swap-one-sided", fmt.Sprintf("%s: P_less=%.12g P_greater=%.12g, swapped P_less=%.12g P_greater=%.12g", cfg, l.P, g.P, sl.P, sg.P), c)
		}
		if d != nil && math.Abs(d.P-sd.P) > 1e-9 {
			// the swapped call may itself be a D3 case (judged as such when it is generated as a base case)
			// (the exact table only on the exact path: for an approximate-path
			// case it has hundreds of ranks and the monitor would spend hours and
			// gigabytes building it instead of reporting)
			if exact && ties && math.Abs(sd.P-d3Signature(uCache.Get(T, n2), c03TwoU(c.X2, c.X1))) <= 1e-12 {
				w.Known("D3", "swap-two-sided", fmt.Sprintf("%s: two-sided P=%.12g, swapped %.12g", cfg, d.P, sd.P), c)
			} else {
				w.Violate("swap-two-sided", fmt.Sprintf("%s: two-sided P=%.12g, swapped %.12g", cfg, d.P, sd.P), c)
			}
		}
	}
}

// monotoneMap applies one strictly increasing map to all values and keeps it
// only if it provably preserved every tie and strict inequality in float64.
func monotoneMap(rng *mon.Rand, x1, x2 []float64) (m1, m2 []float64, name string, ok bool) {
	var f func(float64) float64
	switch rng.Intn(5) {
	case 0:
		a, b := rng.LogUniform(1e-3, 1e3), rng.Uniform(-100, 100)
		f, name = func(x float64) float64 { return a*x + b }, "affine"
	case 1:
		f, name = func(x float64) float64 { return x * x * x }, "cube"
	case 2:
		f, name = func(x float64) float64 { return math.Exp(x / 100) }, "exp"
	case 3:
		f, name = func(x float64) float64 { return math.Atan(x) }, "atan"
	default:
		all := append(append([]float64(nil), x1...), x2...)
		sort.Float64s(all)
		f, name = func(x float64) float64 { return float64(sort.SearchFloat64s(all, x)) }, "rank"
	}
	m1, m2 = make([]float64, len(x1)), make([]float64, len(x2))
	for i, x := range x1 {
		m1[i] = f(x)
	}
	for i, x := range x2 {
		m2[i] = f(x)
	}
	// verify order isomorphism on the pooled values
	type pr struct{ o, m float64 }
	var ps []pr
	for i := range x1 {
		ps = append(ps, pr{x1[i], m1[i]})
	}
	for i := range x2 {
		ps = append(ps, pr{x2[i], m2[i]})
	}
	sort.Slice(ps, func(i, j int) bool { return ps[i].o < ps[j].o })
	for i := 1; i < len(ps); i++ {
		if math.IsNaN(ps[i].m) || math.IsInf(ps[i].m, 0) {
			return nil, nil, name, false
		}
		if (ps[i].o == ps[i-1].o) != (ps[i].m == ps[i-1].m) || ps[i].m < ps[i-1].m {
			return nil, nil, name, false
		}
	}
	return m1, m2, name, true
}

// c03Pair draws a sample pair. density: 0 none, 1 low, 2 high, 3 all equal,
// 4 one sample constant, 5 sparse (distinct values with one to three
// coincidences, the shape of real measurements: many ranks, few ties), 6
// quantised (6 .. N/4 levels; used by the large-sample class).
func c03Pair(rng *mon.Rand, n1, n2, density int) ([]float64, []float64) {
	N := n1 + n2
	var pool func() float64
	switch density {
	case 0:
		vals := incValues(rng, N)
		p := rng.Perm(N)
		if rng.Intn(4) == 0 {
			// location shift: the first sample takes the top values, except
			// for a few random exchanges (small and extreme p-values)
			for i := range p {
				p[i] = N - 1 - i
			}
			for k := rng.Intn(4); k > 0 && N > 1; k-- {
				a, b := rng.Intn(N), rng.Intn(N)
				p[a], p[b] = p[b], p[a]
			}
		}
		x1, x2 := make([]float64, n1), make([]float64, n2)
		for i := 0; i < n1; i++ {
			x1[i] = vals[p[i]]
		}
		for i := 0; i < n2; i++ {
			x2[i] = vals[p[n1+i]]
		}
		return x1, x2
	case 1:
		k := N/2 + 1
		vals := incValues(rng, k)
		pool = func() float64 { return vals[rng.Intn(k)] }
	case 2:
		k := 2 + rng.Intn(4)
		vals := incValues(rng, k)
		pool = func() float64 { return vals[rng.Intn(k)] }
	case 3:
		v := rng.Uniform(-5, 5)
		pool = func() float64 { return v }
	case 6: // quantised measurements: 6 .. N/4 levels, log-uniform
		k := 6
		if N/4 > 6 {
			k = int(rng.LogUniform(6, float64(N/4)))
		}
		vals := incValues(rng, k)
		pool = func() float64 { return vals[rng.Intn(k)] }
	case 5:
		vals := incValues(rng, N)
		rng.ShuffleF(vals)
		for k := 1 + rng.Intn(3); k > 0 && N > 1; k-- {
			vals[rng.Intn(N)] = vals[rng.Intn(N)] // within or across the samples
		}
		x1 := append([]float64(nil), vals[:n1]...)
		x2 := append([]float64(nil), vals[n1:]...)
		flipZeros(rng, x1)
		flipZeros(rng, x2)
		return x1, x2
	default:
		vals := incValues(rng, 6)
		x1, x2 := make([]float64, n1), make([]float64, n2)
		for i := range x1 {
			x1[i] = vals[2]
		}
		for i := range x2 {
			x2[i] = vals[rng.Intn(6)]
		}
		if rng.Bool() {
			for i := range x2 {
				if x2[i] == vals[2] {
					x2[i] = vals[3]
				}
			}
		}
		return x1, x2
	}
	x1, x2 := make([]float64, n1), make([]float64, n2)
	for i := range x1 {
		x1[i] = pool()
	}
	for i := range x2 {
		x2[i] = pool()
	}
	flipZeros(rng, x1)
	flipZeros(rng, x2)
	return x1, x2
}

func c03Run(r *mon.Run) {
	r.Rule("large samples under the default limits: pooled sizes log-uniform 400..70000 (quick) / 200000 (thorough) and pool or sample sizes at or just beyond round numbers (powers of two, 500, 1000, 5000, 10000, ...), tie densities none/low/high/all-equal/one-sample-constant/sparse/quantised, same judge with U by sorting and counting; and sample pairs of sizes 0..400 on both sides of every exact/approximate switch-over (limit, limit+1 in either sample), tie densities none/low/high/all-equal/one-sample-constant, under the limit configurations default (50,25), (0,0), (5,3), (64,34), (3,10) — ties limit above the untied limit —, (50,0); per pair 3 alternatives plus permuted, monotonically mapped and swapped calls; also the exhaustive N<=7 (tie vector x allocation) set under limits (0,0). Non-trivial = hits a (configuration x method) cell or an error/extreme class; distinct by hash of (x1,x2,limits).")
	r.Assume("expected method decided by the oracle from (ties, n1, n2, current limits); exact reference as in C01; normal approximation evaluated with math.Erfc and, on a 2% sample, with the 384-bit Phi", "the two public limit variables are changed only between parallel sections and restored at the end (asserted)", "above 65536 pairs the reference pair count U is obtained by sorting and counting instead of by visiting every pair (the two are compared on 200 random pairs at start-up)")
	if err := ref.USelfTest(r.Pick(7, 8)); err != nil {
		r.Inconclusive("reference self-test failed: " + err.Error())
		return
	}
	if err := c03TwoUSelfTest(mon.NewRand(r.Seed, mon.HashStr("C03/twoU-selftest"))); err != nil {
		r.Inconclusive("reference self-test failed: " + err.Error())
		return
	}
	defU, defT := stats.MannWhitneyExactLimit, stats.MannWhitneyTiesExactLimit
	type cfg struct{ u, t int }
	cfgs := []cfg{{defU, defT}, {0, 0}, {5, 3}, {64, 34}, {3, 10}, {defU, 0}, {0, 10}}
	for _, g := range cfgs {
		name := fmt.Sprintf("limits(%d,%d)", g.u, g.t)
		if g.u > 0 || g.t > 0 {
			r.Gate(name + "/exact")
		}
		r.Gate(name + "/approx")
	}
	r.Gate("err-sample-size", "err-samples-equal/exact-path", "err-samples-equal/approx-path", "P-near-1", "sparse-ties/exact", "sparse-ties/approx", "sparse-ties/exact/ranks>=50")

	npairs := r.Pick(500, 5000)
	for ci, g := range cfgs {
		stats.MannWhitneyExactLimit, stats.MannWhitneyTiesExactLimit = g.u, g.t
		class := fmt.Sprintf("pairs-limits(%d,%d)", g.u, g.t)
		np := npairs
		if g.t > defT || ci >= 4 {
			np = npairs / 3 // the library's tied exact distribution is expensive beyond 25+25; the last two configurations only vary which limit binds
		}
		r.Parallel(class, np, func(w *mon.W, i int) {
			rng := w.Rng
			density := i % 6
			lim := g.u
			if density != 0 {
				lim = g.t
			}
			var n1, n2 int
			switch rng.Intn(8) {
			case 0: // at the switch-over
				n1, n2 = lim+rng.Intn(2), 1+rng.Intn(lim+2)
			case 1:
				n1, n2 = 1+rng.Intn(lim+2), lim+rng.Intn(2)
			case 2:
				n1, n2 = lim, lim
			case 3:
				n1, n2 = lim+1, lim+1
			case 4: // large
				n1, n2 = rng.Range(1, 400), rng.Range(1, 400)
			case 5: // empty
				n1, n2 = rng.Intn(2)*rng.Intn(5), rng.Intn(2)*rng.Intn(5)
			default:
				n1, n2 = rng.Range(1, 2*lim+3), rng.Range(1, 2*lim+3)
			}
			if density == 3 && rng.Bool() && n1+n2 > 0 { // all-equal above the limits too
				n1, n2 = rng.Range(1, 120), rng.Range(1, 120)
			}
			if n1 < 0 {
				n1 = 0
			}
			if n2 < 0 {
				n2 = 0
			}
			// keep the exact reference affordable: C(N,n1) must fit 126 bits
			if n1+n2 > 120 && exactApplies(n1, n2, density != 0) {
				n1, n2 = min(n1, 60), min(n2, 60)
			}
			if density == 5 && g.t > defT && i%12 == 5 {
				// many ranks AND sizes beyond the default limit: 50 or more
				// distinct pooled values on the exact path. The library's
				// tied distribution is affordable there only in a tail, so
				// the first sample takes the top values but for a few
				// exchanges; then one to three coincidences are planted.
				n1, n2 = rng.Range(defT+1, g.t), rng.Range(defT+1, g.t)
				N := n1 + n2
				vals := incValues(rng, N)
				idx := make([]int, N)
				for k := range idx {
					idx[k] = N - 1 - k
				}
				for k := rng.Intn(3); k > 0; k-- {
					a, b := rng.Intn(N), rng.Intn(N)
					idx[a], idx[b] = idx[b], idx[a]
				}
				all := make([]float64, N)
				for k := range all {
					all[k] = vals[idx[k]]
				}
				for k := 1 + rng.Intn(3); k > 0; k-- {
					all[rng.Intn(N)] = all[rng.Intn(N)]
				}
				x1 := append([]float64(nil), all[:n1]...)
				x2 := append([]float64(nil), all[n1:]...)
				if T, t := pooledTies(x1, x2); t && len(T) >= 50 {
					w.Hit("sparse-ties/exact/ranks>=50")
				}
				c03Judge(w, c03Case{X1: x1, X2: x2, LimU: g.u, LimT: g.t})
				return
			}
			if density == 5 && g.t > defT && n1 <= g.t && n2 <= g.t && n1+n2 > 2*defT {
				// the library's tied exact distribution with this many
				// ranks is very expensive beyond the default limit
				n1, n2 = min(n1, defT), min(n2, defT)
			}
			x1, x2 := c03Pair(rng, n1, n2, density)
			if density == 5 && n1 > 0 && n2 > 0 {
				if _, t := pooledTies(x1, x2); t {
					if n1 <= g.t && n2 <= g.t {
						w.Hit("sparse-ties/exact")
					} else {
						w.Hit("sparse-ties/approx")
					}
				}
			}
			c03Judge(w, c03Case{X1: x1, X2: x2, LimU: g.u, LimT: g.t})
		})
		r.Serial(class+"/limit-variables", 1, func(w *mon.W, _ int) {
			w.Eval("limit variables read back")
			if stats.MannWhitneyExactLimit != g.u || stats.MannWhitneyTiesExactLimit != g.t {
				w.Violate("limit-variable-modified", fmt.Sprintf("the public limit variables were set to (%d,%d) before the calls and read (%d,%d) after them: the library rewrote the caller's configuration", g.u, g.t, stats.MannWhitneyExactLimit, stats.MannWhitneyTiesExactLimit), c03Case{LimU: g.u, LimT: g.t})
			}
		})
		if ci == 1 {
			// everything approximate: the exhaustive small set too
			var comps [][]int
			maxN := r.Pick(7, 9)
			for N := 2; N <= maxN; N++ {
				ref.Compositions(N, 2, func(T []int) { comps = append(comps, append([]int(nil), T...)) })
			}
			r.Exhaustive(fmt.Sprintf("all (tie vector, allocation) with n1+n2<=%d under limits (0,0) (normal approximation on tiny samples)", maxN))
			r.Parallel("exhaustive-approx", len(comps), func(w *mon.W, i int) {
				T := comps[i]
				N := sumInts(T)
				ref.Allocations(T, func(a []int) {
					s := sumInts(a)
					if s == 0 || s == N {
						return
					}
					vals := incValues(w.Rng, len(T))
					x1, x2 := samplesFromAlloc(w.Rng, T, a, vals)
					c03Judge(w, c03Case{X1: x1, X2: x2})
				})
			})
		}
	}
	stats.MannWhitneyExactLimit, stats.MannWhitneyTiesExactLimit = defU, defT
	c03Large(r, defU, defT)
	if stats.MannWhitneyExactLimit != defU || stats.MannWhitneyTiesExactLimit != defT {
		r.Inconclusive("limit variables not restored")
	}
}

// c03RoundSizes: sizes at which an implementation plausibly changes its
// behaviour (block lengths, cutoffs of fast paths, widths of counters).
var c03RoundSizes = []int{500, 512, 1000, 1024, 2000, 2048, 4096, 5000, 8192, 10000, 16384, 20000, 25000, 30000, 32768, 40000, 50000, 65536, 100000, 131072, 150000}

// c03Large: the same judge on large samples under the default limits (always
// the approximate method: the pooled size is at least 400). Pooled sizes
// log-uniform from 400 to tens of thousands, and sizes (of the pool or of one
// sample) at or just beyond round numbers; all tie densities, among them the
// quantised one (a handful to N/4 levels), where every tie group is long.
// The pair count is obtained by sorting and counting (c03TwoU), the variance
// of the approximation from the exact integer numerator (approxP).
func c03Large(r *mon.Run, defU, defT int) {
	maxN := r.Pick(70000, 200000) // N^3 < 2^53: the stated variance is free of rounding surprises for all-equal data
	r.Gate("large/N>10000/ties", "large/N>10000/no-ties", "large/N>10000/all-equal", "large/round-size", "large/tie-group>=1000")
	r.Parallel("large-default-limits", r.Pick(168, 1680), func(w *mon.W, i int) {
		rng := w.Rng
		density := i % 7
		mode := (i / 7) % 4
		round := func(limit int) int {
			var ok []int
			for _, s := range c03RoundSizes {
				if s+3 <= limit {
					ok = append(ok, s)
				}
			}
			return ok[rng.Intn(len(ok))] + rng.PickI(0, 0, 1, 1, 2, 3, -1)
		}
		var n1, n2 int
		switch mode {
		case 0, 1, 2:
			var N int
			switch mode {
			case 0:
				N = int(rng.LogUniform(400, 10000))
			case 1:
				N = int(rng.LogUniform(10001, float64(maxN)))
			default:
				N = round(maxN)
				w.Hit("large/round-size")
			}
			switch rng.Intn(4) {
			case 0:
				n1 = N / 2
			case 1:
				n1 = rng.Range(1, N-1)
			case 2:
				n1 = rng.Range(1, 100)
			default:
				n1 = N - rng.Range(1, 100)
			}
			n2 = N - n1
		default: // one sample of a round size
			n1 = round(maxN / 2)
			n2 = int(rng.LogUniform(1, float64(maxN-n1)))
			if n1+n2 < 400 {
				n2 = 400 - n1
			}
			if rng.Bool() {
				n1, n2 = n2, n1
			}
			w.Hit("large/round-size")
		}
		x1, x2 := c03Pair(rng, n1, n2, density)
		T, ties := pooledTies(x1, x2)
		maxT := 0
		for _, t := range T {
			maxT = max(maxT, t)
		}
		N := n1 + n2
		w.HitIf(N > 10000 && ties && len(T) > 1, "large/N>10000/ties")
		w.HitIf(N > 10000 && !ties, "large/N>10000/no-ties")
		w.HitIf(N > 10000 && len(T) == 1, "large/N>10000/all-equal")
		w.HitIf(N <= 10000, "large/N<=10000")
		w.HitIf(N > 65536, "large/N>65536")
		w.HitIf(maxT >= 1000 && len(T) > 1, "large/tie-group>=1000")
		w.HitIf(ties && maxT <= 3, "large/sparse-ties")
		c03Judge(w, c03Case{X1: x1, X2: x2, LimU: defU, LimT: defT})
	})
}
