package props

import (
	"encoding/json"
	"fmt"
	"math"
	"math/big"
	"sort"
	"sync/atomic"

	"github.com/aclements/go-moremath/stats"

	"verifmon/mon"
	"verifmon/ref"
)

// C04 — t-tests and MeanCI return the textbook statistic, DoF and Student-t tails.

type c04Case struct {
	Test string    `json:"test"` // two, welch, paired, one, meanci
	Kind string    `json:"kind"` // sample, stream, struct
	X1   []float64 `json:"x1"`
	X2   []float64 `json:"x2"`
	Mu0  float64   `json:"mu0"`
	Alt  int       `json:"alt"`
	Conf mon.F     `json:"conf"`
}

func init() {
	mon.Register(&mon.Prop{ID: "C04", Run: c04Run, Replay: func(w *mon.W, v *mon.ViolationRec) {
		var c c04Case
		if json.Unmarshal(v.Case, &c) == nil {
			c04Judge(w, c)
		}
	}})
}

type plainTT struct{ n, m, v float64 }

func (p plainTT) Weight() float64   { return p.n }
func (p plainTT) Mean() float64     { return p.m }
func (p plainTT) Variance() float64 { return p.v }

const eps = 1.0 / (1 << 52)

// c04Sample wraps data as the requested TTestSample kind and returns the
// exact (n, mean, variance) the test is entitled to assume about it, plus the
// conditioning number |mean|/sd of computing them.
func c04Sample(kind string, xs []float64) (stats.TTestSample, *big.Float, *big.Float, float64) {
	m := ref.MomentsOf(xs)
	if m.N == 0 {
		switch kind {
		case "stream":
			return &stats.StreamStats{}, nil, nil, 0
		case "struct":
			return plainTT{0, math.NaN(), math.NaN()}, nil, nil, 0
		}
		return stats.Sample{Xs: xs}, nil, nil, 0
	}
	vr := m.Var
	if vr == nil {
		vr = ref.NF(0)
	}
	kappa := 0.0
	if vr.Sign() > 0 {
		kappa = math.Abs(ref.F64(m.Mean)) / math.Sqrt(ref.F64(vr))
	}
	switch kind {
	case "stream":
		// built from shards that are combined (sometimes with an empty one):
		// a t-test must not care how its StreamStats came to be
		s := &stats.StreamStats{}
		cut1, cut2 := len(xs)/3, (2*len(xs)+1)/3
		var a, b, e stats.StreamStats
		switch variant := (len(xs) + int(math.Float64bits(xs[0])>>7)) % 5; {
		case variant == 1 && len(xs) >= 4:
			// observe, extend, observe: the prefix is read (every statistic,
			// and a whole t-test) before the rest is merged in; what is
			// judged is the test on the extended stream
			w := &stats.StreamStats{}
			for _, x := range xs[:cut2] {
				w.Add(x)
			}
			mon.Call(func() {
				_, _, _, _ = w.Mean(), w.Variance(), w.StdDev(), w.RMS()
				_, _ = stats.OneSampleTTest(w, xs[0], stats.LocationDiffers)
			})
			switch (len(xs) + int(math.Float64bits(xs[len(xs)-1])>>9)) % 3 {
			case 0: // extend by merging
				var rest stats.StreamStats
				for _, x := range xs[cut2:] {
					rest.Add(x)
				}
				mon.Call(func() { _ = rest.Variance() })
				w.Combine(&rest)
			case 1: // extend by plain Adds after the reads
				for _, x := range xs[cut2:] {
					w.Add(x)
				}
			default: // both, with another read in between
				mid := cut2 + (len(xs)-cut2)/2
				for _, x := range xs[cut2:mid] {
					w.Add(x)
				}
				mon.Call(func() { _, _ = w.Variance(), w.Mean() })
				var rest stats.StreamStats
				for _, x := range xs[mid:] {
					rest.Add(x)
				}
				w.Combine(&rest)
			}
			c04StreamVariant.Add(1)
			return w, m.Mean, vr, kappa
		case variant == 3 && len(xs) >= 2:
			// a total built from the zero value: the first Combine has an
			// empty receiver (sometimes after merging an empty shard first)
			var total, e0, s1, s2 stats.StreamStats
			for i, x := range xs {
				if i < cut2 {
					s1.Add(x)
				} else {
					s2.Add(x)
				}
			}
			if len(xs)%2 == 0 {
				total.Combine(&e0)
			}
			total.Combine(&s1)
			total.Combine(&s2)
			c04StreamVariant.Add(1 << 40)
			return &total, m.Mean, vr, kappa
		case variant == 2 && len(xs) >= 3:
			// the sample under test is a stream that has served as the
			// ARGUMENT of Combine (into smaller and larger receivers): an
			// operand must come out of a merge as it went in
			op := &stats.StreamStats{}
			for _, x := range xs {
				op.Add(x)
			}
			var small, large stats.StreamStats
			small.Add(xs[0] + 1)
			for k := 0; k < 2*len(xs)+1; k++ {
				large.Add(xs[k%len(xs)]*0.5 - 3)
			}
			mon.Call(func() { small.Combine(op); large.Combine(op) })
			c04StreamVariant.Add(1 << 20)
			return op, m.Mean, vr, kappa
		}
		for i, x := range xs {
			switch {
			case len(xs)%2 == 0:
				s.Add(x)
			case i < cut1:
				s.Add(x)
			case i < cut2:
				a.Add(x)
			default:
				b.Add(x)
			}
		}
		if len(xs)%2 == 1 {
			a.Combine(&e)
			a.Combine(&b)
			s.Combine(&a)
		}
		return s, m.Mean, vr, kappa
	case "struct":
		// the struct's numbers are the inputs: the reference uses them exactly
		mf, vf := ref.F64(m.Mean), ref.F64(vr)
		return plainTT{float64(m.N), mf, vf}, ref.NF(mf), ref.NF(vf), 0
	}
	return stats.Sample{Xs: xs}, m.Mean, vr, kappa
}

// c04StreamVariant counts how often the two StreamStats history variants were
// built (low 20 bits: observe-extend-observe; next bits: used-as-operand).
var c04StreamVariant atomic.Int64

func bigAbs(x *big.Float) float64 { return math.Abs(ref.F64(x)) }

func c04Judge(w *mon.W, c c04Case) {
	if c.Test == "meanci" {
		c04MeanCI(w, c)
		return
	}
	alt := stats.LocationHypothesis(c.Alt)
	n1, n2 := len(c.X1), len(c.X2)
	x1 := append([]float64(nil), c.X1...)
	x2 := append([]float64(nil), c.X2...)

	var res *stats.TTestResult
	var err error
	var tStar, dofStar *big.Float
	var tolT, tolDof float64
	var wantErr error
	nn := float64(n1 + n2 + 2)
	// a computed mean carries an absolute error of about n*eps*max|x|
	mag := func(xs []float64) float64 {
		m := 0.0
		for _, x := range xs {
			m = math.Max(m, math.Abs(x))
		}
		return m
	}
	mag1, mag2 := mag(x1), mag(x2)

	switch c.Test {
	case "two", "welch":
		s1, m1, v1, k1 := c04Sample(c.Kind, x1)
		s2, m2, v2, k2 := c04Sample(c.Kind, x2)
		w.Eval("TwoSample" + map[string]string{"two": "", "welch": "Welch"}[c.Test] + "TTest")
		w.Hit("kind-" + c.Kind)
		if p, e := mon.Call(func() {
			if c.Test == "two" {
				res, err = stats.TwoSampleTTest(s1, s2, alt)
			} else {
				res, err = stats.TwoSampleWelchTTest(s1, s2, alt)
			}
		}); p {
			w.Violate("panic", fmt.Sprintf("%s t-test panicked: %v", c.Test, e), c)
			return
		}
		small := n1 == 0 || n2 == 0
		if c.Test == "welch" {
			small = n1 <= 1 || n2 <= 1
		}
		switch {
		case small:
			wantErr = stats.ErrSampleSize
		case n1 < 2 || n2 < 2:
			return // pooled test with a single value: outside the statement's domain
		case v1.Sign() == 0 && v2.Sign() == 0:
			wantErr = stats.ErrZeroVariance
		default:
			f1, f2 := ref.NI(int64(n1)), ref.NI(int64(n2))
			diff := ref.Sub(m1, m2)
			var se *big.Float
			if c.Test == "two" {
				dofStar = ref.NI(int64(n1 + n2 - 2))
				v12 := ref.Quo(ref.Add(ref.Mul(ref.NI(int64(n1-1)), v1), ref.Mul(ref.NI(int64(n2-1)), v2)), dofStar)
				se = ref.Sqrt(ref.Mul(v12, ref.Add(ref.Quo(ref.NF(1), f1), ref.Quo(ref.NF(1), f2))))
				tolDof = 0
			} else {
				a, b := ref.Quo(v1, f1), ref.Quo(v2, f2)
				se = ref.Sqrt(ref.Add(a, b))
				num := ref.Mul(ref.Add(a, b), ref.Add(a, b))
				den := ref.Add(ref.Quo(ref.Mul(a, a), ref.NI(int64(n1-1))), ref.Quo(ref.Mul(b, b), ref.NI(int64(n2-1))))
				dofStar = ref.Quo(num, den)
				tolDof = 64 * nn * eps * (1 + math.Max(k1, k2)) * ref.F64(dofStar)
				w.HitIf(n1 != n2 && ref.F64(v1) != ref.F64(v2), "welch-unequal-n-and-variance")
			}
			tStar = ref.Quo(diff, se)
			tolT = 16 * nn * eps * ((mag1+mag2)/ref.F64(se) + bigAbs(tStar)*(1+math.Max(k1, k2)))
			w.HitIf(v1.Sign() == 0 || v2.Sign() == 0, "one-sample-zero-variance")
		}
	case "paired":
		w.Eval("PairedTTest")
		if p, e := mon.Call(func() { res, err = stats.PairedTTest(x1, x2, c.Mu0, alt) }); p {
			w.Violate("panic", fmt.Sprintf("paired t-test panicked: %v", e), c)
			return
		}
		switch {
		case n1 != n2:
			wantErr = stats.ErrMismatchedSamples
		case n1 <= 1:
			wantErr = stats.ErrSampleSize
		default:
			// the differences are formed in float64 by definition of the
			// inputs? No: the textbook statistic uses the exact differences.
			d := make([]*big.Float, n1)
			sum := ref.NF(0)
			maxAbs := 0.0
			for i := range x1 {
				d[i] = ref.Sub(ref.NF(x1[i]), ref.NF(x2[i]))
				sum = ref.Add(sum, d[i])
				maxAbs = math.Max(maxAbs, math.Max(math.Abs(x1[i]), math.Abs(x2[i])))
			}
			mean := ref.Quo(sum, ref.NI(int64(n1)))
			m2 := ref.NF(0)
			for i := range d {
				e := ref.Sub(d[i], mean)
				m2 = ref.Add(m2, ref.Mul(e, e))
			}
			vr := ref.Quo(m2, ref.NI(int64(n1-1)))
			if vr.Sign() == 0 {
				wantErr = stats.ErrZeroVariance
				break
			}
			sd := ref.Sqrt(vr)
			se := ref.Quo(sd, ref.Sqrt(ref.NI(int64(n1))))
			tStar = ref.Quo(ref.Sub(mean, ref.NF(c.Mu0)), se)
			dofStar = ref.NI(int64(n1 - 1))
			// each float64 difference carries an error of eps*max|x|; that
			// moves the mean by as much and the sd by up to sqrt(n) as much
			kappa := (maxAbs + bigAbs(mean)) / ref.F64(sd)
			tolT = 16 * nn * eps * ((maxAbs+bigAbs(mean)+math.Abs(c.Mu0))/ref.F64(se) + bigAbs(tStar)*(1+kappa*math.Sqrt(float64(n1))))
			rounded := false
			for i := range x1 {
				if ref.NF(x1[i]-x2[i]).Cmp(d[i]) != 0 {
					rounded = true
				}
			}
			if !rounded {
				// every float64 difference is exact: the conditioning is
				// that of the differences themselves, however small they are
				// next to the data
				dmax := 0.0
				for i := range d {
					dmax = math.Max(dmax, bigAbs(d[i]))
				}
				kd := (dmax + bigAbs(mean)) / ref.F64(sd)
				tolT = 16 * nn * eps * ((dmax+bigAbs(mean)+math.Abs(c.Mu0))/ref.F64(se) + bigAbs(tStar)*(1+kd))
				w.Hit("paired-exact-differences")
			} else if ref.F64(sd) < 64*nn*eps*maxAbs {
				// the spread of the differences is at rounding level: the
				// float64 differences need not resemble the exact ones
				w.Ambiguous()
				return
			}
		}
	case "one":
		s1, m1, v1, k1 := c04Sample(c.Kind, x1)
		w.Eval("OneSampleTTest")
		w.Hit("kind-" + c.Kind)
		if p, e := mon.Call(func() { res, err = stats.OneSampleTTest(s1, c.Mu0, alt) }); p {
			w.Violate("panic", fmt.Sprintf("one-sample t-test panicked: %v", e), c)
			return
		}
		switch {
		case n1 == 0:
			wantErr = stats.ErrSampleSize
		case n1 < 2:
			return
		case v1.Sign() == 0:
			wantErr = stats.ErrZeroVariance
		default:
			se := ref.Quo(ref.Sqrt(v1), ref.Sqrt(ref.NI(int64(n1))))
			tStar = ref.Quo(ref.Sub(m1, ref.NF(c.Mu0)), se)
			dofStar = ref.NI(int64(n1 - 1))
			tolT = 16 * nn * eps * ((mag1+math.Abs(c.Mu0))/ref.F64(se) + bigAbs(tStar)*(1+k1))
		}
	}

	if wantErr != nil {
		w.Hit("error-" + wantErr.Error())
		if err != wantErr || res != nil {
			w.Violate("error", fmt.Sprintf("%s test: got (%v, %v), want error %q", c.Test, res, err, wantErr), c)
		}
		return
	}
	if err != nil || res == nil {
		w.Violate("error", fmt.Sprintf("%s test: unexpected error %v", c.Test, err), c)
		return
	}
	ts, ds := ref.F64(tStar), ref.F64(dofStar)
	w.HitIf(math.Abs(ts) < 1e-6, "tiny-T")
	w.HitIf(math.Abs(ts) > 30, "huge-T")
	wantN2 := n2
	if c.Test == "one" {
		wantN2 = 0
	}
	if res.N1 != n1 || res.N2 != wantN2 || res.AltHypothesis != alt {
		w.Violate("fields", fmt.Sprintf("%s test: N1=%d N2=%d Alt=%v", c.Test, res.N1, res.N2, res.AltHypothesis), c)
	}
	if !w.Err("T", math.Abs(res.T-ts), tolT+1e-300) {
		w.Violate("T", fmt.Sprintf("%s test: T=%.17g, textbook value %.17g (tolerance %.3g)", c.Test, res.T, ts, tolT), c)
		return
	}
	if !w.Err("DoF", math.Abs(res.DoF-ds), tolDof+1e-300) {
		w.Violate("DoF", fmt.Sprintf("%s test: DoF=%.17g, textbook value %.17g (tolerance %.3g)", c.Test, res.DoF, ds, tolDof), c)
		return
	}
	// P against the envelope of the reference t CDF over the tolerance box
	pAt := func(t, dof float64) float64 {
		switch alt {
		case stats.LocationLess:
			return ref.TCDF(dof, t)
		case stats.LocationGreater:
			return ref.TCDF(dof, -t)
		default:
			return 2 * ref.TCDF(dof, -math.Abs(t))
		}
	}
	lo, hi := math.Inf(1), math.Inf(-1)
	for _, t := range []float64{ts - tolT, ts, ts + tolT} {
		for _, d := range []float64{ds - tolDof, ds + tolDof} {
			p := pAt(t, d)
			lo, hi = math.Min(lo, p), math.Max(hi, p)
		}
	}
	if alt == stats.LocationDiffers && ts-tolT < 0 && ts+tolT > 0 {
		hi = 1
	}
	dist := 0.0
	if res.P < lo {
		dist = lo - res.P
	} else if res.P > hi {
		dist = res.P - hi
	}
	if band := c04DofBand(ds); band != "" {
		// beyond the 2..40 values of the basic workload: which region of
		// degrees of freedom the reference puts this test in, and whether the
		// oracle could tell the Student-t tail from the normal one there
		// (reference-side quantities only)
		w.Hit(band)
		w.Hit(c.Test + "-" + band)
		var pn float64
		switch alt {
		case stats.LocationLess:
			pn = c04Phi(ts)
		case stats.LocationGreater:
			pn = c04Phi(-ts)
		default:
			pn = 2 * c04Phi(-math.Abs(ts))
		}
		w.HitIf(math.Abs(pAt(ts, ds)-pn) > 1e-7 && hi-lo < 1e-8, band+":P-differs-from-normal-tail-by>1e-7")
	}
	if !w.Err("P", dist, 1e-9) || math.IsNaN(res.P) {
		w.Violate("P", fmt.Sprintf("%s test alt=%v: P=%.12g, Student-t reference in [%.12g, %.12g] (T=%.10g DoF=%.10g)", c.Test, alt, res.P, lo, hi, ts, ds), c)
	}
	if w.WantSample() {
		w.Sample(map[string]any{"test": c.Test, "kind": c.Kind, "n1": n1, "n2": n2, "alt": alt.String(), "T": res.T, "T_ref": ts, "DoF": res.DoF, "P": res.P, "P_ref_lo": lo, "P_ref_hi": hi})
	}
}

func c04MeanCI(w *mon.W, c c04Case) {
	xs := append([]float64(nil), c.X1...)
	conf := float64(c.Conf)
	var mean, lo, hi float64
	w.Eval("MeanCI")
	if p, e := mon.Call(func() {
		if c.Kind == "sample" {
			mean, lo, hi = stats.Sample{Xs: xs}.MeanCI(conf)
		} else {
			mean, lo, hi = stats.MeanCI(xs, conf)
		}
	}); p {
		w.Violate("panic", fmt.Sprintf("MeanCI panicked: %v", e), c)
		return
	}
	n := len(xs)
	if n == 0 {
		w.Hit("meanci-empty")
		if !math.IsNaN(mean) || !math.IsNaN(lo) || !math.IsNaN(hi) {
			w.Violate("meanci-empty", fmt.Sprintf("MeanCI(empty,%g)=(%g,%g,%g), want NaNs", conf, mean, lo, hi), c)
		}
		return
	}
	m := ref.MomentsOf(xs)
	mf := ref.F64(m.Mean)
	maxAbs := 0.0
	for _, x := range xs {
		maxAbs = math.Max(maxAbs, math.Abs(x))
	}
	tolM := 16 * float64(n+2) * eps * maxAbs
	if !w.Err("meanci-mean", math.Abs(mean-mf), tolM+1e-300) {
		w.Violate("meanci-mean", fmt.Sprintf("MeanCI mean=%.17g, exact %.17g", mean, mf), c)
		return
	}
	switch {
	case conf <= 0:
		w.Hit("meanci-c<=0")
		if lo != mean || hi != mean {
			w.Violate("meanci-zero-width", fmt.Sprintf("MeanCI(c=%g)=(%g,%g,%g), want zero width", conf, mean, lo, hi), c)
		}
	case conf >= 1 || n <= 1:
		w.Hit("meanci-infinite")
		if !math.IsInf(lo, -1) || !math.IsInf(hi, 1) {
			w.Violate("meanci-infinite", fmt.Sprintf("MeanCI(n=%d,c=%g)=(%g,%g,%g), want infinite width", n, conf, mean, lo, hi), c)
		}
	default:
		w.Hit("meanci-regular")
		sd := math.Sqrt(ref.F64(m.Var))
		if sd == 0 {
			if lo != mean || hi != mean {
				w.Violate("meanci-zero-sd", fmt.Sprintf("MeanCI of constant data=(%g,%g,%g)", mean, lo, hi), c)
			}
			return
		}
		se := sd / math.Sqrt(float64(n))
		// symmetric about the mean
		if math.Abs((hi-mean)-(mean-lo)) > 8*(ulp(hi)+ulp(lo)+ulp(mean)) {
			w.Violate("meanci-symmetric", fmt.Sprintf("MeanCI=(%.17g,%.17g,%.17g) not symmetric", mean, lo, hi), c)
		}
		// Student-t content of the interval must be c
		nu := float64(n - 1)
		tl := ref.F64(ref.Quo(ref.Sub(ref.NF(lo), m.Mean), ref.NF(se)))
		th := ref.F64(ref.Quo(ref.Sub(ref.NF(hi), m.Mean), ref.NF(se)))
		content := ref.TCDF(nu, th) - ref.TCDF(nu, tl)
		if tl < 0 && th > 0 {
			content = 1 - c04TLower(nu, tl) - c04TLower(nu, -th)
		}
		kappa := math.Abs(mf) / sd
		relT := 32 * float64(n+2) * eps * (1 + kappa) // relative error of the half width in t units
		slack := relT*math.Abs(th)*ref.TPDF(nu, th)*2 + 2*tolM/se*ref.TPDF(nu, th)
		w.HitIf(conf < 1e-6, "meanci-tiny-c")
		w.HitIf(conf > 1-1e-6, "meanci-c-near-1")
		if band := c04DofBand(nu); band != "" {
			w.Hit("meanci-" + band)
			// the normal-theory interval for the same c would have a Student-t
			// content visibly different from c, and the oracle is sharp enough
			// to see it (reference-side quantities only)
			if conf > 1e-3 && conf < 1-1e-9 {
				z := math.Sqrt2 * math.Erfinv(conf) // P(|Z| < z) = c
				w.HitIf(math.Abs(2*c04TLower(nu, -z)-ref.F64(ref.Sub(ref.NF(1), ref.NF(conf)))) > 100*(math.Min(1e-9, 1e-6*math.Min(conf, 1-conf))+4e-15+slack), "meanci-"+band+":normal-interval-content-off-by>100tol")
			}
		}
		// The content must be c; near the ends of [0,1] an absolute 1e-9 says
		// nothing, so there the tolerance is relative to min(c, 1-c) (1e-6 of
		// it) plus 4e-15 for the rounding of 1-(1-c)/2 that any
		// implementation working through the upper quantile incurs. Near 1
		// the comparison is made on the two tails, which are computed
		// without cancellation.
		tolC := math.Min(1e-9, 1e-6*math.Min(conf, 1-conf)) + 4e-15 + slack
		errC := math.Abs(content - conf)
		if conf > 0.5 && tl < 0 && th > 0 {
			tails := c04TLower(nu, tl) + c04TLower(nu, -th)
			errC = math.Abs(tails - ref.F64(ref.Sub(ref.NF(1), ref.NF(conf))))
		}
		if !w.Err("meanci-content", errC, tolC) {
			w.Violate("meanci-content", fmt.Sprintf("MeanCI(n=%d,c=%.17g)=(%.12g,%.12g,%.12g): Student-t content of the interval is %.12g, i.e. 1-content=%.6g against 1-c=%.6g", n, conf, mean, lo, hi, content, 1-content, 1-conf), c)
		}
		if w.WantSample() {
			w.Sample(map[string]any{"op": "MeanCI", "n": n, "c": conf, "mean": mean, "lo": lo, "hi": hi, "t_content_ref": content})
		}
	}
}

// c04Data draws a sample of n values of moderate magnitude with relative
// spread >= 1e-6.
func c04Data(rng *mon.Rand, n int) []float64 {
	centre := 0.0
	switch rng.Intn(4) {
	case 0:
		centre = rng.Sign() * rng.LogUniform(1, 9e5)
	case 1:
		centre = rng.Uniform(-10, 10)
	}
	spread := rng.LogUniform(1e-3, 1e4)
	if centre != 0 && rng.Bool() {
		spread = math.Abs(centre) * rng.LogUniform(2e-6, 1)
	}
	if math.Abs(centre)+6*spread > 1e6 {
		spread = (1e6 - math.Abs(centre)) / 6
	}
	if spread < 2e-6*math.Abs(centre) {
		spread = 2e-6 * math.Abs(centre)
	}
	xs := make([]float64, n)
	kind := rng.Intn(3)
	for i := range xs {
		var z float64
		switch kind {
		case 0:
			z = rng.Norm()
		case 1:
			z = rng.Uniform(-2, 2)
		default:
			z = float64(rng.Intn(7) - 3) // ties
		}
		if z > 5 {
			z = 5
		}
		if z < -5 {
			z = -5
		}
		xs[i] = centre + spread*z
	}
	return xs
}

func hasSpread(xs []float64) bool {
	for _, x := range xs {
		if x != xs[0] {
			return true
		}
	}
	return false
}

func c04Run(r *mon.Run) {
	r.Rule("random samples of 2..40 finite values, |x|<=1e6, relative spread >=1e-6, equal/unequal sizes and variances, ties, one constant sample; mu0 from within 1e-9 standard errors of the mean to 30+ standard errors away; 3 alternatives; Sample, *StreamStats and a plain struct as TTestSample; related calls: swapped samples, power-of-two scaling, shifts; error inputs; MeanCI for c in [0,1] incl. 0,1,1e-12,1-1e-12. Large samples (classes tests-large, meanci-large): the same battery and related calls on 41..6000 values per sample, sizes log-uniform in five bands (41-100, 101-300, 301-1000, 1001-3000, 3001-6000) crossed with test, kind and alternative; equal sizes, both anywhere in the band, 2..40 values against a band size, and a ratio of 20..100; half of the two-sample cases placed at a statistic within 6 standard errors; every band of degrees of freedom (40-100 ... >3000) is gated per test and for MeanCI, together with cases where the reference tail (interval content) differs from the normal-theory one by more than 1e-7 (100 tolerances). Non-trivial = hits a class; distinct by hash of inputs.")
	r.Assume("means/variances/T/DoF recomputed at 384 bits from the exact float64 inputs; Student-t reference: closed form (integer DoF) / gonum mathext (Welch); above 40 DoF the interval tails of MeanCI come from the directly evaluated incomplete beta (relative accuracy); at start-up the references are compared with each other, the quadrature of the density, the 384-bit closed form (even DoF) and Fisher's expansion about the normal for 41..20000 DoF", "tolerances follow the conditioning |mean|/sd of the inputs (DESIGN section 4b)")
	r.Gate("meanci-data-scaled-down-by-2^-20..-200", "meanci-data-scaled-below-1e-12", "both-constant-and-equal", "paired-exact-differences", "paired-correlated-small-differences", "scaled-down-by-2^-20..-200", "equal-variances-unequal-sizes", "welch-unequal-n-and-variance", "tiny-T", "huge-T", "kind-sample", "kind-stream", "kind-struct",
		"error-"+stats.ErrSampleSize.Error(), "error-"+stats.ErrZeroVariance.Error(), "error-"+stats.ErrMismatchedSamples.Error(),
		"meanci-empty", "meanci-c<=0", "meanci-infinite", "meanci-regular", "one-sample-zero-variance", "meanci-tiny-c", "meanci-c-near-1")
	for _, b := range c04DofBands {
		for _, t := range []string{"two", "welch", "paired", "one"} {
			r.Gate(t + "-" + b)
		}
		r.Gate(b+":P-differs-from-normal-tail-by>1e-7", "meanci-"+b, "meanci-"+b+":normal-interval-content-off-by>100tol")
	}
	r.Gate("sizes-in-a-ratio>=20", "large-two-sample-T-placed-within-6-standard-errors")
	if err := c04RefSelfTest(); err != nil {
		r.Inconclusive("reference self-test failed: " + err.Error())
		return
	}
	tests := []string{"two", "welch", "paired", "one"}
	kinds := []string{"sample", "stream", "struct"}
	r.Parallel("tests", r.Pick(24000, 200000), func(w *mon.W, i int) {
		c04TestsCase(w, i, false, func(rng *mon.Rand, test string) (int, int) {
			n1 := rng.Range(2, 40)
			n2 := rng.Range(2, 40)
			if rng.Intn(3) == 0 {
				n2 = n1
			}
			return n1, n2
		})
	})
	// the same battery on samples of 41 to 6000 values: every test, kind and
	// alternative in every band of sizes, equal, unequal and very unequal
	// sizes; this is where the Student-t tail with hundreds and thousands of
	// degrees of freedom is read
	r.Parallel("tests-large", r.Pick(480, 6000), func(w *mon.W, i int) {
		c04TestsCase(w, i, true, func(rng *mon.Rand, test string) (int, int) {
			band := (i / 12) % len(c04SizeBands)
			n1, n2 := c04BandSize(rng, band), c04BandSize(rng, band)
			switch (i/60 + rng.Intn(2)) % 4 {
			case 0: // equal sizes
				n2 = n1
			case 1: // both anywhere in the band
			case 2: // a handful of values against hundreds or thousands
				n1 = rng.Range(2, 40)
			default: // a fixed large ratio
				n2 = n1 / rng.Range(20, 100)
				if n2 < 2 {
					n2 = 2
				}
			}
			if rng.Bool() {
				n1, n2 = n2, n1
			}
			if test == "paired" || test == "one" {
				n1 = c04BandSize(rng, band)
			}
			if test == "one" {
				n2 = 2 // not part of the test
			}
			return n1, n2
		})
	})
	// error inputs
	r.Parallel("errors", r.Pick(600, 6000), func(w *mon.W, i int) {
		rng := w.Rng
		test := tests[i%4]
		c := c04Case{Test: test, Kind: kinds[(i/4)%3], Alt: int(alts[rng.Intn(3)])}
		switch rng.Intn(5) {
		case 0: // empty
			c.X1, c.X2 = nil, c04Data(rng, rng.Range(0, 5))
			if rng.Bool() {
				c.X1, c.X2 = c.X2, c.X1
			}
		case 1: // single value
			c.X1, c.X2 = c04Data(rng, 1), c04Data(rng, rng.Range(1, 5))
			if rng.Bool() {
				c.X1, c.X2 = c.X2, c.X1
			}
		case 2: // zero variance in both
			n1, n2 := rng.Range(2, 10), rng.Range(2, 10)
			if test == "paired" {
				n2 = n1
			}
			a, b := rng.Uniform(-100, 100), rng.Uniform(-100, 100)
			if rng.Intn(3) == 0 {
				b = a // the same constant in both samples
				w.Hit("both-constant-and-equal")
			}
			c.X1, c.X2 = make([]float64, n1), make([]float64, n2)
			for k := range c.X1 {
				c.X1[k] = a
			}
			for k := range c.X2 {
				c.X2[k] = b
			}
		case 3: // mismatched lengths
			c.X1, c.X2 = c04Data(rng, rng.Range(2, 10)), c04Data(rng, rng.Range(11, 20))
		default: // paired with constant difference
			n := rng.Range(2, 10)
			c.X1 = c04Data(rng, n)
			c.X2 = make([]float64, n)
			for k := range c.X2 {
				c.X2[k] = c.X1[k] - 4
			}
			for k := range c.X1 { // make the data integers so the differences are exactly constant
				c.X1[k] = math.Round(c.X1[k])
				c.X2[k] = c.X1[k] - 4
			}
		}
		c.Mu0 = rng.Uniform(-1, 1)
		if len(c.X1) > 0 && rng.Intn(3) == 0 {
			c.Mu0 = c.X1[0] // a constant sample tested against its own value
		}
		w.Distinct(mon.NewHasher().S("err").S(test).S(c.Kind).Fs(c.X1).Fs(c.X2).Sum())
		c04Judge(w, c)
	})
	r.Parallel("meanci", r.Pick(10000, 80000), func(w *mon.W, i int) {
		c04MeanCICase(w, i, false, func(rng *mon.Rand) int { return rng.Range(2, 40) })
	})
	// intervals from 41 to 6000 values, every band of sizes for both entry points
	r.Parallel("meanci-large", r.Pick(400, 5000), func(w *mon.W, i int) {
		c04MeanCICase(w, i, true, func(rng *mon.Rand) int { return c04BandSize(rng, (i/2)%len(c04SizeBands)) })
	})
	v := c04StreamVariant.Load()
	r.Extra("streams_observed_then_extended_then_tested", v&(1<<20-1))
	r.Extra("streams_tested_after_serving_as_Combine_operand", (v>>20)&(1<<20-1))
	r.Extra("streams_built_by_Combine_into_the_zero_value", v>>40)
	if v&(1<<20-1) == 0 || (v>>20)&(1<<20-1) == 0 || v>>40 == 0 {
		r.Inconclusive("a StreamStats history variant was never built")
	}
}

// c04TestsCase builds case i of the t-test battery with sample sizes from
// `sizes` and judges it with its related calls (all alternatives, swapped
// samples, scaled and shifted data). `large` marks the class of samples beyond
// 40 values.
func c04TestsCase(w *mon.W, i int, large bool, sizes func(rng *mon.Rand, test string) (int, int)) {
	tests := []string{"two", "welch", "paired", "one"}
	kinds := []string{"sample", "stream", "struct"}
	rng := w.Rng
	test := tests[i%4]
	c := c04Case{Test: test, Kind: kinds[(i/4)%3]}
	n1, n2 := sizes(rng, test)
	if test == "paired" {
		n2 = n1
	}
	c.X1 = c04Data(rng, n1)
	c.X2 = c04Data(rng, n2)
	if !large && (test == "two" || test == "welch") && i%16 == 5 && len(c04EqualVar) > 0 {
		// unequal sizes with bit-identical variances (exact small-integer
		// data, scaled by a power of two): pooled and Welch DoF differ here
		pr := c04EqualVar[rng.Intn(len(c04EqualVar))]
		f := math.Ldexp(1, rng.Range(-6, 6))
		off := float64(rng.Range(-8, 8))
		c.X1, c.X2 = scaled(pr[0], f, off*f), scaled(pr[1], f, float64(rng.Range(-8, 8))*f)
		if rng.Bool() {
			c.X1, c.X2 = c.X2, c.X1
		}
		rng.ShuffleF(c.X1)
		rng.ShuffleF(c.X2)
		w.Hit("equal-variances-unequal-sizes")
	}
	if test == "paired" && i%12 == 6 {
		// correlated pairs: x2 = x1 - (small, exactly representable
		// differences), the situation the paired test is made for
		g := math.Ldexp(1, rng.Range(-40, -2))
		for k := range c.X2 {
			c.X1[k] = math.Round(c.X1[k])
			c.X2[k] = c.X1[k] - float64(rng.Range(-3, 9))*g
		}
		w.Hit("paired-correlated-small-differences")
	}
	switch rng.Intn(6) {
	case 0: // same location: small T
		m1, m2 := ref.F64(ref.MomentsOf(c.X1).Mean), ref.F64(ref.MomentsOf(c.X2).Mean)
		for k := range c.X2 {
			c.X2[k] += m1 - m2
		}
	case 1: // one constant sample
		if test != "paired" {
			for k := range c.X2 {
				c.X2[k] = c.X2[0]
			}
		}
	}
	if test == "two" || test == "welch" {
		lo, hi := math.Min(float64(n1), float64(n2)), math.Max(float64(n1), float64(n2))
		w.HitIf(hi >= 20*lo, "sizes-in-a-ratio>=20")
	}
	if large && (test == "two" || test == "welch") && rng.Bool() {
		// independent centres make |T| huge with this many values: half of
		// the large two-sample cases are moved to a statistic of u in [-6, 6]
		// standard errors, where a p-value says something about the tail
		m1, m2 := ref.MomentsOf(c.X1), ref.MomentsOf(c.X2)
		se := math.Sqrt(ref.F64(m1.Var)/float64(n1) + ref.F64(m2.Var)/float64(n2))
		delta := ref.F64(m1.Mean) - ref.F64(m2.Mean) - rng.Uniform(-6, 6)*se
		moved := scaled(c.X2, 1, delta)
		ok := se > 0
		for _, x := range moved {
			ok = ok && math.Abs(x) <= 1e6
		}
		if ok {
			c.X2 = moved
			w.Hit("large-two-sample-T-placed-within-6-standard-errors")
		}
	}
	// mu0 for paired and one-sample
	if test == "paired" || test == "one" {
		var m ref.Moments
		if test == "one" {
			m = ref.MomentsOf(c.X1)
		} else {
			d := make([]float64, n1)
			for k := range d {
				d[k] = c.X1[k] - c.X2[k]
			}
			m = ref.MomentsOf(d)
		}
		mean := ref.F64(m.Mean)
		se := math.Sqrt(ref.F64(m.Var) / float64(m.N))
		switch rng.Intn(5) {
		case 0:
			c.Mu0 = mean + se*rng.Sign()*rng.LogUniform(1e-10, 1e-7)
		case 1:
			c.Mu0 = mean + se*rng.Sign()*rng.Uniform(30, 100)
		case 2:
			c.Mu0 = 0
		default:
			c.Mu0 = mean + se*rng.Norm()*2
		}
		if test == "paired" && rng.Intn(4) == 0 {
			// well separated pairs, tiny T via mu0 handled above
		}
	}
	h := mon.NewHasher().S(test).S(c.Kind).Fs(c.X1).Fs(c.X2).F(c.Mu0)
	for _, alt := range alts {
		c.Alt = int(alt)
		c04Judge(w, c)
	}
	// related calls: swap, scaling by a power of two, shift
	if test == "two" || test == "welch" {
		sw := c
		sw.X1, sw.X2 = c.X2, c.X1
		for _, alt := range alts {
			sw.Alt = int(alt)
			c04Judge(w, sw)
		}
		c04SwapLaw(w, c)
	}
	sc := c
	f := math.Ldexp(1, rng.Range(-8, 4))
	switch rng.Intn(3) {
	case 0:
		f = rng.LogUniform(1e-3, 1)
	case 1: // far down: an absolute threshold anywhere in the computation shows
		f = math.Ldexp(1, -rng.Range(20, 200))
		w.Hit("scaled-down-by-2^-20..-200")
	}
	sc.X1, sc.X2 = scaled(c.X1, f, 0), scaled(c.X2, f, 0)
	sc.Mu0 = c.Mu0 * f
	sh := c
	off := rng.Uniform(-1000, 1000)
	sh.X1, sh.X2 = scaled(c.X1, 1, off), scaled(c.X2, 1, off)
	if test == "one" {
		sh.Mu0 = c.Mu0 + off
	}
	if test == "paired" {
		sh.Mu0 = c.Mu0
	}
	for _, alt := range alts {
		sc.Alt, sh.Alt = int(alt), int(alt)
		c04Judge(w, sc)
		c04Judge(w, sh)
	}
	w.Distinct(h.Sum())
}

// c04SizeBands are the bands of sample sizes of the classes beyond 40 values;
// c04BandSize draws a size log-uniformly from one of them.
var c04SizeBands = [][2]int{{41, 100}, {101, 300}, {301, 1000}, {1001, 3000}, {3001, 6000}}

func c04BandSize(rng *mon.Rand, band int) int {
	b := c04SizeBands[band]
	n := int(rng.LogUniform(float64(b[0]), float64(b[1]+1)))
	if n < b[0] {
		n = b[0]
	}
	if n > b[1] {
		n = b[1]
	}
	return n
}

// c04DofBand names the region of degrees of freedom beyond the basic workload
// ("" up to 40).
func c04DofBand(dof float64) string {
	switch {
	case !(dof > 40):
		return ""
	case dof <= 100:
		return "dof-40..100"
	case dof <= 300:
		return "dof-100..300"
	case dof <= 1000:
		return "dof-300..1000"
	case dof <= 3000:
		return "dof-1000..3000"
	}
	return "dof>3000"
}

var c04DofBands = []string{"dof-40..100", "dof-100..300", "dof-300..1000", "dof-1000..3000", "dof>3000"}

// c04TLower is the reference P(T <= t) used for the two tails of a confidence
// interval. The finite closed form computes a tail as 0.5 - A/2 from a sum of
// nu/2 terms: exact enough for the few terms of nu <= 40, but with hundreds
// of terms the rounding of the sum (about 1e-14) is all that is left of a tail
// of 1e-12, and the tolerance near c = 1 is relative to 1-c. Beyond 40
// degrees of freedom the tail below -1 therefore comes from the directly
// evaluated incomplete beta (ref.TTail: relative error below 1e-10 against
// the 384-bit closed form and the quadrature of the density, checked at
// start-up).
func c04TLower(nu, t float64) float64 {
	if nu > 40 && t <= -1 {
		return ref.TTail(nu, -t)
	}
	return ref.TCDF(nu, t)
}

// c04Phi is the standard normal CDF (only used to decide, on the reference
// side, whether a case could tell a Student-t tail from a normal one).
func c04Phi(x float64) float64 { return 0.5 * math.Erfc(-x/math.Sqrt2) }

// c04MeanCICase builds and judges case i of the MeanCI workload with the
// sample size from `nOf` (`large`: beyond 40 values, no empty or single-value
// input).
func c04MeanCICase(w *mon.W, i int, large bool, nOf func(rng *mon.Rand) int) {
	rng := w.Rng
	c := c04Case{Test: "meanci", Kind: []string{"slice", "sample"}[i%2]}
	n := nOf(rng)
	switch rng.Intn(12) {
	case 0:
		if !large {
			n = 0
		}
	case 1:
		if !large {
			n = 1
		}
	}
	c.X1 = c04Data(rng, n)
	// a share of the data sets is rescaled (the content of the interval
	// is scale-free): by a power of two, exactly, or by any factor
	switch rng.Intn(6) {
	case 0:
		f := math.Ldexp(1, -rng.Range(20, 200))
		for k := range c.X1 {
			c.X1[k] *= f
		}
		w.Hit("meanci-data-scaled-down-by-2^-20..-200")
	case 1:
		f := math.Pow(10, rng.Uniform(-60, 60))
		for k := range c.X1 {
			c.X1[k] *= f
		}
		w.HitIf(f < 1e-12, "meanci-data-scaled-below-1e-12")
	}
	var conf float64
	switch rng.Intn(10) {
	case 0:
		conf = 0
	case 1:
		conf = 1
	case 2:
		conf = 1e-12
	case 3:
		conf = 1 - 1e-12
	case 4:
		conf = -rng.Float64()
	case 5:
		conf = 1 + rng.Float64()
	case 6:
		conf = rng.Pick(0.5, 0.9, 0.95, 0.99, 0.999)
	case 7:
		conf = rng.LogUniform(1e-9, 1e-6)
	case 8:
		conf = 1 - rng.LogUniform(1e-9, 1e-6)
	default:
		conf = rng.Float64()
	}
	c.Conf = mon.F(conf)
	w.Distinct(mon.NewHasher().S("ci").Fs(c.X1).F(conf).Sum())
	c04Judge(w, c)
}

// c04RefSelfTest checks the Student-t reference where the large-sample classes
// use it (40 to 20000 degrees of freedom, integer and not): the closed form
// and the incomplete-beta form against the quadrature of the density, and all
// of them against Fisher's expansion about the normal distribution
// (Abramowitz & Stegun 26.7.8), which none of them is built from.
func c04RefSelfTest() error {
	phi := func(x float64) float64 { return math.Exp(-x*x/2) / math.Sqrt(2*math.Pi) }
	for _, nu := range []float64{41, 77, 160, 333, 999, 1000, 1001, 1024, 2500, 5999, 11998, 19999} {
		for _, t := range []float64{-9, -4.5, -3, -1.7, -0.6, -1e-3, 1e-7, 0.3, 1, 2.2, 3.7, 6, 14} {
			q := ref.TCDFQuad(nu, t)
			if a := ref.TCDF(nu, t); !(math.Abs(a-q) <= 2e-11) {
				return fmt.Errorf("t CDF nu=%g t=%g: closed form %.15g, quadrature %.15g", nu, t, a, q)
			}
			for _, h := range []float64{nu - 0.37, nu, nu + 0.5} {
				b, qh := ref.TCDFBeta(h, t), ref.TCDFQuad(h, t)
				if !(math.Abs(b-qh) <= 2e-11) {
					return fmt.Errorf("t CDF nu=%g t=%g: incomplete beta %.15g, quadrature %.15g", h, t, b, qh)
				}
				if math.Abs(t) <= 6 {
					t2 := t * t
					g1 := t * (t2 + 1) / 4
					g2 := t * (((3*t2-7)*t2-5)*t2 - 3) / 96
					g3 := t * (((((t2-11)*t2+14)*t2+6)*t2-3)*t2 - 15) / 384
					f := c04Phi(t) - phi(t)*(g1/h+g2/(h*h)+g3/(h*h*h))
					// the next term is of the order t^15/nu^4 (measured: below
					// 1e-4 of this envelope); the first one is t^3/(4 nu)
					bound := 2e-11 + 1e-3*phi(t)*math.Pow(1+math.Abs(t), 15)/(h*h*h*h)
					if !(math.Abs(b-f) <= bound) {
						return fmt.Errorf("t CDF nu=%g t=%g: reference %.15g, Fisher expansion %.15g (bound %.3g)", h, t, b, f, bound)
					}
				}
			}
		}
	}
	// the tails, in relative terms: incomplete beta against the quadrature of
	// the density over [t, inf) and, for even nu, the closed form at 384 bits
	for _, nu := range []float64{41, 42, 99.5, 500, 1000, 1001, 2999.3, 5999, 6000, 12000} {
		for _, t := range []float64{1, 1.8, 3, 4.4, 6, 7.2, 9, 13} {
			a, q := ref.TTail(nu, t), ref.TTailQuad(nu, t)
			if !(math.Abs(a/q-1) <= 1e-10) {
				return fmt.Errorf("t tail nu=%g t=%g: incomplete beta %.15g, quadrature %.15g", nu, t, a, q)
			}
			if nu == math.Floor(nu) && int(nu)%2 == 0 {
				if e := ref.TTailEven(int(nu), t); !(math.Abs(a/e-1) <= 1e-10) {
					return fmt.Errorf("t tail nu=%g t=%g: incomplete beta %.15g, closed form at 384 bits %.15g", nu, t, a, e)
				}
			}
			if c := ref.TCDF(nu, -t); !(math.Abs(a-c) <= 2e-11) {
				return fmt.Errorf("t tail nu=%g t=%g: incomplete beta %.15g, CDF reference %.15g", nu, t, a, c)
			}
		}
	}
	return nil
}

// c04EqualVar: pairs of small-integer samples of different sizes whose sample
// variances are exactly equal (found by enumeration at start-up).
var c04EqualVar = func() [][2][]float64 {
	type key struct{ num, den int } // variance as a reduced fraction SS*n... compared exactly via cross-multiplication
	byVar := map[[2]int][][]float64{}
	gcd := func(a, b int) int {
		for b != 0 {
			a, b = b, a%b
		}
		return a
	}
	var rec func(cur []int, minv int)
	rec = func(cur []int, minv int) {
		if n := len(cur); n >= 2 {
			sum, sq := 0, 0
			for _, v := range cur {
				sum += v
				sq += v * v
			}
			// var = (n*sq - sum^2) / (n*(n-1))
			num, den := n*sq-sum*sum, n*(n-1)
			if num > 0 {
				g := gcd(num, den)
				xs := make([]float64, n)
				for i, v := range cur {
					xs[i] = float64(v)
				}
				byVar[[2]int{num / g, den / g}] = append(byVar[[2]int{num / g, den / g}], xs)
			}
		}
		if len(cur) == 6 {
			return
		}
		for v := minv; v <= 4; v++ {
			rec(append(cur, v), v)
		}
	}
	rec(nil, 0)
	var out [][2][]float64
	for _, list := range byVar {
		for i := 0; i < len(list) && len(out) < 4000; i++ {
			for j := i + 1; j < len(list); j++ {
				if len(list[i]) != len(list[j]) && stats.Variance(list[i]) == stats.Variance(list[j]) {
					out = append(out, [2][]float64{list[i], list[j]})
					break
				}
			}
		}
	}
	sort.Slice(out, func(a, b int) bool { return fmt.Sprint(out[a]) < fmt.Sprint(out[b]) })
	return out
}()

func scaled(xs []float64, f, off float64) []float64 {
	out := make([]float64, len(xs))
	for i, x := range xs {
		out[i] = x*f + off
	}
	return out
}

// c04SwapLaw: swapping the samples negates T and exchanges the one-sided
// p-values (compared directly, both results coming from the library).
func c04SwapLaw(w *mon.W, c c04Case) {
	call := func(a, b []float64, alt stats.LocationHypothesis) *stats.TTestResult {
		var res *stats.TTestResult
		mon.Call(func() {
			if c.Test == "two" {
				res, _ = stats.TwoSampleTTest(stats.Sample{Xs: a}, stats.Sample{Xs: b}, alt)
			} else {
				res, _ = stats.TwoSampleWelchTTest(stats.Sample{Xs: a}, stats.Sample{Xs: b}, alt)
			}
		})
		return res
	}
	if !hasSpread(c.X1) && !hasSpread(c.X2) {
		return
	}
	l, g, d := call(c.X1, c.X2, stats.LocationLess), call(c.X1, c.X2, stats.LocationGreater), call(c.X1, c.X2, stats.LocationDiffers)
	sl, sg, sd := call(c.X2, c.X1, stats.LocationLess), call(c.X2, c.X1, stats.LocationGreater), call(c.X2, c.X1, stats.LocationDiffers)
	if l == nil || g == nil || d == nil || sl == nil || sg == nil || sd == nil {
		return
	}
	w.EvalN("swap-law", 6)
	m1, m2 := ref.MomentsOf(c.X1), ref.MomentsOf(c.X2)
	k := 1.0
	if m1.Var.Sign() > 0 {
		k = math.Max(k, bigAbs(m1.Mean)/math.Sqrt(ref.F64(m1.Var)))
	}
	if m2.Var.Sign() > 0 {
		k = math.Max(k, bigAbs(m2.Mean)/math.Sqrt(ref.F64(m2.Var)))
	}
	relT := 64 * float64(len(c.X1)+len(c.X2)) * eps * (1 + k)
	tolT := relT*math.Abs(l.T) + relT
	if math.Abs(l.T+sl.T) > tolT {
		w.Violate("swap-T", fmt.Sprintf("%s: T=%.17g but swapped T=%.17g", c.Test, l.T, sl.T), c)
	}
	tolP := 2e-9 + 2*tolT*0.4
	if math.Abs(l.P-sg.P) > tolP || math.Abs(g.P-sl.P) > tolP || math.Abs(d.P-sd.P) > tolP {
		w.Violate("swap-P", fmt.Sprintf("%s: P(less,greater,differs)=(%.12g,%.12g,%.12g), swapped (%.12g,%.12g,%.12g)", c.Test, l.P, g.P, d.P, sl.P, sg.P, sd.P), c)
	}
}
