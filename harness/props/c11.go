package props

import (
	"encoding/json"
	"fmt"
	"math"
	"sort"
	"strings"

	"github.com/aclements/go-moremath/stats"

	"verifmon/mon"
	"verifmon/ref"
)

// C11 — QuantileCI bounds are valid order statistics with at least the
// stated confidence; SampleCI maps them onto a sample.
//
// One case = one (n, q) with a list of confidence levels c (nesting is a law
// over the sorted list). Domain: n >= 1, 0 <= q <= 1, c > 0 (c <= 0 is not a
// confidence level and is never generated).
//
// Oracles, every call:
//   M-panic, N == n, Quantile == q (bits), 0 <= LoOrder < HiOrder <= n+1;
//   c >= 1: (0, n+1) with Confidence 1.
// n <= 30 (exact regime), masses of Binomial(n,q) in exact integer arithmetic
// with q the exact rational value of the float64 (ref.C11Binom):
//   |Confidence - mass(Lo..Hi-1)| <= 1e-12;
//   exact mass(Lo..Hi-1) >= c and Confidence >= c, both up to the rounding
//   slack 64(n+2)2^-52 max(c, mass) (c11ExactSlack);
//   the interval holds a bucket whose mass is within 1e-12 of the largest
//   (a mode; two modes within rounding of each other are both accepted);
//   not both end buckets removable: mass - max(end masses) < c + 1e-12
//   (the statement's "at least one of its end buckets is needed");
//   Ambiguous => |mass(Lo+1..Hi) - mass(Lo..Hi-1)| <= 1e-12;
//   M-law: over the sorted c list Lo never grows and Hi never shrinks.
// n > 30 (normal regime), ref.C11Norm:
//   l1*, r1* = mu -+ sigma z; expected Lo = floor(l1*-1/2)+1,
//   Hi = ceil(r1*-1/2)+1 before clamping, Hi-1 accepted iff Ambiguous is set;
//   when l1*-1/2 or r1*-1/2 is within 1e-9 of an integer the neighbouring
//   rounding is accepted too (ambiguity window, counted as ambiguous): the
//   outward one always, the inward one only while the band still carries
//   normal mass >= c - 1e-13; every accepted band (trimmed ones included)
//   must carry mass >= c - 1e-13;
//   Confidence = normal mass of the accepted unclamped band, or 1 when that
//   band covers [0,n+1], +-1e-9, and 1-Confidence = the mass outside the band
//   (0 when it covers everything) to 1e-6 relative + 1e-15;
//   Confidence >= c - 1e-13.
// Every judged QuantileCI call is repeated at once and once more after an
// unrelated QuantileCI call: the three answers must be bit-identical
// (QuantileCI is a function of its arguments) and each is judged.
// SampleCI, for every distinct (Lo,Hi) a case produces, on an unsorted
// presentation (Sorted=false) and on the sorted data with Sorted=true:
//   q == Sample.Quantile(q) of the same data, lo == x_(Lo) or -Inf for order
//   0, hi == x_(Hi) or +Inf for order n+1; M-guard with canaries around Xs.
//   The samples include finite values next to MaxFloat64 (neighbouring order
//   statistics more than MaxFloat64 apart) and +-Inf observations: the bounds
//   are selected values, not the result of arithmetic on them.
//   The buffers are refilled in place with other data between rounds (a
//   result must describe the present contents, not an earlier call's), and
//   other Sample methods run on unrelated samples between the rounds (SampleCI
//   must not depend on what the rest of the package was used for).

type c11Case struct {
	N  int     `json:"n"`
	Q  mon.F   `json:"q"`
	Cs []mon.F `json:"cs"`
	// Expand: add the reference-derived hostile levels (cumulative masses of
	// the greedy path and their neighbours; levels that put an end point of
	// the central normal interval just beside a bucket boundary) and feed the
	// Confidence values the library reports (+-1ulp) back as c. Replay cases
	// of single events carry the explicit level and Expand=false.
	Expand bool   `json:"expand,omitempty"`
	Samp   uint64 `json:"sample_seed"`
	// Other, when set (replays), is the unrelated QuantileCI call made
	// between the second and the third time a question is asked; otherwise
	// it is drawn from Samp.
	Other *c11Other `json:"other,omitempty"`
	// Rounds, when set (replays of SampleCI violations), is the number of
	// SampleCI rounds to run at least: the last pair of orders is applied
	// again until the round of the recorded violation (same contents, same
	// preceding operations on unrelated samples) has been reached.
	Rounds int `json:"sample_rounds,omitempty"`
}

type c11Other struct {
	N int   `json:"n"`
	Q mon.F `json:"q"`
	C mon.F `json:"c"`
}

// c11Unrelated draws a QuantileCI question different from (n, q, c): another
// level of the same (n, q), another n (of the other regime too), another q, or
// a fixed small one.
func c11Unrelated(rng *mon.Rand, n int, q, c float64, levels []float64, li int) c11Other {
	o := c11Other{N: n, Q: mon.F(q), C: mon.F(c)}
	switch rng.Intn(6) {
	case 0: // the level judged next (that call then is itself a repetition)
		if k := (li + 1) % len(levels); levels[k] != c {
			o.C = mon.F(levels[k])
			return o
		}
		o.C = mon.F(c / 2)
	case 1:
		o.N = n + 1
	case 2:
		if n > 1 {
			o.N = n - 1
		} else {
			o.N = 31
		}
	case 3: // the other regime
		if n <= c11Threshold {
			o.N = n + 31
		} else {
			o.N = 1 + n%30
		}
	case 4:
		if q < 0.5 {
			o.Q = mon.F(q + 0.25)
		} else {
			o.Q = mon.F(q - 0.25)
		}
	default:
		o = c11Other{N: 7, Q: 0.5, C: 0.9}
		if n == 7 && q == 0.5 && c == 0.9 {
			o.N = 8
		}
	}
	return o
}

func c11SameRes(a, b stats.QuantileCIResult) bool {
	return a.N == b.N && a.LoOrder == b.LoOrder && a.HiOrder == b.HiOrder && a.Ambiguous == b.Ambiguous &&
		math.Float64bits(a.Quantile) == math.Float64bits(b.Quantile) && math.Float64bits(a.Confidence) == math.Float64bits(b.Confidence)
}

func c11ResString(r stats.QuantileCIResult) string {
	return fmt.Sprintf("{N=%d Quantile=%v orders [%d,%d] Confidence %.17g Ambiguous=%v}", r.N, r.Quantile, r.LoOrder, r.HiOrder, r.Confidence, r.Ambiguous)
}

func init() {
	mon.Register(&mon.Prop{ID: "C11", Run: c11Run, Replay: func(w *mon.W, v *mon.ViolationRec) {
		var c c11Case
		if json.Unmarshal(v.Case, &c) == nil {
			c11Judge(w, c)
		}
	}})
}

const (
	c11ExactTol  = 1e-12 // design: binomial masses, n <= 30
	c11NormalTol = 1e-9  // design: normal masses, n > 30
	c11Window    = 1e-9  // ambiguity window around a bucket boundary, n > 30
	c11Threshold = 30
	// "never below c", n > 30: the normal mass of the band and the reported
	// Confidence may fall short of c by rounding only (two erfc values and
	// a subtraction: the unchanged library's worst is 2e-16)
	c11NormalSlack = 1e-13
	// Confidence is the normal mass of the band, so 1-Confidence is the mass
	// outside it. Relative part: the two outer erfc values at arguments up to
	// t ~ 26.5 (beyond, erfc underflows) react to a relative change d of t
	// with 2 t^2 d <= 1400 d, and d is a few ulp of mu/(mu-x) <= a few
	// 1e-16 sqrt(n/(1-q)) (n <= 2001 here): below 1e-8 for every input the
	// monitor generates. Absolute part: Confidence computed as a difference
	// of two values next to 1 carries two roundings of 1.1e-16 each (the
	// unchanged library's worst over the workload: 1.2e-16, see the evidence).
	c11TailRel = 1e-6
	c11TailAbs = 1e-15
)

// c11ExactSlack is what rounding can explain when a sum of up to n+1 binomial
// masses (each a product of n factors) of size scale is compared with c.
func c11ExactSlack(n int, scale float64) float64 {
	return 64 * float64(n+2) * 0x1p-52 * scale
}

// c11Sample builds the sample of size n used for SampleCI from a seed. The
// statement maps the orders onto "a sample of that size": any observations
// that have a sorted order, i.e. no NaN; zeros are not drawn (the order of -0
// and +0 is not defined, and the bounds are compared by value and the guards
// by bits). Families 5 and 6 hold values on which selection and arithmetic on
// the selected values differ: finite values whose neighbouring order
// statistics are more than MaxFloat64 apart (or whose sums overflow), and
// +-Inf observations (a timed-out run) at either end. q only steers where the
// overflowing gap is put.
func c11Sample(n int, seed uint64, q float64) []float64 {
	rng := mon.NewRand(seed, 0xc11)
	xs := make([]float64, n)
	huge := func() float64 {
		if rng.Intn(8) == 0 {
			return math.MaxFloat64
		}
		return rng.Uniform(0.9e308, 1.797e308)
	}
	switch seed % 7 {
	case 5: // huge finite values
		m := 0 // number of negative ones
		if n >= 2 {
			m = rng.Range(1, n-1)
			if rng.Bool() { // the overflowing gap next to the orders around nq
				m = min(n-1, max(1, int(math.Round(float64(n)*q))+rng.Range(-1, 1)))
			}
		} else if rng.Bool() {
			m = 1
		}
		switch v := rng.Intn(6); {
		case v <= 3: // mixed sign, all huge: x_(m+1) - x_(m) overflows
			for i := range xs {
				xs[i] = huge()
				if i < m {
					xs[i] = -xs[i]
				}
			}
		case v == 4: // one sign, all huge: sums of two overflow
			sg := rng.Sign()
			for i := range xs {
				xs[i] = sg * huge()
			}
		default: // huge negative, moderate, huge positive
			for i := range xs {
				switch {
				case i < m:
					xs[i] = -huge()
				case i < m+(n-m)/2:
					xs[i] = 1 + rng.Norm()*0.125
				default:
					xs[i] = huge()
				}
			}
		}
		rng.ShuffleF(xs)
		return xs
	case 6: // +-Inf observations at the ends
		a, b := 0, 0 // numbers of -Inf and +Inf
		switch rng.Intn(5) {
		case 0:
			b = 1
		case 1:
			a = 1
		case 2:
			a, b = 1, 1
		default:
			a, b = rng.Range(0, n/2), rng.Range(0, n/2)
			if a+b == 0 {
				b = 1
			}
		}
		if a+b > n { // n = 1
			a, b = 0, 1
			if rng.Bool() {
				a, b = 1, 0
			}
		}
		hugeRest := rng.Intn(4) == 0
		for i := range xs {
			switch {
			case i < a:
				xs[i] = math.Inf(-1)
			case i < a+b:
				xs[i] = math.Inf(1)
			case hugeRest:
				xs[i] = rng.Sign() * huge()
			default:
				xs[i] = 10 + rng.Norm()
			}
		}
		rng.ShuffleF(xs)
		return xs
	}
	switch seed % 7 % 5 {
	case 0: // a permutation of 1..n
		for i, p := range rng.Perm(n) {
			xs[i] = float64(p + 1)
		}
	case 1:
		for i := range xs {
			xs[i] = rng.Norm()
		}
	case 2: // few distinct values: ties among the order statistics
		k := 1 + rng.Intn(n/3+2)
		for i := range xs {
			xs[i] = float64(rng.Intn(k+1)) - 1.5
		}
	case 3: // descending (the reverse of sorted)
		for i := range xs {
			xs[i] = float64(n-i) * 0.25
		}
	default: // large offset
		off := rng.Sign() * rng.LogUniform(1e3, 1e12)
		for i := range xs {
			xs[i] = off + rng.Norm()
		}
	}
	return xs
}

type c11Res struct {
	c   float64
	res stats.QuantileCIResult
	ok  bool // orders valid: usable for nesting and SampleCI
}

func c11Call(w *mon.W, op string, n int, q, c float64, sub func(...float64) c11Case) (res stats.QuantileCIResult, ok bool) {
	w.Eval(op)
	if p, v := mon.Call(func() { res = stats.QuantileCI(n, q, c) }); p {
		w.Violate("panic", fmt.Sprintf("QuantileCI(%d, %v, %v) panicked: %v", n, q, c, v), sub(c))
		return res, false
	}
	return res, true
}

func c11Judge(w *mon.W, cs c11Case) {
	n, q := cs.N, float64(cs.Q)
	if n < 1 || !(q >= 0 && q <= 1) {
		return
	}
	var subOther *c11Other
	sub := func(c ...float64) c11Case {
		return c11Case{N: n, Q: cs.Q, Cs: mon.Fs(c), Samp: cs.Samp, Other: subOther}
	}

	var levels []float64
	add := func(c float64) {
		if c > 0 { // c<=0 and NaN are outside the domain
			levels = append(levels, c)
		}
	}
	add3 := func(c float64) {
		add(c)
		add(math.Nextafter(c, 2))
		add(math.Nextafter(c, -1))
	}
	for _, c := range cs.Cs {
		add(float64(c))
	}

	exact := n <= c11Threshold
	var bin *ref.C11Binom
	var nrm ref.C11Norm
	if exact {
		var err error
		if bin, err = ref.NewC11Binom(n, q); err != nil {
			return
		}
	} else {
		nrm = ref.NewC11Norm(n, q)
	}

	if cs.Expand {
		rng := mon.NewRand(cs.Samp, 0xb0d)
		if exact {
			for _, s := range bin.Path {
				add3(s.Sum)
				if s.Sum < 1 {
					// just beyond what rounding can explain above the
					// cumulative mass, and at random small relative
					// distances on both sides of it
					add(s.Sum + 2*c11ExactSlack(n, s.Sum))
					add(s.Sum * (1 + rng.LogUniform(1e-16, 1e-9)))
					add(s.Sum * (1 - rng.LogUniform(1e-16, 1e-9)))
				}
			}
			// walk the library's own accumulation: the level one ulp above
			// each reported Confidence asks for the next step
			c := math.SmallestNonzeroFloat64
			for k := 0; k < n+4 && c < 1; k++ {
				res, ok := c11Call(w, "QuantileCI(path walk, panic only)", n, q, c, sub)
				if !ok || math.IsNaN(res.Confidence) {
					break
				}
				add3(res.Confidence)
				c = math.Nextafter(math.Max(res.Confidence, c), 2)
			}
		} else {
			var ends []float64
			if nrm.Sigma > 0 {
				// levels that put l1 (and by symmetry r1) 1e-6 on either
				// side of a bucket boundary, and on it
				at := func(x float64) {
					ends = append(ends, x)
					for _, d := range []float64{0, 1e-6, -1e-6} {
						if c := nrm.CForEnd(x + d); c > 0 && c < 1 {
							add(c)
						}
					}
				}
				for _, k := range []int{-2, -1, 0, 1} {
					at(float64(k) + 0.5)                  // lower clamp
					at(2*nrm.Mu - (float64(n+1-k) - 0.5)) // r1 at the upper clamp
				}
				for k := 0; k < 6; k++ {
					span := math.Min(8*nrm.Sigma, nrm.Mu+2)
					at(math.Floor(nrm.Mu-rng.Float64()*span) - 0.5)
				}
				at(math.Floor(nrm.Mu-0.5) + 0.5) // the bucket boundaries next below mu
				at(math.Floor(nrm.Mu-0.5) + 0.5 - 1)
				// the band that just covers the whole range
				reach := math.Max(nrm.Mu-0.5, float64(n)-0.5-nrm.Mu)
				for _, d := range []float64{1e-6, 0.25, 0.75, 1.5} {
					if c := nrm.CForEnd(nrm.Mu - reach - d); c > 0 && c < 1 {
						add(c)
					}
				}
			}
			// feed the reported Confidence values back
			for _, c := range append([]float64(nil), levels...) {
				if res, ok := c11Call(w, "QuantileCI(feed-back probe, panic only)", n, q, c, sub); ok && !math.IsNaN(res.Confidence) {
					add3(res.Confidence)
				}
			}
			// levels that put l1 (and r1) within 1e-12..1e-9 of the same
			// bucket boundaries, on either side: outward rounding must not
			// give way there (these are not fed back)
			for _, x := range ends {
				for _, d := range []float64{5e-11, -5e-11, rng.LogUniform(1e-12, 1e-9), -rng.LogUniform(1e-12, 1e-9)} {
					if c := nrm.CForEnd(x + d); c > 0 && c < 1 {
						add(c)
					}
				}
			}
		}
	}

	sort.Float64s(levels)
	uniq := levels[:0]
	for i, c := range levels {
		if i == 0 || c != levels[i-1] {
			uniq = append(uniq, c)
		}
	}
	levels = uniq

	w.HitIf(exact, "n<=30")
	w.HitIf(!exact, "n>30")
	w.HitIf(q == 0 || q == 1, "q=0|1")
	if exact {
		w.HitIf(bin.ModeLo != bin.ModeHi, "exact-tie-modes")
		near := false
		for k := 0; k <= n; k++ {
			if k != bin.ModeLo && bin.CmpP(k, bin.ModeLo) != 0 && bin.PMF[k] >= bin.PMF[bin.ModeLo]-c11ExactTol {
				near = true
			}
		}
		w.HitIf(near, "near-tie-modes")
	}

	// distinct non-trivial events: per (n,q,c) in the grid classes, per case
	// (n,q,levels) in the random classes (memory: the thorough tier judges
	// more than 1e8 levels there)
	perLevel := strings.HasSuffix(w.Class, "-grid")
	anyNontriv := false
	distinct := func(c float64) {
		anyNontriv = true
		if perLevel {
			w.Distinct(mon.NewHasher().I(n).F(q).F(c).Sum())
		}
	}
	results := make([]c11Res, 0, len(levels))
	judge := func(c float64, res stats.QuantileCIResult) bool {
		if exact {
			return c11JudgeExact(w, bin, c, res, sub, distinct)
		}
		return c11JudgeNormal(w, nrm, c, res, sub, distinct)
	}
	// QuantileCI is a function of its arguments: every judged question is
	// asked again at once, and a third time after an unrelated question. An
	// answer with the same bits as the first one has been judged with it (the
	// oracles depend on (n,q,c) and the answer only); a different answer is
	// a violation of its own and is judged with the same oracles.
	urng := mon.NewRand(cs.Samp, 0xca11)
	w.HitIf(len(levels) > 0, "asked-again-at-once")
	w.HitIf(len(levels) > 0, "asked-again-after-an-unrelated-call")
	for li, c := range levels {
		res, ok := c11Call(w, "QuantileCI", n, q, c, sub)
		if !ok {
			continue
		}
		good := judge(c, res)
		results = append(results, c11Res{c, res, good})

		again := func(op string) {
			res2, ok := c11Call(w, op, n, q, c, sub)
			if !ok || c11SameRes(res, res2) {
				return
			}
			when := "the same call repeated at once returned"
			if subOther != nil {
				when = fmt.Sprintf("after QuantileCI(%d, %v, %v) the same call returned", subOther.N, float64(subOther.Q), float64(subOther.C))
			}
			w.Violate("not-a-function", fmt.Sprintf("QuantileCI(%d, %v, %v) returned %s, and %s %s", n, q, c, c11ResString(res), when, c11ResString(res2)), sub(c))
			judge(c, res2)
		}
		again("QuantileCI(asked again at once)")
		o := c11Unrelated(urng, n, q, c, levels, li)
		if cs.Other != nil {
			o = *cs.Other
		}
		mon.Call(func() { stats.QuantileCI(o.N, float64(o.Q), float64(o.C)) }) // not judged here
		subOther = &o
		again("QuantileCI(asked again after an unrelated call)")
		subOther = nil
	}

	// nesting (statement: n <= 30)
	if exact {
		var prev *c11Res
		for i := range results {
			cur := &results[i]
			if !cur.ok {
				continue
			}
			if prev != nil {
				w.Eval("nesting-pair")
				if cur.res.LoOrder > prev.res.LoOrder || cur.res.HiOrder < prev.res.HiOrder {
					w.Violate("nesting", fmt.Sprintf("QuantileCI(%d, %v, c): c=%v gives orders [%d,%d] but the larger c=%v gives [%d,%d], which does not contain it",
						n, q, prev.c, prev.res.LoOrder, prev.res.HiOrder, cur.c, cur.res.LoOrder, cur.res.HiOrder), sub(prev.c, cur.c))
				}
			}
			prev = cur
		}
	}

	if !perLevel && anyNontriv {
		w.Distinct(mon.NewHasher().I(n).F(q).Fs(levels).Sum())
	}

	// SampleCI once per distinct pair of orders
	c11JudgeSample(w, cs, results, sub)
}

// c11Basic checks what holds in both regimes. It returns false when the
// orders are unusable.
func c11Basic(w *mon.W, n int, q, c float64, res stats.QuantileCIResult, sub func(...float64) c11Case) bool {
	name := fmt.Sprintf("QuantileCI(%d, %v, %v)", n, q, c)
	if res.N != n || math.Float64bits(res.Quantile) != math.Float64bits(q) {
		w.Violate("echo", fmt.Sprintf("%s returned N=%d Quantile=%v", name, res.N, res.Quantile), sub(c))
	}
	if !(0 <= res.LoOrder && res.LoOrder < res.HiOrder && res.HiOrder <= n+1) {
		w.Violate("orders", fmt.Sprintf("%s returned LoOrder=%d HiOrder=%d (Confidence %v): need 0 <= LoOrder < HiOrder <= %d", name, res.LoOrder, res.HiOrder, res.Confidence, n+1), sub(c))
		return false
	}
	if c >= 1 {
		w.Hit("c>=1")
		if res.LoOrder != 0 || res.HiOrder != n+1 || !(math.Abs(res.Confidence-1) <= c11ExactTol) {
			w.Violate("c>=1", fmt.Sprintf("%s returned [%d,%d] Confidence %v, want the whole range [0,%d] with Confidence 1", name, res.LoOrder, res.HiOrder, res.Confidence, n+1), sub(c))
		}
	}
	return true
}

func c11JudgeExact(w *mon.W, b *ref.C11Binom, c float64, res stats.QuantileCIResult, sub func(...float64) c11Case, distinct func(float64)) bool {
	n, q := b.N, b.Q
	name := fmt.Sprintf("QuantileCI(%d, %v, %v)", n, q, c)
	nontriv := false
	hit := func(cond bool, class string) {
		if cond {
			w.Hit(class)
			nontriv = true
		}
	}
	// classes from the reference side
	if c < 1 {
		j := b.StepFor(c)
		st := b.Path[j]
		hit(st.ShiftEqual, "ref-shift-equal(n<=30)")
		hit(!st.ShiftEqual, "ref-shift-unequal(n<=30)")
		hit(st.Lo == 0, "ref-order-0")
		hit(st.Hi == n+1, "ref-order-n+1")
		hit(c < 1e-17, "c<1e-17")
		// the interval shifted up by one carries nearly, not exactly, the
		// same mass: a tolerant comparison would call it a tie, and the
		// difference is large enough for the Ambiguous law to see
		if d := math.Abs(b.P(st.Hi) - b.P(st.Lo)); !st.ShiftEqual {
			hit(d > 2*c11ExactTol && d <= 1e-7*math.Max(b.P(st.Lo), b.P(st.Hi)), "ref-shift-nearly-equal(n<=30)")
		}
		// c lies above the mass of the previous interval of the path by
		// more than rounding can explain, but by less than 1e-9 of it
		if j > 0 {
			d := c - b.Path[j-1].Sum
			hit(d > c11ExactSlack(n, c) && d <= 1e-9*c, "c-just-above-cumulative-mass(n<=30)")
		}
	}
	near, at := b.AtCumulative(c)
	hit(near || at, "c-at-cumulative-mass(+-1ulp)")
	hit(at, "c==cumulative-mass")

	if !c11Basic(w, n, q, c, res, sub) {
		return false
	}
	if c >= 1 {
		distinct(c)
		return true
	}
	lo, hi := res.LoOrder, res.HiOrder
	mass := b.Mass(lo, hi)
	if !w.Err("binomial-mass(n<=30)", math.Abs(res.Confidence-mass), c11ExactTol) {
		w.Violate("confidence-mass", fmt.Sprintf("%s returned [%d,%d] Confidence %.17g, but buckets %d..%d of Binomial(%d,%v) carry %.17g", name, lo, hi, res.Confidence, lo, hi-1, n, q, mass), sub(c))
	}
	// mass is the float64 nearest to the exact mass: c - mass is off by at
	// most half an ulp of it, the slack is at least 192 ulps
	slack := c11ExactSlack(n, math.Max(c, mass))
	if def := c - mass; !w.Err("exact-mass>=c(n<=30)", math.Max(0, def), slack) {
		w.Violate("mass<c", fmt.Sprintf("%s returned [%d,%d] Confidence %.17g, but buckets %d..%d of Binomial(%d,%v) carry %.17g, which is below c by %.3g (rounding explains at most %.3g)", name, lo, hi, res.Confidence, lo, hi-1, n, q, mass, def, slack), sub(c))
	}
	if def := c - res.Confidence; !w.Err("confidence>=c(n<=30)", math.Max(0, def), slack) {
		w.Violate("confidence<c", fmt.Sprintf("%s returned [%d,%d] Confidence %.17g < c by %.3g (exact mass %.17g; rounding explains at most %.3g)", name, lo, hi, res.Confidence, def, mass, slack), sub(c))
	}
	top := b.PMF[b.ModeLo]
	hasMode := false
	for k := lo; k < hi && k <= n; k++ {
		if b.PMF[k] >= top-c11ExactTol {
			hasMode = true
		}
	}
	if !hasMode {
		w.Violate("mode", fmt.Sprintf("%s returned [%d,%d], which does not contain the mode %d of Binomial(%d,%v) (mass %.17g; largest mass inside %d..%d is smaller by more than 1e-12)", name, lo, hi, b.ModeLo, n, q, top, lo, hi-1), sub(c))
	}
	ends := math.Max(b.P(lo), b.P(hi-1))
	if hi-lo > 1 && !(mass-ends < c+c11ExactTol) {
		w.Violate("not-minimal", fmt.Sprintf("%s returned [%d,%d] with mass %.17g: both end buckets can be dropped (masses %.17g and %.17g) and the rest still reaches c", name, lo, hi, mass, b.P(lo), b.P(hi-1)), sub(c))
	}
	if res.Ambiguous {
		w.Note("Ambiguous-reported(n<=30)")
		shifted := b.Mass(lo+1, hi+1)
		if !w.Err("ambiguous-shift(n<=30)", math.Abs(shifted-mass), c11ExactTol) {
			w.Violate("ambiguous", fmt.Sprintf("%s returned [%d,%d] Ambiguous=true with mass %.17g, but the interval shifted up by one carries %.17g", name, lo, hi, mass, shifted), sub(c))
		}
	}
	if near || at {
		w.Ambiguous() // the stopping decision is within rounding of c: either neighbouring interval passes the tolerances
	} else if nontriv {
		distinct(c)
	}
	if w.WantSample() && c == 0.95 && w.Index%200 == 7 {
		w.Sample(map[string]any{"n": n, "q": q, "c": c, "Lo": lo, "Hi": hi, "Confidence": res.Confidence, "exact_mass": mass, "Ambiguous": res.Ambiguous})
	}
	return true
}

type c11Cand struct {
	l, r    int // unclamped
	trimmed bool
}

func c11Clamp(v, n int) int {
	if v < 0 {
		return 0
	}
	if v > n+1 {
		return n + 1
	}
	return v
}

func c11JudgeNormal(w *mon.W, m ref.C11Norm, c float64, res stats.QuantileCIResult, sub func(...float64) c11Case, distinct func(float64)) bool {
	n, q := m.N, m.Q
	name := fmt.Sprintf("QuantileCI(%d, %v, %v)", n, q, c)
	if c >= 1 {
		ok := c11Basic(w, n, q, c, res, sub)
		distinct(c)
		return ok
	}
	l1, r1 := m.Central(c)
	// outward rounding with both neighbours accepted inside the window
	vl, vr := l1-0.5, r1-0.5
	fl, ce := math.Floor(vl), math.Ceil(vr)
	ls := []int{int(fl) + 1}
	rs := []int{int(ce) + 1}
	window := false
	if vl-fl <= c11Window {
		ls = append(ls, int(fl))
		window = true
	} else if fl+1-vl <= c11Window {
		ls = append(ls, int(fl)+2)
		window = true
	}
	if ce-vr <= c11Window {
		rs = append(rs, int(ce)+2)
		window = true
	} else if vr-(ce-1) <= c11Window {
		rs = append(rs, int(ce))
		window = true
	}
	l0, r0 := ls[0], rs[0]

	nontriv := false
	hit := func(cond bool, class string) {
		if cond {
			w.Hit(class)
			nontriv = true
		}
	}
	if !window {
		tm := m.Mass(l0, r0-1)
		hit(r0-1 > l0 && tm >= c+c11NormalTol, "trim-feasible(n>30)")
		hit(r0-1 <= l0 || tm < c-c11NormalTol, "trim-infeasible(n>30)")
		hit(l0 < 0, "ref-clamped-at-0")
		hit(r0 > n+1, "ref-clamped-at-n+1")
		hit(l0 <= 0, "ref-order-0")
		hit(r0 >= n+1, "ref-order-n+1")
		full := l0 <= 0 && r0 >= n+1
		hit(full, "full-range(n>30,c<1)")
		hit(full && m.Mass(l0, r0) < 1-2*c11NormalTol, "full-range-mass<1-2e-9")
		// nearly all of the mass inside a band that does not cover
		// everything: Confidence is next to 1, not 1
		if tl := m.Tail(l0, r0); !full {
			hit(tl < 1e-9 && tl > 1e-13, "outside-mass-1e-13..1e-9(n>30)")
		}
		hit(m.TwoMuInt && m.Sigma > 0, "symmetric-band(n>30)")
		hit(!m.TwoMuInt, "asymmetric-band(n>30)")
		hit(c < 1e-17, "c<1e-17")
	} else {
		w.Note("window(n>30)")
		// an end of the central interval lies just outside a bucket boundary
		// and the band rounded inward there provably falls short of c: only
		// the outward rounding is acceptable
		inward := len(ls) == 2 && ls[1] > l0 && m.Mass(ls[1], r0) < c-c11NormalSlack ||
			len(rs) == 2 && rs[1] < r0 && m.Mass(l0, rs[1]) < c-c11NormalSlack
		hit(inward, "end-just-outside-boundary(n>30)")
		if m.HalfInt && r1-l1 < 2*c11Window {
			w.Note("point-band-on-bucket-boundary(n>30)")
		}
	}

	if !c11Basic(w, n, q, c, res, sub) {
		return false
	}
	lo, hi := res.LoOrder, res.HiOrder

	var cands []c11Cand
	for _, l := range ls {
		for _, r := range rs {
			cands = append(cands, c11Cand{l, r, false})
			if res.Ambiguous {
				cands = append(cands, c11Cand{l, r - 1, true})
			}
		}
	}
	// A band is acceptable only if it holds content c (the statement: the
	// central interval rounded outward; Confidence is the band's mass and
	// never below c). Away from the window and for the outward neighbours
	// inside it this holds by construction; it decides whether an inward
	// neighbour inside the window and a trimmed band are acceptable.
	ordersOK, confOK, matched := false, false, false
	bestDiff, bestWant := math.Inf(1), math.NaN()
	bestScore, bestTailDiff, bestTailTol, bestTail := math.Inf(1), math.Inf(1), 1.0, math.NaN()
	short, shortWant := math.Inf(1), math.NaN()
	for _, k := range cands {
		if k.r <= k.l || c11Clamp(k.l, n) != lo || c11Clamp(k.r, n) != hi {
			continue
		}
		matched = true
		want := m.Mass(k.l, k.r)
		if k.l <= 0 && k.r >= n+1 {
			want = 1
		}
		if sh := math.Max(0, c-want); sh < short {
			short, shortWant = sh, want
		}
		if !(want >= c-c11NormalSlack) {
			continue
		}
		ordersOK = true
		d := math.Abs(res.Confidence - want)
		if math.IsNaN(d) {
			d = math.Inf(1)
		}
		// the mass left outside the band, judged relatively: 1-Confidence
		// against the sum of the two outer erfc values
		wantTail := m.Tail(k.l, k.r)
		if want == 1 {
			wantTail = 0 // covers everything (or all of a point mass): exactly 1
		}
		tailTol := c11TailRel*wantTail + c11TailAbs
		dt := math.Abs((1 - res.Confidence) - wantTail)
		if math.IsNaN(dt) {
			dt = math.Inf(1)
		}
		if score := math.Max(d/c11NormalTol, dt/tailTol); score < bestScore || math.IsNaN(bestWant) {
			bestScore, bestDiff, bestWant = score, d, want
			bestTailDiff, bestTailTol, bestTail = dt, tailTol, wantTail
		}
		if d <= c11NormalTol && dt <= tailTol {
			confOK = true
		}
	}
	if matched {
		w.Err("band-mass>=c(n>30)", short, c11NormalSlack)
	}
	if !ordersOK && matched {
		w.Violate("band-below-c", fmt.Sprintf("%s returned [%d,%d] Ambiguous=%v Confidence %.17g; the normal mass of that band is %.17g, below c by %.3g (rounding explains at most %.0e): the central interval [%.17g, %.17g] of N(%.17g, %.17g^2) does not lie inside it (an end rounded inward, or the upper bucket trimmed without the content to spare)",
			name, lo, hi, res.Ambiguous, res.Confidence, shortWant, short, c11NormalSlack, l1, r1, m.Mu, m.Sigma), sub(c))
	} else if !ordersOK {
		exp := fmt.Sprintf("[%d,%d]", c11Clamp(l0, n), c11Clamp(r0, n))
		if window {
			exp += " or a neighbouring rounding"
		}
		w.Violate("band", fmt.Sprintf("%s returned [%d,%d] Ambiguous=%v; central interval of N(%.17g, %.17g^2) is [%.17g, %.17g], rounded outward to half-integers and clamped gives %s (upper order one lower only with Ambiguous)",
			name, lo, hi, res.Ambiguous, m.Mu, m.Sigma, l1, r1, exp), sub(c))
	} else {
		if math.IsInf(bestDiff, 1) {
			bestDiff = math.NaN()
		}
		if math.IsInf(bestTailDiff, 1) {
			bestTailDiff = math.NaN()
		}
		okMass := w.Err("normal-mass(n>30)", bestDiff, c11NormalTol)
		okTail := w.Err("normal-mass-outside-the-band(n>30)", bestTailDiff, bestTailTol)
		if !okMass || !okTail || !confOK {
			w.Violate("confidence-mass", fmt.Sprintf("%s returned [%d,%d] Ambiguous=%v Confidence %.17g, but the normal mass of that band before clamping (1 when it covers everything) is %.17g: 1-Confidence = %.6g, the mass outside the band is %.6g (tolerance %.3g)", name, lo, hi, res.Ambiguous, res.Confidence, bestWant, 1-res.Confidence, bestTail, bestTailTol), sub(c))
		}
	}
	if def := c - res.Confidence; !w.Err("confidence>=c(n>30)", math.Max(0, def), c11NormalSlack) {
		w.Violate("confidence<c", fmt.Sprintf("%s returned [%d,%d] Confidence %.17g < c by %.3g (rounding explains at most %.0e)", name, lo, hi, res.Confidence, def, c11NormalSlack), sub(c))
	}
	if res.Ambiguous {
		w.Note("Ambiguous-reported(n>30)")
	}
	if window {
		w.Ambiguous()
	} else if nontriv {
		distinct(c)
	}
	if w.WantSample() && c == 0.95 && w.Index%200 == 7 {
		w.Sample(map[string]any{"n": n, "q": q, "c": c, "Lo": lo, "Hi": hi, "Confidence": res.Confidence, "l1_ref": l1, "r1_ref": r1, "Ambiguous": res.Ambiguous})
	}
	return true
}

// c11Data is one set of contents for the SampleCI presentations.
type c11Data struct {
	xs, sorted []float64
	wantQ      [2]float64
	// reference-side description of the contents
	hasInf, overflowGap bool
	// the order statistics the R8 estimate at q lies between, for every
	// position within rounding of h = 1/3 + q(n+1/3) (C10's bracket)
	qLo, qHi float64
}

// hostileAt reports whether x_(k) (1 <= k <= n) is a value that selection and
// arithmetic on the selected values treat differently: it is infinite, or the
// difference to a neighbouring order statistic is not finite.
func (d *c11Data) hostileAt(k int) (infinite, gap bool) {
	n := len(d.sorted)
	if k < 1 || k > n {
		return false, false
	}
	x := d.sorted[k-1]
	infinite = math.IsInf(x, 0)
	for _, j := range []int{k - 1, k + 1} {
		if j >= 1 && j <= n {
			if g := d.sorted[j-1] - x; math.IsInf(g, 0) || g != g {
				gap = true
			}
		}
	}
	return
}

func c11NewData(n int, seed uint64, q float64) *c11Data {
	d := &c11Data{xs: c11Sample(n, seed, q)}
	d.sorted = append([]float64(nil), d.xs...)
	sort.Float64s(d.sorted)
	for i, x := range d.sorted {
		if math.IsInf(x, 0) {
			d.hasInf = true
		} else if i > 0 && !math.IsInf(d.sorted[i-1], 0) && math.IsInf(x-d.sorted[i-1], 0) {
			d.overflowGap = true
		}
	}
	h := 1/3.0 + q*(float64(n)+1/3.0)
	at := func(k float64) float64 { return d.sorted[int(math.Min(float64(n), math.Max(1, k)))-1] }
	d.qLo, d.qHi = at(math.Floor(h-1e-9*(h+1))), at(math.Floor(h+1e-9*(h+1))+1)
	// Sample.Quantile is C10's business; here only "the same value"
	mon.Call(func() { d.wantQ[0] = stats.Sample{Xs: append([]float64(nil), d.xs...)}.Quantile(q) })
	mon.Call(func() { d.wantQ[1] = stats.Sample{Xs: append([]float64(nil), d.sorted...), Sorted: true}.Quantile(q) })
	return d
}

// c11Refill overwrites the data cells of a guarded presentation in place
// (same backing array, same length) and re-arms its guards.
func c11Refill(g *c10Guarded, vals []float64) {
	copy(g.s.Xs, vals)
	for i, v := range g.bufX {
		g.snapX[i] = math.Float64bits(v)
	}
}

// What c11Disturb did last.
const (
	c11WeightedUnsorted = iota + 1
	c11PlainUnsorted
	c11SortCopy
)

// c11Disturb uses the rest of the Sample API on unrelated samples of other
// lengths, in a random order, the way a program does between two SampleCI
// calls: Quantile and IQR of weighted and unweighted unsorted samples, Sort on
// copies, Copy. Nothing here is judged (Quantile, IQR, Sort and Copy are other
// properties' business) and panics are ignored: the point is that SampleCI on
// the case's own sample, judged right after, must not depend on any of it. It
// reports the kind of the last operation.
func c11Disturb(rng *mon.Rand, n int) (last int) {
	mk := func() (xs, ws []float64) {
		m := rng.Range(2, 16)
		if n <= 40 { // (cost: not for the long samples)
			switch rng.Intn(8) {
			case 0:
				m = n + rng.Range(1, 5)
			case 1:
				m = max(1, n-rng.Range(1, 5))
			}
		}
		if m == n {
			m++
		}
		xs, ws = make([]float64, m), make([]float64, m)
		for i := range xs {
			xs[i] = 1e3 + rng.Float64() // away from the values of the judged samples
			ws[i] = 0.5 + rng.Float64()
		}
		if m > 1 && sort.Float64sAreSorted(xs) {
			xs[0], xs[m-1] = xs[m-1], xs[0]
		}
		return
	}
	ops := rng.Perm(8)
	for _, op := range ops[:rng.Range(1, 3)] {
		xs, ws := mk()
		qq := rng.Uniform(0.05, 0.95)
		mon.Call(func() {
			switch op {
			case 0:
				stats.Sample{Xs: xs, Weights: ws}.Quantile(qq)
			case 1:
				stats.Sample{Xs: xs, Weights: ws}.IQR()
			case 2:
				stats.Sample{Xs: xs}.Quantile(qq)
			case 3:
				stats.Sample{Xs: xs}.IQR()
			case 4:
				(&stats.Sample{Xs: xs, Weights: ws}).Sort()
			case 5:
				(&stats.Sample{Xs: xs}).Sort()
			case 6:
				stats.Sample{Xs: xs, Weights: ws}.Copy().Sort().Quantile(qq)
			default:
				stats.Sample{Xs: xs}.Copy().Sort().IQR()
			}
		})
		switch { // the kind counts even if the call panicked
		case op <= 1:
			last = c11WeightedUnsorted
		case op <= 3:
			last = c11PlainUnsorted
		default:
			last = c11SortCopy
		}
	}
	return last
}

// c11JudgeSample maps every distinct pair of orders of the case onto a
// sample of size n. The two presentations (unsorted with Sorted=false, sorted
// with Sorted=true) keep their backing arrays for the whole case, but their
// contents alternate between two data sets: after the first SampleCI the
// buffers are overwritten in place with the other set and the same result is
// applied again, and so on for every further pair of orders; each call is
// judged against a fresh sort of what the buffer holds at that moment.
func c11JudgeSample(w *mon.W, cs c11Case, results []c11Res, sub func(...float64) c11Case) {
	n, q := cs.N, float64(cs.Q)
	type pair struct{ lo, hi int }
	seen := map[pair]bool{}
	var sets [2]*c11Data
	var pres [2]*c10Guarded
	rounds, differ := 0, false
	sub0 := sub
	sub = func(c ...float64) c11Case {
		cc := sub0(c...)
		cc.Rounds = rounds
		return cc
	}
	prng := mon.NewRand(cs.Samp, 0xd157)
	var last c11Res
	round := func(r c11Res) {
		k := rounds % 2
		rounds++
		if sets[k] == nil {
			sets[k] = c11NewData(n, cs.Samp+uint64(k), q)
		}
		d := sets[k]
		if pres[0] == nil {
			pres[0] = c10Present("given order, Sorted=false", d.xs, nil, false)
			pres[1] = c10Present("sorted data, Sorted=true", d.sorted, nil, true)
		} else {
			c11Refill(pres[0], d.xs)
			c11Refill(pres[1], d.sorted)
			if rounds == 2 {
				for i, v := range sets[1-k].sorted {
					if !c10Same(v, d.sorted[i]) {
						differ = true
					}
				}
			}
			w.HitIf(differ, "sample-refilled-in-place")
		}
		w.HitIf(!sort.Float64sAreSorted(d.xs), "sample-unsorted")
		lo, hi := r.res.LoOrder, r.res.HiOrder
		if last := c11Disturb(prng, n); !sort.Float64sAreSorted(d.xs) {
			w.HitIf(last == c11WeightedUnsorted, "SampleCI-after-weighted-unsorted-Quantile|IQR-elsewhere")
			w.HitIf(last == c11PlainUnsorted, "SampleCI-after-unweighted-unsorted-Quantile|IQR-elsewhere")
			w.HitIf(last == c11SortCopy, "SampleCI-after-Sort|Copy-elsewhere")
		}
		wantLo, wantHi := math.Inf(-1), math.Inf(1)
		if lo >= 1 {
			wantLo = d.sorted[lo-1]
		}
		if hi <= n {
			wantHi = d.sorted[hi-1]
		}
		// classes of the contents (reference side); which order statistics
		// the result selects is QuantileCI's answer, so that is only noted
		w.HitIf(d.overflowGap, "sample-finite-with-gap>MaxFloat64")
		w.HitIf(d.hasInf, "sample-with-Inf-observations")
		for _, k := range []int{lo, hi} {
			inf, gap := d.hostileAt(k)
			if inf {
				w.Note("SampleCI-order-on-an-Inf-observation")
			}
			if gap && d.hasInf {
				w.Note("SampleCI-order-beside-an-Inf-observation")
			}
			if gap && !d.hasInf {
				w.Note("SampleCI-order-beside-a-gap>MaxFloat64")
			}
		}
		if lo == 0 {
			w.Note("SampleCI-with-order-0")
		}
		if hi == n+1 {
			w.Note("SampleCI-with-order-n+1")
		}
		for _, g := range pres {
			var gq, glo, ghi float64
			w.Eval("SampleCI")
			name := fmt.Sprintf("QuantileCI(%d, %v, %v).SampleCI [orders %d,%d] (%s, sample seed %d", n, q, r.c, lo, hi, g.name, cs.Samp+uint64(k))
			if rounds > 1 {
				name += fmt.Sprintf(", written in place over the contents of the previous call: refill %d of this buffer", rounds-1)
			}
			name += ")"
			if p, v := mon.Call(func() { gq, glo, ghi = r.res.SampleCI(g.s) }); p {
				w.Violate("panic", fmt.Sprintf("%s panicked: %v", name, v), sub(r.c))
				continue
			}
			if ok, what := g.intact(); !ok {
				w.Violate("sample-modified", fmt.Sprintf("%s modified the sample: %s", name, what), sub(r.c))
				fresh := d.xs
				if g.sorted {
					fresh = d.sorted
				}
				*g = *c10Present(g.name, fresh, nil, g.sorted)
			}
			if !c10Same(glo, wantLo) || !c10Same(ghi, wantHi) {
				w.Violate("sample-bounds", fmt.Sprintf("%s returned lo=%v hi=%v, order statistics of the present contents are %v and %v", name, glo, ghi, wantLo, wantHi), sub(r.c))
			}
			if !c10Same(gq, d.wantQ[0]) && !c10Same(gq, d.wantQ[1]) {
				// Where the interpolation of Sample.Quantile itself leaves
				// the finite range (C10's business: infinite observations,
				// bracketing order statistics more than MaxFloat64 apart),
				// any value between the bracketing order statistics is
				// accepted instead of the value Quantile returned.
				if g := d.qHi - d.qLo; (math.IsInf(g, 0) || g != g) && gq >= d.qLo && gq <= d.qHi {
					w.Note("sample-quantile-accepted-by-bracket")
					continue
				}
				w.Violate("sample-quantile", fmt.Sprintf("%s returned q=%v, Sample.Quantile(%v) of the present contents is %v", name, gq, q, d.wantQ[0]), sub(r.c))
			}
		}
	}
	for _, r := range results {
		if !r.ok || seen[pair{r.res.LoOrder, r.res.HiOrder}] {
			continue
		}
		seen[pair{r.res.LoOrder, r.res.HiOrder}] = true
		first := rounds == 0
		round(r)
		if first {
			round(r) // the same orders on the other contents, same buffers
		}
		last = r
	}
	for last.ok && rounds < cs.Rounds && rounds < 1<<16 {
		round(last)
	}
}

// ---------------------------------------------------------------- generators

func c11Grid(levels int) []float64 {
	var cs []float64
	for j := 1; j < levels; j++ {
		cs = append(cs, float64(j)/float64(levels))
	}
	cs = append(cs, 0.999, 0.9999, 1-1e-6, 1-1e-9, 1-1e-12, 1e-3, 1e-6, 1e-9,
		1e-300, 1e-18, 1-1e-16, 1, 2, math.SmallestNonzeroFloat64, math.Nextafter(1, 2), math.Inf(1))
	return cs
}

func c11Qs() []float64 {
	var qs []float64
	for j := 0; j <= 40; j++ {
		qs = append(qs, float64(j)/40)
	}
	return append(qs, 1e-9, 1-1e-9)
}

// c11RandQ draws q from the hostile families.
func c11RandQ(rng *mon.Rand, n int) float64 {
	switch rng.Intn(11) {
	case 0: // (n+1)q next to an integer: two modes within rounding
		return float64(rng.Range(1, n)) / float64(n+1)
	case 1: // dyadic: exact ties, exact masses
		d := 1 << uint(rng.Range(1, 5))
		return float64(rng.Range(0, d)) / float64(d)
	case 2: // one ulp beside a grid value
		g := float64(rng.Range(1, 39)) / 40
		if rng.Bool() {
			return math.Nextafter(g, 2)
		}
		return math.Nextafter(g, -1)
	case 3:
		return rng.LogUniform(1e-9, 0.1)
	case 4:
		return 1 - rng.LogUniform(1e-9, 0.1)
	case 5: // nq - 1/2 next to an integer: mu on a bucket boundary
		return (float64(rng.Range(0, n-1)) + 0.5) / float64(n)
	case 6: // nearly symmetric: mirrored buckets nearly, not exactly, tied
		return 0.5 + rng.Sign()*rng.LogUniform(1e-14, 1e-6)
	case 7, 8: // beside the q at which buckets a < b carry the same mass
		if n > 60 {
			return 0.5 + rng.Sign()*rng.LogUniform(1e-14, 1e-6)
		}
		a := rng.Range(0, n-1)
		b := a + rng.Range(1, min(6, n-a))
		// C(n,a) q^a (1-q)^(n-a) = C(n,b) q^b (1-q)^(n-b)
		ratio := 1.0 // C(n,a)/C(n,b)
		for j := a + 1; j <= b; j++ {
			ratio *= float64(j) / float64(n-j+1)
		}
		t := math.Pow(ratio, 1/float64(b-a))
		q := t/(1+t) + rng.Sign()*rng.LogUniform(1e-14, 1e-6)
		return math.Min(1, math.Max(0, q))
	default:
		return rng.Float64()
	}
}

func c11RandCs(rng *mon.Rand, k int) []float64 {
	cs := []float64{1e-300, 1 - 1e-16, 1, 0.95, 0.5}
	for len(cs) < k {
		switch rng.Intn(4) {
		case 0:
			cs = append(cs, rng.LogUniform(1e-20, 1))
		case 1:
			cs = append(cs, 1-rng.LogUniform(1e-16, 1))
		default:
			cs = append(cs, rng.Float64())
		}
	}
	return cs
}

func c11Run(r *mon.Run) {
	r.Rule("exact regime: every n=1..30 x q in {j/40, 1e-9, 1-1e-9} x c in {j/200 (exact regime, thorough: j/2000), 0.999..1-1e-12, 1e-3..1e-300, 5e-324, 1-1e-16, 1, nextafter(1), 2, +Inf} plus, per (n,q), every cumulative mass of the reference's greedy path and every Confidence reported along the library's own path, each with both nextafter neighbours, fed back as c, and every cumulative mass of the reference path plus twice the rounding slack and times 1+-LogUniform(1e-16,1e-9). normal regime: n in {31..36, 50, 100, 101, 1000, 2000} (thorough: every n=31..130 and 200,500,999,1500) on the same q and c, plus per (n,q) levels that put an end of the central normal interval on / 1e-6 beside bucket boundaries at both clamps, near mu and at random, the levels where the band just covers [0,n+1], and the reported Confidences +-1ulp fed back, plus levels that put the end +-5e-11 and +-LogUniform(1e-12,1e-9) from each of those boundaries. random: n, q from hostile families ((n+1)q or nq-1/2 beside an integer, dyadic, grid+-1ulp, within 1e-9..0.1 of 0 and 1, 1/2+-LogUniform(1e-14,1e-6), the q at which two buckets at most 6 apart carry equal mass +-LogUniform(1e-14,1e-6), uniform) x 40 random c, expanded the same way. SampleCI on every distinct pair of orders of every case (unsorted with Sorted=false, sorted with Sorted=true; 7 sample families, without NaN and zeros: permutation of 1..n, normal, few distinct values, descending, offset up to 1e12 + normal, finite values of magnitude 0.9e308..MaxFloat64 (mixed sign with the sign change at a random order or next to nq, so that two neighbouring order statistics are more than MaxFloat64 apart; one sign; huge/moderate/huge), and samples holding -Inf and/or +Inf observations (one at either end, one at both, or up to n/2 of each) beside moderate or huge finite ones; lo and hi must equal the order statistics of a fresh sort on all of them; q must equal Sample.Quantile of the same data, or, where the bracketing order statistics of the R8 position are a non-finite distance apart, lie between them); the two guarded buffers of a case are overwritten in place with another data set between consecutive SampleCI rounds (the first pair of orders is applied to both sets) and every call is judged against a fresh sort of the present contents; before every SampleCI round 1..3 other Sample operations, in random order, run on unrelated samples of other lengths (2..16, for n<=40 also n+-1..5): Quantile and IQR of weighted and of unweighted unsorted samples, Sort of weighted and unweighted samples, Copy+Sort+Quantile/IQR (results discarded, panics there ignored). Every judged QuantileCI(n,q,c) is asked three times: again at once, and once more after one unrelated QuantileCI call (another level of the case, n+-1, an n of the other regime, q+-1/4, or (7,0.5,0.9)); the three answers must have the same bits, and a differing answer is judged with all the oracles as well. Non-trivial = hits a reference-side class; distinct by hash of (n,q,c) in the grid classes and of (n,q,levels) in the random classes; c at a cumulative mass (+-1ulp) and normal end points within 1e-9 of a bucket boundary are counted as ambiguous.")
	r.Assume("domain: n>=1, 0<=q<=1, c>0 (c<=0 and NaN are not confidence levels and are never generated); samples unweighted, of size n, of any float64 observations that have a sorted order (no NaN; no zeros, whose mutual order is undefined): the statement puts no bound on the values, so finite values up to MaxFloat64 and +-Inf observations are in the domain and x[LoOrder], x[HiOrder] are the order statistics themselves there too (bit-equal to a fresh sort); the Quantile(q) component is only compared with what Sample.Quantile returns for the same data (C10 judges that value), and where the interpolation leaves the finite range any value between the bracketing order statistics is accepted",
		"exact regime: q is taken as the exact rational value of the float64; tolerance 1e-12 on masses (31 products of a few ulp each); 'at least c' is judged on the exact mass of the returned buckets and on the reported Confidence with the rounding-scale slack 64(n+2)2^-52 max(c, mass) (at least 8x the worst deficit of a float64 accumulation of the masses); a bucket within 1e-12 of the largest mass counts as a mode",
		"'at least one end bucket is needed' is judged as stated (not both removable: mass - max(end masses) < c + 1e-12), not as the stronger 'the smaller end is needed'",
		"normal regime: mu, sigma correctly rounded from exact nq, nq(1-q); inverse of Phi by bisection on math.Erfc, checked at start-up against the 384-bit Newton inversion; window 1e-9 around bucket boundaries, inside which the outward neighbour is always accepted and the inward one only if its band still carries normal mass >= c-1e-13; Confidence +-1e-9 of the band's mass and 1-Confidence within 1e-6 relative + 1e-15 of the mass outside the band (sum of the two outer erfc values; 0 when the band covers everything, so that exactly 1 is accepted only there or when the outside mass is below 1e-15: two erfc values at |t|<=26.5 differ by at most 1400 times the relative difference of their arguments, below 1e-8 for n<=2001, and a difference of two values next to 1 carries two roundings of 1.1e-16); band mass and Confidence >= c-1e-13 (rounding of two erfc values)",
		"for n>30 the Ambiguous flag is only required where the upper order is one below the outward rounding; nesting is asserted for n<=30 only (as stated)")
	r.Gate("n<=30", "n>30", "q=0|1", "c>=1", "c<1e-17", "c-at-cumulative-mass(+-1ulp)", "c==cumulative-mass",
		"ref-shift-equal(n<=30)", "ref-shift-unequal(n<=30)", "exact-tie-modes", "near-tie-modes",
		"trim-feasible(n>30)", "trim-infeasible(n>30)", "symmetric-band(n>30)", "asymmetric-band(n>30)",
		"ref-clamped-at-0", "ref-clamped-at-n+1", "ref-order-0", "ref-order-n+1",
		"full-range(n>30,c<1)", "full-range-mass<1-2e-9", "window(n>30)", "point-band-on-bucket-boundary(n>30)",
		"sample-unsorted",
		"ref-shift-nearly-equal(n<=30)", "c-just-above-cumulative-mass(n<=30)", "end-just-outside-boundary(n>30)", "sample-refilled-in-place",
		"asked-again-at-once", "asked-again-after-an-unrelated-call", "outside-mass-1e-13..1e-9(n>30)",
		"SampleCI-after-weighted-unsorted-Quantile|IQR-elsewhere", "SampleCI-after-unweighted-unsorted-Quantile|IQR-elsewhere", "SampleCI-after-Sort|Copy-elsewhere",
		"sample-finite-with-gap>MaxFloat64", "sample-with-Inf-observations",
		"SampleCI-order-beside-a-gap>MaxFloat64", "SampleCI-order-beside-an-Inf-observation", "SampleCI-order-on-an-Inf-observation")
	if err := ref.C11SelfTest(); err != nil {
		r.Inconclusive("reference self-test failed: " + err.Error())
		return
	}

	grid, fine, qs := c11Grid(200), c11Grid(r.Pick(200, 2000)), c11Qs()

	r.Exhaustive("n=1..30 x 43 q x 215 c levels plus the cumulative masses of the greedy path and their neighbours")
	r.Parallel("exact-grid", 30*len(qs), func(w *mon.W, i int) {
		n, q := i/len(qs)+1, qs[i%len(qs)]
		c11Judge(w, c11Case{N: n, Q: mon.F(q), Cs: mon.Fs(fine), Expand: true, Samp: w.Rng.Uint64() >> 11})
	})

	ns := []int{31, 32, 33, 34, 35, 36, 50, 100, 101, 1000, 2000}
	if !r.Quick {
		ns = ns[:0]
		for n := 31; n <= 130; n++ {
			ns = append(ns, n)
		}
		ns = append(ns, 200, 500, 999, 1000, 1500, 2000)
	}
	r.Parallel("normal-grid", len(ns)*len(qs), func(w *mon.W, i int) {
		n, q := ns[i/len(qs)], qs[i%len(qs)]
		c11Judge(w, c11Case{N: n, Q: mon.F(q), Cs: mon.Fs(grid), Expand: true, Samp: w.Rng.Uint64() >> 11})
	})

	r.Parallel("exact-random", r.Pick(15000, 250000), func(w *mon.W, i int) {
		rng := w.Rng
		n := rng.Range(1, 30)
		q := c11RandQ(rng, n)
		c11Judge(w, c11Case{N: n, Q: mon.F(q), Cs: mon.Fs(c11RandCs(rng, 40)), Expand: true, Samp: rng.Uint64() >> 11})
	})

	r.Parallel("normal-random", r.Pick(15000, 250000), func(w *mon.W, i int) {
		rng := w.Rng
		var n int
		switch rng.Intn(4) {
		case 0:
			n = rng.Range(31, 70)
		case 1:
			n = 2*rng.Range(15, 300) + 1 // odd: n/2 on a bucket boundary
		default:
			n = int(rng.LogUniform(31, 2001))
		}
		q := c11RandQ(rng, n)
		if rng.Intn(6) == 0 {
			q = 0.5
		}
		c11Judge(w, c11Case{N: n, Q: mon.F(q), Cs: mon.Fs(c11RandCs(rng, 40)), Expand: true, Samp: rng.Uint64() >> 11})
	})
}
