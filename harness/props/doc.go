// Package props holds one workload + monitor per property.
package props
