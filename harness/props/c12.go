package props

import (
	"encoding/json"
	"fmt"
	"math"
	"sort"

	"github.com/aclements/go-moremath/stats"

	"verifmon/mon"
	"verifmon/ref"
)

// C12 — a KDE is a proper probability distribution consistent with its
// kernel formula; Bounds; the bandwidth rules.

type c12Case struct {
	Op      string  `json:"op"` // "kde", "bw-sample", "bw-iface"
	Xs      []mon.F `json:"xs,omitempty"`
	Ws      []mon.F `json:"ws,omitempty"` // absent: unweighted
	Sorted  bool    `json:"sorted,omitempty"`
	Kernel  int     `json:"kernel"`
	H       mon.F   `json:"h"`    // 0: let the library choose (Scott's rule)
	BMin    mon.F   `json:"bmin"` // the two library fields as passed; 0,0 = no boundaries
	BMax    mon.F   `json:"bmax"`
	Pts     []mon.F `json:"pts,omitempty"`     // evaluation points, ascending
	Ivs     []mon.F `json:"ivs,omitempty"`     // pairs a,b inside the support
	First   string  `json:"first,omitempty"`   // first method called on a zero-bandwidth KDE
	FirstX  *mon.F  `json:"firstx,omitempty"`  // its argument (absent: the first sample value)
	NoTotal bool    `json:"nototal,omitempty"` // skip the total-mass integral (re-parameterisation phases)
	Re      []c12Re `json:"re,omitempty"`      // after the evaluation: re-parameterise and evaluate again

	// bw-iface: what the harness type reports
	SD  mon.F `json:"sd,omitempty"`
	W   mon.F `json:"w,omitempty"`
	Q25 mon.F `json:"q25,omitempty"`
	Q75 mon.F `json:"q75,omitempty"`
}

// c12Re is one re-parameterisation of a KDE that has been evaluated: the
// exported fields Kernel, Bandwidth, BoundaryMin, BoundaryMax are assigned on
// the same struct (each step starts from the previous one) or on a by-value
// copy of the struct as it stood after the first evaluation phase; then the
// KDE is evaluated at Pts / Ivs like a new one.
//
// Data says what happens to the sample first (absent: nothing):
//
//	"xs-inplace"   every element of Sample.Xs is overwritten with NXs
//	"ws-inplace"   every element of Sample.Weights is overwritten with NWs
//	"both-inplace" both
//	"assign"       Sample = Sample{Xs: NXs, Weights: NWs (absent: none), Sorted: NSorted}
//
// In-place writes go to the backing arrays, which a by-value copy of the
// struct shares with the struct it was copied from: every later evaluation of
// either is judged against the data as they are at the time of the call.
type c12Re struct {
	Copy    bool    `json:"copy,omitempty"`
	Data    string  `json:"data,omitempty"`
	NXs     []mon.F `json:"nxs,omitempty"`
	NWs     []mon.F `json:"nws,omitempty"`
	NSorted bool    `json:"nsorted,omitempty"`
	Kernel  int     `json:"kernel"`
	H       mon.F   `json:"h"`
	BMin    mon.F   `json:"bmin"`
	BMax    mon.F   `json:"bmax"`
	Pts     []mon.F `json:"pts,omitempty"`
	Ivs     []mon.F `json:"ivs,omitempty"`
	First   string  `json:"first,omitempty"`
	FirstX  *mon.F  `json:"firstx,omitempty"`
	NoTotal bool    `json:"nototal,omitempty"`
}

func init() {
	mon.Register(&mon.Prop{ID: "C12", Run: c12Run, Replay: func(w *mon.W, v *mon.ViolationRec) {
		var c c12Case
		if json.Unmarshal(v.Case, &c) == nil {
			c12Judge(w, c)
		}
	}})
}

var c12KernelName = [3]string{"epanechnikov", "gaussian", "delta"}

const (
	c12TolCDF   = 1e-9  // absolute, reference comparison of the CDF
	c12TolPDF   = 1e-9  // relative to the largest density of the estimate
	c12TolInt   = 1e-8  // integral of PDF against CDF difference / 1
	c12Slack    = 1e-12 // range and monotonicity slack of a CDF that is a rounded average
	c12TolBW    = 1e-12 // relative, bandwidth rules
	c12MinMass  = 0.98
	c12EdgeUlps = 64 // widening of Bounds, in ulps of the working magnitude, before its mass is measured

	// Gaussian kernel: where the reference density is above c12TailFloor
	// (28 decades above the smallest normal float64) the library's density
	// must be positive and agree to c12TolTail relative; "tail" as a class:
	// reference below c12TailBelow of the largest density, where the
	// absolute tolerance says nothing.
	// The floor applies to the density and to the density times the bandwidth
	// (the kernel value before it is divided by the bandwidth), so that it
	// means the same at every data scale.
	c12TailFloor = 1e-280
	c12TolTail   = 1e-6
	c12TailBelow = 1e-10

	// Conditioning: an implementation forms x - x_i, and with boundaries the
	// mirror images of x, in arithmetic rounded at the magnitude of the
	// operands; a point displaced by a few ulps of that magnitude moves a
	// kernel of width h by eps*magnitude/h of its width. Every tolerance on
	// a density (relative to the largest density), on a distribution function
	// value and on an integral gets c12CondFactor x eps x magnitude /
	// bandwidth on top; negligible unless the data sit many bandwidths from
	// the origin.
	c12CondFactor = 32
	c12CondSlack  = 8 // the same for the range and monotonicity slack

	// Large samples: the largest density of the estimate (the scale of the
	// density tolerances) is taken over all data points up to c12FmaxAll of
	// them and over c12FmaxSub of them beyond (the reference is O(n) per
	// point); integrals of the library's density (one panel per kernel end,
	// each an O(n) call) are taken up to c12IntegMaxN values.
	c12FmaxAll   = 400
	c12FmaxSub   = 32
	c12IntegMaxN = 300
)

// c12Stat is the harness type handed to the bandwidth rules.
type c12Stat struct {
	sd, w, q25, q75 float64
	calls           int
	otherQ          int
}

func (s *c12Stat) StdDev() float64 { s.calls++; return s.sd }
func (s *c12Stat) Weight() float64 { s.calls++; return s.w }
func (s *c12Stat) Quantile(q float64) float64 {
	s.calls++
	if s.calls > 1000 {
		panic("c12: step budget exceeded: more than 1000 calls into the data interface")
	}
	switch q {
	case 0.25:
		return s.q25
	case 0.75:
		return s.q75
	}
	s.otherQ++
	// a monotone interpolant through the two quartiles
	return s.q25 + (q-0.25)/0.5*(s.q75-s.q25)
}

func c12Config(c c12Case) (bounded bool, bmin, bmax float64, name string) {
	bmin, bmax = math.Inf(-1), math.Inf(1)
	if float64(c.BMin) != 0 || float64(c.BMax) != 0 {
		bmin, bmax = float64(c.BMin), float64(c.BMax)
		// an infinite boundary is no boundary on that side (KDE field
		// documentation): (-Inf,+Inf) is the other way of writing "none"
		bounded = !(math.IsInf(bmin, -1) && math.IsInf(bmax, 1))
	}
	lo, up := !math.IsInf(bmin, -1), !math.IsInf(bmax, 1)
	switch {
	case lo && up:
		name = "both"
	case lo:
		name = "lower"
	case up:
		name = "upper"
	default:
		name = "none"
	}
	return
}

func c12Judge(w *mon.W, c c12Case) {
	switch c.Op {
	case "kde":
		c12JudgeKDE(w, c)
	case "bw-sample":
		c12JudgeBWSample(w, c)
	case "bw-iface":
		c12JudgeBWIface(w, c)
	}
}

// c12BWTol is the tolerance of a bandwidth rule on real data: 1e-12
// relative, plus what the conditioning of the standard deviation and of the
// quartile difference allows when the data sit far from the origin.
func c12BWTol(want float64, n int, maxAbs float64) float64 {
	return c12TolBW*math.Abs(want) + 32*float64(n)*0x1p-52*maxAbs
}

func c12JudgeBWSample(w *mon.W, c c12Case) {
	xs := mon.Un(c.Xs)
	info := ref.BandwidthRules(xs)
	s := stats.Sample{Xs: append([]float64(nil), xs...), Sorted: c.Sorted}
	w.HitIf(info.IQR/1.349 < info.SD, "bw-robust-branch")
	w.HitIf(info.IQR/1.349 >= info.SD, "bw-stddev-branch")
	w.HitIf(c.Sorted, "sorted-flag")
	c12HitSize(w, len(xs), c.Sorted, false)
	w.HitIf(len(xs) > 40, "large/bw-sample")
	w.HitIf(len(xs) > 40 && info.IQR/1.349 < info.SD, "large/bw-robust-branch")
	var scott, silver float64
	w.Eval("BandwidthScott")
	if p, e := mon.Call(func() { scott = stats.BandwidthScott(s) }); p {
		w.Violate("panic", fmt.Sprintf("BandwidthScott(Sample n=%d) panicked: %v", len(xs), e), c)
		return
	}
	w.Eval("BandwidthSilverman")
	if p, e := mon.Call(func() { silver = stats.BandwidthSilverman(s) }); p {
		w.Violate("panic", fmt.Sprintf("BandwidthSilverman(Sample n=%d) panicked: %v", len(xs), e), c)
		return
	}
	if !w.Err("BandwidthScott", math.Abs(scott-info.Scott), c12BWTol(info.Scott, len(xs), info.MaxAbs)) {
		w.Violate("scott", fmt.Sprintf("BandwidthScott(n=%d)=%.17g, want 1.06*min(s=%.17g, IQR/1.349=%.17g)*n^(-1/5)=%.17g", len(xs), scott, info.SD, info.IQR/1.349, info.Scott), c)
	}
	if !w.Err("BandwidthSilverman", math.Abs(silver-info.Silverman), c12BWTol(info.Silverman, len(xs), info.MaxAbs)) {
		w.Violate("silverman", fmt.Sprintf("BandwidthSilverman(n=%d)=%.17g, want 1.06*s*n^(-1/5)=%.17g (s=%.17g)", len(xs), silver, info.Silverman, info.SD), c)
	}
	if w.WantSample() {
		w.Sample(map[string]any{"op": "BandwidthScott/Silverman", "n": len(xs), "scott": mon.F(scott), "silverman": mon.F(silver), "ref_scott": mon.F(info.Scott), "ref_silverman": mon.F(info.Silverman)})
	}
}

func c12JudgeBWIface(w *mon.W, c c12Case) {
	sd, wt, q25, q75 := float64(c.SD), float64(c.W), float64(c.Q25), float64(c.Q75)
	iqr := q75 - q25
	scale := ref.Mul(ref.Quo(ref.NI(106), ref.NI(100)), ref.PowNegFifth(ref.NF(wt)))
	rob := ref.Quo(ref.Mul(ref.Sub(ref.NF(q75), ref.NF(q25)), ref.NI(1000)), ref.NI(1349))
	least := ref.NF(sd)
	if rob.Cmp(least) < 0 {
		least = rob
		w.Hit("bw-robust-branch")
	} else {
		w.Hit("bw-stddev-branch")
	}
	w.Hit("bw-harness-type")
	w.HitIf(wt != math.Floor(wt), "bw-non-integer-weight")
	w.HitIf(iqr == 0 || sd == 0, "bw-zero-scale")
	wantScott := ref.F64(ref.Mul(scale, least))
	wantSilver := ref.F64(ref.Mul(scale, ref.NF(sd)))
	// the quartile difference is formed in float64 by any implementation:
	// one rounding of a difference of the two reported values
	tolS := c12TolBW*math.Abs(wantScott) + 4*ulp(math.Max(math.Abs(q25), math.Abs(q75)))
	var scott, silver float64
	st := &c12Stat{sd: sd, w: wt, q25: q25, q75: q75}
	w.Eval("BandwidthScott")
	if p, e := mon.Call(func() { scott = stats.BandwidthScott(st) }); p {
		w.Violate("panic", fmt.Sprintf("BandwidthScott(harness type sd=%g w=%g q25=%g q75=%g) panicked: %v", sd, wt, q25, q75, e), c)
		return
	}
	w.HitIf(st.otherQ > 0, "bw-quantile-other-than-quartiles") // informational: never gated
	st2 := &c12Stat{sd: sd, w: wt, q25: q25, q75: q75}
	w.Eval("BandwidthSilverman")
	if p, e := mon.Call(func() { silver = stats.BandwidthSilverman(st2) }); p {
		w.Violate("panic", fmt.Sprintf("BandwidthSilverman(harness type sd=%g w=%g) panicked: %v", sd, wt, e), c)
		return
	}
	if !w.Err("BandwidthScott(iface)", math.Abs(scott-wantScott), tolS) {
		w.Violate("scott", fmt.Sprintf("BandwidthScott(sd=%g, weight=%g, Q(.25)=%g, Q(.75)=%g)=%.17g, want %.17g", sd, wt, q25, q75, scott, wantScott), c)
	}
	if !w.Err("BandwidthSilverman(iface)", math.Abs(silver-wantSilver), c12TolBW*math.Abs(wantSilver)) {
		w.Violate("silverman", fmt.Sprintf("BandwidthSilverman(sd=%g, weight=%g)=%.17g, want %.17g", sd, wt, silver, wantSilver), c)
	}
}

// c12Ctx is one evaluation phase of a case: a KDE struct as it stands now
// (k) and the parameters it is supposed to hold (c: the root case, or the
// root case with the fields of one re-parameterisation substituted).
type c12Ctx struct {
	w          *mon.W
	root       c12Case // what is stored with a violation: the whole history
	c          c12Case // parameters of this phase
	k          *stats.KDE
	xs, ws     []float64
	seen       map[float64]bool
	xmin, xmax float64
	maxAbs     float64 // largest |sample value|
	slk        float64 // range / monotonicity slack of a rounded average of n terms
	bounded    bool
	bmin, bmax float64
	conf, desc string
	nviol      int
}

func (t *c12Ctx) bad(kind, msg string) {
	t.nviol++
	if t.nviol <= 3 {
		t.w.Violate(kind, t.desc+": "+msg, t.root)
	}
}

// mag is the magnitude in which the images of x are formed.
func (t *c12Ctx) mag(x float64) float64 {
	mag := math.Max(math.Abs(x), t.maxAbs)
	for _, b := range []float64{t.bmin, t.bmax} {
		if !math.IsInf(b, 0) {
			mag = math.Max(mag, math.Abs(b))
		}
	}
	return mag
}

// cond is eps x magnitude / bandwidth at x (0 for the delta kernel, which
// has its own windows in ulps).
func (t *c12Ctx) cond(m *ref.KDEModel, x float64) float64 {
	if t.c.Kernel == ref.KDelta || !(m.H > 0) {
		return 0
	}
	return 0x1p-52 * t.mag(x) / m.H
}

// fmaxData is the largest density of the estimate over the data points.
func (t *c12Ctx) fmaxData(m *ref.KDEModel) float64 {
	fmax := 0.0
	if t.c.Kernel != ref.KDelta {
		// every data point up to c12FmaxAll of them; of a larger sample every
		// (n/c12FmaxSub)-th in the order given (a smaller "largest density"
		// only tightens the tolerances that are relative to it)
		step := 1
		if n := len(t.xs); n > c12FmaxAll {
			step = n / c12FmaxSub
		}
		for i := 0; i < len(t.xs); i += step {
			x := t.xs[i]
			fmax = math.Max(fmax, m.PDF(x))
			fmax = math.Max(fmax, m.BasePDF(x))
		}
	}
	return fmax
}

// c12SlackN is the range and monotonicity slack of a distribution function
// value that is a rounded average of n terms: c12Slack, and from a few
// thousand terms on the bound of a plain left-to-right sum of n non-negative
// terms divided by such a sum (n x 2^-53 relative each, doubled).
func c12SlackN(n int) float64 {
	return math.Max(c12Slack, 2*float64(n)*0x1p-52)
}

// c12RoundSizes are sample sizes at which an implementation may change its
// ways (block lengths, cut-overs to another algorithm, the range of a narrow
// counter): each is used as it stands and plus one.
var c12RoundSizes = []int{64, 100, 128, 256, 500, 512, 1000, 1024, 2000, 2048, 4096, 5000, 8192, 10000, 16384, 20000, 32768, 50000, 65536, 100000, 131072, 200000}

// c12Sizes returns the round sizes and the largest random size of a tier.
func c12Sizes(quick bool) (round []int, maxN int) {
	if !quick {
		return c12RoundSizes, 200000
	}
	for _, r := range c12RoundSizes {
		if r <= 20000 || r == 32768 || r == 65536 {
			round = append(round, r)
		}
	}
	return round, 20000
}

// c12LargeN is the size of case i of a large-sample class: the first
// per*len(round) cases take every round size and its successor per/2 times
// each, the others are log-uniform over 41..maxN.
func c12LargeN(rng *mon.Rand, i, per int, round []int, maxN int) int {
	if i < per*len(round) {
		return round[i/per] + i%2
	}
	n := int(rng.LogUniform(41, float64(maxN)+1))
	return min(max(n, 41), maxN)
}

// c12HitSize records the size classes of a sample of more than 40 values.
func c12HitSize(w *mon.W, n int, sorted, weighted bool) {
	if n <= 40 {
		return
	}
	w.Hit("large/n>40")
	switch {
	case n <= 256:
		w.Hit("large/n=41..256")
	case n < 1000:
		w.Hit("large/n=257..999")
	case n < 10000:
		w.Hit("large/n=1000..9999")
	default:
		w.Hit("large/n>=10000")
	}
	w.HitIf(n >= 1<<16, "large/n>=2^16")
	for _, r := range c12RoundSizes {
		w.HitIf(n == r, "large/n-at-round-size")
		w.HitIf(n == r+1, "large/n-just-beyond-round-size")
	}
	w.HitIf(n >= 1000 && !sorted && !weighted, "large/unsorted-unweighted-n>=1000")
	w.HitIf(weighted, "large/weights")
	w.HitIf(sorted, "large/sorted-flag")
}

// judgePDF holds one density value p = PDF(x) against the model. refP is
// m.PDF(x) (unused for the delta kernel), fmax the largest density.
func (t *c12Ctx) judgePDF(m *ref.KDEModel, x, p, refP, fmax float64, what string) {
	w := t.w
	if !(p >= 0) {
		t.bad("pdf-negative", fmt.Sprintf("%sPDF(%.17g)=%g", what, x, p))
		return
	}
	if t.c.Kernel == ref.KDelta {
		// The density of point masses is not a function; what the statement
		// and the kernel's documentation determine: it vanishes outside
		// [BoundaryMin,BoundaryMax), and it is 0 wherever no sample value
		// sits. With boundaries the images of x are formed in rounded
		// arithmetic, so a point within a few ulps of a sample value is not
		// judged.
		switch {
		case t.bounded && (x < t.bmin || x >= t.bmax):
			w.Hit("delta-pdf-outside-boundaries")
			w.HitIf(x == t.bmax && t.seen[x], "delta-pdf-at-BoundaryMax-sample")
			w.Err("delta-PDF=0-outside", p, 0)
			if p != 0 {
				t.bad("delta-pdf-outside", fmt.Sprintf("%sPDF(%.17g)=%g outside [BoundaryMin,BoundaryMax), want 0", what, x, p))
			}
		case t.bounded && m.NearSample(x, 64*ulp(t.mag(x))), !t.bounded && t.seen[x]:
			// at (or, with boundaries, within rounding of) a point mass
		default:
			w.Hit("delta-pdf-off-sample")
			w.Err("delta-PDF=0-off-sample", p, 0)
			if p != 0 {
				t.bad("delta-pdf-off-sample", fmt.Sprintf("%sPDF(%.17g)=%g although no sample value equals the argument, want 0", what, x, p))
			}
		}
		return
	}
	if !w.Err("PDF-vs-kernel-average", math.Abs(p-refP), (c12TolPDF+c12CondFactor*t.cond(m, x))*fmax) {
		t.bad("pdf-ref-"+t.conf, fmt.Sprintf("%sPDF(%.17g)=%.15g, %s reference %.15g (largest density %.3g)", what, x, p, c12RefName(t.conf), refP, fmax))
		return
	}
	if t.c.Kernel == ref.KGaussian && refP > c12TailFloor && refP*m.H > c12TailFloor {
		// Gaussian kernel: every term of the (folded) average is positive, so
		// the value is determined relative to itself, however small. The
		// tolerance allows for the rounding of the image points (formed at
		// magnitude mag, amplified by the slope of the log-density, at most 39
		// per bandwidth where exp does not underflow).
		h := m.H
		w.HitIf(refP < c12TailBelow*fmax, "gaussian-tail")
		tol := c12TolTail + 8*39*0x1p-52*t.mag(x)/h
		if !(p > 0) {
			t.bad("pdf-tail-zero", fmt.Sprintf("%sPDF(%.17g)=%g where the %s is %.6g > 0", what, x, p, c12RefName(t.conf), refP))
		} else if !w.Err("PDF-gaussian-relative", math.Abs(p-refP)/refP, tol) {
			t.bad("pdf-tail-relative", fmt.Sprintf("%sPDF(%.17g)=%.15g, %s reference %.15g: relative error %.3g", what, x, p, c12RefName(t.conf), refP, math.Abs(p-refP)/refP))
		}
	}
}

// judgeCDF holds one value f = CDF(x) against the model (refC = m.CDF(x));
// amb says that the value was taken inside an ambiguity window.
func (t *c12Ctx) judgeCDF(m *ref.KDEModel, x, f, refC float64, what string) (amb bool) {
	w := t.w
	if sl := t.slk + c12CondSlack*t.cond(m, x); !(f >= -sl && f <= 1+sl) {
		t.bad("cdf-range", fmt.Sprintf("%sCDF(%.17g)=%.17g outside [0,1]", what, x, f))
		return
	}
	if t.c.Kernel == ref.KDelta {
		// with boundaries the images of x are formed in rounded
		// arithmetic: within a few ulps of a jump both sides are accepted
		if t.bounded {
			mag := math.Abs(x)
			for _, b := range []float64{t.bmin, t.bmax} {
				if !math.IsInf(b, 0) {
					mag = math.Max(mag, math.Abs(b))
				}
			}
			alo, ahi, jump := m.DeltaWindow(x, 16*ulp(mag))
			if jump {
				amb = true
				w.Ambiguous()
				if !(f >= alo-t.slk && f <= ahi+t.slk) {
					t.bad("delta-cdf", fmt.Sprintf("%sCDF(%.17g)=%.17g, weighted empirical CDF %.17g (between %.17g and %.17g within 16 ulps)", what, x, f, refC, alo, ahi))
				}
			}
		}
		if !amb && !w.Err("CDF=weighted-ECDF", math.Abs(f-refC), t.slk) {
			t.bad("delta-cdf", fmt.Sprintf("%sCDF(%.17g)=%.17g, weighted empirical CDF %.17g", what, x, f, refC))
		}
		return
	}
	if !w.Err("CDF-vs-kernel-average", math.Abs(f-refC), c12TolCDF+c12CondFactor*t.cond(m, x)) {
		t.bad("cdf-ref-"+t.conf, fmt.Sprintf("%sCDF(%.17g)=%.15g, %s reference %.15g", what, x, f, c12RefName(t.conf), refC))
	}
	return
}

// judgeBounds holds one result of Bounds against the model.
func (t *c12Ctx) judgeBounds(m *ref.KDEModel, blo, bhi float64, what string) {
	w := t.w
	if math.IsNaN(blo) || math.IsNaN(bhi) || math.IsInf(blo, 0) || math.IsInf(bhi, 0) {
		t.bad("bounds-finite", fmt.Sprintf("%sBounds()=(%g,%g)", what, blo, bhi))
		return
	}
	if blo > bhi {
		t.bad("bounds-order", fmt.Sprintf("%sBounds()=(%.17g,%.17g)", what, blo, bhi))
	}
	if blo < t.bmin || bhi > t.bmax {
		t.bad("bounds-outside-boundaries", fmt.Sprintf("%sBounds()=(%.17g,%.17g) not inside [%g,%g]", what, blo, bhi, t.bmin, t.bmax))
	}
	// The interval is widened before its mass is measured by c12EdgeUlps
	// ulps at the magnitude in which an implementation forms the images of a
	// point (end points, data, boundaries): an end point found by a search on
	// a CDF that is itself formed in rounded arithmetic can sit that far from
	// where exact arithmetic would put it, and a search on the step function
	// of the delta kernel ends on one of the two floats next to a jump. The
	// allowance is in ulps, not relative to the magnitude: 1e-9 x magnitude is
	// whole bandwidths for data 1e9 bandwidths from the origin. The mass
	// itself is held to the statement's 98% less twice the tolerance of a CDF
	// value.
	slack := c12EdgeUlps * ulp(t.mag(math.Max(math.Abs(blo), math.Abs(bhi))))
	var mass float64
	if t.c.Kernel == ref.KDelta {
		mass = m.PointMass(blo-slack, bhi+slack)
	} else {
		mass = m.CDF(bhi+slack) - m.CDF(blo-slack)
	}
	w.Err("Bounds-mass-deficit", math.Max(0, 1-mass), 1-c12MinMass+2*c12TolCDF)
	if !(mass >= c12MinMass-2*c12TolCDF) {
		t.bad("bounds-mass", fmt.Sprintf("%sBounds()=(%.17g,%.17g) holds %.6g of the mass, want >= 0.98", what, blo, bhi, mass))
	}
}

// c12Buf is one pair of backing arrays handed to the library (xs, ws; ws nil:
// unweighted) with the harness's own record of what they hold (mxs, mws):
// the model of an evaluation is built from the record, never from the arrays
// the library can reach.
type c12Buf struct {
	xs, ws   []float64
	mxs, mws []float64
	writer   int // who last overwrote the arrays in place (0: nobody; 1: the KDE struct; j+2: the copy of step j)
}

func c12NewBuf(xs, ws []float64) *c12Buf {
	b := &c12Buf{xs: append([]float64(nil), xs...), mxs: append([]float64(nil), xs...)}
	if ws != nil {
		b.ws, b.mws = append([]float64(nil), ws...), append([]float64(nil), ws...)
	}
	return b
}

// holds reports whether s still is the sample the harness put there: the
// same backing arrays with the recorded contents. (A library that replaced
// or permuted the caller's sample would make "overwrite in place" mean
// something else than the record says; such steps are then not made.)
func (b *c12Buf) holds(s stats.Sample) bool {
	same := func(a, v, m []float64) bool {
		if len(a) != len(v) || (a == nil) != (v == nil) {
			return false
		}
		if len(a) > 0 && &a[0] != &v[0] {
			return false
		}
		for i := range a {
			if math.Float64bits(a[i]) != math.Float64bits(m[i]) {
				return false
			}
		}
		return true
	}
	return same(s.Xs, b.xs, b.mxs) && same(s.Weights, b.ws, b.mws)
}

// c12NewCtx is the evaluation context of a sample (the harness's record).
func c12NewCtx(w *mon.W, root c12Case, mxs, mws []float64) (t c12Ctx, ties bool) {
	xs := append([]float64(nil), mxs...)
	var ws []float64
	if mws != nil {
		ws = append([]float64(nil), mws...)
	}
	t = c12Ctx{w: w, root: root, xs: xs, ws: ws, seen: make(map[float64]bool, len(xs)), xmin: xs[0], xmax: xs[0]}
	t.slk = c12SlackN(len(xs))
	for _, x := range xs {
		t.xmin, t.xmax = math.Min(t.xmin, x), math.Max(t.xmax, x)
		t.maxAbs = math.Max(t.maxAbs, math.Abs(x))
		if t.seen[x] {
			ties = true
		}
		t.seen[x] = true
	}
	return
}

func c12SumF(xs []float64) float64 {
	s := 0.0
	for _, x := range xs {
		s += x
	}
	return s
}

func c12JudgeKDE(w *mon.W, c c12Case) {
	xs := mon.Un(c.Xs)
	var ws []float64
	if c.Ws != nil {
		ws = mon.Un(c.Ws)
	}
	n := len(xs)
	if n == 0 || c.Kernel < 0 || c.Kernel > 2 || (ws != nil && len(ws) != n) {
		return
	}
	for _, re := range c.Re {
		if re.Kernel < 0 || re.Kernel > 2 {
			return
		}
	}
	buf0 := c12NewBuf(xs, ws)
	k := &stats.KDE{Sample: stats.Sample{Xs: buf0.xs, Weights: buf0.ws, Sorted: c.Sorted}, Kernel: stats.KDEKernel(c.Kernel), Bandwidth: float64(c.H),
		BoundaryMin: float64(c.BMin), BoundaryMax: float64(c.BMax)}

	base, ties := c12NewCtx(w, c, xs, ws)
	// classes of the data: inputs only
	w.HitIf(ws != nil, "weights")
	w.HitIf(n == 1, "n=1")
	w.HitIf(n >= 2 && base.xmin == base.xmax, "constant-sample")
	w.HitIf(ties, "ties")
	w.HitIf(c.Sorted, "sorted-flag")
	c12HitSize(w, n, c.Sorted, ws != nil)
	if n > 40 {
		w.Hit("large/" + c12KernelName[c.Kernel])
		// a kernel of bounded support narrower than the data: at most points
		// some values are inside the kernel and some outside
		w.HitIf(n > 256 && c.Kernel == ref.KEpanechnikov && float64(c.H) > 0 && float64(c.H) < 0.5*(base.xmax-base.xmin), "large/bounded-kernel-narrower-than-data")
	}
	if sp := base.xmax - base.xmin; sp > 0 {
		w.HitIf(sp <= 1e-6, "data-scale<=1e-6")
		w.HitIf(sp >= 1e6, "data-scale>=1e6")
		if base.maxAbs >= 1e8*sp {
			// non-constant data far from the origin compared with their spread
			// (time stamps in nanoseconds, large counters)
			bd, b0, b1, _ := c12Config(c)
			w.Hit("data>=1e8-spreads-from-origin")
			w.HitIf(base.maxAbs >= 1e10*sp, "data>=1e10-spreads-from-origin")
			w.HitIf(ws != nil, "far-data/weights")
			w.HitIf(bd, "far-data/boundaries")
			w.HitIf(bd && (b0 == base.xmin || b1 == base.xmax), "far-data/boundary-touching-data")
		}
	}

	// phase 0: the KDE as constructed
	t := base
	t.c, t.k = c, k
	if !c12JudgePhase(&t, "") {
		return
	}
	if len(c.Re) == 0 {
		return
	}
	// evaluate -> re-parameterise -> evaluate. KDE is a plain struct of
	// exported fields, without a constructor: assigning to Kernel, Bandwidth
	// and the boundaries of a KDE that has been evaluated, giving it another
	// Sample, overwriting the values or weights of the Sample it holds, on
	// the struct or on a by-value copy of it, is ordinary use, and the
	// property speaks of the sample and parameters the KDE holds when it is
	// called.
	used := *k   // the by-value copy of the used struct, taken before any change
	kbuf := buf0 // the arrays k's Sample points at
	for j, re := range c.Re {
		target, tb, who := k, kbuf, 1
		label := fmt.Sprintf("step %d, same KDE struct after evaluation", j+1)
		if re.Copy {
			cp := used
			target, tb, who = &cp, buf0, j+2
			label = fmt.Sprintf("step %d, by-value copy of the evaluated KDE struct", j+1)
			w.Hit("reparam/copy")
		} else {
			w.Hit("reparam/same-struct")
		}
		was := stats.KDE{Kernel: target.Kernel, Bandwidth: target.Bandwidth, BoundaryMin: target.BoundaryMin, BoundaryMax: target.BoundaryMax}

		// the sample
		if re.Data != "" {
			nx, nw := mon.Un(re.NXs), mon.Un(re.NWs)
			oldW, oldN, oldWeighted := float64(len(tb.mxs)), len(tb.mxs), tb.mws != nil
			if oldWeighted {
				oldW = c12SumF(tb.mws)
			}
			switch re.Data {
			case "xs-inplace", "ws-inplace", "both-inplace":
				doX, doW := re.Data != "ws-inplace", re.Data != "xs-inplace"
				if (doX && len(nx) != len(tb.mxs)) || (doW && (tb.mws == nil || len(nw) != len(tb.mws))) {
					return // not a meaningful history (hand-made case)
				}
				if !tb.holds(target.Sample) || (kbuf == tb && !tb.holds(k.Sample)) {
					w.Note("resample/skipped:sample-replaced-by-library")
					return
				}
				if doX {
					for i, v := range nx {
						target.Sample.Xs[i] = v
					}
					copy(tb.mxs, nx)
					label += ", Sample.Xs overwritten in place"
				}
				if doW {
					for i, v := range nw {
						target.Sample.Weights[i] = v
					}
					copy(tb.mws, nw)
					label += ", Sample.Weights overwritten in place"
				}
				tb.writer = who
				w.Hit("resample/" + re.Data)
			case "assign":
				if len(nx) == 0 || (re.NWs != nil && len(nw) != len(nx)) {
					return
				}
				if re.NWs == nil {
					nw = nil
				}
				nb := c12NewBuf(nx, nw)
				target.Sample = stats.Sample{Xs: nb.xs, Weights: nb.ws, Sorted: re.NSorted}
				tb = nb
				if !re.Copy {
					kbuf = nb
				}
				label += fmt.Sprintf(", Sample assigned (n=%d -> %d)", oldN, len(nx))
				w.HitIf(len(nx) == oldN, "resample/assign-same-length")
				w.HitIf(len(nx) != oldN, "resample/assign-other-length")
				w.HitIf(oldWeighted != (nw != nil), "resample/weighted<->unweighted")
			default:
				return
			}
			newW := float64(len(tb.mxs))
			if tb.mws != nil {
				newW = c12SumF(tb.mws)
			}
			w.HitIf(math.Abs(newW-oldW) > 0.1*oldW, "resample/total-weight-changed")
			w.HitIf(re.Copy, "resample/on-copy")
			w.HitIf(!re.Copy, "resample/on-same-struct")
		} else if tb.writer != 0 && tb.writer != who {
			// the arrays this struct points at were overwritten through
			// another struct that shares them
			w.Hit("resample/seen-through-shared-arrays")
		}
		label += ", re-parameterised to "

		c2 := c
		c2.Re = nil
		c2.Kernel, c2.H, c2.BMin, c2.BMax = re.Kernel, re.H, re.BMin, re.BMax
		c2.Pts, c2.Ivs, c2.First, c2.FirstX, c2.NoTotal = re.Pts, re.Ivs, re.First, re.FirstX, re.NoTotal
		target.Kernel = stats.KDEKernel(re.Kernel)
		target.Bandwidth = float64(re.H)
		target.BoundaryMin, target.BoundaryMax = float64(re.BMin), float64(re.BMax)
		w.HitIf(target.Kernel != was.Kernel, "reparam/kernel")
		w.HitIf(target.Bandwidth != was.Bandwidth && target.Bandwidth != 0, "reparam/bandwidth")
		w.HitIf(target.Bandwidth == 0, "reparam/zero-bandwidth")
		w.HitIf(target.Bandwidth == 0 && re.Data != "", "reparam/zero-bandwidth-after-resample")
		w.HitIf(target.BoundaryMin != was.BoundaryMin || target.BoundaryMax != was.BoundaryMax, "reparam/boundaries")
		t, _ := c12NewCtx(w, c, tb.mxs, tb.mws)
		t.c, t.k = c2, target
		if !c12JudgePhase(&t, label) {
			return
		}
	}
}

// c12FirstCall makes the first evaluation (op at x, or Bounds) of a KDE whose
// Bandwidth field is zero and judges the value it returns against the model
// at Scott's bandwidth, the documented default: the first call is a call
// like any other. It returns the bandwidth the library stored.
func (t *c12Ctx) firstCall(kk *stats.KDE, mbmin, mbmax float64, op string, x float64, info ref.ScottInfo, what string) (h float64, ok bool) {
	w := t.w
	var v, blo, bhi float64
	var pn bool
	var e any
	if op != "PDF" && op != "Bounds" {
		op = "CDF"
	}
	w.Hit("first-call-value/" + op)
	switch op {
	case "PDF":
		w.Eval("KDE.PDF")
		pn, e = mon.Call(func() { v = kk.PDF(x) })
	case "Bounds":
		// pre-flight on a twin with the bandwidth given explicitly
		twin := *kk
		twin.Bandwidth = info.Scott
		if ok, msg := c12BracketOK(w, &twin, t.xmin, t.xmax); !ok {
			t.bad("cdf-limits", what+"(bandwidth "+fmt.Sprint(info.Scott)+"): "+msg)
			return 0, false
		}
		w.Eval("KDE.Bounds")
		pn, e = mon.Call(func() { blo, bhi = kk.Bounds() })
	default:
		w.Eval("KDE.CDF")
		pn, e = mon.Call(func() { v = kk.CDF(x) })
	}
	if pn {
		t.bad("panic", fmt.Sprintf("%sfirst call %s with zero Bandwidth panicked: %v", what, op, e))
		return 0, false
	}
	// The statement asks that a zero Bandwidth SELECTS Scott's rule, i.e.
	// that the values are those of the model at that bandwidth. Storing the
	// selected bandwidth in the field is permitted (the documented lazy
	// fill), not required: a field left at zero is accepted, a field that was
	// filled must hold Scott's value.
	if kk.Bandwidth == 0 && info.Scott != 0 {
		w.Note("zero-bandwidth-field-left-zero")
		h = info.Scott
	} else {
		if !w.Err("zero-bandwidth=Scott", math.Abs(kk.Bandwidth-info.Scott), c12BWTol(info.Scott, len(t.xs), info.MaxAbs)) {
			t.bad("zero-bandwidth", fmt.Sprintf("%safter the first call (%s) Bandwidth=%.17g, Scott's rule gives %.17g (s=%.17g, IQR=%.17g)", what, op, kk.Bandwidth, info.Scott, info.SD, info.IQR))
			return 0, false
		}
		h = kk.Bandwidth
	}
	m := ref.NewKDEModel(t.xs, t.ws, t.c.Kernel, h, mbmin, mbmax)
	// the context of the value: the boundaries of kk (those of the phase, or
	// none for the unbounded twin)
	tt := *t
	tt.nviol = 0
	tt.bmin, tt.bmax = mbmin, mbmax
	tt.bounded = !math.IsInf(mbmin, -1) || !math.IsInf(mbmax, 1)
	if !tt.bounded {
		tt.conf = "none"
	}
	switch op {
	case "PDF":
		refP := 0.0
		fmax := 0.0
		if t.c.Kernel != ref.KDelta {
			refP = m.PDF(x)
			fmax = math.Max(tt.fmaxData(m), refP)
		}
		tt.judgePDF(m, x, v, refP, fmax, what+"first call with zero Bandwidth (model at Scott's bandwidth "+fmt.Sprint(h)+"): ")
	case "CDF":
		tt.judgeCDF(m, x, v, m.CDF(x), what+"first call with zero Bandwidth (model at Scott's bandwidth "+fmt.Sprint(h)+"): ")
	case "Bounds":
		tt.judgeBounds(m, blo, bhi, what+"first call with zero Bandwidth (model at Scott's bandwidth "+fmt.Sprint(h)+"): ")
	}
	t.nviol += tt.nviol
	return h, tt.nviol == 0
}

// c12JudgePhase evaluates t.k, which is supposed to hold the parameters of
// t.c, at the points and intervals of t.c. It reports whether the phase
// passed.
func c12JudgePhase(t *c12Ctx, label string) bool {
	w, c, k, xs, ws := t.w, t.c, t.k, t.xs, t.ws
	n := len(xs)
	t.bounded, t.bmin, t.bmax, t.conf = c12Config(c)
	bounded, bmin, bmax, conf := t.bounded, t.bmin, t.bmax, t.conf
	xmin, xmax, seen := t.xmin, t.xmax, t.seen
	kname := c12KernelName[c.Kernel]
	t.desc = fmt.Sprintf("%sKDE{n=%d %s h=%g bounds=[%g,%g) weights=%v}", label, n, kname, float64(c.H), bmin, bmax, ws != nil)
	bad := t.bad

	// classes: inputs only
	w.Hit(kname + "/" + conf)
	w.HitIf(bounded && (xmin == bmin || xmax == bmax), "boundary-touching-data")
	w.HitIf(conf == "both" && c.Kernel != ref.KDelta && float64(c.H) > bmax-bmin, "bandwidth>boundary-width")
	w.HitIf(bounded && (bmin == 0 || bmax == 0), "boundary-at-zero")
	explicitInf := math.IsInf(float64(c.BMin), -1) && math.IsInf(float64(c.BMax), 1)
	w.HitIf(explicitInf, "none/explicit-infinities")

	h := float64(c.H)
	var info ref.ScottInfo
	if h == 0 {
		// zero bandwidth: the first use selects Scott's rule (unweighted data)
		if ws != nil || n < 2 {
			return true // not in the domain (replayed or hand-made case)
		}
		info = ref.BandwidthRules(xs)
		if !(info.Scott > 0) || math.IsInf(info.Scott, 0) {
			return true
		}
	}
	if explicitInf && c.Kernel == ref.KGaussian {
		// BoundaryMin = -Inf with BoundaryMax = +Inf makes the library take its
		// boundary-correction path. Should that path treat the pair as two
		// boundaries, its image series for a kernel of unbounded support has
		// no end the harness could enforce. The same KDE with the kernel of
		// bounded support (an in-domain KDE itself, given its bandwidth
		// explicitly) is therefore evaluated first, at a sample value, and
		// judged like any other; if it is refuted the case stops.
		hh := h
		if hh == 0 {
			hh = info.Scott
		}
		if hh > 0 && !math.IsInf(hh, 0) {
			w.Hit("explicit-infinities-bounded-kernel-twin")
			twin := *k
			twin.Kernel, twin.Bandwidth = stats.EpanechnikovKernel, hh
			tt := *t
			tt.nviol = 0
			tt.c.Kernel = ref.KEpanechnikov
			tt.desc = t.desc + " twin with the Epanechnikov kernel, bandwidth " + fmt.Sprint(hh)
			me := ref.NewKDEModel(xs, ws, ref.KEpanechnikov, hh, bmin, bmax)
			x := xs[0]
			var p, f float64
			w.Eval("KDE.PDF")
			if pn, e := mon.Call(func() { p = twin.PDF(x) }); pn {
				tt.bad("panic", fmt.Sprintf("PDF(%.17g) panicked: %v", x, e))
			} else {
				rp := me.PDF(x)
				tt.judgePDF(me, x, p, rp, math.Max(tt.fmaxData(me), rp), "")
			}
			if tt.nviol == 0 {
				w.Eval("KDE.CDF")
				if pn, e := mon.Call(func() { f = twin.CDF(x) }); pn {
					tt.bad("panic", fmt.Sprintf("CDF(%.17g) panicked: %v", x, e))
				} else {
					tt.judgeCDF(me, x, f, me.CDF(x), "")
				}
			}
			if tt.nviol > 0 {
				t.nviol += tt.nviol
				return false
			}
		}
	}
	if h == 0 {
		w.Hit("zero-bandwidth")
		w.HitIf(info.Scott < 1e-6, "zero-bandwidth/scott<1e-6")
		w.HitIf(info.Scott > 1e6, "zero-bandwidth/scott>1e6")
		far := info.MaxAbs >= 1e3*(xmax-xmin)
		w.HitIf(far, "zero-bandwidth/data>=1000-spreads-from-origin")
		w.HitIf(far && info.SD <= info.IQR/1.349, "zero-bandwidth/far-from-origin/stddev-branch")
		if n > 40 {
			w.Hit("large/zero-bandwidth")
			w.HitIf(info.IQR/1.349 < info.SD, "large/zero-bandwidth/robust-branch")
			w.HitIf(info.Scott < 0.02*(xmax-xmin), "large/zero-bandwidth/scott<0.02-spreads")
		}
		fx := xs[0]
		if c.FirstX != nil {
			fx = float64(*c.FirstX)
		}
		fresh := func(bmn, bmx float64) *stats.KDE {
			kk := *k
			kk.Bandwidth = 0
			kk.BoundaryMin, kk.BoundaryMax = bmn, bmx
			return &kk
		}
		// With two boundaries the library sums image series of unbounded
		// length, and a loop inside the library cannot be bounded from here.
		// Every first PDF/CDF call on a doubly-bounded KDE is therefore
		// preceded by the same first call on a twin without boundaries
		// (itself a KDE with zero Bandwidth on first use), judged like any
		// other. A kernel that is wrong (e.g. not a number) on first use shows
		// there, in a call that ends, and the case stops.
		preflight := func(op string, x float64) bool {
			if conf != "both" {
				return true
			}
			w.Hit("first-call-unbounded-twin")
			for _, o := range []string{"PDF", "CDF"} {
				if op != "Bounds" && op != o {
					continue
				}
				if _, ok := t.firstCall(fresh(0, 0), math.Inf(-1), math.Inf(1), o, x, info, "unbounded twin, "); !ok {
					return false
				}
			}
			return true
		}
		var ok bool
		first := c.First
		if first != "PDF" && first != "Bounds" {
			first = "CDF"
		}
		if !preflight(first, fx) {
			return false
		}
		if h, ok = t.firstCall(k, bmin, bmax, first, fx, info, ""); !ok {
			return false
		}
		// further fresh zero-Bandwidth twins (k's fields by value before any
		// use cannot be had any more; same sample, kernel, boundaries), each
		// evaluated for the first time at another point
		pp := mon.Un(c.Pts)
		for j := 1; j <= 3 && len(pp) >= 4; j++ {
			op := []string{"CDF", "PDF"}[j%2]
			if !preflight(op, pp[j*len(pp)/4]) {
				return false
			}
			if _, ok := t.firstCall(fresh(float64(c.BMin), float64(c.BMax)), bmin, bmax, op, pp[j*len(pp)/4], info, "fresh twin, "); !ok {
				return false
			}
		}
	}
	if !(h > 0) || math.IsInf(h, 0) {
		return true
	}
	m := ref.NewKDEModel(xs, ws, c.Kernel, h, bmin, bmax)
	pts := mon.Un(c.Pts)
	sort.Float64s(pts)

	// largest density of the estimate (reference side): over the data points
	// and the evaluation points
	fmax := t.fmaxData(m)
	refP := make([]float64, len(pts))
	refC := make([]float64, len(pts))
	if c.Kernel != ref.KDelta {
		for i, x := range pts {
			refP[i] = m.PDF(x)
			fmax = math.Max(fmax, refP[i])
		}
	}
	for i, x := range pts {
		refC[i] = m.CDF(x)
	}

	prevX, prevC, prevAmb := math.Inf(-1), 0.0, false
	for i, x := range pts {
		var p, f float64
		w.Eval("KDE.PDF")
		if pn, e := mon.Call(func() { p = k.PDF(x) }); pn {
			bad("panic", fmt.Sprintf("PDF(%.17g) panicked: %v", x, e))
			return false
		}
		w.Eval("KDE.CDF")
		if pn, e := mon.Call(func() { f = k.CDF(x) }); pn {
			bad("panic", fmt.Sprintf("CDF(%.17g) panicked: %v", x, e))
			return false
		}
		// classes of the point
		w.HitIf(seen[x], "x-at-sample")
		w.HitIf(bounded && (x == bmin || x == bmax), "x-at-boundary")
		w.HitIf(bounded && (x < bmin || x > bmax), "x-outside-boundaries")
		if c.Kernel == ref.KEpanechnikov {
			for _, xi := range xs {
				if x == xi-h || x == xi+h {
					w.Hit("x-at-kernel-edge")
					break
				}
			}
		}

		// laws and reference
		t.judgePDF(m, x, p, refP[i], fmax, "")
		amb := t.judgeCDF(m, x, f, refC[i], "")
		// monotone (a value taken inside an ambiguity window is not compared)
		if !amb && !prevAmb && f < prevC-t.slk-c12CondSlack*t.cond(m, x) {
			bad("cdf-monotone", fmt.Sprintf("CDF(%.17g)=%.17g < CDF(%.17g)=%.17g", x, f, prevX, prevC))
		}
		prevX, prevC, prevAmb = x, f, amb
		if t.nviol > 0 {
			// the case is refuted; the remaining calls (integrals over a
			// density already known to be wrong, Bounds' bracket expansion on
			// a CDF already known to be wrong) are not made: they could only
			// repeat the finding, or not terminate
			return false
		}
		if w.WantSample() && i == len(pts)/2 {
			w.Sample(map[string]any{"op": "KDE.PDF/CDF", "kde": t.desc, "x": mon.F(x), "pdf": mon.F(p), "cdf": mon.F(f), "ref_pdf": mon.F(refP[i]), "ref_cdf": mon.F(refC[i])})
		}
	}

	// integrals of the library's density against its own CDF, total mass
	if c.Kernel != ref.KDelta {
		kinks := m.Kinks()
		lo, hi := m.Support()
		integ := func(a, b float64) (v float64, ok bool) {
			w.Eval("integral(PDF)")
			if pn, e := mon.Call(func() { v = m.Integrate(k.PDF, a, b, kinks) }); pn {
				bad("panic", fmt.Sprintf("PDF panicked while integrating over [%g,%g]: %v", a, b, e))
				return 0, false
			}
			return v, true
		}
		if hi > lo && !c.NoTotal {
			if tot, ok := integ(lo, hi); ok {
				if !w.Err("total-mass", math.Abs(tot-1), c12TolInt+c12CondFactor*math.Max(t.cond(m, lo), t.cond(m, hi))) {
					bad("total-mass-"+conf, fmt.Sprintf("integral of PDF over the support [%g,%g] = %.12g, want 1", lo, hi, tot))
				}
			} else {
				return false
			}
		}
		for j := 0; j+1 < len(c.Ivs); j += 2 {
			a, b := float64(c.Ivs[j]), float64(c.Ivs[j+1])
			if !(b > a) || a < lo || b > hi {
				continue
			}
			in, ok := integ(a, b)
			if !ok {
				return false
			}
			var fa, fb float64
			w.EvalN("KDE.CDF", 2)
			if pn, e := mon.Call(func() { fa, fb = k.CDF(a), k.CDF(b) }); pn {
				bad("panic", fmt.Sprintf("CDF(%g or %g) panicked: %v", a, b, e))
				return false
			}
			if !w.Err("integral-PDF-vs-CDF", math.Abs(in-(fb-fa)), c12TolInt+c12CondFactor*math.Max(t.cond(m, a), t.cond(m, b))) {
				bad("pdf-integral-"+conf, fmt.Sprintf("integral of PDF over [%.17g,%.17g] = %.12g but CDF difference = %.12g", a, b, in, fb-fa))
			}
		}
	}

	if t.nviol > 0 {
		return false
	}

	// Bounds
	if ok, msg := c12BracketOK(w, k, xmin, xmax); !ok {
		bad("cdf-limits", msg)
		return false
	}
	var blo, bhi float64
	w.Eval("KDE.Bounds")
	if pn, e := mon.Call(func() { blo, bhi = k.Bounds() }); pn {
		bad("panic", fmt.Sprintf("Bounds panicked: %v", e))
		return false
	}
	t.judgeBounds(m, blo, bhi, "")
	return t.nviol == 0
}

// c12BracketOK is the M-step stand-in for KDE.Bounds, which calls KDE.CDF
// directly and so cannot be handed a counting callback: before Bounds is
// called, the harness walks away from the data in doubling steps itself and
// asks the library's CDF whether it falls to 0.005 below and rises to 0.995
// above the data within a budget of 2200 evaluations per side (doubling
// overflows to infinity after fewer than 2100 steps from any float64 start).
// A CDF that does not is not "non-decreasing from 0 to 1", and any search
// for the 0.5% / 99.5% points on it cannot terminate.
func c12BracketOK(w *mon.W, k *stats.KDE, xmin, xmax float64) (ok bool, msg string) {
	lo, hi := xmin, xmax
	if lo == hi {
		// a step that is a step at this magnitude (an absolute +-1 is lost
		// in rounding beyond 2^53)
		d := math.Max(1, math.Abs(lo)*0x1p-40)
		lo, hi = lo-d, hi+d
	}
	const budget = 2200
	var f float64
	for step := 0; ; step++ {
		w.Eval("KDE.CDF")
		if pn, e := mon.Call(func() { f = k.CDF(lo) }); pn {
			return false, fmt.Sprintf("CDF(%g) panicked: %v", lo, e)
		}
		if f <= 0.005 {
			break
		}
		if step >= budget || math.IsInf(lo, -1) {
			return false, fmt.Sprintf("CDF stays above 0.005 (CDF(%g)=%g) however far below the data it is evaluated: no search for the 0.5%% point can terminate", lo, f)
		}
		lo -= hi - lo
	}
	for step := 0; ; step++ {
		w.Eval("KDE.CDF")
		if pn, e := mon.Call(func() { f = k.CDF(hi) }); pn {
			return false, fmt.Sprintf("CDF(%g) panicked: %v", hi, e)
		}
		if f >= 0.995 {
			break
		}
		if step >= budget || math.IsInf(hi, 1) {
			return false, fmt.Sprintf("CDF stays below 0.995 (CDF(%g)=%g) however far above the data it is evaluated: no search for the 99.5%% point can terminate", hi, f)
		}
		hi += hi - lo
	}
	return true, ""
}

func c12RefName(conf string) string {
	if conf == "none" {
		return "kernel-average"
	}
	return "folded kernel-average"
}

// ---------------------------------------------------------------------------
// generators

// c12Unit returns n values in [0,1]; for n >= 2 (unless constant) the
// smallest is 0 and the largest 1.
func c12Unit(rng *mon.Rand, n int, shape int) []float64 {
	u := make([]float64, n)
	switch shape {
	case 0: // uniform
		for i := range u {
			u[i] = rng.Float64()
		}
	case 1: // two clusters
		c1, c2 := rng.Float64(), rng.Float64()
		for i := range u {
			cc := c1
			if rng.Bool() {
				cc = c2
			}
			u[i] = cc + 0.03*rng.Norm()
		}
	case 2: // lattice with ties
		q := float64(rng.PickI(2, 4, 8))
		for i := range u {
			u[i] = float64(rng.Intn(int(q)+1)) / q
		}
	case 3: // normal
		for i := range u {
			u[i] = rng.Norm()
		}
	case 4: // one outlier
		for i := range u {
			u[i] = 0.05 * rng.Float64()
		}
		u[rng.Intn(n)] = 1
	case 6: // log-normal: skewed, IQR/1.349 well below the standard deviation
		sg := rng.Uniform(0.5, 1.2)
		for i := range u {
			u[i] = math.Exp(sg * rng.Norm())
		}
	case 7: // exponential
		for i := range u {
			u[i] = -math.Log(1 - rng.Float64())
		}
	default: // constant
		for i := range u {
			u[i] = 0.5
		}
	}
	lo, hi := u[0], u[0]
	for _, x := range u {
		lo, hi = math.Min(lo, x), math.Max(hi, x)
	}
	if hi > lo {
		for i := range u {
			u[i] = (u[i] - lo) / (hi - lo)
		}
	} else {
		for i := range u {
			u[i] = 0
		}
	}
	return u
}

func c12Weights(rng *mon.Rand, n int) []float64 {
	ws := make([]float64, n)
	switch rng.Intn(3) {
	case 0:
		for i := range ws {
			ws[i] = rng.LogUniform(1e-3, 1e3)
		}
	case 1:
		for i := range ws {
			ws[i] = float64(rng.Range(1, 5))
		}
	default:
		for i := range ws {
			ws[i] = rng.Uniform(0.5, 1.5)
		}
		ws[rng.Intn(n)] = 200
	}
	return ws
}

func c12MinMax(xs []float64) (lo, hi float64) {
	lo, hi = xs[0], xs[0]
	for _, x := range xs {
		lo, hi = math.Min(lo, x), math.Max(hi, x)
	}
	return
}

// c12Boundaries chooses the two library fields for configuration conf
// (0 none, 1 lower, 2 upper, 3 both) at distances 0 .. 100 spreads.
func c12Boundaries(rng *mon.Rand, conf int, xmin, xmax, spread float64) (bmin, bmax float64) {
	dist := func() float64 {
		switch rng.Intn(4) {
		case 0:
			return 0
		case 1:
			return rng.LogUniform(1e-3, 0.3) * spread
		default:
			return rng.LogUniform(1e-3, 100) * spread
		}
	}
	bmin, bmax = math.Inf(-1), math.Inf(1)
	if conf == 1 || conf == 3 {
		bmin = xmin - dist()
		if bmin > xmin {
			bmin = xmin
		}
	}
	if conf == 2 || conf == 3 {
		bmax = xmax + dist()
		if bmax < xmax {
			bmax = xmax
		}
	}
	if conf == 3 && !(bmax > bmin) {
		bmax = xmax + rng.LogUniform(1e-3, 100)*spread
	}
	if conf == 0 {
		// "none" is written (0,0), the default, or (-Inf,+Inf)
		if rng.Intn(3) == 0 {
			return math.Inf(-1), math.Inf(1)
		}
		return 0, 0
	}
	if bmin == 0 && bmax == 0 {
		return 0, 0
	}
	return
}

// c12Points builds the evaluation points and the integration intervals of a
// case whose data, bandwidth and boundaries are set (h > 0 known).
func c12Points(rng *mon.Rand, c *c12Case, h float64, npts, nivs int) {
	xs := mon.Un(c.Xs)
	_, bmin, bmax, _ := c12Config(*c)
	m := ref.NewKDEModel(xs, nil, c.Kernel, h, bmin, bmax)
	xmin, xmax := c12MinMax(xs)
	spread := xmax - xmin
	lo, hi := m.Support()
	if c.Kernel == ref.KDelta {
		lo, hi = math.Max(bmin, xmin-h), math.Min(bmax, xmax+h)
	}
	width := hi - lo
	if !(width > 0) {
		width = h
	}
	var pts []float64
	add := func(x float64) {
		if !math.IsNaN(x) && !math.IsInf(x, 0) {
			pts = append(pts, x)
		}
	}
	// the data points and the ends of their kernels
	for j := 0; j < 6; j++ {
		xi := xs[rng.Intn(len(xs))]
		switch j % 3 {
		case 0:
			add(xi)
			add(math.Nextafter(xi, math.Inf(1-2*(j&2))))
		case 1:
			e := xi + rng.Sign()*h
			add(e)
			add(math.Nextafter(e, math.Inf(1)))
			add(math.Nextafter(e, math.Inf(-1)))
		default:
			add(xi + h*rng.Norm())
		}
	}
	add(xmin)
	add(xmax)
	// the boundaries
	for _, b := range []float64{bmin, bmax} {
		if math.IsInf(b, 0) {
			continue
		}
		add(b)
		add(math.Nextafter(b, math.Inf(1)))
		add(math.Nextafter(b, math.Inf(-1)))
		add(b + rng.Sign()*rng.LogUniform(1e-6, 1)*h)
		add(b + rng.Sign()*rng.LogUniform(1e-3, 10)*(spread+h))
	}
	// far away
	far := 1e3 * (spread + h)
	add(xmin - far*rng.Uniform(0.5, 2))
	add(xmax + far*rng.Uniform(0.5, 2))
	add(lo - 0.05*width*rng.Float64())
	add(hi + 0.05*width*rng.Float64())
	if c.Kernel == ref.KGaussian {
		// the tails: 5 to 37 bandwidths beyond the data (exp underflows at 38.6)
		add(xmin - rng.Uniform(5, 37)*h)
		add(xmax + rng.Uniform(5, 37)*h)
		xi := xs[rng.Intn(len(xs))]
		add(xi + rng.Sign()*rng.Uniform(6.5, 12)*h)
	}
	for len(pts) < npts {
		add(rng.Uniform(lo-0.02*width, hi+0.02*width))
	}
	sort.Float64s(pts)
	c.Pts = mon.Fs(pts)

	if c.Kernel == ref.KDelta || !(hi > lo) {
		return
	}
	var ivs []float64
	for j := 0; j < nivs; j++ {
		a, b := rng.Uniform(lo, hi), rng.Uniform(lo, hi)
		if a > b {
			a, b = b, a
		}
		switch j {
		case 0:
			a = lo
		case 1:
			b = hi
		case 2: // a short interval around a data point
			xi := xs[rng.Intn(len(xs))]
			a, b = math.Max(lo, xi-h*rng.Float64()), math.Min(hi, xi+h*rng.Float64())
		}
		if b > a {
			ivs = append(ivs, a, b)
		}
	}
	c.Ivs = mon.Fs(ivs)
}

func c12Hash(c c12Case) uint64 {
	hs := mon.NewHasher().S(c.Op).Fs(mon.Un(c.Xs)).Fs(mon.Un(c.Ws)).I(c.Kernel).F(float64(c.H)).F(float64(c.BMin)).F(float64(c.BMax)).
		F(float64(c.SD)).F(float64(c.W)).F(float64(c.Q25)).F(float64(c.Q75))
	for _, re := range c.Re {
		cp := 0
		if re.Copy {
			cp = 1
		}
		hs = hs.I(cp).I(re.Kernel).F(float64(re.H)).F(float64(re.BMin)).F(float64(re.BMax)).
			S(re.Data).Fs(mon.Un(re.NXs)).Fs(mon.Un(re.NWs))
	}
	return hs.Sum()
}

// c12Gen is the generator's view of one KDE struct before a step: the data
// in force for the step (after any change of the sample), the range [lo,hi]
// in which all data of the case lie (boundaries are drawn outside it), and
// the parameters the struct holds (h: the effective bandwidth, > 0).
type c12Gen struct {
	xs, ws       []float64
	lo, hi       float64
	kernel       int
	h            float64
	bminF, bmaxF float64
}

// c12ReGen draws one re-parameterisation of a KDE: what = 0 bandwidth, 1
// kernel, 2 boundaries, 3 all of them, 4 none. sp stands in for the spread
// of a constant case. zeroOK allows the new Bandwidth 0 (Scott's rule
// selected again) when the data in force qualify. It returns the step and
// the effective bandwidth after it.
func c12ReGen(rng *mon.Rand, g c12Gen, sp float64, cp bool, what int, zeroOK bool) (c12Re, float64) {
	xs, h := g.xs, g.h
	spread := g.hi - g.lo
	if !(spread > 0) {
		spread = sp
	}
	scott := 0.0
	if zeroOK && g.ws == nil && len(xs) >= 2 {
		dlo, dhi := c12MinMax(xs)
		if info := ref.BandwidthRules(xs); dhi > dlo && info.IQR > 0 && info.Scott >= 0.02*(dhi-dlo) && info.Scott <= 50*(dhi-dlo) {
			scott = info.Scott
		}
	}
	re := c12Re{Copy: cp, Kernel: g.kernel, H: mon.F(h), BMin: mon.F(g.bminF), BMax: mon.F(g.bmaxF), NoTotal: true}
	h2 := h
	if what == 0 || what == 3 {
		h2 = h * rng.Pick(0.1, 0.25, 0.5, 2, 4, 10)
		h2 = math.Min(math.Max(h2, 0.02*spread), 50*spread)
		if h2 == h {
			h2 = h * rng.Pick(0.5, 2)
		}
		if scott > 0 && rng.Intn(3) == 0 {
			h2 = 0
		}
	}
	if what == 1 || what == 3 {
		re.Kernel = (g.kernel + 1 + rng.Intn(2)) % 3
	}
	if what == 2 || what == 3 {
		conf2 := rng.Intn(4)
		b0, b1 := c12Boundaries(rng, conf2, g.lo, g.hi, spread)
		if b0 == g.bminF && b1 == g.bmaxF {
			b0, b1 = c12Boundaries(rng, (conf2+1)%4, g.lo, g.hi, spread)
		}
		re.BMin, re.BMax = mon.F(b0), mon.F(b1)
	}
	tmp := c12Case{Xs: mon.Fs(xs), Kernel: re.Kernel, BMin: re.BMin, BMax: re.BMax}
	_, m0, m1, cf := c12Config(tmp)
	heff := h2
	if h2 == 0 {
		heff = scott
	} else if cf == "both" && h2 > 50*(m1-m0) {
		h2 = 50 * (m1 - m0) * rng.Uniform(0.5, 1)
		heff = h2
	}
	re.H = mon.F(h2)
	c12Points(rng, &tmp, heff, 18, 2)
	re.Pts, re.Ivs = tmp.Pts, tmp.Ivs
	if h2 == 0 {
		re.First = []string{"CDF", "PDF", "Bounds"}[rng.Intn(3)]
		fx := mon.F(float64(tmp.Pts[rng.Intn(len(tmp.Pts))]))
		if rng.Bool() {
			fx = mon.F(xs[rng.Intn(len(xs))])
		}
		re.FirstX = &fx
	}
	return re, heff
}

// c12NewData draws n values in [lo,hi]; for n >= 2 and hi > lo both ends
// are attained (so that every bandwidth and boundary of the case stays in
// range for the new data).
func c12NewData(rng *mon.Rand, lo, hi float64, n int, sorted bool) []float64 {
	xs := make([]float64, n)
	switch {
	case !(hi > lo):
		for i := range xs {
			xs[i] = lo
		}
	case n == 1:
		xs[0] = rng.Pick(lo, hi)
	default:
		u := c12Unit(rng, n, rng.Intn(5))
		for i := range xs {
			xs[i] = math.Min(hi, math.Max(lo, lo+(hi-lo)*u[i]))
			if u[i] == 1 {
				xs[i] = hi
			}
		}
		if a, b := c12MinMax(xs); a != lo || b != hi { // degenerate draw
			xs[0], xs[n-1] = lo, hi
		}
	}
	if sorted {
		sort.Float64s(xs)
	}
	return xs
}

// c12DataSteps draws a history of steps that change the sample of the KDE of
// case c (evaluated once already; h0: its effective bandwidth): values and/or
// weights overwritten in place, another Sample assigned (same or other
// length, with or without weights), on the struct itself and on by-value
// copies, which share the backing arrays of the first sample.
func c12DataSteps(rng *mon.Rand, c *c12Case, h0, sp float64, zeroOK bool) []c12Re {
	type buf struct {
		xs, ws []float64
		sorted bool // a struct pointing here says Sorted
	}
	type par struct {
		kernel       int
		h            float64
		bminF, bmaxF float64
	}
	b0 := &buf{xs: mon.Un(c.Xs), sorted: c.Sorted}
	if c.Ws != nil {
		b0.ws = mon.Un(c.Ws)
	}
	lo, hi := c12MinMax(b0.xs)
	kb := b0
	par0 := par{c.Kernel, h0, float64(c.BMin), float64(c.BMax)}
	kpar := par0
	type step struct {
		copy bool
		mode string // "", "inplace", "assign-same", "assign-other"
	}
	var plan []step
	asg := []string{"assign-same", "assign-other"}
	a := rng.Intn(2)
	if rng.Bool() {
		plan = []step{{false, "inplace"}, {true, asg[a]}, {false, asg[1-a]}, {false, "inplace"}}
	} else {
		plan = []step{{true, "inplace"}, {false, ""}, {false, asg[a]}, {true, asg[1-a]}}
	}
	var out []c12Re
	for _, st := range plan {
		tb, pr := kb, kpar
		if st.copy {
			tb, pr = b0, par0
		}
		nxs, nws := tb.xs, tb.ws
		var re c12Re
		data := ""
		var nb *buf
		switch st.mode {
		case "inplace":
			data = "xs-inplace"
			if tb.ws != nil {
				data = []string{"xs-inplace", "ws-inplace", "ws-inplace", "both-inplace"}[rng.Intn(4)]
			}
			if data != "ws-inplace" {
				nxs = c12NewData(rng, lo, hi, len(tb.xs), tb.sorted)
			}
			if data != "xs-inplace" {
				nws = c12Weights(rng, len(tb.xs))
			}
		case "assign-same", "assign-other":
			data = "assign"
			n := len(tb.xs)
			// single-valued samples of any magnitude (Bounds used to loop for
			// ever beyond 2^53: defect D22, repaired)
			nmin := 1
			for st.mode == "assign-other" && n == len(tb.xs) {
				n = rng.Range(nmin, 40)
				if rng.Intn(4) == 0 {
					n = rng.Range(nmin, 3)
				}
			}
			srt := rng.Intn(3) == 0
			nxs = c12NewData(rng, lo, hi, n, srt)
			nws = nil
			if (zeroOK && rng.Intn(3) == 0) || (!zeroOK && rng.Intn(3) != 0) {
				nws = c12Weights(rng, n)
			}
			nb = &buf{xs: nxs, ws: nws, sorted: srt}
		}
		what := rng.Intn(4)
		if data != "" && rng.Bool() {
			what = 4
		}
		if zeroOK && data != "" && rng.Bool() {
			what = 0
		}
		re, heff := c12ReGen(rng, c12Gen{xs: nxs, ws: nws, lo: lo, hi: hi, kernel: pr.kernel, h: pr.h, bminF: pr.bminF, bmaxF: pr.bmaxF}, sp, st.copy, what, zeroOK)
		re.Data = data
		switch data {
		case "xs-inplace":
			re.NXs = mon.Fs(nxs)
			tb.xs = nxs
		case "ws-inplace":
			re.NWs = mon.Fs(nws)
			tb.ws = nws
		case "both-inplace":
			re.NXs, re.NWs = mon.Fs(nxs), mon.Fs(nws)
			tb.xs, tb.ws = nxs, nws
		case "assign":
			re.NXs, re.NSorted = mon.Fs(nxs), nb.sorted
			if nws != nil {
				re.NWs = mon.Fs(nws)
			}
			if !st.copy {
				kb = nb
			}
		}
		if !st.copy {
			kpar = par{re.Kernel, heff, float64(re.BMin), float64(re.BMax)}
		}
		out = append(out, re)
	}
	return out
}

// c12Data draws a sample: n values, location and scale.
//
// The scale is log-uniform over 24 decades (every oracle is relative to the
// scale of the data); minCentre > 0 puts the data at least that many spreads
// from the origin.
func c12Data(rng *mon.Rand, n int, minCentre, maxCentre float64) (xs []float64, scale float64) {
	shape := rng.Intn(5)
	if n >= 2 && rng.Intn(25) == 0 {
		shape = 5
	}
	return c12DataShape(rng, n, shape, minCentre, maxCentre)
}

// c12DataShape is c12Data with the shape (see c12Unit) given.
func c12DataShape(rng *mon.Rand, n, shape int, minCentre, maxCentre float64) (xs []float64, scale float64) {
	u := c12Unit(rng, n, shape)
	scale = rng.LogUniform(1e-12, 1e12)
	if rng.Intn(3) == 0 {
		scale = rng.Pick(0.25, 1, 2, 10)
	}
	centre := 0.0
	switch k := rng.Intn(4); {
	case minCentre > 0:
		centre = rng.Sign() * rng.LogUniform(minCentre, maxCentre) * scale
	case k == 0:
	case k == 1:
		centre = -scale * rng.Uniform(0, 1) // data straddle the origin
	default:
		centre = rng.Sign() * rng.LogUniform(0.01, maxCentre) * scale
	}
	xs = make([]float64, n)
	for i := range xs {
		xs[i] = centre + scale*u[i]
	}
	return
}

func c12Run(r *mon.Run) {
	r.Rule("KDEs over samples of 1..40 values (uniform, clustered, tied lattice, normal, outlier, constant; data scale log-uniform over 1e-12..1e12 in every class, all oracles being relative to the data scale; location up to 1000 spreads from the origin, in a quarter of the zero-bandwidth class 1e3..1e7 spreads, in the far class 1e8..1e12 spreads), optional positive weights, 3 kernels, bandwidth 0.02..50 spreads (or 0 = Scott's rule, unweighted data with positive IQR), 4 boundary configurations at distance 0..100 spreads, no boundaries written (0,0) or (-Inf,+Inf); per KDE: 60 points (data points and their neighbours, kernel ends, boundaries and their neighbours, outside the boundaries, far away, uniform over the support), 6 sub-interval integrals plus the total mass, Bounds; Gaussian kernel: also points 5..37 bandwidths beyond the data (tails). Call histories: a zero-Bandwidth KDE's first call (PDF, CDF or Bounds, at a sample value or any point) is judged by value, as are first calls of three more fresh zero-Bandwidth twins at other points; every fourth random KDE (and half of the zero-bandwidth ones) is, after its evaluation, re-parameterised (Bandwidth and/or Kernel and/or boundaries assigned; in the zero-bandwidth class also Bandwidth set back to 0) on the same struct and on a by-value copy of the struct as first used, and each is evaluated again (about 30 points, 2 integrals, Bounds) against the model of the new parameters; three in eight random KDEs (a quarter of the zero-bandwidth ones) instead go through four steps that change the sample after use (all of Sample.Xs and/or Sample.Weights overwritten in place; another Sample of the same or of another length assigned, with or without weights; on the struct and on by-value copies, which share the backing arrays of the first sample, so that a write through one is seen by the other), each step followed by an evaluation against the model of the data and parameters the struct holds at the time of the call. Plus Bounds under stress (three clusters of values, each outer cluster carrying 0.3%..1.2% of the weight beyond a gap much wider than the bandwidth, so that the distribution function has a plateau near the levels an end-point search aims at; the oracle is the statement's 98%), non-constant samples 1e8..1e12 spreads from the origin (bandwidth at least 1024 ulps of the data; weights, boundaries also touching the data; Bounds' end points are held to 64 ulps), an enumerated family of small integer samples, and the bandwidth rules on Samples and on a harness type. Large samples (the statement holds for samples of any size; an implementation may work in blocks, change algorithm above a size or count in a narrow integer): 41..20000 (quick) / 200000 (thorough) values, log-uniform, plus every round size 64, 100, 128, 256, 500, 512, 1000, 1024, 2000, 2048, 4096, 5000, 8192, 10000, 16384, 20000, 32768, 65536 (thorough: also 50000, 100000, 131072, 200000) as it stands and plus one, in three classes through the same judges: KDEs with an explicit bandwidth 0.02..50 spreads (3 kernels, weights in a third, 4 boundary configurations, values in random order or flagged sorted; shapes as above plus log-normal and exponential), KDEs with zero Bandwidth (Scott's rule from the exact standard deviation and the exact R8 quartiles of the values sorted by the harness, accepted down to 0.001 spreads since it shrinks like n^(-1/5); half of the shapes skewed so that the quartile difference decides), and the bandwidth rules on Samples. Above 300 values a KDE is evaluated at 24 points and Bounds without the integrals (one quadrature panel per kernel end, each an O(n) call), the largest density that scales the density tolerances is taken over 32 of the data points (a smaller scale only tightens), with two boundaries the bandwidth is limited to max(0.25, min(50, 2000/n)) boundary widths, and the range/monotonicity slack of a distribution function value is max(1e-12, 2n x 2^-52), the bound of a plain sum of n terms. Non-trivial = hits a class; distinct by hash of (data, weights, kernel, bandwidth, boundaries).")
	r.Assume("reference: weighted kernel average written from the definition (Neumaier sums), explicit mirror-image sums for the folded estimate (Gaussian images beyond 12 bandwidths dropped: < 5e-32 of the peak), window masses evaluated in the well-conditioned tail; self-tested at start-up against hand-computed values, the 384-bit normal CDF and its own integrals; Go's math.Exp/Erf/Erfc are trusted",
		"in-domain: data inside [BoundaryMin,BoundaryMax]; single-valued samples (n = 1 or constant) of any magnitude up to 1e19 (beyond 2^53 KDE.Bounds used to loop for ever: defect D22, repaired); positive weights; zero Bandwidth only with unweighted data, n >= 2 and positive IQR (weighted standard deviation is not implemented by the library and panics by design); finite evaluation points",
		"no step budget inside Bounds itself: KDE.Bounds calls KDE.CDF directly, there is no harness callback to count. Stand-in: before every Bounds call the harness walks away from the data in doubling steps and requires the library's CDF to reach 0.005 / 0.995 within 2200 evaluations per side (else violation, Bounds not called); a case already refuted at its evaluation points is not continued. Any other non-termination can only trip the watchdog (inconclusive)",
		"ambiguity window: delta kernel with boundaries, evaluation point within 16 ulps of a sample value (the images of the point are formed in rounded arithmetic): the values of the empirical CDF on both sides of the jump are accepted",
		"delta kernel density: only what the statement and the kernel's documentation determine is asserted: PDF = 0 outside [BoundaryMin,BoundaryMax) (also at BoundaryMax when a sample sits there) and PDF = 0 at a point where no sample value sits (with boundaries: no sample value within 64 ulps, images are formed in rounded arithmetic); at a sample value only PDF >= 0",
		"Gaussian kernel: besides the absolute tolerance 1e-9 x largest density, wherever the reference density exceeds 1e-280 the library's density must be positive and agree to 1e-6 relative (+ 312 eps x magnitude/bandwidth for the rounding of image points): every term of the plain and of the folded average is positive, so no cancellation can occur; the reference extends its image sums to 39 bandwidths there. Not asserted for the CDF (differences of kernel CDFs cancel) nor for Epanechnikov (1-u^2 cancels at the kernel edge)",
		"first call of a doubly-bounded zero-Bandwidth KDE: preceded by the same first call on a twin without boundaries (an in-domain KDE itself), judged by value; if that is refuted the doubly-bounded call, whose image series inside the library has no bound the harness could enforce, is not made",
		"a non-finite library value where the reference is finite is a violation (NaN fails every comparison); the reference returns NaN instead of looping for non-finite parameters")
	if err := ref.KDESelfTest(); err != nil {
		r.Inconclusive("reference self-test failed: " + err.Error())
		return
	}
	var gates []string
	for _, kn := range c12KernelName {
		for _, cf := range []string{"none", "lower", "upper", "both"} {
			gates = append(gates, kn+"/"+cf)
		}
	}
	gates = append(gates, "weights", "boundary-touching-data", "bandwidth>boundary-width", "zero-bandwidth",
		"x-at-sample", "x-at-boundary", "x-outside-boundaries", "x-at-kernel-edge", "n=1", "ties",
		"bw-harness-type", "bw-robust-branch", "bw-stddev-branch",
		"first-call-value/PDF", "first-call-value/CDF", "first-call-value/Bounds", "first-call-unbounded-twin",
		"reparam/same-struct", "reparam/copy", "reparam/bandwidth", "reparam/kernel", "reparam/boundaries", "reparam/zero-bandwidth",
		"delta-pdf-outside-boundaries", "delta-pdf-at-BoundaryMax-sample", "delta-pdf-off-sample", "gaussian-tail",
		"none/explicit-infinities", "explicit-infinities-bounded-kernel-twin",
		"data-scale<=1e-6", "data-scale>=1e6", "zero-bandwidth/scott<1e-6", "zero-bandwidth/scott>1e6",
		"zero-bandwidth/data>=1000-spreads-from-origin", "zero-bandwidth/far-from-origin/stddev-branch",
		"resample/xs-inplace", "resample/ws-inplace", "resample/both-inplace", "resample/assign-same-length", "resample/assign-other-length",
		"resample/on-copy", "resample/on-same-struct", "resample/seen-through-shared-arrays", "resample/total-weight-changed",
		"resample/weighted<->unweighted", "reparam/zero-bandwidth-after-resample")
	gates = append(gates, "bounds-plateau", "bounds-plateau/both-tails-0.4%..0.6%", "bounds-plateau/both-tails-0.9%..1.1%",
		"data>=1e8-spreads-from-origin", "data>=1e10-spreads-from-origin", "far-data/weights", "far-data/boundaries", "far-data/boundary-touching-data")
	gates = append(gates, "large/n=41..256", "large/n=257..999", "large/n=1000..9999", "large/n>=10000", "large/n>=2^16",
		"large/n-at-round-size", "large/n-just-beyond-round-size", "large/unsorted-unweighted-n>=1000", "large/weights", "large/sorted-flag",
		"large/epanechnikov", "large/gaussian", "large/delta", "large/bounded-kernel-narrower-than-data",
		"large/zero-bandwidth", "large/zero-bandwidth/robust-branch", "large/bw-sample", "large/bw-robust-branch")
	r.Gate(append(gates, "single-valued-sample-beyond-2^53")...)

	const npts, nivs = 60, 6

	// 1. random KDEs; kernel and boundary configuration cycle with the index
	r.Parallel("kde", r.Pick(6000, 48000), func(w *mon.W, i int) {
		rng := w.Rng
		kernel := i % 3
		conf := (i / 3) % 4
		n := rng.Range(1, 40)
		switch rng.Intn(6) {
		case 0:
			n = rng.Range(1, 3)
		case 1:
			n = rng.Range(30, 40)
		}
		xs, scale := c12Data(rng, n, 0, 1000)
		c := c12Case{Op: "kde", Xs: mon.Fs(xs), Kernel: kernel}
		if (i/12)%2 == 1 {
			c.Ws = mon.Fs(c12Weights(rng, n))
		}
		if rng.Intn(4) == 0 && sort.Float64sAreSorted(xs) {
			c.Sorted = true
		} else if rng.Intn(6) == 0 {
			// sort values (weights are independent of the values, so they can stay)
			sort.Float64s(xs)
			c.Xs = mon.Fs(xs)
			c.Sorted = true
		}
		xmin, xmax := c12MinMax(xs)
		spread := xmax - xmin
		if !(spread > 0) {
			spread = scale
		}
		h := rng.LogUniform(0.02, 50) * spread
		switch rng.Intn(5) {
		case 0:
			h = rng.LogUniform(0.02, 0.3) * spread
		case 1:
			h = rng.LogUniform(2, 50) * spread
		}
		c.H = mon.F(h)
		bmin, bmax := c12Boundaries(rng, conf, xmin, xmax, spread)
		if conf == 3 && (i/24)%3 == 0 && kernel != ref.KDelta {
			// many images: boundaries close to the data, bandwidth wider
			bmin = xmin - rng.Pick(0, 0.01, 0.5)*spread
			bmax = xmax + rng.Pick(0.001, 0.1, 1)*spread
			h = rng.LogUniform(1.5, 50) * (bmax - bmin)
			if h > 50*spread {
				h = 50 * spread
			}
			c.H = mon.F(h)
		}
		if conf == 3 && h > 50*(bmax-bmin) {
			// a constant sample has no spread to tie the bandwidth to: keep
			// the number of mirror images within what real samples can reach
			h = 50 * (bmax - bmin) * rng.Uniform(0.5, 1)
			c.H = mon.F(h)
		}
		c.BMin, c.BMax = mon.F(bmin), mon.F(bmax)
		c12Points(rng, &c, h, npts, nivs)
		if (i/12)%4 == 1 {
			// evaluate -> re-parameterise -> evaluate: on the same struct, then
			// on a by-value copy of the struct as first used
			g := c12Gen{xs: xs, ws: mon.Un(c.Ws), lo: xmin, hi: xmax, kernel: kernel, h: h, bminF: bmin, bmaxF: bmax}
			if c.Ws == nil {
				g.ws = nil
			}
			r1, _ := c12ReGen(rng, g, spread, false, rng.Intn(4), false)
			r2, _ := c12ReGen(rng, g, spread, true, rng.Intn(4), false)
			c.Re = []c12Re{r1, r2}
		} else if (i/12)%4 == 3 || (i/12)%8 == 2 {
			// evaluate -> change the sample (in place, or assign another) ->
			// evaluate: weighted ((i/12)%4 == 3) and unweighted first samples
			c.Re = c12DataSteps(rng, &c, h, spread, false)
		}
		c12Judge(w, c)
		w.Distinct(c12Hash(c))
	})

	// 2. zero bandwidth: Scott's rule is selected on first use
	r.Parallel("zero-bandwidth", r.Pick(600, 6000), func(w *mon.W, i int) {
		rng := w.Rng
		var xs []float64
		var info ref.ScottInfo
		var spread float64
		for try := 0; ; try++ {
			n := rng.Range(2, 40)
			if try >= 20 {
				// fallback: an evenly spaced sample always qualifies
				xs = make([]float64, n)
				for j := range xs {
					xs[j] = float64(j)
				}
			} else {
				// a quarter of the samples sit 1e3..1e7 spreads from the origin
				// (timestamps, large counters): there the variance must not be
				// formed from sum(x^2) - sum(x)^2/n
				if i%4 == 3 {
					xs, _ = c12Data(rng, n, 1e3, 1e7)
				} else {
					xs, _ = c12Data(rng, n, 0, 10)
				}
			}
			xmin, xmax := c12MinMax(xs)
			spread = xmax - xmin
			info = ref.BandwidthRules(xs)
			if spread > 0 && info.IQR > 0 && info.Scott >= 0.02*spread && info.Scott <= 50*spread {
				break
			}
		}
		c := c12Case{Op: "kde", Xs: mon.Fs(xs), Kernel: i % 3, H: 0, First: []string{"CDF", "PDF", "Bounds"}[(i/3)%3]}
		if sort.Float64sAreSorted(xs) && rng.Bool() {
			c.Sorted = true
		}
		xmin, xmax := c12MinMax(xs)
		bmin, bmax := c12Boundaries(rng, (i/9)%4, xmin, xmax, spread)
		c.BMin, c.BMax = mon.F(bmin), mon.F(bmax)
		c12Points(rng, &c, info.Scott, npts, nivs)
		// the argument of the first call: a sample value or any of the points
		fx := mon.F(xs[rng.Intn(len(xs))])
		if rng.Bool() {
			fx = c.Pts[rng.Intn(len(c.Pts))]
		}
		c.FirstX = &fx
		if (i/36)%2 == 1 {
			// after use the Bandwidth field holds Scott's value: re-parameterise
			// the same struct and a copy, with zero Bandwidth allowed again
			g := c12Gen{xs: xs, lo: xmin, hi: xmax, kernel: c.Kernel, h: info.Scott, bminF: bmin, bmaxF: bmax}
			r1, _ := c12ReGen(rng, g, spread, false, rng.PickI(0, 1, 3), true)
			r2, _ := c12ReGen(rng, g, spread, true, rng.PickI(0, 3), true)
			c.Re = []c12Re{r1, r2}
		} else if (i/36)%4 == 2 {
			// the sample is changed after use and Bandwidth set back to 0:
			// Scott's rule of the data the KDE holds then
			c.Re = c12DataSteps(rng, &c, info.Scott, spread, true)
		}
		c12Judge(w, c)
		w.Distinct(c12Hash(c))
	})

	// 3. enumerated small samples: every multiset of up to nmax values from a
	// small set x every kernel x bandwidth x boundary offsets, unweighted and
	// with weights 1,2,3; a fixed grid of points
	vals := []float64{0, 1, 3}
	nmax := 2
	if !r.Quick {
		vals, nmax = []float64{0, 1, 2, 3}, 3
	}
	var sets [][]float64
	var gen func(start int, cur []float64)
	gen = func(start int, cur []float64) {
		if len(cur) > 0 {
			sets = append(sets, append([]float64(nil), cur...))
		}
		if len(cur) == nmax {
			return
		}
		for j := start; j < len(vals); j++ {
			gen(j, append(cur, vals[j]))
		}
	}
	gen(0, nil)
	hs := []float64{0.5, 1, 4}
	offs := []float64{math.Inf(1), 0, 1, 10} // Inf = no boundary on that side
	type ecfg struct {
		set      int
		kernel   int
		h        float64
		ol, ou   float64
		weighted bool
	}
	var cfgs []ecfg
	for s := range sets {
		for kern := 0; kern < 3; kern++ {
			for _, h := range hs {
				for _, ol := range offs {
					for _, ou := range offs {
						for _, wt := range []bool{false, true} {
							cfgs = append(cfgs, ecfg{s, kern, h, ol, ou, wt})
						}
					}
				}
			}
		}
	}
	r.Exhaustive(fmt.Sprintf("all %d non-empty multisets of at most %d values from %v x 3 kernels x bandwidth %v x lower/upper boundary offset {none,0,1,10} x {unweighted, weights 1,2,3}: %d KDEs on a fixed grid of points", len(sets), nmax, vals, hs, len(cfgs)))
	r.Parallel("enum-small", len(cfgs), func(w *mon.W, i int) {
		e := cfgs[i]
		xs := sets[e.set]
		xmin, xmax := c12MinMax(xs)
		c := c12Case{Op: "kde", Xs: mon.Fs(xs), Kernel: e.kernel, H: mon.F(e.h), Sorted: i%2 == 0}
		if e.weighted {
			c.Ws = mon.Fs([]float64{1, 2, 3}[:len(xs)])
		}
		bmin, bmax := math.Inf(-1), math.Inf(1)
		if !math.IsInf(e.ol, 0) {
			bmin = xmin - e.ol
		}
		if !math.IsInf(e.ou, 0) {
			bmax = xmax + e.ou
		}
		if !math.IsInf(bmin, 0) && !math.IsInf(bmax, 0) && !(bmax > bmin) {
			return // a single point squeezed between touching boundaries: empty support
		}
		none := math.IsInf(bmin, 0) && math.IsInf(bmax, 0)
		if none || (bmin == 0 && bmax == 0) {
			if !none {
				return // [0,0) cannot be expressed
			}
			bmin, bmax = 0, 0
		}
		c.BMin, c.BMax = mon.F(bmin), mon.F(bmax)
		var pts []float64
		for x := -13.0; x <= 16; x += 0.5 {
			pts = append(pts, x)
		}
		for _, x := range xs {
			pts = append(pts, math.Nextafter(x, 9), math.Nextafter(x, -9), x-e.h, x+e.h)
		}
		pts = append(pts, -1e4, 1e4, 0.3, 1.7, 2.2)
		sort.Float64s(pts)
		c.Pts = mon.Fs(pts)
		_, mlo, mhi, _ := c12Config(c)
		m := ref.NewKDEModel(xs, nil, e.kernel, e.h, mlo, mhi)
		lo, hi := m.Support()
		if e.kernel != ref.KDelta && hi > lo {
			mid := lo + 0.375*(hi-lo)
			c.Ivs = mon.Fs([]float64{lo, mid, mid, hi, lo + 0.1*(hi-lo), lo + 0.9*(hi-lo)})
		}
		c12Judge(w, c)
		w.Distinct(c12Hash(c))
		if none {
			// the other way of writing "no boundaries"
			c.BMin, c.BMax = mon.F(math.Inf(-1)), mon.F(math.Inf(1))
			c12Judge(w, c)
			w.Distinct(c12Hash(c))
		}
	})

	// 3b. single-valued samples far from the origin (2^53 .. 1e19), all
	// kernels: Bounds must return (it used to loop for ever there, D22) and
	// hold the mass; bandwidths well above the spacing of floats at x
	r.Parallel("huge-constant", r.Pick(60, 600), func(w *mon.W, i int) {
		rng := w.Rng
		x0 := rng.Sign() * rng.LogUniform(0x1p53, 1e19)
		n := rng.Pick(1, 1, 2, 5)
		c := c12Case{Op: "kde", Kernel: i % 3}
		for j := 0; j < int(n); j++ {
			c.Xs = append(c.Xs, mon.F(x0))
		}
		h := math.Abs(x0) * rng.LogUniform(1e-9, 1e-2)
		c.H = mon.F(h)
		w.Hit("single-valued-sample-beyond-2^53")
		c12Points(rng, &c, h, 30, 4)
		c12Judge(w, c)
		w.Distinct(c12Hash(c))
	})

	// 3c. Bounds under stress: the statement's number (98% of the mass) is
	// only approached when a little weight sits beyond a gap on each side, so
	// that the distribution function has a plateau near the levels a search
	// for the end points aims at, and whatever margin is added to the end
	// points does not reach the outer values. Three clusters of values (1..3
	// outer values each), the weight of each outer cluster swept over 0.3% ..
	// 1.2% of the total (samples of at most 40 values need weights for that),
	// bandwidth 0.02..0.05 spreads, small against the gaps; all kernels and
	// boundary configurations. The oracle is the statement's 98%.
	plateauF := []float64{0.3, 0.4, 0.45, 0.5, 0.55, 0.6, 0.8, 0.95, 1.0, 1.05, 1.1, 1.2} // percent
	r.Parallel("bounds-plateau", r.Pick(576, 5760), func(w *mon.W, i int) {
		rng := w.Rng
		kernel := i % 3
		fL := plateauF[(i/3)%len(plateauF)] / 100
		fR := fL * rng.Uniform(0.97, 1.03)
		switch (i / 36) % 4 {
		case 1:
			fR = fL
		case 3:
			fR = rng.LogUniform(0.001, 0.025)
			if rng.Bool() {
				fL, fR = fR, fL
			}
		}
		conf := (i / 144) % 4
		nL, nR := rng.Range(1, 3), rng.Range(1, 3)
		nC := int(rng.Pick(1, 1, 2, 5, 12, 34))
		cw := rng.Pick(0, 0, 0.002, 0.01)
		cpos := rng.Uniform(0.25, 0.75)
		scale := rng.LogUniform(1e-6, 1e6)
		if rng.Bool() {
			scale = rng.Pick(1, 2, 20, 100)
		}
		loc := 0.0
		switch rng.Intn(4) {
		case 0:
			cpos, loc = 0.5, -0.5*scale // symmetric about the origin
		case 1:
			loc = rng.Sign() * rng.LogUniform(0.01, 100) * scale
		case 2:
			loc = -cpos * scale
		}
		var xs, ws []float64
		total := rng.LogUniform(1e-3, 1e3)
		if rng.Bool() {
			total = 100
		}
		cluster := func(n int, a, b, wt float64) {
			// n values in [a,b] (the first at a), weights splitting wt
			cuts := make([]float64, n)
			sum := 0.0
			for j := range cuts {
				cuts[j] = rng.Uniform(0.2, 1)
				sum += cuts[j]
			}
			for j := 0; j < n; j++ {
				x := a
				if j > 0 {
					x = rng.Uniform(a, b)
				}
				xs = append(xs, loc+scale*x)
				ws = append(ws, wt*cuts[j]/sum)
			}
		}
		cluster(nL, 0, cw, fL*total)
		cluster(nC, cpos-cw, cpos+cw, (1-fL-fR)*total)
		cluster(nR, 1, 1-cw, fR*total)
		// order of the values in the sample: as built, or shuffled
		if rng.Bool() {
			for j := len(xs) - 1; j > 0; j-- {
				k := rng.Intn(j + 1)
				xs[j], xs[k] = xs[k], xs[j]
				ws[j], ws[k] = ws[k], ws[j]
			}
		}
		xmin, xmax := c12MinMax(xs)
		spread := xmax - xmin
		h := rng.LogUniform(0.02, 0.05) * spread
		if kernel == ref.KGaussian {
			h = rng.LogUniform(0.02, 0.035) * spread
		}
		c := c12Case{Op: "kde", Xs: mon.Fs(xs), Ws: mon.Fs(ws), Kernel: kernel, H: mon.F(h)}
		bmin, bmax := c12Boundaries(rng, conf, xmin, xmax, spread)
		c.BMin, c.BMax = mon.F(bmin), mon.F(bmax)
		c12Points(rng, &c, h, 20, 2)
		w.Hit("bounds-plateau")
		in := func(f, a, b float64) bool { return f >= a && f <= b }
		w.HitIf(in(fL, 0.004, 0.006) && in(fR, 0.004, 0.006), "bounds-plateau/both-tails-0.4%..0.6%")
		w.HitIf(in(fL, 0.009, 0.011) && in(fR, 0.009, 0.011), "bounds-plateau/both-tails-0.9%..1.1%")
		c12Judge(w, c)
		w.Distinct(c12Hash(c))
	})

	// 3d. non-constant samples far from the origin compared with their spread
	// (1e8 .. 1e12 spreads: time stamps in nanoseconds of events seconds
	// apart, large counters), with weights and boundaries. The bandwidth stays
	// at or above 1024 ulps of the data, so that the kernel is resolved by the
	// floats around the data; every tolerance carries its conditioning term
	// (eps x magnitude / bandwidth), and the end points of Bounds are held to
	// a few ulps, not to a fraction of their magnitude.
	r.Parallel("kde-far", r.Pick(480, 4800), func(w *mon.W, i int) {
		rng := w.Rng
		kernel := i % 3
		conf := (i / 3) % 4
		var xs []float64
		for {
			n := rng.Range(2, 40)
			if rng.Intn(4) == 0 {
				n = rng.Range(2, 4)
			}
			xs, _ = c12Data(rng, n, 1e8, 1e12)
			if a, b := c12MinMax(xs); b > a {
				break
			}
		}
		n := len(xs)
		c := c12Case{Op: "kde", Xs: mon.Fs(xs), Kernel: kernel}
		if (i/12)%2 == 1 {
			ws := c12Weights(rng, n)
			if rng.Intn(3) == 0 {
				// a light first or last value
				sort.Float64s(xs)
				c.Xs = mon.Fs(xs)
				c.Sorted = rng.Bool()
				ws[rng.PickI(0, n-1)] *= 0.01
			}
			c.Ws = mon.Fs(ws)
		}
		xmin, xmax := c12MinMax(xs)
		spread := xmax - xmin
		h := rng.LogUniform(0.02, 50) * spread
		if rng.Intn(3) == 0 {
			h = rng.LogUniform(0.02, 0.3) * spread
		}
		h = math.Max(h, 1024*ulp(math.Max(math.Abs(xmin), math.Abs(xmax))))
		c.H = mon.F(h)
		bmin, bmax := c12Boundaries(rng, conf, xmin, xmax, spread)
		if conf != 0 && (i/24)%2 == 1 {
			// a boundary touching the data (the start or the end of a recording)
			if conf == 1 || (conf == 3 && rng.Bool()) {
				bmin = xmin
			} else {
				bmax = xmax
			}
		}
		if conf == 3 && h > 50*(bmax-bmin) {
			h = 50 * (bmax - bmin) * rng.Uniform(0.5, 1)
			c.H = mon.F(h)
		}
		c.BMin, c.BMax = mon.F(bmin), mon.F(bmax)
		c12Points(rng, &c, h, 24, 2)
		c12Judge(w, c)
		w.Distinct(c12Hash(c))
	})

	// 3e. large samples: 41 .. 20 000 (quick) / 200 000 (thorough) values,
	// log-uniform, and every round size (powers of two, 100, 500, 1000, 5000,
	// 10 000 ...) as it stands and plus one, through the same judge: an
	// implementation may work in blocks, switch to another algorithm above a
	// size, or count in a narrow integer, and the statement holds for samples
	// of any size. Shapes as above plus two skewed ones (log-normal,
	// exponential); values in random order unless flagged sorted. The
	// reference is the same O(n) kernel average per point, so the points are
	// fewer (24), the integrals are taken up to 300 values only (one panel per
	// kernel end), and with two boundaries the bandwidth is kept to a number
	// of images that shrinks with n.
	round, maxN := c12Sizes(r.Quick)
	r.Parallel("kde-large", 6*len(round)+r.Pick(120, 1200), func(w *mon.W, i int) {
		rng := w.Rng
		n := c12LargeN(rng, i, 6, round, maxN)
		kernel := i % 3
		if i < 6*len(round) {
			kernel = (i % 6) / 2
		}
		xs, scale := c12DataShape(rng, n, rng.PickI(0, 1, 2, 3, 4, 6, 7), 0, 1000)
		c := c12Case{Op: "kde", Kernel: kernel}
		if rng.Intn(3) == 0 {
			c.Ws = mon.Fs(c12Weights(rng, n))
		}
		if rng.Intn(4) == 0 {
			sort.Float64s(xs)
			c.Sorted = true
		}
		c.Xs = mon.Fs(xs)
		xmin, xmax := c12MinMax(xs)
		spread := xmax - xmin
		if !(spread > 0) {
			spread = scale
		}
		h := rng.LogUniform(0.02, 50) * spread
		if rng.Bool() {
			h = rng.LogUniform(0.02, 0.5) * spread
		}
		bmin, bmax := c12Boundaries(rng, rng.Intn(4), xmin, xmax, spread)
		if !math.IsInf(bmin, 0) && !math.IsInf(bmax, 0) && !(bmin == 0 && bmax == 0) {
			if lim := math.Max(0.25, math.Min(50, 2000/float64(n))) * (bmax - bmin); h > lim {
				h = lim * rng.Uniform(0.5, 1)
			}
		}
		c.H = mon.F(h)
		c.BMin, c.BMax = mon.F(bmin), mon.F(bmax)
		if n <= c12IntegMaxN {
			c12Points(rng, &c, h, npts, 3)
		} else {
			c.NoTotal = true
			c12Points(rng, &c, h, 24, 0)
		}
		c12Judge(w, c)
		w.Distinct(c12Hash(c))
	})

	// 3f. large samples with zero Bandwidth: Scott's rule from the exact
	// standard deviation and the exact R8 quartiles of the values (sorted by
	// the harness), on values handed over in random order; half of the shapes
	// are skewed, so that the quartile difference decides the bandwidth.
	// Scott's bandwidth shrinks like n^(-1/5): it is accepted down to 0.001
	// spreads here.
	r.Parallel("zero-bandwidth-large", 6*len(round)+r.Pick(60, 600), func(w *mon.W, i int) {
		rng := w.Rng
		n := c12LargeN(rng, i, 6, round, maxN)
		shapes := []int{7, 6, 3, 0, 6, 1, 7, 4}
		farData := rng.Intn(4) == 0
		var xs []float64
		var info ref.ScottInfo
		var spread float64
		for try := 0; ; try++ {
			if try >= 20 {
				xs = make([]float64, n)
				for j := range xs {
					xs[j] = float64(j)
				}
			} else if farData {
				xs, _ = c12DataShape(rng, n, shapes[(i/2+try)%len(shapes)], 1e3, 1e7)
			} else {
				xs, _ = c12DataShape(rng, n, shapes[(i/2+try)%len(shapes)], 0, 10)
			}
			xmin, xmax := c12MinMax(xs)
			spread = xmax - xmin
			info = ref.BandwidthRules(xs)
			if spread > 0 && info.IQR > 0 && info.Scott >= 0.001*spread && info.Scott <= 50*spread {
				break
			}
		}
		kernel := (i / 3) % 3
		if i < 6*len(round) {
			kernel = (i % 6) / 2
		}
		c := c12Case{Op: "kde", Kernel: kernel, H: 0, First: []string{"CDF", "PDF", "Bounds"}[i%3]}
		if rng.Intn(4) == 0 {
			sort.Float64s(xs)
			c.Sorted = true
		}
		c.Xs = mon.Fs(xs)
		xmin, xmax := c12MinMax(xs)
		bmin, bmax := c12Boundaries(rng, rng.Intn(4), xmin, xmax, spread)
		c.BMin, c.BMax = mon.F(bmin), mon.F(bmax)
		if n <= c12IntegMaxN {
			c12Points(rng, &c, info.Scott, npts, 3)
		} else {
			c.NoTotal = true
			c12Points(rng, &c, info.Scott, 24, 0)
		}
		fx := mon.F(xs[rng.Intn(len(xs))])
		if rng.Bool() {
			fx = c.Pts[rng.Intn(len(c.Pts))]
		}
		c.FirstX = &fx
		c12Judge(w, c)
		w.Distinct(c12Hash(c))
	})

	// 4. the bandwidth rules on Samples
	r.Parallel("bw-sample", r.Pick(800, 8000), func(w *mon.W, i int) {
		rng := w.Rng
		n := rng.Range(1, 40)
		if i%10 == 0 {
			n = rng.Range(1, 4)
		}
		xs, _ := c12Data(rng, n, 0, 100)
		if i%5 == 4 {
			xs, _ = c12Data(rng, n, 1e3, 1e7)
		}
		c := c12Case{Op: "bw-sample", Xs: mon.Fs(xs)}
		if rng.Intn(3) == 0 {
			sort.Float64s(xs)
			c.Xs = mon.Fs(xs)
			c.Sorted = true
		}
		w.HitIf(n == 1, "n=1")
		c12Judge(w, c)
		w.Distinct(c12Hash(c))
	})

	// 4b. the bandwidth rules on large Samples (sizes as in 3e), skewed and
	// symmetric, tied, in random order or flagged sorted
	r.Parallel("bw-sample-large", 2*len(round)+r.Pick(150, 1500), func(w *mon.W, i int) {
		rng := w.Rng
		n := c12LargeN(rng, i, 2, round, maxN)
		shape := []int{7, 6, 3, 0, 1, 4, 2}[(i/2)%7]
		xs, _ := c12DataShape(rng, n, shape, 0, 100)
		if rng.Intn(5) == 0 {
			xs, _ = c12DataShape(rng, n, shape, 1e3, 1e7)
		}
		c := c12Case{Op: "bw-sample"}
		if rng.Intn(3) == 0 {
			sort.Float64s(xs)
			c.Sorted = true
		}
		c.Xs = mon.Fs(xs)
		c12Judge(w, c)
		w.Distinct(c12Hash(c))
	})

	// 5. the bandwidth rules on a harness type
	r.Parallel("bw-iface", r.Pick(800, 8000), func(w *mon.W, i int) {
		rng := w.Rng
		sd := rng.LogUniform(1e-12, 1e12)
		iqr := sd * 1.349 * rng.LogUniform(0.01, 100)
		switch i % 8 {
		case 0:
			iqr = sd * 1.349 * rng.Uniform(0.999, 1.001)
		case 1:
			iqr = 0
		case 2:
			sd = 0
		case 3:
			iqr = sd * 1.349 // the two estimates coincide up to rounding
		}
		q25 := rng.Sign() * rng.LogUniform(1e-3, 1e3) * (sd + iqr) // sd and iqr are never both 0
		if rng.Intn(3) == 0 {
			q25 = 0
		}
		wt := float64(rng.Range(1, 1000))
		if rng.Bool() {
			wt = rng.LogUniform(0.5, 1e6)
		}
		c := c12Case{Op: "bw-iface", SD: mon.F(sd), W: mon.F(wt), Q25: mon.F(q25), Q75: mon.F(q25 + iqr)}
		c12Judge(w, c)
		w.Distinct(c12Hash(c))
	})
}
