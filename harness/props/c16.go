package props

import (
	"encoding/json"
	"errors"
	"fmt"
	"math"
	"math/big"
	"sort"

	"github.com/aclements/go-moremath/scale"

	"verifmon/mon"
	"verifmon/ref"
)

// C16 — Linear and Log scales map the domain onto [0,1] invertibly; QQ
// composes them.
//
// Reference: ref.ScaleRef, the unique map affine in x (in ln|x| for Log)
// with Map(Min)=0 and Map(Max)=1, in 384-bit arithmetic. "Map(Min)=0,
// Map(Max)=1, affine, strictly monotone" together determine Map, so the
// main oracle is M-ref against that map with the conditioning-derived
// tolerance of DESIGN section 4; the laws the design lists (round trips,
// strict monotonicity on separated points, three-point collinearity, clamp
// confinement and bit-for-bit identity inside, QQ mutual inverse) are
// checked on the recorded events on top of it.

type c16Scale struct {
	Log   bool  `json:"log"`
	Min   mon.F `json:"min"`
	Max   mon.F `json:"max"`
	Clamp bool  `json:"clamp"`
	// How the library object is built: 0 keyed literal incl. Clamp; 1 literal
	// then SetClamp(c); 2 literal, SetClamp(!c), SetClamp(c); 3 (Log with
	// Min<Max, else as 1) NewLog(Min,Max,10) then SetClamp(c); 4 same with
	// the arguments of NewLog reversed. 5/6: the object first describes ANOTHER
	// domain (5: built by NewLog / literal, 6: additionally used once for
	// Map and Unmap), then its exported Min/Max fields are assigned the case's
	// domain: a scale must follow its current Min/Max (no stale derived state).
	// 5/6 call SetClamp AFTER the assignment; 7..11 (c16BuildStale) do not: the
	// last thing that happens before the judged calls is the plain assignment
	// of Min and/or Max. 7: other domain, SetClamp(c), assign both. 8: domain
	// with another Min, SetClamp(c), Map+Unmap, assign Min only. 9: literal with
	// another Max, SetClamp(c), assign Max only. 10: other domain, SetClamp(c),
	// assign both to a second foreign domain, Map, assign both (twice in a
	// row). 11: literal of another domain incl. Clamp (no SetClamp at all),
	// Map+Unmap, assign both.
	How int `json:"how"`
	// Log: the Base field / the base given to NewLog (ticks only: Map and
	// Unmap do not depend on it). 0 stands for 10.
	Base int `json:"base,omitempty"`
}

func c16Base(sc c16Scale) int {
	if sc.Base >= 2 {
		return sc.Base
	}
	return 10
}

type c16Case struct {
	Kind string    `json:"kind"` // "scale", "qq", "newlog", "nice"
	A    c16Scale  `json:"a"`
	B    *c16Scale `json:"b,omitempty"` // qq: destination
	// qq: 1 = Dest is the very same object as Src (B is ignored), 2 = Dest is
	// a separately built scale with the same fields as Src
	Alias int     `json:"alias,omitempty"`
	Xs    []mon.F `json:"xs,omitempty"`
	// scale: arguments of Unmap; qq: arguments of QQ.Unmap
	Ys   []mon.F `json:"ys,omitempty"`
	Lo   mon.F   `json:"lo"` // newlog
	Hi   mon.F   `json:"hi"`
	Base int     `json:"base"`
	// nice: A is the domain the object is built on; then Nice(TickOptions{Max:N})
	// runs and the judged domain is the Min/Max read back from the object. Pre:
	// bit 0 built by NewLog (Log), bit 1 SetClamp before Nice (else after), bit 2
	// Map and Unmap used once before Nice. The arguments of Map are derived from
	// the niced domain: the end points, the affine parameters Ts (c16At) and the
	// offsets Ds from both end points (c16Near); when Ts and Ds are both empty
	// (a recorded violation) Xs is used as it is.
	N   int     `json:"n,omitempty"`
	Pre int     `json:"pre,omitempty"`
	Ts  []mon.F `json:"ts,omitempty"`
	Ds  []mon.F `json:"ds,omitempty"`
}

func init() {
	mon.Register(&mon.Prop{ID: "C16", Run: c16Run, Replay: func(w *mon.W, v *mon.ViolationRec) {
		var c c16Case
		if json.Unmarshal(v.Case, &c) == nil {
			c16Judge(w, c)
		}
	}})
}

func c16Judge(w *mon.W, c c16Case) {
	switch c.Kind {
	case "scale":
		c16JudgeScale(w, c)
	case "qq":
		c16JudgeQQ(w, c)
	case "newlog":
		c16JudgeNewLog(w, c)
	case "nice":
		c16JudgeNice(w, c)
	}
}

func c16Name(sc c16Scale) string {
	if sc.Log {
		return "Log"
	}
	return "Linear"
}

func c16Desc(sc c16Scale) string {
	if sc.Log {
		return fmt.Sprintf("Log{Min:%v,Max:%v,Base:%d,Clamp:%v}", float64(sc.Min), float64(sc.Max), c16Base(sc), sc.Clamp)
	}
	return fmt.Sprintf("%s{Min:%v,Max:%v,Clamp:%v}", c16Name(sc), float64(sc.Min), float64(sc.Max), sc.Clamp)
}

// c16Build constructs the library object of a scale. A failure of the
// constructor path (panic, unexpected rejection, wrong domain) is reported
// through bad and ok=false is returned.
func c16Build(w *mon.W, sc c16Scale, bad func(kind, msg string)) (q scale.Quantitative, ok bool) {
	min, max := float64(sc.Min), float64(sc.Max)
	name := c16Name(sc)
	how := sc.How
	base := c16Base(sc)
	if how >= 7 {
		return c16BuildStale(w, sc, bad)
	}
	if how >= 5 {
		// history: other domain first, then the fields are re-assigned
		w.Hit("domain-reassigned-after-construction")
		var obj scale.Quantitative
		if sc.Log {
			sign := 1.0
			if min < 0 {
				sign = -1
			}
			s, err := scale.NewLog(sign*3, sign*7e5, base)
			if err != nil {
				bad("newlog-reject", fmt.Sprintf("NewLog(%v,%v,%d) rejected: %v", sign*3, sign*7e5, base, err))
				return nil, false
			}
			obj = &s
		} else {
			obj = &scale.Linear{Min: -3, Max: 11}
		}
		if how == 6 {
			if p, v := mon.Call(func() { obj.Map(5); obj.Unmap(0.25) }); p {
				bad("panic", fmt.Sprintf("Map/Unmap on the initial domain panicked: %v", v))
				return nil, false
			}
		}
		switch o := obj.(type) {
		case *scale.Log:
			o.Min, o.Max = min, max
		case *scale.Linear:
			o.Min, o.Max = min, max
		}
		obj.SetClamp(sc.Clamp)
		return obj, true
	}
	if how >= 3 && !(sc.Log && min < max) {
		how = 1
	}
	var lg *scale.Log
	switch {
	case !sc.Log:
		l := &scale.Linear{Min: min, Max: max}
		if how == 0 {
			l.Clamp = sc.Clamp
		}
		q = l
	case how >= 3:
		a, b := min, max
		if how == 4 {
			a, b = max, min
		}
		var s scale.Log
		var err error
		w.Eval("NewLog")
		if p, v := mon.Call(func() { s, err = scale.NewLog(a, b, base) }); p {
			bad("panic", fmt.Sprintf("NewLog(%v,%v,%d) panicked: %v", a, b, base, v))
			return nil, false
		}
		if err != nil {
			bad("newlog-reject", fmt.Sprintf("NewLog(%v,%v,%d) rejected a finite range that excludes 0: %v", a, b, base, err))
			return nil, false
		}
		if !((s.Min == min && s.Max == max) || (s.Min == max && s.Max == min)) {
			bad("newlog-domain", fmt.Sprintf("NewLog(%v,%v,%d) returned the domain [%v,%v]", a, b, base, s.Min, s.Max))
			return nil, false
		}
		// a correct constructor may keep either order; the case is about
		// the domain [Min,Max] in this order
		s.Min, s.Max = min, max
		lg = &s
		q = lg
	default:
		lg = &scale.Log{Min: min, Max: max, Base: base}
		if how == 0 {
			lg.Clamp = sc.Clamp
		}
		q = lg
	}
	if how != 0 {
		if how == 2 {
			w.Eval(name + ".SetClamp")
			if p, v := mon.Call(func() { q.SetClamp(!sc.Clamp) }); p {
				bad("panic", fmt.Sprintf("%s.SetClamp(%v) panicked: %v", c16Desc(sc), !sc.Clamp, v))
				return nil, false
			}
		}
		w.Eval(name + ".SetClamp")
		if p, v := mon.Call(func() { q.SetClamp(sc.Clamp) }); p {
			bad("panic", fmt.Sprintf("%s.SetClamp(%v) panicked: %v", c16Desc(sc), sc.Clamp, v))
			return nil, false
		}
	}
	return q, true
}

// c16BuildStale builds the library object through a history that ends with a
// plain assignment of the exported Min and/or Max fields: a mutator
// (NewLog, SetClamp) and/or Map and Unmap ran BEFORE, on other field values,
// and nothing runs between the assignment and the judged calls. The object
// must describe the fields as they are at the time of the call.
func c16BuildStale(w *mon.W, sc c16Scale, bad func(kind, msg string)) (scale.Quantitative, bool) {
	min, max := float64(sc.Min), float64(sc.Max)
	name, base, how := c16Name(sc), c16Base(sc), sc.How
	w.Hit("domain-reassigned-after-construction")
	w.Hit(name + ":reassigned-then-used-directly")
	w.HitIf(how == 8 || how == 9, "reassigned:one-end-only")
	w.HitIf(how == 10, "reassigned:twice-in-a-row")
	w.HitIf(how == 11, "reassigned:after-Map-without-any-SetClamp")
	sign := 1.0
	if sc.Log && min < 0 {
		sign = -1
	}
	// foreign end points (of the case's sign for Log), different from the case's
	altMin, altMax := sign*3, sign*7e5
	if !sc.Log {
		altMin, altMax = -3, 11
	}
	if altMin == min {
		altMin = sign * 7
	}
	if altMax == max {
		altMax = sign * 2e4
	}
	var lin *scale.Linear
	var lg *scale.Log
	var q scale.Quantitative
	set := func(a, b float64, which int) { // which: 0 both, 1 Min only, 2 Max only
		switch {
		case lin != nil && which == 0:
			lin.Min, lin.Max = a, b
		case lin != nil && which == 1:
			lin.Min = a
		case lin != nil:
			lin.Max = b
		case which == 0:
			lg.Min, lg.Max = a, b
		case which == 1:
			lg.Min = a
		default:
			lg.Max = b
		}
	}
	// the domain before the last assignment
	a0, b0 := altMin, altMax
	switch how {
	case 8:
		b0 = max
	case 9:
		a0 = min
	}
	switch {
	case !sc.Log:
		lin = &scale.Linear{Min: a0, Max: b0}
		if how == 11 {
			lin.Clamp = sc.Clamp
		}
		q = lin
	case how == 9 || how == 11:
		lg = &scale.Log{Min: a0, Max: b0, Base: base}
		if how == 11 {
			lg.Clamp = sc.Clamp
		}
		q = lg
	default:
		var s scale.Log
		var err error
		w.Eval("NewLog")
		if p, v := mon.Call(func() { s, err = scale.NewLog(sign*3, sign*7e5, base) }); p {
			bad("panic", fmt.Sprintf("NewLog(%v,%v,%d) panicked: %v", sign*3, sign*7e5, base, v))
			return nil, false
		}
		if err != nil {
			bad("newlog-reject", fmt.Sprintf("NewLog(%v,%v,%d) rejected: %v", sign*3, sign*7e5, base, err))
			return nil, false
		}
		lg = &s
		q = lg
		if how == 8 {
			set(a0, b0, 0) // followed by SetClamp below
		}
	}
	use := func() bool {
		if p, v := mon.Call(func() { q.Map(sign * 5); q.Unmap(0.25) }); p {
			bad("panic", fmt.Sprintf("Map/Unmap on the initial domain panicked: %v", v))
			return false
		}
		return true
	}
	if how != 11 {
		w.Eval(name + ".SetClamp")
		if p, v := mon.Call(func() { q.SetClamp(sc.Clamp) }); p {
			bad("panic", fmt.Sprintf("%s.SetClamp(%v) panicked: %v", c16Desc(sc), sc.Clamp, v))
			return nil, false
		}
	}
	switch how {
	case 7:
		set(min, max, 0)
	case 8:
		if !use() {
			return nil, false
		}
		set(min, max, 1)
	case 9:
		set(min, max, 2)
	case 10:
		set(sign*0.5, sign*40, 0)
		if !use() {
			return nil, false
		}
		set(min, max, 0)
	default:
		if !use() {
			return nil, false
		}
		set(min, max, 0)
	}
	return q, true
}

func c16Clamp(y float64) float64 {
	if y < 0 {
		return 0
	}
	if y > 1 {
		return 1
	}
	return y
}

func c16Finite(x float64) bool { return !math.IsNaN(x) && !math.IsInf(x, 0) }

const c16MinNormal = 0x1p-1022

// c16HitExtreme records the hostile classes of a judged Log argument far
// from every domain: near the largest finite number, near the smallest
// normal number, subnormal.
func c16HitExtreme(w *mon.W, x float64) {
	a := math.Abs(x)
	w.HitIf(a > 1e300, "Log:x-near-MaxFloat64")
	w.HitIf(a < 1e-300 && a >= c16MinNormal, "Log:x-near-smallest-normal")
	w.HitIf(a < c16MinNormal, "Log:x-subnormal")
}

type c16Pt struct {
	x, y, ye, got, tol float64
	yb                 *big.Float
}

// c16Pre is a library object that was built (and put through a history) by
// the caller of c16JudgeScaleObj: the case c then describes the domain the
// object reports, outer is the replayable case and note the history.
type c16Pre struct {
	q     scale.Quantitative
	outer c16Case
	note  string
}

func c16JudgeScale(w *mon.W, c c16Case) { c16JudgeScaleObj(w, c, nil) }

func c16JudgeScaleObj(w *mon.W, c c16Case, pre *c16Pre) {
	sc := c.A
	min, max := float64(sc.Min), float64(sc.Max)
	name := c16Name(sc)
	R, err := ref.NewScaleRef(sc.Log, min, max)
	if err != nil {
		return // not a domain of the property
	}
	desc := c16Desc(sc)
	if pre != nil {
		desc += pre.note
	}
	viol := func(kind, msg string, xs, ys []float64) {
		cc := c
		if pre != nil {
			cc = pre.outer
			cc.Ts, cc.Ds = nil, nil
		}
		cc.Xs, cc.Ys = mon.Fs(xs), mon.Fs(ys)
		w.Violate(kind, msg, cc)
	}
	var q scale.Quantitative
	var ok bool
	if pre != nil {
		q = pre.q
	} else if q, ok = c16Build(w, sc, func(kind, msg string) { viol(kind, msg, nil, nil) }); !ok {
		return
	}
	var twin scale.Quantitative // the same scale without clamping
	if sc.Clamp {
		t := sc
		t.Clamp, t.How = false, 0
		if twin, ok = c16Build(w, t, func(kind, msg string) { viol(kind, msg, nil, nil) }); !ok {
			return
		}
	}

	deg, unres := R.Degenerate(), R.Unresolvable()
	w.HitIf(min > max, name+":reversed")
	w.HitIf(sc.Log && min < 0, "Log:negative")
	w.HitIf(sc.Log && min < 0 && min > max, "Log:negative-reversed")
	w.HitIf(deg, name+":degenerate")
	nearDeg := !deg && math.Abs(max-min) <= 4*math.Abs(math.Nextafter(min, math.Inf(1))-min)
	w.HitIf(nearDeg, name+":near-degenerate")
	w.HitIf(sc.Clamp, name+":clamp-on")
	w.HitIf(sc.How >= 3 && pre == nil && sc.Log && min < max, "Log:via-NewLog")
	w.HitIf(sc.Log && c16Base(sc) != 10, "Log:base-not-10")
	// Inside the unresolvable window the end points are still judged exactly
	// when the logarithms of |Min| and |Max| are at least 3 ulps apart (in
	// any base, ref.Separated): numerator and denominator of Map are then
	// the same non-zero expression at Max and the numerator is an exact
	// zero at Min for every implementation with a sub-ulp logarithm.
	collide := unres && !R.Separated()
	if unres {
		w.Note("Log:unresolvable-domain")
		w.HitIf(!collide, "Log:unresolvable-but-separated")
		if collide {
			w.Note("Log:unresolvable-logs-may-collide")
		}
	}
	type xg struct{ x, got float64 }
	var narrow []xg // Map events inside the unresolvable window

	call := func(op string, x float64, f func(float64) float64, xs, ys []float64) (float64, bool) {
		var got float64
		w.Eval(name + "." + op)
		if p, v := mon.Call(func() { got = f(x) }); p {
			viol("panic", fmt.Sprintf("%s.%s(%v) panicked: %v", desc, op, x, v), xs, ys)
			return 0, false
		}
		return got, true
	}

	var pts []c16Pt
	var gotMin, gotMax float64 // Linear, non-degenerate: Map at the end points
	var haveMin, haveMax bool
	for _, xf := range c.Xs {
		x := float64(xf)
		if !c16Finite(x) {
			continue
		}
		one := []float64{x}
		got, ok := call("Map", x, q.Map, one, nil)
		if !ok {
			continue
		}
		if !R.Valid(x) { // Log: zero or wrong sign
			w.HitIf(x == 0, "Log:x=0")
			w.HitIf(x != 0, "Log:x-wrong-sign")
			good := math.IsNaN(got)
			if sc.Clamp && got >= 0 && got <= 1 {
				// the interface says a clamping scale clamps x to the
				// domain first: accept a confined value too
				good = true
			}
			if !good {
				viol("log-nan", fmt.Sprintf("%s.Map(%v)=%v, want NaN (zero or wrong sign)", desc, x, got), one, nil)
			}
			continue
		}
		if deg {
			if got != 0.5 {
				viol("degenerate", fmt.Sprintf("%s.Map(%v)=%v on a degenerate domain, want 0.5", desc, x, got), one, nil)
			}
			continue
		}
		if unres {
			// any finite value is accepted inside the unresolvable window,
			// but a valid input of a non-degenerate domain must not map to NaN
			if math.IsNaN(got) {
				viol("log-unresolvable-nan", fmt.Sprintf("%s.Map(%v)=NaN for a valid input (domain narrower than the logarithm resolves)", desc, x), one, nil)
				continue
			}
			// The quantifier covers x within 100 widths of the domain: the two
			// requirements below are made there only.
			within := math.Abs(ref.F64(R.MapBig(x))) <= 101.5
			if within && math.IsInf(got, 0) {
				viol("log-unresolvable-nan", fmt.Sprintf("%s.Map(%v)=%v for a valid input within 100 widths of the domain (domain narrower than the logarithm resolves)", desc, x, got), one, nil)
				continue
			}
			// Confinement under Clamp does not depend on how well the
			// logarithm resolves the domain: clamping is the last step of
			// every correct Map.
			if sc.Clamp && (within || !collide) {
				w.HitIf(!R.Inside(x), "Log:unresolvable-clamp-outside")
				w.HitIf(collide && !R.Inside(x), "Log:collide-clamp-outside")
				if !(got >= 0 && got <= 1) {
					viol("clamp-confine", fmt.Sprintf("%s.Map(%v)=%v is outside [0,1] (Clamp on; domain narrower than the logarithm resolves)", desc, x, got), one, nil)
					continue
				}
			}
			if collide {
				w.Ambiguous()
				continue
			}
			switch {
			case x == min:
				w.Hit("Log:narrow-at-Min")
				if got != 0 {
					viol("narrow-endpoint", fmt.Sprintf("%s.Map(Min)=%.17g, want 0: Min!=Max and their logarithms are more than 3 ulps apart (%.17g, %.17g)", desc, got, math.Log(math.Abs(min)), math.Log(math.Abs(max))), one, nil)
				}
			case x == max:
				w.Hit("Log:narrow-at-Max")
				if got != 1 {
					viol("narrow-endpoint", fmt.Sprintf("%s.Map(Max)=%.17g, want 1: Min!=Max and their logarithms are more than 3 ulps apart (%.17g, %.17g)", desc, got, math.Log(math.Abs(min)), math.Log(math.Abs(max))), one, nil)
				}
			default:
				w.Ambiguous()
			}
			narrow = append(narrow, xg{x, got})
			continue
		}
		yb := R.MapBig(x)
		y := ref.F64(yb)
		if math.Abs(y) > 101.5 {
			w.Note("skipped:x-beyond-100-widths")
			continue
		}
		if sc.Log && math.Abs(x) < c16MinNormal {
			// Subnormal x: the platform logarithm need not be accurate
			// there (amd64's math.Log is off by up to 35 for subnormal
			// arguments), so only a bracket is required: Map(x) lies between
			// the reference at x and the reference at the smallest normal
			// number of the same sign (Map is monotone).
			y0 := ref.F64(R.MapBig(math.Copysign(c16MinNormal, x)))
			lo, hi := math.Min(y, y0), math.Max(y, y0)
			if sc.Clamp {
				lo, hi = c16Clamp(lo), c16Clamp(hi)
			}
			c16HitExtreme(w, x)
			tol := R.MapTol(x, y)
			e := math.Max(lo-got, got-hi) // NaN stays NaN
			if e < 0 {
				e = 0
			}
			if !w.Err(name+".Map(subnormal)", e, tol) {
				viol("map-subnormal", fmt.Sprintf("%s.Map(%v)=%.17g is not between the affine map at x, %.17g, and at the smallest normal number, %.17g (tol %.3g)", desc, x, got, y, y0, tol), one, nil)
			}
			if sc.Clamp && !(got >= 0 && got <= 1) {
				viol("clamp-confine", fmt.Sprintf("%s.Map(%v)=%v is outside [0,1]", desc, x, got), one, nil)
			}
			continue
		}
		ye := y
		if sc.Clamp {
			ye = c16Clamp(y)
			w.HitIf(y < 0, name+":clamp-low")
			w.HitIf(y > 1, name+":clamp-high")
		}
		w.HitIf(x == min, name+":at-Min")
		w.HitIf(x == max, name+":at-Max")
		w.HitIf(y < 0 || y > 1, name+":beyond-domain")
		if sc.Log {
			c16HitExtreme(w, x)
		}
		tol := R.MapTol(x, y)
		if d := math.Min(math.Abs(y), math.Abs(y-1)); x != min && x != max && d <= 1e-3 && d > 2*tol {
			// close to an end point, but farther from it than the tolerance
			w.Hit(name + ":x-near-bound")
			w.HitIf(d < 1e-9, name+":x-very-near-bound")
		}
		mapOK := w.Err(name+".Map", math.Abs(got-ye), tol)
		if !mapOK {
			viol("map", fmt.Sprintf("%s.Map(%v)=%.17g, the affine map gives %.17g (tol %.3g)", desc, x, got, ye, tol), one, nil)
		}
		if !sc.Log {
			// End points of a non-degenerate Linear domain (Min != Max as
			// floats): x-Min is an exact zero at Min in every form of the
			// affine map (direct, reciprocal-multiply, lerp, even
			// slope/intercept), and numerator and denominator are the same
			// rounded non-zero difference at Max (1 exactly; within an ulp or
			// two for a reciprocal-multiply form). However narrow the domain
			// is - a few ulps of its bounds - the two end points are told apart.
			if x == min {
				w.Hit("Linear:endpoint-Min-exact")
				w.HitIf(nearDeg, "Linear:near-degenerate-endpoint")
				gotMin, haveMin = got, true
				if got != 0 {
					viol("linear-endpoint", fmt.Sprintf("%s.Map(Min)=%.17g, want 0 exactly (Min!=Max; x-Min is an exact zero)", desc, got), one, nil)
				}
			}
			if x == max {
				w.Hit("Linear:endpoint-Max")
				w.HitIf(nearDeg, "Linear:near-degenerate-endpoint")
				gotMax, haveMax = got, true
				if !(math.Abs(got-1) <= 4*ref.Eps) {
					viol("linear-endpoint", fmt.Sprintf("%s.Map(Max)=%.17g, want 1 to within 4 eps (Min!=Max; numerator and denominator are the same difference Max-Min)", desc, got), one, nil)
				}
			}
		}
		if sc.Clamp {
			if !(got >= 0 && got <= 1) {
				viol("clamp-confine", fmt.Sprintf("%s.Map(%v)=%v is outside [0,1]", desc, x, got), one, nil)
			}
			if R.Inside(x) {
				if u, ok := call("Map", x, twin.Map, one, nil); ok {
					// identical value (a signed zero may lose its sign in a clamp)
					if !(got == c16Clamp(u)) {
						viol("clamp-inside", fmt.Sprintf("%s.Map(%v)=%.17g inside the domain but %.17g without clamping", desc, x, got, u), one, nil)
					}
				}
			}
		}
		pts = append(pts, c16Pt{x, y, ye, got, tol, yb})
		// x -> Map -> Unmap. With clamping on, the inverse law is claimed
		// inside the domain only.
		// The quantifier bounds Unmap's argument to y in [-5,5]; farther out
		// (x up to 100 widths away is quantified for Map only) a correct
		// Unmap may overflow or lose precision in an intermediate, e.g.
		// min*exp(y*width), so the round trip is not judged there.
		if mapOK && math.Abs(y) > 5 {
			w.Note("roundtrip-not-judged:|Map(x)|>5")
		}
		if mapOK && math.Abs(y) <= 5 && (!sc.Clamp || R.Inside(x)) {
			back, ok := call("Unmap", got, q.Unmap, one, nil)
			if !ok {
				continue
			}
			tolRT := R.Carry(tol, x) + R.UnmapTol(y, x)
			if math.IsInf(math.Abs(x)+tolRT, 0) {
				// a correctly rounded inverse may overflow here
				w.Note("skipped:roundtrip-at-overflow-threshold")
				continue
			}
			if !w.Err(name+".Unmap∘Map", math.Abs(back-x), tolRT) {
				viol("roundtrip-x", fmt.Sprintf("%s: Unmap(Map(%v))=%.17g (Map=%.17g), off by %.3g, tol %.3g", desc, x, back, got, math.Abs(back-x), tolRT), one, nil)
			}
		}
	}

	if haveMin && haveMax && gotMin == gotMax {
		viol("linear-endpoint", fmt.Sprintf("%s: Map(Min)=Map(Max)=%.17g although Min!=Max", desc, gotMin), []float64{min, max}, nil)
	}

	for _, yf := range c.Ys {
		y := float64(yf)
		if !c16Finite(y) || math.Abs(y) > 5 || deg {
			continue
		}
		one := []float64{y}
		if sc.Clamp && (y < 0 || y > 1) {
			w.Note("skipped:Unmap-outside-[0,1]-with-clamp(undefined)")
			continue
		}
		x := ref.F64(R.UnmapBig(ref.NF(y)))
		got, ok := call("Unmap", y, q.Unmap, nil, one)
		if !ok {
			continue
		}
		w.HitIf(y < 0 || y > 1, name+":unmap-beyond-[0,1]")
		if d := math.Min(math.Abs(y), math.Abs(y-1)); d > 0 && d < 1e-12 {
			w.Hit(name + ":unmap-near-bound")
		}
		tolX := R.UnmapTol(y, x)
		if !w.Err(name+".Unmap", math.Abs(got-x), tolX) {
			viol("unmap", fmt.Sprintf("%s.Unmap(%v)=%.17g, the inverse affine map gives %.17g (tol %.3g)", desc, y, got, x, tolX), nil, one)
			continue
		}
		if unres || !R.Valid(got) {
			continue
		}
		back, ok := call("Map", got, q.Map, nil, one)
		if !ok {
			continue
		}
		tolY := R.CarryBack(tolX, x) + R.MapTol(x, y)
		if !w.Err(name+".Map∘Unmap", math.Abs(back-y), tolY) {
			viol("roundtrip-y", fmt.Sprintf("%s: Map(Unmap(%v))=%.17g (Unmap=%.17g), tol %.3g", desc, y, back, got, tolY), nil, one)
		}
	}

	// weak monotonicity inside the unresolvable window (Map is monotone in x
	// on the valid half line, increasing iff Min<Max, for both signs)
	sort.Slice(narrow, func(i, j int) bool { return narrow[i].x < narrow[j].x })
	for i := 0; i+1 < len(narrow); i++ {
		a, b := narrow[i], narrow[i+1]
		if a.x == b.x {
			continue
		}
		w.Note("law:weakly-monotone-pair(narrow)")
		if good := (min < max && a.got <= b.got) || (min > max && a.got >= b.got); !good {
			viol("narrow-monotone", fmt.Sprintf("%s: Map(%v)=%.17g, Map(%v)=%.17g: order reversed (Min!=Max, logarithms of the end points more than 3 ulps apart)", desc, a.x, a.got, b.x, b.got), []float64{a.x, b.x}, nil)
		}
	}

	// laws over the recorded Map events
	sort.Slice(pts, func(i, j int) bool { return pts[i].x < pts[j].x })
	for i := 0; i+1 < len(pts); i++ {
		a, b := pts[i], pts[i+1]
		d := b.ye - a.ye
		if a.x == b.x || math.Abs(d) <= 2*(a.tol+b.tol) {
			continue
		}
		w.Note("law:monotone-pair")
		if g := b.got - a.got; !(g*d > 0) {
			viol("monotone", fmt.Sprintf("%s: Map(%v)=%.17g, Map(%v)=%.17g: not strictly monotone (reference %.17g -> %.17g)", desc, a.x, a.got, b.x, b.got, a.ye, b.ye), []float64{a.x, b.x}, nil)
		}
	}
	if !sc.Clamp {
		for i := 0; i+2 < len(pts); i++ {
			a, b, d := pts[i], pts[i+1], pts[i+2]
			den := ref.Sub(d.yb, a.yb)
			if a.x == b.x || b.x == d.x || den.Sign() == 0 {
				continue
			}
			t := ref.F64(ref.Quo(ref.Sub(b.yb, a.yb), den))
			pred := a.got + t*(d.got-a.got)
			tol := a.tol + b.tol + d.tol + 8*ref.Eps*math.Max(math.Abs(a.got), math.Abs(d.got))
			w.Note("law:collinear-triple")
			if !w.Err(name+".collinear", math.Abs(b.got-pred), tol) {
				viol("affine", fmt.Sprintf("%s: Map at %v, %v, %v = %.17g, %.17g, %.17g is not collinear (middle should be %.17g, tol %.3g)", desc, a.x, b.x, d.x, a.got, b.got, d.got, pred, tol), []float64{a.x, b.x, d.x}, nil)
			}
		}
	}

	h := mon.NewHasher().S(name).F(min).F(max).I(sc.How).I(sc.Base)
	if sc.Clamp {
		h = h.I(1)
	}
	w.Distinct(h.Fs(mon.Un(c.Xs)).Fs(mon.Un(c.Ys)).Sum())
	if w.WantSample() && len(pts) > 0 {
		p := pts[len(pts)/2]
		w.Sample(map[string]any{"scale": desc, "x": p.x, "Map": p.got, "reference": p.ye, "tol": p.tol, "points": len(c.Xs) + len(c.Ys)})
	}
}

// c16JudgeNice: the object is built on the domain of c.A, the library's own
// domain mutator Nice(TickOptions{Max: N}) runs, and Map/Unmap are judged
// against the reference of the domain the object reports AFTERWARDS (its
// exported Min/Max): a scale describes its current Min/Max whatever ran on
// the object before. What Nice chooses is not judged here (C17); a niced
// domain outside the quantifier box, degenerate or invalid is skipped.
func c16JudgeNice(w *mon.W, c c16Case) {
	sc := c.A
	a, b := float64(sc.Min), float64(sc.Max)
	if _, err := ref.NewScaleRef(sc.Log, a, b); err != nil || c.N < 1 {
		return
	}
	name, base := c16Name(sc), c16Base(sc)
	hist := fmt.Sprintf("%s then Nice(TickOptions{Max:%d})", c16Desc(sc), c.N)
	var q scale.Quantitative
	var nice func(scale.TickOptions)
	var read func() (float64, float64)
	if sc.Log {
		lg := &scale.Log{Min: a, Max: b, Base: base}
		if c.Pre&1 == 1 {
			var s scale.Log
			var err error
			w.Eval("NewLog")
			if p, v := mon.Call(func() { s, err = scale.NewLog(a, b, base) }); p {
				w.Violate("panic", fmt.Sprintf("NewLog(%v,%v,%d) panicked: %v", a, b, base, v), c)
				return
			}
			if err != nil {
				w.Violate("newlog-reject", fmt.Sprintf("NewLog(%v,%v,%d) rejected a finite range that excludes 0: %v", a, b, base, err), c)
				return
			}
			lg = &s
		}
		q, nice, read = lg, lg.Nice, func() (float64, float64) { return lg.Min, lg.Max }
	} else {
		l := &scale.Linear{Min: a, Max: b}
		q, nice, read = l, l.Nice, func() (float64, float64) { return l.Min, l.Max }
	}
	setClamp := func() bool {
		w.Eval(name + ".SetClamp")
		if p, v := mon.Call(func() { q.SetClamp(sc.Clamp) }); p {
			w.Violate("panic", fmt.Sprintf("%s: SetClamp(%v) panicked: %v", hist, sc.Clamp, v), c)
			return false
		}
		return true
	}
	if c.Pre&2 == 2 && !setClamp() {
		return
	}
	if c.Pre&4 == 4 {
		if p, v := mon.Call(func() { q.Map(c16At(sc.Log, a, b, 0.25)); q.Unmap(0.75) }); p {
			w.Violate("panic", fmt.Sprintf("%s: Map/Unmap before Nice panicked: %v", hist, v), c)
			return
		}
	}
	if p, _ := mon.Call(func() { nice(scale.TickOptions{Max: c.N}) }); p {
		w.Note("nice:skipped-Nice-panicked(C17)")
		return
	}
	if c.Pre&2 == 0 && !setClamp() {
		return
	}
	min, max := read()
	inBox := func(v float64) bool { return c16Finite(v) && math.Abs(v) >= 1e-12 && math.Abs(v) <= 1e12 }
	if !inBox(min) || !inBox(max) || min == max {
		w.Note("nice:skipped-niced-domain-outside-box-or-degenerate")
		return
	}
	if _, err := ref.NewScaleRef(sc.Log, min, max); err != nil {
		w.Note("nice:skipped-niced-domain-invalid")
		return
	}
	w.Hit(name + ":after-Nice")
	w.HitIf(min != a || max != b, name+":after-Nice-domain-moved")
	if sc.Log {
		// tick level above 0 (from the inputs): more whole powers of Base
		// around the domain than the N ticks allowed
		lo, hi := math.Min(math.Abs(a), math.Abs(b)), math.Max(math.Abs(a), math.Abs(b))
		lb := math.Log(float64(base))
		nd := math.Ceil(math.Log(hi)/lb) - math.Floor(math.Log(lo)/lb) + 1
		w.HitIf(nd > float64(c.N)+0.5, "Log:after-Nice-coarser-level")
		w.HitIf(c.Pre&1 == 1, "Log:after-Nice-via-NewLog")
		w.HitIf(min < 0, "Log:after-Nice-negative")
	}
	xs := mon.Un(c.Xs)
	if len(c.Ts)+len(c.Ds) > 0 {
		xs = []float64{min, max}
		for _, t := range c.Ts {
			xs = append(xs, c16At(sc.Log, min, max, float64(t)))
		}
		for _, d := range c.Ds {
			xs = append(xs, c16Near(sc.Log, min, max, false, float64(d)), c16Near(sc.Log, min, max, true, float64(d)))
		}
	}
	inner := c16Case{Kind: "scale", A: c16Scale{Log: sc.Log, Min: mon.F(min), Max: mon.F(max), Clamp: sc.Clamp, How: 12, Base: sc.Base}, Xs: mon.Fs(xs), Ys: c.Ys}
	c16JudgeScaleObj(w, inner, &c16Pre{q: q, outer: c, note: " [domain read back after " + hist + "]"})
}

func c16JudgeQQ(w *mon.W, c c16Case) {
	if c.B == nil && c.Alias == 0 {
		return
	}
	S := c.A
	D := S // Alias 1, 2: the destination has the fields of the source
	if c.Alias == 0 {
		D = *c.B
	}
	RS, err1 := ref.NewScaleRef(S.Log, float64(S.Min), float64(S.Max))
	RD, err2 := ref.NewScaleRef(D.Log, float64(D.Min), float64(D.Max))
	if err1 != nil || err2 != nil {
		return
	}
	if RS.Unresolvable() || RD.Unresolvable() {
		w.Note("skipped:qq-unresolvable")
		return
	}
	desc := fmt.Sprintf("QQ{Src:%s,Dest:%s}", c16Desc(S), c16Desc(D))
	viol := func(kind, msg string, xs, ys []float64) {
		cc := c
		cc.Xs, cc.Ys = mon.Fs(xs), mon.Fs(ys)
		w.Violate(kind, msg, cc)
	}
	qs, ok1 := c16Build(w, S, func(kind, msg string) { viol(kind, msg, nil, nil) })
	if !ok1 {
		return
	}
	qd := qs // Alias 1: one object on both sides
	if c.Alias != 1 {
		var ok2 bool
		if qd, ok2 = c16Build(w, D, func(kind, msg string) { viol(kind, msg, nil, nil) }); !ok2 {
			return
		}
	}
	qq := scale.QQ{Src: qs, Dest: qd}
	// The composition Dest.Unmap(Src.Map(x)) does not depend on whether the
	// two scales are one object, equal or different: the reference is the same.
	w.HitIf(c.Alias == 1, "qq:dest-is-src-object")
	w.HitIf(c.Alias == 2, "qq:dest-equal-copy")
	w.HitIf(c.Alias != 0 && RS.Degenerate(), "qq:alias-degenerate")
	if c.Alias != 0 {
		desc += fmt.Sprintf("[alias=%d]", c.Alias)
	}
	w.Hit("qq:" + c16Name(S) + "->" + c16Name(D))
	w.HitIf(S.Clamp, "qq:src-clamp")
	w.HitIf(D.Clamp, "qq:dest-clamp")
	w.HitIf(float64(S.Min) > float64(S.Max) || float64(D.Min) > float64(D.Max), "qq:reversed")
	// A degenerate domain maps every valid input to 0.5 and unmaps every y
	// to Min(=Max): the composition is Dest.Unmap(0.5) for a degenerate
	// source, Dest.Min for a degenerate destination (not invertible).
	w.HitIf(RS.Degenerate(), "qq:src-degenerate")
	w.HitIf(RD.Degenerate(), "qq:dest-degenerate")
	w.HitIf(RS.Degenerate() && RD.Degenerate(), "qq:both-degenerate")

	// one direction: from scale F (reference RF, clamp cf) to scale T.
	dir := func(op, inv string, f, finv func(float64) float64, RF, RT *ref.ScaleRef, F, T c16Scale, qt scale.Quantitative, x float64, mk func(float64) ([]float64, []float64)) {
		if !c16Finite(x) {
			return
		}
		xs, ys := mk(x)
		if !RF.Valid(x) {
			// Log on the from side, zero or wrong sign: its Map is NaN (a
			// clamping Log may confine instead: not judged), and the
			// composition hands that NaN to the Unmap of the other scale.
			// What Unmap(NaN) is, is not stated: the library's own
			// T.Unmap(NaN) is what the composition must return.
			if F.Clamp {
				return
			}
			w.Hit("qq:log-invalid-x")
			w.HitIf(c.Alias != 0, "qq:alias-log-invalid-x")
			var got, want float64
			w.Eval(op)
			if p, v := mon.Call(func() { got = f(x); want = qt.Unmap(math.NaN()) }); p {
				viol("panic", fmt.Sprintf("%s.%s(%v) panicked: %v", desc, op[3:], x, v), xs, ys)
				return
			}
			if !(got == want || (math.IsNaN(got) && math.IsNaN(want))) {
				viol("qq-nan", fmt.Sprintf("%s.%s(%v)=%v: %v is zero or of the wrong sign for %s, whose Map is NaN there; the composition gives %s.Unmap(NaN)=%v", desc, op[3:], x, got, x, c16Desc(F), c16Desc(T), want), xs, ys)
			}
			return
		}
		var yb *big.Float
		tolY := 0.0
		if RF.Degenerate() {
			yb = ref.NF(0.5)
		} else {
			yb = RF.MapBig(x)
		}
		y := ref.F64(yb)
		if !RF.Degenerate() {
			tolY = RF.MapTol(x, y)
		}
		if math.Abs(y) > 5 {
			w.Note("skipped:qq-|y|>5")
			return
		}
		outside := y < 0 || y > 1
		if outside && !F.Clamp && T.Clamp {
			// Unmap of a clamping scale outside [0,1] is undefined
			w.Note("skipped:qq-unmap-outside-[0,1]-with-clamp")
			return
		}
		w.HitIf(outside && F.Clamp, "qq:clamp-active")
		w.HitIf(outside && F.Clamp && c.Alias != 0, "qq:alias-clamp-active")
		w.HitIf(outside && !F.Clamp, "qq:beyond-domain")
		yeb := yb
		if F.Clamp {
			yeb = ref.Clamp01(yb)
		}
		ye := ref.F64(yeb)
		xp := ref.F64(RT.UnmapBig(yeb))
		tolXp := RT.Carry(tolY, xp) + RT.UnmapTol(ye, xp)
		var got float64
		w.Eval(op)
		if p, v := mon.Call(func() { got = f(x) }); p {
			viol("panic", fmt.Sprintf("%s.%s(%v) panicked: %v", desc, op[3:], x, v), xs, ys)
			return
		}
		if !w.Err(op, math.Abs(got-xp), tolXp) {
			viol("qq-compose", fmt.Sprintf("%s.%s(%v)=%.17g, the composition of the two affine maps gives %.17g (tol %.3g)", desc, op[3:], x, got, xp, tolXp), xs, ys)
			return
		}
		// mutual inverse, where no clamping took place
		if outside && (F.Clamp || T.Clamp) {
			return
		}
		if RF.Degenerate() || RT.Degenerate() {
			return // a constant map has no inverse
		}
		if !RT.Valid(got) {
			return
		}
		var back float64
		w.Eval(inv)
		if p, v := mon.Call(func() { back = finv(got) }); p {
			viol("panic", fmt.Sprintf("%s.%s(%v) panicked: %v", desc, inv[3:], got, v), xs, ys)
			return
		}
		dy := RT.CarryBack(tolXp, xp) + RT.MapTol(xp, ye)
		tolRT := RF.Carry(dy, x) + RF.UnmapTol(ye, x)
		if !w.Err(inv+"∘"+op, math.Abs(back-x), tolRT) {
			viol("qq-inverse", fmt.Sprintf("%s: %s(%s(%v))=%.17g (intermediate %.17g), off by %.3g, tol %.3g", desc, inv, op, x, back, got, math.Abs(back-x), tolRT), xs, ys)
		}
	}
	for _, xf := range c.Xs {
		dir("QQ.Map", "QQ.Unmap", qq.Map, qq.Unmap, RS, RD, S, D, qd, float64(xf), func(x float64) ([]float64, []float64) { return []float64{x}, nil })
	}
	for _, yf := range c.Ys {
		dir("QQ.Unmap", "QQ.Map", qq.Unmap, qq.Map, RD, RS, D, S, qs, float64(yf), func(x float64) ([]float64, []float64) { return nil, []float64{x} })
	}
	h := mon.NewHasher().S("qq").S(c16Desc(S)).S(c16Desc(D)).I(c.Alias).I(S.How).I(D.How)
	w.Distinct(h.Fs(mon.Un(c.Xs)).Fs(mon.Un(c.Ys)).Sum())
	if w.WantSample() && len(c.Xs) > 0 {
		x := float64(c.Xs[len(c.Xs)/2])
		var got float64
		mon.Call(func() { got = qq.Map(x) })
		w.Sample(map[string]any{"qq": desc, "x": x, "QQ.Map": got})
	}
}

func c16JudgeNewLog(w *mon.W, c c16Case) {
	lo, hi, base := float64(c.Lo), float64(c.Hi), c.Base
	if !c16Finite(lo) || !c16Finite(hi) {
		return // the statement is about finite ranges
	}
	call := fmt.Sprintf("NewLog(%v,%v,%d)", lo, hi, base)
	var s scale.Log
	var err error
	w.Eval("NewLog")
	if p, v := mon.Call(func() { s, err = scale.NewLog(lo, hi, base) }); p {
		w.Violate("panic", fmt.Sprintf("%s panicked: %v", call, v), c)
		return
	}
	zeroEnd := lo == 0 || hi == 0
	straddle := !zeroEnd && (lo < 0) != (hi < 0)
	badBase := base < 2
	accept := !zeroEnd && !straddle && !badBase
	w.HitIf(badBase && !zeroEnd && !straddle, "newlog-reject:base<2")
	w.HitIf(badBase && base == 1, "newlog-reject:base=1")
	w.HitIf(zeroEnd && !badBase, "newlog-reject:zero-endpoint")
	w.HitIf(zeroEnd && !badBase && (math.Min(lo, hi) == 0), "newlog-reject:min=0")
	w.HitIf(zeroEnd && !badBase && (math.Max(lo, hi) == 0), "newlog-reject:max=0")
	w.HitIf(straddle && !badBase, "newlog-reject:straddles-0")
	w.HitIf(accept && base == 2, "newlog-accept:base=2")
	w.HitIf(accept && lo < 0, "newlog-accept:negative")
	w.HitIf(accept && lo > hi, "newlog-accept:reversed-args")
	w.HitIf(accept && lo == hi, "newlog-accept:degenerate")
	w.Distinct(mon.NewHasher().S("newlog").F(lo).F(hi).I(base).Sum())
	if accept {
		if err != nil {
			w.Violate("newlog-reject", fmt.Sprintf("%s rejected a finite range that excludes 0 with base>=2: %v", call, err), c)
			return
		}
		if !((s.Min == lo && s.Max == hi) || (s.Min == hi && s.Max == lo)) {
			w.Violate("newlog-domain", fmt.Sprintf("%s returned the domain [%v,%v]", call, s.Min, s.Max), c)
			return
		}
		w.HitIf(base != 2 && base != 10, "newlog-accept:base-not-2-or-10")
		c16Spot(w, &s, call, c)
		return
	}
	if err == nil {
		w.Violate("newlog-accept", fmt.Sprintf("%s accepted (zero endpoint=%v, straddles 0=%v, base<2=%v), returned %+v", call, zeroEnd, straddle, badBase, s), c)
		return
	}
	var re scale.RangeErr
	if !errors.As(err, &re) {
		w.Violate("newlog-errtype", fmt.Sprintf("%s returned an error of type %T (%v), not a RangeErr", call, err, err), c)
	}
}

// c16Spot compares Map and Unmap of the scale an accepted NewLog call
// returned with the reference map of the domain it reports (either order is a
// correct answer of the constructor), at points derived from the domain only.
func c16Spot(w *mon.W, s *scale.Log, call string, c c16Case) {
	min, max := s.Min, s.Max
	R, err := ref.NewScaleRef(true, min, max)
	if err != nil || R.Unresolvable() {
		return
	}
	if s.Clamp {
		return // not what a constructor should hand out, but not excluded by the statement
	}
	desc := fmt.Sprintf("%s = Log{Min:%v,Max:%v,Base:%d}", call, min, max, s.Base)
	w.Note("newlog:spot-checked")
	xs := []float64{min, max, c16At(true, min, max, 0.5), c16At(true, min, max, 0.3), c16At(true, min, max, -1.5), c16At(true, min, max, 2.25)}
	for _, x := range xs {
		if !R.Valid(x) {
			continue
		}
		var got float64
		w.Eval("Log.Map")
		if p, v := mon.Call(func() { got = s.Map(x) }); p {
			w.Violate("panic", fmt.Sprintf("%s: Map(%v) panicked: %v", desc, x, v), c)
			return
		}
		if R.Degenerate() {
			if got != 0.5 {
				w.Violate("degenerate", fmt.Sprintf("%s: Map(%v)=%v on a degenerate domain, want 0.5", desc, x, got), c)
			}
			continue
		}
		y := ref.F64(R.MapBig(x))
		if math.Abs(y) > 101.5 {
			continue
		}
		if tol := R.MapTol(x, y); !w.Err("Log.Map", math.Abs(got-y), tol) {
			w.Violate("map", fmt.Sprintf("%s: Map(%v)=%.17g, the affine map gives %.17g (tol %.3g)", desc, x, got, y, tol), c)
		}
	}
	for _, y := range []float64{0, 1, 0.5, 0.3, -1.5, 2.25} {
		x := ref.F64(R.UnmapBig(ref.NF(y)))
		var got float64
		w.Eval("Log.Unmap")
		if p, v := mon.Call(func() { got = s.Unmap(y) }); p {
			w.Violate("panic", fmt.Sprintf("%s: Unmap(%v) panicked: %v", desc, y, v), c)
			return
		}
		if tol := R.UnmapTol(y, x); !w.Err("Log.Unmap", math.Abs(got-x), tol) {
			w.Violate("unmap", fmt.Sprintf("%s: Unmap(%v)=%.17g, the inverse affine map gives %.17g (tol %.3g)", desc, y, got, x, tol), c)
		}
	}
}

// generators ------------------------------------------------------------

func c16ClipMag(v float64) float64 {
	a := math.Abs(v)
	if a < 1e-12 {
		a = 1e-12
	}
	if a > 1e12 {
		a = 1e12
	}
	return math.Copysign(a, v)
}

func c16Mag(rng *mon.Rand) float64 {
	switch rng.Intn(10) {
	case 0:
		return rng.Pick(1e-12, 1e12)
	case 1, 2:
		return rng.Pick(1, 2, 10, 100, 1000, 0.1, 0.5, 0.25, 1024, 1e6, 1e-6, 3, 7, math.E)
	case 3, 4, 5:
		return rng.LogUniform(1e-3, 1e3)
	}
	return c16ClipMag(rng.LogUniform(1e-12, 1e12))
}

func c16Ulps(x float64, k int) float64 {
	dir := math.Inf(1)
	if k < 0 {
		dir, k = math.Inf(-1), -k
	}
	for ; k > 0; k-- {
		x = math.Nextafter(x, dir)
	}
	return x
}

// c16Domain draws a domain. sameSign forces a valid Log domain. kind selects
// the family; mild restricts to families that keep QQ well conditioned.
func c16Domain(rng *mon.Rand, kind int, sameSign bool) (min, max float64) {
	s1, s2 := rng.Sign(), rng.Sign()
	if sameSign {
		s2 = s1
	}
	switch kind % 8 {
	case 0, 1: // generic
		min, max = s1*c16Mag(rng), s2*c16Mag(rng)
	case 2: // narrow
		min = s1 * c16Mag(rng)
		max = min * (1 + rng.Sign()*rng.LogUniform(1e-15, 0.5))
	case 3: // near-degenerate
		min = s1 * c16Mag(rng)
		// up to a few hundred ulps: a Log domain is unresolvable up to about
		// 8(1+|ln Min|+|ln Max|) ulps
		k := rng.PickI(1, 1, 1, 2, 3, 10, 24, 50, 100, rng.Range(4, 40), rng.Range(10, 300))
		if rng.Intn(3) == 0 {
			// logarithms of the end points t ulps apart, t in 1..6
			u := math.Nextafter(math.Abs(min), math.Inf(1)) - math.Abs(min)
			k = int(rng.Uniform(1, 6) * math.Abs(math.Log(math.Abs(min))) * ref.Eps * math.Abs(min) / u)
			if k < 1 {
				k = 1
			}
		}
		if rng.Bool() {
			k = -k
		}
		max = c16Ulps(min, k)
		if math.Abs(max) > 1e12 || math.Abs(max) < 1e-12 {
			max = c16Ulps(min, -k)
		}
	case 4: // degenerate
		min = s1 * c16Mag(rng)
		max = min
	case 5: // corners of the quantified box
		min, max = s1*rng.Pick(1e-12, 1e12), s2*rng.Pick(1e-12, 1e12)
		if min == max {
			max = s2 * rng.Pick(1, 1e-12*(1+1e-3), 1e12*(1-1e-3))
		}
	case 6: // symmetric, integers, decades
		switch rng.Intn(3) {
		case 0:
			a := c16Mag(rng)
			min, max = -a, a
			if sameSign {
				min, max = s1/a, s1*a // symmetric about 1 in the log domain
			}
		case 1:
			min, max = s1*float64(rng.Range(1, 20)), s2*float64(rng.Range(1, 20))
		default:
			min, max = s1*math.Pow(10, float64(rng.Range(-12, 0))), s2*math.Pow(10, float64(rng.Range(0, 12)))
		}
	default: // huge ratio
		min, max = s1*rng.LogUniform(1e-12, 1e-6), s2*rng.LogUniform(1e6, 1e12)
	}
	min, max = c16ClipMag(min), c16ClipMag(max)
	if rng.Bool() {
		min, max = max, min
	}
	return
}

// c16At returns the point at parameter t of the domain (affine parameter in
// x, resp. in ln|x|), clipped to the finite non-zero numbers for Log.
func c16At(isLog bool, min, max, t float64) float64 {
	if !isLog {
		return min + t*(max-min)
	}
	lmin, lmax := math.Log(math.Abs(min)), math.Log(math.Abs(max))
	a := math.Exp(lmin + t*(lmax-lmin))
	if a == 0 {
		a = math.SmallestNonzeroFloat64
	}
	if a > math.MaxFloat64 {
		a = math.MaxFloat64
	}
	return math.Copysign(a, min)
}

// c16Near returns the point at the signed affine offset d from an end point
// (Min, or Max with atMax): its image is about d, resp. 1+d.
func c16Near(isLog bool, min, max float64, atMax bool, d float64) float64 {
	b := min
	if atMax {
		b = max
	}
	if !isLog {
		return b + d*(max-min)
	}
	x := b + b*math.Expm1(d*(math.Log(math.Abs(max))-math.Log(math.Abs(min))))
	if x == 0 || !c16Finite(x) || (x < 0) != (b < 0) {
		return b
	}
	return x
}

// c16NearPoints: four arguments at intermediate distances (1e-15..1e-3 in
// the image) from the end points, inside and outside the domain.
func c16NearPoints(rng *mon.Rand, isLog bool, min, max float64) []float64 {
	d := func() float64 { return rng.LogUniform(1e-15, 1e-3) }
	return []float64{c16Near(isLog, min, max, false, d()), c16Near(isLog, min, max, false, -d()),
		c16Near(isLog, min, max, true, -d()), c16Near(isLog, min, max, true, d())}
}

func c16Points(rng *mon.Rand, isLog bool, min, max float64, reach float64) []float64 {
	up, down := math.Inf(1), math.Inf(-1)
	xs := []float64{min, max,
		math.Nextafter(min, down), math.Nextafter(min, up), math.Nextafter(max, down), math.Nextafter(max, up),
		c16At(isLog, min, max, 0.5),
		c16At(isLog, min, max, rng.Float64()), c16At(isLog, min, max, rng.Float64()), c16At(isLog, min, max, rng.Float64()),
		c16At(isLog, min, max, rng.Uniform(-reach, 0)), c16At(isLog, min, max, rng.Uniform(1, 1+reach)),
		c16At(isLog, min, max, -reach), c16At(isLog, min, max, 1+reach),
		c16At(isLog, min, max, rng.Uniform(-2, 3)), c16At(isLog, min, max, rng.Uniform(-2, 3)),
	}
	return xs
}

func c16Run(r *mon.Run) {
	r.Rule("Linear and Log domains with |Min|,|Max| in [1e-12,1e12] (generic, narrow, near-degenerate, degenerate, corners, symmetric/integers/decades, huge ratio; both orders; both signs for Log), Clamp on/off set by field, SetClamp or NewLog, Log bases 2, 3, 5, 10, 16; x = Min, Max, their neighbours, points at intermediate distances (1e-15..1e-3 in the image) from both end points inside and outside, inside, up to 100 widths outside (for Log: widths in ln|x|, up to MaxFloat64 and down to the subnormals), zero and wrong-sign x for Log; y in [-5,5]; histories of the object: built directly, SetClamp once/twice, via NewLog, another domain first and Min/Max assigned afterwards followed by SetClamp, or assigned LAST (after NewLog/SetClamp/Map ran on other field values: both ends, one end only, twice in a row, no SetClamp at all) with the judged calls directly after the assignment, or put through the library's own Nice(TickOptions{Max:1..6}) (Linear and Log, built by literal or NewLog, SetClamp before or after, used before or not) and judged against the Min/Max the object reports afterwards (skipped when that domain leaves the box or is degenerate); QQ over the 4 pairings x 4 clamp settings, with degenerate source and/or destination in 3 of 16 blocks, Dest the same object as Src or an equal-field copy (clamp on/off, degenerate or not) in 4 of 16 blocks, zero/wrong-sign x through a Log source; NewLog over a 12x12x11 grid of end points and bases plus random ones, Map/Unmap of every accepted scale spot-checked against the reference. Non-trivial: hits a class (reversed, negative, (near-)degenerate, clamp active, beyond domain, QQ pairing, NewLog branch); distinct by hash of (scale(s), points).")
	r.Assume("reference: affine map in x / ln|x| in 384-bit arithmetic (own exp/log), self-tested at start-up",
		"tolerances (policy b): Linear Unmap 8eps(|x|+(1+|y|)max(|Min|,|Max|)), Log Unmap relative 8eps(1+|y|)(1+|ln x|+|ln Min|+|ln Max|); Log Map: the same carried through the slope + 4eps|y|; Linear Map: 8eps|y|+4eps|1-y| (x-Min and Max-Min are single roundings of the inputs: direct, reciprocal-multiply and lerp forms all reach it; a slope/intercept form x*k-Min*k does not); round trips: sum of the two",
		"non-degenerate Linear domain (Min!=Max as floats, however narrow): Map(Min)=0 exactly, |Map(Max)-1|<=4eps, Map(Min)!=Map(Max)",
		"a scale describes its exported Min/Max as they are at the time of the call, whatever ran on the object before; QQ's reference composition Dest.Unmap(Src.Map(x)) is the same whether Dest is Src itself, an equal copy or another scale; for zero/wrong-sign x of a non-clamping Log source QQ must return what the destination's own Unmap returns for NaN",
		"Log domains with ln|Max|-ln|Min| <= 8eps(1+|ln Min|+|ln Max|) are unresolvable in double precision logarithms: Map values there are counted ambiguous and not judged, except that when the logarithms of |Min| and |Max| are at least 3 ulps apart (ln|Max|-ln|Min| >= 3eps max|ln|, the same in every base), Map(Min)=0 and Map(Max)=1 exactly and weak monotonicity are still required; in the whole window a valid x within 100 widths maps to a finite number and, with Clamp on, into [0,1] (clamping is the last step of every correct Map, whatever the logarithm resolves)",
		"QQ with a degenerate scale: a degenerate source maps every valid input to 0.5, so QQ.Map(x) is Dest.Unmap(0.5); a degenerate destination unmaps everything to its Min; no inverse law there",
		"Unmap outside [0,1] of a clamping scale is undefined (scale.Quantitative) and not judged; a clamping Log may return NaN or a confined value for zero/wrong-sign x",
		"NewLog is exercised with finite arguments only")
	r.Gate("Linear:x-near-bound", "Log:x-near-bound", "Linear:x-very-near-bound", "Log:x-very-near-bound", "Linear:unmap-near-bound", "Log:unmap-near-bound",
		"Linear:after-Nice", "Log:after-Nice", "Linear:after-Nice-domain-moved", "Log:after-Nice-domain-moved", "Log:after-Nice-coarser-level", "Log:after-Nice-via-NewLog", "Log:after-Nice-negative",
		"Log:unresolvable-clamp-outside", "Log:collide-clamp-outside",
		"Linear:reassigned-then-used-directly", "Log:reassigned-then-used-directly", "reassigned:one-end-only", "reassigned:twice-in-a-row", "reassigned:after-Map-without-any-SetClamp",
		"Linear:endpoint-Min-exact", "Linear:endpoint-Max", "Linear:near-degenerate-endpoint",
		"qq:dest-is-src-object", "qq:dest-equal-copy", "qq:alias-clamp-active", "qq:alias-degenerate", "qq:log-invalid-x", "qq:alias-log-invalid-x",
		"domain-reassigned-after-construction", "Linear:reversed", "Log:reversed", "Log:negative", "Log:negative-reversed",
		"Linear:degenerate", "Log:degenerate", "Linear:near-degenerate", "Log:near-degenerate",
		"Linear:clamp-low", "Linear:clamp-high", "Log:clamp-low", "Log:clamp-high",
		"Linear:beyond-domain", "Log:beyond-domain", "Linear:unmap-beyond-[0,1]", "Log:unmap-beyond-[0,1]",
		"Linear:at-Min", "Linear:at-Max", "Log:at-Min", "Log:at-Max",
		"Log:x=0", "Log:x-wrong-sign", "Log:via-NewLog", "Log:base-not-10",
		"Log:x-near-MaxFloat64", "Log:x-near-smallest-normal", "Log:x-subnormal",
		"Log:unresolvable-but-separated", "Log:narrow-at-Min", "Log:narrow-at-Max",
		"qq:src-degenerate", "qq:dest-degenerate", "qq:both-degenerate", "newlog-accept:base-not-2-or-10",
		"qq:Linear->Linear", "qq:Linear->Log", "qq:Log->Linear", "qq:Log->Log", "qq:clamp-active", "qq:beyond-domain", "qq:reversed",
		"newlog-reject:base<2", "newlog-reject:base=1", "newlog-reject:min=0", "newlog-reject:max=0", "newlog-reject:straddles-0",
		"newlog-accept:base=2", "newlog-accept:negative", "newlog-accept:reversed-args")
	if err := ref.C16SelfTest(); err != nil {
		r.Inconclusive("reference self-test failed: " + err.Error())
		return
	}

	ys := func(rng *mon.Rand) []float64 {
		return []float64{0, 1, 0.5, rng.Float64(), rng.Float64(), rng.Uniform(-5, 5), rng.Uniform(-5, 5), -5, 5,
			rng.Sign() * rng.LogUniform(1e-15, 1e-3), 1 + rng.Sign()*rng.LogUniform(1e-15, 1e-3)}
	}

	r.Parallel("linear", r.Pick(6000, 60000), func(w *mon.W, i int) {
		rng := w.Rng
		min, max := c16Domain(rng, i, false)
		sc := c16Scale{Min: mon.F(min), Max: mon.F(max), Clamp: (i/8)%2 == 1, How: rng.PickI(0, 1, 2, 5, 6, 7, 8, 9, 10, 11)}
		xs := c16Points(rng, false, min, max, 100)
		xs = append(xs, c16NearPoints(rng, false, min, max)...)
		xs = append(xs, 0, rng.Sign()*c16Mag(rng))
		c16Judge(w, c16Case{Kind: "scale", A: sc, Xs: mon.Fs(xs), Ys: mon.Fs(ys(rng))})
	})

	r.Parallel("log", r.Pick(6000, 60000), func(w *mon.W, i int) {
		rng := w.Rng
		min, max := c16Domain(rng, i, true)
		sc := c16Scale{Log: true, Min: mon.F(min), Max: mon.F(max), Clamp: (i/8)%2 == 1, How: rng.Intn(12), Base: c16PickBase(rng)}
		xs := c16Points(rng, true, min, max, 100)
		xs = append(xs, c16NearPoints(rng, true, min, max)...)
		s := math.Copysign(1, min)
		xs = append(xs, s*c16ClipX(rng.LogUniform(1e-14, 1e14)), s*1e-14, s*1e14,
			0, math.Copysign(0, -1), -min, -max, -s*c16Mag(rng), -s*rng.Pick(1e-14, 1e14, math.MaxFloat64, math.SmallestNonzeroFloat64))
		// far from the domain (judged when within 100 widths in ln|x|): near
		// the largest finite number, near the smallest normal one, subnormal
		xs = append(xs, s*rng.LogUniform(1e-300, 1e300),
			s*rng.Pick(math.MaxFloat64, math.MaxFloat64/2, 1e308, 1e300*rng.LogUniform(1, 1e8)),
			s*rng.Pick(c16MinNormal, math.Nextafter(c16MinNormal, 1), 2*c16MinNormal, 1e-308*rng.LogUniform(3, 1e8)),
			s*rng.Pick(math.SmallestNonzeroFloat64, math.Nextafter(c16MinNormal, 0), c16Subnormal(rng), c16Subnormal(rng)))
		c16Judge(w, c16Case{Kind: "scale", A: sc, Xs: mon.Fs(xs), Ys: mon.Fs(ys(rng))})
	})

	r.Parallel("qq", r.Pick(4000, 40000), func(w *mon.W, i int) {
		rng := w.Rng
		kinds := []int{0, 1, 2, 5, 6, 7, 0, 6}
		mk := func(isLog, clamp, deg bool) c16Scale {
			min, max := c16Domain(rng, kinds[rng.Intn(len(kinds))], isLog)
			for min == max {
				min, max = c16Domain(rng, 0, isLog)
			}
			if deg {
				min, max = c16Domain(rng, 4, isLog)
			}
			return c16Scale{Log: isLog, Min: mon.F(min), Max: mon.F(max), Clamp: clamp, How: rng.Intn(12), Base: c16PickBase(rng)}
		}
		// 3 of 16 blocks of 16 cases: degenerate source, destination, both;
		// 4 more: the destination is the source object itself (3, 5) or a
		// separately built scale with the same fields (4, 6), non-degenerate
		// (3, 4) and degenerate (5, 6); Linear/Log and Clamp on/off vary
		// inside every block.
		blk := (i / 16) % 16
		alias := 0
		switch blk {
		case 3, 5:
			alias = 1
		case 4, 6:
			alias = 2
		}
		S := mk(i&1 == 1, i&4 == 4, blk == 0 || blk == 2 || blk == 5 || blk == 6)
		D := S
		if alias == 0 {
			D = mk(i&2 == 2, i&8 == 8, blk == 1 || blk == 2)
		}
		pts := func(sc c16Scale) []float64 {
			min, max := float64(sc.Min), float64(sc.Max)
			xs := c16Points(rng, sc.Log, min, max, 4)
			s := math.Copysign(1, min)
			if min == max {
				// every valid input of a degenerate scale maps to 0.5
				xs = append(xs, s*c16Mag(rng), s*c16Mag(rng), min*rng.Uniform(0.5, 2), s*rng.LogUniform(1e-300, 1e300), -s*c16Mag(rng), 0)
			} else if sc.Log {
				// zero and wrong sign: NaN goes through the composition
				xs = append(xs, 0, -rng.Pick(min, max, s*c16Mag(rng)))
			}
			return xs
		}
		xs := pts(S)
		ps := pts(D)
		c16Judge(w, c16Case{Kind: "qq", A: S, B: &D, Alias: alias, Xs: mon.Fs(xs), Ys: mon.Fs(ps)})
	})

	// history through the library's own domain mutator Nice
	r.Parallel("nice", r.Pick(1600, 16000), func(w *mon.W, i int) {
		rng := w.Rng
		isLog := i&1 == 1
		var min, max float64
		if isLog {
			min, max = c16Domain(rng, rng.PickI(0, 1, 5, 6, 7, 7), true)
		} else {
			// Nice rounds the domain out to multiples of the tick spacing: one
			// that reaches down to 0 leaves the quantifier box, so most Linear
			// domains here are narrow compared with their distance from 0
			min, max = c16Domain(rng, rng.PickI(0, 2, 2, 6), rng.Intn(4) != 0)
			if rng.Bool() {
				min = c16ClipMag(rng.Sign() * c16Mag(rng))
				max = c16ClipMag(min * (1 + rng.Sign()*rng.LogUniform(1e-6, 0.9)))
			}
		}
		sc := c16Scale{Log: isLog, Min: mon.F(min), Max: mon.F(max), Clamp: (i/2)%2 == 1, How: 12, Base: c16PickBase(rng)}
		if !isLog {
			sc.Base = 0
		}
		ts := []float64{0.5, rng.Float64(), rng.Float64(), rng.Uniform(-4, 0), rng.Uniform(1, 5), rng.Uniform(-100, 101)}
		ds := []float64{rng.LogUniform(1e-15, 1e-3), -rng.LogUniform(1e-15, 1e-3)}
		c16Judge(w, c16Case{Kind: "nice", A: sc, N: rng.Range(1, 6), Pre: rng.Intn(8), Ts: mon.Fs(ts), Ds: mon.Fs(ds),
			Ys: mon.Fs([]float64{0, 1, 0.5, rng.Float64(), rng.Uniform(-5, 5), rng.Sign() * rng.LogUniform(1e-15, 1e-3), 1 + rng.Sign()*rng.LogUniform(1e-15, 1e-3)})})
	})

	// NewLog: enumerated grid
	vals := []float64{-1e12, -5, -1, -1e-12, math.Copysign(0, -1), 0, 1e-12, 1, 2.5, 5, 1e12, -2.5}
	bases := []int{math.MinInt64, -10, -1, 0, 1, 2, 3, 10, 16, 1 << 20, math.MaxInt64}
	n := len(vals) * len(vals) * len(bases)
	r.Exhaustive(fmt.Sprintf("NewLog over %d end points squared x %d bases", len(vals), len(bases)))
	r.Parallel("newlog-grid", n, func(w *mon.W, i int) {
		c := c16Case{Kind: "newlog", Lo: mon.F(vals[i%len(vals)]), Hi: mon.F(vals[(i/len(vals))%len(vals)]), Base: bases[i/(len(vals)*len(vals))]}
		c16Judge(w, c)
	})
	r.Parallel("newlog-random", r.Pick(4000, 40000), func(w *mon.W, i int) {
		rng := w.Rng
		end := func() float64 {
			if rng.Intn(6) == 0 {
				return math.Copysign(0, rng.Sign())
			}
			return rng.Sign() * c16Mag(rng)
		}
		c := c16Case{Kind: "newlog", Lo: mon.F(end()), Hi: mon.F(end()), Base: rng.Range(-3, 12)}
		if rng.Intn(4) == 0 {
			c.Hi = mon.F(math.Copysign(c16Mag(rng), float64(c.Lo))) // same sign
			if float64(c.Lo) == 0 {
				c.Lo = mon.F(c16Mag(rng))
				c.Hi = mon.F(c16Mag(rng))
			}
		}
		c16Judge(w, c)
	})
}

func c16PickBase(rng *mon.Rand) int { return rng.PickI(2, 3, 5, 10, 16) }

// c16Subnormal draws a positive subnormal number, log-uniform in magnitude.
func c16Subnormal(rng *mon.Rand) float64 {
	bits := rng.Uint64() & (1<<52 - 1) >> uint(rng.Intn(52))
	if bits == 0 {
		bits = 1
	}
	return math.Float64frombits(bits)
}

func c16ClipX(v float64) float64 {
	if v < 1e-14 {
		return 1e-14
	}
	if v > 1e14 {
		return 1e14
	}
	return v
}
