package props

import (
	"encoding/json"
	"fmt"
	"math"
	"math/big"
	"sort"

	"github.com/aclements/go-moremath/fit"

	"verifmon/mon"
	"verifmon/ref"
)

// C15 — LinearLeastSquares, PolynomialRegression and LOESS compute the fits
// they define.
//
// Every fit is judged against the exact minimiser of the stated problem,
// computed in 384-bit arithmetic from the float64 inputs (ref.LSQ). The
// tolerances are those of a backward-stable solution of the normal equations
// (DESIGN section 4): the inner product of the weighted residual with a basis
// function may be as large as
//
//	tau_g = 16 (n+p) eps ||sqrt(W)X||_F ( ||sqrt(W)X||_F ||beta*|| + ||sqrt(W)y|| )
//
// the coefficients may be off by tau_b = sqrt(p) tau_g / sigma_min(X^T W X)
// (= cond(X^T W X) eps scale) and the sum of squares may exceed its minimum by
// p tau_g^2 / sigma_min. Designs with cond(X^T W X) > 1e10 are skipped and
// counted.
//
// All of these bounds are homogeneous in the scale of the weights and of ys,
// so the workload also multiplies weight vectors by 10^U(-30,30), ys by 2^k
// (|k| <= 330) and polynomial designs' xs by 2^k, hands LinearLeastSquares
// bases without a constant term and bases in permuted order, and repeats every
// fit with rescaled weights (same minimiser). LOESS is judged from
// ceil(span*n) = degree+2 upwards: there the farthest window point has weight
// 0 and the fit is the interpolant of the other degree+1 points (below that
// the local fit is not determined and nothing is judged).
//
// The same bounds are 0 when ys (or the ys of a LOESS window) are identically
// zero: the minimiser is exactly 0 and any method that is linear in ys returns
// exactly 0, so such data are part of the workload. LinearLeastSquares is
// also driven with 8..12 basis functions (Fourier, Chebyshev). Histories
// (c15JudgeHistory) refill the same xs/ys/weights arrays in place between
// calls: a fit may depend only on the numbers it is handed, not on what the
// same arrays held before.
//
// The classes lls-large, poly-large and loess-large run the same three
// operations, judged by the same oracles, on 41 to a few thousand points: a
// sum over the data points does not depend on how many of them there are, or
// on the pieces in which an implementation chooses to accumulate it, and with
// weights that differ from point to point (independent, piecewise constant,
// trending, the tricube weights of a wide LOESS window) every weight must go
// with its own point.

const (
	c15C       = 16.0
	c15CondMax = 1e10
	c15Eps     = 1.0 / (1 << 52)
)

type c15Case struct {
	Op     string  `json:"op"`              // "lls" | "poly" | "loess"
	Basis  string  `json:"basis,omitempty"` // lls: mono | trig | exp | mixed | x | x-x2 | sincos
	Degree int     `json:"degree"`
	Xs     []mon.F `json:"xs"`
	Ys     []mon.F `json:"ys"`
	Ws     []mon.F `json:"ws"`             // null: no weights
	Coef   []mon.F `json:"coef,omitempty"` // generating polynomial when the data are one
	Exact  bool    `json:"exact,omitempty"`
	Span   mon.F   `json:"span,omitempty"`
	Qs     []mon.F `json:"qs,omitempty"`   // LOESS queries / evaluation points of F
	Perm   []int   `json:"perm,omitempty"` // LOESS: order in which the (ascending) data are handed over
	Seed   uint64  `json:"seed"`           // randomness used inside the judge
	Domain string  `json:"domain,omitempty"`
	// lls: order in which the basis functions are handed over (a permutation
	// of the basis' own order); null: the basis' own order
	TermPerm []int `json:"term_perm,omitempty"`
	// the generator multiplied xs (and Qs) by 2^KX and ys by 2^KY
	// (informational: both are already applied to Xs, Ys, Qs, Coef)
	KX int `json:"kx,omitempty"`
	KY int `json:"ky,omitempty"`
	// Op "history": the steps (complete cases of one operation, all with the
	// same number of points) are judged one after the other, Rounds times
	// over, each time after writing the step's xs, ys and weights IN PLACE
	// into the same three arrays that the previous step handed to the library
	Steps  []c15Case `json:"steps,omitempty"`
	Rounds int       `json:"rounds,omitempty"`

	// set by c15JudgeHistory on the copy of a step it judges (not serialised)
	bufs  *c15Bufs
	outer *c15Case
	step  string
	mem   *c15Mem
}

// c15V records a refuted case; for a step of a history the whole history is
// the case (the step alone, on fresh arrays, is a different experiment).
func c15V(w *mon.W, kind, msg string, c c15Case) {
	if c.outer != nil {
		w.Violate(kind, "["+c.step+"] "+msg, *c.outer)
		return
	}
	w.Violate(kind, msg, c)
}

func init() {
	mon.Register(&mon.Prop{ID: "C15", Run: c15Run, Replay: func(w *mon.W, v *mon.ViolationRec) {
		var c c15Case
		if json.Unmarshal(v.Case, &c) == nil {
			c15Judge(w, c)
		}
	}})
}

func c15Judge(w *mon.W, c c15Case) {
	switch c.Op {
	case "lls":
		c15JudgeLLS(w, c)
	case "poly":
		c15JudgePoly(w, c)
	case "loess":
		c15JudgeLOESS(w, c)
	case "history":
		c15JudgeHistory(w, c)
	}
}

// ---------------------------------------------------------------------------
// M-guard: the argument lives in the middle of a larger backing array whose
// other cells (including the spare capacity behind the slice) hold canaries.

type c15Guard struct {
	name  string
	back  []float64
	snap  []uint64
	off   int
	n     int
	isNil bool
}

func c15NewGuard(name string, data []float64, isNil bool) *c15Guard {
	g := &c15Guard{name: name, off: 3, n: len(data), isNil: isNil}
	g.back = make([]float64, len(data)+7)
	for i := range g.back {
		g.back[i] = 9.87654321e77 + float64(i)*1e70
	}
	copy(g.back[g.off:], data)
	g.snap = make([]uint64, len(g.back))
	for i, v := range g.back {
		g.snap[i] = math.Float64bits(v)
	}
	return g
}

// Refill overwrites the guarded cells in place with new data of the same
// length (the backing array, and therefore the address of every cell the
// library is handed, stays the same) and takes a new snapshot. asNil: the
// library is handed a nil slice this time (no weights).
func (g *c15Guard) Refill(data []float64, asNil bool) {
	g.isNil = asNil
	if !asNil && len(data) == g.n {
		copy(g.back[g.off:g.off+g.n], data)
	}
	for i, v := range g.back {
		g.snap[i] = math.Float64bits(v)
	}
}

// c15Bufs are the three arrays a history reuses for every step.
type c15Bufs struct {
	n          int
	gx, gy, gw *c15Guard
	fills      int // steps that reached the library
	// the slices of basis functions of the history's steps: a step that uses
	// the basis of an earlier call hands the library the very same slice
	terms map[string]*c15Terms
	mem   *c15Mem // the results of all earlier calls of the history
}

func c15NewBufs(n int) *c15Bufs {
	z := make([]float64, n)
	return &c15Bufs{n: n, gx: c15NewGuard("xs", z, false), gy: c15NewGuard("ys", z, false), gw: c15NewGuard("weights", z, false),
		terms: map[string]*c15Terms{}, mem: &c15Mem{}}
}

// c15Guards returns the guarded arguments of a case: fresh arrays, or for a
// step of a history the history's arrays refilled in place.
func c15Guards(c c15Case, xs, ys, ws []float64) (gx, gy, gw *c15Guard) {
	if b := c.bufs; b != nil && b.n == len(xs) && len(ys) == b.n && (ws == nil || len(ws) == b.n) {
		b.gx.Refill(xs, false)
		b.gy.Refill(ys, false)
		b.gw.Refill(ws, ws == nil)
		b.fills++
		return b.gx, b.gy, b.gw
	}
	return c15NewGuard("xs", xs, false), c15NewGuard("ys", ys, false), c15NewGuard("weights", ws, ws == nil)
}

// Slice is what is handed to the library: len n, capacity n+4.
func (g *c15Guard) Slice() []float64 {
	if g.isNil {
		return nil
	}
	return g.back[g.off : g.off+g.n]
}

// Changed reports the first cell whose bit pattern changed.
func (g *c15Guard) Changed() (bool, string) {
	for i, v := range g.back {
		if math.Float64bits(v) != g.snap[i] {
			where := fmt.Sprintf("%s[%d]", g.name, i-g.off)
			if i < g.off || i >= g.off+g.n {
				where += " (outside the slice: neighbouring memory / spare capacity)"
			}
			return true, fmt.Sprintf("%s changed from %g to %g", where, math.Float64frombits(g.snap[i]), v)
		}
	}
	return false, ""
}

func c15CheckGuards(w *mon.W, c c15Case, after string, gs ...*c15Guard) bool {
	ok := true
	for _, g := range gs {
		if ch, msg := g.Changed(); ch {
			c15V(w, "input-modified", fmt.Sprintf("%s modified its input: %s", after, msg), c)
			ok = false
		}
	}
	return ok
}

// ---------------------------------------------------------------------------
// Returned slices belong to the caller: every result is checked for memory
// shared with the results of earlier calls that the caller still holds, and
// is then overwritten (including its spare capacity, which an append would
// use) before the next call, as a caller does who post-processes its
// coefficients in place. Later fits must not notice.

type c15Mem struct {
	held      []c15HeldResult
	scribbled bool
}

type c15HeldResult struct {
	who string
	s   []float64
}

func c15Overlap(a, b []float64) bool {
	a, b = a[:cap(a)], b[:cap(b)]
	if len(a) == 0 || len(b) == 0 {
		return false
	}
	for i := range a {
		if &a[i] == &b[0] {
			return true
		}
	}
	for j := range b {
		if &b[j] == &a[0] {
			return true
		}
	}
	return false
}

// take registers a result and returns a private copy of it (what the oracles
// judge). Every held result is kept alive, so equal addresses mean shared
// memory and not a reused allocation. ok is false when the result shares
// memory with an earlier one. zero: the data of this fit are identically zero.
func (m *c15Mem) take(w *mon.W, c c15Case, who string, s []float64, zero bool) (cp []float64, ok bool) {
	cp = append([]float64(nil), s...)
	ok = true
	if len(m.held) > 0 {
		w.Hit("result-checked-for-memory-shared-with-earlier-result")
	}
	w.HitIf(m.scribbled, "fit-after-earlier-result-overwritten")
	w.HitIf(m.scribbled && zero, "zero-ys-fit-after-earlier-result-overwritten")
	for _, h := range m.held {
		if c15Overlap(h.s, s) {
			c15V(w, "result-shares-memory", fmt.Sprintf("the slice returned by %s shares its backing array with the slice returned by an earlier call (%s), which the caller still holds and may have modified; it now reads %v (%s)", who, h.who, s, c15Brief(c)), c)
			ok = false
			break
		}
	}
	if len(m.held) >= 64 {
		m.held = m.held[1:]
	}
	m.held = append(m.held, c15HeldResult{who, s})
	return cp, ok
}

// scribble overwrites every held result and its spare capacity.
func (m *c15Mem) scribble() {
	for _, h := range m.held {
		s := h.s[:cap(h.s)]
		for i := range s {
			s[i] = -7.25e33 - float64(i)*1e30
		}
		m.scribbled = m.scribbled || len(s) > 0
	}
}

func c15MemOf(c c15Case) *c15Mem {
	if c.bufs != nil && c.bufs.mem != nil {
		return c.bufs.mem
	}
	return &c15Mem{}
}

// ---------------------------------------------------------------------------
// M-step: counting basis functions.

type c15Sentinel struct{ msg string }

type c15Terms struct {
	names    []string
	fns      []func(x float64) float64
	calls    []int
	budget   int
	lenBad   bool
	lenMsg   string
	constIdx int // position of the constant function 1, -1 when the basis has none
	// style decides which of the term functions are written the way an
	// ordinary caller writes them (see lib)
	style uint64
	fs    []func(xs, out []float64) // the slice handed to the library (built once by lib)
}

// permute reorders the basis: new term k is old term perm[k]. It reports
// whether perm was a permutation of the right length.
func (t *c15Terms) permute(perm []int) bool {
	p := len(t.fns)
	if len(perm) != p {
		return false
	}
	seen := make([]bool, p)
	for _, k := range perm {
		if k < 0 || k >= p || seen[k] {
			return false
		}
		seen[k] = true
	}
	names := make([]string, p)
	fns := make([]func(float64) float64, p)
	ci := -1
	for k, o := range perm {
		names[k], fns[k] = t.names[o], t.fns[o]
		if o == t.constIdx {
			ci = k
		}
	}
	t.names, t.fns, t.constIdx = names, fns, ci
	return true
}

func c15Basis(name string, degree int) *c15Terms {
	t := &c15Terms{constIdx: -1}
	add := func(n string, f func(float64) float64) {
		t.names = append(t.names, n)
		t.fns = append(t.fns, f)
	}
	mono := func(d int) func(float64) float64 {
		return func(x float64) float64 {
			p := 1.0
			for k := 0; k < d; k++ {
				p *= x
			}
			return p
		}
	}
	switch name {
	case "mono":
		for d := 0; d <= degree; d++ {
			add(fmt.Sprintf("x^%d", d), mono(d))
		}
	case "trig":
		add("1", mono(0))
		add("sin", math.Sin)
		add("cos", math.Cos)
	case "exp":
		add("1", mono(0))
		add("x", mono(1))
		add("exp", math.Exp)
	case "mixed":
		add("1", mono(0))
		add("x", mono(1))
		add("sin2x", func(x float64) float64 { return math.Sin(2 * x) })
		add("1/(1+x^2)", func(x float64) float64 { return 1 / (1 + x*x) })
		add("tanh", math.Tanh)
	// bases without the constant function: regression through the origin
	case "x":
		add("x", mono(1))
	case "x-x2":
		add("x", mono(1))
		add("x^2", mono(2))
	case "sincos":
		add("sin", math.Sin)
		add("cos", math.Cos)
	// wide bases: the first `degree` functions (8..12) of
	case "fourier": // 1, sin(k pi x/2), cos(k pi x/2), k = 1, 2, ...: period 4, the width of [-2,2]
		if degree < 1 || degree > 16 {
			break
		}
		add("1", mono(0))
		for k := 1; len(t.fns) < degree; k++ {
			om := float64(k) * math.Pi / 2
			add(fmt.Sprintf("sin(%d pi x/2)", k), func(x float64) float64 { return math.Sin(om * x) })
			if len(t.fns) < degree {
				add(fmt.Sprintf("cos(%d pi x/2)", k), func(x float64) float64 { return math.Cos(om * x) })
			}
		}
	case "cheb": // Chebyshev polynomials T_k(x/2), k = 0, 1, ...: [-2,2] mapped onto [-1,1]
		if degree < 1 || degree > 16 {
			break
		}
		for k := 0; k < degree; k++ {
			k := k
			add(fmt.Sprintf("T%d(x/2)", k), func(x float64) float64 {
				u := x / 2
				a, b := 1.0, u
				if k == 0 {
					return a
				}
				for j := 2; j <= k; j++ {
					a, b = b, 2*u*b-a
				}
				return b
			})
		}
	}
	if len(t.fns) > 0 && (name == "mono" || name == "trig" || name == "exp" || name == "mixed" || name == "fourier" || name == "cheb") {
		t.constIdx = 0
	}
	t.calls = make([]int, len(t.fns))
	return t
}

// values evaluates the basis on xs (the exact float64 numbers the library is
// handed by the term functions).
func (t *c15Terms) values(xs []float64) [][]float64 {
	out := make([][]float64, len(t.fns))
	for j, f := range t.fns {
		out[j] = make([]float64, len(xs))
		for i, x := range xs {
			out[j][i] = f(x)
		}
	}
	return out
}

// lib returns the vectorised term functions for the library. Each counts its
// invocations and panics with the sentinel once the budget is exceeded.
//
// The documentation of LinearLeastSquares says that a term "will be passed a
// slice of x values in xs and must fill the slice termOut with the value of
// the term for each value in xs": one cell of termOut per x, so the two have
// the same length (a term may be called on parts of xs, as long as termOut is
// the matching part). Half of the terms are written the way the library's own
// constant term is, "for i := range termOut { termOut[i] = phi(xs[i]) }" (a
// longer termOut makes them panic like any caller's term would), the others
// range over xs; every mismatch of the lengths is recorded.
//
// The slice is built once per c15Terms: consecutive calls of a case (and of a
// history) hand the library the SAME slice, as a caller does who fits several
// data sets with one basis (basis...). begin must precede every library call.
func (t *c15Terms) lib() []func(xs, out []float64) {
	if t.fs != nil {
		return t.fs
	}
	fs := make([]func(xs, out []float64), len(t.fns))
	for j := range t.fns {
		j := j
		f := t.fns[j]
		enter := func(xs, out []float64) {
			t.calls[j]++
			if t.calls[j] > t.budget {
				panic(c15Sentinel{fmt.Sprintf("basis function %s called more than %d times", t.names[j], t.budget)})
			}
			if len(xs) != len(out) && !t.lenBad {
				t.lenBad = true
				t.lenMsg = fmt.Sprintf("basis function %s was called with len(xs)=%d and len(termOut)=%d", t.names[j], len(xs), len(out))
			}
		}
		if (uint64(j)+t.style)%2 == 0 {
			fs[j] = func(xs, termOut []float64) {
				enter(xs, termOut)
				for i := range termOut {
					termOut[i] = f(xs[i])
				}
			}
		} else {
			fs[j] = func(xs, termOut []float64) {
				enter(xs, termOut)
				for i, x := range xs {
					termOut[i] = f(x)
				}
			}
		}
	}
	t.fs = fs
	return fs
}

// begin resets the counters before a library call on n points.
func (t *c15Terms) begin(n int) {
	// a direct implementation calls every term once; one that works in
	// chunks, or re-evaluates a term for every other term, could call it
	// n*p times; anything beyond 1000+16np is a loop that does not make
	// progress (a non-terminating one exceeds any such bound at once)
	t.budget = 1000 + 16*n*len(t.fns)
	for j := range t.calls {
		t.calls[j] = 0
	}
}

// probe checks that the slice handed to the library still holds the caller's
// functions: element j, called on xs, must invoke term j exactly once and no
// other term, and must produce phi_j(xs[i]) bit for bit. It returns a
// description of the first difference.
func (t *c15Terms) probe(xs []float64) string {
	if t.fs == nil {
		return ""
	}
	if len(t.fs) != len(t.fns) {
		return fmt.Sprintf("the slice of basis functions has %d elements, %d were handed over", len(t.fs), len(t.fns))
	}
	lenBad, lenMsg := t.lenBad, t.lenMsg
	defer func() { t.lenBad, t.lenMsg = lenBad, lenMsg }()
	for j, f := range t.fs {
		if f == nil {
			return fmt.Sprintf("element %d (%s) of the slice of basis functions is nil after the call", j, t.names[j])
		}
		t.begin(len(xs))
		out := make([]float64, len(xs))
		for i := range out {
			out[i] = math.NaN()
		}
		if p, e := mon.Call(func() { f(xs, out) }); p {
			return fmt.Sprintf("element %d (%s) of the slice of basis functions panics when the caller evaluates it after the call: %v", j, t.names[j], e)
		}
		for k, n := range t.calls {
			want := 0
			if k == j {
				want = 1
			}
			if n != want {
				return fmt.Sprintf("element %d of the slice of basis functions is no longer the function that was handed over: evaluating it called basis function %s %d times (expected %d)", j, t.names[k], n, want)
			}
		}
		for i, x := range xs {
			if want := t.fns[j](x); math.Float64bits(out[i]) != math.Float64bits(want) {
				return fmt.Sprintf("element %d of the slice of basis functions is no longer the function that was handed over: at x=%.17g it gives %.17g, %s(x)=%.17g", j, x, out[i], t.names[j], want)
			}
		}
	}
	return ""
}

// ---------------------------------------------------------------------------
// helpers

func c15Finite(xs []float64) bool {
	for _, x := range xs {
		if math.IsNaN(x) || math.IsInf(x, 0) {
			return false
		}
	}
	return true
}

func c15Norm2(xs []float64) float64 {
	s := 0.0
	for _, x := range xs {
		s = math.Hypot(s, x)
	}
	return s
}

func c15Brief(c c15Case) string {
	ws := "none"
	if c.Ws != nil {
		ws = fmt.Sprintf("%d weights", len(c.Ws))
	}
	s := fmt.Sprintf("n=%d degree=%d weights=%s", len(c.Xs), c.Degree, ws)
	if c.Basis != "" {
		s += " basis=" + c.Basis
		if c.TermPerm != nil {
			s += fmt.Sprintf(" term-order=%v", c.TermPerm)
		}
	}
	if c.KX != 0 || c.KY != 0 {
		s += fmt.Sprintf(" (xs scaled by 2^%d, ys by 2^%d)", c.KX, c.KY)
	}
	if c.Domain != "" {
		s += " domain=" + c.Domain
	}
	if len(c.Xs) <= 8 {
		s += fmt.Sprintf(" xs=%v ys=%v", mon.Un(c.Xs), mon.Un(c.Ys))
		if c.Ws != nil {
			s += fmt.Sprintf(" ws=%v", mon.Un(c.Ws))
		}
	}
	return s
}

func c15Ws(c c15Case) []float64 {
	if c.Ws == nil {
		return nil
	}
	return mon.Un(c.Ws)
}

// c15Rescale multiplies xs and the queries by 2^kx and ys by 2^ky, and the
// generating polynomial's coefficient j by 2^(ky-j*kx), so that it still
// generates the data. All of this is exact (powers of two, far from the ends
// of the float64 range), so exact polynomial data stay exact.
func c15Rescale(c *c15Case, kx, ky int) {
	for i := range c.Xs {
		c.Xs[i] = mon.F(math.Ldexp(float64(c.Xs[i]), kx))
	}
	for i := range c.Qs {
		c.Qs[i] = mon.F(math.Ldexp(float64(c.Qs[i]), kx))
	}
	for i := range c.Ys {
		c.Ys[i] = mon.F(math.Ldexp(float64(c.Ys[i]), ky))
	}
	for j := range c.Coef {
		c.Coef[j] = mon.F(math.Ldexp(float64(c.Coef[j]), ky-j*kx))
	}
	c.KX, c.KY = c.KX+kx, c.KY+ky
}

// c15ScaleClasses records, from the inputs alone, how far the overall scale of
// the weights and of ys is from 1.
func c15ScaleClasses(w *mon.W, c c15Case, ys, ws []float64) {
	if ws != nil {
		lo, hi := math.Inf(1), 0.0
		for _, v := range ws {
			lo, hi = math.Min(lo, v), math.Max(hi, v)
		}
		w.HitIf(hi < 1e-6, "weights-all-tiny(<1e-6)")
		w.HitIf(lo > 1e6, "weights-all-huge(>1e6)")
	}
	ym := 0.0
	for _, v := range ys {
		ym = math.Max(ym, math.Abs(v))
	}
	w.HitIf(ym > 0 && ym < 1e-30, "ys-all-tiny(<1e-30)")
	w.HitIf(ym > 1e30, "ys-huge(>1e30)")
	w.HitIf(c.KX != 0, "xs-rescaled")
}

// c15ScaledWeights returns c*ws (ws == nil: the constant weight c), or nil
// when a product leaves the positive normal range.
func c15AllZero(ys []float64) bool {
	for _, y := range ys {
		if y != 0 {
			return false
		}
	}
	return true
}

func c15ScaledWeights(ws []float64, n int, c float64) []float64 {
	out := make([]float64, n)
	for i := range out {
		v := c
		if ws != nil {
			v = c * ws[i]
		}
		if !(v > 1e-250 && v < 1e250) {
			return nil
		}
		out[i] = v
	}
	return out
}

// c15WeightScaleLaw: S computed with the weights c*w is c times S computed with
// w, so both have the same minimiser (no weights means every weight is 1).
// Each fit is within tau_b of the exact minimiser of its own problem and the
// rounding of c*w[i] is a relative eps perturbation of the weights, which the
// backward-error model behind tau_b covers: the two fits differ by at most
// 3 tau_b. fitWith performs the library call with the given weights.
func c15WeightScaleLaw(w *mon.W, c c15Case, m *ref.LSQ, who string, first []float64, fitWith func(ws *c15Guard) ([]float64, bool)) {
	rng := mon.NewRand(c.Seed, 0x5ca1e)
	f := math.Pow(10, rng.Uniform(-30, 30))
	ws2 := c15ScaledWeights(c15Ws(c), len(c.Xs), f)
	if ws2 == nil {
		return
	}
	gw := c15NewGuard("weights", ws2, false)
	second, ok := fitWith(gw)
	if !ok {
		return
	}
	c15CheckGuards(w, c, who, gw)
	w.Hit("weight-scale-law-checked")
	what := fmt.Sprintf("every weight multiplied by %.6g", f)
	if c.Ws == nil {
		what = fmt.Sprintf("no weights replaced by the constant weight %.6g", f)
	}
	if len(second) != len(first) || !c15Finite(second) {
		c15V(w, who+"-weight-scale", fmt.Sprintf("%s returned %v with %s; %v before (%s)", who, second, what, first, c15Brief(c)), c)
		return
	}
	dist := 0.0
	for j := range first {
		dist = math.Hypot(dist, second[j]-first[j])
	}
	tb := m.TolBeta(c15C, false)
	if !w.Err(who+"-weight-scale", dist, 3*tb) {
		c15V(w, who+"-weight-scale", fmt.Sprintf("%s: the fit depends on the overall scale of the weights: %v, but %v with %s (distance %.6g, tolerance %.3g, cond=%.3g; %s)", who, first, second, what, dist, 3*tb, m.Cond, c15Brief(c)), c)
	}
}

// c15SizeClasses records, from the inputs alone, in which band of sizes a
// design of more than 40 points lies and whether its weights differ from one
// another (only then does it matter which weight goes with which point).
func c15SizeClasses(w *mon.W, op string, xs, ws []float64) {
	n := len(xs)
	if n <= 40 {
		return
	}
	w.Hit("large-n(>40)")
	w.Hit("large-n-" + op)
	nonuni := false
	for _, v := range ws {
		nonuni = nonuni || v != ws[0]
	}
	w.HitIf(ws == nil, "large-n-unweighted")
	w.HitIf(ws != nil && !nonuni, "large-n-weights-constant")
	w.HitIf(nonuni, "large-n-weights-nonuniform")
	w.HitIf(sort.Float64sAreSorted(xs), "large-n-xs-ascending")
	for _, t := range []int{64, 128, 256, 512, 1024, 2048, 4096} {
		w.HitIf(n > t, fmt.Sprintf("n>%d", t))
		w.HitIf(nonuni && n > t, fmt.Sprintf("weights-nonuniform-n>%d", t))
	}
}

// c15WellPosed decides, from the reference side only, whether the design is
// inside the property's quantifier.
func c15WellPosed(w *mon.W, m *ref.LSQ) bool {
	if m.Beta == nil || !(m.Cond <= c15CondMax) {
		w.Note("ill-posed-skipped(cond>1e10)")
		return false
	}
	w.HitIf(m.Cond > 1e6, "cond>1e6")
	return true
}

// c15JudgeParams applies the three oracles of the minimisation statement to a
// parameter vector returned by the library: orthogonality of the weighted
// residual, distance from the exact minimiser, and "no perturbation lowers
// the sum" by direct evaluation of S in 384 bits.
func c15JudgeParams(w *mon.W, c c15Case, m *ref.LSQ, params []float64, who string) bool {
	if len(params) != m.P {
		c15V(w, who+"-length", fmt.Sprintf("%s returned %d parameters for %d basis functions (%s)", who, len(params), m.P, c15Brief(c)), c)
		return false
	}
	if !c15Finite(params) {
		c15V(w, who+"-nonfinite", fmt.Sprintf("%s returned %v on a well-conditioned design (cond=%.3g; %s)", who, params, m.Cond, c15Brief(c)), c)
		return false
	}
	ok := true
	beta := ref.BigVec(params)
	tg := m.TolGrad(c15C, false)
	tb := m.TolBeta(c15C, false)
	want := make([]float64, m.P)
	for j := range want {
		want[j] = ref.F64(m.Beta[j])
	}

	// 1. orthogonality
	g := m.Grad(beta)
	worst, wj := 0.0, 0
	for j := range g {
		if a := math.Abs(ref.F64(g[j])); a > worst {
			worst, wj = a, j
		}
	}
	if !w.Err(who+"-orthogonality", worst, tg) {
		c15V(w, who+"-orthogonality", fmt.Sprintf("%s: weighted residual is not orthogonal to basis function %d: sum w r phi = %.6g, tolerance %.3g (cond=%.3g); returned %v, minimiser %v (%s)", who, wj, worst, tg, m.Cond, params, want, c15Brief(c)), c)
		ok = false
	}

	// 2. distance from the exact minimiser
	d2 := 0.0
	for j := range params {
		d2 = math.Hypot(d2, ref.F64(ref.Sub(beta[j], m.Beta[j])))
	}
	if !w.Err(who+"-coefficients", d2, tb) {
		c15V(w, who+"-coefficients", fmt.Sprintf("%s returned %v, the least-squares minimiser is %v (distance %.6g, tolerance %.3g, cond=%.3g; %s)", who, params, want, d2, tb, m.Cond, c15Brief(c)), c)
		ok = false
	}

	// 3. no perturbation of the coefficients lowers the sum (beyond what tau_g allows)
	s0 := m.SumSq(beta)
	ts := float64(m.P) * tg * (tg / m.SigmaMin) // in this order: tg*tg may underflow for tiny ys
	rng := mon.NewRand(c.Seed, 0x15)
	scale := 0.0
	for _, p := range params {
		scale = math.Max(scale, math.Abs(p))
	}
	if scale == 0 {
		scale = 1
	}
	try := func(b []*big.Float, what string) {
		s := m.SumSq(b)
		drop := ref.F64(ref.Sub(s0, s))
		if drop < 0 {
			drop = 0
		}
		if !w.Err(who+"-perturbation", drop, ts) && ok {
			c15V(w, who+"-perturbation", fmt.Sprintf("%s: perturbation %s lowers the sum of squared residuals from %.17g by %.6g (tolerance %.3g); returned %v, minimiser %v (%s)", who, what, ref.F64(s0), drop, ts, params, want, c15Brief(c)), c)
			ok = false
		}
	}
	for j := range params {
		for _, s := range []float64{1e-1, 1e-4, 1e-8, 1e-12} {
			dlt := s * math.Max(math.Abs(params[j]), 1e-3*scale)
			for _, sg := range []float64{1, -1} {
				b := append([]*big.Float(nil), beta...)
				b[j] = ref.Add(beta[j], ref.NF(sg*dlt))
				try(b, fmt.Sprintf("beta[%d]%+.3g", j, sg*dlt))
			}
		}
	}
	for k := 0; k < 4; k++ {
		s := []float64{1e-2, 1e-5, 1e-9, 1e-13}[k]
		b := make([]*big.Float, len(beta))
		for j := range b {
			b[j] = ref.Add(beta[j], ref.NF(s*scale*rng.Norm()))
		}
		try(b, fmt.Sprintf("in a random direction of size %.0e", s*scale))
	}
	try(m.Beta, "to the exact minimiser")
	return ok
}

// ---------------------------------------------------------------------------
// LinearLeastSquares

func c15JudgeLLS(w *mon.W, c c15Case) {
	xs, ys, ws := mon.Un(c.Xs), mon.Un(c.Ys), c15Ws(c)
	t := c15Basis(c.Basis, c.Degree)
	if len(t.fns) == 0 || len(xs) != len(ys) || (ws != nil && len(ws) != len(xs)) {
		return
	}
	if c.TermPerm != nil && !t.permute(c.TermPerm) {
		return
	}
	t.style = c.Seed >> 7
	phi := t.values(xs)
	m := ref.NewLSQ(ref.BigRows(phi), ys, ws)
	if !c15WellPosed(w, m) {
		return
	}
	w.HitIf(ws != nil, "weights-present")
	w.HitIf(ws == nil, "weights-nil")
	w.Hit("lls-basis-" + c.Basis)
	w.HitIf(c.Basis == "mono" && c.Degree >= 3, "lls-monomial-degree>=3")
	w.HitIf(len(xs) == m.P, "n==p(interpolation)")
	w.HitIf(t.constIdx < 0, "lls-no-constant-term")
	w.HitIf(t.constIdx > 0, "lls-constant-not-first")
	w.HitIf(t.constIdx > 0 && t.constIdx == m.P-1, "lls-constant-last")
	w.HitIf(c.TermPerm != nil, "lls-terms-permuted")
	w.HitIf(m.P >= 8, "p>=8")
	w.HitIf(c15AllZero(ys), "lls-ys-all-zero")
	c15ScaleClasses(w, c, ys, ws)
	c15SizeClasses(w, "lls", xs, ws)

	// the slice of basis functions: one per case, or, in a history, the one an
	// earlier call with the same basis handed over
	if b := c.bufs; b != nil {
		key := fmt.Sprintf("%s/%d/%v", c.Basis, c.Degree, c.TermPerm)
		if old := b.terms[key]; old != nil {
			t = old
			w.Hit("history-terms-slice-reused")
			w.HitIf(ws != nil, "history-terms-slice-reused-weighted")
		} else {
			b.terms[key] = t
		}
	}
	natural := false
	for j := range t.fns {
		natural = natural || (uint64(j)+t.style)%2 == 0
	}
	w.HitIf(natural, "lls-term-ranges-over-termOut")
	w.HitIf(natural && len(xs)%4 != 0, "lls-term-ranges-over-termOut(n%4!=0)")
	fs := t.lib()
	mem := c15MemOf(c)
	zero := c15AllZero(ys)

	gx, gy, gw := c15Guards(c, xs, ys, ws)
	// one library call with the case's slice of basis functions
	fitOnce := func(gw *c15Guard, how string) (out []float64, ok bool) {
		t.begin(len(xs))
		t.lenBad, t.lenMsg = false, ""
		w.Eval("LinearLeastSquares")
		if p, e := mon.Call(func() { out = fit.LinearLeastSquares(gx.Slice(), gy.Slice(), gw.Slice(), fs...) }); p {
			if s, isS := e.(c15Sentinel); isS {
				c15V(w, "step-budget", fmt.Sprintf("LinearLeastSquares%s: %s (%s)", how, s.msg, c15Brief(c)), c)
			} else if t.lenBad {
				c15V(w, "term-length", fmt.Sprintf("LinearLeastSquares%s: %s; the term, written as \"for i := range termOut { termOut[i] = phi(xs[i]) }\", panicked: %v (%s)", how, t.lenMsg, e, c15Brief(c)), c)
			} else {
				c15V(w, "panic", fmt.Sprintf("LinearLeastSquares%s panicked: %v (%s)", how, e, c15Brief(c)), c)
			}
			return nil, false
		}
		if t.lenBad {
			c15V(w, "term-length", fmt.Sprintf("LinearLeastSquares%s: %s: a term must be handed one cell of termOut for each value in xs (%s)", how, t.lenMsg, c15Brief(c)), c)
			return nil, false
		}
		return out, true
	}
	// the slice of basis functions is the caller's: it must come back holding
	// the functions that were handed over
	probeTerms := func(how string) bool {
		w.Hit("lls-terms-slice-probed-after-call")
		if msg := t.probe(xs); msg != "" {
			c15V(w, "terms-modified", fmt.Sprintf("LinearLeastSquares%s modified the caller's slice of basis functions: %s (%s)", how, msg, c15Brief(c)), c)
			return false
		}
		return true
	}
	ret, ok := fitOnce(gw, "")
	if !ok {
		return
	}
	c15CheckGuards(w, c, "LinearLeastSquares", gx, gy, gw)
	for _, n := range t.calls {
		if n == 0 {
			w.Note("basis-function-never-called")
		}
	}
	calls := append([]int(nil), t.calls...)
	params, fresh := mem.take(w, c, "LinearLeastSquares", ret, zero)
	mem.scribble()
	if !fresh {
		return
	}
	if c15JudgeParams(w, c, m, params, "LinearLeastSquares") {
		c15WeightScaleLaw(w, c, m, "LinearLeastSquares", params, func(gw2 *c15Guard) ([]float64, bool) {
			w.Hit("lls-terms-slice-reused")
			ret2, ok := fitOnce(gw2, " (second call with the same slice of basis functions, weights rescaled)")
			if !ok {
				return nil, false
			}
			out, fresh := mem.take(w, c, "LinearLeastSquares (weights rescaled)", ret2, zero)
			mem.scribble()
			return out, fresh
		})
		c15CheckGuards(w, c, "LinearLeastSquares", gx, gy)
	}
	probeTerms("")
	if w.WantSample() {
		w.Sample(map[string]any{"op": "LinearLeastSquares", "basis": c.Basis, "terms": t.names, "n": len(xs), "p": m.P, "weights": ws != nil, "cond": m.Cond, "params": params, "term_calls": calls})
	}
}

// ---------------------------------------------------------------------------
// PolynomialRegression

func c15JudgePoly(w *mon.W, c c15Case) {
	xs, ys, ws := mon.Un(c.Xs), mon.Un(c.Ys), c15Ws(c)
	d := c.Degree
	if d < 0 || len(xs) != len(ys) || (ws != nil && len(ws) != len(xs)) {
		return
	}
	m := ref.NewLSQ(ref.MonomialsBig(xs, d), ys, ws)
	if !c15WellPosed(w, m) {
		return
	}
	w.HitIf(d >= 3, "degree>=3")
	w.Hit(fmt.Sprintf("poly-degree-%d", d))
	w.HitIf(ws != nil, "weights-present")
	w.HitIf(ws == nil, "weights-nil")
	w.HitIf(c.Coef != nil && c.Exact, "exact-polynomial-data")
	w.HitIf(c.Coef != nil && !c.Exact, "rounded-polynomial-data")
	w.HitIf(c.Coef == nil, "non-polynomial-data")
	w.HitIf(c.Domain != "", "shifted-domain")
	w.HitIf(c15AllZero(ys), "poly-ys-all-zero")
	c15ScaleClasses(w, c, ys, ws)
	c15SizeClasses(w, "poly", xs, ws)

	gx, gy, gw := c15Guards(c, xs, ys, ws)
	var res fit.PolynomialRegressionResult
	w.Eval("PolynomialRegression")
	if p, e := mon.Call(func() { res = fit.PolynomialRegression(gx.Slice(), gy.Slice(), gw.Slice(), d) }); p {
		c15V(w, "panic", fmt.Sprintf("PolynomialRegression panicked: %v (%s)", e, c15Brief(c)), c)
		return
	}
	c15CheckGuards(w, c, "PolynomialRegression", gx, gy, gw)
	mem := c15MemOf(c)
	zero := c15AllZero(ys)
	// (F reads Coefficients: they are overwritten once F has been judged)
	coef, fresh := mem.take(w, c, "PolynomialRegression (Coefficients)", res.Coefficients, zero)
	if !fresh || !c15JudgeParams(w, c, m, coef, "PolynomialRegression") {
		mem.scribble()
		return
	}
	defer mem.scribble()
	if res.F == nil {
		c15V(w, "F-nil", "PolynomialRegression returned a nil F ("+c15Brief(c)+")", c)
		return
	}
	tb := m.TolBeta(c15C, false)

	// F evaluates the polynomial with the returned coefficients
	evalF := func(x float64) (float64, bool) {
		var y float64
		w.Eval("PolynomialRegressionResult.F")
		if p, e := mon.Call(func() { y = res.F(x) }); p {
			c15V(w, "panic", fmt.Sprintf("PolynomialRegressionResult.F(%g) panicked: %v (%s)", x, e, c15Brief(c)), c)
			return 0, false
		}
		return y, true
	}
	pts := append(mon.Un(c.Qs), xs...)
	for _, x := range pts {
		got, ok := evalF(x)
		if !ok {
			return
		}
		val, abs := ref.PolyEval(coef, x)
		tol := c15C*float64(d+1)*c15Eps*ref.F64(abs) + 4*math.SmallestNonzeroFloat64
		if !w.Err("F-vs-coefficients", math.Abs(got-ref.F64(val)), tol) {
			c15V(w, "F-vs-coefficients", fmt.Sprintf("F(%.17g)=%.17g but sum Coefficients[i]*x^i = %.17g (tolerance %.3g) with Coefficients=%v", x, got, ref.F64(val), tol, coef), c)
			return
		}
	}
	for i := range coef {
		if math.Float64bits(coef[i]) != math.Float64bits(res.Coefficients[i]) {
			c15V(w, "F-changes-coefficients", fmt.Sprintf("evaluating F changed Coefficients[%d] from %g to %g", i, coef[i], res.Coefficients[i]), c)
			return
		}
	}

	// data generated by a polynomial of degree <= d are reproduced
	if c.Coef != nil && len(c.Coef) <= d+1 {
		gen := make([]float64, d+1)
		copy(gen, mon.Un(c.Coef))
		slack := 2.0
		if c.Exact {
			slack = 1
		}
		dist := 0.0
		for j := range gen {
			dist = math.Hypot(dist, coef[j]-gen[j])
		}
		if !w.Err("poly-recovers-coefficients", dist, slack*tb) {
			c15V(w, "poly-recovers-coefficients", fmt.Sprintf("data generated by the polynomial %v: PolynomialRegression of degree %d returned %v (distance %.6g, tolerance %.3g, cond=%.3g; %s)", gen, d, coef, dist, slack*tb, m.Cond, c15Brief(c)), c)
			return
		}
		for i, x := range xs {
			got, ok := evalF(x)
			if !ok {
				return
			}
			vn, ab, p := 0.0, 0.0, 1.0
			for j := 0; j <= d; j++ {
				vn = math.Hypot(vn, p)
				ab += math.Abs(coef[j]) * p
				p *= math.Abs(x)
			}
			tol := slack*tb*vn + c15C*float64(d+1)*c15Eps*ab + 2*c15Eps*math.Abs(ys[i])
			if !w.Err("poly-reproduces-data", math.Abs(got-ys[i]), tol) {
				c15V(w, "poly-reproduces-data", fmt.Sprintf("data generated by the polynomial %v: F(xs[%d]=%.17g)=%.17g, ys[%d]=%.17g (tolerance %.3g; %s)", gen, i, x, got, i, ys[i], tol, c15Brief(c)), c)
				return
			}
		}
	}

	// agreement with LinearLeastSquares on the monomial basis (the caller has
	// meanwhile post-processed its Coefficients in place)
	mem.scribble()
	t := c15Basis("mono", d)
	t.style = c.Seed >> 7
	if b := c.bufs; b != nil {
		key := fmt.Sprintf("mono/%d/[]", d)
		if old := b.terms[key]; old != nil {
			t = old
			w.Hit("history-terms-slice-reused")
			w.HitIf(ws != nil, "history-terms-slice-reused-weighted")
		} else {
			b.terms[key] = t
		}
	}
	fs := t.lib()
	t.begin(len(xs))
	t.lenBad, t.lenMsg = false, ""
	var ret []float64
	w.Eval("LinearLeastSquares(monomials)")
	if p, e := mon.Call(func() { ret = fit.LinearLeastSquares(gx.Slice(), gy.Slice(), gw.Slice(), fs...) }); p {
		if s, isS := e.(c15Sentinel); isS {
			c15V(w, "step-budget", fmt.Sprintf("LinearLeastSquares: %s (%s)", s.msg, c15Brief(c)), c)
		} else if t.lenBad {
			c15V(w, "term-length", fmt.Sprintf("LinearLeastSquares on monomials: %s; the term, written as \"for i := range termOut { termOut[i] = phi(xs[i]) }\", panicked: %v (%s)", t.lenMsg, e, c15Brief(c)), c)
		} else {
			c15V(w, "panic", fmt.Sprintf("LinearLeastSquares on monomials panicked: %v (%s)", e, c15Brief(c)), c)
		}
		return
	}
	if t.lenBad {
		c15V(w, "term-length", fmt.Sprintf("LinearLeastSquares on monomials: %s: a term must be handed one cell of termOut for each value in xs (%s)", t.lenMsg, c15Brief(c)), c)
		return
	}
	c15CheckGuards(w, c, "LinearLeastSquares", gx, gy, gw)
	if msg := t.probe(xs); msg != "" {
		c15V(w, "terms-modified", fmt.Sprintf("LinearLeastSquares on monomials modified the caller's slice of basis functions: %s (%s)", msg, c15Brief(c)), c)
		return
	}
	params, fresh := mem.take(w, c, "LinearLeastSquares on monomials", ret, zero)
	mem.scribble()
	if !fresh {
		return
	}
	if len(params) != d+1 || !c15Finite(params) {
		c15V(w, "poly-vs-lls", fmt.Sprintf("LinearLeastSquares on {1,x,..,x^%d} returned %v (%s)", d, params, c15Brief(c)), c)
		return
	}
	dist := 0.0
	for j := range params {
		dist = math.Hypot(dist, params[j]-coef[j])
	}
	// both are within tau_b of the minimiser of (nearly) the same problem;
	// my float64 monomials differ from x^d by d/2 ulp, which the factor 3 covers
	if !w.Err("poly-vs-lls", dist, 3*tb) {
		c15V(w, "poly-vs-lls", fmt.Sprintf("PolynomialRegression degree %d returned %v but LinearLeastSquares on {1,x,..,x^%d} returned %v (distance %.6g, tolerance %.3g; %s)", d, coef, d, params, dist, 3*tb, c15Brief(c)), c)
	}

	// the fit does not depend on the overall scale of the weights
	c15WeightScaleLaw(w, c, m, "PolynomialRegression", coef, func(gw2 *c15Guard) ([]float64, bool) {
		var r2 fit.PolynomialRegressionResult
		w.Eval("PolynomialRegression")
		if p, e := mon.Call(func() { r2 = fit.PolynomialRegression(gx.Slice(), gy.Slice(), gw2.Slice(), d) }); p {
			c15V(w, "panic", fmt.Sprintf("PolynomialRegression (weights rescaled) panicked: %v (%s)", e, c15Brief(c)), c)
			return nil, false
		}
		out, fresh := mem.take(w, c, "PolynomialRegression (Coefficients, weights rescaled)", r2.Coefficients, zero)
		mem.scribble()
		return out, fresh
	})
	c15CheckGuards(w, c, "PolynomialRegression", gx, gy)
	if w.WantSample() {
		w.Sample(map[string]any{"op": "PolynomialRegression", "degree": d, "n": len(xs), "weights": ws != nil, "cond": m.Cond, "coefficients": coef, "minimiser": c15F64s(m.Beta)})
	}
}

func c15F64s(b []*big.Float) []float64 {
	out := make([]float64, len(b))
	for i := range b {
		out[i] = ref.F64(b[i])
	}
	return out
}

// ---------------------------------------------------------------------------
// LOESS

type c15Cand struct {
	val, tol float64
	idx      []int
}

// c15LoessRef returns every admissible reference value at x: one per
// admissible window width and, inside the ambiguity window of a distance tie,
// per admissible window. illposed is true when some candidate is outside the
// quantifier (local design with cond > 1e10); the query is then not judged.
func c15LoessRef(w *mon.W, xs, ys []float64, degree int, qs []int, x float64) (cands []c15Cand, tie, illposed bool) {
	for _, q := range qs {
		wins, t := ref.LoessNearest(xs, q, x, 1e-12)
		tie = tie || t
		for _, win := range wins {
			f := ref.LoessAt(xs, ys, win, degree, x)
			if !f.OK || f.Raw == nil || !(f.Raw.Cond <= c15CondMax) || f.NonZero < degree+1 {
				// one admissible reading of the query is outside the
				// quantifier: the query cannot be judged at all (the
				// library may legitimately have taken that reading)
				return nil, tie, true
			}
			// the two formulations of the reference must agree
			if d := math.Abs(f.Value - f.ValueRaw); d > 1e-20*(math.Abs(f.Value)+1)+8*ulp(f.Value) {
				w.R.Inconclusive(fmt.Sprintf("C15 LOESS reference disagrees with itself at x=%g: centred %.17g raw %.17g", x, f.Value, f.ValueRaw))
				continue
			}
			tb := f.Raw.TolBeta(c15C, true)
			vn, ab, p := 0.0, 0.0, 1.0
			for j := 0; j <= degree; j++ {
				vn = math.Hypot(vn, p)
				ab += math.Abs(ref.F64(f.Raw.Beta[j])) * p
				p *= math.Abs(x)
			}
			tol := tb*vn + c15C*float64(degree+1)*c15Eps*ab
			cands = append(cands, c15Cand{f.Value, tol, win.Idx})
		}
	}
	return cands, tie, len(cands) == 0
}

func c15JudgeLOESS(w *mon.W, c c15Case) {
	xs, ys := mon.Un(c.Xs), mon.Un(c.Ys)
	n, deg, span := len(xs), c.Degree, float64(c.Span)
	if n == 0 || n != len(ys) || deg < 0 || !(span > 0 && span <= 1) || !sort.Float64sAreSorted(xs) {
		return
	}
	for i := 1; i < n; i++ {
		if xs[i] == xs[i-1] {
			return // distinct x only
		}
	}
	qe, qr := ref.CeilProduct(span, n)
	if qe > n {
		qe = n
	}
	if qr > n {
		qr = n
	}
	qs := []int{qe}
	qAmb := qe != qr
	if qAmb {
		// span*n is within rounding distance of an integer: both readings
		// of ceil(span*n) are accepted
		qs = append(qs, qr)
		w.Ambiguous()
		w.Note("span*n-within-rounding-of-integer")
	}
	if qe < deg+2 && qr < deg+2 {
		// the farthest point of the window has tricube weight 0, so at most
		// degree points carry weight: the local fit is not determined and
		// the statement says nothing. (With q = degree+2 exactly degree+1
		// points carry weight unless the query is midway between the window
		// ends: the fit is the interpolating polynomial through them, judged
		// below when its design is well conditioned.)
		w.Note("loess-q<degree+2-undetermined-skipped")
		return
	}
	prod := span * float64(n)
	frac := prod - math.Floor(prod)
	w.HitIf(!qAmb && frac > 1e-9 && frac < 1-1e-9, "span*n-not-integer")
	w.HitIf(!qAmb && frac == 0, "span*n-integer")
	w.HitIf(qe == n, "window-is-all-data")
	w.Hit(fmt.Sprintf("loess-degree-%d", deg))
	w.HitIf(c.Coef != nil, "loess-polynomial-data")
	w.HitIf(c.Domain != "", "shifted-domain")

	// the ascending data, and the same data in the order of Perm (a step of a
	// history: only the ascending data, in the history's arrays, which LOESS
	// is entitled to keep using without a copy; nothing else is fitted in
	// between, so that consecutive evaluations see the same arrays)
	hist := c.bufs != nil
	allZero := c15AllZero(ys)
	gxs, gys, _ := c15Guards(c, xs, ys, nil)
	var fS, fP func(float64) float64
	w.Eval("LOESS")
	if p, e := mon.Call(func() { fS = fit.LOESS(gxs.Slice(), gys.Slice(), deg, span) }); p {
		c15V(w, "panic", fmt.Sprintf("LOESS(sorted input, degree %d, span %g) panicked: %v (%s)", deg, span, e, c15Brief(c)), c)
		return
	}
	c15CheckGuards(w, c, "LOESS (sorted input)", gxs, gys)
	var gxp, gyp *c15Guard
	shuffled := false
	if len(c.Perm) == n && !hist {
		px, py := make([]float64, n), make([]float64, n)
		seen := make([]bool, n)
		for k, i := range c.Perm {
			if i < 0 || i >= n || seen[i] {
				return
			}
			seen[i] = true
			px[k], py[k] = xs[i], ys[i]
		}
		shuffled = !sort.Float64sAreSorted(px)
		gxp, gyp = c15NewGuard("xs", px, false), c15NewGuard("ys", py, false)
		w.HitIf(shuffled, "shuffled-input")
		w.Eval("LOESS")
		if p, e := mon.Call(func() { fP = fit.LOESS(gxp.Slice(), gyp.Slice(), deg, span) }); p {
			c15V(w, "panic", fmt.Sprintf("LOESS(shuffled input, degree %d, span %g) panicked: %v (%s)", deg, span, e, c15Brief(c)), c)
			return
		}
		if !c15CheckGuards(w, c, "LOESS (unsorted input)", gxp, gyp) {
			return
		}
	}
	if fS == nil || (gxp != nil && fP == nil) {
		c15V(w, "nil-func", "LOESS returned a nil function ("+c15Brief(c)+")", c)
		return
	}
	rng := mon.NewRand(c.Seed, 0x10e55)
	ymax := 0.0
	for _, y := range ys {
		ymax = math.Max(ymax, math.Abs(y))
	}
	if ymax == 0 {
		ymax = 1
	}
	one := func(x float64) c15Case {
		cc := c
		cc.Qs = []mon.F{mon.F(x)}
		return cc
	}
	call := func(f func(float64) float64, x float64, how string) (float64, bool) {
		var y float64
		w.Eval("LOESS(...)(x)")
		if p, e := mon.Call(func() { y = f(x) }); p {
			c15V(w, "panic", fmt.Sprintf("LOESS(%s, degree %d, span %g)(%.17g) panicked: %v (%s)", how, deg, span, x, e, c15Brief(c)), one(x))
			return 0, false
		}
		return y, true
	}
	for _, x := range mon.Un(c.Qs) {
		if math.IsNaN(x) || math.IsInf(x, 0) {
			continue
		}
		cands, tie, ill := c15LoessRef(w, xs, ys, deg, qs, x)
		if ill {
			w.Note("loess-local-design-ill-posed-skipped")
			continue
		}
		w.HitIf(x < xs[0] || x > xs[n-1], "query-outside-data")
		w.HitIf(x == xs[0] || x == xs[n-1], "query-at-end")
		w.HitIf(x > xs[0] && x < xs[n-1], "query-inside")
		k := sort.SearchFloat64s(xs, x)
		w.HitIf(k < n && xs[k] == x, "query-at-datum")
		w.HitIf(!qAmb && qe == deg+2, "loess-q==degree+2(interpolation)")
		w.HitIf(!qAmb && qe == deg+2 && deg == 0, "loess-q==2-degree-0(nearest-point)")
		if n > 40 {
			// the local fit of this query is a weighted fit (tricube weights,
			// all different) of imin(qe, qr) points or more
			w.Hit("large-n-loess")
			for _, t := range []int{64, 128, 256, 512, 1024, 2048} {
				w.HitIf(imin(qe, qr) > t, fmt.Sprintf("loess-window>%d", t))
			}
		}
		c15ScaleClasses(w, c, ys, nil)
		w.HitIf(allZero, "loess-ys-all-zero")
		if !allZero {
			winZero := true
			for _, cd := range cands {
				for _, i := range cd.idx {
					winZero = winZero && ys[i] == 0
				}
			}
			// every admissible window lies on a stretch of exactly zero ys:
			// the local fit is the zero polynomial whatever the other ys are
			w.HitIf(winZero, "loess-window-all-zero-ys")
		}
		if tie {
			w.Hit("window-tie")
			w.Ambiguous()
		}
		// every admissible window consists of near-coincident abscissae:
		// its width is tiny compared with |x| (and not zero: distinct x)
		near := x != 0
		for _, cd := range cands {
			for _, i := range cd.idx {
				near = near && math.Abs(xs[i]-x) <= math.Abs(x)/(1<<19)
			}
		}
		w.HitIf(near, "loess-window-of-near-coincident-x")
		w.HitIf(near && !tie, "loess-window-of-near-coincident-x-no-tie")
		w.HitIf(near && math.Abs(xs[cands[0].idx[len(cands[0].idx)-1]]-x) <= math.Abs(x)*1e-10, "loess-window-width<1e-10|x|")
		judge := func(got float64, how string) (bool, c15Cand) {
			best, bc := math.Inf(1), cands[0]
			for _, cd := range cands {
				r := math.Abs(got-cd.val) / cd.tol
				if math.IsNaN(r) {
					r = math.Inf(1)
				}
				if got == cd.val {
					r = 0
				}
				if r < best {
					best, bc = r, cd
				}
			}
			if !w.Err("loess-vs-local-fit", math.Abs(got-bc.val), bc.tol) {
				c15V(w, "loess-value", fmt.Sprintf("LOESS(%s, degree %d, span %g)(%.17g)=%.17g; the tricube-weighted degree-%d fit over the %d nearest of %d points evaluates to %.17g there (tolerance %.3g; %s)", how, deg, span, x, got, deg, len(bc.idx), n, bc.val, bc.tol, c15Brief(c)), one(x))
				return false, bc
			}
			return true, bc
		}
		gotS, ok := call(fS, x, "sorted input")
		if !ok {
			continue
		}
		okS, bc := judge(gotS, "sorted input")
		if fP != nil {
			gotP, ok := call(fP, x, "shuffled input")
			if !ok {
				continue
			}
			okP, _ := judge(gotP, "shuffled input")
			if okS && okP && !w.Err("loess-order-independence", math.Abs(gotS-gotP), 2*bc.tol) {
				c15V(w, "loess-order", fmt.Sprintf("LOESS(degree %d, span %g)(%.17g): %.17g for ascending input, %.17g for the same points shuffled (%s)", deg, span, x, gotS, gotP, c15Brief(c)), one(x))
			}
		}
		if !okS {
			continue
		}
		// polynomials of degree <= degree are reproduced
		if c.Coef != nil && len(c.Coef) <= deg+1 {
			val, _ := ref.PolyEval(mon.Un(c.Coef), x)
			if !w.Err("loess-reproduces-polynomial", math.Abs(gotS-ref.F64(val)), 2*bc.tol) {
				c15V(w, "loess-polynomial", fmt.Sprintf("data generated by the polynomial %v: LOESS(degree %d, span %g)(%.17g)=%.17g, the polynomial is %.17g there (tolerance %.3g; %s)", mon.Un(c.Coef), deg, span, x, gotS, ref.F64(val), 2*bc.tol, c15Brief(c)), one(x))
			}
		}
		// only the q nearest points matter: give every other point an
		// unrelated y and ask again
		if !tie && !qAmb && len(bc.idx) < n && !hist {
			in := make([]bool, n)
			for _, i := range bc.idx {
				in[i] = true
			}
			y2 := append([]float64(nil), ys...)
			for i := range y2 {
				if !in[i] {
					y2[i] = ys[i] + rng.Sign()*rng.LogUniform(1, 1e6)*ymax
				}
			}
			gx2, gy2 := c15NewGuard("xs", xs, false), c15NewGuard("ys", y2, false)
			var f2 func(float64) float64
			w.Eval("LOESS")
			if p, e := mon.Call(func() { f2 = fit.LOESS(gx2.Slice(), gy2.Slice(), deg, span) }); p || f2 == nil {
				c15V(w, "panic", fmt.Sprintf("LOESS panicked: %v (%s)", e, c15Brief(c)), one(x))
				continue
			}
			got2, ok := call(f2, x, "far points changed")
			if !ok {
				continue
			}
			w.Hit("locality-checked")
			if !w.Err("loess-locality", math.Abs(got2-gotS), 2*bc.tol) {
				c15V(w, "loess-locality", fmt.Sprintf("LOESS(degree %d, span %g)(%.17g) changed from %.17g to %.17g when only the ys of points outside the %d nearest were changed (%s)", deg, span, x, gotS, got2, len(bc.idx), c15Brief(c)), one(x))
			}
			c15CheckGuards(w, one(x), "LOESS(...)(x)", gx2, gy2)
		}
		if w.WantSample() {
			w.Sample(map[string]any{"op": "LOESS", "n": n, "degree": deg, "span": span, "q": len(bc.idx), "x": x, "got": gotS, "ref": bc.val, "tol": bc.tol})
		}
	}
	// evaluating the fit must not touch the inputs either
	c15CheckGuards(w, c, "LOESS(...)(x) (sorted input)", gxs, gys)
	if gxp != nil {
		c15CheckGuards(w, c, "LOESS(...)(x) (unsorted input)", gxp, gyp)
	}
}

// ---------------------------------------------------------------------------
// histories: a caller that keeps its xs, ys and weights buffers and refills
// them for the next data set

// c15JudgeHistory judges the steps one after the other, Rounds times over
// (A, B, A, B, ...). Every step is a complete, independent case: each call is
// judged against the reference for the numbers that are in the arrays at the
// time of the call, exactly as if the arrays were fresh; the only difference
// is that the library has seen the same arrays (same addresses, same
// lengths) with other contents before. No F or LOESS function returned by an
// earlier step is used after the refill; the parameter slices returned by
// earlier calls stay with the caller, who overwrites them (c15Mem), and a
// LinearLeastSquares step whose basis an earlier call used hands the library
// the very same slice of basis functions again.
func c15JudgeHistory(w *mon.W, c c15Case) {
	if len(c.Steps) < 2 || len(c.Steps) > 8 {
		return
	}
	op, n := c.Steps[0].Op, len(c.Steps[0].Xs)
	for _, s := range c.Steps {
		if s.Op != op || len(s.Xs) != n || len(s.Ys) != n || (s.Ws != nil && len(s.Ws) != n) || (op != "lls" && op != "poly" && op != "loess") {
			return
		}
	}
	rounds := c.Rounds
	if rounds < 1 || rounds > 4 {
		rounds = 2
	}
	bufs := c15NewBufs(n)
	outer := c
	for r := 0; r < rounds; r++ {
		for k, s := range c.Steps {
			s.bufs, s.outer = bufs, &outer
			s.step = fmt.Sprintf("history call %d of %d: data set %d of %d written in place into the arrays every call of the history uses", r*len(c.Steps)+k+1, rounds*len(c.Steps), k+1, len(c.Steps))
			c15Judge(w, s)
		}
	}
	// at least two consecutive library calls on the same arrays with
	// different contents (which steps reach the library is decided by the
	// reference side: conditioning, window size)
	w.HitIf(bufs.fills >= 2, "history-"+op)
	w.HitIf(bufs.fills >= 2, "history-buffers-refilled-in-place")
}

// ---------------------------------------------------------------------------
// workload

// c15Design draws n distinct abscissae in [-2,2].
func c15Design(rng *mon.Rand, n, kind int) []float64 {
	xs := make([]float64, 0, n)
	switch kind {
	case 0: // uniform
		seen := map[float64]bool{}
		for len(xs) < n {
			x := rng.Uniform(-2, 2)
			if !seen[x] {
				seen[x] = true
				xs = append(xs, x)
			}
		}
	case 1: // equispaced on a random sub-interval at least 2 wide
		a := rng.Uniform(-2, -0.5)
		b := rng.Uniform(a+2, 2.0000001)
		if b > 2 {
			b = 2
		}
		for i := 0; i < n; i++ {
			xs = append(xs, a+(b-a)*float64(i)/float64(n-1))
		}
	case 2: // dyadic grid k/16
		if n > 65 {
			// (large designs) the grid k/2^m with at least 2n points in [-2,2]
			m := 5
			for 4<<m+1 < 2*n {
				m++
			}
			p := rng.Perm(4<<m + 1)
			for i := 0; i < n; i++ {
				xs = append(xs, float64(p[i]-2<<m)/float64(int(1)<<m))
			}
			break
		}
		p := rng.Perm(65)
		for i := 0; i < n; i++ {
			xs = append(xs, float64(p[i]-32)/16)
		}
	default: // two clusters and a few stragglers
		seen := map[float64]bool{}
		c1, c2 := rng.Uniform(-1.8, -0.5), rng.Uniform(0.5, 1.8)
		for len(xs) < n {
			var x float64
			switch rng.Intn(5) {
			case 0:
				x = rng.Uniform(-2, 2)
			case 1, 2:
				x = c1 + 0.2*rng.Uniform(-1, 1)
			default:
				x = c2 + 0.2*rng.Uniform(-1, 1)
			}
			if !seen[x] && x >= -2 && x <= 2 {
				seen[x] = true
				xs = append(xs, x)
			}
		}
	}
	rng.ShuffleF(xs)
	return xs
}

// c15Shift maps a design in [-2,2] onto [10,12] or [0,1e3].
func c15Shift(xs []float64, domain string) {
	for i, x := range xs {
		switch domain {
		case "[10,12]":
			xs[i] = 11 + x/2
		case "[0,1e3]":
			xs[i] = (x + 2) * 250
		}
	}
}

func c15Weights(rng *mon.Rand, n int) []float64 {
	kind := rng.Intn(10)
	if kind < 4 {
		return nil
	}
	ws := make([]float64, n)
	cst := rng.LogUniform(0.1, 10)
	for i := range ws {
		switch {
		case kind < 8:
			ws[i] = rng.LogUniform(1e-2, 1e2)
		case kind == 8:
			ws[i] = cst
		default:
			ws[i] = float64(rng.Range(1, 5))
		}
	}
	return ws
}

func c15WeightsFor(rng *mon.Rand, n int, opt c15Opt) []float64 {
	if opt.large {
		return c15WeightsLarge(rng, n)
	}
	return c15Weights(rng, n)
}

// c15WeightsLarge draws the weights of a large design: none (a quarter), or
// positive weights that are independent log-uniform 1e-2..1e2, small integers,
// constant on 2..8 stretches of consecutive points (each stretch its own
// log-uniform level: batches of measurements of different quality), a smooth
// trend along the order of the points (w = exp(a*i/n), up to a factor 1e3
// from the first to the last point), or the same constant everywhere.
func c15WeightsLarge(rng *mon.Rand, n int) []float64 {
	kind := rng.Intn(12)
	if kind < 3 {
		return nil
	}
	ws := make([]float64, n)
	switch {
	case kind < 6:
		for i := range ws {
			ws[i] = rng.LogUniform(1e-2, 1e2)
		}
	case kind < 8:
		cuts := []int{0, n}
		for k := rng.Range(1, 7); k > 0; k-- {
			cuts = append(cuts, rng.Intn(n))
		}
		sort.Ints(cuts)
		for k := 0; k+1 < len(cuts); k++ {
			lvl := rng.LogUniform(1e-2, 1e2)
			for i := cuts[k]; i < cuts[k+1]; i++ {
				ws[i] = lvl
			}
		}
	case kind < 10:
		a := rng.Sign() * rng.Uniform(0.5, 7)
		b := rng.LogUniform(0.1, 10)
		for i := range ws {
			ws[i] = b * math.Exp(a*float64(i)/float64(n))
		}
	case kind == 10:
		for i := range ws {
			ws[i] = float64(rng.Range(1, 5))
		}
	default:
		cst := rng.LogUniform(0.1, 10)
		for i := range ws {
			ws[i] = cst
		}
	}
	return ws
}

// c15LargeN draws the size of a large design, 41..maxN: half of the sizes are
// log-uniform, the others sit at and just beyond the round numbers at which an
// implementation that works through the data in pieces would start a new piece
// (a last piece of 1, 2, 3.. points, or a good part of a piece).
func c15LargeN(rng *mon.Rand, maxN int) int {
	n := 0
	if rng.Bool() {
		n = int(rng.LogUniform(41, float64(maxN)+1))
	} else {
		t := rng.PickI(64, 100, 128, 200, 250, 256, 500, 512, 1000, 1024, 1500, 2000, 2048, 3000, 4096)
		switch rng.Intn(4) {
		case 0:
			n = t + rng.Range(-1, 3)
		case 1:
			n = t + rng.Range(1, 40)
		case 2:
			n = 2*t + rng.Range(-1, 3)
		default:
			n = t + rng.Range(1, t)
		}
	}
	if n > maxN {
		n = maxN - rng.Intn(maxN/4)
	}
	return imax(n, 41)
}

// c15PolyData fills ys from a polynomial of degree e. On the dyadic grid with
// small integer coefficients the values are exact.
func c15PolyData(rng *mon.Rand, xs []float64, e int, integer bool) (coef, ys []float64, exact bool) {
	coef = make([]float64, e+1)
	for j := range coef {
		if integer {
			coef[j] = float64(rng.Range(-8, 8))
		} else {
			coef[j] = rng.Norm() * 2
		}
	}
	if coef[e] == 0 {
		coef[e] = 1
	}
	ys = make([]float64, len(xs))
	exact = true
	for i, x := range xs {
		v, _ := ref.PolyEval(coef, x)
		ys[i] = ref.F64(v)
		if ref.NF(ys[i]).Cmp(v) != 0 {
			exact = false
		}
	}
	return
}

func c15Smooth(rng *mon.Rand, xs []float64, domain string) []float64 {
	a, b, cc, noise := rng.Uniform(0.5, 3), rng.Uniform(-1, 1), rng.Uniform(-1, 1), rng.Pick(0, 0.01, 0.2)
	off := rng.Pick(0, 0, 0, 100, -1e3)
	ys := make([]float64, len(xs))
	for i, x := range xs {
		t := x
		switch domain {
		case "[10,12]":
			t = (x - 11) * 2
		case "[0,1e3]":
			t = x/250 - 2
		}
		ys[i] = math.Sin(a*t) + b*t + cc*math.Exp(t/2) + noise*rng.Norm() + off
	}
	return ys
}

// c15ScaleWeights multiplies a generated weight vector by 10^U(-30,30) in a
// third of the cases: the statement's weights are "random positive", and only
// their ratios matter to the minimiser.
func c15ScaleWeights(rng *mon.Rand, ws []float64) {
	if ws == nil || rng.Intn(3) != 0 {
		return
	}
	f := math.Pow(10, rng.Uniform(-30, 30))
	for i := range ws {
		ws[i] *= f
	}
}

// c15KY draws the power of two by which ys are multiplied (a quarter of the
// cases; up to 2^+-330, about 1e+-99).
func c15KY(rng *mon.Rand) int {
	if rng.Intn(4) != 0 {
		return 0
	}
	return rng.Range(-330, 330)
}

// c15KX draws the power of two by which xs are multiplied (a quarter of the
// cases) for a polynomial design of the given degree. The condition number of
// the monomial design grows like 2^(2*degree*|k|), so the range is chosen to
// leave a good share of the designs below the 1e10 limit of the quantifier;
// the others are skipped by c15WellPosed as before.
func c15KX(rng *mon.Rand, degree int) int {
	if rng.Intn(4) != 0 {
		return 0
	}
	K := 200
	if degree > 0 {
		K = 16 / degree
	}
	k := rng.Range(1, K)
	if rng.Bool() {
		k = -k
	}
	return k
}

func c15Hash(c c15Case) uint64 {
	h := mon.NewHasher().S(c.Op).S(c.Basis).I(c.Degree).Fs(mon.Un(c.Xs)).Fs(mon.Un(c.Ys)).F(float64(c.Span))
	if c.Ws != nil {
		h = h.Fs(mon.Un(c.Ws))
	}
	for _, st := range c.Steps {
		h = h.U(c15Hash(st))
	}
	return h.Is(c.Perm).Is(c.TermPerm).Sum()
}

// c15Opt steers a generator away from its own random choices (the zero value
// changes nothing, and the generator then draws exactly the same numbers as
// before the options existed).
type c15Opt struct {
	n      int    // number of points (a step of a history must match the first step)
	basis  string // lls: this basis with
	p      int    // this many functions
	deg    int    // poly: this degree when hasDeg
	hasDeg bool
	// large: a case of the large-n classes (n is given): weights from
	// c15WeightsLarge, and the points handed over in ascending order of x in a
	// third of the cases
	large bool
}

// c15ZeroYs turns a case into data that are identically zero (generated by
// the zero polynomial): the minimiser of every fit is exactly 0.
func c15ZeroYs(c *c15Case) {
	for i := range c.Ys {
		c.Ys[i] = 0
	}
	c.Coef, c.Exact, c.KY = []mon.F{0}, true, 0
}

// c15ZeroPlateau sets the ys of L >= ceil(span*n) consecutive points of a
// LOESS case to exactly 0 and adds, for every window of q points that lies on
// the plateau, a query whose q nearest points are that window.
func c15ZeroPlateau(rng *mon.Rand, c *c15Case) {
	xs := mon.Un(c.Xs)
	n := len(xs)
	qe, qr := ref.CeilProduct(float64(c.Span), n)
	q := imin(n, imax(qe, qr))
	if q < 1 {
		return
	}
	L := imin(n, q+rng.Range(0, 3))
	a := rng.Intn(n - L + 1)
	for i := a; i < a+L; i++ {
		c.Ys[i] = 0
	}
	c.Coef, c.Exact = nil, false
	r := xs[n-1] - xs[0]
	for s := a; s+q <= a+L; s++ {
		lo, hi := xs[0]-0.25*r, xs[n-1]+0.25*r
		if s > 0 {
			lo = (xs[s-1] + xs[s+q-1]) / 2
		}
		if s+q < n {
			hi = (xs[s] + xs[s+q]) / 2
		}
		c.Qs = append(c.Qs, mon.F(lo+(hi-lo)*rng.Uniform(0.2, 0.8)))
	}
}

func c15GenLLS(rng *mon.Rand, i int, opt c15Opt) c15Case {
	c := c15Case{Op: "lls", Seed: rng.Uint64()}
	k := i % 8
	if opt.basis != "" {
		c.Basis, c.Degree = opt.basis, opt.p
		k = -1
	}
	switch k {
	case -1:
	case 0, 1:
		c.Basis = "mono"
		c.Degree = rng.Range(0, 6)
	case 2:
		c.Basis = "trig"
	case 3:
		c.Basis = "exp"
	case 4:
		c.Basis = "mixed"
	case 5:
		c.Basis = "x-x2"
	case 6:
		c.Basis = "sincos"
	default:
		c.Basis = "x"
	}
	if opt.n > 0 && c.Basis == "mono" && c.Degree > opt.n-1 {
		c.Degree = opt.n - 1
	}
	p := len(c15Basis(c.Basis, c.Degree).fns)
	if p >= 2 && rng.Intn(3) == 0 {
		// hand the terms over in another order: reversed (the constant, if
		// any, comes last) or shuffled
		perm := rng.Perm(p)
		if rng.Bool() {
			for k := range perm {
				perm[k] = p - 1 - k
			}
		}
		for k, o := range perm {
			if k != o {
				c.TermPerm = perm
				break
			}
		}
	}
	lo := imax(3, p)
	n := rng.Range(lo, 40)
	if rng.Intn(8) == 0 {
		n = lo
	}
	if rng.Intn(3) == 0 {
		n = rng.Range(lo, imin(40, lo+6))
	}
	if p >= 8 {
		// wide bases: n >= p+2
		n = rng.Range(p+2, 40)
		if rng.Intn(4) == 0 {
			n = rng.Range(p+2, p+6)
		}
	}
	if opt.n > 0 {
		n = opt.n
	}
	xs := c15Design(rng, n, rng.Intn(4))
	if opt.large && rng.Intn(3) == 0 {
		sort.Float64s(xs)
	}
	var ys []float64
	if rng.Intn(3) == 0 {
		// a member of the span of the basis plus noise
		t := c15Basis(c.Basis, c.Degree)
		phi := t.values(xs)
		ys = make([]float64, n)
		noise := rng.Pick(0, 1e-3, 0.3)
		for j := range phi {
			b := rng.Norm() * 3
			for k := range ys {
				ys[k] += b * phi[j][k]
			}
		}
		for k := range ys {
			ys[k] += noise * rng.Norm()
		}
	} else {
		ys = c15Smooth(rng, xs, "")
	}
	c.Xs, c.Ys = mon.Fs(xs), mon.Fs(ys)
	if ws := c15WeightsFor(rng, n, opt); ws != nil {
		c15ScaleWeights(rng, ws)
		c.Ws = mon.Fs(ws)
	}
	kx := 0
	switch c.Basis { // only for bases on which a change of the unit of x is a change of basis scaling
	case "mono":
		kx = c15KX(rng, c.Degree)
	case "x-x2":
		kx = c15KX(rng, 2)
	case "x":
		kx = c15KX(rng, 0) / 2
	}
	c15Rescale(&c, kx, c15KY(rng))
	return c
}

func c15GenPoly(rng *mon.Rand, i int, opt c15Opt) c15Case {
	c := c15Case{Op: "poly", Seed: rng.Uint64()}
	d := i % 7
	if opt.hasDeg {
		d = opt.deg
	}
	c.Degree = d
	if d <= 2 && rng.Intn(3) == 0 {
		c.Domain = []string{"[10,12]", "[0,1e3]"}[rng.Intn(2)]
	}
	lo := imax(3, d+1)
	n := rng.Range(lo, 40)
	switch rng.Intn(6) {
	case 0:
		n = lo
	case 1:
		n = rng.Range(lo, imin(40, lo+4))
	}
	if opt.n > 0 {
		n = opt.n
	}
	mode := rng.Intn(4) // 0 exact polynomial, 1 rounded polynomial, 2 polynomial + noise, 3 smooth
	kind := rng.Intn(4)
	if mode == 0 {
		kind = 2
	}
	xs := c15Design(rng, n, kind)
	if opt.large && rng.Intn(3) == 0 {
		sort.Float64s(xs)
	}
	if mode == 0 {
		c.Domain = ""
	}
	c15Shift(xs, c.Domain)
	var ys []float64
	switch mode {
	case 0, 1:
		e := rng.Range(0, d)
		if rng.Bool() {
			e = d
		}
		coef, y, exact := c15PolyData(rng, xs, e, mode == 0)
		ys, c.Coef, c.Exact = y, mon.Fs(coef), exact
	case 2:
		_, y, _ := c15PolyData(rng, xs, d, false)
		s := rng.Pick(1e-6, 0.05, 1)
		for k := range y {
			y[k] += s * rng.Norm()
		}
		ys = y
	default:
		ys = c15Smooth(rng, xs, c.Domain)
	}
	c.Xs, c.Ys = mon.Fs(xs), mon.Fs(ys)
	if ws := c15WeightsFor(rng, n, opt); ws != nil {
		c15ScaleWeights(rng, ws)
		c.Ws = mon.Fs(ws)
	}
	lo2, hi2 := -3.0, 3.0
	switch c.Domain {
	case "[10,12]":
		lo2, hi2 = 9, 13
	case "[0,1e3]":
		lo2, hi2 = -100, 1100
	}
	qs := []float64{0, 1, -1, rng.Uniform(lo2, hi2), rng.Uniform(lo2, hi2), rng.Uniform(lo2, hi2), rng.Sign() * rng.LogUniform(1e-8, 50), 0.5}
	c.Qs = mon.Fs(qs)
	kx := 0
	if c.Domain == "" {
		kx = c15KX(rng, d)
	}
	c15Rescale(&c, kx, c15KY(rng))
	return c
}

// c15LoessQueries: inside, at both ends, beyond, at data points, and around a
// point where the window of the q nearest points changes.
func c15LoessQueries(rng *mon.Rand, xs []float64, q int) []float64 {
	n := len(xs)
	lo, hi := xs[0], xs[n-1]
	r := hi - lo
	qs := []float64{lo, hi, lo - r*rng.Uniform(0, 0.5), hi + r*rng.Uniform(0, 0.5), lo - r*rng.LogUniform(1e-9, 1e-2), hi + r*rng.LogUniform(1e-9, 1e-2)}
	for k := 0; k < 3; k++ {
		qs = append(qs, rng.Uniform(lo, hi))
	}
	qs = append(qs, xs[rng.Intn(n)], xs[rng.Intn(n)])
	if q < n {
		for k := 0; k < 2; k++ {
			i := rng.Intn(n - q)
			m := (xs[i] + xs[i+q]) / 2
			e := r * rng.LogUniform(1e-9, 1e-3)
			qs = append(qs, m, m-e, m+e)
		}
		// just inside the last and the first window
		qs = append(qs, (xs[n-q-1]+xs[n-1])/2+r*1e-6, (xs[0]+xs[q])/2-r*1e-6)
	}
	return qs
}

func c15GenLOESS(rng *mon.Rand, i int) c15Case {
	c := c15Case{Op: "loess", Seed: rng.Uint64()}
	deg := i % 3
	c.Degree = deg
	if rng.Intn(5) == 0 {
		c.Domain = []string{"[10,12]", "[0,1e3]"}[rng.Intn(2)]
	}
	n := rng.Range(imax(3, deg+2), 40)
	if rng.Intn(4) == 0 {
		n = rng.Range(imax(3, deg+2), deg+8)
	}
	q := rng.Range(deg+2, n)
	if rng.Intn(3) == 0 {
		q = rng.Range(deg+2, imin(n, deg+6))
	}
	if rng.Intn(8) == 0 {
		// the smallest window that determines the fit: the farthest of the
		// degree+2 points has weight 0 and the fit interpolates the others
		q = deg + 2
	}
	var span float64
	switch rng.Intn(6) {
	case 0: // span*n an integer (up to what float64 can say)
		span = float64(q) / float64(n)
	case 1:
		span = 1
	case 2: // dyadic span, n a multiple of 4: span*n exactly an integer
		n = 4 * rng.Range(imax(1, (deg+5)/4), 10)
		var okSpans []float64
		for _, s := range []float64{0.25, 0.5, 0.75, 1} {
			if int(s*float64(n)) >= deg+2 {
				okSpans = append(okSpans, s)
			}
		}
		span = rng.Pick(okSpans...)
	default: // span*n strictly between q-1 and q
		span = (float64(q) - rng.Uniform(0.05, 0.95)) / float64(n)
	}
	if span > 1 {
		span = 1
	}
	c.Span = mon.F(span)
	c15LoessFill(rng, &c, n)
	return c
}

// c15GenLoessLarge is c15GenLOESS on 41..maxN points: the window is a third
// of the data or more in half of the cases, all of the data in an eighth.
func c15GenLoessLarge(rng *mon.Rand, i, maxN int) c15Case {
	c := c15Case{Op: "loess", Seed: rng.Uint64()}
	deg := i % 3
	c.Degree = deg
	if rng.Intn(5) == 0 {
		c.Domain = []string{"[10,12]", "[0,1e3]"}[rng.Intn(2)]
	}
	n := c15LargeN(rng, maxN)
	q := rng.Range(deg+2, n)
	if rng.Bool() {
		q = rng.Range(n/3, n)
	}
	var span float64
	switch rng.Intn(8) {
	case 0:
		span = 1
	case 1, 2: // span*n an integer (up to what float64 can say)
		span = float64(q) / float64(n)
	default: // span*n strictly between q-1 and q
		span = (float64(q) - rng.Uniform(0.05, 0.95)) / float64(n)
	}
	if span > 1 {
		span = 1
	}
	c.Span = mon.F(span)
	c15LoessFill(rng, &c, n)
	if n > 500 && len(c.Qs) > 10 {
		// (cost of the reference) ten of the queries, whichever
		qs := append([]mon.F(nil), c.Qs...)
		c.Qs = c.Qs[:0]
		for _, k := range rng.Perm(len(qs))[:10] {
			c.Qs = append(c.Qs, qs[k])
		}
	}
	return c
}

// c15LoessFill draws the n data points, the order and the queries of a LOESS
// case whose degree, span and domain are set.
func c15LoessFill(rng *mon.Rand, c *c15Case, n int) {
	deg, span := c.Degree, float64(c.Span)
	c.Coef, c.Exact, c.KX, c.KY = nil, false, 0, 0
	xs := c15Design(rng, n, rng.Intn(4))
	c15Shift(xs, c.Domain)
	sort.Float64s(xs)
	var ys []float64
	switch rng.Intn(4) {
	case 0:
		e := rng.Range(0, deg)
		if rng.Bool() {
			e = deg
		}
		coef, y, exact := c15PolyData(rng, xs, e, rng.Bool())
		ys, c.Coef, c.Exact = y, mon.Fs(coef), exact
	case 1:
		ys = make([]float64, n)
		for k := range ys {
			ys[k] = rng.Norm()
		}
	default:
		ys = c15Smooth(rng, xs, c.Domain)
	}
	c.Xs, c.Ys = mon.Fs(xs), mon.Fs(ys)
	c.Perm = rng.Perm(n)
	qe, _ := ref.CeilProduct(span, n)
	if qe > n {
		qe = n
	}
	c.Qs = mon.Fs(c15LoessQueries(rng, xs, qe))
	kx := 0
	if c.Domain == "" {
		kx = c15KX(rng, deg)
	}
	c15Rescale(c, kx, c15KY(rng))
}

// c15GenLoessNear builds a LOESS case whose abscissae come in groups of 1..4
// distinct points at relative gaps 2^-k, k = 20..45 (repeat measurements at
// almost the same x), with ceil(span*n) mostly 2..4 so that whole windows lie
// inside one group, and queries at, between and just beside the points of the
// groups. The local design of degree 0 has condition number 1 whatever the
// gaps are; for degree 1 and 2 the windows inside a group are far beyond the
// conditioning limit and are skipped by the reference as everywhere else.
func c15GenLoessNear(rng *mon.Rand, i int) c15Case {
	c := c15Case{Op: "loess", Seed: rng.Uint64()}
	deg := 0
	if i%5 == 4 {
		deg = 1 + (i/5)%2
	}
	c.Degree = deg
	G := rng.Range(3, 9)
	var xs, qs []float64
	for g := 0; g < G && len(xs) < 37; g++ {
		ctr := -1.9 + 3.8*(float64(g)+rng.Uniform(0.2, 0.8))/float64(G)
		m := rng.Range(1, 4)
		if math.Abs(ctr) < 1e-2 {
			m = 1
		}
		gap := math.Abs(ctr) * math.Ldexp(1, -rng.Range(20, 45))
		first := len(xs)
		x := ctr
		for k := 0; k < m; k++ {
			xs = append(xs, x)
			x += gap * rng.Uniform(1, 2)
		}
		if m >= 2 {
			grp := xs[first:]
			for k, v := range grp {
				qs = append(qs, v)
				if k > 0 {
					qs = append(qs, grp[k-1]+(v-grp[k-1])*rng.Uniform(0.1, 0.9))
				}
			}
			qs = append(qs, grp[0]-gap*rng.LogUniform(1e-3, 10), grp[m-1]+gap*rng.LogUniform(1e-3, 10))
		}
	}
	for len(xs) < deg+3 {
		xs = append(xs, 1.95+0.01*float64(len(xs)))
	}
	sort.Float64s(xs)
	n := len(xs)
	for k := 1; k < n; k++ {
		if !(xs[k] > xs[k-1]) { // cannot happen: the groups are 0.15 apart or more
			xs[k] = math.Nextafter(xs[k-1], 3)
		}
	}
	q := rng.Range(deg+2, imin(n, deg+4))
	if rng.Intn(6) == 0 {
		q = rng.Range(deg+2, n)
	}
	span := (float64(q) - rng.Uniform(0.05, 0.95)) / float64(n)
	if rng.Intn(5) == 0 {
		span = float64(q) / float64(n)
	}
	if span > 1 {
		span = 1
	}
	c.Span = mon.F(span)
	var ys []float64
	switch rng.Intn(4) {
	case 0:
		coef, y, exact := c15PolyData(rng, xs, rng.Range(0, deg), rng.Bool())
		ys, c.Coef, c.Exact = y, mon.Fs(coef), exact
	case 1:
		ys = c15Smooth(rng, xs, "")
	default: // unrelated values, as repeat measurements with noise give
		ys = make([]float64, n)
		for k := range ys {
			ys[k] = rng.Norm() * 10
		}
	}
	qs = append(qs, xs[0], xs[n-1], rng.Uniform(-2, 2), xs[0]-rng.Uniform(0, 1), xs[n-1]+rng.Uniform(0, 1))
	c.Xs, c.Ys, c.Qs, c.Perm = mon.Fs(xs), mon.Fs(ys), mon.Fs(qs), rng.Perm(n)
	c15Rescale(&c, c15KX(rng, deg), c15KY(rng))
	return c
}

// c15GenHistory builds a history of two independent data sets of the same
// size for one operation (h selects the flavour).
func c15GenHistory(rng *mon.Rand, op string, h int) c15Case {
	c := c15Case{Op: "history", Rounds: 2, Seed: rng.Uint64()}
	var a, b c15Case
	switch op {
	case "lls":
		var opt c15Opt
		if h%5 == 4 {
			opt.basis, opt.p = []string{"fourier", "cheb"}[rng.Intn(2)], rng.Range(8, 12)
		}
		a = c15GenLLS(rng, h, opt)
		opt.n = len(a.Xs)
		b = c15GenLLS(rng, h, opt)
	case "poly":
		a = c15GenPoly(rng, h, c15Opt{})
		// the second fit has the same or a lower degree in two thirds of the
		// histories, any admissible degree otherwise
		n := len(a.Xs)
		opt := c15Opt{n: n, hasDeg: true, deg: a.Degree}
		switch h % 3 {
		case 1:
			opt.deg = rng.Range(0, a.Degree)
		case 2:
			opt.deg = rng.Range(0, imin(6, n-1))
		}
		b = c15GenPoly(rng, h, opt)
	default:
		a = c15GenLOESS(rng, h)
		n := len(a.Xs)
		if h%3 == 2 {
			// the window is all the data: every evaluation fits the whole arrays
			a.Span = 1
		}
		if a.Domain != "" && h%2 == 0 {
			a.Domain = ""
		}
		c15LoessFill(rng, &a, n)
		b = a
		b.Seed = rng.Uint64()
		c15LoessFill(rng, &b, n)
		// the first and the last evaluation of every step are below the data
		// (their window is the first q points), so that consecutive
		// evaluations across a refill use the same part of the arrays; at
		// most eight others in between
		trim := func(s *c15Case) {
			qs := s.Qs
			if len(qs) < 6 {
				return
			}
			out := []mon.F{qs[2]}
			for k, q := range qs {
				if k != 2 && k != 4 && len(out) < 9 {
					out = append(out, q)
				}
			}
			s.Qs = append(out, qs[4])
			s.Perm = nil
		}
		trim(&a)
		trim(&b)
	}
	if h%7 == 3 {
		c15ZeroYs(&b)
	}
	c.Steps = []c15Case{a, b}
	return c
}

// c15SelfTest runs the references against each other and against published
// numbers before anything is judged.
func c15SelfTest() error {
	rng := mon.NewRand(0xC15, 1)
	// 384-bit normal equations vs float64 Householder QR
	for k := 0; k < 40; k++ {
		d := k % 5
		n := rng.Range(d+2, 30)
		xs := c15Design(rng, n, k%4)
		ys := c15Smooth(rng, xs, "")
		ws := c15Weights(rng, n)
		m := ref.NewLSQ(ref.MonomialsBig(xs, d), ys, ws)
		if m.Beta == nil || m.Cond > 1e8 {
			continue
		}
		phi := c15Basis("mono", d).values(xs)
		qr := ref.QRSolve(phi, ys, ws)
		if qr == nil {
			return fmt.Errorf("QR second opinion failed on self-test problem %d", k)
		}
		for j := range qr {
			if math.Abs(qr[j]-ref.F64(m.Beta[j])) > 1e-13*math.Sqrt(m.Cond)*1e3*(m.BetaNorm+1) {
				return fmt.Errorf("self-test problem %d: 384-bit minimiser %v, QR %v", k, c15F64s(m.Beta), qr)
			}
		}
		// the gradient vanishes at the minimiser and S grows away from it
		for _, g := range m.Grad(m.Beta) {
			if math.Abs(ref.F64(g)) > 1e-90*(m.FNorm*m.YNorm+1) {
				return fmt.Errorf("self-test problem %d: gradient %g at the reference minimiser", k, ref.F64(g))
			}
		}
	}
	// an exact line
	m := ref.NewLSQ(ref.MonomialsBig([]float64{0, 1, 2, 3, 4}, 1), []float64{2, 5, 8, 11, 14}, nil)
	if m.Beta == nil || ref.F64(m.Beta[0]) != 2 || ref.F64(m.Beta[1]) != 3 {
		return fmt.Errorf("exact line not recovered: %v", c15F64s(m.Beta))
	}
	// ceil(span*n)
	if e, r := ref.CeilProduct(0.5, 10); e != 5 || r != 5 {
		return fmt.Errorf("CeilProduct(0.5,10)=%d,%d", e, r)
	}
	if e, r := ref.CeilProduct(0.33, 21); e != 7 || r != 7 {
		return fmt.Errorf("CeilProduct(0.33,21)=%d,%d", e, r)
	}
	// the LOWESS example of the NIST/SEMATECH e-Handbook (section 4.1.4.4),
	// degree 1, span 0.33: published fitted values
	nx := []float64{0.5578196, 2.0217271, 2.5773252, 3.4140288, 4.3014084, 4.7448394, 5.1073781, 6.5411662, 6.7216176, 7.2600583, 8.1335874, 9.1224379, 11.9296663, 12.3797674, 13.2728619, 14.2767453, 15.3731026, 15.6476637, 18.5605355, 18.5866354, 18.7572812}
	ny := []float64{18.63654, 103.49646, 150.35391, 190.51031, 208.70115, 213.71135, 228.49353, 233.55387, 234.55054, 223.89225, 227.68339, 223.91982, 168.01999, 164.95750, 152.61107, 160.78742, 168.55567, 152.42658, 221.70702, 222.69040, 243.18828}
	nf := []float64{20.59302, 107.1603, 139.7674, 174.2630, 207.2334, 216.6616, 220.5445, 229.8607, 229.8347, 229.4301, 226.6045, 220.3904, 172.3480, 163.8417, 161.8490, 160.3351, 160.1920, 161.0556, 227.3400, 227.8985, 231.5586}
	for i, x := range nx {
		wins, _ := ref.LoessNearest(nx, 7, x, 1e-12)
		f := ref.LoessAt(nx, ny, wins[0], 1, x)
		if !f.OK || math.Abs(f.Value-nf[i]) > 2e-6*math.Abs(nf[i]) {
			return fmt.Errorf("NIST LOWESS example: reference gives %.9g at x=%g, published %.7g", f.Value, x, nf[i])
		}
	}
	return nil
}

func c15Run(r *mon.Run) {
	r.Rule("designs: 3..40 distinct x in [-2,2] (uniform, equispaced, dyadic grid, two clusters), for degree<=2 also mapped to [10,12] and [0,1e3]; weights nil / log-uniform 1e-2..1e2 / constant / small integers; LinearLeastSquares on monomials 0..6, {1,sin,cos}, {1,x,exp}, a 5-function mixed basis and the constant-free bases {x}, {x,x^2}, {sin,cos}, in a third of the cases with the terms reversed (constant last) or shuffled; in a third of the weighted cases the weight vector is multiplied by 10^U(-30,30), in a quarter of all cases ys by 2^k (|k|<=330) and, for polynomial designs on [-2,2], xs by 2^k (|k|<=16/degree; any for degree 0); every LinearLeastSquares / PolynomialRegression fit is repeated with all weights multiplied by a random 10^U(-30,30) (no weights: the constant weight) and must not move; PolynomialRegression degree 0..6 on exact, rounded and noisy polynomial data and smooth data; LOESS degree 0..2, ceil(span*n) from degree+2 (the farthest point has weight 0: interpolation of the degree+1 others) to n, sorted and shuffled input, queries inside, at data, at and beyond both ends and around window switches. LinearLeastSquares also with 8..12 functions of the Fourier basis {1, sin(k pi x/2), cos(k pi x/2)} and of the Chebyshev basis {T_k(x/2)} on n >= p+2 points; every 53rd (LOESS: 29th) random case has ys identically zero (exact minimiser 0) and every 29th LOESS case a stretch of >= ceil(span*n) zero ys with queries whose whole window lies on it; histories (single goroutine): two independent data sets of the same size written alternately (A,B,A,B) in place into the same xs/ys/weights arrays, each call judged against the reference of the numbers then in the arrays. Every LinearLeastSquares case hands the same slice of basis functions (half of them written as for i := range termOut, half ranging over xs) to both of its calls, a history to all calls with that basis, and evaluates its elements afterwards: they must still be the caller's functions, and must have been called with len(termOut) == len(xs). Every returned parameter slice is checked for memory shared with the earlier results the caller holds and overwritten (with its spare capacity) before the next call. LOESS also on abscissae in groups of 1..4 points at relative gaps 2^-20..2^-45 with windows inside one group (degree 0 mostly; cond 1). Large designs: LinearLeastSquares (all bases; Fourier/Chebyshev up to 800 points), PolynomialRegression degree 0..6 and LOESS degree 0..2 on 41..3000 (thorough 6000; LOESS half of that) distinct x of the same four kinds of design (dyadic grid k/2^m), half of the sizes log-uniform and half at, just beyond or well beyond 64, 100, 128, .., 2048, 3000, 4096 and their doubles, a third handed over in ascending order of x; weights nil (a quarter) / independent log-uniform 1e-2..1e2 / small integers / constant on 2..8 stretches of consecutive points / a smooth trend exp(a*i/n) along the order of the points / constant; LOESS windows of a third of the data or more in half of the cases (tricube weights over hundreds to thousands of points), ten queries per case above 500 points; same oracles and tolerances (these grow with n+p). Designs with cond(X^T W X) > 1e10 are skipped. Non-trivial = hits a class; distinct by hash of (op, basis, degree, xs, ys, weights, span, order).")
	r.Assume("reference: exact minimiser by 384-bit Gaussian elimination of the normal equations formed from the float64 inputs, cross-checked at start-up against gonum Householder QR and the published NIST LOWESS example; condition numbers from gonum/mat SVD of X^T W X",
		"the basis functions handed to LinearLeastSquares are pure; their float64 values define the problem",
		"tolerances: backward-stable normal-equations bound with C=16 (see the head of props/c15.go)")
	r.Gate("degree>=3", "weights-present", "weights-nil", "shuffled-input", "span*n-not-integer", "span*n-integer", "query-outside-data", "query-at-end", "query-inside", "query-at-datum",
		"exact-polynomial-data", "lls-basis-mono", "lls-basis-trig", "lls-basis-exp", "lls-basis-mixed", "lls-monomial-degree>=3", "locality-checked", "loess-polynomial-data", "window-is-all-data",
		"loess-degree-0", "loess-degree-1", "loess-degree-2", "poly-degree-6",
		"lls-basis-x", "lls-basis-x-x2", "lls-basis-sincos", "lls-no-constant-term", "lls-constant-not-first", "lls-constant-last", "lls-terms-permuted",
		"weights-all-tiny(<1e-6)", "weights-all-huge(>1e6)", "ys-all-tiny(<1e-30)", "ys-huge(>1e30)", "xs-rescaled", "weight-scale-law-checked",
		"loess-q==degree+2(interpolation)", "loess-q==2-degree-0(nearest-point)",
		"lls-ys-all-zero", "poly-ys-all-zero", "loess-ys-all-zero", "loess-window-all-zero-ys",
		"p>=8", "lls-basis-fourier", "lls-basis-cheb",
		"history-lls", "history-poly", "history-loess",
		"lls-term-ranges-over-termOut", "lls-term-ranges-over-termOut(n%4!=0)", "lls-terms-slice-reused", "lls-terms-slice-probed-after-call",
		"history-terms-slice-reused", "history-terms-slice-reused-weighted",
		"loess-window-of-near-coincident-x", "loess-window-of-near-coincident-x-no-tie", "loess-window-width<1e-10|x|",
		"result-checked-for-memory-shared-with-earlier-result", "fit-after-earlier-result-overwritten", "zero-ys-fit-after-earlier-result-overwritten",
		"large-n-lls", "large-n-poly", "large-n-loess", "large-n-unweighted", "large-n-weights-nonuniform", "large-n-xs-ascending",
		"n>2048", "weights-nonuniform-n>64", "weights-nonuniform-n>128", "weights-nonuniform-n>256", "weights-nonuniform-n>512", "weights-nonuniform-n>1024", "weights-nonuniform-n>2048",
		"loess-window>64", "loess-window>128", "loess-window>256", "loess-window>512", "loess-window>1024")
	if err := c15SelfTest(); err != nil {
		r.Inconclusive("reference self-test failed: " + err.Error())
		return
	}

	// every 53rd / 29th case of the three random classes has ys that are
	// identically zero (the minimiser is exactly 0); every 29th LOESS case has
	// a stretch of at least ceil(span*n) zero ys among arbitrary data
	r.Parallel("lls", r.Pick(4000, 40000), func(w *mon.W, i int) {
		c := c15GenLLS(w.Rng, i, c15Opt{})
		if i%53 == 52 {
			c15ZeroYs(&c)
		}
		c15Judge(w, c)
		w.Distinct(c15Hash(c))
	})
	// LinearLeastSquares with 8..12 basis functions
	r.Parallel("lls-wide", r.Pick(160, 1600), func(w *mon.W, i int) {
		c := c15GenLLS(w.Rng, i, c15Opt{basis: []string{"fourier", "cheb"}[i%2], p: 8 + (i/2)%5})
		if i%31 == 30 {
			c15ZeroYs(&c)
		}
		c15Judge(w, c)
		w.Distinct(c15Hash(c))
	})
	r.Parallel("poly", r.Pick(4000, 40000), func(w *mon.W, i int) {
		c := c15GenPoly(w.Rng, i, c15Opt{})
		if i%53 == 52 {
			c15ZeroYs(&c)
		}
		c15Judge(w, c)
		w.Distinct(c15Hash(c))
	})
	r.Parallel("loess", r.Pick(1500, 15000), func(w *mon.W, i int) {
		c := c15GenLOESS(w.Rng, i)
		switch i % 29 {
		case 28:
			c15ZeroYs(&c)
		case 14:
			c15ZeroPlateau(w.Rng, &c)
		}
		c15Judge(w, c)
		w.Distinct(c15Hash(c))
	})
	// abscissae in groups of near-coincident points
	r.Parallel("loess-near-coincident", r.Pick(400, 4000), func(w *mon.W, i int) {
		c := c15GenLoessNear(w.Rng, i)
		c15Judge(w, c)
		w.Distinct(c15Hash(c))
	})
	// large designs: the same three operations on 41 to a few thousand points
	// (sizes log-uniform and at / just beyond round numbers), judged by the
	// same oracles against the same 384-bit minimiser
	maxN := r.Pick(3000, 6000)
	r.Parallel("lls-large", r.Pick(150, 1500), func(w *mon.W, i int) {
		opt := c15Opt{n: c15LargeN(w.Rng, maxN), large: true}
		if i%10 == 9 {
			opt.basis, opt.p = []string{"fourier", "cheb"}[(i/10)%2], 8+(i/20)%5
			opt.n = imin(opt.n, 800)
		}
		c := c15GenLLS(w.Rng, i, opt)
		c15Judge(w, c)
		w.Distinct(c15Hash(c))
	})
	r.Parallel("poly-large", r.Pick(150, 1500), func(w *mon.W, i int) {
		c := c15GenPoly(w.Rng, i, c15Opt{n: c15LargeN(w.Rng, maxN), large: true})
		c15Judge(w, c)
		w.Distinct(c15Hash(c))
	})
	r.Parallel("loess-large", r.Pick(60, 600), func(w *mon.W, i int) {
		c := c15GenLoessLarge(w.Rng, i, maxN/2)
		c15Judge(w, c)
		w.Distinct(c15Hash(c))
	})
	// histories run on one goroutine with nothing else in flight: whatever the
	// library may remember between two calls is not disturbed by other cases
	for _, op := range []string{"lls", "poly", "loess"} {
		op := op
		r.Serial("history-"+op, r.Pick(24, 240), func(w *mon.W, i int) {
			c := c15GenHistory(w.Rng, op, i)
			c15Judge(w, c)
			w.Distinct(c15Hash(c))
		})
	}

	// enumerated LOESS space: every (n, degree, q) with q >= degree+2 for
	// small n on an irregular grid, queries at every datum, at every window
	// switch point and just either side of it
	maxEnum := r.Pick(14, 24)
	type ndq struct{ n, d, q int }
	var space []ndq
	for n := 3; n <= maxEnum; n++ {
		for d := 0; d <= 2; d++ {
			for q := d + 2; q <= n; q++ {
				space = append(space, ndq{n, d, q})
			}
		}
	}
	r.Exhaustive(fmt.Sprintf("LOESS: all (n, degree, q=ceil(span*n)) with 3<=n<=%d, degree 0..2, degree+2<=q<=n; queries at every datum, every window switch point and 1e-6 either side", maxEnum))
	r.Parallel("loess-enum", len(space), func(w *mon.W, i int) {
		s := space[i]
		rng := w.Rng
		c := c15Case{Op: "loess", Degree: s.d, Seed: rng.Uint64()}
		xs := make([]float64, s.n)
		x := rng.Uniform(-2, -1.5)
		for k := range xs {
			xs[k] = x
			x += rng.Uniform(0.02, 3.5/float64(s.n))
		}
		ys := c15Smooth(rng, xs, "")
		span := (float64(s.q) - 0.5) / float64(s.n)
		qs := append([]float64(nil), xs...)
		for k := 0; k+s.q < s.n; k++ {
			m := (xs[k] + xs[k+s.q]) / 2
			qs = append(qs, m, m-1e-6, m+1e-6)
		}
		qs = append(qs, xs[0]-0.3, xs[s.n-1]+0.3)
		c.Xs, c.Ys, c.Span, c.Qs, c.Perm = mon.Fs(xs), mon.Fs(ys), mon.F(span), mon.Fs(qs), rng.Perm(s.n)
		w.Hit("loess-enumerated")
		c15Judge(w, c)
		w.Distinct(c15Hash(c))
	})
}
