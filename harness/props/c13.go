package props

import (
	"encoding/json"
	"fmt"
	"math"
	"strings"

	"github.com/aclements/go-moremath/stats"

	"verifmon/mon"
	"verifmon/ref"
)

// C13 — StreamStats equals batch statistics for every stream and every split.
//
// M-model: every accumulator of a history is shadowed by the list of values
// it logically contains (ref.StreamModel). After every Add / Combine the
// accumulator that was written is compared with the 400-bit batch statistics
// of its list, and every other accumulator (the argument of Combine first of
// all) must be bit-for-bit what it was (M-guard through the exported fields
// and the methods).

// c13Op is one step of a history: K=0 is acc[A].Add(X), K=1 is
// acc[A].Combine(&acc[B]) with A != B.
type c13Op struct {
	K int   `json:"k"`
	A int   `json:"a"`
	B int   `json:"b,omitempty"`
	X mon.F `json:"x,omitempty"`
}

type c13Case struct {
	NAcc int     `json:"nacc"`
	Ops  []c13Op `json:"ops"`
	Tag  string  `json:"tag,omitempty"` // what the generator meant (informational)
}

func init() {
	mon.Register(&mon.Prop{ID: "C13", Run: c13Run, Replay: func(w *mon.W, v *mon.ViolationRec) {
		var c c13Case
		if json.Unmarshal(v.Case, &c) == nil {
			c13Judge(w, c)
		}
	}})
}

const (
	c13MaxAcc   = 6
	c13MaxCount = 200 // logical values per accumulator
	c13Eps      = 0x1p-52
	c13C        = 16.0 // DESIGN section 4, policy (b)
)

// c13Obs is everything the API lets one see of an accumulator.
type c13Obs struct {
	Count                      uint
	Total, Min, Max            float64
	Weight, Mean, RMS, Var, SD float64
}

func (a c13Obs) same(b c13Obs) bool {
	eq := func(x, y float64) bool { return math.Float64bits(x) == math.Float64bits(y) }
	return a.Count == b.Count && eq(a.Total, b.Total) && eq(a.Min, b.Min) && eq(a.Max, b.Max) &&
		eq(a.Weight, b.Weight) && eq(a.Mean, b.Mean) && eq(a.RMS, b.RMS) && eq(a.Var, b.Var) && eq(a.SD, b.SD)
}

// c13Observe reads the accumulator. Only what the statement gives a meaning
// for n values is called: Mean and RMS need one value, Variance and StdDev
// two (n is the model's count, not the library's).
func c13Observe(s *stats.StreamStats, n int) (o c13Obs, pmsg string) {
	call := func(name string, f func()) {
		if p, v := mon.Call(f); p && pmsg == "" {
			pmsg = fmt.Sprintf("%s() panicked: %v", name, v)
		}
	}
	o.Count, o.Total, o.Min, o.Max = s.Count, s.Total, s.Min, s.Max
	call("Weight", func() { o.Weight = s.Weight() })
	if n >= 1 {
		call("Mean", func() { o.Mean = s.Mean() })
		call("RMS", func() { o.RMS = s.RMS() })
	}
	if n >= 2 {
		call("Variance", func() { o.Var = s.Variance() })
		call("StdDev", func() { o.SD = s.StdDev() })
	}
	return
}

func c13ShowVals(xs []float64) string {
	var b strings.Builder
	b.WriteByte('[')
	for i, x := range xs {
		if i == 10 && len(xs) > 12 {
			fmt.Fprintf(&b, " …(%d more)", len(xs)-i)
			break
		}
		if i > 0 {
			b.WriteByte(' ')
		}
		fmt.Fprintf(&b, "%v", x)
	}
	b.WriteByte(']')
	return b.String()
}

func (o c13Op) String() string {
	if o.K == 0 {
		return fmt.Sprintf("acc[%d].Add(%v)", o.A, float64(o.X))
	}
	return fmt.Sprintf("acc[%d].Combine(&acc[%d])", o.A, o.B)
}

// c13Judge executes a history and judges every step. It stops at the first
// step that is refuted (the accumulators are not trustworthy afterwards) and
// reports the history truncated to that step.
func c13Judge(w *mon.W, c c13Case) {
	na := c.NAcc
	if na < 1 || na > 64 {
		return
	}
	accs := make([]stats.StreamStats, na) // zero values, adjacent in memory
	mods := make([]*ref.StreamModel, na)
	last := make([]c13Obs, na)
	bothEmpty := make([]bool, na) // receiver of an empty<-empty Combine, still empty
	targets := make([]map[int]bool, na)
	for i := range mods {
		mods[i] = ref.NewStreamModel()
		last[i], _ = c13Observe(&accs[i], 0)
	}
	h := mon.NewHasher().I(na)
	for _, op := range c.Ops {
		h = h.I(op.K).I(op.A).I(op.B).F(float64(op.X))
	}
	nAdd, nComb, nPos, nNeg := 0, 0, 0, 0
	maxKappa := 1.0

	defer func() {
		w.HitIf(nComb > 0 && nAdd >= 2 && nPos == nAdd, "all-positive-data")
		w.HitIf(nComb > 0 && nAdd >= 2 && nNeg == nAdd, "all-negative-data")
		w.Distinct(h.Sum())
	}()

	for step, op := range c.Ops {
		if op.A < 0 || op.A >= na || (op.K == 1 && (op.B < 0 || op.B >= na || op.B == op.A)) || (op.K != 0 && op.K != 1) {
			continue // not a history of the quantified space
		}
		x := float64(op.X)
		if op.K == 0 && (math.IsNaN(x) || math.IsInf(x, 0)) {
			continue
		}
		trunc := c13Case{NAcc: na, Ops: c.Ops[:step+1], Tag: c.Tag}
		refuted := false
		bad := func(kind, msg string) {
			refuted = true
			w.Violate(kind, fmt.Sprintf("step %d %v: %s", step, op, msg), trunc)
		}
		a := op.A
		s, m := &accs[a], mods[a]

		if op.K == 0 {
			// classes, from the model only
			if m.N() == 0 && bothEmpty[a] {
				w.Hit("both-empty-then-add")
			}
			bothEmpty[a] = false
			w.HitIf(m.N() > 0 && (x < m.Min || x > m.Max), "add-new-extreme")
			nAdd++
			if x > 0 {
				nPos++
			}
			if x < 0 {
				nNeg++
			}
			w.Eval("Add")
			if p, v := mon.Call(func() { s.Add(x) }); p {
				bad("panic-Add", fmt.Sprintf("panicked: %v", v))
				return
			}
			m.Add(x)
		} else {
			b := op.B
			o := mods[b]
			switch {
			case m.N() == 0 && o.N() == 0:
				w.Hit("both-empty")
				bothEmpty[a] = true
			case m.N() == 0:
				w.Hit("empty-receiver")
				w.HitIf(o.Min > 0, "positive-with-empty-side")
				w.HitIf(o.Max < 0, "negative-with-empty-side")
			case o.N() == 0:
				w.Hit("empty-argument")
				w.HitIf(m.Min > 0, "positive-with-empty-side")
				w.HitIf(m.Max < 0, "negative-with-empty-side")
			default:
				w.Note("both-non-empty")
				w.HitIf(o.Min < m.Min, "argument-has-new-min")
				w.HitIf(o.Max > m.Max, "argument-has-new-max")
				w.HitIf(o.N() > 4*m.N(), "argument-much-larger")
			}
			if o.N() > 0 {
				bothEmpty[a] = false
			}
			if targets[b] == nil {
				targets[b] = map[int]bool{}
			}
			targets[b][a] = true
			w.HitIf(o.N() > 0 && len(targets[b]) == 2, "repeat-source")
			nComb++
			w.Eval("Combine")
			if p, v := mon.Call(func() { s.Combine(&accs[b]) }); p {
				bad("panic-Combine", fmt.Sprintf("panicked: %v", v))
				return
			}
			d0 := m.Depth
			m.Combine(o)
			w.HitIf(d0 < 3 && m.Depth >= 3, "merge-depth>=3")
		}

		// M-guard: every accumulator but the receiver is untouched
		for i := range accs {
			if i == a {
				continue
			}
			now, pmsg := c13Observe(&accs[i], mods[i].N())
			if pmsg != "" {
				bad("panic-observe", fmt.Sprintf("acc[%d] (%d values): %s", i, mods[i].N(), pmsg))
				continue
			}
			if !now.same(last[i]) {
				kind := "bystander-modified"
				if op.K == 1 && i == op.B {
					kind = "argument-modified"
				}
				bad(kind, fmt.Sprintf("acc[%d] was %+v and is now %+v", i, last[i], now))
			}
		}

		// M-model: the receiver against the batch statistics of its values
		n := m.N()
		got, pmsg := c13Observe(s, n)
		last[a] = got
		if pmsg != "" {
			bad("panic-observe", fmt.Sprintf("acc[%d] (%d values): %s", a, n, pmsg))
			return
		}
		rf := m.Ref()
		if step == len(c.Ops)-1 || n <= 3 {
			// the running-sum reference against the definitional two-pass one
			if err := ref.StreamRefsAgree(rf, ref.StreamBatch(m.Vals)); err != nil {
				w.R.Inconclusive(fmt.Sprintf("C13 references disagree on %v: %v", m.Vals, err))
				return
			}
		}
		desc := func() string { return fmt.Sprintf("acc[%d] holds %d values %s", a, n, c13ShowVals(m.Vals)) }
		nchk := int64(2)
		if got.Count != uint(n) {
			bad("Count", fmt.Sprintf("%s: Count=%d", desc(), got.Count))
		}
		if got.Weight != float64(n) {
			bad("Weight", fmt.Sprintf("%s: Weight()=%v", desc(), got.Weight))
		}
		if n == 0 {
			nchk++
			if got.Total != 0 {
				bad("Total", fmt.Sprintf("%s: Total=%v", desc(), got.Total))
			}
		}
		if n >= 1 {
			nchk += 5
			fn := float64(n)
			if !(got.Min == rf.Min) {
				bad("Min", fmt.Sprintf("%s: Min=%v, smallest value is %v", desc(), got.Min, rf.Min))
			}
			if !(got.Max == rf.Max) {
				bad("Max", fmt.Sprintf("%s: Max=%v, largest value is %v", desc(), got.Max, rf.Max))
			}
			// Total: any summation order is within (n-1)u*sum|x|
			tol := c13C * fn * c13Eps * rf.SumAbs
			if e := ref.StreamAbsDiff(got.Total, rf.Total); !w.Err("Total", e, tol) {
				bad("Total", fmt.Sprintf("%s: Total=%.17g, sum is %.17g (err %.3g, tol %.3g)", desc(), got.Total, ref.F64(rf.Total), e, tol))
			}
			// Mean: a convex-combination update commits at most a few
			// u*max|x| per operand
			tol = c13C * fn * c13Eps * rf.MaxAbs
			if e := ref.StreamAbsDiff(got.Mean, rf.Mean); !w.Err("Mean", e, tol) {
				bad("Mean", fmt.Sprintf("%s: Mean()=%.17g, mean is %.17g (err %.3g, tol %.3g)", desc(), got.Mean, ref.F64(rf.Mean), e, tol))
			}
			// RMS: all terms positive, relative
			rms := ref.F64(rf.RMS)
			tol = c13C * fn * c13Eps * rms
			if e := ref.StreamAbsDiff(got.RMS, rf.RMS); !w.Err("RMS", e, tol) {
				bad("RMS", fmt.Sprintf("%s: RMS()=%.17g, root mean square is %.17g (err %.3g, tol %.3g)", desc(), got.RMS, rms, e, tol))
			}
		}
		if n >= 2 {
			nchk += 2
			fn := float64(n)
			v, mean, msq := ref.F64(rf.Var), ref.F64(rf.Mean), ref.F64(rf.MSq)
			// policy (b): C n eps kappa var, kappa = sqrt(1+mean^2/var), i.e.
			// kappa*var = sqrt(var*(var+mean^2)); plus the second-order term a
			// backward-stable algorithm may leave on (nearly) constant data
			k := c13C * fn * c13Eps
			tol := k*math.Sqrt(v*(v+mean*mean)) + k*k*msq
			kappa := rf.Kappa()
			if kappa > maxKappa && !math.IsInf(kappa, 0) {
				maxKappa = kappa
			}
			w.HitIf(kappa >= 1e6 && !math.IsInf(kappa, 0), "kappa>=1e6")
			w.HitIf(v == 0, "zero-variance")
			if e := ref.StreamAbsDiff(got.Var, rf.Var); !w.Err("Variance", e, tol) {
				bad("Variance", fmt.Sprintf("%s: Variance()=%.17g, sample variance is %.17g (err %.3g, tol %.3g, kappa %.3g)", desc(), got.Var, v, e, tol, kappa))
			}
			sd := ref.F64(rf.Std)
			lo := math.Sqrt(math.Max(0, v-tol)) * (1 - 4*c13Eps)
			hi := math.Sqrt(v+tol) * (1 + 4*c13Eps)
			stol := hi - sd
			if got.SD < sd {
				stol = sd - lo
			}
			if e := ref.StreamAbsDiff(got.SD, rf.Std); !w.Err("StdDev", e, stol) {
				bad("StdDev", fmt.Sprintf("%s: StdDev()=%.17g, sample standard deviation is %.17g (err %.3g, tol %.3g)", desc(), got.SD, sd, e, stol))
			}
		}
		w.EvalN("statistic-checked", nchk)
		if refuted {
			return
		}
		if step == len(c.Ops)-1 && n >= 2 && nComb > 0 && w.WantSample() {
			w.Sample(map[string]any{"tag": c.Tag, "accumulators": na, "adds": nAdd, "combines": nComb,
				"final_acc": a, "final_count": n, "merge_depth": m.Depth,
				"Mean": got.Mean, "Mean_ref": ref.F64(rf.Mean), "Variance": got.Var, "Variance_ref": ref.F64(rf.Var),
				"Min": got.Min, "Max": got.Max, "max_kappa": maxKappa})
		}
	}
}

// ---------------------------------------------------------------------------
// value generators

var c13KindNames = []string{"pos", "neg", "mixed", "offset+", "offset-", "const", "smallint+", "smallint0",
	"wide", "ascending+", "descending-", "scaled+", "scaled-", "offset1e9+", "offset1e9-"}

// c13Vals draws n values of one kind. One-signed kinds matter: the Min=0 /
// Max=0 artefacts of a merge with an empty side are invisible on data that
// straddles zero.
func c13Vals(rng *mon.Rand, kind, n int) []float64 {
	xs := make([]float64, n)
	scale := 1.0
	if rng.Intn(4) == 0 {
		scale = math.Pow(10, float64(rng.Range(-12, 12)))
	}
	switch kind {
	case 0, 1: // one-signed
		for i := range xs {
			xs[i] = rng.Uniform(0.5, 10) * scale
		}
	case 2:
		for i := range xs {
			xs[i] = rng.Norm() * scale
		}
	case 3, 4, 13, 14: // offset = 10^k * spread
		k := float64(rng.Range(1, 9))
		if kind >= 13 {
			k = 9
		}
		off := math.Pow(10, k) * scale
		if rng.Bool() {
			off *= rng.Uniform(1, 9)
		}
		for i := range xs {
			xs[i] = off + rng.Norm()*scale
		}
	case 5:
		c := rng.Uniform(0.5, 10) * scale * rng.Sign()
		for i := range xs {
			xs[i] = c
		}
	case 6:
		for i := range xs {
			xs[i] = float64(rng.Range(1, 9))
		}
	case 7:
		for i := range xs {
			xs[i] = float64(rng.Range(-4, 4))
		}
	case 8:
		for i := range xs {
			xs[i] = rng.Sign() * rng.LogUniform(1e-6, 1e6)
		}
	case 9, 10: // every value a new extreme
		v := rng.Uniform(0.5, 2) * scale
		for i := range xs {
			xs[i] = v
			v += rng.Uniform(0, 1) * scale
		}
	case 11, 12:
		sc := math.Pow(10, float64(rng.PickI(-60, -30, 30, 60)))
		for i := range xs {
			xs[i] = rng.Uniform(0.5, 10) * sc
		}
	}
	if kind == 1 || kind == 4 || kind == 10 || kind == 12 || kind == 14 {
		for i := range xs {
			xs[i] = -xs[i]
		}
	}
	return xs
}

func c13PickKind(rng *mon.Rand) int {
	// one-signed kinds get most of the weight
	return rng.PickI(0, 1, 0, 1, 2, 3, 4, 3, 4, 5, 6, 7, 8, 9, 10, 11, 12, 13, 14)
}

func c13Add(a int, x float64) c13Op { return c13Op{K: 0, A: a, X: mon.F(x)} }
func c13Comb(a, b int) c13Op        { return c13Op{K: 1, A: a, B: b} }

// c13SplitCase: values[:k] into acc 0, values[k:] into acc 1, then one merge.
func c13SplitCase(vals []float64, k int, order int, tag string) c13Case {
	c := c13Case{NAcc: 2, Tag: tag}
	if order == 2 {
		// interleaved arrival
		i, j := 0, k
		for i < k || j < len(vals) {
			if i < k {
				c.Ops = append(c.Ops, c13Add(0, vals[i]))
				i++
			}
			if j < len(vals) {
				c.Ops = append(c.Ops, c13Add(1, vals[j]))
				j++
			}
		}
		c.Ops = append(c.Ops, c13Comb(0, 1))
		return c
	}
	for _, v := range vals[:k] {
		c.Ops = append(c.Ops, c13Add(0, v))
	}
	for _, v := range vals[k:] {
		c.Ops = append(c.Ops, c13Add(1, v))
	}
	if order == 0 {
		c.Ops = append(c.Ops, c13Comb(0, 1))
	} else {
		c.Ops = append(c.Ops, c13Comb(1, 0))
	}
	return c
}

// c13Gen builds random histories; cnt shadows the logical counts so that no
// accumulator exceeds c13MaxCount values.
type c13Gen struct {
	rng  *mon.Rand
	na   int
	cnt  []int
	ops  []c13Op
	vals []float64
	vi   int
}

func newC13Gen(rng *mon.Rand, na, nvals, kind int) *c13Gen {
	return &c13Gen{rng: rng, na: na, cnt: make([]int, na), vals: c13Vals(rng, kind, nvals)}
}

func (g *c13Gen) left() int { return len(g.vals) - g.vi }

func (g *c13Gen) add(a int) bool {
	if g.vi >= len(g.vals) || g.cnt[a] >= c13MaxCount {
		return false
	}
	g.ops = append(g.ops, c13Add(a, g.vals[g.vi]))
	g.vi++
	g.cnt[a]++
	return true
}

func (g *c13Gen) addN(a, n int) {
	for i := 0; i < n; i++ {
		g.add(a)
	}
}

func (g *c13Gen) comb(a, b int) bool {
	if a == b || g.cnt[a]+g.cnt[b] > c13MaxCount {
		return false
	}
	g.ops = append(g.ops, c13Comb(a, b))
	g.cnt[a] += g.cnt[b]
	return true
}

func (g *c13Gen) other(a int) int {
	b := g.rng.Intn(g.na - 1)
	if b >= a {
		b++
	}
	return b
}

func (g *c13Gen) done(tag string) c13Case { return c13Case{NAcc: g.na, Ops: g.ops, Tag: tag} }

// free: Adds and Combines in any order over 2..6 accumulators; a subset of the
// accumulators receives no Add of its own.
func c13GenFree(rng *mon.Rand) c13Case {
	na := rng.Range(2, c13MaxAcc)
	kind := c13PickKind(rng)
	nv := rng.PickI(rng.Range(1, 12), rng.Range(1, 40), rng.Range(20, 200), 200)
	g := newC13Gen(rng, na, nv, kind)
	fed := make([]int, 0, na)
	for a := 0; a < na; a++ {
		if rng.Intn(4) != 0 {
			fed = append(fed, a)
		}
	}
	if len(fed) == 0 {
		fed = append(fed, rng.Intn(na))
	}
	pComb := rng.Pick(0.05, 0.15, 0.3)
	stuck := 0
	for g.left() > 0 && stuck < 50 {
		if rng.Float64() < pComb {
			a := rng.Intn(na)
			if !g.comb(a, g.other(a)) {
				stuck++
			}
		} else if !g.add(fed[rng.Intn(len(fed))]) {
			stuck++
		}
	}
	// finally gather what fits into one accumulator, in random order
	root := rng.Intn(na)
	for _, b := range rng.Perm(na) {
		g.comb(root, b)
	}
	return g.done("free/" + c13KindNames[kind])
}

// tree: a stream dealt to the leaves (some left empty), merged by a random
// binary tree; some nodes keep receiving values between merges.
func c13GenTree(rng *mon.Rand) c13Case {
	na := rng.Range(3, c13MaxAcc)
	kind := c13PickKind(rng)
	nv := rng.PickI(rng.Range(2, 20), rng.Range(10, 100), rng.Range(100, 200))
	g := newC13Gen(rng, na, nv, kind)
	emptyLeaf := -1
	if rng.Intn(3) == 0 {
		emptyLeaf = rng.Intn(na)
	}
	lump := rng.Intn(3) == 0 // one leaf gets most of the stream
	budget := nv
	if rng.Bool() {
		budget = nv * 2 / 3 // the rest arrives between merges
	}
	for it := 0; g.vi < budget && it < 2000; it++ {
		a := rng.Intn(na)
		if lump && rng.Intn(4) != 0 {
			a = (emptyLeaf + 1 + na) % na
		}
		if a == emptyLeaf {
			continue
		}
		if !g.add(a) {
			break
		}
	}
	live := rng.Perm(na)
	chain := rng.Intn(3) == 0 // a comb: depth = number of merges
	for len(live) > 1 {
		i, j := rng.Intn(len(live)), 0
		if chain {
			i = 0
		}
		j = rng.Intn(len(live) - 1)
		if j >= i {
			j++
		}
		a, b := live[i], live[j]
		if rng.Intn(4) == 0 && !chain {
			a, b = b, a
			i, j = j, i
		}
		g.comb(a, b)
		live = append(live[:j], live[j+1:]...)
		if g.left() > 0 && rng.Bool() {
			g.addN(live[rng.Intn(len(live))], rng.Range(1, 1+g.left()/2))
		}
	}
	g.addN(live[0], g.left())
	return g.done("tree/" + c13KindNames[kind])
}

// empties: the histories in which one or both sides of a merge have received
// nothing.
func c13GenEmpties(rng *mon.Rand, i int) c13Case {
	na := rng.Range(2, c13MaxAcc)
	kind := c13PickKind(rng)
	if i%2 == 0 {
		kind = rng.PickI(0, 1, 3, 4, 6, 9, 10, 11, 12) // one-signed
	}
	nv := rng.PickI(1, 2, 3, rng.Range(4, 30), rng.Range(30, 150))
	g := newC13Gen(rng, na, nv, kind)
	few := func() int { return rng.Range(1, 1+g.left()/2) }
	a := rng.Intn(na)
	b := g.other(a)
	script := i % 8
	switch script {
	case 0: // empty receiver
		g.addN(b, few())
		g.comb(a, b)
		if rng.Bool() {
			g.addN(a, few())
		}
	case 1: // empty argument
		g.addN(a, few())
		g.comb(a, b)
		if rng.Bool() {
			g.addN(a, few())
		}
	case 2: // both empty, then Add
		g.comb(a, b)
		g.addN(a, few())
		if rng.Bool() {
			g.addN(b, few())
			g.comb(a, b)
		}
	case 3: // both empty, both orders, then Add to both, then merge
		g.comb(a, b)
		g.comb(b, a)
		g.addN(b, few())
		g.addN(a, few())
		if rng.Bool() {
			g.comb(b, a)
		} else {
			g.comb(a, b)
		}
	case 4: // a chain of empties handed along, then filled
		for k := 0; k < na; k++ {
			g.comb(k, (k+1)%na)
		}
		g.addN(a, few())
		g.comb(b, a)
		g.addN(b, few())
	case 5: // empty argument merged repeatedly between Adds
		for it := 0; g.left() > 0 && it < 400; it++ {
			g.addN(a, rng.Range(1, 3))
			g.comb(a, b)
		}
	case 6: // filled accumulator copied into several empty ones, which then diverge
		g.addN(a, few())
		for k := 0; k < na; k++ {
			if k != a {
				g.comb(k, a)
			}
		}
		for it := 0; g.left() > 0 && it < 400; it++ {
			g.add(rng.Intn(na))
		}
		for k := 0; k < na; k++ {
			g.comb(a, k)
		}
	default: // random mixture with most accumulators empty
		for it := 0; g.left() > 0 && it < 600; it++ {
			switch rng.Intn(3) {
			case 0:
				g.add(a)
			case 1:
				x := rng.Intn(na)
				g.comb(x, g.other(x))
			default:
				g.add(rng.Intn(na))
			}
		}
	}
	g.addN(a, g.left()*rng.Intn(2))
	return g.done(fmt.Sprintf("empties%d/%s", script, c13KindNames[kind]))
}

// repeat: the same source merged into several targets, more than once.
func c13GenRepeat(rng *mon.Rand) c13Case {
	na := rng.Range(3, c13MaxAcc)
	kind := c13PickKind(rng)
	nv := rng.PickI(rng.Range(3, 20), rng.Range(10, 60), rng.Range(40, 120))
	g := newC13Gen(rng, na, nv, kind)
	src := rng.Intn(na)
	g.addN(src, rng.Range(1, 1+nv/3))
	rounds := rng.Range(1, 3)
	for r := 0; r < rounds; r++ {
		for t := 0; t < na; t++ {
			if t == src {
				continue
			}
			if rng.Intn(3) != 0 {
				g.addN(t, rng.Range(0, 1+g.left()/(2*na)))
			}
			g.comb(t, src)
		}
		g.addN(src, rng.Range(0, 1+g.left()/2))
	}
	root := g.other(src)
	for _, t := range rng.Perm(na) {
		if t != src {
			g.comb(root, t)
		}
	}
	g.addN(root, rng.Intn(1+g.left()))
	return g.done("repeat/" + c13KindNames[kind])
}

// ---------------------------------------------------------------------------

func c13Run(r *mon.Run) {
	r.Rule("histories of Add and Combine over up to 6 accumulators of up to 200 logical values each; after every step the written accumulator is compared with the 400-bit batch statistics of the values it logically contains (Count, Weight exact; Min, Max equal; Total within 16 n eps sum|x|; Mean within 16 n eps max|x|; RMS within 16 n eps relative; for n>=2 Variance within 16 n eps kappa var (+ second-order term), StdDev the square root of that window) and every other accumulator must be bit-identical to its last observation. Enumerated: every split point of streams of length <=12 in three arrival/merge orders x all value kinds; every pair of split points of streams <=8 (thorough 12) x four merge orders; every sequence of 5 (thorough 6) operations from {Add to one of 3, Combine of an ordered pair of 3} on positive and on negative data. Random: free, merge-tree, empty-side and repeated-source histories. Non-trivial: the history hits a class (empty side, both-empty-then-add, new extreme, depth, kappa, repeat source ...); distinct by hash of the operation list.")
	r.Assume("values are finite with 1e-72 <= |x| <= 1e72 or zero: squares neither overflow nor underflow",
		"offset/spread (the condition number kappa of the variance) is at most about 1e10, the design's hostile range",
		"statistics of an accumulator holding no value are not judged beyond Count=0, Total=0; Variance and StdDev only from two values",
		"s.Combine(s) is outside the quantifier ('any two') and not generated")
	r.Gate("empty-receiver", "empty-argument", "both-empty-then-add", "all-positive-data", "all-negative-data",
		"positive-with-empty-side", "negative-with-empty-side", "merge-depth>=3", "kappa>=1e6", "repeat-source",
		"argument-has-new-min", "argument-has-new-max")
	if err := ref.StreamSelfTest(); err != nil {
		r.Inconclusive("reference self-test failed: " + err.Error())
		return
	}
	nk := len(c13KindNames)

	// 1. every split point of every stream length <= 12
	type split struct{ L, k, order, kind int }
	var sp []split
	for L := 0; L <= 12; L++ {
		for k := 0; k <= L; k++ {
			for order := 0; order < 3; order++ {
				for kind := 0; kind < nk; kind++ {
					sp = append(sp, split{L, k, order, kind})
				}
			}
		}
	}
	r.Exhaustive("every split point k=0..L of every stream length L<=12, merged as a<-b, b<-a and after interleaved arrival, for each of the value kinds")
	r.Parallel("split", len(sp), func(w *mon.W, i int) {
		s := sp[i]
		vals := c13Vals(w.Rng, s.kind, s.L)
		w.HitIf(s.k == 0 || s.k == s.L, "split-at-end")
		c13Judge(w, c13SplitCase(vals, s.k, s.order, fmt.Sprintf("split L=%d k=%d order=%d/%s", s.L, s.k, s.order, c13KindNames[s.kind])))
	})

	// 2. every pair of split points, both associations
	maxL3 := r.Pick(8, 12)
	type split3 struct{ L, i, j, assoc int }
	var sp3 []split3
	for L := 0; L <= maxL3; L++ {
		for i := 0; i <= L; i++ {
			for j := i; j <= L; j++ {
				for assoc := 0; assoc < 4; assoc++ {
					sp3 = append(sp3, split3{L, i, j, assoc})
				}
			}
		}
	}
	r.Exhaustive(fmt.Sprintf("every pair of split points i<=j of every stream length L<=%d, merged as (a<-b)<-c, a<-(b<-c), (c<-b)<-a, (a<-c)<-b", maxL3))
	r.Parallel("split3", len(sp3), func(w *mon.W, idx int) {
		s := sp3[idx]
		kind := c13PickKind(w.Rng)
		vals := c13Vals(w.Rng, kind, s.L)
		c := c13Case{NAcc: 3, Tag: fmt.Sprintf("split3 L=%d i=%d j=%d assoc=%d/%s", s.L, s.i, s.j, s.assoc, c13KindNames[kind])}
		for _, v := range vals[:s.i] {
			c.Ops = append(c.Ops, c13Add(0, v))
		}
		for _, v := range vals[s.i:s.j] {
			c.Ops = append(c.Ops, c13Add(1, v))
		}
		for _, v := range vals[s.j:] {
			c.Ops = append(c.Ops, c13Add(2, v))
		}
		switch s.assoc {
		case 0:
			c.Ops = append(c.Ops, c13Comb(0, 1), c13Comb(0, 2))
		case 1:
			c.Ops = append(c.Ops, c13Comb(1, 2), c13Comb(0, 1))
		case 2:
			c.Ops = append(c.Ops, c13Comb(2, 1), c13Comb(2, 0))
		default:
			c.Ops = append(c.Ops, c13Comb(0, 2), c13Comb(0, 1))
		}
		c13Judge(w, c)
	})

	// 3. every operation sequence of a fixed length over three accumulators
	// (every prefix is judged on the way), on positive and on negative data
	seqLen := r.Pick(5, 6)
	alphabet := []c13Op{c13Add(0, 0), c13Add(1, 0), c13Add(2, 0),
		c13Comb(0, 1), c13Comb(0, 2), c13Comb(1, 0), c13Comb(1, 2), c13Comb(2, 0), c13Comb(2, 1)}
	nseq := 1
	for i := 0; i < seqLen; i++ {
		nseq *= len(alphabet)
	}
	r.Exhaustive(fmt.Sprintf("every sequence of %d operations (and so every shorter one) from {acc[i].Add, acc[i].Combine(&acc[j]), i!=j} over 3 accumulators, once on positive and once on negative values", seqLen))
	r.Parallel("enum-ops", 2*nseq, func(w *mon.W, idx int) {
		neg := idx%2 == 1
		code := idx / 2
		kind := w.Rng.PickI(0, 3, 6, 9, 13)
		vals := c13Vals(w.Rng, kind, seqLen)
		c := c13Case{NAcc: 3, Tag: "enum-ops/" + c13KindNames[kind]}
		if neg {
			c.Tag += "/negated"
		}
		vi := 0
		for s := 0; s < seqLen; s++ {
			op := alphabet[code%len(alphabet)]
			code /= len(alphabet)
			if op.K == 0 {
				x := vals[vi]
				vi++
				if neg {
					x = -x
				}
				op.X = mon.F(x)
			}
			c.Ops = append(c.Ops, op)
		}
		c13Judge(w, c)
	})

	// 4. random histories (3 000 quick / 50 000 thorough)
	r.Parallel("hist-free", r.Pick(1200, 20000), func(w *mon.W, i int) { c13Judge(w, c13GenFree(w.Rng)) })
	r.Parallel("hist-tree", r.Pick(800, 14000), func(w *mon.W, i int) { c13Judge(w, c13GenTree(w.Rng)) })
	r.Parallel("hist-empties", r.Pick(500, 8000), func(w *mon.W, i int) { c13Judge(w, c13GenEmpties(w.Rng, i)) })
	r.Parallel("hist-repeat", r.Pick(500, 8000), func(w *mon.W, i int) { c13Judge(w, c13GenRepeat(w.Rng)) })
}
