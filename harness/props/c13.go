package props

import (
	"encoding/json"
	"fmt"
	"math"
	"sort"
	"strings"

	"github.com/aclements/go-moremath/stats"

	"verifmon/mon"
	"verifmon/ref"
)

// C13 — StreamStats equals batch statistics for every stream and every split.
//
// M-model: every accumulator of a history is shadowed by the list of values
// it logically contains (ref.StreamModel). Whenever a statistic of an
// accumulator is observed it is compared with the 400-bit batch statistic of
// that list, or - if the same statistic was already observed since the
// accumulator was last written - it must be bit-for-bit what it was (M-guard:
// the argument of Combine first of all). The exported fields are read after
// every step (reading a field cannot change anything); WHICH methods are
// called WHEN is part of the history (the observation policy of the case):
// an implementation may keep state that is brought up to date lazily, by the
// readers, so "Add, Add, Combine, read once at the end" is a different
// history from the one in which everything is read after every step.

// c13Op is one step of a history: K=0 is acc[A].Add(X), K=1 is
// acc[A].Combine(&acc[B]) with A != B.
type c13Op struct {
	K int   `json:"k"`
	A int   `json:"a"`
	B int   `json:"b,omitempty"`
	X mon.F `json:"x"` // no omitempty: a replayed Add(-0) must stay Add(-0)
}

// Observation policies.
const (
	c13PolAll     = 0 // every statistic of every accumulator after every step, in the fixed order Weight, Mean, RMS, Variance, StdDev
	c13PolWritten = 1 // after every step only the accumulator just written (all statistics in a drawn order, or one statistic only)
	c13PolFinal   = 2 // no method is called until the last step; then every statistic of every accumulator in a drawn order
	c13PolRandom  = 3 // after every step each accumulator is read with a per-case probability (drawn order, or one statistic only)
)

var c13PolNames = []string{"obs=all", "obs=written", "obs=final", "obs=random"}

type c13Case struct {
	NAcc int     `json:"nacc"`
	Ops  []c13Op `json:"ops"`
	Tag  string  `json:"tag,omitempty"` // what the generator meant (informational)
	// Pol is the observation policy. Every drawn choice of the observer
	// (which accumulators, which statistics, in which order, and the reads in
	// undefined states) is a function of (OSeed, step index) only, so a
	// history cut at a step re-executes identically.
	Pol   int    `json:"pol,omitempty"`
	OSeed uint64 `json:"oseed,omitempty"`
	// End is the length of the history this one was cut from (0: len(Ops));
	// the read of everything happens after step End-1 only.
	End int `json:"end,omitempty"`
	// Poke: Mean, RMS, Variance, StdDev and String are now and then called on
	// accumulators holding no value (or one value: Variance, StdDev, String)
	// and the results are discarded.
	Poke bool `json:"poke,omitempty"`
}

func init() {
	mon.Register(&mon.Prop{ID: "C13", Run: c13Run, Replay: func(w *mon.W, v *mon.ViolationRec) {
		var probe struct {
			Big bool `json:"big"`
		}
		if json.Unmarshal(v.Case, &probe) == nil && probe.Big {
			var bc c13BigCase
			if json.Unmarshal(v.Case, &bc) == nil {
				c13JudgeBig(w, bc)
			}
			return
		}
		var c c13Case
		if json.Unmarshal(v.Case, &c) == nil {
			c13Judge(w, c)
		}
	}})
}

const (
	c13MaxAcc   = 6
	c13MaxCount = 200 // logical values per accumulator
	c13Eps      = 0x1p-52
	c13C        = 16.0 // DESIGN section 4, policy (b)
)

// The observers (methods); the exported fields are c13Fields.
const (
	c13Weight = iota
	c13Mean
	c13RMS
	c13Var
	c13SD
	c13NStat
	c13Str // String(), only ever called without judging the result
)

var c13StatNames = [...]string{"Weight", "Mean", "RMS", "Variance", "StdDev", "", "String"}

type c13Fields struct {
	Count           uint
	Total, Min, Max float64
}

func c13ReadFields(s *stats.StreamStats) c13Fields {
	return c13Fields{s.Count, s.Total, s.Min, s.Max}
}

func (a c13Fields) same(b c13Fields) bool {
	eq := func(x, y float64) bool { return math.Float64bits(x) == math.Float64bits(y) }
	return a.Count == b.Count && eq(a.Total, b.Total) && eq(a.Min, b.Min) && eq(a.Max, b.Max)
}

// c13Read calls one observer.
func c13Read(s *stats.StreamStats, k int) (v float64, pmsg string) {
	p, pv := mon.Call(func() {
		switch k {
		case c13Weight:
			v = s.Weight()
		case c13Mean:
			v = s.Mean()
		case c13RMS:
			v = s.RMS()
		case c13Var:
			v = s.Variance()
		case c13SD:
			v = s.StdDev()
		case c13Str:
			_ = s.String()
		}
	})
	if p {
		pmsg = fmt.Sprintf("%s() panicked: %v", c13StatNames[k], pv)
	}
	return
}

// c13Allowed lists the observers the statement gives a meaning for n values:
// Mean and RMS need one value, Variance and StdDev two (n is the model's
// count, not the library's).
func c13Allowed(n int) []int {
	switch {
	case n <= 0:
		return []int{c13Weight}
	case n == 1:
		return []int{c13Weight, c13Mean, c13RMS}
	}
	return []int{c13Weight, c13Mean, c13RMS, c13Var, c13SD}
}

func c13ShowVals(xs []float64) string {
	var b strings.Builder
	b.WriteByte('[')
	for i, x := range xs {
		if i == 10 && len(xs) > 12 {
			fmt.Fprintf(&b, " …(%d more)", len(xs)-i)
			break
		}
		if i > 0 {
			b.WriteByte(' ')
		}
		fmt.Fprintf(&b, "%v", x)
	}
	b.WriteByte(']')
	return b.String()
}

func (o c13Op) String() string {
	if o.K == 0 {
		return fmt.Sprintf("acc[%d].Add(%v)", o.A, float64(o.X))
	}
	return fmt.Sprintf("acc[%d].Combine(&acc[%d])", o.A, o.B)
}

// c13Look is one visit of the observer: these methods of this accumulator,
// in this order.
type c13Look struct {
	acc   int
	stats []int
}

// c13Judge executes a history and judges every observation. It stops at the
// first step that is refuted (the accumulators are not trustworthy
// afterwards) and reports the history truncated to that step.
func c13Judge(w *mon.W, c c13Case) {
	na := c.NAcc
	if na < 1 || na > 64 {
		return
	}
	pol := c.Pol
	if pol < c13PolAll || pol > c13PolRandom {
		return
	}
	end := c.End
	if end < len(c.Ops) {
		end = len(c.Ops)
	}
	drawn := pol != c13PolAll || c.Poke   // the observer makes drawn choices
	accs := make([]stats.StreamStats, na) // zero values, adjacent in memory
	mods := make([]*ref.StreamModel, na)
	lastF := make([]c13Fields, na)         // fields after the previous step
	lastV := make([][c13NStat]float64, na) // last observed value of each statistic ...
	lastAt := make([][c13NStat]int, na)    // ... and the step it was observed after (c13None: not since the last write)
	argAt := make([]int, na)               // last step that took the accumulator as argument of Combine
	rfs := make([]*ref.StreamRef, na)      // batch statistics of the model, nil after a write
	pending := make([]int, na)             // writes since a moment reader (Mean, RMS, Variance, StdDev, String) was last called
	pokedEmpty := make([]bool, na)         // a reader was called while it held no value (or on a part it absorbed)
	pokedSingle := make([]bool, na)        // ... while it held one value
	bothEmpty := make([]bool, na)          // receiver of an empty<-empty Combine, still empty
	strRead := make([]bool, na)            // String() was called while it held two or more values (result discarded)
	targets := make([]map[int]bool, na)
	const c13None = -2
	for i := range mods {
		mods[i] = ref.NewStreamModel()
		lastF[i] = c13ReadFields(&accs[i])
		argAt[i] = c13None
		for k := range lastAt[i] {
			lastAt[i][k] = c13None
		}
	}
	h := mon.NewHasher().I(na).I(pol).B(c.Poke)
	if drawn {
		h = h.U(c.OSeed)
	}
	for _, op := range c.Ops {
		h = h.I(op.K).I(op.A).I(op.B).F(float64(op.X))
	}
	nAdd, nComb, nPos, nNeg := 0, 0, 0, 0
	maxKappa := 1.0
	pObs := 1.0
	if pol == c13PolRandom {
		pObs = mon.NewRand(c.OSeed, ^uint64(0)).Pick(0.04, 0.15, 0.4)
	}

	defer func() {
		w.HitIf(nComb > 0 && nAdd >= 2 && nPos == nAdd, "all-positive-data")
		w.HitIf(nComb > 0 && nAdd >= 2 && nNeg == nAdd, "all-negative-data")
		w.Distinct(h.Sum())
	}()

	// per-step state of the closures below
	step := -1
	var op c13Op
	var trunc c13Case
	refuted, final, inconclusive := false, false, false
	bad := func(kind, msg string) {
		refuted = true
		if step < 0 {
			w.Violate(kind, "before the first step: "+msg, trunc)
			return
		}
		w.Violate(kind, fmt.Sprintf("step %d %v: %s", step, op, msg), trunc)
	}
	desc := func(i int) string {
		return fmt.Sprintf("acc[%d] holds %d values %s", i, mods[i].N(), c13ShowVals(mods[i].Vals))
	}
	getRef := func(i int) *ref.StreamRef {
		if rfs[i] == nil {
			m := mods[i]
			rf := m.Ref()
			rfs[i] = &rf
			if (final || (pol == c13PolAll && m.N() <= 3)) && i == op.A {
				// the running-sum reference against the definitional two-pass
				// one (the accumulator written last; short lists)
				if err := ref.StreamRefsAgree(rf, ref.StreamBatch(m.Vals)); err != nil {
					w.R.Inconclusive(fmt.Sprintf("C13 references disagree on %v: %v", m.Vals, err))
					inconclusive = true
				}
			}
		}
		return rfs[i]
	}
	// varWindow: policy (b): C n eps kappa var, kappa = sqrt(1+mean^2/var), i.e.
	// kappa*var = sqrt(var*(var+mean^2)); plus the second-order term a
	// backward-stable algorithm may leave on (nearly) constant data
	varWindow := func(i int, rf *ref.StreamRef) (v, tol, kappa float64) {
		fn := float64(rf.N)
		v = ref.F64(rf.Var)
		mean, msq := ref.F64(rf.Mean), ref.F64(rf.MSq)
		k := c13C * fn * c13Eps
		// sqrt(v*(v+mean^2)) as sd*hypot(sd, mean): no fourth power of the data
		// is formed, so |x| up to 1e150 neither overflows nor underflows here
		sd := math.Sqrt(v)
		tol = k*sd*math.Hypot(sd, mean) + k*k*msq
		kappa = rf.Kappa()
		if kappa > maxKappa && !math.IsInf(kappa, 0) {
			maxKappa = kappa
		}
		w.HitIf(kappa >= 1e6 && !math.IsInf(kappa, 0), "kappa>=1e6")
		w.HitIf(v == 0, "zero-variance")
		w.HitIf(pokedEmpty[i], "read-while-empty-then-judged")
		w.HitIf(pokedSingle[i], "read-while-single-then-judged")
		return
	}
	// judgeStat: one observed statistic of acc[i] against the batch statistic
	// of the values it holds
	judgeStat := func(i, k int, got float64) {
		n := mods[i].N()
		if k == c13Weight {
			if got != float64(n) {
				bad("Weight", fmt.Sprintf("%s: Weight()=%v", desc(i), got))
			}
			return
		}
		rf := getRef(i)
		if inconclusive {
			return
		}
		w.HitIf(strRead[i], "string-read-then-judged")
		fn := float64(n)
		switch k {
		case c13Mean:
			// a convex-combination update commits at most a few u*max|x|
			// per operand
			tol := c13C * fn * c13Eps * rf.MaxAbs
			if e := ref.StreamAbsDiff(got, rf.Mean); !w.Err("Mean", e, tol) {
				bad("Mean", fmt.Sprintf("%s: Mean()=%.17g, mean is %.17g (err %.3g, tol %.3g)", desc(i), got, ref.F64(rf.Mean), e, tol))
			}
		case c13RMS:
			// all terms positive, relative
			rms := ref.F64(rf.RMS)
			tol := c13C * fn * c13Eps * rms
			if e := ref.StreamAbsDiff(got, rf.RMS); !w.Err("RMS", e, tol) {
				bad("RMS", fmt.Sprintf("%s: RMS()=%.17g, root mean square is %.17g (err %.3g, tol %.3g)", desc(i), got, rms, e, tol))
			}
		case c13Var:
			v, tol, kappa := varWindow(i, rf)
			if e := ref.StreamAbsDiff(got, rf.Var); !w.Err("Variance", e, tol) {
				bad("Variance", fmt.Sprintf("%s: Variance()=%.17g, sample variance is %.17g (err %.3g, tol %.3g, kappa %.3g)", desc(i), got, v, e, tol, kappa))
			}
		case c13SD:
			v, tol, _ := varWindow(i, rf)
			sd := ref.F64(rf.Std)
			lo := math.Sqrt(math.Max(0, v-tol)) * (1 - 4*c13Eps)
			hi := math.Sqrt(v+tol) * (1 + 4*c13Eps)
			stol := hi - sd
			if got < sd {
				stol = sd - lo
			}
			if e := ref.StreamAbsDiff(got, rf.Std); !w.Err("StdDev", e, stol) {
				bad("StdDev", fmt.Sprintf("%s: StdDev()=%.17g, sample standard deviation is %.17g (err %.3g, tol %.3g)", desc(i), got, sd, e, stol))
			}
		}
	}
	// judgeFields: the exported fields of the accumulator just written
	judgeFields := func(i int, f c13Fields) {
		m := mods[i]
		n := m.N()
		if f.Count != uint(n) {
			bad("Count", fmt.Sprintf("%s: Count=%d", desc(i), f.Count))
		}
		if n == 0 {
			if f.Total != 0 {
				bad("Total", fmt.Sprintf("%s: Total=%v", desc(i), f.Total))
			}
			return
		}
		if !(f.Min == m.Min) {
			bad("Min", fmt.Sprintf("%s: Min=%v, smallest value is %v", desc(i), f.Min, m.Min))
		}
		if !(f.Max == m.Max) {
			bad("Max", fmt.Sprintf("%s: Max=%v, largest value is %v", desc(i), f.Max, m.Max))
		}
		// Total: any summation order is within (n-1)u*sum|x|
		sumAbs, _ := m.A.Float64()
		tol := c13C * float64(n) * c13Eps * sumAbs
		if e := ref.StreamAbsDiff(f.Total, m.S); !w.Err("Total", e, tol) {
			bad("Total", fmt.Sprintf("%s: Total=%.17g, sum is %.17g (err %.3g, tol %.3g)", desc(i), f.Total, ref.F64(m.S), e, tol))
		}
	}
	// observe: one visit. A statistic already observed since the accumulator
	// was last written must not have moved; otherwise it is judged.
	nchk := int64(0)
	observe := func(lk c13Look) {
		i := lk.acc
		s := &accs[i]
		n := mods[i].N()
		for _, k := range lk.stats {
			if k != c13Weight && pending[i] > 0 {
				// the first moment reader after a run of writes
				w.HitIf(n >= 2, "cold-"+c13StatNames[k])
				w.HitIf(pending[i] >= 32, "unobserved-run>=32")
				pending[i] = 0
			}
			got, pmsg := c13Read(s, k)
			if pmsg != "" {
				bad("panic-observe", fmt.Sprintf("acc[%d] (%d values): %s", i, n, pmsg))
				return
			}
			nchk++
			if at := lastAt[i][k]; at != c13None {
				if math.Float64bits(got) != math.Float64bits(lastV[i][k]) {
					kind := "bystander-modified"
					if argAt[i] != c13None && argAt[i] > at {
						kind = "argument-modified"
					}
					bad(kind, fmt.Sprintf("acc[%d] (%d values, not written since): %s() was %.17g after step %d and is now %.17g", i, n, c13StatNames[k], lastV[i][k], at, got))
				}
			} else {
				judgeStat(i, k, got)
			}
			lastV[i][k], lastAt[i][k] = got, step
		}
	}
	// poke: readers in states where the statement gives their value no
	// meaning; the values are discarded (a panic too). Whatever they do to
	// the accumulator shows in the judged observations of later steps.
	poke := func(rs *mon.Rand) {
		for i := range accs {
			n := mods[i].N()
			if n > 1 {
				// String() where all it prints is defined: the text is not judged,
				// what the call leaves behind is (by every later observation)
				if rs.Intn(4) == 0 {
					if _, pmsg := c13Read(&accs[i], c13Str); pmsg != "" {
						w.Note("String-panicked")
					}
					w.EvalN("String-read", 1)
					pending[i] = 0
					strRead[i] = true
				}
				continue
			}
			if rs.Intn(3) != 0 {
				continue
			}
			cand := []int{c13Var, c13SD, c13Str}
			if n == 0 {
				cand = append(cand, c13Mean, c13RMS)
			}
			rs.ShuffleI(cand)
			cand = cand[:rs.Range(1, len(cand))]
			for _, k := range cand {
				if _, pmsg := c13Read(&accs[i], k); pmsg != "" {
					w.Note("undefined-state-read-panicked")
				}
			}
			w.EvalN("undefined-state-read", int64(len(cand)))
			pending[i] = 0
			if n == 0 {
				pokedEmpty[i] = true
			} else {
				pokedSingle[i] = true
			}
		}
	}
	// style of one visit: 0 fixed order, 1 drawn order, 2 one moment reader only
	visit := func(rs *mon.Rand, i, style int) c13Look {
		al := c13Allowed(mods[i].N())
		switch {
		case style == 1:
			rs.ShuffleI(al)
		case style == 2 && len(al) > 1:
			al = []int{al[1+rs.Intn(len(al)-1)]}
		}
		return c13Look{i, al}
	}

	trunc = c13Case{NAcc: na, Tag: c.Tag, Pol: pol, OSeed: c.OSeed, End: end, Poke: c.Poke}
	if pol == c13PolAll {
		for i := range accs {
			observe(c13Look{i, c13Allowed(0)})
		}
	}
	if c.Poke {
		poke(mon.NewRand(c.OSeed, 0))
	}
	if refuted {
		return
	}

	for step, op = range c.Ops {
		if op.A < 0 || op.A >= na || (op.K == 1 && (op.B < 0 || op.B >= na || op.B == op.A)) || (op.K != 0 && op.K != 1) {
			continue // not a history of the quantified space
		}
		x := float64(op.X)
		if op.K == 0 && (math.IsNaN(x) || math.IsInf(x, 0)) {
			continue
		}
		trunc.Ops = c.Ops[:step+1]
		final = step == end-1
		var rs *mon.Rand
		if drawn {
			rs = mon.NewRand(c.OSeed, uint64(step)+1)
		}
		a := op.A
		s, m := &accs[a], mods[a]

		if op.K == 0 {
			// classes, from the model only
			if m.N() == 0 && bothEmpty[a] {
				w.Hit("both-empty-then-add")
			}
			bothEmpty[a] = false
			w.HitIf(m.N() > 0 && (x < m.Min || x > m.Max), "add-new-extreme")
			if n0 := m.N(); n0 >= 1 {
				w.HitIf(n0 >= 2 && m.MaxAbs == 0 && x != 0, "zero-run-then-nonzero")
				w.HitIf(n0 >= 2 && m.MaxAbs > 0 && x == 0 && m.Vals[n0-1] == 0, "zero-run-after-nonzero")
				w.HitIf(n0 >= 8 && x != m.Vals[n0-1] && ref.StreamTailRun(m.Vals) >= 8, "constant-run>=8-then-different")
				if x != 0 {
					// the correctly rounded sum so far does not move when x is added
					t := ref.F64(m.S)
					w.HitIf(t+x == t, "add-absorbed-by-total")
				}
			}
			w.HitIf(math.Abs(x) >= 1e100 || (x != 0 && math.Abs(x) <= 1e-100), "magnitude-beyond-1e100")
			nAdd++
			if x > 0 {
				nPos++
			}
			if x < 0 {
				nNeg++
			}
			w.Eval("Add")
			if p, v := mon.Call(func() { s.Add(x) }); p {
				bad("panic-Add", fmt.Sprintf("panicked: %v", v))
				return
			}
			m.Add(x)
			pending[a]++
		} else {
			b := op.B
			o := mods[b]
			switch {
			case m.N() == 0 && o.N() == 0:
				w.Hit("both-empty")
				bothEmpty[a] = true
			case m.N() == 0:
				w.Hit("empty-receiver")
				w.HitIf(o.Min > 0, "positive-with-empty-side")
				w.HitIf(o.Max < 0, "negative-with-empty-side")
				w.HitIf(pending[b] > 0, "argument-pending-writes")
			case o.N() == 0:
				w.Hit("empty-argument")
				w.HitIf(m.Min > 0, "positive-with-empty-side")
				w.HitIf(m.Max < 0, "negative-with-empty-side")
			default:
				w.Note("both-non-empty")
				w.HitIf(o.Min < m.Min, "argument-has-new-min")
				w.HitIf(o.Max > m.Max, "argument-has-new-max")
				w.HitIf(o.N() > 4*m.N(), "argument-much-larger")
				// state a lazily updating implementation has not folded yet
				w.HitIf(pending[b] > 0, "argument-pending-writes")
				w.HitIf(pending[a] > 0, "receiver-pending-writes")
				w.HitIf(pending[a] >= 2 && pending[b] >= 2, "both-sides-pending-writes")
				w.HitIf(m.MaxAbs == 0 && o.MaxAbs == 0, "merge-both-sides-all-zero")
				w.HitIf((m.MaxAbs == 0) != (o.MaxAbs == 0), "merge-one-side-all-zero")
				if m.N() >= 2 && o.N() >= 2 {
					ma, sa := m.MeanSD()
					mb, sb := o.MeanSD()
					w.HitIf(sa > 0 && sb > 0 && math.Abs(ma-mb) > 1000*math.Max(sa, sb), "merge-separated-distributions")
				}
			}
			if o.N() > 0 {
				bothEmpty[a] = false
				pending[a]++
				pokedEmpty[a] = pokedEmpty[a] || pokedEmpty[b]
				pokedSingle[a] = pokedSingle[a] || pokedSingle[b]
				strRead[a] = strRead[a] || strRead[b]
			}
			if targets[b] == nil {
				targets[b] = map[int]bool{}
			}
			targets[b][a] = true
			w.HitIf(o.N() > 0 && len(targets[b]) == 2, "repeat-source")
			nComb++
			w.Eval("Combine")
			if p, v := mon.Call(func() { s.Combine(&accs[b]) }); p {
				bad("panic-Combine", fmt.Sprintf("panicked: %v", v))
				return
			}
			d0 := m.Depth
			m.Combine(o)
			w.HitIf(d0 < 3 && m.Depth >= 3, "merge-depth>=3")
			argAt[b] = step
		}
		// the receiver was written: what was observed of it is history
		rfs[a] = nil
		argAt[a] = c13None
		for k := range lastAt[a] {
			lastAt[a][k] = c13None
		}

		// the exported fields, every step (reading them changes nothing):
		// M-guard on every accumulator but the receiver, M-model on the receiver
		nchk = 0
		for i := range accs {
			f := c13ReadFields(&accs[i])
			if i == a {
				judgeFields(i, f)
				nchk += 4
			} else if !f.same(lastF[i]) {
				kind := "bystander-modified"
				if op.K == 1 && i == op.B {
					kind = "argument-modified"
				}
				bad(kind, fmt.Sprintf("acc[%d] was %+v and is now %+v", i, lastF[i], f))
			}
			lastF[i] = f
		}

		// the methods, as the observation policy of the case has it
		pokeFirst := false
		if c.Poke {
			if pokeFirst = rs.Bool(); pokeFirst {
				poke(rs)
			}
		}
		var plan []c13Look
		switch {
		case pol == c13PolAll:
			// every other accumulator first, then the receiver
			for i := range accs {
				if i != a {
					plan = append(plan, c13Look{i, c13Allowed(mods[i].N())})
				}
			}
			plan = append(plan, c13Look{a, c13Allowed(m.N())})
		case final:
			// everything, in a drawn order
			for _, i := range rs.Perm(na) {
				plan = append(plan, visit(rs, i, 1))
			}
			w.HitIf(pol == c13PolFinal && nAdd >= 2, "observed-only-at-end")
		case pol == c13PolWritten:
			plan = append(plan, visit(rs, a, rs.PickI(0, 1, 1, 2)))
		case pol == c13PolRandom:
			for _, i := range rs.Perm(na) {
				if rs.Float64() < pObs {
					plan = append(plan, visit(rs, i, rs.PickI(0, 1, 1, 2, 2)))
				}
			}
		}
		for _, lk := range plan {
			observe(lk)
			if inconclusive {
				return
			}
		}
		if c.Poke && !pokeFirst {
			poke(rs)
		}
		w.EvalN("statistic-checked", nchk)
		if refuted {
			return
		}
		if n := m.N(); final && n >= 2 && nComb > 0 && w.WantSample() && lastAt[a][c13Mean] == step && lastAt[a][c13Var] == step {
			rf := getRef(a)
			w.Sample(map[string]any{"tag": c.Tag, "accumulators": na, "adds": nAdd, "combines": nComb,
				"final_acc": a, "final_count": n, "merge_depth": m.Depth,
				"Mean": lastV[a][c13Mean], "Mean_ref": ref.F64(rf.Mean), "Variance": lastV[a][c13Var], "Variance_ref": ref.F64(rf.Var),
				"Min": lastF[a].Min, "Max": lastF[a].Max, "max_kappa": maxKappa})
		}
	}
}

// ---------------------------------------------------------------------------
// value generators

var c13KindNames = []string{"pos", "neg", "mixed", "offset+", "offset-", "const", "smallint+", "smallint0",
	"wide", "ascending+", "descending-", "scaled+", "scaled-", "offset1e9+", "offset1e9-",
	"allzero", "zeros-then-nonzero", "nonzero-then-zeros", "construn-then-other", "absorbed", "two-cluster"}

// kinds by name where the generators refer to them
const (
	c13KConst     = 5
	c13KAllZero   = 15
	c13KZerosThen = 16
	c13KThenZeros = 17
	c13KConstRun  = 18
	c13KAbsorbed  = 19
	c13KTwoClust  = 20
)

// c13SubKinds: what the non-zero part of the zero-run kinds is drawn from.
var c13SubKinds = []int{0, 1, 2, 3, 4, 6, 8, 9, 10, 11, 12, 13}

// c13Vals draws n values of one kind. One-signed kinds matter: the Min=0 /
// Max=0 artefacts of a merge with an empty side are invisible on data that
// straddles zero.
func c13Vals(rng *mon.Rand, kind, n int) []float64 {
	xs := make([]float64, n)
	scale := 1.0
	if rng.Intn(4) == 0 {
		scale = math.Pow(10, float64(rng.Range(-12, 12)))
	}
	switch kind {
	case 0, 1: // one-signed
		for i := range xs {
			xs[i] = rng.Uniform(0.5, 10) * scale
		}
	case 2:
		for i := range xs {
			xs[i] = rng.Norm() * scale
		}
	case 3, 4, 13, 14: // offset = 10^k * spread
		k := float64(rng.Range(1, 9))
		if kind >= 13 {
			k = 9
		}
		off := math.Pow(10, k) * scale
		if rng.Bool() {
			off *= rng.Uniform(1, 9)
		}
		for i := range xs {
			xs[i] = off + rng.Norm()*scale
		}
	case 5:
		c := rng.Uniform(0.5, 10) * scale * rng.Sign()
		if rng.Intn(8) == 0 { // a fixed share of the constants is zero, of either sign
			c = math.Copysign(0, rng.Sign())
		}
		for i := range xs {
			xs[i] = c
		}
	case 6:
		for i := range xs {
			xs[i] = float64(rng.Range(1, 9))
		}
	case 7:
		for i := range xs {
			xs[i] = float64(rng.Range(-4, 4))
		}
	case 8:
		for i := range xs {
			xs[i] = rng.Sign() * rng.LogUniform(1e-6, 1e6)
		}
	case 9, 10: // every value a new extreme
		v := rng.Uniform(0.5, 2) * scale
		for i := range xs {
			xs[i] = v
			v += rng.Uniform(0, 1) * scale
		}
	case 11, 12: // 5e-150 <= |x| <= 1e150
		sc := math.Pow(10, float64(rng.PickI(-149, -100, -60, -30, 30, 60, 100, 149)))
		for i := range xs {
			xs[i] = rng.Uniform(0.5, 10) * sc
		}
	case c13KAllZero: // in a quarter of the draws some of the zeros are -0
		if rng.Intn(4) == 0 {
			for i := range xs {
				if rng.Bool() {
					xs[i] = math.Copysign(0, -1)
				}
			}
		}
	case c13KZerosThen, c13KThenZeros: // a run of zeros before / after values of another kind
		if n == 0 {
			break
		}
		nz := rng.Intn(2)
		if n >= 2 {
			nz = rng.Range(1, n-1)
		}
		rest := c13Vals(rng, c13SubKinds[rng.Intn(len(c13SubKinds))], n-nz)
		if kind == c13KZerosThen {
			copy(xs[nz:], rest)
		} else {
			copy(xs, rest)
		}
	case c13KConstRun: // a constant run (8 or more values when n allows) and then something else
		c := rng.Uniform(0.5, 10) * scale * rng.Sign()
		run := n - 1
		if n >= 10 {
			run = rng.Range(8, n-1)
		}
		style := rng.Intn(3)
		c2 := c * (1 + rng.Sign()*math.Pow(10, -float64(rng.Range(0, 8))))
		for i := range xs {
			switch {
			case i < run || n == 1:
				xs[i] = c
			case style == 0: // nearby values, each at its own distance (kappa up to about 1e10)
				xs[i] = c * (1 + rng.Sign()*math.Pow(10, -float64(rng.Range(0, 8))))
			case style == 1:
				xs[i] = c + rng.Norm()*math.Abs(c)
			default: // a second constant run
				xs[i] = c2
			}
		}
	case c13KAbsorbed: // one value so large that Total (and the running mean) absorb most of the others
		for i := range xs {
			xs[i] = rng.Uniform(0.5, 10) * scale * rng.Sign()
		}
		if n > 0 {
			p := rng.Intn(4)
			if p >= n {
				p = n - 1
			}
			xs[p] = rng.Uniform(0.5, 10) * math.Pow(10, float64(rng.PickI(15, 16, 17, 18, 20, 25))) * scale * rng.Sign()
		}
	case c13KTwoClust: // two clusters 2e3..1e9 standard deviations apart; the stream changes cluster once
		m1 := rng.Uniform(-10, 10) * scale
		sep := math.Pow(10, rng.Uniform(3.3, 9)) * scale * rng.Sign()
		bp := rng.Range(0, n)
		if n >= 4 {
			bp = rng.Range(2, n-2)
		}
		for i := range xs {
			xs[i] = m1 + rng.Norm()*scale
			if i >= bp {
				xs[i] += sep
			}
		}
	}
	if kind == 1 || kind == 4 || kind == 10 || kind == 12 || kind == 14 {
		for i := range xs {
			xs[i] = -xs[i]
		}
	}
	return xs
}

func c13PickKind(rng *mon.Rand) int {
	// one-signed kinds get most of the weight
	return rng.PickI(0, 1, 0, 1, 2, 3, 4, 3, 4, 5, 6, 7, 8, 9, 10, 11, 12, 13, 14,
		c13KAllZero, c13KZerosThen, c13KThenZeros, c13KConstRun, c13KAbsorbed, c13KTwoClust)
}

func c13Add(a int, x float64) c13Op { return c13Op{K: 0, A: a, X: mon.F(x)} }
func c13Comb(a, b int) c13Op        { return c13Op{K: 1, A: a, B: b} }

// c13SplitCase: values[:k] into acc 0, values[k:] into acc 1, then one merge.
func c13SplitCase(vals []float64, k int, order int, tag string) c13Case {
	c := c13Case{NAcc: 2, Tag: tag}
	if order == 2 {
		// interleaved arrival
		i, j := 0, k
		for i < k || j < len(vals) {
			if i < k {
				c.Ops = append(c.Ops, c13Add(0, vals[i]))
				i++
			}
			if j < len(vals) {
				c.Ops = append(c.Ops, c13Add(1, vals[j]))
				j++
			}
		}
		c.Ops = append(c.Ops, c13Comb(0, 1))
		return c
	}
	for _, v := range vals[:k] {
		c.Ops = append(c.Ops, c13Add(0, v))
	}
	for _, v := range vals[k:] {
		c.Ops = append(c.Ops, c13Add(1, v))
	}
	if order == 0 {
		c.Ops = append(c.Ops, c13Comb(0, 1))
	} else {
		c.Ops = append(c.Ops, c13Comb(1, 0))
	}
	return c
}

// c13Gen builds random histories; cnt shadows the logical counts so that no
// accumulator exceeds c13MaxCount values.
type c13Gen struct {
	rng  *mon.Rand
	na   int
	cnt  []int
	ops  []c13Op
	vals []float64
	vi   int
	// per: each accumulator draws from its own list (vals unused)
	per [][]float64
	pi  []int
}

func newC13Gen(rng *mon.Rand, na, nvals, kind int) *c13Gen {
	return &c13Gen{rng: rng, na: na, cnt: make([]int, na), vals: c13Vals(rng, kind, nvals)}
}

func (g *c13Gen) left() int {
	if g.per != nil {
		n := 0
		for a := range g.per {
			n += len(g.per[a]) - g.pi[a]
		}
		return n
	}
	return len(g.vals) - g.vi
}

func (g *c13Gen) add(a int) bool {
	if g.per != nil {
		if g.pi[a] >= len(g.per[a]) || g.cnt[a] >= c13MaxCount {
			return false
		}
		g.ops = append(g.ops, c13Add(a, g.per[a][g.pi[a]]))
		g.pi[a]++
		g.cnt[a]++
		return true
	}
	if g.vi >= len(g.vals) || g.cnt[a] >= c13MaxCount {
		return false
	}
	g.ops = append(g.ops, c13Add(a, g.vals[g.vi]))
	g.vi++
	g.cnt[a]++
	return true
}

func (g *c13Gen) addN(a, n int) {
	for i := 0; i < n; i++ {
		g.add(a)
	}
}

func (g *c13Gen) comb(a, b int) bool {
	if a == b || g.cnt[a]+g.cnt[b] > c13MaxCount {
		return false
	}
	g.ops = append(g.ops, c13Comb(a, b))
	g.cnt[a] += g.cnt[b]
	return true
}

func (g *c13Gen) other(a int) int {
	b := g.rng.Intn(g.na - 1)
	if b >= a {
		b++
	}
	return b
}

func (g *c13Gen) done(tag string) c13Case { return c13Case{NAcc: g.na, Ops: g.ops, Tag: tag} }

// free: Adds and Combines in any order over 2..6 accumulators; a subset of the
// accumulators receives no Add of its own.
func c13GenFree(rng *mon.Rand) c13Case {
	na := rng.Range(2, c13MaxAcc)
	kind := c13PickKind(rng)
	nv := rng.PickI(rng.Range(1, 12), rng.Range(1, 40), rng.Range(20, 200), 200)
	g := newC13Gen(rng, na, nv, kind)
	fed := make([]int, 0, na)
	for a := 0; a < na; a++ {
		if rng.Intn(4) != 0 {
			fed = append(fed, a)
		}
	}
	if len(fed) == 0 {
		fed = append(fed, rng.Intn(na))
	}
	pComb := rng.Pick(0.05, 0.15, 0.3)
	stuck := 0
	for g.left() > 0 && stuck < 50 {
		if rng.Float64() < pComb {
			a := rng.Intn(na)
			if !g.comb(a, g.other(a)) {
				stuck++
			}
		} else if !g.add(fed[rng.Intn(len(fed))]) {
			stuck++
		}
	}
	// finally gather what fits into one accumulator, in random order
	root := rng.Intn(na)
	for _, b := range rng.Perm(na) {
		g.comb(root, b)
	}
	return g.done("free/" + c13KindNames[kind])
}

// tree: a stream dealt to the leaves (some left empty), merged by a random
// binary tree; some nodes keep receiving values between merges.
func c13GenTree(rng *mon.Rand) c13Case {
	na := rng.Range(3, c13MaxAcc)
	kind := c13PickKind(rng)
	nv := rng.PickI(rng.Range(2, 20), rng.Range(10, 100), rng.Range(100, 200))
	g := newC13Gen(rng, na, nv, kind)
	emptyLeaf := -1
	if rng.Intn(3) == 0 {
		emptyLeaf = rng.Intn(na)
	}
	lump := rng.Intn(3) == 0 // one leaf gets most of the stream
	budget := nv
	if rng.Bool() {
		budget = nv * 2 / 3 // the rest arrives between merges
	}
	for it := 0; g.vi < budget && it < 2000; it++ {
		a := rng.Intn(na)
		if lump && rng.Intn(4) != 0 {
			a = (emptyLeaf + 1 + na) % na
		}
		if a == emptyLeaf {
			continue
		}
		if !g.add(a) {
			break
		}
	}
	live := rng.Perm(na)
	chain := rng.Intn(3) == 0 // a comb: depth = number of merges
	for len(live) > 1 {
		i, j := rng.Intn(len(live)), 0
		if chain {
			i = 0
		}
		j = rng.Intn(len(live) - 1)
		if j >= i {
			j++
		}
		a, b := live[i], live[j]
		if rng.Intn(4) == 0 && !chain {
			a, b = b, a
			i, j = j, i
		}
		g.comb(a, b)
		live = append(live[:j], live[j+1:]...)
		if g.left() > 0 && rng.Bool() {
			g.addN(live[rng.Intn(len(live))], rng.Range(1, 1+g.left()/2))
		}
	}
	g.addN(live[0], g.left())
	return g.done("tree/" + c13KindNames[kind])
}

// empties: the histories in which one or both sides of a merge have received
// nothing.
func c13GenEmpties(rng *mon.Rand, i int) c13Case {
	na := rng.Range(2, c13MaxAcc)
	kind := c13PickKind(rng)
	if i%2 == 0 {
		kind = rng.PickI(0, 1, 3, 4, 6, 9, 10, 11, 12) // one-signed
	}
	nv := rng.PickI(1, 2, 3, rng.Range(4, 30), rng.Range(30, 150))
	g := newC13Gen(rng, na, nv, kind)
	few := func() int { return rng.Range(1, 1+g.left()/2) }
	a := rng.Intn(na)
	b := g.other(a)
	script := i % 8
	switch script {
	case 0: // empty receiver
		g.addN(b, few())
		g.comb(a, b)
		if rng.Bool() {
			g.addN(a, few())
		}
	case 1: // empty argument
		g.addN(a, few())
		g.comb(a, b)
		if rng.Bool() {
			g.addN(a, few())
		}
	case 2: // both empty, then Add
		g.comb(a, b)
		g.addN(a, few())
		if rng.Bool() {
			g.addN(b, few())
			g.comb(a, b)
		}
	case 3: // both empty, both orders, then Add to both, then merge
		g.comb(a, b)
		g.comb(b, a)
		g.addN(b, few())
		g.addN(a, few())
		if rng.Bool() {
			g.comb(b, a)
		} else {
			g.comb(a, b)
		}
	case 4: // a chain of empties handed along, then filled
		for k := 0; k < na; k++ {
			g.comb(k, (k+1)%na)
		}
		g.addN(a, few())
		g.comb(b, a)
		g.addN(b, few())
	case 5: // empty argument merged repeatedly between Adds
		for it := 0; g.left() > 0 && it < 400; it++ {
			g.addN(a, rng.Range(1, 3))
			g.comb(a, b)
		}
	case 6: // filled accumulator copied into several empty ones, which then diverge
		g.addN(a, few())
		for k := 0; k < na; k++ {
			if k != a {
				g.comb(k, a)
			}
		}
		for it := 0; g.left() > 0 && it < 400; it++ {
			g.add(rng.Intn(na))
		}
		for k := 0; k < na; k++ {
			g.comb(a, k)
		}
	default: // random mixture with most accumulators empty
		for it := 0; g.left() > 0 && it < 600; it++ {
			switch rng.Intn(3) {
			case 0:
				g.add(a)
			case 1:
				x := rng.Intn(na)
				g.comb(x, g.other(x))
			default:
				g.add(rng.Intn(na))
			}
		}
	}
	g.addN(a, g.left()*rng.Intn(2))
	return g.done(fmt.Sprintf("empties%d/%s", script, c13KindNames[kind]))
}

// repeat: the same source merged into several targets, more than once.
func c13GenRepeat(rng *mon.Rand) c13Case {
	na := rng.Range(3, c13MaxAcc)
	kind := c13PickKind(rng)
	nv := rng.PickI(rng.Range(3, 20), rng.Range(10, 60), rng.Range(40, 120))
	g := newC13Gen(rng, na, nv, kind)
	src := rng.Intn(na)
	g.addN(src, rng.Range(1, 1+nv/3))
	rounds := rng.Range(1, 3)
	for r := 0; r < rounds; r++ {
		for t := 0; t < na; t++ {
			if t == src {
				continue
			}
			if rng.Intn(3) != 0 {
				g.addN(t, rng.Range(0, 1+g.left()/(2*na)))
			}
			g.comb(t, src)
		}
		g.addN(src, rng.Range(0, 1+g.left()/2))
	}
	root := g.other(src)
	for _, t := range rng.Perm(na) {
		if t != src {
			g.comb(root, t)
		}
	}
	g.addN(root, rng.Intn(1+g.left()))
	return g.done("repeat/" + c13KindNames[kind])
}

// shards: every accumulator is fed from its own list, of its own kind and
// scale (map/reduce over heterogeneous sources); some merges on the way, then
// everything gathered by a star or by a random tree. hetero: at least two fed
// accumulators are of different kinds.
func c13GenShards(rng *mon.Rand) (c c13Case, hetero bool) {
	na := rng.Range(2, c13MaxAcc)
	total := rng.PickI(rng.Range(4, 24), rng.Range(10, 80), rng.Range(60, c13MaxCount))
	g := &c13Gen{rng: rng, na: na, cnt: make([]int, na), per: make([][]float64, na), pi: make([]int, na)}
	wts := make([]float64, na)
	sum := 0.0
	for i, a := range rng.Perm(na) {
		if i < 2 || rng.Intn(5) != 0 { // at least two shards are fed
			wts[a] = rng.Uniform(0.1, 1)
			sum += wts[a]
		}
	}
	// in a third of the cases every shard is a cluster of the same spread
	// around its own centre, the centres thousands to 1e9 spreads apart
	apart := rng.Intn(3) == 0
	spread := math.Pow(10, float64(rng.Range(-12, 12)))
	if rng.Bool() {
		spread = 1
	}
	var names []string
	first := -1
	for a := 0; a < na; a++ {
		if wts[a] == 0 {
			names = append(names, "-")
			continue
		}
		n := int(float64(total) * wts[a] / sum)
		if n < 2 {
			n = 2
		}
		kind := c13PickKind(rng)
		if rng.Intn(4) == 0 {
			kind = rng.PickI(c13KAllZero, c13KZerosThen, c13KThenZeros, c13KConst)
		}
		if apart {
			kind = 2
			centre := math.Pow(10, rng.Uniform(3.3, 9)) * spread * rng.Sign()
			xs := make([]float64, n)
			for i := range xs {
				xs[i] = centre + rng.Norm()*spread
			}
			g.per[a] = xs
			names = append(names, "cluster")
			hetero = true
			continue
		}
		g.per[a] = c13Vals(rng, kind, n)
		names = append(names, c13KindNames[kind])
		if first < 0 {
			first = kind
		} else if kind != first {
			hetero = true
		}
	}
	pComb := rng.Pick(0, 0, 0.03, 0.15)
	for it := 0; g.left() > 0 && it < 2000; it++ {
		a := rng.Intn(na)
		if rng.Float64() < pComb {
			g.comb(a, g.other(a))
			continue
		}
		g.addN(a, rng.Range(1, 8))
	}
	if rng.Bool() { // star
		root := rng.Intn(na)
		for _, b := range rng.Perm(na) {
			g.comb(root, b)
		}
	} else { // random binary tree
		live := rng.Perm(na)
		for len(live) > 1 {
			i := rng.Intn(len(live))
			j := rng.Intn(len(live) - 1)
			if j >= i {
				j++
			}
			g.comb(live[i], live[j])
			live = append(live[:j], live[j+1:]...)
		}
	}
	return g.done("shards/" + strings.Join(names, "+")), hetero
}

// ---------------------------------------------------------------------------

// c13Watch gives a history its observation policy. poke: every pokeIn-th
// case on average also gets the reads in undefined states (0: never).
func c13Watch(rng *mon.Rand, c c13Case, pol, pokeIn int) c13Case {
	c.Pol = pol
	c.Poke = pokeIn > 0 && rng.Intn(pokeIn) == 0
	c.Tag += "/" + c13PolNames[pol]
	if c.Poke {
		c.Tag += "+undefined-reads"
	}
	if pol != c13PolAll || c.Poke {
		c.OSeed = rng.Uint64() >> 12 // exact in any JSON reader
	}
	return c
}

// c13DrawPol: the policy of a random history.
func c13DrawPol(rng *mon.Rand) int {
	return rng.PickI(c13PolAll, c13PolAll, c13PolWritten, c13PolFinal, c13PolFinal, c13PolFinal,
		c13PolRandom, c13PolRandom, c13PolRandom, c13PolRandom)
}

func c13Run(r *mon.Run) {
	r.Rule("histories of Add and Combine over up to 6 accumulators of up to 200 logical values each, each under an observation policy (which methods are called when is part of the history, since an implementation may update state lazily in its readers): all statistics of all accumulators after every step in a fixed order / only the accumulator just written / nothing until the last step / each accumulator with a per-case probability, the last three with the observers in a drawn order or a single observer only (a 'cold' Variance, StdDev, RMS or Mean), and everything read after the last step. The exported fields are read after every step. An observed statistic is compared with the 400-bit batch statistic of the values the accumulator logically contains (Count, Weight exact; Min, Max equal; Total within 16 n eps sum|x|; Mean within 16 n eps max|x|; RMS within 16 n eps relative; for n>=2 Variance within 16 n eps kappa var (+ second-order term), StdDev the square root of that window); a statistic already observed since the accumulator was last written, and the fields of every accumulator but the receiver, must be bit-identical to what they were. In a share of the cases Mean, RMS, Variance, StdDev and String are also called where the statement gives them no meaning (no value; one value for Variance, StdDev, String) and the results discarded. Enumerated: every Add-only stream length 1..200 x value kind read once at the end; every split point of streams of length <=12 in three arrival/merge orders x all value kinds, once observed after every step, once only at the end, once under a drawn policy; every pair of split points of streams <=8 (thorough 12) x four merge orders likewise; every sequence of 5 (thorough 6) operations from {Add to one of 3, Combine of an ordered pair of 3} on positive and on negative data observed after every step, and every such sequence of 1..5 (6) operations observed only at the end. Random: free, merge-tree, empty-side, repeated-source and heterogeneous-shard (every accumulator fed from its own value kind and scale) histories under drawn policies. Value kinds include all-zero data (+0 and -0), a run of zeros before or after non-zero values, a zero constant, a constant run of 8 or more values followed by different ones, one value that absorbs the others in Total, two clusters 2e3..1e9 standard deviations apart, and magnitudes from 5e-150 to 1e150; where the batch statistic is exactly 0 (all-zero data) the tolerance is 0 and exactly 0 is demanded. In the cases with reads in undefined states String() is also called on accumulators holding two or more values (text not judged). Long histories (list-free 400-bit running sums as the shadow, the same windows with n the count): one stream of 200..2e5 values, and 2..6 parts of comparable size (each within a factor 2 of a magnitude drawn log-uniformly in 200..1.5e5, now and then an empty one) merged by a star, a chain or a random tree with further values arriving after the merges; sizes log-uniform or at / just beyond / just below a round count (2^8..2^20, {1,2,5}x10^3..10^6); a few cases per run with a stream of 2e5..1.2e6 values or parts of 1e5..6e5 (one stream of more than 1e6 values and one merge of two parts of more than 1e5 in every run); one value kind for all sources, one per source, or clusters 0.5..1e6 spreads apart. The fields are read at every round count, its two neighbours and a dozen drawn counts of the accumulator being fed, the methods at a drawn share (10%, 50%, all) of those counts / only around a Combine (argument before and after, receiver after) / only after the last operation; all statistics of all accumulators at the end. Non-trivial: the history hits a class (empty side, both-empty-then-add, new extreme, depth, kappa, repeat source, pending writes at a Combine, cold reader ...); distinct by hash of the operation list and the observation policy.")
	r.Assume("values are finite with 5e-150 <= |x| <= 1e150 or zero (of either sign): squares and sums of 200 squares neither overflow nor become subnormal; in a long history of N values in all, 1e-140 <= |x| <= 1e150/N or zero, so that sums of N squares and the merge term delta^2 nS nO stay in range (a generated long case outside this range is not executed)",
		"offset/spread (the condition number kappa of the variance) is at most about 1e10, the design's hostile range",
		"statistics of an accumulator holding no value are not judged beyond Count=0, Total=0; Variance and StdDev only from two values; a reader called in such a state may return anything (or panic) but must leave the accumulator usable",
		"calling a reader does not change the value any reader returns later (a statistic read twice with no Add/Combine of that accumulator in between is bit-identical)",
		"s.Combine(s) is not generated: the statement speaks of 'any two StreamStats', 'both sequences' and a split of one sequence, which a self-merge is not (there is no second sequence, and 'as if o's values were added to s' is self-referential when o is s); an implementation that updates s in place before it has read all of o satisfies the statement for any two distinct accumulators")
	r.Gate("empty-receiver", "empty-argument", "both-empty-then-add", "all-positive-data", "all-negative-data",
		"positive-with-empty-side", "negative-with-empty-side", "merge-depth>=3", "kappa>=1e6", "repeat-source",
		"argument-has-new-min", "argument-has-new-max",
		"argument-pending-writes", "receiver-pending-writes", "both-sides-pending-writes", "observed-only-at-end",
		"unobserved-run>=32", "cold-Mean", "cold-RMS", "cold-Variance", "cold-StdDev", "add-only-read-once",
		"read-while-empty-then-judged", "read-while-single-then-judged",
		"merge-both-sides-all-zero", "merge-one-side-all-zero", "zero-run-then-nonzero", "zero-run-after-nonzero",
		"constant-run>=8-then-different", "add-absorbed-by-total", "merge-separated-distributions",
		"heterogeneous-shards", "string-read-then-judged", "magnitude-beyond-1e100",
		"judged-count>=1e4", "judged-count>=1e5", "judged-count>=1e6", "judged-at-round-count", "judged-just-past-round-count",
		"merge-both-sides>=1e4", "merge-both-sides>=1e5", "large-merge-means-apart", "judged-merge-of-large-parts",
		"long-history-observed-only-at-end")
	if err := ref.StreamSelfTest(); err != nil {
		r.Inconclusive("reference self-test failed: " + err.Error())
		return
	}
	nk := len(c13KindNames)

	// 0. plain streams: Add only, one accumulator, every statistic read once
	// at the end (in a drawn order)
	r.Exhaustive("every stream length 1..200 for each of the value kinds: Add only, nothing read until the end")
	r.Parallel("stream", c13MaxCount*nk, func(w *mon.W, i int) {
		n, kind := 1+i/nk, i%nk
		c := c13Case{NAcc: 1, Tag: fmt.Sprintf("stream n=%d/%s", n, c13KindNames[kind])}
		for _, v := range c13Vals(w.Rng, kind, n) {
			c.Ops = append(c.Ops, c13Add(0, v))
		}
		w.HitIf(n >= 2, "add-only-read-once")
		c13Judge(w, c13Watch(w.Rng, c, c13PolFinal, 8))
	})

	// the three passes of the enumerated split classes
	passPol := func(w *mon.W, pass int) int {
		switch pass {
		case 0:
			return c13PolAll
		case 1:
			return c13PolFinal
		}
		return w.Rng.PickI(c13PolWritten, c13PolRandom, c13PolRandom)
	}

	// 1. every split point of every stream length <= 12
	type split struct{ L, k, order, kind int }
	var sp []split
	for L := 0; L <= 12; L++ {
		for k := 0; k <= L; k++ {
			for order := 0; order < 3; order++ {
				for kind := 0; kind < nk; kind++ {
					sp = append(sp, split{L, k, order, kind})
				}
			}
		}
	}
	r.Exhaustive("every split point k=0..L of every stream length L<=12, merged as a<-b, b<-a and after interleaved arrival, for each of the value kinds; each observed after every step, only at the end, and under a drawn policy")
	r.Parallel("split", 3*len(sp), func(w *mon.W, i int) {
		s := sp[i/3]
		vals := c13Vals(w.Rng, s.kind, s.L)
		w.HitIf(s.k == 0 || s.k == s.L, "split-at-end")
		c := c13SplitCase(vals, s.k, s.order, fmt.Sprintf("split L=%d k=%d order=%d/%s", s.L, s.k, s.order, c13KindNames[s.kind]))
		c13Judge(w, c13Watch(w.Rng, c, passPol(w, i%3), 6))
	})

	// 2. every pair of split points, both associations
	maxL3 := r.Pick(8, 12)
	type split3 struct{ L, i, j, assoc int }
	var sp3 []split3
	for L := 0; L <= maxL3; L++ {
		for i := 0; i <= L; i++ {
			for j := i; j <= L; j++ {
				for assoc := 0; assoc < 4; assoc++ {
					sp3 = append(sp3, split3{L, i, j, assoc})
				}
			}
		}
	}
	r.Exhaustive(fmt.Sprintf("every pair of split points i<=j of every stream length L<=%d, merged as (a<-b)<-c, a<-(b<-c), (c<-b)<-a, (a<-c)<-b; each observed after every step, only at the end, and under a drawn policy", maxL3))
	r.Parallel("split3", 3*len(sp3), func(w *mon.W, idx int) {
		s := sp3[idx/3]
		kind := c13PickKind(w.Rng)
		vals := c13Vals(w.Rng, kind, s.L)
		c := c13Case{NAcc: 3, Tag: fmt.Sprintf("split3 L=%d i=%d j=%d assoc=%d/%s", s.L, s.i, s.j, s.assoc, c13KindNames[kind])}
		for _, v := range vals[:s.i] {
			c.Ops = append(c.Ops, c13Add(0, v))
		}
		for _, v := range vals[s.i:s.j] {
			c.Ops = append(c.Ops, c13Add(1, v))
		}
		for _, v := range vals[s.j:] {
			c.Ops = append(c.Ops, c13Add(2, v))
		}
		switch s.assoc {
		case 0:
			c.Ops = append(c.Ops, c13Comb(0, 1), c13Comb(0, 2))
		case 1:
			c.Ops = append(c.Ops, c13Comb(1, 2), c13Comb(0, 1))
		case 2:
			c.Ops = append(c.Ops, c13Comb(2, 1), c13Comb(2, 0))
		default:
			c.Ops = append(c.Ops, c13Comb(0, 2), c13Comb(0, 1))
		}
		c13Judge(w, c13Watch(w.Rng, c, passPol(w, idx%3), 6))
	})

	// 3. every operation sequence of a fixed length over three accumulators
	// (every prefix is judged on the way), on positive and on negative data
	seqLen := r.Pick(5, 6)
	alphabet := []c13Op{c13Add(0, 0), c13Add(1, 0), c13Add(2, 0),
		c13Comb(0, 1), c13Comb(0, 2), c13Comb(1, 0), c13Comb(1, 2), c13Comb(2, 0), c13Comb(2, 1)}
	enumCase := func(w *mon.W, code, length int, neg bool, tag string) c13Case {
		kind := w.Rng.PickI(0, 0, 3, 3, 6, 6, 9, 9, 13, 13, c13KConst, c13KAllZero, c13KZerosThen, c13KThenZeros)
		vals := c13Vals(w.Rng, kind, length)
		c := c13Case{NAcc: 3, Tag: tag + "/" + c13KindNames[kind]}
		if neg {
			c.Tag += "/negated"
		}
		vi := 0
		for s := 0; s < length; s++ {
			op := alphabet[code%len(alphabet)]
			code /= len(alphabet)
			if op.K == 0 {
				x := vals[vi]
				vi++
				if neg {
					x = -x
				}
				op.X = mon.F(x)
			}
			c.Ops = append(c.Ops, op)
		}
		return c
	}
	nseq := 1
	for i := 0; i < seqLen; i++ {
		nseq *= len(alphabet)
	}
	r.Exhaustive(fmt.Sprintf("every sequence of %d operations (and so every shorter one) from {acc[i].Add, acc[i].Combine(&acc[j]), i!=j} over 3 accumulators, once on positive and once on negative values, everything observed after every step", seqLen))
	r.Parallel("enum-ops", 2*nseq, func(w *mon.W, idx int) {
		c13Judge(w, c13Watch(w.Rng, enumCase(w, idx/2, seqLen, idx%2 == 1, "enum-ops"), c13PolAll, 8))
	})

	// 3b. the same alphabet, every sequence of every length up to that one,
	// with no method called before the end
	var first []int // first[l-1]: index of the first sequence of length l
	ntot, pw := 0, 1
	for l := 1; l <= seqLen; l++ {
		pw *= len(alphabet)
		first = append(first, ntot)
		ntot += pw
	}
	r.Exhaustive(fmt.Sprintf("every sequence of 1..%d operations from the same alphabet (positive and negative values alternating with the sequence number), nothing observed but the exported fields until the end", seqLen))
	r.Parallel("enum-ops-final", ntot, func(w *mon.W, idx int) {
		code, length := idx, 1
		for length < seqLen && code >= first[length] {
			length++
		}
		code -= first[length-1]
		c13Judge(w, c13Watch(w.Rng, enumCase(w, code, length, idx%2 == 1, "enum-ops-final"), c13PolFinal, 8))
	})

	// 4. random histories (3 600 quick / 60 000 thorough), each under a drawn
	// observation policy
	watch := func(w *mon.W, c c13Case) { c13Judge(w, c13Watch(w.Rng, c, c13DrawPol(w.Rng), 3)) }
	r.Parallel("hist-free", r.Pick(1200, 20000), func(w *mon.W, i int) { watch(w, c13GenFree(w.Rng)) })
	r.Parallel("hist-tree", r.Pick(800, 14000), func(w *mon.W, i int) { watch(w, c13GenTree(w.Rng)) })
	r.Parallel("hist-empties", r.Pick(500, 8000), func(w *mon.W, i int) { watch(w, c13GenEmpties(w.Rng, i)) })
	r.Parallel("hist-repeat", r.Pick(500, 8000), func(w *mon.W, i int) { watch(w, c13GenRepeat(w.Rng)) })
	r.Parallel("hist-shards", r.Pick(600, 10000), func(w *mon.W, i int) {
		c, hetero := c13GenShards(w.Rng)
		w.HitIf(hetero, "heterogeneous-shards")
		watch(w, c)
	})

	// 5. long streams and large parts (the list-free shadow): sizes from 200 up
	// to 2e5 log-uniformly and at / just beyond round counts; a few cases per
	// run reach 1e5..1.2e6 values per stream or part
	r.Parallel("long-stream", r.Pick(96, 1200), func(w *mon.W, i int) { c13JudgeBig(w, c13GenBig(w.Rng, 0, false, false)) })
	r.Parallel("long-merge", r.Pick(96, 1200), func(w *mon.W, i int) { c13JudgeBig(w, c13GenBig(w.Rng, 1, false, false)) })
	r.Parallel("long-huge", r.Pick(16, 96), func(w *mon.W, i int) { c13JudgeBig(w, c13GenBig(w.Rng, i%2, true, i < 2)) })
}

// ---------------------------------------------------------------------------
// long streams and large parts
//
// The histories above stop at 200 values per accumulator. The statement
// quantifies over streams and parts of any size, and an implementation may
// behave differently from some size on (a periodic renormalisation, another
// formula above a cutoff, a narrow counter, block processing). A long case
// is a short program over up to 6 accumulators, each fed from its own
// generated list: "acc[A] receives its next N values" and "acc[A].Combine(
// &acc[B])". The values are a function of (VSeed, source, kind, Tot) and are
// not stored; the shadow of an accumulator is ref.StreamSums (400-bit running
// sums, no list). The exported fields are read at every mark (a logical count
// of the accumulator being fed: round numbers, their neighbours and drawn
// counts); the methods at the marks of the observation policy, after a
// Combine (the receiver) and, all of them on every accumulator, at the end.

const c13KCluster = -1 // Centre[i] + Norm()*Spread

type c13BigOp struct {
	K int `json:"k"` // 0: acc[A] receives its next N values; 1: acc[A].Combine(&acc[B])
	A int `json:"a"`
	B int `json:"b,omitempty"`
	N int `json:"n,omitempty"`
}

type c13BigCase struct {
	Big    bool       `json:"big"` // distinguishes the case from a c13Case in a replay file
	Tag    string     `json:"tag,omitempty"`
	VSeed  uint64     `json:"vseed"`
	Kinds  []int      `json:"kinds"`  // value kind of each source (c13KCluster: a cluster)
	Tot    []int      `json:"tot"`    // length of each source's list (the values depend on it)
	Centre []mon.F    `json:"centre"` // of a cluster source
	Spread mon.F      `json:"spread"`
	Ops    []c13BigOp `json:"ops"`
	// Marks: logical counts of the accumulator being fed at which fields and
	// methods are read; FMarks: the fields only. Obs: 0 methods at the marks
	// and after every Combine, 1 methods after a Combine only, 2 no method
	// before the last operation.
	Marks  []int `json:"marks,omitempty"`
	FMarks []int `json:"fmarks,omitempty"`
	Obs    int   `json:"obs"`
}

var c13BigObsNames = []string{"obs=marks", "obs=merges", "obs=final"}

// c13Rounds: the counts an implementation is likely to switch behaviour at.
var c13Rounds = func() []int {
	var rs []int
	for k := 8; k <= 20; k++ {
		rs = append(rs, 1<<k)
	}
	for p := 1000; p <= 1000000; p *= 10 {
		rs = append(rs, p, 2*p, 5*p)
	}
	return rs
}()

func c13IsRound(n int) bool {
	for _, r := range c13Rounds {
		if r == n {
			return true
		}
	}
	return false
}

// c13BigVals: the list of source i.
func c13BigVals(c *c13BigCase, i int) []float64 {
	rng := mon.NewRand(c.VSeed, uint64(i))
	if c.Kinds[i] == c13KCluster {
		xs := make([]float64, c.Tot[i])
		for j := range xs {
			xs[j] = float64(c.Centre[i]) + rng.Norm()*float64(c.Spread)
		}
		return xs
	}
	return c13Vals(rng, c.Kinds[i], c.Tot[i])
}

// c13BigStat judges one statistic against the batch statistics rf, with the
// windows of c13Judge (judgeStat, varWindow): "" when it is within them.
func c13BigStat(w *mon.W, rf *ref.StreamRef, k int, got float64) string {
	fn := float64(rf.N)
	varWindow := func() (v, tol, kappa float64) {
		v = ref.F64(rf.Var)
		mean, msq := ref.F64(rf.Mean), ref.F64(rf.MSq)
		kk := c13C * fn * c13Eps
		sd := math.Sqrt(v)
		tol = kk*sd*math.Hypot(sd, mean) + kk*kk*msq
		kappa = rf.Kappa()
		return
	}
	switch k {
	case c13Weight:
		if got != fn {
			return fmt.Sprintf("Weight()=%v", got)
		}
	case c13Mean:
		tol := c13C * fn * c13Eps * rf.MaxAbs
		if e := ref.StreamAbsDiff(got, rf.Mean); !w.Err("Mean", e, tol) {
			return fmt.Sprintf("Mean()=%.17g, mean is %.17g (err %.3g, tol %.3g)", got, ref.F64(rf.Mean), e, tol)
		}
	case c13RMS:
		rms := ref.F64(rf.RMS)
		tol := c13C * fn * c13Eps * rms
		if e := ref.StreamAbsDiff(got, rf.RMS); !w.Err("RMS", e, tol) {
			return fmt.Sprintf("RMS()=%.17g, root mean square is %.17g (err %.3g, tol %.3g)", got, rms, e, tol)
		}
	case c13Var:
		v, tol, kappa := varWindow()
		if e := ref.StreamAbsDiff(got, rf.Var); !w.Err("Variance", e, tol) {
			return fmt.Sprintf("Variance()=%.17g, sample variance is %.17g (err %.3g, tol %.3g, kappa %.3g)", got, v, e, tol, kappa)
		}
	case c13SD:
		v, tol, _ := varWindow()
		sd := ref.F64(rf.Std)
		lo := math.Sqrt(math.Max(0, v-tol)) * (1 - 4*c13Eps)
		hi := math.Sqrt(v+tol) * (1 + 4*c13Eps)
		stol := hi - sd
		if got < sd {
			stol = sd - lo
		}
		if e := ref.StreamAbsDiff(got, rf.Std); !w.Err("StdDev", e, stol) {
			return fmt.Sprintf("StdDev()=%.17g, sample standard deviation is %.17g (err %.3g, tol %.3g)", got, sd, e, stol)
		}
	}
	return ""
}

func c13JudgeBig(w *mon.W, c c13BigCase) {
	na := len(c.Kinds)
	if na < 1 || na > c13MaxAcc || len(c.Tot) != na || len(c.Centre) != na || c.Obs < 0 || c.Obs > 2 {
		return
	}
	total := 0
	for i, k := range c.Kinds {
		if (k != c13KCluster && (k < 0 || k >= len(c13KindNames))) || c.Tot[i] < 0 || c.Tot[i] > 1<<22 {
			return
		}
		total += c.Tot[i]
	}
	if total > 1<<23 || math.IsNaN(float64(c.Spread)) || math.IsInf(float64(c.Spread), 0) {
		return
	}
	need := make([]int, na)
	for _, op := range c.Ops {
		if op.A < 0 || op.A >= na || (op.K != 0 && op.K != 1) || (op.K == 1 && (op.B < 0 || op.B >= na || op.B == op.A)) || op.N < 0 {
			return
		}
		if op.K == 0 {
			need[op.A] += op.N
			if need[op.A] > c.Tot[op.A] {
				return
			}
		}
	}
	mark := map[int]int{} // 2: fields and methods, 1: fields
	for _, m := range c.FMarks {
		mark[m] = 1
	}
	for _, m := range c.Marks {
		mark[m] = 2
	}
	all := make([]int, 0, len(mark))
	for m := range mark {
		all = append(all, m)
	}
	c13SortInts(all)

	// the assumed range, at this length: squares, their sums over the whole
	// case and the merge term delta^2 nS nO neither overflow nor become
	// subnormal (a function of the case only: the lists depend on Tot, not on
	// how far the operations go)
	src := make([][]float64, na)
	maxAbs, minNZ := 0.0, math.Inf(1)
	for i := range src {
		src[i] = c13BigVals(&c, i)
		for _, x := range src[i] {
			ax := math.Abs(x)
			if !(ax <= maxAbs) { // also a NaN
				maxAbs = ax
			}
			if ax != 0 && ax < minNZ {
				minNZ = ax
			}
		}
	}
	if !(maxAbs*float64(total) <= 1e150) || minNZ < 1e-140 {
		w.Note("long-case-outside-assumed-range")
		return
	}
	accs := make([]stats.StreamStats, na)
	sums := make([]*ref.StreamSums, na)
	pos := make([]int, na)
	lastF := make([]c13Fields, na)
	lastV := make([][c13NStat]float64, na) // methods read since the accumulator was last written ...
	seen := make([][c13NStat]bool, na)     // ... if any
	merged := make([]bool, na)             // holds the result of a merge of two non-empty parts
	for i := range sums {
		sums[i] = ref.NewStreamSums()
		lastF[i] = c13ReadFields(&accs[i])
	}
	h := mon.NewHasher().U(c.VSeed).Is(c.Kinds).Is(c.Tot).Is(c.Marks).Is(c.FMarks).I(c.Obs).F(float64(c.Spread))
	for _, x := range c.Centre {
		h = h.F(float64(x))
	}
	for _, op := range c.Ops {
		h = h.I(op.K).I(op.A).I(op.B).I(op.N)
	}
	defer func() { w.Distinct(h.Sum()) }()

	trunc := c
	refuted := false
	step := 0
	var op c13BigOp
	bad := func(kind, msg string) {
		refuted = true
		w.Violate(kind, fmt.Sprintf("step %d %s: %s", step, c13BigOpString(op), msg), trunc)
	}
	nchk := int64(0)
	// fields of the accumulator just written against the sums; every other
	// accumulator must be what it was
	checkFields := func(a int) {
		for i := range accs {
			f := c13ReadFields(&accs[i])
			if i != a {
				if !f.same(lastF[i]) {
					kind := "bystander-modified"
					if op.K == 1 && i == op.B {
						kind = "argument-modified"
					}
					bad(kind, fmt.Sprintf("acc[%d] was %+v and is now %+v", i, lastF[i], f))
				}
				continue
			}
			lastF[i] = f
			m := sums[i]
			nchk += 4
			if f.Count != uint(m.N) {
				bad("Count", fmt.Sprintf("acc[%d] holds %d values: Count=%d", i, m.N, f.Count))
			}
			if m.N == 0 {
				if f.Total != 0 {
					bad("Total", fmt.Sprintf("acc[%d] holds no value: Total=%v", i, f.Total))
				}
				continue
			}
			if !(f.Min == m.Min) {
				bad("Min", fmt.Sprintf("acc[%d] holds %d values: Min=%v, smallest value is %v", i, m.N, f.Min, m.Min))
			}
			if !(f.Max == m.Max) {
				bad("Max", fmt.Sprintf("acc[%d] holds %d values: Max=%v, largest value is %v", i, m.N, f.Max, m.Max))
			}
			sumAbs, _ := m.A.Float64()
			tol := c13C * float64(m.N) * c13Eps * sumAbs
			if e := ref.StreamAbsDiff(f.Total, m.S); !w.Err("Total", e, tol) {
				bad("Total", fmt.Sprintf("acc[%d] holds %d values: Total=%.17g, sum is %.17g (err %.3g, tol %.3g)", i, m.N, f.Total, ref.F64(m.S), e, tol))
			}
		}
	}
	// methods of acc[i]: judged, or - if read since it was last written - unmoved
	readMethods := func(i int, rs *mon.Rand) {
		n := sums[i].N
		al := c13Allowed(n)
		rs.ShuffleI(al)
		var rf ref.StreamRef
		have := false
		for _, k := range al {
			got, pmsg := c13Read(&accs[i], k)
			if pmsg != "" {
				bad("panic-observe", fmt.Sprintf("acc[%d] (%d values): %s", i, n, pmsg))
				return
			}
			nchk++
			if seen[i][k] {
				if math.Float64bits(got) != math.Float64bits(lastV[i][k]) {
					bad("argument-modified", fmt.Sprintf("acc[%d] (%d values, not written since): %s() was %.17g and is now %.17g", i, n, c13StatNames[k], lastV[i][k], got))
				}
				continue
			}
			seen[i][k], lastV[i][k] = true, got
			if !have {
				rf, have = sums[i].Ref(), true
			}
			if msg := c13BigStat(w, &rf, k, got); msg != "" {
				bad(c13StatNames[k], fmt.Sprintf("acc[%d] holds %d values (min %v, max %v): %s", i, n, sums[i].Min, sums[i].Max, msg))
			}
		}
		if n >= 2 {
			w.HitIf(n >= 1000, "judged-count>=1e3")
			w.HitIf(n >= 10000, "judged-count>=1e4")
			w.HitIf(n >= 100000, "judged-count>=1e5")
			w.HitIf(n >= 1000000, "judged-count>=1e6")
			w.HitIf(c13IsRound(n), "judged-at-round-count")
			w.HitIf(c13IsRound(n-1), "judged-just-past-round-count")
			w.HitIf(merged[i] && n >= 10000, "judged-merge-of-large-parts")
		}
	}
	written := func(a int) {
		for k := range seen[a] {
			seen[a][k] = false
		}
	}

	for step, op = range c.Ops {
		trunc.Ops = append([]c13BigOp(nil), c.Ops[:step+1]...)
		last := step == len(c.Ops)-1
		rs := mon.NewRand(c.VSeed, ^uint64(0), uint64(step))
		a := op.A
		s, m := &accs[a], sums[a]
		if op.K == 0 {
			w.HitIf(merged[a] && op.N > 0 && m.N >= 10000, "add-after-large-merge")
			left := op.N
			for left > 0 && !refuted {
				// up to the next mark of this accumulator's logical count
				run := left
				mi := c13SearchInts(all, m.N+1)
				if mi < len(all) && all[mi]-m.N < run {
					run = all[mi] - m.N
				}
				xs := src[a][pos[a] : pos[a]+run]
				if p, v := mon.Call(func() {
					for _, x := range xs {
						s.Add(x)
					}
				}); p {
					trunc.Ops[step].N = op.N - left + run
					bad("panic-Add", fmt.Sprintf("panicked: %v", v))
					return
				}
				for _, x := range xs {
					m.Add(x)
				}
				pos[a] += run
				left -= run
				w.EvalN("Add", int64(run))
				written(a)
				trunc.Ops[step].N = op.N - left
				checkFields(a)
				if !refuted && c.Obs == 0 && mark[m.N] == 2 {
					readMethods(a, rs)
				}
			}
		} else {
			b := op.B
			o := sums[b]
			if m.N > 0 && o.N > 0 {
				lo := m.N
				if o.N < lo {
					lo = o.N
				}
				w.HitIf(lo >= 1000, "merge-both-sides>=1e3")
				w.HitIf(lo >= 10000, "merge-both-sides>=1e4")
				w.HitIf(lo >= 100000, "merge-both-sides>=1e5")
				w.HitIf(c13IsRound(m.N) || c13IsRound(o.N) || c13IsRound(m.N+o.N), "merge-at-round-count")
				if lo >= 1000 {
					ra, rb := m.Ref(), o.Ref()
					ma, sa := ref.F64(ra.Mean), ref.F64(ra.Std)
					mb, sb := ref.F64(rb.Mean), ref.F64(rb.Std)
					w.HitIf(math.Abs(ma-mb) > math.Max(sa, sb), "large-merge-means-apart")
					w.HitIf(math.Abs(ma-mb) <= math.Max(sa, sb), "large-merge-means-close")
				}
				merged[a] = true
			} else if o.N > 0 {
				merged[a] = merged[b]
				w.HitIf(o.N >= 1000, "large-merge-empty-receiver")
			} else {
				w.HitIf(m.N >= 1000, "large-merge-empty-argument")
			}
			if c.Obs != 2 && o.N > 0 {
				// the argument is observed before the merge, so that it can be
				// seen not to have moved after it
				readMethods(b, rs)
				if refuted {
					return
				}
			}
			w.Eval("Combine")
			if p, v := mon.Call(func() { s.Combine(&accs[b]) }); p {
				bad("panic-Combine", fmt.Sprintf("panicked: %v", v))
				return
			}
			m.Combine(o)
			if o.N > 0 {
				written(a)
			}
			checkFields(a)
			if !refuted && c.Obs != 2 {
				readMethods(a, rs)
				if o.N > 0 && !refuted {
					readMethods(b, rs)
				}
			}
		}
		if last && !refuted {
			w.HitIf(c.Obs == 2, "long-history-observed-only-at-end")
			for _, i := range rs.Perm(na) {
				readMethods(i, rs)
				if refuted {
					break
				}
			}
		}
		w.EvalN("statistic-checked", nchk)
		nchk = 0
		if refuted {
			return
		}
	}
}

func c13BigOpString(o c13BigOp) string {
	if o.K == 0 {
		return fmt.Sprintf("acc[%d] receives %d values", o.A, o.N)
	}
	return fmt.Sprintf("acc[%d].Combine(&acc[%d])", o.A, o.B)
}

func c13SortInts(xs []int) { sort.Ints(xs) }

// sortSearchInts: index of the first element >= v.
func c13SearchInts(xs []int, v int) int { return sort.SearchInts(xs, v) }

// c13BigSize draws a size in [lo, hi]: log-uniform, or at / just beyond (now
// and then just below) a round number.
func c13BigSize(rng *mon.Rand, lo, hi int) int {
	if rng.Bool() {
		var cand []int
		for _, r := range c13Rounds {
			if r >= lo && r <= hi {
				cand = append(cand, r)
			}
		}
		if len(cand) > 0 {
			r := cand[rng.Intn(len(cand))]
			return r + rng.PickI(0, 0, 0, 1, 1, 2, 3, 17, -1, r/64)
		}
	}
	return int(rng.LogUniform(float64(lo), float64(hi)))
}

// c13GenBig: regime 0 a single stream; 1 parts of comparable size merged by a
// star, a chain or a random tree, with values still arriving between and
// after the merges. huge: the stream / the parts reach 10^5..10^6 values.
// force (with huge): the stream has at least 1e6 values / two parts of at
// least 1e5 values each are merged.
func c13GenBig(rng *mon.Rand, regime int, huge, force bool) c13BigCase {
	c := c13BigCase{Big: true, VSeed: rng.Uint64() >> 12, Spread: 1}
	na := 1
	if regime == 1 {
		na = rng.PickI(2, 2, 2, 3, 3, 4, 5, 6)
		if huge {
			na = rng.PickI(2, 2, 3)
		}
		if force {
			na = 2
		}
	}
	// value kinds: one kind for all sources, a kind per source, or clusters
	// of one spread around centres 0.5 .. 1e6 spreads apart
	mode := rng.Intn(3)
	kind := c13PickKind(rng)
	if rng.Bool() {
		c.Spread = mon.F(math.Pow(10, float64(rng.Range(-12, 12))))
	}
	var names []string
	for i := 0; i < na; i++ {
		k := kind
		switch mode {
		case 1:
			k = c13PickKind(rng)
		case 2:
			k = c13KCluster
		}
		if k == 11 || k == 12 { // 1e-149..1e149: outside the assumed range at these lengths
			k -= 11
		}
		c.Kinds = append(c.Kinds, k)
		ctr := 0.0
		if k == c13KCluster {
			ctr = math.Pow(10, rng.Uniform(-0.3, 6)) * float64(c.Spread) * rng.Sign()
			if rng.Intn(4) == 0 {
				ctr = 0
			}
			names = append(names, "cluster")
		} else {
			names = append(names, c13KindNames[k])
		}
		c.Centre = append(c.Centre, mon.F(ctr))
	}
	// sizes
	c.Tot = make([]int, na)
	maxCount := 0
	if regime == 0 {
		n := c13BigSize(rng, c13MaxCount, 200000)
		if huge {
			n = c13BigSize(rng, 200000, 1200000)
		}
		if force {
			n = c13BigSize(rng, 1000001, 1200000)
		}
		c.Tot[0] = n
		c.Ops = append(c.Ops, c13BigOp{K: 0, A: 0, N: n})
		maxCount = n
	} else {
		// every part within a factor of two of one magnitude, so that a cutoff
		// "both sides at least T" is passed for T anywhere in the range
		mag := rng.LogUniform(c13MaxCount, 150000)
		if huge {
			mag = rng.LogUniform(100000, 300000)
		}
		if force {
			mag = rng.LogUniform(210000, 300000)
		}
		first := make([]int, na)
		for i := range first {
			if rng.Intn(3) == 0 {
				first[i] = c13BigSize(rng, int(mag/2)+1, int(mag*2))
			} else {
				first[i] = int(mag * rng.Uniform(0.5, 2))
			}
			if na >= 3 && rng.Intn(10) == 0 {
				first[i] = 0 // an empty part among large ones
			}
			c.Tot[i] = first[i]
			c.Ops = append(c.Ops, c13BigOp{K: 0, A: i, N: first[i]})
		}
		cnt := append([]int(nil), first...)
		more := func(a int) { // values arriving after a merge
			if rng.Intn(3) == 0 {
				n := rng.PickI(1, 2, rng.Range(1, 300), int(mag*rng.Uniform(0.01, 0.5)))
				c.Tot[a] += n
				cnt[a] += n
				c.Ops = append(c.Ops, c13BigOp{K: 0, A: a, N: n})
			}
		}
		comb := func(a, b int) {
			c.Ops = append(c.Ops, c13BigOp{K: 1, A: a, B: b})
			cnt[a] += cnt[b]
		}
		live := rng.Perm(na)
		switch shape := rng.Intn(3); shape {
		case 0: // star
			for _, b := range live[1:] {
				comb(live[0], b)
				more(live[0])
			}
		case 1: // chain, the result handed along as the argument
			for i := 1; i < na; i++ {
				comb(live[i], live[i-1])
				more(live[i])
			}
		default: // random tree
			for len(live) > 1 {
				i := rng.Intn(len(live))
				j := rng.Intn(len(live) - 1)
				if j >= i {
					j++
				}
				comb(live[i], live[j])
				more(live[i])
				live = append(live[:j], live[j+1:]...)
			}
		}
		for _, n := range cnt {
			if n > maxCount {
				maxCount = n
			}
		}
	}
	// marks: every round count (and its neighbours) and a dozen drawn counts up
	// to the largest count of the case; the methods at a drawn share of them
	c.Obs = rng.PickI(0, 0, 1, 2)
	pMeth := rng.Pick(0.1, 0.5, 1)
	put := func(m int) {
		if m < 1 || m > maxCount {
			return
		}
		if rng.Float64() < pMeth {
			c.Marks = append(c.Marks, m)
		} else {
			c.FMarks = append(c.FMarks, m)
		}
	}
	for _, r := range c13Rounds {
		if r <= maxCount+1 {
			put(r - 1)
			put(r)
			put(r + 1)
		}
	}
	for i := 0; i < 12; i++ {
		put(int(rng.LogUniform(2, float64(maxCount)+1)))
	}
	c13SortInts(c.Marks)
	c13SortInts(c.FMarks)
	tag := "long-stream"
	if regime == 1 {
		tag = "long-merge"
	}
	if huge {
		tag += "-huge"
	}
	c.Tag = tag + "/" + strings.Join(names, "+") + "/" + c13BigObsNames[c.Obs]
	return c
}
