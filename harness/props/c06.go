package props

import (
	"encoding/json"
	"fmt"
	"math"

	"github.com/aclements/go-moremath/stats"

	"verifmon/mon"
	"verifmon/ref"
)

// C06 — BinomialDist and HypergeometicDist: PMF/CDF equal the exact rational
// probabilities (1e-10), exact 0/1 outside the support, non-integer k is
// floor(k), Bounds/Step/Mean/Variance/NormalApprox.
//
// One case = one distribution plus a list of query points. The reference is
// ref.HypergExact / ref.BinomExact (big.Int, exact) and, for binomial N > 60,
// ref.BinomBig (384-bit floating point).

const (
	c06Tol      = 1e-10 // the statement's number, absolute
	c06ExactMax = 60    // binomial N up to which the exact big.Int table is used
)

type c06Case struct {
	Kind  string  `json:"kind"` // "binom" or "hyperg"
	N     int     `json:"n"`
	P     mon.F   `json:"p,omitempty"`
	K     int     `json:"k,omitempty"`
	Draws int     `json:"draws,omitempty"`
	Ks    []mon.F `json:"ks"` // query points of PMF and CDF (may be empty: moments only)
	// Ks are evaluated in the order given (the order is part of the case: an
	// implementation may keep state between calls). The last Requery entries
	// of Ks are evaluated on a distribution value constructed anew (equal
	// parameters) after all the earlier ones.
	Requery int    `json:"requery,omitempty"`
	Order   string `json:"order,omitempty"` // how Ks was ordered: asc, desc, random, history
	// PointsOnly: judge only PMF/CDF at Ks (set in the replay case of a
	// PMF/CDF violation: Ks is then the sequence of queries up to and
	// including the refuted one, so that the replay re-creates the call
	// history of that event)
	PointsOnly bool `json:"points_only,omitempty"`
}

func (c c06Case) String() string {
	if c.Kind == "binom" {
		return fmt.Sprintf("BinomialDist{N:%d,P:%v}", c.N, float64(c.P))
	}
	return fmt.Sprintf("HypergeometicDist{N:%d,K:%d,Draws:%d}", c.N, c.K, c.Draws)
}

// c06Dist is what both distributions offer.
type c06Dist interface {
	PMF(float64) float64
	CDF(float64) float64
	Bounds() (float64, float64)
	Step() float64
	Mean() float64
	Variance() float64
}

func init() {
	mon.Register(&mon.Prop{ID: "C06", Run: c06Run, Replay: func(w *mon.W, v *mon.ViolationRec) {
		var c c06Case
		if json.Unmarshal(v.Case, &c) == nil {
			c06Judge(w, c)
		}
	}})
}

// c06MomentTol: the statement gives no number for the moments ("equal the
// first two moments of the PMF"). The parameters are exact (integers, one
// float64) and the moments are short closed forms without cancellation, so a
// correct evaluation is within a few ulp *of the moment itself*, however
// small it is: the tolerance is relative, 1e-12 (four orders above the
// rounding of any evaluation order of N*P*(1-P), (Draws*K)/N, ...), plus two
// quanta of the subnormal range (P=5e-324 is in the domain). An absolute
// allowance would make the check blind exactly where the quantifier sends it
// (P within 1e-12 of 0 or 1: variance ~1e-12*N). A moment that is exactly 0
// (P=0, P=1, N=0; K or Draws in {0,N}) must be returned as 0: every factor
// that makes it vanish is computed exactly (1-1, N-N, 0*x).
//
// Hypergeometric only: K/N is not an input, so an evaluation that goes through
// the fractions p=K/N, 1-p, Draws/N (correct, and natural) carries an absolute
// rounding error of an ulp of 1 in 1-p, i.e. up to Draws*2^-53 in the moment;
// 8 such ulps are admitted (relative effect < 1e-9 for N<=1000).
func c06MomentTol(kind string, want float64, draws int) float64 {
	if want == 0 {
		return 0
	}
	tol := 1e-12*math.Abs(want) + 2*math.SmallestNonzeroFloat64
	if kind == "hyperg" {
		tol += 8 * 0x1p-53 * float64(draws)
	}
	return tol
}

// c06Within records |got-want| against tol (tol 0: got must equal want; NaN
// is never within).
func c06Within(w *mon.W, oracle string, got, want, tol float64) bool {
	return w.Err(oracle, math.Abs(got-want), tol)
}

// c06SigmaOK: Sigma is the square root of a variance within the variance
// tolerance, to 1e-12 relative (exactly 0 when the variance is 0).
func c06SigmaOK(sigma, vr, tolV float64) bool {
	if !(sigma >= 0) {
		return false
	}
	lo := math.Sqrt(math.Max(0, vr-tolV)) * (1 - 1e-12)
	hi := math.Sqrt(vr+tolV) * (1 + 1e-12)
	return sigma >= lo && sigma <= hi
}

func c06Table(c c06Case) (*ref.DiscTable, error) {
	if c.Kind == "binom" {
		if c.N <= c06ExactMax {
			return ref.BinomExact(c.N, float64(c.P))
		}
		return ref.BinomBig(c.N, float64(c.P))
	}
	return ref.HypergExact(c.N, c.K, c.Draws)
}

// inDomain: the statement's domain.
func (c c06Case) inDomain() bool {
	switch c.Kind {
	case "binom":
		p := float64(c.P)
		return c.N >= 0 && c.N <= 1000 && p >= 0 && p <= 1
	case "hyperg":
		return c.N >= 2 && c.K >= 0 && c.K <= c.N && c.Draws >= 0 && c.Draws <= c.N
	}
	return false
}

func c06Judge(w *mon.W, c c06Case) {
	if !c.inDomain() {
		return
	}
	tab, err := c06Table(c)
	if err != nil {
		// a defect of the reference, never of the library
		w.R.Inconclusive("C06 reference failed on " + c.String() + ": " + err.Error())
		return
	}
	binom := c.Kind == "binom"
	p := float64(c.P)
	var d c06Dist
	var bd stats.BinomialDist
	op := "Hyperg."
	// construct builds the distribution value from the parameters, anew
	construct := func() {
		if binom {
			bd = stats.BinomialDist{N: c.N, P: p}
			d = bd
		} else {
			d = stats.HypergeometicDist{N: c.N, K: c.K, Draws: c.Draws}
		}
	}
	construct()
	if binom {
		op = "Binomial."
	}
	lo, hi := tab.Lo, tab.Hi
	head := func() c06Case { h := c; h.Ks = nil; h.Requery = 0; return h }
	requeryFrom := len(c.Ks) - c.Requery
	if c.Requery <= 0 || requeryFrom < 0 {
		requeryFrom = len(c.Ks)
	}
	// upTo(i): the replay case of a refuted query i — the whole call history
	// of this case up to and including it
	upTo := func(i int) c06Case {
		h := c
		h.Ks = append([]mon.F(nil), c.Ks[:i+1]...)
		h.PointsOnly = true
		h.Requery = 0
		if i >= requeryFrom {
			h.Requery = i + 1 - requeryFrom
		}
		return h
	}

	// ---- classes of the distribution (inputs and reference side only)
	if binom {
		w.HitIf(p == 0, "binom-P=0")
		w.HitIf(p == 1, "binom-P=1")
		w.HitIf(p > 0 && p <= 1e-12, "binom-P-within-1e-12-of-0")
		w.HitIf(p < 1 && p >= 1-1e-12, "binom-P-within-1e-12-of-1")
		w.HitIf(c.N == 0, "binom-N=0")
		w.HitIf(c.N == 1, "binom-N=1")
		w.HitIf(c.N > 20 && c.N <= c06ExactMax, "binom-N-21..60")
		w.HitIf(c.N > c06ExactMax, "binom-N>60")
		w.HitIf(c.N == 1000, "binom-N=1000")
		w.HitIf(c.N >= 2 && p > 0 && p < 1, "binom-proper")
		w.HitIf(tab.Var == 0, "binom-variance=0")
		w.HitIf(tab.Var > 0 && tab.Var < 1e-10, "binom-variance-in-(0,1e-10)")
		w.HitIf(p < 1 && p >= 1-1e-9 && c.N >= 1, "binom-P-within-1e-9-of-1")
		if c.N <= 20 {
			w.Note("binom-N<=20")
		}
	} else {
		if c.N > 80 {
			small := func(x int) bool { return x <= 6 }
			near := func(x int) bool { return x >= c.N-6 }
			w.HitIf(small(c.Draws) && near(c.K) && lo > 0, "hg-bigN-small-Draws-K-near-N-lo>0")
			w.HitIf(small(c.K) && near(c.Draws) && lo > 0, "hg-bigN-small-K-Draws-near-N-lo>0")
			w.HitIf(small(c.K) && small(c.Draws) && hi >= 1, "hg-bigN-K-and-Draws-small")
			w.HitIf(near(c.K) && near(c.Draws) && hi > lo, "hg-bigN-K-and-Draws-near-N")
			w.HitIf(100*c.Draws <= c.N && c.Draws >= 1 && hi >= 1, "hg-bigN-Draws<=N/100")
			w.HitIf(100*c.K <= c.N && c.K >= 1 && hi >= 1, "hg-bigN-K<=N/100")
		}
		w.HitIf(2*c.Draws < c.N, "hg-Draws<N/2")
		w.HitIf(2*c.Draws > c.N, "hg-Draws>N/2")
		w.HitIf(2*c.Draws == c.N, "hg-Draws=N/2")
		w.HitIf(lo > 0, "hg-lower-bound>0")
		w.HitIf(c.Draws == c.N, "hg-Draws=N")
		w.HitIf(c.Draws == 0, "hg-Draws=0")
		w.HitIf(c.K == 0 || c.K == c.N, "hg-K-in-{0,N}")
		w.HitIf(lo == hi, "hg-one-point-support")
		w.HitIf(hi-lo >= 2, "hg-support>=3-points")
		w.HitIf(c.N > 80, "hg-N>80")
	}

	switch c.Order {
	case "asc", "desc", "random", "history":
		w.HitIf(len(c.Ks) > 2, "order-"+c.Order)
	}

	var mean, vr float64
	if !c.PointsOnly {
		// the moments of the reference PMF against the closed forms in
		// exact arithmetic: a disagreement is a defect of the reference
		var cm, cv float64
		if binom {
			cm, cv = ref.BinomMomentsClosed(c.N, p)
		} else {
			cm, cv = ref.HypergMomentsClosed(c.N, c.K, c.Draws)
		}
		if math.Abs(cm-tab.Mean) > 1e-14*math.Abs(cm)+math.SmallestNonzeroFloat64 || math.Abs(cv-tab.Var) > 1e-14*math.Abs(cv)+math.SmallestNonzeroFloat64 {
			w.R.Inconclusive(fmt.Sprintf("C06 reference moments of %v: from the PMF %.17g, %.17g; closed form %.17g, %.17g", c, tab.Mean, tab.Var, cm, cv))
			return
		}
		tolM := c06MomentTol(c.Kind, tab.Mean, c.Draws)
		tolV := c06MomentTol(c.Kind, tab.Var, c.Draws)

		// ---- Bounds, Step
		var bl, bh, step float64
		w.Eval(op + "Bounds")
		if pn, v := mon.Call(func() { bl, bh = d.Bounds() }); pn {
			w.Violate("panic", fmt.Sprintf("%v.Bounds() panicked: %v", c, v), head())
		} else {
			ok := bl == float64(lo) && bh == float64(hi)
			if binom && c.N > 0 && (p == 0 || p == 1) {
				// the trials-based support 0..N and the one point carrying
				// all the mass are both "the support end points" here
				pt := 0.0
				if p == 1 {
					pt = float64(c.N)
				}
				ok = ok || (bl == pt && bh == pt)
			}
			if !ok {
				w.Violate("Bounds", fmt.Sprintf("%v.Bounds()=(%v,%v), support is %d..%d", c, bl, bh, lo, hi), head())
			}
		}
		w.Eval(op + "Step")
		if pn, v := mon.Call(func() { step = d.Step() }); pn {
			w.Violate("panic", fmt.Sprintf("%v.Step() panicked: %v", c, v), head())
		} else if step != 1 {
			w.Violate("Step", fmt.Sprintf("%v.Step()=%v, want 1", c, step), head())
		}

		// ---- moments
		w.Eval(op + "Mean")
		if pn, v := mon.Call(func() { mean = d.Mean() }); pn {
			w.Violate("panic", fmt.Sprintf("%v.Mean() panicked: %v", c, v), head())
		} else if !c06Within(w, c.Kind+"-mean", mean, tab.Mean, tolM) {
			w.Violate("Mean", fmt.Sprintf("%v.Mean()=%.17g, first moment of the exact PMF is %.17g", c, mean, tab.Mean), head())
		}
		w.Eval(op + "Variance")
		if pn, v := mon.Call(func() { vr = d.Variance() }); pn {
			w.Violate("panic", fmt.Sprintf("%v.Variance() panicked: %v", c, v), head())
		} else if !c06Within(w, c.Kind+"-variance", vr, tab.Var, tolV) {
			w.Violate("Variance", fmt.Sprintf("%v.Variance()=%.17g, central second moment of the exact PMF is %.17g", c, vr, tab.Var), head())
		}
		if binom {
			var na stats.NormalDist
			w.Eval("Binomial.NormalApprox")
			if pn, v := mon.Call(func() { na = bd.NormalApprox() }); pn {
				w.Violate("panic", fmt.Sprintf("%v.NormalApprox() panicked: %v", c, v), head())
			} else {
				sd := math.Sqrt(tab.Var)
				muOK := c06Within(w, "normalapprox-mu", na.Mu, tab.Mean, tolM)
				// sigma: the square root of a variance within the variance
				// tolerance (exactly 0 when the variance is 0)
				sgOK := c06SigmaOK(na.Sigma, tab.Var, tolV)
				if sd > 0 {
					w.Err("normalapprox-sigma", math.Abs(na.Sigma-sd), 1e-12*sd+math.Sqrt(tab.Var+tolV)-sd)
				}
				if !muOK || !sgOK {
					w.Violate("NormalApprox", fmt.Sprintf("%v.NormalApprox()={Mu:%.17g,Sigma:%.17g}, want N(mean=%.17g, sd=%.17g)", c, na.Mu, na.Sigma, tab.Mean, sd), head())
				}
			}
		}

	}

	// ---- PMF and CDF at every query point
	hs := mon.NewHasher().S(c.Kind).I(c.N).F(p).I(c.K).I(c.Draws).I(len(c.Ks))
	var smp map[string]any
	type first struct{ pm, cd float64 }
	var seen map[uint64]first
	if requeryFrom < len(c.Ks) {
		seen = make(map[uint64]first, len(c.Ks))
	}
	for idx, kf := range c.Ks {
		k := float64(kf)
		hs = hs.F(k)
		if idx == requeryFrom {
			// from here on: a distribution value constructed anew
			construct()
			hs = hs.I(-1)
			w.Hit("requery-on-new-equal-value")
		}
		fl := math.Floor(k)
		if math.IsNaN(fl) {
			continue // not a point of the monitored domain
		}
		var j int
		switch {
		case fl > float64(hi)+3: // far above (also huge and +Inf): any index above the support behaves the same
			j = hi + 3
			w.HitIf(fl >= 0x1p63, "k-beyond-int64")
		case fl < float64(lo)-3:
			j = lo - 3
			w.HitIf(fl <= -0x1p63, "k-beyond-int64")
		default:
			j = int(fl)
		}
		below, above := j < lo, j > hi
		inside := !below && !above

		// classes of the point
		w.HitIf(k-fl == 0.5, "k-half-integer")
		w.HitIf(k != fl && k-fl != 0.5, "k-other-fraction")
		w.HitIf(k > -1 && k < 0, "k-in-(-1,0)")
		w.HitIf(k < -1 && k != fl, "k-negative-fraction")
		w.HitIf(k != fl && math.Nextafter(k, math.Inf(1)) == fl+1, "k-just-below-integer")
		w.HitIf(below, "k-below-support")
		w.HitIf(above, "k-above-support")
		w.HitIf(j == hi, "k-at-top")
		w.HitIf(j == lo, "k-at-bottom")
		w.HitIf(math.Abs(k) >= 1e6, "k-far-out")
		if binom {
			w.HitIf(j == c.N-1 && c.N >= 1, "binom-k=N-1")
			w.HitIf(inside && j < tab.Mode, "binom-k-below-mode")
			w.HitIf(inside && j > tab.Mode, "binom-k-above-mode")
		} else {
			w.HitIf(inside && j < tab.Mode, "hg-k-below-mode")
			w.HitIf(inside && j > tab.Mode && j < hi, "hg-k-above-mode")
			w.HitIf(inside && j == tab.Mode, "hg-k-at-mode")
		}

		// PMF
		var pm float64
		w.Eval(op + "PMF")
		if pn, v := mon.Call(func() { pm = d.PMF(k) }); pn {
			w.Violate("panic-PMF", fmt.Sprintf("%v.PMF(%v) panicked: %v", c, k, v), upTo(idx))
		} else if !inside {
			if pm != 0 {
				w.Violate("PMF-outside-support", fmt.Sprintf("%v.PMF(%v)=%v, floor(k)=%d is outside the support %d..%d: want exactly 0", c, k, pm, j, lo, hi), upTo(idx))
			}
		} else if want := tab.P(j); !w.Err(c.Kind+"-PMF", math.Abs(pm-want), c06Tol) {
			w.Violate("PMF", fmt.Sprintf("%v.PMF(%v)=%.15g, exact probability of %d is %.15g (diff %.3g)", c, k, pm, j, want, pm-want), upTo(idx))
		}

		// CDF
		var cd float64
		w.Eval(op + "CDF")
		if pn, v := mon.Call(func() { cd = d.CDF(k) }); pn {
			w.Violate("panic-CDF", fmt.Sprintf("%v.CDF(%v) panicked: %v", c, k, v), upTo(idx))
		} else if below {
			if cd != 0 {
				w.Violate("CDF-below-support", fmt.Sprintf("%v.CDF(%v)=%v, floor(k)=%d is below the support %d..%d: want exactly 0", c, k, cd, j, lo, hi), upTo(idx))
			}
		} else if j >= hi {
			if cd != 1 {
				w.Violate("CDF-from-top", fmt.Sprintf("%v.CDF(%v)=%v, floor(k)=%d is at or above the top of the support %d..%d: want exactly 1", c, k, cd, j, lo, hi), upTo(idx))
			}
		} else if want := tab.C(j); !w.Err(c.Kind+"-CDF", math.Abs(cd-want), c06Tol) {
			w.Violate("CDF", fmt.Sprintf("%v.CDF(%v)=%.15g, exact sum of the PMF over %d..%d is %.15g (diff %.3g)", c, k, cd, lo, j, want, cd-want), upTo(idx))
		}
		if seen != nil {
			// the answer to a repeated query: judged above against the exact
			// law like any other (the statement's tolerance leaves the last
			// bits free); how far it is from the first answer is recorded
			kb := math.Float64bits(k)
			if f, ok := seen[kb]; ok {
				w.HitIf(inside, "requery-inside-support")
				w.Err("requery-drift-PMF", math.Abs(pm-f.pm), 2*c06Tol)
				w.Err("requery-drift-CDF", math.Abs(cd-f.cd), 2*c06Tol)
				if math.Float64bits(pm) != math.Float64bits(f.pm) || math.Float64bits(cd) != math.Float64bits(f.cd) {
					w.Note("observed-not-judged:repeated-query-not-bit-identical")
				}
			} else {
				seen[kb] = first{pm, cd}
			}
		}
		if smp == nil && inside && j == tab.Mode && k != fl {
			smp = map[string]any{"k": mon.F(k), "PMF": mon.F(pm), "PMF_ref": mon.F(tab.P(j)), "CDF": mon.F(cd), "CDF_ref": mon.F(tab.C(j))}
		}
	}
	w.Distinct(hs.Sum())
	if w.WantSample() && smp != nil && hi-lo >= 3 {
		smp["dist"], smp["support"], smp["points"] = c.String(), []int{lo, hi}, len(c.Ks)
		smp["mean"], smp["mean_ref"], smp["variance"], smp["variance_ref"] = mon.F(mean), mon.F(tab.Mean), mon.F(vr), mon.F(tab.Var)
		w.Sample(smp)
	}
}

// c06Grid builds the query points for a support lo..hi: every integer and
// half-integer from lo-2 to hi+2, the points that separate floor from
// truncation (-0.5, -1e-300, -0, -1.5), neighbours of integers one ulp away,
// far-out points, and nfrac random fractions.
func c06Grid(lo, hi int, rng *mon.Rand, nfrac int) []mon.F {
	var ks []mon.F
	add := func(x float64) { ks = append(ks, mon.F(x)) }
	for x := float64(lo - 2); x <= float64(hi+2); x += 0.5 {
		add(x)
	}
	for _, x := range []float64{-0.5, -1e-300, math.Copysign(0, -1), -1, -1.5, -0.999999,
		float64(lo) - 1e6, float64(hi) + 1e6, float64(lo) - 1e6 - 0.5, float64(hi) + 1e6 + 0.5, 1 << 40, -(1 << 40),
		0x1p62, 0x1p63, -0x1p64, 1e300, -1e300, math.Inf(1), math.Inf(-1)} {
		add(x)
	}
	js := []int{lo, hi, hi + 1, lo + rng.Intn(hi-lo+1), lo + rng.Intn(hi-lo+1)}
	for _, j := range js {
		add(math.Nextafter(float64(j), math.Inf(-1)))
		add(math.Nextafter(float64(j), math.Inf(1)))
	}
	for i := 0; i < nfrac; i++ {
		j := lo - 1 + rng.Intn(hi-lo+3)
		add(float64(j) + rng.Float64())
	}
	return ks
}

// c06Sequence turns the points of a grid into the query sequence of a case:
// the order of evaluation (as generated = ascending sweep first; reversed;
// shuffled), followed by a few points asked again on a distribution value
// constructed anew. An implementation that keeps state between calls (a
// memo table, a cached row) sees call histories other than "ascending,
// every point once".
func c06Sequence(ks []mon.F, rng *mon.Rand) (seq []mon.F, order string, requery int) {
	switch rng.Intn(4) {
	case 0:
		order = "asc"
	case 1:
		order = "desc"
		for i, j := 0, len(ks)-1; i < j; i, j = i+1, j-1 {
			ks[i], ks[j] = ks[j], ks[i]
		}
	default:
		order = "random"
		for i := len(ks) - 1; i > 0; i-- {
			j := rng.Intn(i + 1)
			ks[i], ks[j] = ks[j], ks[i]
		}
	}
	n := len(ks)
	requery = 6
	for i := 0; i < requery; i++ {
		ks = append(ks, ks[rng.Intn(n)])
	}
	return ks, order, requery
}

// c06History: first a sparse subset of the grid in descending or random
// order on one distribution value, then the whole grid in ascending order on
// a value constructed anew (equal parameters).
func c06History(ks []mon.F, rng *mon.Rand) (seq []mon.F, order string, requery int) {
	var pre []mon.F
	stride := rng.Range(2, 5)
	for i := rng.Intn(stride); i < len(ks); i += stride {
		pre = append(pre, ks[i])
	}
	if rng.Bool() {
		for i, j := 0, len(pre)-1; i < j; i, j = i+1, j-1 {
			pre[i], pre[j] = pre[j], pre[i]
		}
	} else {
		for i := len(pre) - 1; i > 0; i-- {
			j := rng.Intn(i + 1)
			pre[i], pre[j] = pre[j], pre[i]
		}
	}
	return append(pre, ks...), "history", len(ks)
}

func c06HgBounds(n, k, draws int) (lo, hi int) {
	lo = draws + k - n
	if lo < 0 {
		lo = 0
	}
	hi = draws
	if k < hi {
		hi = k
	}
	return
}

func c06Binom(w *mon.W, n int, p float64, nfrac int) {
	ks, order, rq := c06Sequence(c06Grid(0, n, w.Rng, nfrac), w.Rng)
	c06Judge(w, c06Case{Kind: "binom", N: n, P: mon.F(p), Ks: ks, Order: order, Requery: rq})
}

func c06Hyperg(w *mon.W, n, k, draws, nfrac int) {
	lo, hi := c06HgBounds(n, k, draws)
	ks, order, rq := c06Sequence(c06Grid(lo, hi, w.Rng, nfrac), w.Rng)
	c06Judge(w, c06Case{Kind: "hyperg", N: n, K: k, Draws: draws, Ks: ks, Order: order, Requery: rq})
}

// c06GridPs: the 101 values j/100 and the hostile probabilities at and next
// to 0 and 1.
func c06GridPs() []float64 {
	var ps []float64
	for j := 0; j <= 100; j++ {
		ps = append(ps, float64(j)/100)
	}
	ps = append(ps, 1e-12, 1-1e-12, 1e-13, 1-1e-13, 3e-16, math.Nextafter(1, 0), 1-0x1p-52,
		math.SmallestNonzeroFloat64, 0x1p-1022, 1e-300, 1e-20)
	return ps
}

var c06SpecialPs = []float64{0, 1, 1e-12, 1 - 1e-12, math.SmallestNonzeroFloat64, 1 - 0x1p-53, 0x1p-1022, 0.5, 1e-5, 1 - 1e-5}

func c06Run(r *mon.Run) {
	r.Rule("exhaustive: every HypergeometicDist{N,K,Draws} with 2<=N<=40 (thorough 80), 0<=K,Draws<=N, and every BinomialDist with N<=60 and P in {j/100, 1e-12, 1-1e-12, 1e-13, 1-1e-13, 3e-16, nextafter(1,0), 1-2^-52, 5e-324, 2^-1022, 1e-300, 1e-20}; random: binomial N<=1000 (P uniform, log-uniform near 0 and near 1, j/N, special values) and hypergeometric N<=1000 (uniform and extreme K/Draws shapes; K and Draws each within 6 of 0 or of N in all 196 combinations at N in {1000,999,600,101,100} and random N; K, Draws log-uniform from 0 or from N). Per distribution: Bounds, Step, Mean, Variance, NormalApprox and PMF+CDF at every integer and half-integer from 2 below to 2 above the support, at -0.5, -1e-300, -0, one ulp either side of integers, +-1e6 beyond, +-2^40, and random fractions. The points of a case are queried in ascending, descending or random order (chosen per case), then 6 of them again on a distribution value constructed anew; history cases query a sparse out-of-order subset first and then the whole grid in ascending order on a new equal value; every answer, repeated or not, is judged against the exact law. A case (one distribution with its query sequence) is non-trivial when it hits a class; distinct by hash of (kind, parameters, sequence).")
	r.Assume("reference: exact big.Int probabilities (all hypergeometric; binomial N<=60 with P the exact dyadic value of the float64), 384-bit big.Float for binomial N>60 (relative error < 2^-370); moments computed from the reference PMF; all cross-checked at start-up against subset/outcome enumeration, closed-form moments, gonum's incomplete beta and textbook constants",
		"tolerances: 1e-10 absolute for PMF and CDF inside the support (the statement's number), exact 0/1 outside; moments relative: 1e-12*|value| + 2 subnormal quanta (hypergeometric: + 8*2^-53*Draws for evaluations through K/N), exactly 0 when the moment is 0; NormalApprox.Sigma = sqrt of a variance within that tolerance, to 1e-12 relative; for P in {0,1} Bounds may be 0..N or the single mass point",
		"a repeated query need not be bit-identical to the first (the statement's 1e-10 leaves the last bits free): both are judged against the exact law; the drift and the number of non-identical repeats are recorded only",
		"NaN k is not monitored; huge finite and infinite k are judged as points below/above the support")
	r.Gate("hg-k-below-mode", "hg-k-above-mode", "hg-k-at-mode", "hg-Draws<N/2", "hg-Draws>N/2", "hg-Draws=N/2", "hg-lower-bound>0",
		"hg-Draws=N", "hg-Draws=0", "hg-K-in-{0,N}", "hg-one-point-support", "hg-support>=3-points", "hg-N>80",
		"binom-k=N-1", "binom-P=0", "binom-P=1", "binom-P-within-1e-12-of-0", "binom-P-within-1e-12-of-1",
		"binom-threshold-size", "hyperg-threshold-size", "binom-N=0", "binom-N=1", "binom-N-21..60", "binom-N>60", "binom-N=1000", "binom-proper", "binom-k-below-mode", "binom-k-above-mode",
		"k-half-integer", "k-other-fraction", "k-in-(-1,0)", "k-negative-fraction", "k-just-below-integer",
		"k-below-support", "k-above-support", "k-at-top", "k-at-bottom", "k-far-out", "k-beyond-int64",
		"binom-variance=0", "binom-variance-in-(0,1e-10)", "binom-P-within-1e-9-of-1",
		"hg-bigN-corner-shape", "hg-bigN-loguniform-shape", "hg-bigN-small-Draws-K-near-N-lo>0", "hg-bigN-small-K-Draws-near-N-lo>0",
		"hg-bigN-K-and-Draws-small", "hg-bigN-K-and-Draws-near-N", "hg-bigN-Draws<=N/100", "hg-bigN-K<=N/100",
		"order-asc", "order-desc", "order-random", "order-history", "requery-on-new-equal-value", "requery-inside-support")
	if err := ref.C06SelfTest(); err != nil {
		r.Inconclusive("reference self-test failed: " + err.Error())
		return
	}

	c06ObserveHugeK(r)

	// ---- exhaustive hypergeometric
	maxN := r.Pick(40, 80)
	type trip struct{ n, k, d int }
	var hs []trip
	for n := 2; n <= maxN; n++ {
		for k := 0; k <= n; k++ {
			for d := 0; d <= n; d++ {
				hs = append(hs, trip{n, k, d})
			}
		}
	}
	r.Exhaustive(fmt.Sprintf("all %d HypergeometicDist{N,K,Draws} with 2<=N<=%d on the full half-integer grid around the support", len(hs), maxN))
	r.Parallel("hyperg-exhaustive", len(hs), func(w *mon.W, i int) {
		t := hs[i]
		c06Hyperg(w, t.n, t.k, t.d, 2)
	})

	// ---- binomial grid
	ps := c06GridPs()
	type bn struct {
		n int
		p float64
	}
	var bs []bn
	for n := 0; n <= c06ExactMax; n++ {
		for _, p := range ps {
			bs = append(bs, bn{n, p})
		}
	}
	r.Exhaustive(fmt.Sprintf("all %d BinomialDist with N<=%d and P in the %d-value grid, on the full half-integer grid around 0..N", len(bs), c06ExactMax, len(ps)))
	r.Parallel("binom-grid", len(bs), func(w *mon.W, i int) {
		c06Binom(w, bs[i].n, bs[i].p, 2)
	})

	// ---- sizes around the thresholds at which plausible implementations
	// switch algorithms or overflow (int64 products from n = 62, table sizes
	// 64/128/256/512, the float64 factorial limit 170): every such N, central P
	var thr []int
	for n := 61; n <= 130; n++ {
		thr = append(thr, n)
	}
	thr = append(thr, 169, 170, 171, 172, 255, 256, 257, 511, 512, 513)
	type tb struct {
		n int
		p float64
	}
	var tbs []tb
	for _, n := range thr {
		for _, p := range []float64{0.5, 0.25, 0.9, 1.0 / 3} {
			tbs = append(tbs, tb{n, p})
		}
	}
	r.Parallel("binom-threshold-sizes", len(tbs), func(w *mon.W, i int) {
		w.Hit("binom-threshold-size")
		c06Binom(w, tbs[i].n, tbs[i].p, 2)
	})
	type th struct{ n, k, d int }
	var ths []th
	for _, n := range thr {
		for _, k := range []int{n / 2, n/2 + 1, n / 3, 62, 64, 66} {
			for _, d := range []int{n / 2, n/2 - 1, (2 * n) / 3, 33} {
				if k <= n && d <= n && k >= 0 && d >= 0 {
					ths = append(ths, th{n, k, d})
				}
			}
		}
	}
	r.Parallel("hyperg-threshold-sizes", len(ths), func(w *mon.W, i int) {
		w.Hit("hyperg-threshold-size")
		c06Hyperg(w, ths[i].n, ths[i].k, ths[i].d, 2)
	})

	// ---- random binomial, N up to 1000
	nb := r.Pick(800, 8000)
	r.Parallel("binom-random", nb, func(w *mon.W, i int) {
		rng := w.Rng
		var n int
		switch i % 5 {
		case 0:
			n = 1000
		case 1:
			n = rng.Range(61, 1000)
		case 2:
			n = rng.Range(900, 1000)
		case 3:
			n = rng.Range(61, 200)
		default:
			n = rng.Range(0, 60)
		}
		var p float64
		switch (i / 5) % 8 {
		case 0, 7:
			p = rng.Float64()
		case 1:
			p = rng.LogUniform(1e-15, 1e-1)
		case 2:
			p = 1 - rng.LogUniform(1e-15, 1e-1)
		case 3:
			p = float64(rng.Range(0, n)) / math.Max(1, float64(n))
		case 4:
			p = c06SpecialPs[rng.Intn(len(c06SpecialPs))]
		case 5:
			p = rng.LogUniform(1e-300, 1e-15)
		default:
			// mean close to an end of the support
			p = rng.Uniform(0, 8) / math.Max(8, float64(n))
			if rng.Bool() {
				p = 1 - p
			}
		}
		c06Binom(w, n, p, 16)
	})

	// ---- random hypergeometric, N up to 1000
	nh := r.Pick(800, 8000)
	r.Parallel("hyperg-random", nh, func(w *mon.W, i int) {
		rng := w.Rng
		var n int
		switch i % 4 {
		case 0:
			n = 1000
		case 1:
			n = rng.Range(maxN+1, 1000)
		case 2:
			n = rng.Range(maxN+1, 2*maxN)
		default:
			n = rng.Range(500, 1000)
		}
		var k, d int
		switch (i / 4) % 10 {
		case 0, 9:
			k, d = rng.Range(0, n), rng.Range(0, n)
		case 1:
			k, d = rng.Range(0, 6), rng.Range(0, n)
		case 2:
			k, d = rng.Range(0, n), rng.Range(0, 6)
		case 3:
			k, d = rng.Range(0, n), n-rng.Range(0, 6)
		case 4:
			k, d = n-rng.Range(0, 6), rng.Range(0, n)
		case 5:
			k, d = n/2, n/2
		case 6:
			k, d = rng.Range(0, n), n
		case 7:
			k, d = n/2+rng.Range(-10, 10), n/2+rng.Range(-10, 10)
		default:
			// lower support bound > 0, narrow support
			k, d = n-rng.Range(0, 30), n-rng.Range(0, 30)
		}
		c06Hyperg(w, n, k, d, 16)
	})

	// ---- hypergeometric corner shapes at large N: K and Draws each within 6
	// of 0 or of N (all 14x14 combinations), where the support is short, may
	// start above 0, and sample or marked set are a tiny or a huge fraction
	// of the population
	cornerNs := []int{1000, 999, 600, 101, 100}
	type cs struct{ n, a, b int }
	var corners []cs
	for _, n := range cornerNs {
		for a := 0; a < 14; a++ {
			for b := 0; b < 14; b++ {
				corners = append(corners, cs{n, a, b})
			}
		}
	}
	for i := 0; i < r.Pick(196, 1960); i++ {
		corners = append(corners, cs{-1, i / 14 % 14, i % 14}) // N random
	}
	r.Parallel("hyperg-corners", len(corners), func(w *mon.W, i int) {
		t := corners[i]
		n := t.n
		if n < 0 {
			n = w.Rng.Range(81, 1000)
		}
		end := func(a int) int {
			if a < 7 {
				return a
			}
			return n - (a - 7)
		}
		w.Hit("hg-bigN-corner-shape")
		c06Hyperg(w, n, end(t.a), end(t.b), 4)
	})
	// ... and K, Draws log-uniform from 0 or from N
	r.Parallel("hyperg-loguniform", r.Pick(240, 2400), func(w *mon.W, i int) {
		rng := w.Rng
		n := 1000
		if i%3 == 1 {
			n = rng.Range(200, 1000)
		}
		lg := func() int { return int(rng.LogUniform(1, float64(n)+1)) }
		k, d := lg(), lg()
		if i/3%2 == 1 {
			k = n - k
		}
		if i/6%2 == 1 {
			d = n - d
		}
		w.Hit("hg-bigN-loguniform-shape")
		c06Hyperg(w, n, k, d, 4)
	})

	// ---- call histories: a value-equal distribution queried before, sparsely
	// and out of order
	r.Parallel("hyperg-history", r.Pick(400, 4000), func(w *mon.W, i int) {
		rng := w.Rng
		n := rng.Range(4, 120)
		if i%4 == 0 {
			n = rng.Range(121, 1000)
		}
		k, d := rng.Range(0, n), rng.Range(0, n)
		if i%3 == 0 {
			k, d = n/2+rng.Range(-n/4, n/4), n/2+rng.Range(-n/4, n/4)
		}
		lo, hi := c06HgBounds(n, k, d)
		ks, order, rq := c06History(c06Grid(lo, hi, rng, 4), rng)
		c06Judge(w, c06Case{Kind: "hyperg", N: n, K: k, Draws: d, Ks: ks, Order: order, Requery: rq})
	})
	r.Parallel("binom-history", r.Pick(300, 3000), func(w *mon.W, i int) {
		rng := w.Rng
		n := rng.Range(1, 120)
		if i%4 == 0 {
			n = rng.Range(121, 1000)
		}
		p := rng.Float64()
		if i%5 == 0 {
			p = c06SpecialPs[rng.Intn(len(c06SpecialPs))]
		}
		ks, order, rq := c06History(c06Grid(0, n, rng, 4), rng)
		c06Judge(w, c06Case{Kind: "binom", N: n, P: mon.F(p), Ks: ks, Order: order, Requery: rq})
	})
}

// c06ObserveHugeK records, without judging, what the library returns for k
// beyond the int64 range, +-Inf and NaN. The statement's quantifier runs
// "from below to above the support", and Go leaves the float-to-int
// conversion of such k implementation-defined, so these points are outside
// the monitored domain; the observation is kept in the evidence so that the
// behaviour is visible (on amd64 CDF(k) is 0, not 1, for k >= 2^63 and +Inf).
func c06ObserveHugeK(r *mon.Run) {
	obs := map[string]any{}
	r.Serial("observe-huge-k", 1, func(w *mon.W, _ int) {
		ds := map[string]c06Dist{
			"BinomialDist{N:10,P:0.3}":            stats.BinomialDist{N: 10, P: 0.3},
			"HypergeometicDist{N:20,K:7,Draws:9}": stats.HypergeometicDist{N: 20, K: 7, Draws: 9},
		}
		for name, d := range ds {
			for _, k := range []float64{0x1p62, 0x1p63, 1e300, math.Inf(1), math.Inf(-1), -0x1p64, math.NaN()} {
				var pm, cd float64
				pn, _ := mon.Call(func() { pm, cd = d.PMF(k), d.CDF(k) })
				w.Note("observed-not-judged:k-beyond-int64-or-non-finite")
				obs[fmt.Sprintf("%s k=%v", name, k)] = map[string]any{"PMF": mon.F(pm), "CDF": mon.F(cd), "panicked": pn}
			}
		}
	})
	r.Extra("observed_not_judged_huge_k", obs)
}
