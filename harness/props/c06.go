package props

import (
	"encoding/json"
	"fmt"
	"math"

	"github.com/aclements/go-moremath/stats"

	"verifmon/mon"
	"verifmon/ref"
)

// C06 — BinomialDist and HypergeometicDist: PMF/CDF equal the exact rational
// probabilities (1e-10), exact 0/1 outside the support, non-integer k is
// floor(k), Bounds/Step/Mean/Variance/NormalApprox.
//
// One case = one distribution plus a list of query points. The reference is
// ref.HypergExact / ref.BinomExact (big.Int, exact) and, for binomial N > 60,
// ref.BinomBig (384-bit floating point).

const (
	c06Tol      = 1e-10 // the statement's number, absolute
	c06ExactMax = 60    // binomial N up to which the exact big.Int table is used
)

type c06Case struct {
	Kind  string  `json:"kind"` // "binom" or "hyperg"
	N     int     `json:"n"`
	P     mon.F   `json:"p,omitempty"`
	K     int     `json:"k,omitempty"`
	Draws int     `json:"draws,omitempty"`
	Ks    []mon.F `json:"ks"` // query points of PMF and CDF (may be empty: moments only)
	// Ks are evaluated in the order given (the order is part of the case: an
	// implementation may keep state between calls). The last Requery entries
	// of Ks are evaluated on a distribution value constructed anew (equal
	// parameters) after all the earlier ones.
	Requery int    `json:"requery,omitempty"`
	Order   string `json:"order,omitempty"` // how Ks was ordered: asc, desc, random, history
	// PointsOnly: judge only PMF/CDF at Ks (set in the replay case of a
	// PMF/CDF violation: Ks is then the sequence of queries up to and
	// including the refuted one, so that the replay re-creates the call
	// history of that event)
	PointsOnly bool `json:"points_only,omitempty"`
	// Kind "mixed": HypergeometicDist{N,K,Draws} and BinomialDist{N:BN,P:P}
	// evaluated alternately, one call per step, on one goroutine (Order is the
	// pattern of the alternation: BHB, HBH, random). The replay case of a
	// refuted step holds the steps up to and including it.
	BN    int       `json:"bn,omitempty"`
	Steps []c06Step `json:"steps,omitempty"`
	// Before: the mixed case that ran immediately before this one on the same
	// goroutine (class mixed-history only; nil elsewhere). State kept in
	// shared helpers outlives a case, so the replay case of a refuted step
	// carries it with ReplayBefore set: the replay re-executes Before first.
	Before       *c06Case `json:"before,omitempty"`
	ReplayBefore bool     `json:"replay_before,omitempty"`
}

// c06Step is one call of a mixed history.
type c06Step struct {
	Fam string `json:"f"`  // "B" (the binomial) or "H" (the hypergeometric)
	Fn  string `json:"fn"` // "PMF" or "CDF"
	K   mon.F  `json:"k"`
}

func (c c06Case) String() string {
	if c.Kind == "mixed" {
		return fmt.Sprintf("mixed{%v, %v}", c.hypergPart(), c.binomPart())
	}
	if c.Kind == "binom" {
		return fmt.Sprintf("BinomialDist{N:%d,P:%v}", c.N, float64(c.P))
	}
	return fmt.Sprintf("HypergeometicDist{N:%d,K:%d,Draws:%d}", c.N, c.K, c.Draws)
}

// the two distributions of a mixed case
func (c c06Case) hypergPart() c06Case {
	return c06Case{Kind: "hyperg", N: c.N, K: c.K, Draws: c.Draws}
}
func (c c06Case) binomPart() c06Case { return c06Case{Kind: "binom", N: c.BN, P: c.P} }

// c06Dist is what both distributions offer.
type c06Dist interface {
	PMF(float64) float64
	CDF(float64) float64
	Bounds() (float64, float64)
	Step() float64
	Mean() float64
	Variance() float64
}

func init() {
	mon.Register(&mon.Prop{ID: "C06", Run: c06Run, Replay: func(w *mon.W, v *mon.ViolationRec) {
		var c c06Case
		if json.Unmarshal(v.Case, &c) == nil {
			c06Judge(w, c)
		}
	}})
}

// c06MomentTol: the statement gives no number for the moments ("equal the
// first two moments of the PMF"). The parameters are exact (integers, one
// float64) and the moments are short closed forms without cancellation, so a
// correct evaluation is within a few ulp *of the moment itself*, however
// small it is: the tolerance is relative, 1e-12 (four orders above the
// rounding of any evaluation order of N*P*(1-P), (Draws*K)/N, ...), plus two
// quanta of the subnormal range (P=5e-324 is in the domain). An absolute
// allowance would make the check blind exactly where the quantifier sends it
// (P within 1e-12 of 0 or 1: variance ~1e-12*N). A moment that is exactly 0
// (P=0, P=1, N=0; K or Draws in {0,N}) must be returned as 0: every factor
// that makes it vanish is computed exactly (1-1, N-N, 0*x).
//
// Hypergeometric only: K/N is not an input, so an evaluation that goes through
// the fractions p=K/N, 1-p, Draws/N (correct, and natural) carries an absolute
// rounding error of an ulp of 1 in 1-p, i.e. up to Draws*2^-53 in the moment;
// 8 such ulps are admitted (relative effect < 1e-9 for N<=1000).
func c06MomentTol(kind string, want float64, draws int) float64 {
	if want == 0 {
		return 0
	}
	tol := 1e-12*math.Abs(want) + 2*math.SmallestNonzeroFloat64
	if kind == "hyperg" {
		tol += 8 * 0x1p-53 * float64(draws)
	}
	return tol
}

// c06Within records |got-want| against tol (tol 0: got must equal want; NaN
// is never within).
func c06Within(w *mon.W, oracle string, got, want, tol float64) bool {
	return w.Err(oracle, math.Abs(got-want), tol)
}

// c06SigmaOK: Sigma is the square root of a variance within the variance
// tolerance, to 1e-12 relative (exactly 0 when the variance is 0).
func c06SigmaOK(sigma, vr, tolV float64) bool {
	if !(sigma >= 0) {
		return false
	}
	lo := math.Sqrt(math.Max(0, vr-tolV)) * (1 - 1e-12)
	hi := math.Sqrt(vr+tolV) * (1 + 1e-12)
	return sigma >= lo && sigma <= hi
}

func c06Table(c c06Case) (*ref.DiscTable, error) {
	if c.Kind == "binom" {
		if c.N <= c06ExactMax {
			return ref.BinomExact(c.N, float64(c.P))
		}
		return ref.BinomBig(c.N, float64(c.P))
	}
	return ref.HypergExact(c.N, c.K, c.Draws)
}

// inDomain: the statement's domain.
func (c c06Case) inDomain() bool {
	switch c.Kind {
	case "binom":
		p := float64(c.P)
		return c.N >= 0 && c.N <= 1000 && p >= 0 && p <= 1
	case "hyperg":
		return c.N >= 2 && c.K >= 0 && c.K <= c.N && c.Draws >= 0 && c.Draws <= c.N
	case "mixed":
		return c.hypergPart().inDomain() && c.binomPart().inDomain()
	}
	return false
}

func c06Judge(w *mon.W, c c06Case) {
	if !c.inDomain() {
		return
	}
	if c.Kind == "mixed" {
		c06JudgeMixed(w, c)
		return
	}
	tab, err := c06Table(c)
	if err != nil {
		// a defect of the reference, never of the library
		w.R.Inconclusive("C06 reference failed on " + c.String() + ": " + err.Error())
		return
	}
	binom := c.Kind == "binom"
	p := float64(c.P)
	var d c06Dist
	var bd stats.BinomialDist
	op := "Hyperg."
	// construct builds the distribution value from the parameters, anew
	construct := func() {
		if binom {
			bd = stats.BinomialDist{N: c.N, P: p}
			d = bd
		} else {
			d = stats.HypergeometicDist{N: c.N, K: c.K, Draws: c.Draws}
		}
	}
	construct()
	if binom {
		op = "Binomial."
	}
	lo, hi := tab.Lo, tab.Hi
	head := func() c06Case { h := c; h.Ks = nil; h.Requery = 0; return h }
	requeryFrom := len(c.Ks) - c.Requery
	if c.Requery <= 0 || requeryFrom < 0 {
		requeryFrom = len(c.Ks)
	}
	// upTo(i): the replay case of a refuted query i — the whole call history
	// of this case up to and including it
	upTo := func(i int) c06Case {
		h := c
		h.Ks = append([]mon.F(nil), c.Ks[:i+1]...)
		h.PointsOnly = true
		h.Requery = 0
		if i >= requeryFrom {
			h.Requery = i + 1 - requeryFrom
		}
		return h
	}

	// ---- classes of the distribution (inputs and reference side only)
	if binom {
		w.HitIf(p == 0, "binom-P=0")
		w.HitIf(p == 1, "binom-P=1")
		w.HitIf(p > 0 && p <= 1e-12, "binom-P-within-1e-12-of-0")
		w.HitIf(p < 1 && p >= 1-1e-12, "binom-P-within-1e-12-of-1")
		w.HitIf(c.N == 0, "binom-N=0")
		w.HitIf(c.N == 1, "binom-N=1")
		w.HitIf(c.N > 20 && c.N <= c06ExactMax, "binom-N-21..60")
		w.HitIf(c.N > c06ExactMax, "binom-N>60")
		w.HitIf(c.N == 1000, "binom-N=1000")
		w.HitIf(c.N >= 2 && p > 0 && p < 1, "binom-proper")
		w.HitIf(tab.Var == 0, "binom-variance=0")
		w.HitIf(tab.Var > 0 && tab.Var < 1e-10, "binom-variance-in-(0,1e-10)")
		w.HitIf(p < 1 && p >= 1-1e-9 && c.N >= 1, "binom-P-within-1e-9-of-1")
		if c.N <= 20 {
			w.Note("binom-N<=20")
		}
	} else {
		if c.N > 80 {
			small := func(x int) bool { return x <= 6 }
			near := func(x int) bool { return x >= c.N-6 }
			w.HitIf(small(c.Draws) && near(c.K) && lo > 0, "hg-bigN-small-Draws-K-near-N-lo>0")
			w.HitIf(small(c.K) && near(c.Draws) && lo > 0, "hg-bigN-small-K-Draws-near-N-lo>0")
			w.HitIf(small(c.K) && small(c.Draws) && hi >= 1, "hg-bigN-K-and-Draws-small")
			w.HitIf(near(c.K) && near(c.Draws) && hi > lo, "hg-bigN-K-and-Draws-near-N")
			w.HitIf(100*c.Draws <= c.N && c.Draws >= 1 && hi >= 1, "hg-bigN-Draws<=N/100")
			w.HitIf(100*c.K <= c.N && c.K >= 1 && hi >= 1, "hg-bigN-K<=N/100")
		}
		w.HitIf(2*c.Draws < c.N, "hg-Draws<N/2")
		w.HitIf(2*c.Draws > c.N, "hg-Draws>N/2")
		w.HitIf(2*c.Draws == c.N, "hg-Draws=N/2")
		w.HitIf(lo > 0, "hg-lower-bound>0")
		w.HitIf(c.Draws == c.N, "hg-Draws=N")
		w.HitIf(c.Draws == 0, "hg-Draws=0")
		w.HitIf(c.K == 0 || c.K == c.N, "hg-K-in-{0,N}")
		w.HitIf(lo == hi, "hg-one-point-support")
		w.HitIf(hi-lo >= 2, "hg-support>=3-points")
		w.HitIf(c.N > 80, "hg-N>80")
	}

	switch c.Order {
	case "asc", "desc", "random", "history":
		w.HitIf(len(c.Ks) > 2, "order-"+c.Order)
	}

	var mean, vr float64
	if !c.PointsOnly {
		// the moments of the reference PMF against the closed forms in
		// exact arithmetic: a disagreement is a defect of the reference
		var cm, cv float64
		if binom {
			cm, cv = ref.BinomMomentsClosed(c.N, p)
		} else {
			cm, cv = ref.HypergMomentsClosed(c.N, c.K, c.Draws)
		}
		if math.Abs(cm-tab.Mean) > 1e-14*math.Abs(cm)+math.SmallestNonzeroFloat64 || math.Abs(cv-tab.Var) > 1e-14*math.Abs(cv)+math.SmallestNonzeroFloat64 {
			w.R.Inconclusive(fmt.Sprintf("C06 reference moments of %v: from the PMF %.17g, %.17g; closed form %.17g, %.17g", c, tab.Mean, tab.Var, cm, cv))
			return
		}
		tolM := c06MomentTol(c.Kind, tab.Mean, c.Draws)
		tolV := c06MomentTol(c.Kind, tab.Var, c.Draws)

		// ---- Bounds, Step
		var bl, bh, step float64
		w.Eval(op + "Bounds")
		if pn, v := mon.Call(func() { bl, bh = d.Bounds() }); pn {
			w.Violate("panic", fmt.Sprintf("%v.Bounds() panicked: %v", c, v), head())
		} else {
			ok := bl == float64(lo) && bh == float64(hi)
			if binom && c.N > 0 && (p == 0 || p == 1) {
				// the trials-based support 0..N and the one point carrying
				// all the mass are both "the support end points" here
				pt := 0.0
				if p == 1 {
					pt = float64(c.N)
				}
				ok = ok || (bl == pt && bh == pt)
			}
			if !ok {
				w.Violate("Bounds", fmt.Sprintf("%v.Bounds()=(%v,%v), support is %d..%d", c, bl, bh, lo, hi), head())
			}
		}
		w.Eval(op + "Step")
		if pn, v := mon.Call(func() { step = d.Step() }); pn {
			w.Violate("panic", fmt.Sprintf("%v.Step() panicked: %v", c, v), head())
		} else if step != 1 {
			w.Violate("Step", fmt.Sprintf("%v.Step()=%v, want 1", c, step), head())
		}

		// ---- moments
		w.Eval(op + "Mean")
		if pn, v := mon.Call(func() { mean = d.Mean() }); pn {
			w.Violate("panic", fmt.Sprintf("%v.Mean() panicked: %v", c, v), head())
		} else if !c06Within(w, c.Kind+"-mean", mean, tab.Mean, tolM) {
			w.Violate("Mean", fmt.Sprintf("%v.Mean()=%.17g, first moment of the exact PMF is %.17g", c, mean, tab.Mean), head())
		}
		w.Eval(op + "Variance")
		if pn, v := mon.Call(func() { vr = d.Variance() }); pn {
			w.Violate("panic", fmt.Sprintf("%v.Variance() panicked: %v", c, v), head())
		} else if !c06Within(w, c.Kind+"-variance", vr, tab.Var, tolV) {
			w.Violate("Variance", fmt.Sprintf("%v.Variance()=%.17g, central second moment of the exact PMF is %.17g", c, vr, tab.Var), head())
		}
		if binom {
			var na stats.NormalDist
			w.Eval("Binomial.NormalApprox")
			if pn, v := mon.Call(func() { na = bd.NormalApprox() }); pn {
				w.Violate("panic", fmt.Sprintf("%v.NormalApprox() panicked: %v", c, v), head())
			} else {
				sd := math.Sqrt(tab.Var)
				muOK := c06Within(w, "normalapprox-mu", na.Mu, tab.Mean, tolM)
				// sigma: the square root of a variance within the variance
				// tolerance (exactly 0 when the variance is 0)
				sgOK := c06SigmaOK(na.Sigma, tab.Var, tolV)
				if sd > 0 {
					w.Err("normalapprox-sigma", math.Abs(na.Sigma-sd), 1e-12*sd+math.Sqrt(tab.Var+tolV)-sd)
				}
				if !muOK || !sgOK {
					w.Violate("NormalApprox", fmt.Sprintf("%v.NormalApprox()={Mu:%.17g,Sigma:%.17g}, want N(mean=%.17g, sd=%.17g)", c, na.Mu, na.Sigma, tab.Mean, sd), head())
				}
			}
		}

	}

	// ---- PMF and CDF at every query point
	hs := mon.NewHasher().S(c.Kind).I(c.N).F(p).I(c.K).I(c.Draws).I(len(c.Ks))
	var smp map[string]any
	type first struct{ pm, cd float64 }
	var seen map[uint64]first
	if requeryFrom < len(c.Ks) {
		seen = make(map[uint64]first, len(c.Ks))
	}
	for idx, kf := range c.Ks {
		k := float64(kf)
		hs = hs.F(k)
		if idx == requeryFrom {
			// from here on: a distribution value constructed anew
			construct()
			hs = hs.I(-1)
			w.Hit("requery-on-new-equal-value")
		}
		fl := math.Floor(k)
		if math.IsNaN(fl) {
			continue // not a point of the monitored domain
		}
		j := c06Index(fl, lo, hi)
		w.HitIf(fl >= 0x1p63 || fl <= -0x1p63, "k-beyond-int64")
		below, above := j < lo, j > hi
		inside := !below && !above

		// classes of the point
		w.HitIf(k-fl == 0.5, "k-half-integer")
		w.HitIf(k != fl && k-fl != 0.5, "k-other-fraction")
		w.HitIf(k > -1 && k < 0, "k-in-(-1,0)")
		w.HitIf(k < -1 && k != fl, "k-negative-fraction")
		w.HitIf(k != fl && math.Nextafter(k, math.Inf(1)) == fl+1, "k-just-below-integer")
		w.HitIf(below, "k-below-support")
		w.HitIf(above, "k-above-support")
		w.HitIf(j == hi, "k-at-top")
		w.HitIf(j == lo, "k-at-bottom")
		w.HitIf(math.Abs(k) >= 1e6, "k-far-out")
		if binom {
			w.HitIf(j == c.N-1 && c.N >= 1, "binom-k=N-1")
			w.HitIf(inside && j < tab.Mode, "binom-k-below-mode")
			w.HitIf(inside && j > tab.Mode, "binom-k-above-mode")
		} else {
			w.HitIf(inside && j < tab.Mode, "hg-k-below-mode")
			w.HitIf(inside && j > tab.Mode && j < hi, "hg-k-above-mode")
			w.HitIf(inside && j == tab.Mode, "hg-k-at-mode")
		}

		rc := func() c06Case { return upTo(idx) }
		pm := c06JudgePMF(w, c.String(), c.Kind, d, tab, k, j, "", rc)
		cd := c06JudgeCDF(w, c.String(), c.Kind, d, tab, k, j, "", rc)
		if seen != nil {
			// the answer to a repeated query: judged above against the exact
			// law like any other (the statement's tolerance leaves the last
			// bits free); how far it is from the first answer is recorded
			kb := math.Float64bits(k)
			if f, ok := seen[kb]; ok {
				w.HitIf(inside, "requery-inside-support")
				w.Err("requery-drift-PMF", math.Abs(pm-f.pm), 2*c06Tol)
				w.Err("requery-drift-CDF", math.Abs(cd-f.cd), 2*c06Tol)
				if math.Float64bits(pm) != math.Float64bits(f.pm) || math.Float64bits(cd) != math.Float64bits(f.cd) {
					w.Note("observed-not-judged:repeated-query-not-bit-identical")
				}
			} else {
				seen[kb] = first{pm, cd}
			}
		}
		if smp == nil && inside && j == tab.Mode && k != fl {
			smp = map[string]any{"k": mon.F(k), "PMF": mon.F(pm), "PMF_ref": mon.F(tab.P(j)), "CDF": mon.F(cd), "CDF_ref": mon.F(tab.C(j))}
		}
	}
	w.Distinct(hs.Sum())
	if w.WantSample() && smp != nil && hi-lo >= 3 {
		smp["dist"], smp["support"], smp["points"] = c.String(), []int{lo, hi}, len(c.Ks)
		smp["mean"], smp["mean_ref"], smp["variance"], smp["variance_ref"] = mon.F(mean), mon.F(tab.Mean), mon.F(vr), mon.F(tab.Var)
		w.Sample(smp)
	}
}

// c06Index maps floor(k) (not NaN) to the index judged: any index more than 3
// beyond the support (also huge and infinite ones) behaves like lo-3 / hi+3.
func c06Index(fl float64, lo, hi int) int {
	switch {
	case fl > float64(hi)+3:
		return hi + 3
	case fl < float64(lo)-3:
		return lo - 3
	}
	return int(fl)
}

// c06JudgePMF performs d.PMF(k) and judges it against the exact law tab (j is
// c06Index(floor(k))). name is the distribution as printed, kind "binom" or
// "hyperg", ctx a suffix of the message (the call history of a mixed case),
// rc builds the replay case.
func c06JudgePMF(w *mon.W, name, kind string, d c06Dist, tab *ref.DiscTable, k float64, j int, ctx string, rc func() c06Case) float64 {
	op := "Hyperg."
	if kind == "binom" {
		op = "Binomial."
	}
	lo, hi := tab.Lo, tab.Hi
	var pm float64
	w.Eval(op + "PMF")
	if pn, v := mon.Call(func() { pm = d.PMF(k) }); pn {
		w.Violate("panic-PMF", fmt.Sprintf("%v.PMF(%v) panicked: %v%s", name, k, v, ctx), rc())
	} else if j < lo || j > hi {
		if pm != 0 {
			w.Violate("PMF-outside-support", fmt.Sprintf("%v.PMF(%v)=%v, floor(k)=%d is outside the support %d..%d: want exactly 0%s", name, k, pm, j, lo, hi, ctx), rc())
		}
	} else if want := tab.P(j); !w.Err(kind+"-PMF", math.Abs(pm-want), c06Tol) {
		w.Violate("PMF", fmt.Sprintf("%v.PMF(%v)=%.15g, exact probability of %d is %.15g (diff %.3g)%s", name, k, pm, j, want, pm-want, ctx), rc())
	}
	return pm
}

// c06JudgeCDF: the same for d.CDF(k).
func c06JudgeCDF(w *mon.W, name, kind string, d c06Dist, tab *ref.DiscTable, k float64, j int, ctx string, rc func() c06Case) float64 {
	op := "Hyperg."
	if kind == "binom" {
		op = "Binomial."
	}
	lo, hi := tab.Lo, tab.Hi
	var cd float64
	w.Eval(op + "CDF")
	if pn, v := mon.Call(func() { cd = d.CDF(k) }); pn {
		w.Violate("panic-CDF", fmt.Sprintf("%v.CDF(%v) panicked: %v%s", name, k, v, ctx), rc())
	} else if j < lo {
		if cd != 0 {
			w.Violate("CDF-below-support", fmt.Sprintf("%v.CDF(%v)=%v, floor(k)=%d is below the support %d..%d: want exactly 0%s", name, k, cd, j, lo, hi, ctx), rc())
		}
	} else if j >= hi {
		if cd != 1 {
			w.Violate("CDF-from-top", fmt.Sprintf("%v.CDF(%v)=%v, floor(k)=%d is at or above the top of the support %d..%d: want exactly 1%s", name, k, cd, j, lo, hi, ctx), rc())
		}
	} else if want := tab.C(j); !w.Err(kind+"-CDF", math.Abs(cd-want), c06Tol) {
		w.Violate("CDF", fmt.Sprintf("%v.CDF(%v)=%.15g, exact sum of the PMF over %d..%d is %.15g (diff %.3g)%s", name, k, cd, lo, j, want, cd-want, ctx), rc())
	}
	return cd
}

// c06Grid builds the query points for a support lo..hi: every integer and
// half-integer from lo-2 to hi+2, the points that separate floor from
// truncation (-0.5, -1e-300, -0, -1.5), neighbours of integers one ulp away,
// far-out points, and nfrac random fractions.
func c06Grid(lo, hi int, rng *mon.Rand, nfrac int) []mon.F {
	var ks []mon.F
	add := func(x float64) { ks = append(ks, mon.F(x)) }
	for x := float64(lo - 2); x <= float64(hi+2); x += 0.5 {
		add(x)
	}
	for _, x := range []float64{-0.5, -1e-300, math.Copysign(0, -1), -1, -1.5, -0.999999,
		float64(lo) - 1e6, float64(hi) + 1e6, float64(lo) - 1e6 - 0.5, float64(hi) + 1e6 + 0.5, 1 << 40, -(1 << 40),
		0x1p62, 0x1p63, -0x1p64, 1e300, -1e300, math.Inf(1), math.Inf(-1)} {
		add(x)
	}
	js := []int{lo, hi, hi + 1, lo + rng.Intn(hi-lo+1), lo + rng.Intn(hi-lo+1)}
	for _, j := range js {
		add(math.Nextafter(float64(j), math.Inf(-1)))
		add(math.Nextafter(float64(j), math.Inf(1)))
	}
	for i := 0; i < nfrac; i++ {
		j := lo - 1 + rng.Intn(hi-lo+3)
		add(float64(j) + rng.Float64())
	}
	return ks
}

// c06Sequence turns the points of a grid into the query sequence of a case:
// the order of evaluation (as generated = ascending sweep first; reversed;
// shuffled), followed by a few points asked again on a distribution value
// constructed anew. An implementation that keeps state between calls (a
// memo table, a cached row) sees call histories other than "ascending,
// every point once".
func c06Sequence(ks []mon.F, rng *mon.Rand) (seq []mon.F, order string, requery int) {
	switch rng.Intn(4) {
	case 0:
		order = "asc"
	case 1:
		order = "desc"
		for i, j := 0, len(ks)-1; i < j; i, j = i+1, j-1 {
			ks[i], ks[j] = ks[j], ks[i]
		}
	default:
		order = "random"
		for i := len(ks) - 1; i > 0; i-- {
			j := rng.Intn(i + 1)
			ks[i], ks[j] = ks[j], ks[i]
		}
	}
	n := len(ks)
	requery = 6
	for i := 0; i < requery; i++ {
		ks = append(ks, ks[rng.Intn(n)])
	}
	return ks, order, requery
}

// c06History: first a sparse subset of the grid in descending or random
// order on one distribution value, then the whole grid in ascending order on
// a value constructed anew (equal parameters).
func c06History(ks []mon.F, rng *mon.Rand) (seq []mon.F, order string, requery int) {
	var pre []mon.F
	stride := rng.Range(2, 5)
	for i := rng.Intn(stride); i < len(ks); i += stride {
		pre = append(pre, ks[i])
	}
	if rng.Bool() {
		for i, j := 0, len(pre)-1; i < j; i, j = i+1, j-1 {
			pre[i], pre[j] = pre[j], pre[i]
		}
	} else {
		for i := len(pre) - 1; i > 0; i-- {
			j := rng.Intn(i + 1)
			pre[i], pre[j] = pre[j], pre[i]
		}
	}
	return append(pre, ks...), "history", len(ks)
}

func c06HgBounds(n, k, draws int) (lo, hi int) {
	lo = draws + k - n
	if lo < 0 {
		lo = 0
	}
	hi = draws
	if k < hi {
		hi = k
	}
	return
}

func c06Binom(w *mon.W, n int, p float64, nfrac int) {
	ks, order, rq := c06Sequence(c06Grid(0, n, w.Rng, nfrac), w.Rng)
	c06Judge(w, c06Case{Kind: "binom", N: n, P: mon.F(p), Ks: ks, Order: order, Requery: rq})
}

func c06Hyperg(w *mon.W, n, k, draws, nfrac int) {
	lo, hi := c06HgBounds(n, k, draws)
	ks, order, rq := c06Sequence(c06Grid(lo, hi, w.Rng, nfrac), w.Rng)
	c06Judge(w, c06Case{Kind: "hyperg", N: n, K: k, Draws: draws, Ks: ks, Order: order, Requery: rq})
}

// c06GridPs: the 101 values j/100 and the hostile probabilities at and next
// to 0 and 1.
func c06GridPs() []float64 {
	var ps []float64
	for j := 0; j <= 100; j++ {
		ps = append(ps, float64(j)/100)
	}
	ps = append(ps, 1e-12, 1-1e-12, 1e-13, 1-1e-13, 3e-16, math.Nextafter(1, 0), 1-0x1p-52,
		math.SmallestNonzeroFloat64, 0x1p-1022, 1e-300, 1e-20)
	return ps
}

var c06SpecialPs = []float64{0, 1, 1e-12, 1 - 1e-12, math.SmallestNonzeroFloat64, 1 - 0x1p-53, 0x1p-1022, 0.5, 1e-5, 1 - 1e-5}

func c06Run(r *mon.Run) {
	r.Rule("exhaustive: every HypergeometicDist{N,K,Draws} with 2<=N<=40 (thorough 80), 0<=K,Draws<=N, and every BinomialDist with N<=60 and P in {j/100, 1e-12, 1-1e-12, 1e-13, 1-1e-13, 3e-16, nextafter(1,0), 1-2^-52, 5e-324, 2^-1022, 1e-300, 1e-20}; random: binomial N<=1000 (P uniform, log-uniform near 0 and near 1, j/N, special values) and hypergeometric N<=1000, plus populations of 1001..3000 (thorough 12000) at log-uniform, round and uniform sizes with central, off-centre, narrow and wide supports (uniform and extreme K/Draws shapes; K and Draws each within 6 of 0 or of N in all 196 combinations at N in {1000,999,600,101,100} and random N; K, Draws log-uniform from 0 or from N). Per distribution: Bounds, Step, Mean, Variance, NormalApprox and PMF+CDF at every integer and half-integer from 2 below to 2 above the support, at -0.5, -1e-300, -0, one ulp either side of integers, +-1e6 beyond, +-2^40, and random fractions. The points of a case are queried in ascending, descending or random order (chosen per case), then 6 of them again on a distribution value constructed anew; history cases query a sparse out-of-order subset first and then the whole grid in ascending order on a new equal value; every answer, repeated or not, is judged against the exact law. Mixed histories (one goroutine, nothing else running): a HypergeometicDist{N,K,Draws} and a BinomialDist whose N is one of N, K, N-K, Draws, N-Draws are called alternately (B,H,B / H,B,H / random rounds), the binomial at k where C(n,k) is a coefficient of the preceding hypergeometric call (k in {Draws, N-Draws, the hypergeometric k, K, ...}); families-overlap: binomial, hypergeometric and mixed cases of a common N side by side on the worker pool. A case (one distribution with its query sequence, or one mixed history) is non-trivial when it hits a class; distinct by hash of (kind, parameters, sequence).")
	r.Assume("reference: exact big.Int probabilities (all hypergeometric; binomial N<=60 with P the exact dyadic value of the float64), 384-bit big.Float for binomial N>60 (relative error < 2^-370); moments computed from the reference PMF; all cross-checked at start-up against subset/outcome enumeration, closed-form moments, gonum's incomplete beta and textbook constants",
		"tolerances: 1e-10 absolute for PMF and CDF inside the support (the statement's number), exact 0/1 outside; moments relative: 1e-12*|value| + 2 subnormal quanta (hypergeometric: + 8*2^-53*Draws for evaluations through K/N), exactly 0 when the moment is 0; NormalApprox.Sigma = sqrt of a variance within that tolerance, to 1e-12 relative; for P in {0,1} Bounds may be 0..N or the single mass point",
		"a repeated query need not be bit-identical to the first (the statement's 1e-10 leaves the last bits free): both are judged against the exact law; the drift and the number of non-identical repeats are recorded only",
		"the statement has no condition on the calls made earlier in the process: an answer of a mixed history (the other family called in between) is judged against the exact law with the same tolerances",
		"NaN k is not monitored; huge finite and infinite k are judged as points below/above the support")
	r.Gate("hg-k-below-mode", "hg-k-above-mode", "hg-k-at-mode", "hg-Draws<N/2", "hg-Draws>N/2", "hg-Draws=N/2", "hg-lower-bound>0",
		"hg-Draws=N", "hg-Draws=0", "hg-K-in-{0,N}", "hg-one-point-support", "hg-support>=3-points", "hg-N>80", "hg-N>1000", "hg-N>2000", "hg-N>1000-wide-support",
		"binom-k=N-1", "binom-P=0", "binom-P=1", "binom-P-within-1e-12-of-0", "binom-P-within-1e-12-of-1",
		"binom-threshold-size", "hyperg-threshold-size", "binom-N=0", "binom-N=1", "binom-N-21..60", "binom-N>60", "binom-N=1000", "binom-proper", "binom-k-below-mode", "binom-k-above-mode",
		"k-half-integer", "k-other-fraction", "k-in-(-1,0)", "k-negative-fraction", "k-just-below-integer",
		"k-below-support", "k-above-support", "k-at-top", "k-at-bottom", "k-far-out", "k-beyond-int64",
		"binom-variance=0", "binom-variance-in-(0,1e-10)", "binom-P-within-1e-9-of-1",
		"hg-bigN-corner-shape", "hg-bigN-loguniform-shape", "hg-bigN-small-Draws-K-near-N-lo>0", "hg-bigN-small-K-Draws-near-N-lo>0",
		"hg-bigN-K-and-Draws-small", "hg-bigN-K-and-Draws-near-N", "hg-bigN-Draws<=N/100", "hg-bigN-K<=N/100",
		"order-asc", "order-desc", "order-random", "order-history", "requery-on-new-equal-value", "requery-inside-support",
		"mixed-order-BHB", "mixed-order-HBH", "mixed-order-random", "mixed-binom-n=N", "mixed-binom-n-in-{K,N-K,Draws,N-Draws}",
		"mixed-binom-n>20", "mixed-binom-n>60", "mixed-k-fraction", "mixed-B-right-after-H", "mixed-H-right-after-B", "mixed-H.CDF-inside",
		"mixed-B.PMF-after-H-at-shared-coefficient", "mixed-shared-coefficient-n>20", "mixed-shared-coefficient-n>20-B-H-B",
		"overlap-binom-case", "overlap-hyperg-case", "overlap-mixed-case")
	if err := ref.C06SelfTest(); err != nil {
		r.Inconclusive("reference self-test failed: " + err.Error())
		return
	}

	c06ObserveHugeK(r)

	// ---- exhaustive hypergeometric
	maxN := r.Pick(40, 80)
	type trip struct{ n, k, d int }
	var hs []trip
	for n := 2; n <= maxN; n++ {
		for k := 0; k <= n; k++ {
			for d := 0; d <= n; d++ {
				hs = append(hs, trip{n, k, d})
			}
		}
	}
	r.Exhaustive(fmt.Sprintf("all %d HypergeometicDist{N,K,Draws} with 2<=N<=%d on the full half-integer grid around the support", len(hs), maxN))
	r.Parallel("hyperg-exhaustive", len(hs), func(w *mon.W, i int) {
		t := hs[i]
		c06Hyperg(w, t.n, t.k, t.d, 2)
	})

	// ---- binomial grid
	ps := c06GridPs()
	type bn struct {
		n int
		p float64
	}
	var bs []bn
	for n := 0; n <= c06ExactMax; n++ {
		for _, p := range ps {
			bs = append(bs, bn{n, p})
		}
	}
	r.Exhaustive(fmt.Sprintf("all %d BinomialDist with N<=%d and P in the %d-value grid, on the full half-integer grid around 0..N", len(bs), c06ExactMax, len(ps)))
	r.Parallel("binom-grid", len(bs), func(w *mon.W, i int) {
		c06Binom(w, bs[i].n, bs[i].p, 2)
	})

	// ---- sizes around the thresholds at which plausible implementations
	// switch algorithms or overflow (int64 products from n = 62, table sizes
	// 64/128/256/512, the float64 factorial limit 170): every such N, central P
	var thr []int
	for n := 61; n <= 130; n++ {
		thr = append(thr, n)
	}
	thr = append(thr, 169, 170, 171, 172, 255, 256, 257, 511, 512, 513)
	type tb struct {
		n int
		p float64
	}
	var tbs []tb
	for _, n := range thr {
		for _, p := range []float64{0.5, 0.25, 0.9, 1.0 / 3} {
			tbs = append(tbs, tb{n, p})
		}
	}
	r.Parallel("binom-threshold-sizes", len(tbs), func(w *mon.W, i int) {
		w.Hit("binom-threshold-size")
		c06Binom(w, tbs[i].n, tbs[i].p, 2)
	})
	type th struct{ n, k, d int }
	var ths []th
	for _, n := range thr {
		for _, k := range []int{n / 2, n/2 + 1, n / 3, 62, 64, 66} {
			for _, d := range []int{n / 2, n/2 - 1, (2 * n) / 3, 33} {
				if k <= n && d <= n && k >= 0 && d >= 0 {
					ths = append(ths, th{n, k, d})
				}
			}
		}
	}
	r.Parallel("hyperg-threshold-sizes", len(ths), func(w *mon.W, i int) {
		w.Hit("hyperg-threshold-size")
		c06Hyperg(w, ths[i].n, ths[i].k, ths[i].d, 2)
	})

	// ---- random binomial, N up to 1000
	nb := r.Pick(800, 8000)
	r.Parallel("binom-random", nb, func(w *mon.W, i int) {
		rng := w.Rng
		var n int
		switch i % 5 {
		case 0:
			n = 1000
		case 1:
			n = rng.Range(61, 1000)
		case 2:
			n = rng.Range(900, 1000)
		case 3:
			n = rng.Range(61, 200)
		default:
			n = rng.Range(0, 60)
		}
		var p float64
		switch (i / 5) % 8 {
		case 0, 7:
			p = rng.Float64()
		case 1:
			p = rng.LogUniform(1e-15, 1e-1)
		case 2:
			p = 1 - rng.LogUniform(1e-15, 1e-1)
		case 3:
			p = float64(rng.Range(0, n)) / math.Max(1, float64(n))
		case 4:
			p = c06SpecialPs[rng.Intn(len(c06SpecialPs))]
		case 5:
			p = rng.LogUniform(1e-300, 1e-15)
		default:
			// mean close to an end of the support
			p = rng.Uniform(0, 8) / math.Max(8, float64(n))
			if rng.Bool() {
				p = 1 - p
			}
		}
		c06Binom(w, n, p, 16)
	})

	// ---- random hypergeometric, N up to 1000
	nh := r.Pick(800, 8000)
	r.Parallel("hyperg-random", nh, func(w *mon.W, i int) {
		rng := w.Rng
		var n int
		switch i % 4 {
		case 0:
			n = 1000
		case 1:
			n = rng.Range(maxN+1, 1000)
		case 2:
			n = rng.Range(maxN+1, 2*maxN)
		default:
			n = rng.Range(500, 1000)
		}
		var k, d int
		switch (i / 4) % 10 {
		case 0, 9:
			k, d = rng.Range(0, n), rng.Range(0, n)
		case 1:
			k, d = rng.Range(0, 6), rng.Range(0, n)
		case 2:
			k, d = rng.Range(0, n), rng.Range(0, 6)
		case 3:
			k, d = rng.Range(0, n), n-rng.Range(0, 6)
		case 4:
			k, d = n-rng.Range(0, 6), rng.Range(0, n)
		case 5:
			k, d = n/2, n/2
		case 6:
			k, d = rng.Range(0, n), n
		case 7:
			k, d = n/2+rng.Range(-10, 10), n/2+rng.Range(-10, 10)
		default:
			// lower support bound > 0, narrow support
			k, d = n-rng.Range(0, 30), n-rng.Range(0, 30)
		}
		c06Hyperg(w, n, k, d, 16)
	})

	// ---- populations beyond 1000 (the statement puts no upper limit on a
	// hypergeometric N): the far tails of the PMF leave the float64 range
	// here, so anything formed as (tiny PMF) x (huge sum) shows (D23)
	bigMax := r.Pick(3000, 12000)
	r.Parallel("hyperg-large", r.Pick(64, 640), func(w *mon.W, i int) {
		rng := w.Rng
		var n int
		switch i % 4 {
		case 0:
			n = int(rng.LogUniform(1001, float64(bigMax)))
		case 1:
			n = []int{1024, 1100, 1200, 1500, 2000, 2048, 2500, 3000, 4096, 5000, 6000, 8192, 10000, 12000}[rng.Intn(14)]
			if n > bigMax {
				n = bigMax
			}
			n += rng.Range(0, 2)
		default:
			n = rng.Range(1001, bigMax)
		}
		var k, d int
		switch (i / 4) % 8 {
		case 0:
			k, d = n/2, n/2
		case 1:
			k, d = n/2+rng.Range(-10, 10), n/2+rng.Range(-10, 10)
		case 2:
			k, d = n/3+rng.Range(-5, 5), n/2+rng.Range(-5, 5)
		case 3:
			k, d = rng.Range(n/10, n/2), rng.Range(n/2, n-n/10)
		case 4:
			k, d = rng.Range(0, n), rng.Range(0, n)
		case 5:
			k, d = n-rng.Range(0, n/4), n-rng.Range(0, n/4)
		case 6:
			k, d = rng.Range(0, n/20), rng.Range(0, n)
		default:
			k, d = rng.Range(n/4, 3*n/4), rng.Range(n/4, 3*n/4)
		}
		w.Hit("hg-N>1000")
		w.HitIf(n > 2000, "hg-N>2000")
		w.HitIf(k > n/4 && k < 3*n/4 && d > n/4 && d < 3*n/4, "hg-N>1000-wide-support")
		c06Hyperg(w, n, k, d, 4)
	})

	// ---- hypergeometric corner shapes at large N: K and Draws each within 6
	// of 0 or of N (all 14x14 combinations), where the support is short, may
	// start above 0, and sample or marked set are a tiny or a huge fraction
	// of the population
	cornerNs := []int{1000, 999, 600, 101, 100}
	type cs struct{ n, a, b int }
	var corners []cs
	for _, n := range cornerNs {
		for a := 0; a < 14; a++ {
			for b := 0; b < 14; b++ {
				corners = append(corners, cs{n, a, b})
			}
		}
	}
	for i := 0; i < r.Pick(196, 1960); i++ {
		corners = append(corners, cs{-1, i / 14 % 14, i % 14}) // N random
	}
	r.Parallel("hyperg-corners", len(corners), func(w *mon.W, i int) {
		t := corners[i]
		n := t.n
		if n < 0 {
			n = w.Rng.Range(81, 1000)
		}
		end := func(a int) int {
			if a < 7 {
				return a
			}
			return n - (a - 7)
		}
		w.Hit("hg-bigN-corner-shape")
		c06Hyperg(w, n, end(t.a), end(t.b), 4)
	})
	// ... and K, Draws log-uniform from 0 or from N
	r.Parallel("hyperg-loguniform", r.Pick(240, 2400), func(w *mon.W, i int) {
		rng := w.Rng
		n := 1000
		if i%3 == 1 {
			n = rng.Range(200, 1000)
		}
		lg := func() int { return int(rng.LogUniform(1, float64(n)+1)) }
		k, d := lg(), lg()
		if i/3%2 == 1 {
			k = n - k
		}
		if i/6%2 == 1 {
			d = n - d
		}
		w.Hit("hg-bigN-loguniform-shape")
		c06Hyperg(w, n, k, d, 4)
	})

	// ---- call histories: a value-equal distribution queried before, sparsely
	// and out of order
	r.Parallel("hyperg-history", r.Pick(400, 4000), func(w *mon.W, i int) {
		rng := w.Rng
		n := rng.Range(4, 120)
		if i%4 == 0 {
			n = rng.Range(121, 1000)
		}
		k, d := rng.Range(0, n), rng.Range(0, n)
		if i%3 == 0 {
			k, d = n/2+rng.Range(-n/4, n/4), n/2+rng.Range(-n/4, n/4)
		}
		lo, hi := c06HgBounds(n, k, d)
		ks, order, rq := c06History(c06Grid(lo, hi, rng, 4), rng)
		c06Judge(w, c06Case{Kind: "hyperg", N: n, K: k, Draws: d, Ks: ks, Order: order, Requery: rq})
	})
	r.Parallel("binom-history", r.Pick(300, 3000), func(w *mon.W, i int) {
		rng := w.Rng
		n := rng.Range(1, 120)
		if i%4 == 0 {
			n = rng.Range(121, 1000)
		}
		p := rng.Float64()
		if i%5 == 0 {
			p = c06SpecialPs[rng.Intn(len(c06SpecialPs))]
		}
		ks, order, rq := c06History(c06Grid(0, n, rng, 4), rng)
		c06Judge(w, c06Case{Kind: "binom", N: n, P: mon.F(p), Ks: ks, Order: order, Requery: rq})
	})

	// ---- mixed histories: the two families alternate on one goroutine, with
	// coinciding arguments of the shared helpers. Serial: nothing else touches
	// the library while a history runs, so the history of a case is exactly
	// its steps preceded by the cases before it.
	var before *c06Case
	r.Serial("mixed-history", r.Pick(1500, 15000), func(w *mon.W, i int) {
		c := c06MixedCase(w.Rng, 2)
		c.Before = before
		c06Judge(w, c)
		c.Before = nil
		before = &c
	})

	// ---- the families overlapping in time: binomial, hypergeometric and mixed
	// cases side by side on the worker pool. Neighbouring indices (they run
	// on different workers at the same time) share the row: the binomial's N
	// is the hypergeometric's N.
	r.Parallel("families-overlap", r.Pick(900, 9000), func(w *mon.W, i int) {
		rng := w.Rng
		shared := mon.NewRand(r.Seed, mon.HashStr("C06-families-overlap"), uint64(i/3))
		n := shared.Range(21, 160)
		if shared.Intn(10) == 0 {
			n = shared.Range(161, 600)
		}
		switch i % 3 {
		case 0:
			w.Hit("overlap-binom-case")
			c06Binom(w, n, rng.Float64(), 2)
		case 1:
			w.Hit("overlap-hyperg-case")
			c06Hyperg(w, n, rng.Range(0, n), rng.Range(0, n), 2)
		default:
			w.Hit("overlap-mixed-case")
			c06Judge(w, c06MixedCase(rng, 2))
		}
	})
}

// c06ObserveHugeK records, without judging, what the library returns for k
// beyond the int64 range, +-Inf and NaN. The statement's quantifier runs
// "from below to above the support", and Go leaves the float-to-int
// conversion of such k implementation-defined, so these points are outside
// the monitored domain; the observation is kept in the evidence so that the
// behaviour is visible (on amd64 CDF(k) is 0, not 1, for k >= 2^63 and +Inf).
func c06ObserveHugeK(r *mon.Run) {
	obs := map[string]any{}
	r.Serial("observe-huge-k", 1, func(w *mon.W, _ int) {
		ds := map[string]c06Dist{
			"BinomialDist{N:10,P:0.3}":            stats.BinomialDist{N: 10, P: 0.3},
			"HypergeometicDist{N:20,K:7,Draws:9}": stats.HypergeometicDist{N: 20, K: 7, Draws: 9},
		}
		for name, d := range ds {
			for _, k := range []float64{0x1p62, 0x1p63, 1e300, math.Inf(1), math.Inf(-1), -0x1p64, math.NaN()} {
				var pm, cd float64
				pn, _ := mon.Call(func() { pm, cd = d.PMF(k), d.CDF(k) })
				w.Note("observed-not-judged:k-beyond-int64-or-non-finite")
				obs[fmt.Sprintf("%s k=%v", name, k)] = map[string]any{"PMF": mon.F(pm), "CDF": mon.F(cd), "panicked": pn}
			}
		}
	})
	r.Extra("observed_not_judged_huge_k", obs)
}

// ---- mixed histories: both families on one goroutine
//
// The two distributions are built on common helpers (binomial coefficients,
// log-gamma, the incomplete beta function). An implementation may keep state
// in them (a memo of the last coefficient, a cached table), and then what one
// family returns depends on what the other was asked before. The statement
// quantifies over every distribution and every k without a condition on the
// earlier calls of the process, so every answer of a mixed history is judged
// against the exact law like any other.

// c06HgCoefs: the (n,k) of the binomial coefficients in the two textbook forms
// of the hypergeometric probability of j, C(K,j)C(N-K,D-j)/C(N,D) and
// C(D,j)C(N-D,K-j)/C(N,K).
func c06HgCoefs(n, k, d, j int) [][2]int {
	return [][2]int{{n, d}, {k, j}, {n - k, d - j}, {n, k}, {d, j}, {n - d, k - j}}
}

// c06SharedCoef: C(bn,kb) is, up to the symmetry C(n,k)=C(n,n-k), one of the
// coefficients of the hypergeometric probability of j.
func c06SharedCoef(bn, kb, n, k, d, j int) bool {
	for _, a := range c06HgCoefs(n, k, d, j) {
		if a[0] == bn && (a[1] == kb || a[0]-a[1] == kb) {
			return true
		}
	}
	return false
}

func c06JudgeMixed(w *mon.W, c c06Case) {
	if c.ReplayBefore && c.Before != nil && c.Before.Kind == "mixed" && c.Before.inDomain() {
		b := *c.Before
		b.Before = nil
		c06JudgeMixed(w, b)
	}
	hc, bc := c.hypergPart(), c.binomPart()
	ht, err := c06Table(hc)
	if err != nil {
		w.R.Inconclusive("C06 reference failed on " + hc.String() + ": " + err.Error())
		return
	}
	bt, err := c06Table(bc)
	if err != nil {
		w.R.Inconclusive("C06 reference failed on " + bc.String() + ": " + err.Error())
		return
	}
	hd := stats.HypergeometicDist{N: c.N, K: c.K, Draws: c.Draws}
	bd := stats.BinomialDist{N: c.BN, P: float64(c.P)}
	hname, bname := hc.String(), bc.String()

	switch c.Order {
	case "BHB", "HBH", "random":
		w.HitIf(len(c.Steps) >= 3, "mixed-order-"+c.Order)
	}
	w.HitIf(c.BN == c.N, "mixed-binom-n=N")
	w.HitIf(c.BN != c.N && (c.BN == c.K || c.BN == c.N-c.K || c.BN == c.Draws || c.BN == c.N-c.Draws), "mixed-binom-n-in-{K,N-K,Draws,N-Draws}")
	w.HitIf(c.BN > 20, "mixed-binom-n>20")
	w.HitIf(c.BN > c06ExactMax, "mixed-binom-n>60")

	hs := mon.NewHasher().S(c.Kind).I(c.N).I(c.K).I(c.Draws).I(c.BN).F(float64(c.P)).I(len(c.Steps))
	prev := ""           // the previous call, as printed
	prevHJ := -1         // the previous call was on the hypergeometric, inside its support, at this index
	earlierBPMF := false // an earlier binomial PMF call at 0 < k < n (a coefficient that is not 1)
	for idx, s := range c.Steps {
		k := float64(s.K)
		hs = hs.S(s.Fam).S(s.Fn).F(k)
		fl := math.Floor(k)
		if math.IsNaN(fl) || (s.Fam != "B" && s.Fam != "H") || (s.Fn != "PMF" && s.Fn != "CDF") {
			continue
		}
		binom := s.Fam == "B"
		var d c06Dist = hd
		tab, name, kind := ht, hname, "hyperg"
		if binom {
			d, tab, name, kind = bd, bt, bname, "binom"
		}
		j := c06Index(fl, tab.Lo, tab.Hi)
		inside := j >= tab.Lo && j <= tab.Hi
		ctx := fmt.Sprintf(" [call %d of a history that alternates %v and %v on one goroutine", idx+1, bname, hname)
		if prev != "" {
			ctx += "; previous call " + prev
		}
		ctx += "]"
		rc := func() c06Case {
			h := c
			h.Steps = append([]c06Step(nil), c.Steps[:idx+1]...)
			h.ReplayBefore = h.Before != nil
			return h
		}

		// classes of the step: from the inputs only
		w.HitIf(k != fl, "mixed-k-fraction")
		if binom {
			w.HitIf(prevHJ >= 0, "mixed-B-right-after-H")
			if prevHJ >= 0 && inside && s.Fn == "PMF" && c06SharedCoef(c.BN, j, c.N, c.K, c.Draws, prevHJ) {
				w.Hit("mixed-B.PMF-after-H-at-shared-coefficient")
				w.HitIf(c.BN > 20 && j > 0 && j < c.BN, "mixed-shared-coefficient-n>20")
				w.HitIf(c.BN > 20 && j > 0 && j < c.BN && earlierBPMF, "mixed-shared-coefficient-n>20-B-H-B")
			}
		} else {
			w.HitIf(idx > 0 && prevHJ < 0 && inside, "mixed-H-right-after-B")
			w.HitIf(inside && s.Fn == "CDF" && j < tab.Hi, "mixed-H.CDF-inside")
		}

		if s.Fn == "PMF" {
			c06JudgePMF(w, name, kind, d, tab, k, j, ctx, rc)
		} else {
			c06JudgeCDF(w, name, kind, d, tab, k, j, ctx, rc)
		}

		prev = fmt.Sprintf("%v.%s(%v)", name, s.Fn, k)
		prevHJ = -1
		if !binom && inside {
			prevHJ = j
		}
		if binom && s.Fn == "PMF" && j > 0 && j < c.BN {
			earlierBPMF = true
		}
	}
	w.Distinct(hs.Sum())
}

// c06MixedCase builds a mixed history: a hypergeometric distribution, a
// binomial whose N is one of the hypergeometric's N, K, N-K, Draws, N-Draws
// (so that both ask the shared helpers for coefficients of the same row), and
// rounds of calls in the pattern B,H,B / H,B,H / random; the binomial is asked
// where its coefficient C(n,k) is one the preceding hypergeometric call needs.
func c06MixedCase(rng *mon.Rand, bigShare int) c06Case {
	var n int
	switch r := rng.Intn(100); {
	case r < bigShare:
		n = rng.Range(201, 1000)
	case r < bigShare+12:
		n = rng.Range(4, 24)
	case r < bigShare+50:
		n = rng.Range(21, 70)
	default:
		n = rng.Range(40, 200)
	}
	var k, d int
	switch rng.Intn(4) {
	case 0:
		k, d = rng.Range(1, n-1), rng.Range(1, n-1)
	case 1:
		k, d = n/2+rng.Range(-n/4, n/4), n/2+rng.Range(-n/4, n/4)
	case 2: // a small sample: the binomial limit of the hypergeometric
		k, d = rng.Range(1, n-1), rng.Range(1, 1+n/5)
	default:
		k, d = rng.Range(1, 1+n/4), rng.Range(1, n-1)
	}
	lo, hi := c06HgBounds(n, k, d)
	var bn int
	switch r := rng.Intn(10); {
	case r < 5:
		bn = n
	default:
		bn = []int{k, n - k, d, n - d}[rng.Intn(4)]
	}
	p := rng.Float64()
	switch rng.Intn(8) {
	case 0:
		p = float64(k) / float64(n) // the success fraction of the population
	case 1:
		p = c06SpecialPs[rng.Intn(len(c06SpecialPs))]
	}
	c := c06Case{Kind: "mixed", N: n, K: k, Draws: d, BN: bn, P: mon.F(p)}
	c.Order = []string{"BHB", "HBH", "random"}[rng.Intn(3)]

	frac := func(j int) mon.F { // j, now and then with a fraction: floor(k) is j
		if rng.Intn(5) == 0 {
			return mon.F(float64(j) + []float64{0.5, 0.25, 0.999}[rng.Intn(3)])
		}
		return mon.F(float64(j))
	}
	hfn := func() string {
		if rng.Intn(3) == 0 {
			return "CDF"
		}
		return "PMF"
	}
	hPoint := func() int { // mostly inside the support
		if rng.Intn(8) == 0 {
			return lo - 1 + rng.Intn(hi-lo+3)
		}
		return lo + rng.Intn(hi-lo+1)
	}
	// bPoint: a k at which C(bn,k) is a coefficient the hypergeometric call at
	// j needs (either textbook form, either tail)
	bPoint := func(j int) int {
		var cand []int
		for _, a := range c06HgCoefs(n, k, d, j) {
			if a[0] == bn && a[1] >= 0 && a[1] <= bn {
				cand = append(cand, a[1], bn-a[1])
			}
		}
		// the mirrored tail sum of the CDF: index K-j-1 of Draws' = N-Draws
		for _, a := range c06HgCoefs(n, k, n-d, k-j-1) {
			if a[0] == bn && a[1] >= 0 && a[1] <= bn {
				cand = append(cand, a[1])
			}
		}
		if len(cand) == 0 || rng.Intn(6) == 0 {
			for _, x := range []int{d, n - d, j, k} {
				if x >= 0 && x <= bn {
					cand = append(cand, x)
				}
			}
		}
		if len(cand) == 0 || rng.Intn(10) == 0 {
			return rng.Range(0, bn)
		}
		return cand[rng.Intn(len(cand))]
	}
	add := func(fam, fn string, j int) { c.Steps = append(c.Steps, c06Step{Fam: fam, Fn: fn, K: frac(j)}) }
	rounds := rng.Range(3, 7)
	for r := 0; r < rounds; r++ {
		j := hPoint()
		switch c.Order {
		case "BHB":
			add("B", "PMF", rng.Range(0, bn))
			add("H", hfn(), j)
			kb := bPoint(j)
			add("B", "PMF", kb)
			if rng.Intn(3) == 0 {
				add("B", "CDF", kb)
			}
		case "HBH":
			add("H", hfn(), j)
			add("B", "PMF", bPoint(j))
			add("H", hfn(), hPoint())
		default:
			for m := rng.Range(3, 6); m > 0; m-- {
				if rng.Bool() {
					j = hPoint()
					add("H", hfn(), j)
				} else if rng.Intn(4) == 0 {
					add("B", "CDF", bPoint(j))
				} else {
					add("B", "PMF", bPoint(j))
				}
			}
		}
	}
	return c
}
