package props

import (
	"encoding/json"
	"errors"
	"fmt"
	"math"
	"os"
	"sort"
	"strconv"
	"strings"
	"syscall"
	"unicode/utf8"

	"github.com/aclements/go-moremath/graph"
	"github.com/aclements/go-moremath/graph/graphalg"
	"github.com/aclements/go-moremath/graph/graphout"

	"verifmon/mon"
	"verifmon/ref"
)

// C18 — graph traversals, SCCs, subgraphs, mark sets and Dot output agree
// with their definitions on any graph.

// Parts of a graph case.
const (
	c18pOrders = 1 << iota
	c18pSCC
	c18pSimp
	c18pBi
	c18pEqual
	c18pSub
	c18pDot
	c18pEulerNil
	c18pAll = c18pOrders | c18pSCC | c18pSimp | c18pBi | c18pEqual | c18pSub | c18pDot | c18pEulerNil
)

type c18Attr struct {
	Name string `json:"n"`
	K    string `json:"k"` // s string, i int, u uint, f float64, l DotLiteral
	S    []byte `json:"s,omitempty"`
	I    int64  `json:"i,omitempty"`
	U    uint64 `json:"u,omitempty"`
	F    mon.F  `json:"f,omitempty"`
}

type c18Dot struct {
	Name      []byte        `json:"name"`
	Labels    [][]byte      `json:"labels"`     // nil: Dot.Label is nil
	NodeAttrs [][]c18Attr   `json:"node_attrs"` // nil: Dot.NodeAttrs is nil
	EdgeAttrs [][][]c18Attr `json:"edge_attrs"` // nil: Dot.EdgeAttrs is nil
	// Shared != 0: the callbacks hand out sub-slices (with spare capacity) of
	// one backing array holding all attribute lists back to back; 1 = in node
	// order, 2 = in reverse node order.
	Shared int `json:"shared,omitempty"`
	// Fail != 0: Fprint is also run on a writer that accepts
	// (Fail-1) mod (len(text)+1) bytes and then returns an error.
	Fail int `json:"fail,omitempty"`
}

type c18Sub struct {
	KeepNodes []int    `json:"keep_nodes"`
	KeepEdges [][2]int `json:"keep_edges"`
	RmNodes   []int    `json:"rm_nodes"`
	RmEdges   [][2]int `json:"rm_edges"`
	Nest      *c18Nest `json:"nest,omitempty"`
}

// c18Nest: a second subgraph step applied to the Subgraph returned by the
// first one (a library result handed back as input graph). Nodes and edges
// are named by their identifiers in the case's graph and are translated into
// the first subgraph's numbering through its (verified) NodeMap/EdgeMap.
type c18Nest struct {
	First int      `json:"first"` // 0: on the SubgraphKeep result, 1: on the SubgraphRemove result
	Op    int      `json:"op"`    // 0 SubgraphKeep, 1 SubgraphRemove
	Nodes []int    `json:"nodes"`
	Edges [][2]int `json:"edges"`
	Nil   bool     `json:"nil,omitempty"` // empty lists are passed as nil slices
}

// c18EqDelta describes a partner for Equal as a change of the case's graph:
// entries {node, index, new target} are set, then (Shuf != 0) every list is
// shuffled with that seed.
type c18EqDelta struct {
	Set  [][3]int `json:"set"`
	Shuf uint64   `json:"shuf,omitempty"`
}

type c18Case struct {
	Kind  string    `json:"kind"` // g (explicit graph), large (generated), marks, dotstr, print (Dot.Print to a redirected stdout)
	Adj   [][]int   `json:"adj,omitempty"`
	Shape string    `json:"shape,omitempty"`
	N     int       `json:"n,omitempty"`
	Param uint64    `json:"param,omitempty"`
	Roots []int     `json:"roots,omitempty"`
	Parts int       `json:"parts,omitempty"`
	Wt    [][]mon.F `json:"wt,omitempty"` // edge weights (may be infinite), nil = unweighted
	// WtSeed != 0 (generated graphs): edge weights are drawn from this seed by
	// c18SeedWeights instead of being listed in Wt.
	WtSeed uint64 `json:"wt_seed,omitempty"`
	// Rep: the Go type through which the library sees the graph: 0 a pointer
	// (*c18G), 1 the library's own slice type graph.IntGraph, 2 a struct held
	// by value (c18VG; contains a slice, so it is not comparable).
	Rep int `json:"rep,omitempty"`
	// Lay: storage of the adjacency lists (small graphs): 0 one array per list
	// with cap == len; 1 all lists back to back in one array, Out(i) is a
	// sub-slice whose capacity runs over the following lists; 2 the same with
	// a spare tail of canaries; 3 as 2 but laid out in reverse node order.
	Lay int          `json:"lay,omitempty"`
	Eq  [][][]int    `json:"eq,omitempty"`  // partners for Equal
	EqD []c18EqDelta `json:"eqd,omitempty"` // partners for Equal given as changes of the graph
	// Feed != 0: results of the library (simplified graph, SCC graph, BiGraph,
	// Subgraph) are handed back to it as input graphs; the seed picks which.
	Feed uint64   `json:"feed,omitempty"`
	Sub  *c18Sub  `json:"sub,omitempty"`
	Dot  *c18Dot  `json:"dot,omitempty"`
	Ops  [][2]int `json:"ops,omitempty"`  // marks history: {op, id}
	Zero bool     `json:"zero,omitempty"` // marks history starts from the zero value, not NewNodeMarks()
	S    []byte   `json:"s,omitempty"`    // DotString argument

	noDistinct bool // bulk enumeration: do not store a hash per case
}

func init() {
	mon.Register(&mon.Prop{ID: "C18", Run: c18Run, Replay: func(w *mon.W, v *mon.ViolationRec) {
		var c c18Case
		if json.Unmarshal(v.Case, &c) == nil {
			c18Judge(w, &c)
		}
	}})
}

func c18Judge(w *mon.W, c *c18Case) {
	switch c.Kind {
	case "g":
		j := c18NewJ(w, c, c.Adj, true)
		j.run()
	case "large":
		adj, _ := c18Shape(c.Shape, c.N, c.Param)
		j := c18NewJ(w, c, adj, false)
		j.run()
	case "print":
		c18JudgePrint(w, c)
	case "marks":
		c18JudgeMarks(w, c)
	case "dotstr":
		c18JudgeDotString(w, c)
	}
}

// M-step: the graph handed to the library counts the calls made into it and
// panics with a sentinel when a budget far above any linear algorithm's need
// is exceeded.
type c18Budget struct{ calls, limit int64 }

type c18G struct {
	adj    [][]int
	calls  int64
	budget int64
}

func (g *c18G) tick() {
	g.calls++
	if g.calls > g.budget {
		panic(c18Budget{g.calls, g.budget})
	}
}
func (g *c18G) NumNodes() int   { g.tick(); return len(g.adj) }
func (g *c18G) Out(i int) []int { g.tick(); return g.adj[i] }

type c18WG struct {
	*c18G
	wt [][]float64
}

func (g *c18WG) OutWeight(i, e int) float64 { g.tick(); return g.wt[i][e] }

// c18VG is a graph held by value. It contains a slice, so two interface
// values holding a c18VG cannot be compared with ==. Calls are counted in c.
type c18VG struct {
	adj [][]int
	c   *c18G
}

func (g c18VG) NumNodes() int   { g.c.tick(); return len(g.adj) }
func (g c18VG) Out(i int) []int { g.c.tick(); return g.adj[i] }

type c18VWG struct {
	c18VG
	wt [][]float64
}

func (g c18VWG) OutWeight(i, e int) float64 { g.c.tick(); return g.wt[i][e] }

// c18Wrap presents lists to the library through representation rep; ctr
// counts the calls (graph.IntGraph cannot count: no step budget there).
func c18Wrap(rep int, lists [][]int, ctr *c18G) graph.Graph {
	ctr.adj = lists
	switch rep {
	case 1:
		return graph.IntGraph(lists)
	case 2:
		return c18VG{adj: lists, c: ctr}
	}
	return ctr
}

func c18WrapW(rep int, lists [][]int, wt [][]float64, ctr *c18G) graph.Graph {
	ctr.adj = lists
	if rep == 0 {
		return &c18WG{c18G: ctr, wt: wt}
	}
	return c18VWG{c18VG: c18VG{adj: lists, c: ctr}, wt: wt}
}

// c18Store holds the adjacency lists the library sees. With lay != 0 all
// lists are sub-slices of one array (as in a compressed-row graph, e.g. the
// library's own SimplifyMulti result): the capacity of Out(i) runs on over the
// lists laid out behind it and, for lay >= 2, over a spare tail of canaries.
type c18Store struct {
	lay      int
	lists    [][]int
	all      []int
	pristine []int
	reg      [][2]int // region of node u in all
	used     int      // all[used:] is the spare tail
}

func c18NewStore(adj [][]int, lay int) *c18Store {
	st := &c18Store{lay: lay}
	if lay == 0 {
		st.lists = c18CloneAdj(adj)
		return st
	}
	n, m, maxl := len(adj), 0, 0
	for _, l := range adj {
		m += len(l)
		if len(l) > maxl {
			maxl = len(l)
		}
	}
	tail := 0
	if lay >= 2 {
		tail = maxl + 3
	}
	st.all = make([]int, 0, m+tail)
	st.reg = make([][2]int, n)
	st.lists = make([][]int, n)
	for k := 0; k < n; k++ {
		u := k
		if lay == 3 {
			u = n - 1 - k
		}
		lo := len(st.all)
		st.all = append(st.all, adj[u]...)
		st.reg[u] = [2]int{lo, len(st.all)}
	}
	st.used = len(st.all)
	for k := 0; k < tail; k++ {
		st.all = append(st.all, -1000-k)
	}
	for u, r := range st.reg {
		st.lists[u] = st.all[r[0]:r[1]]
	}
	st.pristine = append([]int(nil), st.all...)
	return st
}

// spareOver reports whether the capacity behind node u's list holds at least
// need elements, the first of which belongs to another node's list.
func (st *c18Store) spareOver(u, need int) bool {
	if st.lay == 0 {
		return false
	}
	hi := st.reg[u][1]
	return hi < st.used && len(st.all)-hi >= need
}

// verify compares what the library sees with adj (the pristine lists) and
// restores it. kind: "" untouched; "mutated" (separate lists changed; not
// judged here); "reordered" (lists permuted in place; not judged);
// "spare-written" (only the canary tail changed; not judged); "violation":
// with all lists in one array, the multiset of some node's list has changed:
// the caller's graph was overwritten.
func (st *c18Store) verify(adj [][]int) (kind, msg string) {
	if st.lay == 0 {
		for i, l := range adj {
			if !c18EqInts(st.lists[i], l) {
				kind = "mutated"
				st.lists[i] = append(make([]int, 0, len(l)), l...)
			}
		}
		return kind, ""
	}
	if c18EqInts(st.all, st.pristine) {
		return "", ""
	}
	for u, r := range st.reg {
		cur := st.all[r[0]:r[1]]
		if c18EqInts(cur, adj[u]) {
			continue
		}
		if ref.GSameMultiset(cur, adj[u]) {
			if kind == "" {
				kind = "reordered"
			}
			continue
		}
		if kind != "violation" {
			kind = "violation"
			msg = fmt.Sprintf("the lists returned by Out are sub-slices of one array (node %d at [%d:%d] of %d elements); afterwards the list of node %d reads %s, it was %s: the caller's graph was overwritten", u, r[0], r[1], len(st.all), u, c18Short(append([]int(nil), cur...), adj[u]), c18Short(adj[u], cur))
		}
	}
	if kind == "" {
		kind = "spare-written"
	}
	copy(st.all, st.pristine)
	return kind, msg
}

// c18J judges one graph case.
type c18J struct {
	noteOnly string // non-empty: findings are notes under this name, not violations
	w      *mon.W
	c      *c18Case
	adj    [][]int // pristine; every reference is computed from it
	work   [][]int // what the library sees
	st     *c18Store
	st2    *c18Store // the partner graph of the Equal call in flight
	adj2   [][]int
	small  bool
	n, m   int
	budget int64
	g      c18G
	labels []int // reference SCC labels (lazy)
	nbad   int
	probe  bool // see call
}

func c18CloneAdj(a [][]int) [][]int {
	out := make([][]int, len(a))
	for i, l := range a {
		out[i] = append(make([]int, 0, len(l)), l...)
	}
	return out
}

func c18NewJ(w *mon.W, c *c18Case, adj [][]int, small bool) *c18J {
	j := &c18J{w: w, c: c, adj: adj, small: small, n: len(adj)}
	for _, l := range adj {
		j.m += len(l)
	}
	if small {
		lay := c.Lay
		if lay < 0 || lay > 3 {
			lay = 0
		}
		j.st = c18NewStore(adj, lay)
		j.work = j.st.lists
	} else {
		j.work = adj
	}
	// Any traversal needs O(n+m) calls into the graph; 16x that plus slack
	// lets a much slower correct rewrite pass, a non-terminating loop not.
	j.budget = 16*int64(j.n+j.m+4) + 64
	return j
}

// G returns the graph, in the case's representation, with a fresh budget.
func (j *c18J) G() graph.Graph {
	j.g = c18G{budget: j.budget}
	return c18Wrap(j.rep(), j.work, &j.g)
}

func (j *c18J) WG(wt [][]float64) graph.Graph {
	j.g = c18G{budget: j.budget}
	return c18WrapW(j.rep(), j.work, wt, &j.g)
}

// checkStores runs after every call into the library. A change of the
// caller's separate adjacency lists, or a reordering in place, is noted (it
// is not part of this property) and undone so that later oracles stay valid;
// with all lists in one array a list whose content has changed is a
// violation: the answers of this and of every later call are about another
// graph.
func (j *c18J) checkStores(op string) {
	for k, st := range [2]*c18Store{j.st, j.st2} {
		if st == nil {
			continue
		}
		adj, which := j.adj, "g"
		if k == 1 {
			adj, which = j.adj2, fmt.Sprintf("the other graph %v", j.adj2)
		}
		switch kind, msg := st.verify(adj); kind {
		case "":
		case "violation":
			j.bad("adjacency-alias", fmt.Sprintf("%s on %s: %s", op, which, msg))
		case "mutated":
			j.w.Note("input-adjacency-mutated-by-library")
		default:
			j.w.Note("packed-adjacency-" + kind)
		}
	}
}

func (j *c18J) desc() string {
	if j.c.Kind == "large" {
		return fmt.Sprintf("graph %s(n=%d,param=%d)", j.c.Shape, j.c.N, j.c.Param)
	}
	if j.n+j.m > 400 {
		k := 0
		for tot := 0; k < j.n && tot < 200; k++ {
			tot += 1 + len(j.adj[k])
		}
		return fmt.Sprintf("graph of %d nodes, %d edges (complete in the case record), adj[:%d]=%v", j.n, j.m, k, j.adj[:k])
	}
	return fmt.Sprintf("adj=%v", j.adj)
}

func (j *c18J) bad(kind, msg string) {
	if j.noteOnly != "" {
		// a second look at a result after the caller has overwritten the
		// slices it had passed: the statement does not say whether a
		// Subgraph may keep referring to them, so this is recorded only
		j.w.Note(j.noteOnly)
		return
	}
	j.nbad++
	j.w.Violate(kind, c18Printable(msg)+"; "+j.desc(), j.c)
}

// c18Printable keeps a report readable as text: control bytes and invalid
// UTF-8 taken over from hostile strings are written as \xNN.
func c18Printable(s string) string {
	clean := true
	for _, r := range s {
		if r < 0x20 || r == 0x7f || r == utf8.RuneError {
			clean = false
			break
		}
	}
	if clean {
		return s
	}
	var b strings.Builder
	for i := 0; i < len(s); {
		r, sz := utf8.DecodeRuneInString(s[i:])
		if r < 0x20 || r == 0x7f || (r == utf8.RuneError && sz <= 1) {
			fmt.Fprintf(&b, "\\x%02x", s[i])
			sz = 1
		} else {
			b.WriteString(s[i : i+sz])
		}
		i += sz
	}
	return b.String()
}

// call runs one library call under panic capture.
func (j *c18J) call(op string, fn func()) bool {
	j.w.Eval(op)
	if j.c.Rep == 1 {
		// graph.IntGraph cannot count the calls made into it. The same call
		// is first made on the counting pointer representation (not judged
		// otherwise); only a call that stays within its step budget there is
		// made on the IntGraph, so that a call that never returns is a
		// violation here and not a hang of the monitor. fn must be repeatable.
		j.probe = true
		p, v := mon.Call(fn)
		j.probe = false
		if b, ok := v.(c18Budget); p && ok {
			j.checkStores(op)
			j.bad("step-budget", fmt.Sprintf("%s made %d calls into the graph or the callbacks (budget %d for n=%d, m=%d): no bounded progress", op, b.calls, b.limit, j.n, j.m))
			return false
		}
		if j.st != nil {
			j.st.verify(j.adj) // undo whatever the probe did; the real call is judged
		}
		if j.st2 != nil {
			j.st2.verify(j.adj2)
		}
	}
	return j.guard(op, fn)
}

// rep is the representation for the call being made.
func (j *c18J) rep() int {
	if j.probe {
		return 0
	}
	return j.c.Rep
}

func (j *c18J) guard(op string, fn func()) bool {
	p, v := mon.Call(fn)
	j.checkStores(op)
	if p {
		if b, ok := v.(c18Budget); ok {
			j.bad("step-budget", fmt.Sprintf("%s made %d calls into the graph or the callbacks (budget %d for n=%d, m=%d): no bounded progress", op, b.calls, b.limit, j.n, j.m))
		} else {
			j.bad("panic-"+strings.SplitN(op, "(", 2)[0], fmt.Sprintf("%s panicked: %v", op, v))
		}
		return false
	}
	return true
}

func c18EqInts(a, b []int) bool {
	if len(a) != len(b) {
		return false
	}
	for i := range a {
		if a[i] != b[i] {
			return false
		}
	}
	return true
}

// c18Short prints a list, abbreviated around the first difference from want.
func c18Short(got, want []int) string {
	if len(got) <= 24 {
		return fmt.Sprint(got)
	}
	d := 0
	for d < len(got) && d < len(want) && got[d] == want[d] {
		d++
	}
	lo, hi := d-3, d+6
	if lo < 0 {
		lo = 0
	}
	if hi > len(got) {
		hi = len(got)
	}
	return fmt.Sprintf("(len %d, first difference at index %d) ...%v...", len(got), d, got[lo:hi])
}

func (j *c18J) run() {
	w, c := j.w, j.c
	adj := j.adj
	// classes (inputs and reference-side quantities only)
	par, loops := false, false
	for u, l := range adj {
		for k, v := range l {
			if v == u {
				loops = true
			}
			if !par {
				for _, x := range l[:k] {
					if x == v {
						par = true
						break
					}
				}
			}
		}
		if par && loops && j.n > 64 {
			break
		}
	}
	w.HitIf(par, "parallel-edges")
	w.HitIf(loops, "self-loops")
	w.HitIf(c.Rep == 1, "graph-rep-intgraph")
	w.HitIf(c.Rep == 2, "graph-rep-by-value-struct")
	if j.st != nil && j.st.lay != 0 && j.m > 0 {
		w.Hit("graph-layout-packed")
		w.HitIf(j.st.lay >= 2, "graph-layout-packed-spare-tail")
	}
	if c.Parts&c18pOrders != 0 {
		for _, root := range c.Roots {
			j.orders(root)
		}
	}
	if c.Parts&c18pSCC != 0 {
		j.scc(graphalg.SCCEdges)
		j.scc(graphalg.SCCSubnodeComponent)
		j.scc(0)
		if !j.small {
			j.scc(graphalg.SCCEdges | graphalg.SCCSubnodeComponent)
		}
	}
	if c.Parts&c18pSimp != 0 {
		j.simplify(nil)
		if c.Wt != nil {
			wt := make([][]float64, len(c.Wt))
			for u := range wt {
				wt[u] = mon.Un(c.Wt[u])
			}
			j.simplify(wt)
		} else if c.WtSeed != 0 {
			j.simplify(c18SeedWeights(adj, c.WtSeed))
		}
	}
	if c.Parts&c18pBi != 0 {
		j.bi()
	}
	if c.Parts&c18pEqual != 0 {
		j.equal()
	}
	if c.Parts&c18pSub != 0 && c.Sub != nil {
		j.sub()
	}
	if c.Parts&c18pDot != 0 && c.Dot != nil {
		j.dot()
	}
	if c.Feed != 0 && j.small {
		j.feed()
	}
	if c.noDistinct {
	} else if j.small {
		h := mon.NewHasher().I(j.n).I(c.Parts).I(c.Rep).I(c.Lay)
		for _, l := range adj {
			h = h.Is(l)
		}
		h = h.Is(c.Roots)
		if c.Dot != nil {
			h = h.S(string(c.Dot.Name)).I(len(c.Dot.Labels))
		}
		if c.Sub != nil {
			h = h.Is(c.Sub.KeepNodes).Is(c.Sub.RmNodes).I(len(c.Sub.KeepEdges)).I(len(c.Sub.RmEdges))
		}
		w.Distinct(h.Sum())
	} else {
		w.Distinct(mon.NewHasher().S(c.Shape).I(c.N).U(c.Param).Is(c.Roots).I(c.Rep).Sum())
	}
	if w.WantSample() && j.n >= 3 {
		s := map[string]any{"kind": c.Kind, "n": j.n, "edges": j.m, "roots": c.Roots, "parts": c.Parts, "rep": c.Rep, "lay": c.Lay}
		if j.small && j.n <= 8 {
			s["adj"] = adj
		} else if !j.small {
			s["shape"] = c.Shape
		}
		w.Sample(s)
	}
}

// orders: PreOrder, PostOrder, Reverse, Euler from one root.
func (j *c18J) orders(root int) {
	w := j.w
	pre, post, ev := ref.GDFS(j.adj, root)
	for _, v := range j.adj[root] {
		if v == root {
			w.Hit("self-loop-on-root")
			break
		}
	}
	w.HitIf(len(pre) < j.n, "unreachable-nodes")
	if j.n > 1024 {
		for _, v := range pre {
			if v >= 1024 {
				w.Hit("node-id>=1024-visited")
				break
			}
		}
		w.HitIf(pre[0] >= 1024, "first-visited-id>=1024")
	}
	var got []int
	if j.call("PreOrder", func() { got = graphalg.PreOrder(j.G(), root) }) && !c18EqInts(got, pre) {
		j.bad("preorder", fmt.Sprintf("PreOrder(root=%d)=%s, the depth-first pre-order is %s", root, c18Short(got, pre), c18Short(pre, got)))
	}
	var gotPost []int
	okPost := j.call("PostOrder", func() { gotPost = graphalg.PostOrder(j.G(), root) })
	if okPost && !c18EqInts(gotPost, post) {
		j.bad("postorder", fmt.Sprintf("PostOrder(root=%d)=%s, the depth-first post-order is %s", root, c18Short(gotPost, post), c18Short(post, gotPost)))
	}
	if okPost {
		in := append([]int(nil), gotPost...)
		var rev []int
		j.w.Eval("Reverse")
		if j.guard("Reverse", func() { rev = graphalg.Reverse(in) }) {
			ok := len(rev) == len(gotPost)
			for i := 0; ok && i < len(rev); i++ {
				ok = rev[i] == gotPost[len(gotPost)-1-i]
			}
			if !ok {
				j.bad("reverse", fmt.Sprintf("Reverse(%s)=%s", c18Short(gotPost, nil), c18Short(rev, nil)))
			}
		}
	}
	// Euler tour
	lim := 4*j.n + 64
	var gotEv []int
	rec := func(bit int) func(int) {
		return func(n int) {
			if len(gotEv) > lim {
				panic(c18Budget{int64(len(gotEv)) + 1, int64(lim)})
			}
			gotEv = append(gotEv, n<<1|bit)
		}
	}
	e := graphalg.Euler{Enter: rec(0), Exit: rec(1)}
	if j.call("Euler.Visit", func() { gotEv = gotEv[:0]; e.Visit(j.G(), root) }) && !c18EqInts(gotEv, ev) {
		j.bad("euler", fmt.Sprintf("Euler.Visit(root=%d) events (node<<1|exit)=%s, the tour of the pre-order tree is %s", root, c18Short(gotEv, ev), c18Short(ev, gotEv)))
	}
	if j.c.Parts&c18pEulerNil != 0 {
		gotEv = gotEv[:0]
		e = graphalg.Euler{Enter: rec(0)}
		if j.call("Euler.Visit(Exit=nil)", func() { gotEv = gotEv[:0]; e.Visit(j.G(), root) }) {
			ok := len(gotEv) == len(pre)
			for i := 0; ok && i < len(pre); i++ {
				ok = gotEv[i] == pre[i]<<1
			}
			if !ok {
				j.bad("euler", fmt.Sprintf("Euler{Enter only}.Visit(root=%d) entered %s, pre-order is %s", root, c18Short(gotEv, nil), c18Short(pre, nil)))
			}
		}
		gotEv = gotEv[:0]
		e = graphalg.Euler{Exit: rec(1)}
		if j.call("Euler.Visit(Enter=nil)", func() { gotEv = gotEv[:0]; e.Visit(j.G(), root) }) {
			ok := len(gotEv) == len(post)
			for i := 0; ok && i < len(post); i++ {
				ok = gotEv[i] == post[i]<<1|1
			}
			if !ok {
				j.bad("euler", fmt.Sprintf("Euler{Exit only}.Visit(root=%d) exited %s, post-order is %s", root, c18Short(gotEv, nil), c18Short(post, nil)))
			}
		}
		e = graphalg.Euler{}
		j.call("Euler.Visit(nil,nil)", func() { e.Visit(j.G(), root) })
	}
}

func (j *c18J) refLabels() []int {
	if j.labels == nil {
		if j.n <= 64 {
			j.labels = ref.GSCCMutual(ref.GClosure(j.adj))
		} else {
			j.labels, _ = ref.GKosaraju(j.adj)
		}
	}
	return j.labels
}

func (j *c18J) scc(flags graphalg.SCCFlags) {
	w := j.w
	n := j.n
	op := fmt.Sprintf("SCC(flags=%d)", int(flags))
	var s *graphalg.SCCGraph
	if !j.call(op, func() { s = graphalg.SCC(j.G(), flags) }) {
		return
	}
	if s == nil {
		j.bad("scc-nil", op+" returned nil")
		return
	}
	labels := j.refLabels()
	// reference-side class: two or more edges between the same two components
	if flags == graphalg.SCCEdges {
		seen := map[[2]int]bool{}
		multi := false
		for u, l := range j.adj {
			for _, v := range l {
				if labels[u] != labels[v] {
					k := [2]int{labels[u], labels[v]}
					if seen[k] {
						multi = true
					}
					seen[k] = true
				}
			}
			if multi && n > 64 {
				break
			}
		}
		w.HitIf(multi, "scc-multi-edge-between-components")
		w.HitIf(len(seen) > 0, "scc-has-component-edges")
	}
	comp := make([]int, n)
	for i := range comp {
		comp[i] = -1
	}
	nc := -1
	okAll := true
	var problem string
	if !j.guard("SCCGraph.NumNodes/Subnodes", func() {
		nc = s.NumNodes()
		w.Eval("SCCGraph.NumNodes")
		if nc < 0 || nc > n {
			problem = fmt.Sprintf("NumNodes()=%d for a graph of %d nodes", nc, n)
			return
		}
		for cid := 0; cid < nc; cid++ {
			sub := s.Subnodes(cid)
			w.Eval("SCCGraph.Subnodes")
			if len(sub) == 0 {
				problem = fmt.Sprintf("component %d is empty", cid)
				return
			}
			for _, u := range sub {
				if u < 0 || u >= n {
					problem = fmt.Sprintf("component %d lists node %d, not a node", cid, u)
					return
				}
				if comp[u] != -1 {
					problem = fmt.Sprintf("node %d is listed in components %d and %d (or twice)", u, comp[u], cid)
					return
				}
				comp[u] = cid
			}
		}
		for u, c := range comp {
			if c == -1 {
				problem = fmt.Sprintf("node %d is in no component", u)
				return
			}
		}
	}) {
		return
	}
	if problem != "" {
		j.bad("scc-partition", op+": "+problem)
		return
	}
	if !ref.GSamePartition(comp, labels) {
		// find a witness pair
		wit := ""
		byComp := map[int]int{}
		byLab := map[int]int{}
		for u := 0; u < n && wit == ""; u++ {
			if v, ok := byComp[comp[u]]; ok && labels[v] != labels[u] {
				wit = fmt.Sprintf("nodes %d and %d share component %d but do not reach each other", v, u, comp[u])
			}
			if v, ok := byLab[labels[u]]; ok && comp[v] != comp[u] {
				wit = fmt.Sprintf("nodes %d and %d reach each other but are in components %d and %d", v, u, comp[v], comp[u])
			}
			if _, ok := byComp[comp[u]]; !ok {
				byComp[comp[u]] = u
			}
			if _, ok := byLab[labels[u]]; !ok {
				byLab[labels[u]] = u
			}
		}
		j.bad("scc-partition", op+": "+wit)
		return
	}
	// numbering: reverse topological, i.e. no edge from a lower to a higher id
	for u, l := range j.adj {
		for _, v := range l {
			if comp[u] < comp[v] {
				j.bad("scc-order", fmt.Sprintf("%s: edge %d->%d goes from component %d to the higher component %d; numbering is not reverse topological", op, u, v, comp[u], comp[v]))
				okAll = false
				break
			}
		}
		if !okAll {
			break
		}
	}
	if flags&(graphalg.SCCSubnodeComponent|graphalg.SCCEdges) != 0 {
		problem = ""
		if j.guard("SCCGraph.SubnodeComponent", func() {
			for u := 0; u < n; u++ {
				w.Eval("SCCGraph.SubnodeComponent")
				if got := s.SubnodeComponent(u); got != comp[u] {
					problem = fmt.Sprintf("SubnodeComponent(%d)=%d but Subnodes lists it in component %d", u, got, comp[u])
					return
				}
			}
		}) && problem != "" {
			j.bad("scc-subnode-component", op+": "+problem)
		}
	}
	if flags&graphalg.SCCEdges != 0 {
		// expected component edges, by definition, in the library's numbering
		pairs := make([]uint64, 0, 16)
		for u, l := range j.adj {
			for _, v := range l {
				if comp[u] != comp[v] {
					pairs = append(pairs, uint64(comp[u])<<32|uint64(comp[v]))
				}
			}
		}
		sort.Slice(pairs, func(a, b int) bool { return pairs[a] < pairs[b] })
		k := 0
		for i, p := range pairs {
			if i == 0 || p != pairs[i-1] {
				pairs[k] = p
				k++
			}
		}
		pairs = pairs[:k]
		problem = ""
		pi := 0
		if j.guard("SCCGraph.Out", func() {
			for cid := 0; cid < nc; cid++ {
				w.Eval("SCCGraph.Out")
				out := append([]int(nil), s.Out(cid)...)
				sort.Ints(out)
				var want []int
				for pi < len(pairs) && int(pairs[pi]>>32) == cid {
					want = append(want, int(pairs[pi]&0xffffffff))
					pi++
				}
				if !c18EqInts(out, want) {
					problem = fmt.Sprintf("component %d (nodes %s) has Out=%v (sorted), the components it has an edge into are %v", cid, c18Short(s.Subnodes(cid), nil), c18Short(out, want), c18Short(want, out))
					return
				}
			}
		}) && problem != "" {
			j.bad("scc-edges", op+": "+problem)
		}
	}
}

// simplify: SimplifyMulti merges parallel edges and sums their weights.
func (j *c18J) simplify(wt [][]float64) {
	w := j.w
	op := "SimplifyMulti(unweighted)"
	gi := j.G
	if wt != nil {
		op = "SimplifyMulti(weighted)"
		gi = func() graph.Graph { return j.WG(wt) }
		w.Hit("simplify-weighted")
	}
	var s graph.Weighted
	if !j.call(op, func() { s = graphalg.SimplifyMulti(gi()) }) {
		return
	}
	if s == nil {
		j.bad("simplify", op+" returned nil")
		return
	}
	problem := ""
	if j.guard(op+" accessors", func() {
		if nn := s.NumNodes(); nn != j.n {
			problem = fmt.Sprintf("result has %d nodes, the graph has %d", nn, j.n)
			return
		}
		for u, l := range j.adj {
			out := s.Out(u)
			w.Eval("simplified.Out")
			dyadic := wt == nil || c18SmallDyadic(wt[u])
			w.HitIf(!dyadic, "weighted-nondyadic")
			// long lists: the same definitional quantities (distinct successors,
			// per-successor count, sum in adjacency order, parts) through maps
			// instead of the quadratic scans
			var long map[int]*c18Agg
			if len(l) > c18LongList {
				long = c18Aggregate(l, wt, u)
				w.Hit("simplify-long-adjacency-list")
			}
			distinct := 0
			if long != nil {
				distinct = len(long)
			} else {
				for k, v := range l {
					first := true
					for _, x := range l[:k] {
						if x == v {
							first = false
							break
						}
					}
					if first {
						distinct++
					}
				}
			}
			var seenOut map[int]bool
			if long != nil {
				seenOut = make(map[int]bool, len(out))
			}
			if len(out) != distinct {
				problem = fmt.Sprintf("node %d: Out=%v, but the distinct successors of %v number %d", u, c18Short(out, nil), c18Short(l, nil), distinct)
				return
			}
			for e, t := range out {
				if long != nil {
					if seenOut[t] {
						problem = fmt.Sprintf("node %d: Out (len %d, the list has %d edges to %d distinct successors) names successor %d twice", u, len(out), len(l), distinct, t)
						return
					}
					seenOut[t] = true
				} else {
					for _, x := range out[:e] {
						if x == t {
							problem = fmt.Sprintf("node %d: Out=%v names successor %d twice", u, c18Short(out, nil), t)
							return
						}
					}
				}
				sum, sumAbs, cnt := 0.0, 0.0, 0
				var part []float64
				if long != nil {
					if a := long[t]; a != nil {
						sum, sumAbs, cnt, part = a.sum, a.sumAbs, a.cnt, a.part
					}
				} else {
					for k, v := range l {
						if v == t {
							cnt++
							if wt != nil {
								sum += wt[u][k]
								sumAbs += math.Abs(wt[u][k])
								part = append(part, wt[u][k])
							} else {
								sum++
							}
						}
					}
				}
				if cnt == 0 {
					problem = fmt.Sprintf("node %d: Out=%v names %d, which is not a successor (%v)", u, c18Short(out, nil), t, c18Short(l, nil))
					return
				}
				if cnt > 1 && wt != nil {
					w.Hit("weighted-parallel")
				}
				got := s.OutWeight(u, e)
				w.Eval("simplified.OutWeight")
				if wt == nil || cnt == 1 || dyadic {
					// an edge without parallel partner keeps its weight; counts and
					// small dyadic weights sum exactly in every order
					diff := math.Abs(got - sum)
					if got == sum || (math.IsNaN(got) && math.IsNaN(sum)) {
						diff = 0 // also for an infinite weight
					}
					if !w.Err("simplify-weight", diff, 0) {
						if cnt == 1 {
							problem = fmt.Sprintf("node %d: the edge to %d has weight %v; it has no parallel partner and its weight in the graph is %v", u, t, got, sum)
						} else {
							problem = fmt.Sprintf("node %d: merged edge to %d has weight %v, the %d parallel edges sum to %v exactly (weights %v)", u, t, got, cnt, sum, part)
						}
						return
					}
					continue
				}
				if !(sumAbs <= math.MaxFloat64/4) {
					// infinite weights, or finite ones whose partial sums can leave
					// the float64 range
					if bad := c18JudgeExtremeSum(w, part, got); bad != "" {
						problem = fmt.Sprintf("node %d: merged edge to %d has weight %v, the %d parallel edges have weights %v: %s", u, t, got, cnt, part, bad)
						return
					}
					continue
				}
				// general weights: the exact sum, and an allowance of four times
				// the worst-case rounding (cnt-1)*2^-53*sum|w| of a floating-point
				// summation in any order
				w.Hit("weighted-parallel-inexact-sum")
				exact, spread := ref.GExactSum(part)
				w.HitIf(spread >= 60, "weighted-parallel-wide-magnitudes")
				tol := 4 * float64(cnt-1) * 0x1p-53 * sumAbs
				if !w.Err("simplify-weight-rounded", ref.GAbsDiffExact(got, exact), tol) {
					problem = fmt.Sprintf("node %d: merged edge to %d has weight %v, the %d parallel edges with weights %v sum to %v (allowance %.3g)", u, t, got, cnt, part, ref.GFloat(exact), tol)
					return
				}
			}
		}
	}) && problem != "" {
		j.bad("simplify", op+": "+problem)
	}
}

// c18LongList: adjacency lists longer than this are judged through
// c18Aggregate (linear) instead of the quadratic scans.
const c18LongList = 48

// c18Agg: the edges of one node to one successor: how many, their weights in
// adjacency order and the sums of these (1 per edge when unweighted).
type c18Agg struct {
	cnt         int
	sum, sumAbs float64
	part        []float64
}

func c18Aggregate(l []int, wt [][]float64, u int) map[int]*c18Agg {
	m := make(map[int]*c18Agg, len(l))
	for k, v := range l {
		a := m[v]
		if a == nil {
			a = &c18Agg{}
			m[v] = a
		}
		a.cnt++
		if wt != nil {
			a.sum += wt[u][k]
			a.sumAbs += math.Abs(wt[u][k])
			a.part = append(a.part, wt[u][k])
		} else {
			a.sum++
		}
	}
	return m
}

// c18JudgeExtremeSum judges the merged weight got of parallel edges whose
// weights part contain infinities or are so large that partial sums can
// overflow. The sum of float64 values is taken as IEEE 754 defines it, but no
// order or scheme of summation is assumed:
//   - infinities of one sign (finite part far from overflow): that infinity;
//   - both signs: NaN (+Inf + -Inf has no value);
//   - finite weights: a finite result must lie within the usual rounding
//     allowance of the exact sum; +Inf (-Inf) is accepted exactly when the
//     positive (negative) weights alone can reach the overflow threshold, i.e.
//     when some order of addition overflows or the exact sum itself rounds to
//     infinity; NaN only when both can (a tree-shaped summation may then add
//     +Inf and -Inf).
//
// A case outside these rules (NaN weights; infinities together with finite
// weights that can overflow on their own) is counted ambiguous and not judged.
func c18JudgeExtremeSum(w *mon.W, part []float64, got float64) string {
	in := ref.GSumAnalyze(part)
	if in.NaNs > 0 || ((in.PosInf > 0 || in.NegInf > 0) && (in.PosCan || in.NegCan)) {
		w.Ambiguous()
		return ""
	}
	w.Eval("simplified.OutWeight(extreme)")
	switch {
	case in.PosInf > 0 && in.NegInf > 0:
		w.Hit("weighted-parallel-both-infinities")
		if !math.IsNaN(got) {
			return "+Inf and -Inf have no sum, NaN expected"
		}
	case in.PosInf > 0:
		w.Hit("weighted-parallel-infinite")
		if !math.IsInf(got, 1) {
			return "the sum is +Inf"
		}
	case in.NegInf > 0:
		w.Hit("weighted-parallel-infinite")
		if !math.IsInf(got, -1) {
			return "the sum is -Inf"
		}
	default:
		w.HitIf(in.Overflows != 0, "weighted-parallel-sum-overflows")
		w.HitIf(in.Overflows == 0 && (in.PosCan || in.NegCan), "weighted-parallel-order-dependent-overflow")
		tol := ref.GScale(in.SumAbs, 4*float64(len(part)-1)*0x1p-53)
		ex := ref.GFloat(in.Exact)
		switch {
		case math.IsNaN(got):
			if !(in.PosCan && in.NegCan) {
				return fmt.Sprintf("the exact sum is %v; no order of addition produces both +Inf and -Inf, NaN is not a sum of these weights", ex)
			}
		case math.IsInf(got, 1):
			if !in.PosCan {
				return fmt.Sprintf("the exact sum is %v and the positive weights cannot overflow in any order", ex)
			}
		case math.IsInf(got, -1):
			if !in.NegCan {
				return fmt.Sprintf("the exact sum is %v and the negative weights cannot overflow in any order", ex)
			}
		default:
			if !ref.GWithin(got, in.Exact, tol) {
				return fmt.Sprintf("the exact sum is %v (allowance %.3g)", ex, ref.GFloat(tol))
			}
		}
	}
	return ""
}

// bi: MakeBiGraph's In is the transpose of Out.
func (j *c18J) bi() {
	w := j.w
	var b graph.BiGraph
	if !j.call("MakeBiGraph", func() { b = graph.MakeBiGraph(j.G()) }) {
		return
	}
	if b == nil {
		j.bad("bigraph", "MakeBiGraph returned nil")
		return
	}
	tr := ref.GTranspose(j.adj)
	check := func(b graph.BiGraph, op string) {
		problem := ""
		if j.guard(op+" accessors", func() {
			if nn := b.NumNodes(); nn != j.n {
				problem = fmt.Sprintf("NumNodes()=%d, the graph has %d", nn, j.n)
				return
			}
			for i := 0; i < j.n; i++ {
				in := b.In(i)
				w.Eval("BiGraph.In")
				if !ref.GSameMultiset(in, tr[i]) {
					problem = fmt.Sprintf("In(%d)=%v, the predecessors of %d (with multiplicity) are %v", i, c18Short(in, tr[i]), i, c18Short(tr[i], in))
					return
				}
				out := b.Out(i)
				if !ref.GSameMultiset(out, j.adj[i]) {
					problem = fmt.Sprintf("Out(%d)=%v differs from the graph's %v", i, c18Short(out, j.adj[i]), c18Short(j.adj[i], out))
					return
				}
			}
		}) && problem != "" {
			j.bad("bigraph", op+": "+problem)
		}
	}
	check(b, "MakeBiGraph(g)")
	if j.small {
		var b2 graph.BiGraph
		j.g.calls = 0
		if j.call("MakeBiGraph(BiGraph)", func() { b2 = graph.MakeBiGraph(b) }) && b2 != nil {
			j.g.calls = 0
			check(b2, "MakeBiGraph(MakeBiGraph(g))")
		}
	}
}

// equal: Equal compares adjacency lists as multisets.
func (j *c18J) equal() {
	w := j.w
	for _, adj2 := range j.c.Eq {
		j.equalOne(adj2)
	}
	for _, d := range j.c.EqD {
		if adj2 := c18ApplyDelta(j.adj, d); adj2 != nil {
			j.equalOne(adj2)
		}
	}
	// the very same graph value as both arguments
	w.Hit("equal-same-value-twice")
	var same bool
	if j.call("Equal(g,g)", func() { g := j.G(); same = graph.Equal(g, g) }) && !same {
		j.bad("equal", "Equal(g, g)=false for the same graph value as both arguments")
	}
}

// c18ApplyDelta builds the partner graph a delta describes (nil when the
// delta does not fit the graph).
func c18ApplyDelta(adj [][]int, d c18EqDelta) [][]int {
	out := c18CloneAdj(adj)
	for _, e := range d.Set {
		if e[0] < 0 || e[0] >= len(out) || e[1] < 0 || e[1] >= len(out[e[0]]) || e[2] < 0 || e[2] >= len(out) {
			return nil
		}
		out[e[0]][e[1]] = e[2]
	}
	if d.Shuf != 0 {
		rng := mon.NewRand(d.Shuf, 0x18e9)
		for _, l := range out {
			if len(l) > 1 {
				rng.ShuffleI(l)
			}
		}
	}
	return out
}

// c18SortedCopy returns a sorted copy of l.
func c18SortedCopy(l []int) []int {
	x := append(make([]int, 0, len(l)), l...)
	sort.Ints(x)
	return x
}

// c18EqClasses records the classes of a pair of graphs handed to Equal
// (inputs only). All of them describe pairs that are NOT equal but agree in
// some summary of the lists an implementation could be tempted to compare
// instead of the multisets.
func c18EqClasses(w *mon.W, a, b [][]int, want bool) {
	if len(a) != len(b) {
		w.Hit("equal-different-node-count")
		return
	}
	ident, sameLen, sameSets := true, true, true
	var sumEq, xorEq, sqEq, resEq, shift64 bool
	m := 0
	for i := range b {
		m += len(a[i])
		if c18EqInts(a[i], b[i]) {
			continue
		}
		ident = false
		if len(a[i]) != len(b[i]) {
			sameLen = false
			continue
		}
		x, y := c18SortedCopy(a[i]), c18SortedCopy(b[i])
		if c18EqInts(x, y) {
			continue
		}
		// the two lists differ as multisets: which summaries do they share?
		var onlyX, onlyY []int // multiset differences
		setsEq := true
		for p, q := 0, 0; p < len(x) || q < len(y); {
			switch {
			case q >= len(y) || (p < len(x) && x[p] < y[q]):
				if p == 0 || x[p-1] != x[p] {
					setsEq = setsEq && sort.SearchInts(y, x[p]) < len(y) && y[sort.SearchInts(y, x[p])] == x[p]
				}
				onlyX = append(onlyX, x[p])
				p++
			case p >= len(x) || y[q] < x[p]:
				if q == 0 || y[q-1] != y[q] {
					setsEq = setsEq && sort.SearchInts(x, y[q]) < len(x) && x[sort.SearchInts(x, y[q])] == y[q]
				}
				onlyY = append(onlyY, y[q])
				q++
			default:
				p++
				q++
			}
		}
		sameSets = sameSets && setsEq
		var s1, s2, x1, x2, q1, q2, m1, m2 uint64
		for k := range x {
			s1 += uint64(x[k])
			s2 += uint64(y[k])
			x1 ^= uint64(x[k])
			x2 ^= uint64(y[k])
			q1 += uint64(x[k]) * uint64(x[k])
			q2 += uint64(y[k]) * uint64(y[k])
			m1 |= 1 << (uint(x[k]) % 64)
			m2 |= 1 << (uint(y[k]) % 64)
		}
		sumEq = sumEq || s1 == s2
		xorEq = xorEq || x1 == x2
		sqEq = sqEq || (s1 == s2 && q1 == q2)
		resEq = resEq || m1 == m2
		if len(onlyX) == 1 && (onlyX[0]-onlyY[0])%64 == 0 {
			shift64 = true
		}
	}
	w.HitIf(want && !ident, "equal-true-permuted-lists")
	w.HitIf(!want && sameLen && sameSets, "equal-same-set-different-multiset")
	w.HitIf(!want && sameLen && !sameSets, "equal-false-same-lengths")
	w.HitIf(sumEq, "equal-false-lists-of-same-length-and-sum")
	w.HitIf(xorEq, "equal-false-lists-of-same-length-and-xor")
	w.HitIf(sqEq, "equal-false-lists-of-same-sum-and-sum-of-squares")
	w.HitIf(resEq, "equal-false-lists-with-same-residues-mod-64")
	w.HitIf(shift64, "equal-false-one-target-moved-by-multiple-of-64")
	if !want && sameLen && m <= 1<<16 {
		// the same targets overall, distributed differently over the nodes
		fa := make([]int, 0, m)
		fb := make([]int, 0, m)
		for i := range a {
			fa = append(fa, a[i]...)
			fb = append(fb, b[i]...)
		}
		sort.Ints(fa)
		sort.Ints(fb)
		w.HitIf(c18EqInts(fa, fb), "equal-false-same-targets-overall-different-per-node")
	}
	if want || !ident {
		mx := 0
		for i := range a {
			for _, v := range a[i] {
				if v > mx {
					mx = v
				}
			}
		}
		w.HitIf(mx >= 64, "equal-target-id>=64")
		w.HitIf(mx >= 65536, "equal-target-id>=65536")
	}
}

// c18PairDesc prints the partner graph, or for a long one the lists in which
// it differs from adj.
func c18PairDesc(adj, adj2 [][]int) string {
	tot := len(adj2)
	for _, l := range adj2 {
		tot += len(l)
	}
	if tot <= 200 {
		return fmt.Sprint(adj2)
	}
	if len(adj) != len(adj2) {
		return fmt.Sprintf("(a graph of %d nodes)", len(adj2))
	}
	var b strings.Builder
	fmt.Fprintf(&b, "(g with")
	cnt := 0
	for i := range adj2 {
		if c18EqInts(adj[i], adj2[i]) {
			continue
		}
		cnt++
		if cnt <= 3 {
			kind := "replaced by"
			if ref.GSameMultiset(adj[i], adj2[i]) {
				kind = "permuted to"
			}
			fmt.Fprintf(&b, " Out(%d)=%s %s %s;", i, c18Short(adj[i], adj2[i]), kind, c18Short(adj2[i], adj[i]))
		}
	}
	fmt.Fprintf(&b, " %d lists differ as sequences)", cnt)
	return b.String()
}

func (j *c18J) equalOne(adj2 [][]int) {
	w := j.w
	want := ref.GEqualDef(j.adj, adj2)
	c18EqClasses(w, j.adj, adj2, want)
	w.HitIf(want, "equal-true")
	w.HitIf(j.n > 60, "equal-graph>60-nodes")
	lay := 0
	if j.st != nil {
		lay = j.st.lay
	}
	var st2 *c18Store
	lists2 := adj2
	if j.small {
		st2 = c18NewStore(adj2, lay)
		lists2 = st2.lists
	}
	if lay != 0 && len(adj2) == len(j.adj) {
		// a scratch buffer grown out of one graph's list would run over the
		// lists stored behind it
		over := false
		for i := range adj2 {
			if len(adj2[i]) == len(j.adj[i]) && !c18EqInts(adj2[i], j.adj[i]) {
				over = over || j.st.spareOver(i, len(adj2[i])) || st2.spareOver(i, len(adj2[i]))
			}
		}
		w.HitIf(over, "equal-packed-permuted-list-before-other-lists")
	}
	j.st2, j.adj2 = st2, adj2
	ctr2 := &c18G{}
	b2 := 16*int64(len(adj2)+j.m+4) + 64 + j.budget
	mk2 := func() graph.Graph {
		*ctr2 = c18G{budget: b2}
		return c18Wrap(j.rep(), lists2, ctr2)
	}
	var got, got2 bool
	if j.call("Equal", func() { got = graph.Equal(j.G(), mk2()) }) && got != want {
		j.bad("equal", fmt.Sprintf("Equal(g, %s)=%v, comparing adjacency lists as multisets gives %v", c18PairDesc(j.adj, adj2), got, want))
	}
	if j.call("Equal", func() { got2 = graph.Equal(mk2(), j.G()) }) && got2 != want {
		j.bad("equal", fmt.Sprintf("Equal(%s, g)=%v, comparing adjacency lists as multisets gives %v", c18PairDesc(j.adj, adj2), got2, want))
	}
	j.st2, j.adj2 = nil, nil
}

func c18Has(l []int, x int) bool {
	for _, y := range l {
		if y == x {
			return true
		}
	}
	return false
}

// c18Poison overwrites the slices that were passed by value to a
// constructing call. The call has returned: the slices belong to the caller,
// who may reuse them (buf = append(buf[:0], ...)); the result must not depend
// on them any more.
func c18Poison(w *mon.W, nodes []int, edges []graph.Edge) {
	w.HitIf(len(nodes)+len(edges) > 0, "subgraph-argument-slices-overwritten-after-call")
	for i := range nodes {
		nodes[i] = -1 - i
	}
	for i := range edges {
		edges[i] = graph.Edge{Node: -1 - i, Edge: -7}
	}
}

// c18SubInfo is what subVerify has learnt about a verified Subgraph.
type c18SubInfo struct {
	adj    [][]int           // its adjacency lists (copies)
	old    []int             // subgraph node -> node of the graph it was made from
	newOf  map[int]int       // the inverse
	edgeOf map[[2]int][2]int // (node, edge) of the graph it was made from -> (node, edge) of the subgraph
}

// c18SubRemoveWant: kept nodes and surviving edges of SubgraphRemove on adj.
func c18SubRemoveWant(adj [][]int, rmNodes []int, rmEdges [][2]int) (kept []bool, nk int, want map[[2]int]bool, shifted bool) {
	kept = make([]bool, len(adj))
	for i := range kept {
		kept[i] = true
	}
	for _, u := range rmNodes {
		kept[u] = false
	}
	rm := make(map[[2]int]bool, len(rmEdges))
	for _, e := range rmEdges {
		rm[e] = true
	}
	want = map[[2]int]bool{}
	for u, l := range adj {
		if !kept[u] {
			continue
		}
		nk++
		dropped := false
		for k, v := range l {
			if kept[v] && !rm[[2]int{u, k}] {
				want[[2]int{u, k}] = true
				if dropped {
					shifted = true
				}
			} else {
				dropped = true
			}
		}
	}
	return
}

func c18GraphEdges(es [][2]int) []graph.Edge {
	out := make([]graph.Edge, len(es))
	for i, e := range es {
		out[i] = graph.Edge{Node: e[0], Edge: e[1]}
	}
	return out
}

// sub: SubgraphKeep and SubgraphRemove with NodeMap/EdgeMap.
func (j *c18J) sub() {
	w := j.w
	s := j.c.Sub
	n := j.n
	desc := fmt.Sprintf("keep=%s/%s, rm=%s/%s; the nodes and edges slices passed to a call are overwritten with negative numbers after the result was judged", c18Short(s.KeepNodes, nil), c18ShortE(s.KeepEdges), c18Short(s.RmNodes, nil), c18ShortE(s.RmEdges))
	w.HitIf(n > 60, "subgraph-graph>60-nodes")
	var infoKeep, infoRm *c18SubInfo
	var sgKeep, sgRm graph.Subgraph
	// --- keep
	{
		kept := make([]bool, n)
		for _, u := range s.KeepNodes {
			kept[u] = true
		}
		want := make(map[[2]int]bool, len(s.KeepEdges))
		for _, e := range s.KeepEdges {
			want[e] = true
		}
		asc := sort.IntsAreSorted(s.KeepNodes)
		w.HitIf(!asc, "subgraph-keep-permuted-nodes")
		w.HitIf(len(s.KeepNodes) == 0, "subgraph-keep-nothing")
		var sg graph.Subgraph
		var nodesArg []int
		var edgesArg []graph.Edge
		if j.call("SubgraphKeep", func() {
			nodesArg, edgesArg = append([]int(nil), s.KeepNodes...), c18GraphEdges(s.KeepEdges)
			sg = graph.SubgraphKeep(j.G(), nodesArg, edgesArg)
		}) {
			infoKeep = j.subVerify(sg, "SubgraphKeep", desc, j.adj, s.KeepNodes, kept, len(s.KeepNodes), want)
			sgKeep = sg
			c18Poison(w, nodesArg, edgesArg)
			j.noteOnly = "subgraph-result-follows-the-argument-slices-after-the-call"
			j.subVerify(sg, "SubgraphKeep", desc, j.adj, s.KeepNodes, kept, len(s.KeepNodes), want)
			j.noteOnly = ""
		}
	}
	// --- remove
	{
		kept, nk, want, shifted := c18SubRemoveWant(j.adj, s.RmNodes, s.RmEdges)
		w.HitIf(shifted, "subgraph-remove-edge-index-shift")
		{
			cnt := map[int]int{}
			minDup := -1
			for _, u := range s.RmNodes {
				cnt[u]++
				if cnt[u] == 2 && (minDup < 0 || u < minDup) {
					minDup = u
				}
			}
			w.HitIf(minDup >= 0, "subgraph-remove-repeated-node")
			if minDup >= 0 {
				above := false
				for e := range want {
					above = above || j.adj[e[0]][e[1]] > minDup
				}
				w.HitIf(above, "subgraph-remove-repeated-node-below-kept-edge-target")
			}
			rm := make(map[[2]int]bool, len(s.RmEdges))
			for _, e := range s.RmEdges {
				rm[e] = true
			}
			w.HitIf(len(rm) < len(s.RmEdges), "subgraph-remove-repeated-edge")
		}
		w.HitIf(len(s.RmNodes) > 0 && nk > 0 && !kept[0], "subgraph-remove-node-id-shift")
		var sg graph.Subgraph
		var nodesArg []int
		var edgesArg []graph.Edge
		if j.call("SubgraphRemove", func() {
			nodesArg, edgesArg = append([]int(nil), s.RmNodes...), c18GraphEdges(s.RmEdges)
			sg = graph.SubgraphRemove(j.G(), nodesArg, edgesArg)
		}) {
			infoRm = j.subVerify(sg, "SubgraphRemove", desc, j.adj, nil, kept, nk, want)
			sgRm = sg
			c18Poison(w, nodesArg, edgesArg)
			j.noteOnly = "subgraph-result-follows-the-argument-slices-after-the-call"
			j.subVerify(sg, "SubgraphRemove", desc, j.adj, nil, kept, nk, want)
			j.noteOnly = ""
		}
	}
	// --- a second step on the Subgraph the first one returned
	if ns := s.Nest; ns != nil {
		info, sg1, first := infoKeep, sgKeep, "SubgraphKeep"
		if ns.First == 1 {
			info, sg1, first = infoRm, sgRm, "SubgraphRemove"
		}
		if info != nil {
			j.subNested(sg1, info, first, desc)
		}
	}
}

func c18ShortE(es [][2]int) string {
	if len(es) <= 24 {
		return fmt.Sprint(es)
	}
	return fmt.Sprintf("(%d edges) %v...", len(es), es[:8])
}

// subNested applies the case's second step to sg1, a Subgraph the library
// returned and subVerify accepted (info describes it). The graph handed to
// the library is now sg1: the result must be the requested subgraph of sg1,
// NodeMap/EdgeMap must translate to sg1's identifiers and Underlying must be
// sg1, whatever sg1 itself is a subgraph of.
func (j *c18J) subNested(sg1 graph.Subgraph, info *c18SubInfo, first, desc string) {
	w := j.w
	ns := j.c.Sub.Nest
	adj1 := info.adj
	// translate into sg1's numbering; a name that does not survive step 1 is
	// dropped (only possible in a hand-made case)
	var nodes []int
	for _, v := range ns.Nodes {
		if x, ok := info.newOf[v]; ok {
			nodes = append(nodes, x)
		}
	}
	var edges [][2]int
	for _, e := range ns.Edges {
		if x, ok := info.edgeOf[e]; ok {
			edges = append(edges, x)
		}
	}
	renumbered := false
	for i, v := range info.old {
		if v != i {
			renumbered = true
		}
	}
	if !renumbered {
		for e, x := range info.edgeOf {
			if e != x {
				renumbered = true
				break
			}
		}
	}
	w.Hit("subgraph-of-subgraph")
	w.HitIf(renumbered, "subgraph-of-renumbered-subgraph")
	opName := "SubgraphKeep"
	if ns.Op == 1 {
		opName = "SubgraphRemove"
	}
	op := fmt.Sprintf("%s(s1, nodes=%s, edges=%s) with s1 = the result of %s(g, ...) (%d nodes; numbered in s1's identifiers)", opName, c18Short(nodes, nil), c18ShortE(edges), first, len(adj1))
	var strict []int
	var kept []bool
	var nk int
	var want map[[2]int]bool
	if ns.Op == 0 {
		kept = make([]bool, len(adj1))
		for _, u := range nodes {
			if kept[u] {
				return // not in the domain: duplicate node
			}
			kept[u] = true
		}
		want = make(map[[2]int]bool, len(edges))
		for _, e := range edges {
			if want[e] || !kept[e[0]] || !kept[adj1[e[0]][e[1]]] {
				return // not in the domain
			}
			want[e] = true
		}
		strict, nk = nodes, len(nodes)
		if strict == nil {
			strict = []int{}
		}
	} else {
		kept, nk, want, _ = c18SubRemoveWant(adj1, nodes, edges)
		w.HitIf(len(nodes) == 0 && len(edges) == 0, "subgraph-remove-nothing-from-subgraph")
		w.HitIf(len(nodes) == 0 && len(edges) == 0 && renumbered, "subgraph-remove-nothing-from-renumbered-subgraph")
	}
	var sg2 graph.Subgraph
	var nodesArg []int
	var edgesArg []graph.Edge
	j.g.calls = 0
	w.Eval(opName + "(Subgraph)")
	if !j.guard(opName+"(Subgraph)", func() {
		nodesArg, edgesArg = append([]int(nil), nodes...), c18GraphEdges(edges)
		if ns.Nil && len(nodesArg) == 0 {
			nodesArg = nil
		}
		if ns.Nil && len(edgesArg) == 0 {
			edgesArg = nil
		}
		if ns.Op == 0 {
			sg2 = graph.SubgraphKeep(sg1, nodesArg, edgesArg)
		} else {
			sg2 = graph.SubgraphRemove(sg1, nodesArg, edgesArg)
		}
	}) {
		return
	}
	j.subVerify(sg2, op, desc, adj1, strict, kept, nk, want)
	c18Poison(w, nodesArg, edgesArg)
	j.noteOnly = "subgraph-result-follows-the-argument-slices-after-the-call"
	j.subVerify(sg2, op, desc, adj1, strict, kept, nk, want)
	j.noteOnly = ""
	// s1 is still the subgraph it was
	problem := ""
	j.g.calls = 0
	if j.guard("Subgraph.Out after a nested step", func() {
		if nn := sg1.NumNodes(); nn != len(adj1) {
			problem = fmt.Sprintf("s1 has %d nodes now, it had %d", nn, len(adj1))
			return
		}
		for i := range adj1 {
			if out := sg1.Out(i); !ref.GSameMultiset(out, adj1[i]) {
				problem = fmt.Sprintf("s1.Out(%d)=%s now, it was %s", i, c18Short(out, adj1[i]), c18Short(adj1[i], out))
				return
			}
		}
	}) && problem != "" {
		j.bad("subgraph", fmt.Sprintf("%s (%s): the input graph s1 was changed by the call: %s", op, desc, problem))
	}
}

// subVerify checks a Subgraph of the graph with lists adj (the graph that was
// handed to the library) against the requested node set (in the given order
// when strict != nil) and edge set, through NodeMap, EdgeMap and Underlying.
// It returns what it has read, nil when the subgraph was not accepted.
func (j *c18J) subVerify(sg graph.Subgraph, op, desc string, adj [][]int, strict []int, kept []bool, nk int, want map[[2]int]bool) *c18SubInfo {
	w := j.w
	if sg == nil {
		j.bad("subgraph", op+" returned nil")
		return nil
	}
	n := len(adj)
	j.g.calls = 0
	problem := ""
	info := &c18SubInfo{adj: make([][]int, nk), old: make([]int, nk), newOf: make(map[int]int, nk), edgeOf: make(map[[2]int][2]int, len(want))}
	if !j.guard(op+" accessors", func() {
		if nn := sg.NumNodes(); nn != nk {
			problem = fmt.Sprintf("subgraph has %d nodes, %d requested", nn, nk)
			return
		}
		nm := sg.NodeMap(func(node int) interface{} { return node })
		w.Eval("Subgraph.NodeMap")
		old, newOf := info.old, info.newOf
		for i := 0; i < nk; i++ {
			v, ok := nm(i).(int)
			if !ok || v < 0 || v >= n || !kept[v] {
				problem = fmt.Sprintf("NodeMap: subgraph node %d maps to %v, not a requested node", i, nm(i))
				return
			}
			if _, dup := newOf[v]; dup {
				problem = fmt.Sprintf("NodeMap: original node %d appears twice in the subgraph", v)
				return
			}
			if strict != nil && v != strict[i] {
				problem = fmt.Sprintf("NodeMap: subgraph node %d maps to %d, but nodes[%d]=%d", i, v, i, strict[i])
				return
			}
			old[i] = v
			newOf[v] = i
		}
		em := sg.EdgeMap(func(node, edge int) interface{} { return [2]int{node, edge} })
		w.Eval("Subgraph.EdgeMap")
		seen := info.edgeOf
		for i := 0; i < nk; i++ {
			out := sg.Out(i)
			w.Eval("Subgraph.Out")
			info.adj[i] = append(make([]int, 0, len(out)), out...)
			for k, t := range out {
				p, ok := em(i, k).([2]int)
				if !ok {
					problem = fmt.Sprintf("EdgeMap(%d,%d) did not return the underlying map's value", i, k)
					return
				}
				if p[0] != old[i] || p[1] < 0 || p[1] >= len(adj[old[i]]) {
					problem = fmt.Sprintf("EdgeMap: subgraph edge (%d,%d) maps to original (node %d, edge %d) but subgraph node %d is original node %d with %d out-edges", i, k, p[0], p[1], i, old[i], len(adj[old[i]]))
					return
				}
				if !want[p] {
					problem = fmt.Sprintf("subgraph edge (%d,%d) maps to original edge (%d,%d), which is not in the requested subgraph", i, k, p[0], p[1])
					return
				}
				if _, dup := seen[p]; dup {
					problem = fmt.Sprintf("original edge (%d,%d) appears twice in the subgraph", p[0], p[1])
					return
				}
				seen[p] = [2]int{i, k}
				to := adj[p[0]][p[1]]
				if nt, ok := newOf[to]; !ok || nt != t {
					problem = fmt.Sprintf("subgraph edge (%d,%d) points to subgraph node %d, but its original (%d,%d) points to original node %d = subgraph node %d", i, k, t, p[0], p[1], to, newOf[to])
					return
				}
			}
		}
		if len(seen) != len(want) {
			for e := range want {
				if _, ok := seen[e]; !ok {
					problem = fmt.Sprintf("requested original edge (%d,%d) is missing from the subgraph (%d of %d edges present)", e[0], e[1], len(seen), len(want))
					return
				}
			}
		}
		// Underlying: the graph this is a subgraph of, i.e. the graph the
		// identifiers handed to the NodeMap/EdgeMap callbacks belong to. It is
		// compared by content (same nodes, same lists in the same order: edge
		// indexes count), not by identity.
		ug := sg.Underlying()
		w.Eval("Subgraph.Underlying")
		if ug == nil {
			problem = "Underlying() returned nil"
			return
		}
		if nn := ug.NumNodes(); nn != n {
			problem = fmt.Sprintf("Underlying() has %d nodes; the graph passed in, which NodeMap and EdgeMap must translate to, has %d", nn, n)
			return
		}
		for u := 0; u < n; u++ {
			if out := ug.Out(u); !c18EqInts(out, adj[u]) {
				problem = fmt.Sprintf("Underlying().Out(%d)=%s; in the graph passed in, which NodeMap and EdgeMap must translate to, Out(%d)=%s", u, c18Short(out, adj[u]), u, c18Short(adj[u], out))
				return
			}
		}
	}) {
		return nil
	}
	if problem != "" {
		j.bad("subgraph", fmt.Sprintf("%s (%s): %s", op, desc, problem))
		return nil
	}
	return info
}

// feed hands results of the library back to it as input graphs: the
// simplified graph, the SCC graph, a BiGraph or a Subgraph is just another
// Graph. Its lists are read once (whether they are right for g is judged in
// the part that made it); every call on it is then judged against them.
func (j *c18J) feed() {
	w := j.w
	rng := mon.NewRand(j.c.Feed, 0x18fe)
	saved := j.probe
	if j.c.Rep == 1 {
		// graph.IntGraph cannot count calls; results that keep calling into g
		// are built over the counting representation
		j.probe = true
	}
	defer func() { j.probe = saved }()
	var lg graph.Graph
	name := ""
	j.g.calls = 0
	kind := rng.Intn(4)
	w.Eval("result-as-input")
	if !j.guard("constructing a result to pass back", func() {
		switch kind {
		case 0:
			name = "SimplifyMulti(g)"
			lg = graphalg.SimplifyMulti(j.G())
		case 1:
			name = "SCC(g, SCCEdges)"
			lg = graphalg.SCC(j.G(), graphalg.SCCEdges)
		case 2:
			name = "MakeBiGraph(g)"
			lg = graph.MakeBiGraph(j.G())
		default:
			name = "SubgraphKeep(g, all nodes in descending order, all edges)"
			nodes := make([]int, j.n)
			var edges []graph.Edge
			for u := range nodes {
				nodes[u] = j.n - 1 - u
				for k := range j.adj[u] {
					edges = append(edges, graph.Edge{Node: u, Edge: k})
				}
			}
			lg = graph.SubgraphKeep(j.G(), nodes, edges)
		}
	}) || lg == nil {
		return
	}
	var adjL [][]int
	valid := true
	j.g.calls = 0
	if !j.guard("reading "+name, func() {
		nl := lg.NumNodes()
		if nl < 0 || nl > j.n {
			valid = false
			return
		}
		adjL = make([][]int, nl)
		for u := range adjL {
			out := lg.Out(u)
			adjL[u] = append(make([]int, 0, len(out)), out...)
			for _, v := range out {
				if v < 0 || v >= nl {
					valid = false
				}
			}
		}
	}) || !valid {
		return // judged where the result was made
	}
	nl := len(adjL)
	w.Hit("library-result-as-input-graph")
	w.Hit("library-result-as-input-graph-" + []string{"simplified", "scc", "bigraph", "subgraph"}[kind])
	bad := func(kind, msg string) {
		j.bad(kind, fmt.Sprintf("with r = %s, a graph of %d nodes with lists %s: %s", name, nl, c18ShortAdj(adjL), msg))
	}
	if nl > 0 {
		root := rng.Intn(nl)
		pre, post, _ := ref.GDFS(adjL, root)
		var got []int
		j.g.calls = 0
		w.Eval("PreOrder(result)")
		if j.guard("PreOrder(r)", func() { got = graphalg.PreOrder(lg, root) }) && !c18EqInts(got, pre) {
			bad("preorder", fmt.Sprintf("PreOrder(r, %d)=%s, the depth-first pre-order is %s", root, c18Short(got, pre), c18Short(pre, got)))
		}
		j.g.calls = 0
		w.Eval("PostOrder(result)")
		if j.guard("PostOrder(r)", func() { got = graphalg.PostOrder(lg, root) }) && !c18EqInts(got, post) {
			bad("postorder", fmt.Sprintf("PostOrder(r, %d)=%s, the depth-first post-order is %s", root, c18Short(got, post), c18Short(post, got)))
		}
	}
	// Equal against plain copies
	shuf := c18CloneAdj(adjL)
	for _, l := range shuf {
		rng.ShuffleI(l)
	}
	var eq bool
	j.g.calls = 0
	w.Eval("Equal(result)")
	if j.guard("Equal(r, copy)", func() { eq = graph.Equal(lg, graph.IntGraph(shuf)) }) && !eq {
		bad("equal", fmt.Sprintf("Equal(r, %v)=false for a copy with reshuffled lists", c18ShortAdj(shuf)))
	}
	j.g.calls = 0
	if j.guard("Equal(r, r)", func() { eq = graph.Equal(lg, lg) }) && !eq {
		bad("equal", "Equal(r, r)=false")
	}
	if nl > 0 {
		mut := c18CloneAdj(shuf)
		u := rng.Intn(nl)
		if len(mut[u]) > 0 && nl > 1 && rng.Bool() {
			k := rng.Intn(len(mut[u]))
			mut[u][k] = (mut[u][k] + 1 + rng.Intn(nl-1)) % nl
		} else {
			mut[u] = append(mut[u], rng.Intn(nl))
		}
		j.g.calls = 0
		w.Eval("Equal(result)")
		if j.guard("Equal(copy, r)", func() { eq = graph.Equal(graph.IntGraph(mut), lg) }) && eq {
			bad("equal", fmt.Sprintf("Equal(%v, r)=true for a copy with one edge changed or added at node %d", c18ShortAdj(mut), u))
		}
	}
	// MakeBiGraph
	var b graph.BiGraph
	j.g.calls = 0
	w.Eval("MakeBiGraph(result)")
	if j.guard("MakeBiGraph(r)", func() { b = graph.MakeBiGraph(lg) }) && b != nil {
		tr := ref.GTranspose(adjL)
		problem := ""
		j.g.calls = 0
		if j.guard("MakeBiGraph(r) accessors", func() {
			if nn := b.NumNodes(); nn != nl {
				problem = fmt.Sprintf("NumNodes()=%d", nn)
				return
			}
			for i := 0; i < nl; i++ {
				if in := b.In(i); !ref.GSameMultiset(in, tr[i]) {
					problem = fmt.Sprintf("In(%d)=%v, the predecessors of %d in r (with multiplicity) are %v", i, c18Short(in, tr[i]), i, c18Short(tr[i], in))
					return
				}
			}
		}) && problem != "" {
			bad("bigraph", "MakeBiGraph(r): "+problem)
		}
	}
	// SCC: number of components
	{
		var lab []int
		if nl <= 64 {
			lab = ref.GSCCMutual(ref.GClosure(adjL))
		} else {
			lab, _ = ref.GKosaraju(adjL)
		}
		nc := map[int]bool{}
		for _, c := range lab {
			nc[c] = true
		}
		var s *graphalg.SCCGraph
		j.g.calls = 0
		w.Eval("SCC(result)")
		if j.guard("SCC(r)", func() { s = graphalg.SCC(lg, graphalg.SCCSubnodeComponent) }) && s != nil {
			problem := ""
			j.g.calls = 0
			if j.guard("SCC(r) accessors", func() {
				if got := s.NumNodes(); got != len(nc) {
					problem = fmt.Sprintf("SCC(r) has %d components, r has %d classes of mutually reachable nodes", got, len(nc))
					return
				}
				comp := make([]int, nl)
				for u := range comp {
					comp[u] = s.SubnodeComponent(u)
				}
				if !ref.GSamePartition(comp, lab) {
					problem = fmt.Sprintf("SCC(r).SubnodeComponent gives %s, mutual reachability gives the partition %s", c18Short(comp, lab), c18Short(lab, comp))
				}
			}) && problem != "" {
				bad("scc-partition", problem)
			}
		}
	}
	// SubgraphRemove(r, nothing) is r again, as a subgraph of r
	{
		kept, nk, want, _ := c18SubRemoveWant(adjL, nil, nil)
		var sg graph.Subgraph
		j.g.calls = 0
		w.Eval("SubgraphRemove(result)")
		if j.guard("SubgraphRemove(r, nil, nil)", func() { sg = graph.SubgraphRemove(lg, nil, nil) }) {
			w.HitIf(kind == 3, "subgraph-remove-nothing-from-subgraph")
			w.HitIf(kind == 3 && nl > 1, "subgraph-remove-nothing-from-renumbered-subgraph")
			j.subVerify(sg, "SubgraphRemove(r, nil, nil) with r = "+name, "r has "+strconv.Itoa(nl)+" nodes, lists "+c18ShortAdj(adjL), adjL, nil, kept, nk, want)
		}
	}
}

func c18ShortAdj(adj [][]int) string {
	tot := 0
	for k, l := range adj {
		tot += 1 + len(l)
		if tot > 120 {
			return fmt.Sprintf("%v... (%d nodes)", adj[:k], len(adj))
		}
	}
	return fmt.Sprint(adj)
}

// ---- Dot ----------------------------------------------------------------

func c18ConvAttrs(as []c18Attr) []graphout.DotAttr {
	if as == nil {
		return nil
	}
	out := make([]graphout.DotAttr, len(as))
	for i, a := range as {
		out[i].Name = a.Name
		switch a.K {
		case "s":
			out[i].Val = string(a.S)
		case "i":
			out[i].Val = int(a.I)
		case "u":
			out[i].Val = uint(a.U)
		case "f":
			out[i].Val = float64(a.F)
		default:
			out[i].Val = graphout.DotLiteral(string(a.S))
		}
	}
	return out
}

// c18SharedAttrs lays every attribute list of a Dot case out in one backing
// array; region r of the array is all[r[0]:r[1]] and a callback returns that
// sub-slice, whose capacity runs on into the following regions.
type c18SharedAttrs struct {
	all, pristine     []graphout.DotAttr
	node              [][2]int
	edge              [][][2]int
	regions           [][2]int // in layout order
	used              int      // all[used:] is spare
	labelBeforeRegion bool     // a node list without label is followed by a non-empty region
}

func c18BuildShared(d *c18Dot, adj [][]int) *c18SharedAttrs {
	n := len(adj)
	sh := &c18SharedAttrs{}
	if d.NodeAttrs != nil {
		sh.node = make([][2]int, n)
	}
	if d.EdgeAttrs != nil {
		sh.edge = make([][][2]int, n)
	}
	pendingNoLabel := false
	place := func(as []c18Attr, isNode bool) [2]int {
		lo := len(sh.all)
		sh.all = append(sh.all, c18ConvAttrs(as)...)
		hi := len(sh.all)
		sh.regions = append(sh.regions, [2]int{lo, hi})
		if hi > lo {
			if pendingNoLabel {
				sh.labelBeforeRegion = true
			}
			pendingNoLabel = false
		}
		if isNode {
			has := false
			for _, a := range as {
				has = has || a.Name == "label"
			}
			if !has {
				pendingNoLabel = true
			}
		}
		return [2]int{lo, hi}
	}
	for k := 0; k < n; k++ {
		u := k
		if d.Shared == 2 {
			u = n - 1 - k
		}
		if d.NodeAttrs != nil {
			sh.node[u] = place(d.NodeAttrs[u], true)
		}
		if d.EdgeAttrs != nil {
			sh.edge[u] = make([][2]int, len(adj[u]))
			for e := range adj[u] {
				sh.edge[u][e] = place(d.EdgeAttrs[u][e], false)
			}
		}
	}
	sh.used = len(sh.all)
	sh.all = append(sh.all, graphout.DotAttr{Name: "spare0", Val: 0}, graphout.DotAttr{Name: "spare1", Val: 1})
	sh.pristine = append([]graphout.DotAttr(nil), sh.all...)
	return sh
}

func c18SameDotAttr(a, b graphout.DotAttr) bool {
	if a.Name != b.Name {
		return false
	}
	if x, ok := a.Val.(float64); ok {
		y, ok := b.Val.(float64)
		return ok && math.Float64bits(x) == math.Float64bits(y)
	}
	switch a.Val.(type) {
	case string, int, uint, graphout.DotLiteral:
		return a.Val == b.Val
	}
	return false
}

// verify compares the backing array with its state before the call:
// "violation" when an attribute list has lost or changed an element,
// "reordered" when lists were only permuted in place, "spare-written" when
// only the unused tail changed (neither of the latter two is judged).
func (sh *c18SharedAttrs) verify() (kind, msg string) {
	for _, r := range sh.regions {
		same := true
		for k := r[0]; k < r[1]; k++ {
			same = same && c18SameDotAttr(sh.all[k], sh.pristine[k])
		}
		if same {
			continue
		}
		used := make([]bool, r[1]-r[0])
		for k := r[0]; k < r[1]; k++ {
			found := false
			for q := r[0]; q < r[1]; q++ {
				if !used[q-r[0]] && c18SameDotAttr(sh.all[k], sh.pristine[q]) {
					used[q-r[0]] = true
					found = true
					break
				}
			}
			if !found {
				return "violation", fmt.Sprintf("the attribute lists returned by the callbacks are sub-slices of one array; after the call element %d of that array (part of the list at [%d:%d]) is %+v, it was %+v: the caller's attributes of another node or edge were overwritten", k, r[0], r[1], sh.all[k], sh.pristine[k])
			}
		}
		kind = "reordered"
	}
	if kind == "" {
		for k := sh.used; k < len(sh.all); k++ {
			if !c18SameDotAttr(sh.all[k], sh.pristine[k]) {
				kind = "spare-written"
			}
		}
	}
	return kind, ""
}

// c18StrMatch: a string must be written as a quoted string whose unescaped
// content is the string itself ("strings quoted so that unescaping restores
// them"). A bare word is not accepted for a string: whether a bare word is a
// legal dot ID depends on the word (node, edge, graph, digraph, subgraph and
// strict are reserved, case-insensitively), quoting never does.
func c18StrMatch(v ref.DotVal, s string) bool {
	return v.Quoted && v.Text == s
}

// c18DefaultLabelMatch: with Dot.Label == nil a node is labelled with its
// number; the numeral may be written quoted or as a bare numeral.
func c18DefaultLabelMatch(v ref.DotVal, u int) bool {
	return v.Text == strconv.Itoa(u)
}

var c18Reserved = map[string]bool{"node": true, "edge": true, "graph": true, "digraph": true, "subgraph": true, "strict": true}

// c18PlainWord: the string is a plain dot identifier, the kind a printer
// could be tempted to leave unquoted; reserved reports a dot keyword.
func c18PlainWord(s []byte) (plain, reserved bool) {
	if len(s) == 0 {
		return false, false
	}
	for i, c := range s {
		switch {
		case 'a' <= c && c <= 'z', 'A' <= c && c <= 'Z', c == '_':
		case '0' <= c && c <= '9' && i > 0:
		default:
			return false, false
		}
	}
	return true, c18Reserved[strings.ToLower(string(s))]
}

func c18AttrMatch(p ref.DotAttrP, a c18Attr) bool {
	if p.Name != a.Name {
		return false
	}
	switch a.K {
	case "s":
		return c18StrMatch(p.Val, string(a.S))
	case "d": // default label of node a.I
		return c18DefaultLabelMatch(p.Val, int(a.I))
	case "i":
		x, err := strconv.ParseInt(p.Val.Text, 10, 64)
		return !p.Val.Quoted && err == nil && x == a.I
	case "u":
		x, err := strconv.ParseUint(p.Val.Text, 10, 64)
		return !p.Val.Quoted && err == nil && x == a.U
	case "f":
		x, err := strconv.ParseFloat(p.Val.Text, 64)
		f := float64(a.F)
		return !p.Val.Quoted && err == nil && (x == f || (math.IsNaN(x) && math.IsNaN(f)))
	default:
		return !p.Val.Quoted && p.Val.Text == string(a.S)
	}
}

// c18AttrsMatch compares attribute lists as multisets.
func c18AttrsMatch(ps []ref.DotAttrP, as []c18Attr) bool {
	if len(ps) != len(as) {
		return false
	}
	used := make([]bool, len(ps))
	for _, a := range as {
		found := false
		for k, p := range ps {
			if !used[k] && c18AttrMatch(p, a) {
				used[k] = true
				found = true
				break
			}
		}
		if !found {
			return false
		}
	}
	return true
}

func c18NodeID(v ref.DotVal) (int, bool) {
	t := v.Text
	if len(t) < 2 || t[0] != 'n' || (t[1] == '0' && len(t) > 2) {
		return 0, false
	}
	x, err := strconv.ParseUint(t[1:], 10, 31)
	if err != nil || t[1] == '+' {
		return 0, false
	}
	return int(x), true
}

func c18Hostile(s []byte) bool { return strings.ContainsAny(string(s), "\"\\{}<>|\n") }

// dotSpec builds the Dot value of the case.
func (j *c18J) dotSpec() (spec graphout.Dot, sh *c18SharedAttrs) {
	d := j.c.Dot
	spec = graphout.Dot{Name: string(d.Name)}
	if d.Labels != nil {
		spec.Label = func(i int) string { return string(d.Labels[i]) }
	}
	if d.Shared != 0 && (d.NodeAttrs != nil || d.EdgeAttrs != nil) {
		sh = c18BuildShared(d, j.adj)
	}
	if d.NodeAttrs != nil {
		if sh != nil {
			spec.NodeAttrs = func(i int) []graphout.DotAttr { r := sh.node[i]; return sh.all[r[0]:r[1]] }
		} else {
			spec.NodeAttrs = func(i int) []graphout.DotAttr { return c18ConvAttrs(d.NodeAttrs[i]) }
		}
	}
	if d.EdgeAttrs != nil {
		if sh != nil {
			spec.EdgeAttrs = func(i, e int) []graphout.DotAttr { r := sh.edge[i][e]; return sh.all[r[0]:r[1]] }
		} else {
			spec.EdgeAttrs = func(i, e int) []graphout.DotAttr { return c18ConvAttrs(d.EdgeAttrs[i][e]) }
		}
	}
	return spec, sh
}

// c18RecWriter records what is written, chunk by chunk; with limit >= 0 it
// accepts limit bytes in total and fails every write that goes beyond.
type c18RecWriter struct {
	buf    []byte
	chunks int
	limit  int
	failed int // failing Write calls
}

var errC18Write = errors.New("c18: writer is full")

func (r *c18RecWriter) Write(p []byte) (int, error) {
	r.chunks++
	if r.limit >= 0 && len(r.buf)+len(p) > r.limit {
		k := r.limit - len(r.buf)
		r.buf = append(r.buf, p[:k]...)
		r.failed++
		return k, errC18Write
	}
	r.buf = append(r.buf, p...)
	return len(p), nil
}

func (j *c18J) dot() {
	w := j.w
	d := j.c.Dot
	hostile := c18Hostile(d.Name)
	litbn := strings.Contains(string(d.Name), `\n`)
	for _, l := range d.Labels {
		hostile = hostile || c18Hostile(l)
		litbn = litbn || strings.Contains(string(l), `\n`)
	}
	spec, sh := j.dotSpec()
	if sh != nil {
		w.Hit("dot-shared-attr-array")
		w.HitIf(sh.labelBeforeRegion, "dot-shared-label-append-before-next-region")
	}
	// strings a printer could be tempted to write without quotes
	plain, reserved := c18PlainWord(d.Name)
	for _, l := range d.Labels {
		p, r := c18PlainWord(l)
		plain, reserved = plain || p, reserved || r
	}
	for _, as := range d.NodeAttrs {
		for _, a := range as {
			if a.K == "s" {
				p, r := c18PlainWord(a.S)
				plain, reserved = plain || p, reserved || r
			}
		}
	}
	for _, es := range d.EdgeAttrs {
		for _, as := range es {
			for _, a := range as {
				if a.K == "s" {
					p, r := c18PlainWord(a.S)
					plain, reserved = plain || p, reserved || r
				}
			}
		}
	}
	w.HitIf(plain, "dot-string-is-plain-identifier")
	w.HitIf(reserved, "dot-string-is-reserved-word")
	w.HitIf(hostile, "dot-hostile-string")
	w.HitIf(litbn, "dot-literal-backslash-n")
	w.HitIf(d.Labels == nil, "dot-default-labels")
	w.HitIf(d.EdgeAttrs != nil && j.m > 0, "dot-edge-attrs")
	var text string
	if !j.call("Dot.Sprint", func() { text = spec.Sprint(j.G()) }) {
		return
	}
	if !j.dotCheck("Dot.Sprint", text, sh) {
		return
	}
	// the same through Fprint into a caller's writer: every chunk counts
	rec := &c18RecWriter{limit: -1}
	var err error
	if j.call("Dot.Fprint", func() { *rec = c18RecWriter{limit: -1}; err = spec.Fprint(rec, j.G()) }) {
		if err != nil {
			j.bad("dot-fprint", fmt.Sprintf("Dot.Fprint into a writer that accepts everything returned the error %v", err))
		} else if got := string(rec.buf); got == text {
			if sh != nil {
				j.dotShared("Dot.Fprint", got, sh)
			}
		} else {
			w.Note("dot-fprint-text-differs-from-sprint")
			j.dotCheck("Dot.Fprint", got, sh)
		}
	}
	if d.Fail != 0 {
		// a writer that fails after k bytes: the error must come back
		k := (d.Fail - 1) % (len(text) + 1)
		fw := &c18RecWriter{limit: k}
		w.Hit("dot-fprint-failing-writer")
		w.HitIf(k == 0, "dot-fprint-writer-fails-at-once")
		if j.call("Dot.Fprint(failing writer)", func() { *fw = c18RecWriter{limit: k}; err = spec.Fprint(fw, j.G()) }) {
			switch {
			case fw.failed > 0 && err == nil:
				j.bad("dot-fprint-error-dropped", fmt.Sprintf("Dot.Fprint into a writer that accepted %d bytes and then failed %d Write calls returned a nil error: the text is incomplete (%d of %d bytes) and the caller is not told", k, fw.failed, len(fw.buf), len(text)))
			case fw.failed == 0 && err != nil:
				j.bad("dot-fprint", fmt.Sprintf("Dot.Fprint returned the error %v, the writer did not fail (%d bytes, limit %d)", err, len(fw.buf), k))
			case fw.failed == 0 && string(fw.buf) != text && len(text) <= k:
				// it wrote no more than the limit without an error: must be a whole text
				j.dotCheck("Dot.Fprint(writer with a limit not reached)", string(fw.buf), sh)
			case err != nil && !errors.Is(err, errC18Write):
				w.Note("dot-fprint-returns-another-error-than-the-writers")
			}
		}
	}
}

// dotShared: the caller's attribute storage is input: the attribute lists of
// the other nodes and edges must still be there after the call.
func (j *c18J) dotShared(op, text string, sh *c18SharedAttrs) bool {
	if kind, msg := sh.verify(); kind == "violation" {
		t := text
		if len(t) > 600 {
			t = t[:600] + "..."
		}
		j.bad("dot-attr-alias", fmt.Sprintf("%s: %s; output %q", op, msg, t))
		return false
	} else if kind != "" {
		j.w.Note("dot-shared-array-" + kind)
	}
	return true
}

// dotCheck reads a Dot text back and compares it with the graph and the
// strings of the case. It reports whether the text was accepted.
func (j *c18J) dotCheck(op, text string, sh *c18SharedAttrs) bool {
	w := j.w
	d := j.c.Dot
	n := j.n
	okAll := true
	fail := func(kind, msg string) {
		t := text
		if len(t) > 600 {
			t = t[:600] + "..."
		}
		okAll = false
		j.bad(kind, fmt.Sprintf("%s: %s; output %q", op, msg, t))
	}
	if sh != nil && !j.dotShared(op, text, sh) {
		okAll = false
	}
	f, err := ref.DotParse(text)
	if err != nil {
		fail("dot-syntax", "output cannot be read back: "+err.Error())
		return false
	}
	if f.HasName {
		if !c18StrMatch(f.Name, string(d.Name)) {
			fail("dot-string", fmt.Sprintf("graph name reads back as %s, it is the string %q (a string must be written quoted)", c18ValStr(f.Name), d.Name))
		}
	} else if len(d.Name) != 0 {
		fail("dot-string", fmt.Sprintf("graph name %q is missing", d.Name))
	}
	nodeSeen := make([]int, n)
	edgesFrom := make([][]*ref.DotStmt, n)
	for si := range f.Stmts {
		st := &f.Stmts[si]
		u, ok := c18NodeID(st.From)
		if !ok || u >= n {
			fail("dot-nodes", fmt.Sprintf("statement names %q, which is no node of the graph (n=%d)", st.From.Text, n))
			return false
		}
		if st.IsEdge {
			edgesFrom[u] = append(edgesFrom[u], st)
			continue
		}
		nodeSeen[u]++
		if nodeSeen[u] > 1 {
			fail("dot-nodes", fmt.Sprintf("node %d is defined %d times", u, nodeSeen[u]))
			return false
		}
		var want []c18Attr
		haveLabel := false
		if d.NodeAttrs != nil {
			want = append(want, d.NodeAttrs[u]...)
			for _, a := range want {
				if a.Name == "label" {
					haveLabel = true
				}
			}
		}
		if haveLabel {
			w.Hit("dot-label-from-attrs")
		} else {
			if d.Labels != nil {
				want = append(want, c18Attr{Name: "label", K: "s", S: d.Labels[u]})
			} else {
				want = append(want, c18Attr{Name: "label", K: "d", I: int64(u)})
			}
		}
		if !c18AttrsMatch(st.Attrs, want) {
			fail("dot-string", fmt.Sprintf("node %d: attributes read back as %+v, expected %s", u, st.Attrs, c18AttrStr(want)))
			return false
		}
	}
	for u := 0; u < n; u++ {
		if nodeSeen[u] != 1 {
			fail("dot-nodes", fmt.Sprintf("node %d is defined %d times", u, nodeSeen[u]))
			return false
		}
		got := edgesFrom[u]
		if len(got) != len(j.adj[u]) {
			fail("dot-edges", fmt.Sprintf("node %d has %d out-edges, the text has %d", u, len(j.adj[u]), len(got)))
			return false
		}
		used := make([]bool, len(got))
		for e, t := range j.adj[u] {
			var want []c18Attr
			if d.EdgeAttrs != nil {
				want = d.EdgeAttrs[u][e]
			}
			found := false
			for k, st := range got {
				if used[k] {
					continue
				}
				if v, ok := c18NodeID(st.To); ok && v == t && c18AttrsMatch(st.Attrs, want) {
					used[k] = true
					found = true
					break
				}
			}
			if !found {
				fail("dot-edges", fmt.Sprintf("edge %d of node %d (to %d, attributes %s) is not in the text exactly once", e, u, t, c18AttrStr(want)))
				return false
			}
		}
	}
	return okAll
}

// c18JudgePrint: Dot.Print writes the same kind of text to os.Stdout. File
// descriptor 1 is pointed at a temporary file for the duration of the one
// call (the class runs serially, nothing else writes meanwhile), so the text
// is seen whichever way the library reaches standard output.
func c18JudgePrint(w *mon.W, c *c18Case) {
	if c.Dot == nil {
		return
	}
	j := c18NewJ(w, c, c.Adj, true)
	spec, sh := j.dotSpec()
	tmp, err := os.CreateTemp("", "c18-print-*")
	if err != nil {
		w.Note("dot-print-no-temp-file")
		return
	}
	defer os.Remove(tmp.Name())
	defer tmp.Close()
	saved, err := syscall.Dup(1)
	if err != nil {
		w.Note("dot-print-cannot-redirect")
		return
	}
	restored := false
	restore := func() {
		if !restored {
			syscall.Dup3(saved, 1, 0)
			syscall.Close(saved)
			restored = true
		}
	}
	defer restore()
	if err := syscall.Dup3(int(tmp.Fd()), 1, 0); err != nil {
		w.Note("dot-print-cannot-redirect")
		return
	}
	var perr error
	ok := j.call("Dot.Print", func() { perr = spec.Print(j.G()) })
	restore()
	w.Hit("dot-print-stdout")
	h := mon.NewHasher().S("print").I(j.n).I(c.Rep).I(c.Lay).S(string(c.Dot.Name))
	for _, l := range c.Adj {
		h = h.Is(l)
	}
	w.Distinct(h.Sum())
	if !ok {
		return
	}
	data, err := os.ReadFile(tmp.Name())
	if err != nil {
		w.Note("dot-print-cannot-read-back")
		return
	}
	w.HitIf(len(data) > 4096, "dot-print-text>4096-bytes")
	if perr != nil {
		j.bad("dot-print", fmt.Sprintf("Dot.Print returned the error %v writing to a regular file as standard output", perr))
		return
	}
	j.dotCheck("Dot.Print (standard output redirected to a file)", string(data), sh)
	if w.WantSample() {
		w.Sample(map[string]any{"kind": "print", "n": j.n, "edges": j.m, "bytes_on_stdout": len(data)})
	}
}

func c18ValStr(v ref.DotVal) string {
	if v.Quoted {
		return fmt.Sprintf("quoted %q", v.Text)
	}
	return fmt.Sprintf("bare word %s", v.Text)
}

func c18AttrStr(as []c18Attr) string {
	var b strings.Builder
	b.WriteString("[")
	for i, a := range as {
		if i > 0 {
			b.WriteString(" ")
		}
		switch a.K {
		case "s":
			fmt.Fprintf(&b, "%s=string %q", a.Name, a.S)
		case "d":
			fmt.Fprintf(&b, "%s=node number %d", a.Name, a.I)
		case "i":
			fmt.Fprintf(&b, "%s=int %d", a.Name, a.I)
		case "u":
			fmt.Fprintf(&b, "%s=uint %d", a.Name, a.U)
		case "f":
			fmt.Fprintf(&b, "%s=float64 %v", a.Name, float64(a.F))
		default:
			fmt.Fprintf(&b, "%s=literal %s", a.Name, a.S)
		}
	}
	b.WriteString("]")
	return b.String()
}

func c18JudgeDotString(w *mon.W, c *c18Case) {
	s := string(c.S)
	w.HitIf(c18Hostile(c.S), "dot-hostile-string")
	w.HitIf(strings.Contains(s, `\n`), "dot-literal-backslash-n")
	w.HitIf(strings.HasSuffix(s, `\`), "dotstring-trailing-backslash")
	w.Distinct(mon.NewHasher().S("dotstr").S(s).Sum())
	var got string
	w.Eval("DotString")
	if p, v := mon.Call(func() { got = graphout.DotString(s) }); p {
		w.Violate("panic-DotString", fmt.Sprintf("DotString(%q) panicked: %v", s, v), c)
		return
	}
	back, err := ref.DotReadQuoted(got)
	if err != nil {
		w.Violate("dot-string", fmt.Sprintf("DotString(%q)=%s is not one quoted string: %v", s, got, err), c)
		return
	}
	if back != s {
		w.Violate("dot-string", fmt.Sprintf("DotString(%q)=%s unescapes to %q", s, got, back), c)
	}
	if w.WantSample() && len(s) > 3 {
		w.Sample(map[string]any{"kind": "dotstr", "in": s, "out": got})
	}
}

// ---- NodeMarks: lock-step against a sorted-slice/map set model -----------

const (
	c18Mark = iota
	c18Unmark
	c18Test
	c18Next
	c18Iter
)

func c18JudgeMarks(w *mon.W, c *c18Case) {
	var m *graphalg.NodeMarks
	start := "NewNodeMarks()"
	if c.Zero {
		// the type is exported and its zero value is an empty set
		m = new(graphalg.NodeMarks)
		start = "the zero value (var m NodeMarks)"
		w.Hit("marks-zero-value-start")
	} else {
		w.Eval("NewNodeMarks")
		if p, v := mon.Call(func() { m = graphalg.NewNodeMarks() }); p || m == nil {
			w.Violate("panic", fmt.Sprintf("NewNodeMarks panicked or returned nil: %v", v), c)
			return
		}
	}
	set := map[int]bool{}
	var sorted []int
	maxEver := -1
	nextModel := func(i int) int {
		lo := i + 1
		if i < 0 {
			lo = 0
		}
		k := sort.SearchInts(sorted, lo)
		if k < len(sorted) {
			return sorted[k]
		}
		return -1
	}
	var cur string // the call in flight, for panic reports
	var problem string
	test := func(i int) bool {
		cur = fmt.Sprintf("Test(%d)", i)
		got := m.Test(i)
		if got != set[i] {
			problem = fmt.Sprintf("Test(%d)=%v, the set %s", i, got, map[bool]string{true: "contains it", false: "does not contain it"}[set[i]])
			return false
		}
		return true
	}
	next := func(i int) bool {
		cur = fmt.Sprintf("Next(%d)", i)
		got := m.Next(i)
		if want := nextModel(i); got != want {
			problem = fmt.Sprintf("Next(%d)=%d, the next element after %d is %d", i, got, i, want)
			return false
		}
		return true
	}
	var nTest, nNext int64
	probes := func(x int) bool {
		// around the id just touched
		for d := -2; d <= 2; d++ {
			nTest++
			nNext++
			if !test(x+d) || !next(x+d) {
				return false
			}
		}
		for _, y := range []int{x - 32, x + 32, x - 33, x + 31} {
			nTest++
			if !test(y) {
				return false
			}
		}
		// every element (strided above 96) must still be there and be chained
		stride := 1 + len(sorted)/96
		for k := 0; k < len(sorted); k += stride {
			el := sorted[k]
			nTest++
			nNext += 2
			if !test(el) || !next(el-1) || !next(el) {
				return false
			}
		}
		top := -1
		if len(sorted) > 0 {
			top = sorted[len(sorted)-1]
		}
		if top <= 300 {
			for i := -3; i <= top+40; i++ {
				nTest++
				nNext++
				if !test(i) || !next(i) {
					return false
				}
			}
		} else {
			for i := -3; i <= 3; i++ {
				nNext++
				if !next(i) {
					return false
				}
			}
			for i := top - 1; i <= top+40; i++ {
				nTest++
				nNext++
				if !test(i) || !next(i) {
					return false
				}
			}
			// storage boundaries: words and powers of two up to beyond the top
			for b := 32; b <= 2*(maxEver+64); b <<= 1 {
				for d := -2; d <= 1; d++ {
					nTest++
					nNext++
					if !test(b+d) || !next(b+d) {
						return false
					}
				}
			}
		}
		return true
	}
	hash := mon.NewHasher().S("marks").B(c.Zero)
	for step, op := range c.Ops {
		i := op[1]
		hash = hash.I(op[0]).I(i)
		problem = ""
		panicked, pv := mon.Call(func() {
			switch op[0] {
			case c18Mark:
				w.HitIf(i >= 1024, "mark-id>=1024")
				w.HitIf(i >= 1024 && maxEver >= 0 && i/32 >= 2*(maxEver/32+1), "mark-jump-over-growth-step")
				w.HitIf(c.Zero && maxEver < 0, "zero-value-first-mark")
				w.HitIf(c.Zero && i > maxEver && i > 0 && i < 1024 && i%32 == 0 && (i/32)&(i/32-1) == 0, "zero-value-mark-at-power-of-two-word")
				cur = fmt.Sprintf("Mark(%d)", i)
				w.Eval("NodeMarks.Mark")
				m.Mark(i)
				if !set[i] {
					set[i] = true
					k := sort.SearchInts(sorted, i)
					sorted = append(sorted, 0)
					copy(sorted[k+1:], sorted[k:])
					sorted[k] = i
				}
				if i > maxEver {
					maxEver = i
				}
				probes(i)
			case c18Unmark:
				w.HitIf(i >= 4*(maxEver+1024), "unmark-beyond-capacity")
				w.HitIf(set[i], "unmark-present")
				cur = fmt.Sprintf("Unmark(%d)", i)
				w.Eval("NodeMarks.Unmark")
				m.Unmark(i)
				if set[i] {
					delete(set, i)
					k := sort.SearchInts(sorted, i)
					sorted = append(sorted[:k], sorted[k+1:]...)
				}
				probes(i)
			case c18Test:
				w.HitIf(i < 0, "test-negative")
				nTest++
				test(i)
			case c18Next:
				w.HitIf(i < -1, "next-below-minus-one")
				nNext++
				next(i)
			case c18Iter:
				// the documented loop must enumerate the set in order
				k := 0
				cur = "Next(-1)"
				for x := m.Next(-1); x >= 0; {
					nNext++
					if k >= len(sorted) || sorted[k] != x {
						problem = fmt.Sprintf("iteration with Next yields %d as element #%d; the set is %s", x, k, c18Short(sorted, nil))
						return
					}
					k++
					cur = fmt.Sprintf("Next(%d)", x)
					x = m.Next(x)
				}
				if k != len(sorted) {
					problem = fmt.Sprintf("iteration with Next stops after %d elements; the set has %d: %s", k, len(sorted), c18Short(sorted, nil))
				}
			}
		})
		if panicked || problem != "" {
			cc := *c
			cc.Ops = c.Ops[:step+1]
			hist := fmt.Sprint(cc.Ops)
			if len(hist) > 300 {
				hist = "..." + hist[len(hist)-300:]
			}
			if panicked {
				w.Violate("panic-NodeMarks", fmt.Sprintf("NodeMarks.%s panicked: %v; history from %s, {op,id} (0 Mark,1 Unmark,2 Test,3 Next,4 iterate) %s", cur, pv, start, hist), &cc)
			} else {
				w.Violate("marks", fmt.Sprintf("NodeMarks: %s; history from %s, {op,id} (0 Mark,1 Unmark,2 Test,3 Next,4 iterate) %s", problem, start, hist), &cc)
			}
			break
		}
	}
	w.EvalN("NodeMarks.Test", nTest)
	w.EvalN("NodeMarks.Next", nNext)
	w.Hit("marks-history")
	w.Distinct(hash.Sum())
	if w.WantSample() {
		k := len(c.Ops)
		if k > 12 {
			k = 12
		}
		w.Sample(map[string]any{"kind": "marks", "zero_value_start": c.Zero, "ops": len(c.Ops), "first_ops": c.Ops[:k], "final_set_size": len(sorted), "max_id": maxEver})
	}
}

// ---- generators ------------------------------------------------------------

var c18Shapes = []string{"path", "rpath", "cycle", "bintree", "layered", "broom", "permpath", "twoway", "sccchain", "halfunreach"}

// c18Shape builds a structured graph deterministically from (shape, n, param).
func c18Shape(shape string, n int, param uint64) (adj [][]int, root int) {
	adj = make([][]int, n)
	rng := mon.NewRand(param, mon.HashStr(shape), uint64(n))
	switch shape {
	case "path":
		for i := 0; i+1 < n; i++ {
			adj[i] = []int{i + 1}
		}
	case "rpath": // the first node marked has the largest id
		for i := 1; i < n; i++ {
			adj[i] = []int{i - 1}
		}
		root = n - 1
	case "cycle":
		for i := 0; i < n; i++ {
			adj[i] = []int{(i + 1) % n}
		}
		root = int(param % uint64(n))
	case "bintree":
		for i := 0; i < n; i++ {
			for _, c := range []int{2*i + 1, 2*i + 2} {
				if c < n {
					adj[i] = append(adj[i], c)
				}
			}
		}
	case "layered": // DAG: layers of width ~sqrt(n), 1-3 edges into the next layer, the root feeds layer 0
		wd := int(math.Sqrt(float64(n))) + 1
		for i := 1; i < n; i++ {
			lo := 1 + ((i-1)/wd+1)*wd
			if lo >= n {
				continue
			}
			hi := lo + wd
			if hi > n {
				hi = n
			}
			for k := 1 + rng.Intn(3); k > 0; k-- {
				adj[i] = append(adj[i], lo+rng.Intn(hi-lo))
			}
		}
		for i := 1; i <= wd && i < n; i++ {
			adj[0] = append(adj[0], i)
		}
	case "broom":
		h := n / 2
		for i := 0; i+1 < h; i++ {
			adj[i] = []int{i + 1}
		}
		if h > 0 {
			for i := n - 1; i >= h; i-- { // bristles in descending id order
				adj[h-1] = append(adj[h-1], i)
			}
		}
	case "permpath": // a path through the ids in a scrambled order
		p := rng.Perm(n)
		for i := 0; i+1 < n; i++ {
			adj[p[i]] = []int{p[i+1]}
		}
		root = p[0]
	case "twoway": // one big component, parallel forward edges, deep recursion
		for i := 0; i < n; i++ {
			if i+1 < n {
				adj[i] = append(adj[i], i+1, i+1)
			}
			if i > 0 {
				adj[i] = append(adj[i], i-1)
			}
		}
		root = int(param % uint64(n))
	case "sccchain": // 3-cycles chained by two parallel cross edges and one skip edge
		for i := 0; i < n; i++ {
			b := i - i%3
			sz := 3
			if b+3 > n {
				sz = n - b
			}
			adj[i] = append(adj[i], b+(i-b+1)%sz)
			if i%3 == 0 && b+3 < n {
				adj[i] = append(adj[i], b+3, b+3)
			}
			if i%3 == 1 && b+7 < n {
				adj[i] = append(adj[i], b+7)
			}
		}
	case "halfunreach": // a path on the first half; the second half only points into it
		h := n / 2
		for i := 0; i+1 < h; i++ {
			adj[i] = []int{i + 1}
		}
		for i := h; i < n; i++ {
			adj[i] = []int{rng.Intn(h + 1), i}
			if adj[i][0] >= h {
				adj[i][0] = 0
			}
		}
	case "randmulti":
		// random multigraph of any size: parallel edges to an earlier successor
		// of the same node (with other successors in between), self-loops,
		// local and far targets, nodes without edges
		prof := rng.Intn(4) // 0 sparse, 1 medium, 2 dense (smaller graphs), 3 local (large components, deep recursion)
		if prof == 2 && n > 20000 {
			prof = 1
		}
		for u := range adj {
			var d int
			switch prof {
			case 0:
				d = rng.PickI(0, 1, 1, 1, 2, 3, 4)
			case 2:
				d = rng.Range(4, 24)
			default:
				d = rng.Intn(9)
			}
			l := make([]int, 0, d)
			for k := 0; k < d; k++ {
				var v int
				switch {
				case len(l) > 0 && rng.Intn(3) == 0:
					v = l[rng.Intn(len(l))]
				case rng.Intn(12) == 0:
					v = u
				case prof == 3 || rng.Intn(4) == 0:
					v = u + rng.Range(-8, 8)
					if v < 0 || v >= n {
						v = rng.Intn(n)
					}
				default:
					v = rng.Intn(n)
				}
				l = append(l, v)
			}
			adj[u] = l
		}
		root = rng.Intn(n)
	case "hubmulti":
		// a sparse random graph with one to three hubs whose adjacency lists
		// have about n/2..2n edges (at most 60000) over a range of targets, each
		// target repeated 1..16 times on average at scattered positions
		for u := range adj {
			for k := rng.PickI(0, 1, 1, 2); k > 0; k-- {
				adj[u] = append(adj[u], rng.Intn(n))
			}
		}
		root = rng.Intn(n)
		for h := 1 + rng.Intn(3); h > 0; h-- {
			u := rng.PickI(0, n-1, root, rng.Intn(n), rng.Intn(n))
			d := rng.Range(n/2+1, 2*n)
			if d > 60000 {
				d = rng.Range(30000, 60000)
			}
			span := d / rng.PickI(1, 2, 4, 16)
			if span < 1 {
				span = 1
			}
			if span > n {
				span = n
			}
			// (the library's per-node clearing of a map that has once held
			// `span` keys costs O(span) for every later node: keep
			// span * (nodes after the hub) moderate by moving a wide hub
			// towards the end)
			if after := 30000000 / span; n-1-u > after {
				u = n - 1 - rng.Intn(after+1)
			}
			lo := rng.Intn(n - span + 1)
			l := append(make([]int, 0, len(adj[u])+d), adj[u]...)
			for k := 0; k < d; k++ {
				l = append(l, lo+rng.Intn(span))
			}
			adj[u] = l
		}
	default:
		panic("unknown shape " + shape)
	}
	return adj, root
}

// c18MultiShapes: the generated random multigraphs of the large-multigraphs
// class (see c18Shape).
var c18MultiShapes = []string{"randmulti", "hubmulti"}

// c18SeedWeights draws the edge weights of a generated graph from a seed: all
// small dyadic (sums exact in every order), all decimal fractions and wide
// magnitudes (sums judged with the rounding allowance), or one of the two per
// node.
func c18SeedWeights(adj [][]int, seed uint64) [][]float64 {
	rng := mon.NewRand(seed, mon.HashStr("c18-weights"), uint64(len(adj)))
	mode := rng.Intn(3)
	wt := make([][]float64, len(adj))
	for u, l := range adj {
		wt[u] = make([]float64, len(l))
		m := mode
		if m == 2 {
			m = rng.Intn(2)
		}
		for k := range l {
			var x float64
			if m == 0 {
				x = float64(rng.Range(-128, 128)) / 8
			} else {
				x = rng.Pick(0.1, 0.2, 0.3, 1.0/3, 0.7, 1e-3, math.Pi, 1<<24+1, 1e9+0.5, float64(rng.Intn(1000))/10, rng.Float64(), rng.LogUniform(1e-30, 1e30))
				if rng.Intn(6) == 0 {
					x = -x
				}
			}
			wt[u][k] = x
		}
	}
	return wt
}

// c18MultiClasses records the input-side classes of a large multigraph.
func c18MultiClasses(w *mon.W, adj [][]int) {
	n, m, maxDeg, maxDistinct := len(adj), 0, 0, 0
	gap, loops := false, false
	targets := map[int]bool{}
	for u, l := range adj {
		m += len(l)
		if len(l) > maxDeg {
			maxDeg = len(l)
		}
		last := make(map[int]int, len(l))
		for k, v := range l {
			if p, ok := last[v]; ok && p < k-1 {
				gap = true
			}
			last[v] = k
			if v == u {
				loops = true
			}
			targets[v] = true
		}
		if len(last) > maxDistinct {
			maxDistinct = len(last)
		}
	}
	w.HitIf(gap, "large-multigraph-parallel-edges-with-other-successors-between")
	w.HitIf(loops, "large-multigraph-self-loops")
	w.HitIf(n >= 10000, "large-multigraph-nodes>=10000")
	w.HitIf(n >= 50000, "large-multigraph-nodes>=50000")
	w.HitIf(m >= 50000, "large-multigraph-edges>=50000")
	w.HitIf(m >= 200000, "large-multigraph-edges>=200000")
	w.HitIf(len(targets) >= 10000, "large-multigraph-distinct-targets>=10000")
	w.HitIf(maxDeg >= 1024, "large-multigraph-list>=1024-edges")
	w.HitIf(maxDeg >= 20000, "large-multigraph-list>=20000-edges")
	w.HitIf(maxDistinct >= 5000, "large-multigraph-list>=5000-distinct-successors")
}

var c18Pieces = []string{`"`, `\`, `{`, `}`, `<`, `>`, `|`, "\n", `\n`, `\"`, `\\`, "é", "日本", "😀", " ", "\t", "\r", ";", ",", "]", "[", "=", "->", "a", "Z", "0", "n1", "\x00", "\xff", "\xc3", "%d", "%s", "%!", "//", "/*", "#", "label", "digraph", "\\\n"}

func c18HostileStr(rng *mon.Rand) []byte {
	if rng.Intn(5) == 0 {
		return []byte([]string{"", "x", "node", "a b", "main.f", "3.5", "graph", "Edge", "strict", "subgraph", "DiGraph", "_x1", "node"}[rng.Intn(13)])
	}
	var b []byte
	for k := rng.Intn(8); k >= 0; k-- {
		b = append(b, c18Pieces[rng.Intn(len(c18Pieces))]...)
	}
	return b
}

var c18AttrNames = []string{"color", "shape", "weight", "xlabel", "penwidth", "style", "tooltip", "a_b"}
var c18Literals = []string{"red", "box", "1.5", "true", "filled", "n0", "x1"}

func c18RandAttr(rng *mon.Rand) c18Attr {
	a := c18Attr{Name: c18AttrNames[rng.Intn(len(c18AttrNames))]}
	switch k := rng.Intn(20); {
	case k < 10:
		a.K, a.S = "s", c18HostileStr(rng)
	case k < 13:
		a.K = "i"
		a.I = []int64{0, 1, -1, 42, -7, math.MaxInt64, math.MinInt64, int64(rng.Intn(100000)) - 50000}[rng.Intn(8)]
	case k < 15:
		a.K = "u"
		a.U = []uint64{0, 1, 7, math.MaxUint64, 1 << 63, uint64(rng.Intn(100000))}[rng.Intn(6)]
	case k < 18:
		a.K = "f"
		a.F = mon.F([]float64{0, math.Copysign(0, -1), 0.1, -2.5, 1e21, 1e-7, 123456789, math.NaN(), math.Inf(1), math.Inf(-1), math.MaxFloat64, 5e-324, rng.Norm()}[rng.Intn(13)])
	default:
		a.K, a.S = "l", []byte(c18Literals[rng.Intn(len(c18Literals))])
	}
	return a
}

func c18RandAttrs(rng *mon.Rand, max int, label bool) []c18Attr {
	k := rng.Intn(max + 1)
	var as []c18Attr
	for ; k > 0; k-- {
		as = append(as, c18RandAttr(rng))
	}
	if label && rng.Intn(3) == 0 {
		a := c18RandAttr(rng)
		a.Name = "label"
		pos := rng.Intn(len(as) + 1)
		as = append(as, c18Attr{})
		copy(as[pos+1:], as[pos:])
		as[pos] = a
	}
	return as
}

func c18RandDot(rng *mon.Rand, adj [][]int) *c18Dot {
	d := &c18Dot{Name: []byte{}}
	if rng.Bool() {
		d.Name = c18HostileStr(rng)
	}
	n := len(adj)
	if rng.Intn(10) >= 3 {
		d.Labels = make([][]byte, n)
		for i := range d.Labels {
			d.Labels[i] = c18HostileStr(rng)
		}
	}
	if rng.Intn(10) >= 4 {
		d.NodeAttrs = make([][]c18Attr, n)
		for i := range d.NodeAttrs {
			d.NodeAttrs[i] = c18RandAttrs(rng, 3, true)
		}
	}
	if rng.Intn(10) >= 4 {
		d.EdgeAttrs = make([][][]c18Attr, n)
		for i := range d.EdgeAttrs {
			d.EdgeAttrs[i] = make([][]c18Attr, len(adj[i]))
			for e := range adj[i] {
				d.EdgeAttrs[i][e] = c18RandAttrs(rng, 2, true)
			}
		}
	}
	if rng.Intn(3) == 0 {
		d.Shared = 1 + rng.Intn(3)/2
	}
	return d
}

func c18ShuffleEdges(rng *mon.Rand, es [][2]int) {
	for i := len(es) - 1; i > 0; i-- {
		k := rng.Intn(i + 1)
		es[i], es[k] = es[k], es[i]
	}
}

func c18RandSub(rng *mon.Rand, adj [][]int) *c18Sub {
	n := len(adj)
	s := &c18Sub{KeepNodes: []int{}, KeepEdges: [][2]int{}, RmNodes: []int{}, RmEdges: [][2]int{}}
	ps := []float64{0, 0.3, 0.6, 0.85, 1}
	p := ps[rng.Intn(5)]
	kept := make([]bool, n)
	for u := 0; u < n; u++ {
		if rng.Float64() < p {
			kept[u] = true
			s.KeepNodes = append(s.KeepNodes, u)
		}
	}
	if rng.Intn(10) < 7 {
		rng.ShuffleI(s.KeepNodes)
	}
	q := ps[1+rng.Intn(4)]
	for u, l := range adj {
		for k, v := range l {
			if kept[u] && kept[v] && rng.Float64() < q {
				s.KeepEdges = append(s.KeepEdges, [2]int{u, k})
			}
		}
	}
	if rng.Intn(10) < 7 {
		c18ShuffleEdges(rng, s.KeepEdges)
	}
	p = ps[rng.Intn(4)]
	for u := 0; u < n; u++ {
		if rng.Float64() < p {
			s.RmNodes = append(s.RmNodes, u)
		}
	}
	// removal is by set: naming a node or an edge more than once (e.g. the
	// concatenation of two overlapping lists) changes nothing
	if len(s.RmNodes) > 0 && rng.Intn(3) == 0 {
		for k := 1 + rng.Intn(3); k > 0; k-- {
			s.RmNodes = append(s.RmNodes, s.RmNodes[rng.Intn(len(s.RmNodes))])
		}
	}
	rng.ShuffleI(s.RmNodes)
	q = ps[rng.Intn(4)]
	for u, l := range adj {
		for k := range l {
			if rng.Float64() < q {
				s.RmEdges = append(s.RmEdges, [2]int{u, k})
			}
		}
	}
	if len(s.RmEdges) > 0 && rng.Intn(3) == 0 {
		for k := 1 + rng.Intn(3); k > 0; k-- {
			s.RmEdges = append(s.RmEdges, s.RmEdges[rng.Intn(len(s.RmEdges))])
		}
	}
	c18ShuffleEdges(rng, s.RmEdges)
	if rng.Intn(3) == 0 {
		s.Nest = c18RandNest(rng, adj, s)
	}
	return s
}

// c18RandNest draws a second subgraph step for the result of one of the two
// first steps of s, named in the identifiers of adj.
func c18RandNest(rng *mon.Rand, adj [][]int, s *c18Sub) *c18Nest {
	ns := &c18Nest{First: rng.Intn(2), Nodes: []int{}, Edges: [][2]int{}, Nil: rng.Bool()}
	// what survives step 1
	var nodes []int
	var edges [][2]int
	if ns.First == 0 {
		nodes = append(nodes, s.KeepNodes...)
		edges = append(edges, s.KeepEdges...)
	} else {
		kept, _, want, _ := c18SubRemoveWant(adj, s.RmNodes, s.RmEdges)
		for u, l := range adj {
			if kept[u] {
				nodes = append(nodes, u)
			}
			for k := range l {
				if want[[2]int{u, k}] {
					edges = append(edges, [2]int{u, k})
				}
			}
		}
	}
	switch mode := rng.Intn(5); mode {
	case 0, 1: // remove nothing: the result is the first subgraph again, as a subgraph of it
		ns.Op = 1
	case 2: // remove a part
		ns.Op = 1
		p, q := rng.Pick(0, 0.1, 0.3, 0.6), rng.Pick(0, 0.2, 0.5)
		for _, u := range nodes {
			if rng.Float64() < p {
				ns.Nodes = append(ns.Nodes, u)
			}
		}
		for _, e := range edges {
			if rng.Float64() < q {
				ns.Edges = append(ns.Edges, e)
			}
		}
		if len(ns.Nodes) > 0 && rng.Intn(3) == 0 {
			ns.Nodes = append(ns.Nodes, ns.Nodes[rng.Intn(len(ns.Nodes))])
		}
		rng.ShuffleI(ns.Nodes)
		c18ShuffleEdges(rng, ns.Edges)
	default: // keep a part (3) or everything (4)
		ns.Op = 0
		p, q := 1.0, 1.0
		if mode == 3 {
			p, q = rng.Pick(0.3, 0.6, 0.9), rng.Pick(0.5, 1)
		}
		in := map[int]bool{}
		for _, u := range nodes {
			if rng.Float64() < p {
				ns.Nodes = append(ns.Nodes, u)
				in[u] = true
			}
		}
		if rng.Intn(10) < 7 {
			rng.ShuffleI(ns.Nodes)
		}
		for _, e := range edges {
			if in[e[0]] && in[adj[e[0]][e[1]]] && rng.Float64() < q {
				ns.Edges = append(ns.Edges, e)
			}
		}
		if rng.Bool() {
			c18ShuffleEdges(rng, ns.Edges)
		}
	}
	return ns
}

// c18EqPartners derives graphs to compare with adj: a reshuffled copy, a
// copy with one small change, and sometimes an identical copy.
func c18EqPartners(rng *mon.Rand, adj [][]int) [][][]int {
	n := len(adj)
	shuf := c18CloneAdj(adj)
	for _, l := range shuf {
		rng.ShuffleI(l)
	}
	out := [][][]int{shuf}
	mut := c18CloneAdj(adj)
	var nonEmpty, multi []int // nodes with edges / with a repeated target and another target
	for u, l := range mut {
		if len(l) > 0 {
			nonEmpty = append(nonEmpty, u)
		}
		if len(l) >= 3 {
			rep, other := false, false
			for k, v := range l {
				if c18Has(l[:k], v) {
					rep = true
				}
				if v != l[0] {
					other = true
				}
			}
			if rep && other {
				multi = append(multi, u)
			}
		}
	}
	kind := rng.Intn(6)
	switch {
	case kind == 0 && len(multi) > 0: // same set of successors, different multiplicities
		u := multi[rng.Intn(len(multi))]
		l := mut[u]
		for k, v := range l {
			if c18Has(l[:k], v) { // v is repeated: turn this occurrence into another present value
				for _, x := range l {
					if x != v {
						l[k] = x
						break
					}
				}
				break
			}
		}
	case kind <= 2 && len(nonEmpty) > 0 && n > 1: // retarget one edge
		u := nonEmpty[rng.Intn(len(nonEmpty))]
		k := rng.Intn(len(mut[u]))
		mut[u][k] = (mut[u][k] + 1 + rng.Intn(n-1)) % n
	case kind == 3 && len(nonEmpty) > 0 && n > 1: // move an edge to another node
		u := nonEmpty[rng.Intn(len(nonEmpty))]
		v := (u + 1 + rng.Intn(n-1)) % n
		k := rng.Intn(len(mut[u]))
		mut[v] = append(mut[v], mut[u][k])
		mut[u] = append(mut[u][:k], mut[u][k+1:]...)
	case kind == 4: // one more node
		mut = append(mut, []int{})
	default: // one more edge
		if n > 0 {
			u := rng.Intn(n)
			mut[u] = append(mut[u], rng.Intn(n))
		}
	}
	if rng.Bool() {
		for _, l := range mut {
			rng.ShuffleI(l)
		}
	}
	out = append(out, mut)
	if rng.Intn(4) == 0 {
		out = append(out, c18CloneAdj(adj))
	}
	if rng.Bool() {
		if hard := c18EqHard(rng, adj, rng.Intn(5)); hard != nil {
			out = append(out, hard)
		}
	}
	return out
}

// c18EqHard derives an unequal partner that agrees with adj in everything a
// cheap summary of a list sees: two compensating edits in one list (same
// length and sum), two entries xor-ed with the same bit (same xor), entries
// exchanged between the lists of two nodes or two whole lists exchanged (the
// same targets overall), one target moved by a multiple of 64 (same residues).
// kind is where the search starts; nil when the graph admits none.
func c18EqHard(rng *mon.Rand, adj [][]int, kind int) [][]int {
	n := len(adj)
	var two, nonEmpty []int
	for u, l := range adj {
		if len(l) >= 2 {
			two = append(two, u)
		}
		if len(l) >= 1 {
			nonEmpty = append(nonEmpty, u)
		}
	}
	for try := 0; try < 5; try++ {
		mut := c18CloneAdj(adj)
		done := false
		switch (kind + try) % 5 {
		case 0: // l[a]+d, l[b]-d
			for t := 0; t < 8 && !done && len(two) > 0; t++ {
				l := mut[two[rng.Intn(len(two))]]
				a := rng.Intn(len(l))
				b := (a + 1 + rng.Intn(len(l)-1)) % len(l)
				d := 1 + rng.Intn(3)
				if rng.Intn(4) == 0 {
					d = 1 + rng.Intn(n)
				}
				if l[a]+d < n && l[b]-d >= 0 && l[a]+d != l[b] {
					l[a], l[b] = l[a]+d, l[b]-d
					done = true
				}
			}
		case 1: // l[a]^d, l[b]^d
			for t := 0; t < 8 && !done && len(two) > 0; t++ {
				l := mut[two[rng.Intn(len(two))]]
				a := rng.Intn(len(l))
				b := (a + 1 + rng.Intn(len(l)-1)) % len(l)
				d := 1 << uint(rng.Intn(17))
				if d >= n {
					d = 1 << uint(rng.Intn(3))
				}
				if l[a]^d < n && l[b]^d < n && l[a]^d != l[b] {
					l[a], l[b] = l[a]^d, l[b]^d
					done = true
				}
			}
		case 2: // exchange one entry between two nodes
			for t := 0; t < 8 && !done && len(nonEmpty) > 1; t++ {
				i := rng.Intn(len(nonEmpty))
				u, v := nonEmpty[i], nonEmpty[(i+1+rng.Intn(len(nonEmpty)-1))%len(nonEmpty)]
				a, b := rng.Intn(len(mut[u])), rng.Intn(len(mut[v]))
				if mut[u][a] != mut[v][b] {
					mut[u][a], mut[v][b] = mut[v][b], mut[u][a]
					done = true
				}
			}
		case 3: // exchange the lists of two nodes
			for t := 0; t < 8 && !done && len(nonEmpty) > 1; t++ {
				i := rng.Intn(len(nonEmpty))
				u, v := nonEmpty[i], nonEmpty[(i+1+rng.Intn(len(nonEmpty)-1))%len(nonEmpty)]
				if len(mut[u]) == len(mut[v]) && !ref.GSameMultiset(mut[u], mut[v]) {
					mut[u], mut[v] = mut[v], mut[u]
					done = true
				}
			}
		default: // one target moved by a multiple of 64
			for t := 0; t < 8 && !done && len(nonEmpty) > 0 && n > 64; t++ {
				l := mut[nonEmpty[rng.Intn(len(nonEmpty))]]
				a := rng.Intn(len(l))
				d := rng.PickI(64, -64, 64, -64, 128, -128, 1024, -1024, 65536, -65536, 64*(1+rng.Intn(n/64)), -64*(1+rng.Intn(n/64)))
				if l[a]+d >= 0 && l[a]+d < n {
					l[a] += d
					done = true
				}
			}
		}
		if done {
			if rng.Bool() {
				for _, l := range mut {
					rng.ShuffleI(l)
				}
			}
			return mut
		}
	}
	return nil
}

// c18Colliding are pairs of lists of the same length that differ as
// multisets but agree in sum (all), in xor ({1,2}/{0,3}: also the sum), in
// sum and sum of squares (the three-element pairs), or in the set of values
// while the multiplicities differ.
var c18Colliding = [][2][]int{
	{{0, 2}, {1, 1}}, {{0, 3}, {1, 2}}, {{1, 2}, {0, 3}}, {{0, 4, 5}, {1, 2, 6}}, {{1, 6, 8}, {2, 4, 9}},
	{{0, 0, 1}, {0, 1, 1}}, {{0, 1, 1, 1}, {0, 0, 0, 1}}, {{0, 5, 6, 11}, {1, 3, 8, 10}}, {{0, 7}, {3, 4}}, {{2, 2, 2}, {1, 2, 3}},
	{{0, 1, 2, 3}, {0, 0, 3, 3}}, {{5, 6}, {4, 7}},
}

// c18CraftedPair builds a graph and an unequal partner that differ in the
// list of one node only, there by a colliding pair of sub-lists or by
// targets moved by multiples of 64.
func c18CraftedPair(rng *mon.Rand) (adj, adj2 [][]int) {
	var n int
	switch rng.Intn(8) {
	case 0, 1:
		n = rng.Range(3, 16)
	case 2, 6:
		n = rng.Range(17, 63)
	case 3, 4:
		n = rng.PickI(64, 65, 66, 67, 68, 70, 96, 127, 128, 129, 130, 131, 160, 192, 193, 200, 255, 256, 257, 300)
	case 5:
		n = rng.Range(61, 999)
	default:
		n = rng.PickI(1025, 1026, 1030, 1089, 1100, 1500, 2048, 2049, 2100)
	}
	adj = make([][]int, n)
	lim := n
	if rng.Intn(3) == 0 && n > 64 {
		lim = 64 // base targets below 64: only the crafted entries are large
	}
	for u := range adj {
		adj[u] = []int{}
		for k := rng.PickI(0, 0, 1, 1, 2, 3); k > 0; k-- {
			adj[u] = append(adj[u], rng.Intn(lim))
		}
	}
	adj2 = c18CloneAdj(adj)
	u := rng.Intn(n)
	if rng.Intn(3) == 0 {
		adj[u], adj2[u] = []int{}, []int{}
	}
	var x, y []int
	if n > 64 && rng.Intn(5) < 3 {
		// the same residues mod 64 (and mod 128, ...): k distinct small targets,
		// some of them moved up by a multiple of 64 in the partner
		k := rng.Range(1, 4)
		step := rng.PickI(64, 64, 128, 1024, 64*(1+rng.Intn(n/64)))
		for len(x) < k {
			t := rng.Intn(64)
			if !c18Has(x, t) {
				x = append(x, t)
			}
		}
		moved := false
		for i, t := range x {
			y = append(y, t)
			if (rng.Bool() || (!moved && i == k-1)) && t+step < n {
				y[i] = t + step
				moved = true
			}
		}
		if !moved {
			x[0] = rng.Intn(n - 64)
			y[0] = x[0] + 64
		}
		if rng.Bool() {
			x, y = y, x
		}
	} else {
		pr := c18Colliding[rng.Intn(len(c18Colliding))]
		if n <= 11 {
			for pr[0][len(pr[0])-1] >= n || pr[1][len(pr[1])-1] >= n {
				pr = c18Colliding[rng.Intn(len(c18Colliding))]
			}
		}
		off := 0
		if n > 12 {
			off = rng.Intn(n - 11)
		}
		for i := range pr[0] {
			x = append(x, pr[0][i]+off)
			y = append(y, pr[1][i]+off)
		}
	}
	adj[u] = append(adj[u], x...)
	adj2[u] = append(adj2[u], y...)
	if rng.Intn(4) != 0 {
		rng.ShuffleI(adj[u])
		rng.ShuffleI(adj2[u])
	}
	return adj, adj2
}

// c18RandMid draws a sparse multigraph of 61..999 nodes: node ids cross the
// 64-, 128-, 256- and 512-boundaries of anything that packs ids into words.
func c18RandMid(rng *mon.Rand) [][]int {
	var n int
	switch rng.Intn(4) {
	case 0:
		n = rng.PickI(61, 63, 64, 65, 66, 70, 100, 127, 128, 129, 130, 191, 192, 193, 255, 256, 257, 511, 512, 513, 640, 998, 999)
	case 1:
		n = rng.Range(61, 140)
	default:
		n = rng.Range(61, 999)
	}
	adj := make([][]int, n)
	switch rng.Intn(4) {
	case 0: // sparse random
		for u := range adj {
			for k := rng.PickI(0, 1, 1, 1, 2, 3, 4); k > 0; k-- {
				adj[u] = append(adj[u], rng.Intn(n))
			}
		}
	case 1: // clusters (cycles) with repeated cross edges
		p := rng.Perm(n)
		var cl [][]int
		for i := 0; i < n; {
			sz := 1 + rng.Intn(6)
			if i+sz > n {
				sz = n - i
			}
			c := p[i : i+sz]
			cl = append(cl, c)
			if sz > 1 {
				for k := range c {
					adj[c[k]] = append(adj[c[k]], c[(k+1)%sz])
				}
			}
			i += sz
		}
		back := rng.Intn(4) == 0
		for k := rng.Intn(2*len(cl) + 1); k > 0; k-- {
			a, b := rng.Intn(len(cl)), rng.Intn(len(cl))
			if a == b || (a > b && !back) {
				continue
			}
			for r := 1 + rng.Intn(3); r > 0; r-- {
				u := cl[a][rng.Intn(len(cl[a]))]
				adj[u] = append(adj[u], cl[b][rng.Intn(len(cl[b]))])
			}
		}
	case 2: // DAG along a random order plus a few back edges
		pos := rng.Perm(n)
		for u := range adj {
			for k := rng.Intn(5); k > 0; k-- {
				if v := rng.Intn(n); pos[v] > pos[u] {
					adj[u] = append(adj[u], v)
				}
			}
		}
		for k := rng.Intn(4); k > 0; k-- {
			u := rng.Intn(n)
			adj[u] = append(adj[u], rng.Intn(n))
		}
	default: // functional graph, some edges doubled, a few hubs with many distinct targets
		for u := range adj {
			v := rng.Intn(n)
			adj[u] = append(adj[u], v)
			if rng.Intn(5) == 0 {
				adj[u] = append(adj[u], v, rng.Intn(n))
			}
		}
		for k := 1 + rng.Intn(3); k > 0; k-- {
			u := rng.Intn(n)
			for _, v := range rng.Perm(n)[:rng.Range(20, 60)] {
				adj[u] = append(adj[u], v)
			}
		}
	}
	if rng.Intn(3) == 0 {
		for k := 1 + rng.Intn(3); k > 0; k-- {
			u := rng.Intn(n)
			adj[u] = append(adj[u], u)
		}
	}
	for u, l := range adj {
		if l == nil {
			adj[u] = []int{}
		}
		rng.ShuffleI(adj[u])
	}
	return adj
}

// c18LargeDeltas draws partners for Equal on a large structured graph: one
// target moved by +-64, +-128, +-1024, +-65536 or with one bit flipped, two
// compensating edits in one list, and a reshuffled (equal) copy.
func c18LargeDeltas(rng *mon.Rand, adj [][]int) []c18EqDelta {
	n := len(adj)
	var ds []c18EqDelta
	pickNode := func(minLen int) int {
		for t := 0; t < 64; t++ {
			if u := rng.Intn(n); len(adj[u]) >= minLen {
				return u
			}
		}
		for u := range adj {
			if len(adj[u]) >= minLen {
				return u
			}
		}
		return -1
	}
	steps := []int{64, -64, 128, -128, 1024, -1024, 65536, -65536}
	for k := 0; k < 2; k++ {
		u := pickNode(1)
		if u < 0 {
			break
		}
		a := rng.Intn(len(adj[u]))
		t := adj[u][a]
		var cand []int
		for _, d := range steps {
			if t+d >= 0 && t+d < n {
				cand = append(cand, t+d)
			}
		}
		for _, b := range []uint{6, 7, 10, 16} {
			if t^(1<<b) < n {
				cand = append(cand, t^(1<<b))
			}
		}
		if len(cand) > 0 {
			ds = append(ds, c18EqDelta{Set: [][3]int{{u, a, cand[rng.Intn(len(cand))]}}, Shuf: uint64(rng.Intn(2)) * (1 + rng.Uint64()%1000)})
		}
	}
	if u := pickNode(2); u >= 0 {
		l := adj[u]
		a := rng.Intn(len(l))
		b := (a + 1 + rng.Intn(len(l)-1)) % len(l)
		for _, d := range []int{64, 1, 65536, 1024, 2, 3} {
			if l[a]+d < n && l[b]-d >= 0 && l[a]+d != l[b] {
				ds = append(ds, c18EqDelta{Set: [][3]int{{u, a, l[a] + d}, {u, b, l[b] - d}}})
				break
			}
		}
	}
	ds = append(ds, c18EqDelta{Shuf: 1 + rng.Uint64()%1000})
	return ds
}

// c18RandWeights draws edge weights: small dyadic numbers (every sum is
// exact in any order), or numbers that need all 53 bits and span many
// magnitudes (sums are judged with a rounding allowance).
func c18RandWeights(rng *mon.Rand, adj [][]int) [][]mon.F {
	wt := make([][]mon.F, len(adj))
	// 0,1 dyadic; 2 decimal fractions; 3 wide magnitudes; 4 mixed; 5 some
	// weights infinite (of one sign, or of both); 6 finite weights up to
	// MaxFloat64, whose sums overflow
	mode := rng.Intn(7)
	infSign := rng.PickI(1, 1, -1, 0) // mode 5: sign of the infinities, 0 = both
	for u, l := range adj {
		wt[u] = make([]mon.F, len(l))
		for k := range l {
			m := mode
			if m == 4 || m == 5 {
				m = 1 + rng.Intn(3)
			}
			var x float64
			switch m {
			case 0, 1:
				x = float64(rng.Intn(129)) / 8 // dyadic, 0..16
			case 2:
				x = rng.Pick(0.1, 0.2, 0.3, 1.0/3, 2.0/3, 0.7, 1e-3, math.Pi, 1<<24+1, 1<<53-1, 1e9+0.5, float64(rng.Intn(1000))/10, rng.Float64())
			case 6:
				x = rng.Pick(math.MaxFloat64, math.MaxFloat64, 1e308, 0x1p1023, math.MaxFloat64/2, 0x1p1022, 6e307, 1e307, 1e300, 1e292, 1, 0.1, math.Min(rng.LogUniform(1e290, 1.7e308), math.MaxFloat64))
				if rng.Intn(4) == 0 {
					x = -x
				}
			default:
				x = rng.Pick(1e-50, 1e50, 2.5e-40, 3e38, 7e-46, 1e-30, 1e30, 1, 0.1, rng.LogUniform(1e-50, 1e50), rng.LogUniform(1e-50, 1e50))
			}
			if rng.Intn(6) == 0 {
				x = -x
			}
			if mode == 5 && rng.Intn(3) == 0 {
				sg := infSign
				if sg == 0 {
					sg = rng.PickI(1, -1)
				}
				x = math.Inf(sg)
			}
			wt[u][k] = mon.F(x)
		}
	}
	return wt
}

// c18SmallDyadic: every weight is a multiple of 1/8 of magnitude <= 1024, so
// that any sum of fewer than 2^30 of them is exact in every order.
func c18SmallDyadic(ws []float64) bool {
	for _, x := range ws {
		if !(math.Abs(x) <= 1024) || x*8 != math.Trunc(x*8) {
			return false
		}
	}
	return true
}

// c18FillExtras adds the seeded parts of a small-graph case.
func c18FillExtras(rng *mon.Rand, c *c18Case) {
	if c.Parts&c18pSimp != 0 && rng.Intn(10) < 6 {
		c.Wt = c18RandWeights(rng, c.Adj)
	}
	if c.Parts&c18pEqual != 0 {
		c.Eq = c18EqPartners(rng, c.Adj)
	}
	if c.Parts&c18pSub != 0 {
		c.Sub = c18RandSub(rng, c.Adj)
	}
	if c.Parts&c18pDot != 0 {
		c.Dot = c18RandDot(rng, c.Adj)
		if rng.Bool() {
			c.Dot.Fail = 1 + rng.Intn(1<<20)
		}
	}
	// how the library sees the graph: Go type and storage of the lists
	c.Rep = rng.PickI(0, 0, 0, 2, 2, 1)
	c.Lay = rng.PickI(0, 0, 1, 2, 2, 3)
	if c.Parts == c18pAll && rng.Intn(4) == 0 {
		c.Feed = 1 + rng.Uint64()>>1
	}
}

// c18RandGraph draws a multigraph of at most 60 nodes.
func c18RandGraph(rng *mon.Rand) [][]int {
	var n int
	switch rng.Intn(10) {
	case 0, 1, 2:
		n = rng.Range(1, 6)
	case 3, 4, 5, 6:
		n = rng.Range(7, 25)
	default:
		n = rng.Range(26, 60)
	}
	adj := make([][]int, n)
	switch rng.Intn(6) {
	case 0: // sparse, around the giant-component threshold
		for u := range adj {
			for k := rng.PickI(0, 1, 1, 1, 2, 3); k > 0; k-- {
				adj[u] = append(adj[u], rng.Intn(n))
			}
		}
	case 1: // dense
		for u := range adj {
			for k := rng.Intn(n + 1); k > 0; k-- {
				adj[u] = append(adj[u], rng.Intn(n))
			}
		}
	case 2: // clusters (cycles) with several cross edges between the same clusters
		p := rng.Perm(n)
		var cl [][]int
		for i := 0; i < n; {
			sz := 1 + rng.Intn(5)
			if i+sz > n {
				sz = n - i
			}
			c := p[i : i+sz]
			cl = append(cl, c)
			if sz > 1 {
				for k := range c {
					adj[c[k]] = append(adj[c[k]], c[(k+1)%sz])
				}
			}
			i += sz
		}
		back := rng.Intn(4) == 0
		for k := rng.Intn(2*len(cl) + 1); k > 0; k-- {
			a, b := rng.Intn(len(cl)), rng.Intn(len(cl))
			if a == b || (a > b && !back) {
				continue
			}
			for r := 1 + rng.Intn(4); r > 0; r-- {
				u := cl[a][rng.Intn(len(cl[a]))]
				adj[u] = append(adj[u], cl[b][rng.Intn(len(cl[b]))])
			}
		}
	case 3: // heavy parallel edges
		for u := range adj {
			pool := []int{rng.Intn(n), rng.Intn(n), rng.Intn(n)}[:1+rng.Intn(3)]
			for k := rng.Intn(9); k > 0; k-- {
				adj[u] = append(adj[u], pool[rng.Intn(len(pool))])
			}
		}
	case 4: // DAG along a random order plus a few back edges
		pos := rng.Perm(n)
		for u := range adj {
			for k := rng.Intn(4); k > 0; k-- {
				v := rng.Intn(n)
				if pos[v] > pos[u] {
					adj[u] = append(adj[u], v)
				}
			}
		}
		for k := rng.Intn(3); k > 0; k-- {
			u := rng.Intn(n)
			adj[u] = append(adj[u], rng.Intn(n))
		}
	default: // functional graph with some duplicated edges
		for u := range adj {
			v := rng.Intn(n)
			adj[u] = append(adj[u], v)
			if rng.Intn(4) == 0 {
				adj[u] = append(adj[u], v, rng.Intn(n))
			}
		}
	}
	if rng.Intn(3) == 0 { // self-loops
		for k := 1 + rng.Intn(3); k > 0; k-- {
			u := rng.Intn(n)
			adj[u] = append(adj[u], u)
		}
	}
	for _, l := range adj {
		rng.ShuffleI(l)
	}
	return adj
}

// ---- workload --------------------------------------------------------------

func c18MatrixAdj(n int, bits uint64) [][]int {
	adj := make([][]int, n)
	for u := 0; u < n; u++ {
		row := (bits >> uint(u*n)) & (1<<uint(n) - 1)
		l := make([]int, 0, n)
		for v := 0; v < n; v++ {
			if row&(1<<uint(v)) != 0 {
				l = append(l, v)
			}
		}
		adj[u] = l
	}
	return adj
}

// c18ListByIndex enumerates the sequences over {0..n-1} of length <= 3:
// index 0 is the empty list, then length 1, 2, 3 in lexicographic order.
func c18ListByIndex(n, idx int) []int {
	l := []int{}
	size := 1
	for length := 0; ; length++ {
		if idx < size {
			for k := 0; k < length; k++ {
				l = append(l, 0)
			}
			for k := length - 1; k >= 0; k-- {
				l[k] = idx % n
				idx /= n
			}
			return l
		}
		idx -= size
		size *= n
	}
}

func c18AllRoots(n int) []int {
	r := make([]int, n)
	for i := range r {
		r[i] = i
	}
	return r
}

func c18GenMarks(rng *mon.Rand, idx int) [][2]int {
	uni := idx % 8
	var ever []int
	draw := func() int {
		u := uni
		if u == 7 {
			u = rng.Intn(7)
		}
		switch u {
		case 0:
			return rng.Intn(71)
		case 1:
			return rng.Intn(301)
		case 2:
			return 32*rng.Intn(41) + rng.Range(-1, 1) + 1
		case 3:
			return rng.Range(960, 1100)
		case 4:
			return 1<<uint(rng.Range(10, 17)) + rng.Range(-2, 2)
		case 5:
			return rng.Intn(5001)
		default:
			return rng.Intn(200001)
		}
	}
	near := func() int {
		if len(ever) > 0 && rng.Intn(10) < 6 {
			return ever[rng.Intn(len(ever))] + rng.PickI(0, 0, 0, 1, -1, 32, -32)
		}
		return draw()
	}
	var ops [][2]int
	if idx%3 == 0 && (idx/3)%2 == 0 {
		// (zero-value histories) the first Mark lands on or next to a word
		// count that is a power of two
		i := 32<<uint(rng.Intn(5)) + rng.PickI(0, 0, 0, -1, 1)
		ever = append(ever, i)
		ops = append(ops, [2]int{c18Mark, i}, [2]int{c18Iter, 0})
	}
	if idx%4 == 1 {
		// Unmark far beyond anything ever marked, on a fresh set
		ops = append(ops, [2]int{c18Unmark, 4096 + rng.Intn(100000)}, [2]int{c18Iter, 0})
	}
	nops := rng.Range(20, 160)
	if uni == 1 {
		nops = rng.Range(10, 60)
	}
	for k := 0; k < nops; k++ {
		switch r := rng.Intn(100); {
		case r < 42:
			i := draw()
			if i < 0 {
				i = 0
			}
			ever = append(ever, i)
			ops = append(ops, [2]int{c18Mark, i})
		case r < 65:
			i := near()
			if i < 0 {
				i = 0
			}
			ops = append(ops, [2]int{c18Unmark, i})
		case r < 78:
			i := near()
			if rng.Intn(12) == 0 {
				i = -rng.Range(1, 70)
			}
			ops = append(ops, [2]int{c18Test, i})
		case r < 93:
			i := near()
			if rng.Intn(10) == 0 {
				i = -rng.Range(1, 70)
			}
			ops = append(ops, [2]int{c18Next, i})
		default:
			ops = append(ops, [2]int{c18Iter, 0})
		}
	}
	if idx%16 == 3 && len(ever) > 0 {
		// a late Unmark far beyond the capacity any doubling scheme has reached
		mx := 0
		for _, e := range ever {
			if e > mx {
				mx = e
			}
		}
		ops = append(ops, [2]int{c18Unmark, 4*(mx+1024) + rng.Intn(1000)}, [2]int{c18Iter, 0})
	}
	ops = append(ops, [2]int{c18Iter, 0})
	return ops
}

func c18Run(r *mon.Run) {
	r.Rule("graphs: every digraph on <=4 nodes (adjacency matrix, self-loops included) and every multigraph on <=3 nodes with out-degree <=3 in every adjacency order, each with every root and all oracles; digraphs on 5 nodes (quick: fixed 2^17 subsample, thorough: all 2^25) with orders/Euler/SCC/SimplifyMulti/MakeBiGraph; all ordered pairs of multigraphs on <=2 nodes for Equal; seeded random multigraphs <=60 nodes; seeded random multigraphs of 61..999 nodes; structured graphs of 1000..100000 nodes (Equal on all of them, Subgraph* and Dot on the smaller ones); generated random multigraphs of 1000..100000 nodes (sizes at and just beyond powers of two, 1000, 5000, 10000, 20000, 50000, 100000, then log-uniform sizes; up to several 100000 edges; parallel edges to an earlier successor with other successors between, self-loops; hubs with up to 60000 edges over up to tens of thousands of distinct successors) with seeded dyadic and general weights: orders/Euler/SCC/SimplifyMulti/MakeBiGraph/Equal on all, Subgraph* on those of <=20000 nodes and every fourth larger one, Dot on a quarter of those of <=20000 nodes; Equal on all ordered pairs of 3-node multigraphs differing in one list and on crafted pairs whose lists agree in length, sum, xor, sum of squares or residues mod 64; subgraphs of subgraphs and other library results handed back as input graphs; argument slices of SubgraphKeep/SubgraphRemove overwritten after the call; one Dot.Print call on a seeded random multigraph with standard output redirected; NodeMarks histories against a set model; DotString on all strings of <=3 bytes over a 14-byte hostile alphabet plus seeded hostile strings. Non-trivial: a case hitting any class; distinct by hash of the graph, roots and selections (or of the history/string).")
	r.Assume("reference: iterative definitional DFS, BFS reachability, mutual-reachability SCC (<=64 nodes) and iterative Kosaraju (large), cross-checked at start-up; Dot text is read back by a small tokenizer/parser with backslash unescaping",
		"Dot node ids are assumed to be written n<i>; attribute and edge order in the text is free",
		"in-domain inputs only: node ids >= 0 for Mark/Unmark, SubgraphKeep edges between kept nodes without duplicates (SubgraphRemove lists may repeat entries: removal is by set)",
		"strings (graph name, Label results, string attribute values) must appear as quoted strings; int/uint/float64/DotLiteral values as bare words; the default label (Label nil) may be a quoted or a bare numeral",
		"adjacency lists of more than 48 edges are judged for SimplifyMulti through a map from successor to (count, weights in adjacency order), the same quantities the quadratic scans give for short lists",
		"merged weights: exact for an edge without parallel partner, for unweighted graphs and for small dyadic weights; otherwise within 4*(cnt-1)*2^-53*sum|w| of the exact sum",
		"weights are any float64 except NaN: parallel edges with infinite weights of one sign sum to that infinity, of both signs to NaN; for finite weights near MaxFloat64 no order of summation is assumed: +Inf (-Inf) is accepted whenever the positive (negative) weights alone reach the overflow threshold, NaN only when both do, a finite result must be within the allowance of the exact sum",
		"the library sees a graph as a pointer to a struct, as its own graph.IntGraph or as a struct value (the latter two are not comparable with ==), the same for both arguments of Equal; Equal(g, g) is true",
		"the lists returned by Out may be sub-slices of one array, with capacity running over the lists stored behind them (as in the library's own compressed results): a call after which the content (multiset) of another list has changed is a violation; reordering a list in place and writes into an unused tail are only noted",
		"Dot.Fprint into a recording writer must give a text that passes the same read-back oracles as Sprint and return nil; into a writer that fails after k bytes it must return a non-nil error and not panic; Dot.Print is called once per run with file descriptor 1 redirected to a temporary file and its text must pass the same oracles",
		"NodeMarks histories start from NewNodeMarks() or from the zero value of the exported type",
		"the slices returned by NodeAttrs/EdgeAttrs may share one backing array and have spare capacity: the elements of other lists must not be overwritten")
	r.Gate("node-id>=1024-visited", "parallel-edges", "self-loop-on-root", "unreachable-nodes",
		"scc-multi-edge-between-components", "unmark-beyond-capacity",
		"first-visited-id>=1024", "mark-id>=1024", "mark-jump-over-growth-step",
		"dot-hostile-string", "dot-literal-backslash-n", "dot-label-from-attrs", "dot-edge-attrs",
		"subgraph-remove-edge-index-shift", "subgraph-remove-node-id-shift", "subgraph-keep-permuted-nodes",
		"equal-same-set-different-multiset", "equal-true-permuted-lists", "weighted-parallel",
		"weighted-nondyadic", "weighted-parallel-inexact-sum", "weighted-parallel-wide-magnitudes",
		"marks-zero-value-start", "zero-value-first-mark", "zero-value-mark-at-power-of-two-word",
		"subgraph-remove-repeated-node", "subgraph-remove-repeated-node-below-kept-edge-target", "subgraph-remove-repeated-edge",
		"dot-string-is-plain-identifier", "dot-string-is-reserved-word",
		"dot-shared-attr-array", "dot-shared-label-append-before-next-region",
		"graph-rep-intgraph", "graph-rep-by-value-struct", "graph-layout-packed", "graph-layout-packed-spare-tail",
		"equal-same-value-twice", "equal-packed-permuted-list-before-other-lists",
		"weighted-parallel-infinite", "weighted-parallel-both-infinities",
		"weighted-parallel-sum-overflows", "weighted-parallel-order-dependent-overflow",
		"dot-fprint-failing-writer", "dot-print-stdout",
		"equal-false-lists-of-same-length-and-sum", "equal-false-lists-of-same-length-and-xor",
		"equal-false-lists-of-same-sum-and-sum-of-squares", "equal-false-lists-with-same-residues-mod-64",
		"equal-false-one-target-moved-by-multiple-of-64", "equal-false-same-targets-overall-different-per-node",
		"equal-target-id>=64", "equal-target-id>=65536", "equal-graph>60-nodes", "subgraph-graph>60-nodes",
		"midsize-graph-61..999-nodes", "large-graph-equal", "large-graph-subgraph", "large-graph-dot",
		"subgraph-argument-slices-overwritten-after-call", "subgraph-of-subgraph", "subgraph-of-renumbered-subgraph",
		"subgraph-remove-nothing-from-subgraph", "subgraph-remove-nothing-from-renumbered-subgraph",
		"library-result-as-input-graph", "library-result-as-input-graph-simplified", "library-result-as-input-graph-scc",
		"library-result-as-input-graph-bigraph", "library-result-as-input-graph-subgraph",
		"large-multigraph-size-at-round-number", "large-multigraph-size-log-uniform",
		"large-multigraph-parallel-edges-with-other-successors-between", "large-multigraph-nodes>=10000",
		"large-multigraph-edges>=50000", "large-multigraph-distinct-targets>=10000",
		"large-multigraph-list>=5000-distinct-successors", "large-multigraph-subgraph", "large-multigraph-dot",
		"simplify-long-adjacency-list")
	if err := ref.GSelfTest(); err != nil {
		r.Inconclusive("reference self-test failed: " + err.Error())
		return
	}

	// P: Dot.Print, one call with standard output redirected, before anything
	// else runs or prints
	r.Serial("dot-print-stdout", 1, func(w *mon.W, i int) {
		adj := c18RandGraph(w.Rng)
		c := &c18Case{Kind: "print", Adj: adj, Dot: c18RandDot(w.Rng, adj), Rep: w.Rng.PickI(0, 2), Lay: w.Rng.Intn(4)}
		c18Judge(w, c)
	})

	// A: every digraph on <= 4 nodes
	offs := []int{0, 1, 3, 19, 531, 66067}
	r.Exhaustive("every digraph on 0..4 nodes (all 2^(n*n) adjacency matrices) with every root: all oracles")
	r.Parallel("digraphs-n<=4", offs[5], func(w *mon.W, i int) {
		n := 0
		for i >= offs[n+1] {
			n++
		}
		c := &c18Case{Kind: "g", Adj: c18MatrixAdj(n, uint64(i-offs[n])), Roots: c18AllRoots(n), Parts: c18pAll}
		c18FillExtras(w.Rng, c)
		c18Judge(w, c)
	})

	// B: every multigraph on <= 3 nodes with out-degree <= 3, every adjacency order
	moffs := []int{0, 4, 229, 64229}
	r.Exhaustive("every multigraph on 1..3 nodes with out-degree <=3, every ordering of every adjacency list, every root: all oracles")
	r.Parallel("multigraphs-n<=3", moffs[3], func(w *mon.W, i int) {
		n := 1
		for i >= moffs[n] {
			n++
		}
		k := i - moffs[n-1]
		L := 1 + n + n*n + n*n*n
		adj := make([][]int, n)
		for u := 0; u < n; u++ {
			adj[u] = c18ListByIndex(n, k%L)
			k /= L
		}
		c := &c18Case{Kind: "g", Adj: adj, Roots: c18AllRoots(n), Parts: c18pAll}
		c18FillExtras(w.Rng, c)
		c18Judge(w, c)
	})

	// C: digraphs on 5 nodes
	cheap := c18pOrders | c18pSCC | c18pSimp | c18pBi
	if r.Quick {
		r.Exhaustive("NOT exhaustive at n=5 in the quick tier: a fixed subsample of 2^17 of the 2^25 adjacency matrices (k*0x9E3779B1 mod 2^25), every root")
		r.Parallel("digraphs-n5-sample", 1<<17, func(w *mon.W, k int) {
			bits := (uint64(k) * 0x9E3779B1) & (1<<25 - 1)
			c := &c18Case{Kind: "g", Adj: c18MatrixAdj(5, bits), Roots: c18AllRoots(5), Parts: cheap, Rep: [6]int{0, 2, 0, 1, 0, 2}[k%6], Lay: (k / 6) % 4}
			if k%8 == 0 {
				c.Parts = c18pAll
				c18FillExtras(w.Rng, c)
			}
			c18Judge(w, c)
		})
	} else {
		r.Exhaustive("every digraph on 5 nodes (all 2^25 adjacency matrices) with every root: PreOrder, PostOrder, Reverse, Euler, SCC (three flag sets), SimplifyMulti, MakeBiGraph; Equal/Subgraph/Dot on every 64th matrix only")
		r.Extra("n5_matrices_enumerated", 1<<25)
		r.Parallel("digraphs-n5", 1<<15, func(w *mon.W, chunk int) {
			for k := 0; k < 1<<10; k++ {
				bits := uint64(chunk)<<10 | uint64(k)
				c := &c18Case{Kind: "g", Adj: c18MatrixAdj(5, bits), Roots: c18AllRoots(5), Parts: cheap, Rep: [6]int{0, 2, 0, 1, 0, 2}[k%6], Lay: (k / 6) % 4}
				c.noDistinct = k%64 != 17
				if k%64 == 17 {
					c.Parts = c18pAll
					c18FillExtras(w.Rng, c)
				}
				c18Judge(w, c)
			}
		})
	}

	// H: Equal on all ordered pairs of small multigraphs
	var small [][][]int
	small = append(small, [][]int{})
	for n := 1; n <= 2; n++ {
		L := 1 + n + n*n + n*n*n
		tot := L
		if n == 2 {
			tot = L * L
		}
		for k := 0; k < tot; k++ {
			adj := make([][]int, n)
			kk := k
			for u := 0; u < n; u++ {
				adj[u] = c18ListByIndex(n, kk%L)
				kk /= L
			}
			small = append(small, adj)
		}
	}
	r.Exhaustive(fmt.Sprintf("Equal on all %d ordered pairs of multigraphs on 0..2 nodes with out-degree <=3, each pair as *struct, graph.IntGraph and struct value, with separate lists and with the three one-array layouts; Equal(g, g) for each", len(small)*len(small)))
	r.Parallel("equal-pairs", len(small)*12, func(w *mon.W, i int) {
		// every pair in each of the 3 representations x 4 storage layouts
		k := i / len(small)
		c := &c18Case{Kind: "g", Adj: small[i%len(small)], Parts: c18pEqual, Eq: small, Rep: k % 3, Lay: k / 3}
		c18Judge(w, c)
	})

	// H2: Equal on all ordered pairs of graphs on 3 nodes that differ in one
	// node's list only (any list of length <= 3 over {0,1,2})
	var lists3 [][]int
	for k := 0; k < 1+3+9+27; k++ {
		lists3 = append(lists3, c18ListByIndex(3, k))
	}
	fixed3 := [][]int{{2, 0}, {1}, {0, 1, 2}}
	r.Exhaustive(fmt.Sprintf("Equal on all %d ordered pairs of multigraphs on 3 nodes in which one node (each of the three in turn) has any list of length <=3 and the other two nodes have fixed lists, in the three representations and four layouts", 3*len(lists3)*len(lists3)))
	r.Parallel("equal-pairs-3-nodes", len(lists3)*3*12, func(w *mon.W, i int) {
		li, pos, k := i%len(lists3), (i/len(lists3))%3, i/(3*len(lists3))
		mk := func(l []int) [][]int {
			g := c18CloneAdj(fixed3)
			g[pos] = append([]int{}, l...)
			return g
		}
		eq := make([][][]int, len(lists3))
		for q, l := range lists3 {
			eq[q] = mk(l)
		}
		c := &c18Case{Kind: "g", Adj: mk(lists3[li]), Parts: c18pEqual, Eq: eq, Rep: k % 3, Lay: k / 3}
		c18Judge(w, c)
	})

	// H3: crafted unequal pairs: one node's lists differ as multisets but agree
	// in length and sum / xor / sum of squares / residues mod 64
	r.Parallel("equal-crafted-pairs", r.Pick(2500, 25000), func(w *mon.W, i int) {
		rng := w.Rng
		adj, adj2 := c18CraftedPair(rng)
		shuf := c18CloneAdj(adj)
		for _, l := range shuf {
			rng.ShuffleI(l)
		}
		c := &c18Case{Kind: "g", Adj: adj, Parts: c18pEqual, Eq: [][][]int{adj2, shuf}, Rep: rng.PickI(0, 0, 2, 1), Lay: rng.PickI(0, 0, 1, 2, 3)}
		if hard := c18EqHard(rng, adj, rng.Intn(5)); hard != nil && rng.Bool() {
			c.Eq = append(c.Eq, hard)
		}
		c18Judge(w, c)
	})

	// D2: random multigraphs of 61..999 nodes: every oracle, one or two roots
	r.Parallel("random-midsize-graphs", r.Pick(1200, 12000), func(w *mon.W, i int) {
		rng := w.Rng
		adj := c18RandMid(rng)
		n := len(adj)
		c := &c18Case{Kind: "g", Adj: adj, Parts: c18pAll}
		if i%3 != 0 {
			c.Parts &^= c18pDot
		}
		c.Roots = []int{rng.Intn(n)}
		if rng.Intn(3) == 0 {
			c.Roots = append(c.Roots, rng.Intn(n))
		}
		c18FillExtras(rng, c)
		if c.Sub != nil && c.Sub.Nest == nil && i%2 == 0 {
			c.Sub.Nest = c18RandNest(rng, adj, c.Sub)
		}
		if i%4 == 1 {
			c.Feed = 1 + rng.Uint64()>>1
		}
		w.Hit("midsize-graph-61..999-nodes")
		c18Judge(w, c)
	})

	// D: random multigraphs
	r.Parallel("random-multigraphs", r.Pick(20000, 200000), func(w *mon.W, i int) {
		rng := w.Rng
		adj := c18RandGraph(rng)
		n := len(adj)
		c := &c18Case{Kind: "g", Adj: adj, Parts: c18pAll}
		root := rng.Intn(n)
		if rng.Intn(6) == 0 {
			adj[root] = append(adj[root], root)
			rng.ShuffleI(adj[root])
		}
		c.Roots = []int{root}
		if rng.Intn(3) == 0 {
			c.Roots = append(c.Roots, rng.Intn(n))
		}
		c18FillExtras(rng, c)
		c18Judge(w, c)
	})

	// E: structured large graphs; ids cross every power-of-two boundary of the mark set
	sizes := []int{1000, 1023, 1024, 1025, 1056, 2047, 2048, 2049, 4097, 8193, 33000, 65537, 100000}
	type lc struct {
		shape string
		n     int
	}
	var lcs []lc
	for _, s := range c18Shapes {
		for _, n := range sizes {
			lcs = append(lcs, lc{s, n})
		}
	}
	reps := r.Pick(1, 4)
	r.Parallel("structured-large", len(lcs)*reps, func(w *mon.W, i int) {
		l := lcs[i%len(lcs)]
		param := uint64(i/len(lcs))*1000003 + w.Rng.Uint64()%1000
		ladj, root := c18Shape(l.shape, l.n, param)
		c := &c18Case{Kind: "large", Shape: l.shape, N: l.n, Param: param, Roots: []int{root, w.Rng.Intn(l.n)},
			Parts: c18pOrders | c18pSCC | c18pSimp | c18pBi, Rep: w.Rng.PickI(0, 0, 0, 2, 2, 1)}
		w.Hit("large-" + l.shape)
		// Equal on every large graph; Subgraph* up to 8193 nodes and on two
		// shapes at every size; Dot up to 2049 nodes
		c.Parts |= c18pEqual
		c.EqD = c18LargeDeltas(w.Rng, ladj)
		w.Hit("large-graph-equal")
		if l.n <= 8193 || l.shape == "layered" || l.shape == "sccchain" {
			c.Parts |= c18pSub
			c.Sub = c18RandSub(w.Rng, ladj)
			if c.Sub.Nest == nil && i%2 == 0 {
				c.Sub.Nest = c18RandNest(w.Rng, ladj, c.Sub)
			}
			w.Hit("large-graph-subgraph")
		}
		if l.n <= 2049 {
			c.Parts |= c18pDot
			c.Dot = c18RandDot(w.Rng, ladj)
			w.Hit("large-graph-dot")
		}
		c18Judge(w, c)
	})

	// E2: random multigraphs of 1000..100000 nodes (scale-triggered behaviour:
	// blocks, caches, flushes, counters): sizes at and just beyond round
	// numbers, then log-uniform sizes
	msizes := []int{1000, 1024, 1025, 2048, 2049, 4096, 4097, 5000, 5001, 8192, 8193, 10000, 10001, 16384, 16385, 20000, 32768, 32769, 50000, 65536, 65537, 100000}
	nround := len(msizes) * len(c18MultiShapes) * r.Pick(1, 3)
	r.Parallel("large-multigraphs", nround+r.Pick(24, 400), func(w *mon.W, i int) {
		rng := w.Rng
		shape := c18MultiShapes[i%len(c18MultiShapes)]
		var n int
		if i < nround {
			n = msizes[(i/len(c18MultiShapes))%len(msizes)]
			w.Hit("large-multigraph-size-at-round-number")
		} else {
			n = int(rng.LogUniform(1000, 100000))
			w.Hit("large-multigraph-size-log-uniform")
		}
		param := uint64(i)*1000003 + rng.Uint64()%1000
		ladj, root := c18Shape(shape, n, param)
		c := &c18Case{Kind: "large", Shape: shape, N: n, Param: param, Roots: []int{root, rng.Intn(n)},
			Parts: c18pOrders | c18pSCC | c18pSimp | c18pBi | c18pEqual, Rep: rng.PickI(0, 0, 0, 2, 2, 1),
			WtSeed: 1 + rng.Uint64()>>1}
		w.Hit("large-" + shape)
		c18MultiClasses(w, ladj)
		c.EqD = c18LargeDeltas(rng, ladj)
		if n <= 20000 || i%4 == 0 {
			c.Parts |= c18pSub
			c.Sub = c18RandSub(rng, ladj)
			if c.Sub.Nest == nil && i%2 == 0 {
				c.Sub.Nest = c18RandNest(rng, ladj, c.Sub)
			}
			w.Hit("large-multigraph-subgraph")
		}
		if n <= 20000 && i%4 == 1 {
			c.Parts |= c18pDot
			c.Dot = c18RandDot(rng, ladj)
			w.Hit("large-multigraph-dot")
		}
		c18Judge(w, c)
	})

	// F: NodeMarks histories
	r.Parallel("marks-histories", r.Pick(4000, 40000), func(w *mon.W, i int) {
		// a third of the histories start from the zero value of the exported type
		c := &c18Case{Kind: "marks", Ops: c18GenMarks(w.Rng, i), Zero: i%3 == 0}
		c18Judge(w, c)
	})

	// G: DotString
	alpha := []byte{'"', '\\', '{', '}', '<', '>', '|', '\n', 'n', 'a', ' ', '%', 0xC3, 0xA9}
	na := len(alpha)
	tot := 1 + na + na*na + na*na*na
	r.Exhaustive(fmt.Sprintf("DotString on all %d strings of length <=3 over the bytes %q", tot, alpha))
	r.Parallel("dotstring-exhaustive", tot, func(w *mon.W, i int) {
		idx := c18ListByIndex(na, i)
		s := make([]byte, len(idx))
		for k, x := range idx {
			s[k] = alpha[x]
		}
		c18Judge(w, &c18Case{Kind: "dotstr", S: s})
	})
	r.Parallel("dotstring-random", r.Pick(20000, 200000), func(w *mon.W, i int) {
		var s []byte
		for k := w.Rng.Intn(4); k >= 0; k-- {
			s = append(s, c18HostileStr(w.Rng)...)
		}
		c18Judge(w, &c18Case{Kind: "dotstr", S: s})
	})
}
